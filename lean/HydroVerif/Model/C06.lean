/-
C06 — model of the flow-direction routines of hydrodiy:
`c_upstream`, `c_downstream` (c_grid.c), `c_delineate_area`, `c_delineate_river`,
`c_delineate_flowpathlengths_in_catchment` (c_catchment.c) and the hole-filling arithmetic of
`Catchment.delineate_area` (grid.py).

Also here (round 7): the call with its defaults (`delineateAreaPy`), the definitions the theorems are STATED with —
`Bfs.walk`, `downStep`, `Reaches`, `chainCell`, `chainSteps`, `chainCells`, `GoesOn`, `reachArea` (the area by brute
force over the grid), `countBy` — so that the driver runs them against the real code too, and the read-only calls of a
`Catchment` object (`HistQuery`, `histQuery`) interleaved with the state-changing ones (`HistCall`, `callRun`).

No Mathlib. Everything is total and computable. The integer grid core (cell <-> (row, col), `validCell`,
`neighbour k`) is imported from `Model/C07.lean`; the direction-code table the Python side passes to the
kernels is `HydroVerif.Generated.FlowDir.codes`, regenerated from `grid.py` on every run — the functions
below take the table as their first argument (`codes`), exactly as the kernels take `flowdircode`.

Conventions: C `long long` is `Int`; a flow-direction grid is a function `fd : Int → Int` (`flowdir[idx]`)
— by construction every function here reads it only at a cell that passed the validity guard or came out of
the neighbour table as a value `≠ -1` (a valid cell: `neighbour_valid`); the driver supplies the array lookup.
-/
import HydroVerif.Num
import HydroVerif.Model.C07
import HydroVerif.Generated.FlowDir

namespace HydroVerif.C06
open HydroVerif.C07 (validCell colOf rowOf neighbour cell2rowcol)

/-- the error exits, in the order of the `return ..._ERROR + __LINE__` statements -/
inductive Err
  /-- `c_upstream` / `c_downstream` / `c_delineate_river`: cell number outside `0 .. nrows*ncols-1` -/
  | badCell
  /-- `c_delineate_area`: `nval < 1` -/
  | badNval
  /-- `c_delineate_area`: outlet outside the grid -/
  | badOutlet
  /-- `c_delineate_area`: an inlet outside the grid -/
  | badInlet
  /-- `c_delineate_area`: `i == nval-1` when a cell is to be stored -/
  | areaFull
  /-- `c_delineate_area`: `nbuffer2 == nval-1` after a cell was stored -/
  | bufferFull
  /-- `c_delineate_area`: `i == nval-1` when the outlet is to be stored after the first layer -/
  | outletFull
  /-- `Catchment.idxcells_area` is `None` (no successful delineation is stored on the object) when
  `compute_flowpathlengths` asks for it -/
  | noArea
  /-- the model's own recursion bound ran out (proved unreachable: `Props/C06.lean`, `delineate_never_out_of_fuel`) -/
  | fuel
  deriving DecidableEq, Repr

/-- a flow-direction grid: `flowdir.shape` and `flowdir[idx]` -/
structure FlowGrid where
  nrows : Int
  ncols : Int
  fd : Int → Int

/-! ## upstream / downstream (c_grid.c) -/

/-- loop body of `c_downstream` for one cell (behind the guard):
`idxdown = -1; if(fd==0) idxdown = -2; else for(j=0..8) if(fd == flowdircode[j]) idxdown = neighbours[j];`
(no `break`: the last matching position wins) -/
def downstreamCell (codes : List Int) (g : FlowGrid) (u : Int) : Int :=
  let f := g.fd u
  if f = 0 then -2
  else (List.range 9).foldl
    (fun acc j => if codes[j]? = some f then neighbour g.nrows g.ncols u j else acc) (-1)

/-- one entry of `c_downstream`: error for a cell outside the grid -/
def downstream (codes : List Int) (g : FlowGrid) (u : Int) : Except Err Int :=
  if validCell g.nrows g.ncols u then .ok (downstreamCell codes g u) else .error .badCell

/-- loop body of `c_upstream` for one cell (behind the guard): the neighbours `j = 0..8` that exist
(`!= -1`), are not sinks (`fd != 0`) and whose code is the mirrored entry `flowdircode[8-j]`,
in the order of `j` -/
def upstreamCells (codes : List Int) (g : FlowGrid) (d : Int) : List Int :=
  (List.range 9).filterMap fun j =>
    let nb := neighbour g.nrows g.ncols d j
    if nb = -1 then none
    else
      let f := g.fd nb
      if f = 0 then none
      else if codes[8 - j]? = some f then some nb else none

/-- one row of `c_upstream` (the cells found; the kernel pads the row of 9 with `-1`, see `upstreamRow`) -/
def upstream (codes : List Int) (g : FlowGrid) (d : Int) : Except Err (List Int) :=
  if validCell g.nrows g.ncols d then .ok (upstreamCells codes g d) else .error .badCell

/-- the row of 9 written to `idxup`: `for(j=k; j<9; j++) idxup[9*i+j] = -1` -/
def upstreamRow (cells : List Int) : List Int := cells ++ List.replicate (9 - cells.length) (-1)

/-- a whole call (`nval` cells): the first cell outside the grid aborts the call -/
def mapCells {β} (f : Int → Except Err β) : List Int → Except Err (List β)
  | [] => .ok []
  | c :: cs => match f c with
    | .error e => .error e
    | .ok b => match mapCells f cs with
      | .error e => .error e
      | .ok bs => .ok (b :: bs)

/-! ## catchment area (c_catchment.c: c_delineate_area) -/

/-- `idxcells_area[0..i)` and `buffer2[0..nbuffer2)` (`i` and `nbuffer2` are the lengths) -/
structure Acc where
  area : List Int
  buf2 : List Int
  deriving Repr

/-- what happens to one entry `idx >= 0` of `idxup`: skipped when it is an inlet, else stored in
`idxcells_area` and `buffer2` between the two buffer-exhaustion exits -/
def store (nval : Int) (inlets : List Int) (st : Acc) (idx : Int) : Except Err Acc :=
  if idx ∈ inlets then .ok st
  else if (st.area.length : Int) = nval - 1 then .error .areaFull
  else if (st.buf2.length : Int) = nval - 1 then .error .bufferFull
  else .ok { area := st.area ++ [idx], buf2 := st.buf2 ++ [idx] }

/-- `for(k=0; k<9; k++) { idx = idxup[k]; if(idx>=0) … }` for one cell of `buffer1`
(the entries `>= 0` of `idxup` are exactly `upstreamCells`) -/
def expandCell (codes : List Int) (g : FlowGrid) (nval : Int) (inlets : List Int)
    (st : Acc) (c : Int) : Except Err Acc :=
  (upstreamCells codes g c).foldlM (store nval inlets) st

/-- `for(l=0; l<nbuffer1; l++)` with `nbuffer2 = 0` at the start -/
def expandLayer (codes : List Int) (g : FlowGrid) (nval : Int) (inlets : List Int)
    (area buf1 : List Int) : Except Err Acc :=
  buf1.foldlM (expandCell codes g nval inlets) { area := area, buf2 := [] }

/-- the `while(nlayer>=0)` loop. The recursion bound stands for nothing in the C text: every
iteration that does not return stores at least one cell, and `i` cannot pass `nval-1`. -/
def areaLoop (codes : List Int) (g : FlowGrid) (outlet : Int) (inlets : List Int) (nval : Int) :
    Nat → Nat → List Int → List Int → Except Err (List Int)
  | 0, _, _, _ => .error .fuel
  | fuel + 1, nlayer, area, buf2 =>
    match expandLayer codes g nval inlets area buf2 with
    | .error e => .error e
    | .ok st =>
      if st.buf2 = [] then .ok st.area
      else if nlayer = 0 then
        if (st.area.length : Int) = nval - 1 then .error .outletFull
        else areaLoop codes g outlet inlets nval fuel (nlayer + 1) (st.area ++ [outlet]) st.buf2
      else areaLoop codes g outlet inlets nval fuel (nlayer + 1) st.area st.buf2

/-- `c_delineate_area`; the result is `idxcells_area[0..i)`, which is what
`Catchment.delineate_area` keeps (`idxcells[idxcells >= 0]` of an array initialised with `-1`) -/
def delineateArea (codes : List Int) (g : FlowGrid) (outlet : Int) (inlets : List Int) (nval : Int) :
    Except Err (List Int) :=
  if nval < 1 then .error .badNval
  else if !validCell g.nrows g.ncols outlet then .error .badOutlet
  else if inlets.any (fun m => !validCell g.nrows g.ncols m) then .error .badInlet
  else areaLoop codes g outlet inlets nval (nval.toNat + 1) 0 [] [outlet]

/-! ## hole filling (grid.py: Catchment.delineate_area) -/

def minList (x : Int) (xs : List Int) : Int := xs.foldl (fun a b => if b < a then b else a) x
def maxList (x : Int) (xs : List Int) : Int := xs.foldl (fun a b => if a < b then b else a) x

/-- the rectangle handed to `binary_fill_holes`: first row/col `i0, j0` and its size -/
structure BBox where
  i0 : Int
  j0 : Int
  nr : Nat
  nc : Nat
  deriving Repr, DecidableEq

/-- `i0, j0 = maximum(0, rowcol.min(axis=0)-1)`, `i1, j1 = min(n-1, rowcol.max(axis=0)+1)`,
`nrows, ncols = i1-i0+1, j1-j0+1` from the extreme rows / columns of the area -/
def bboxOf (nrows ncols rmin rmax cmin cmax : Int) : BBox :=
  let i0 := max 0 (rmin - 1)
  let j0 := max 0 (cmin - 1)
  let i1 := min (nrows - 1) (rmax + 1)
  let j1 := min (ncols - 1) (cmax + 1)
  { i0 := i0, j0 := j0, nr := (i1 - i0 + 1).toNat, nc := (j1 - j0 + 1).toNat }

/-- the rectangle of a non-empty area (`rowcol = flowdir.cell2rowcol(idxcells_area)`); `none` when the
area is empty (the wrapper then sets `idxcells_area_filled = idxcells_area`) -/
def bbox (g : FlowGrid) (area : List Int) : Option BBox :=
  match area with
  | [] => none
  | c :: cs =>
    let rows := cs.map fun a => (cell2rowcol g.nrows g.ncols a).1
    let cols := cs.map fun a => (cell2rowcol g.nrows g.ncols a).2
    let r0 := (cell2rowcol g.nrows g.ncols c).1
    let c0 := (cell2rowcol g.nrows g.ncols c).2
    some (bboxOf g.nrows g.ncols (minList r0 rows) (maxList r0 rows) (minList c0 cols) (maxList c0 cols))

/-- `grid[rowcol[:,0]-i0, rowcol[:,1]-j0] = 1` -/
def areaMask (g : FlowGrid) (b : BBox) (area : List Int) (r c : Nat) : Bool :=
  area.any fun a =>
    decide ((cell2rowcol g.nrows g.ncols a).1 - b.i0 = (r : Int)) &&
    decide ((cell2rowcol g.nrows g.ncols a).2 - b.j0 = (c : Int))

/-- `irows, icols = np.where(grid == 1); filled = (irows+i0)*ncols + (icols+j0)` (row-major order) -/
def maskCells (ncols : Int) (b : BBox) (m : Nat → Nat → Bool) : List Int :=
  (List.range b.nr).flatMap fun r =>
    (List.range b.nc).filterMap fun c =>
      if m r c then some (((r : Int) + b.i0) * ncols + ((c : Int) + b.j0)) else none

/-- `idxcells_area_filled`; `fill nr nc mask` stands for `scipy.ndimage.binary_fill_holes` (external) -/
def areaFilled (g : FlowGrid) (fill : Nat → Nat → (Nat → Nat → Bool) → (Nat → Nat → Bool))
    (area : List Int) : List Int :=
  match bbox g area with
  | none => area
  | some b => maskCells g.ncols b (fill b.nr b.nc (areaMask g b area))

/-! ## river trace and flow-path lengths (c_catchment.c) -/

/-- a step between neighbouring cells is diagonal when both the column and the row change
(`stepsquaredist` of the repaired kernel returns 2) -/
def isDiag (ncols a b : Int) : Bool :=
  (colOf ncols a != colOf ncols b) && (rowOf ncols a != rowOf ncols b)

/-- the classification of the pinned kernel: `diff = |down - up|; diff == 1 || diff == ncols ? 1 : 2`.
Kept so that the finding is a theorem (`pinned_step_misclassified`) and for replay diagnostics. -/
def isDiagPinned (ncols a b : Int) : Bool :=
  !(decide ((b - a).natAbs = 1) || decide (((b - a).natAbs : Int) = ncols))

section Lengths
variable {α : Type} [Add α] [Mul α] [OfNat α 0] [OfNat α 1] [IntCast α] [Transc α]

/-- `sqrt(squaredist)` with `squaredist` 1 or 2 -/
def stepLen (diag : Bool) : α := Transc.sqrt (if diag then (1 + 1 : α) else 1)

/-- `length = 0; …; length += sqrt(squaredist)` in the order of the steps -/
def pathLength (steps : List Bool) : α := steps.foldl (fun acc d => acc + stepLen d) 0

/-- `sqrt(dx*dx+dy*dy)` of `c_delineate_river`, `dx, dy` = `(double)(n1-n2)` -/
def hypot (dx dy : Int) : α := Transc.sqrt ((dx : α) * (dx : α) + (dy : α) * (dy : α))

/-- one row of the river table (`x, y` are `getcoord` of C07 and are added by the driver) -/
structure RiverRow (α : Type) where
  cell : Int
  dist : α
  dx : Int
  dy : Int

/-- `for(i=0; i<nval; i++)` of `c_delineate_river`; state: current cell, running distance and the
displacement from the previous cell. `c_downstream` is called on a cell that passed the guard (the
start) or came out of it as a value `>= 0`. -/
def riverLoop (codes : List Int) (g : FlowGrid) : Nat → Int → α → Int → Int → List (RiverRow α)
  | 0, _, _, _, _ => []
  | n + 1, cur, dist, dx, dy =>
    let down := downstreamCell codes g cur
    let dist' := dist + hypot dx dy
    let row : RiverRow α := { cell := cur, dist := dist', dx := dx, dy := dy }
    if down < 0 then [row]
    else row :: riverLoop codes g n down dist'
      (colOf g.ncols cur - colOf g.ncols down) (rowOf g.ncols cur - rowOf g.ncols down)

/-- `c_delineate_river`: the rows `0 .. npoints-1` -/
def delineateRiver (codes : List Int) (g : FlowGrid) (start nval : Int) : Except Err (List (RiverRow α)) :=
  if validCell g.nrows g.ncols start then .ok (riverLoop codes g nval.toNat start 0 0 0)
  else .error .badCell

end Lengths

/-- state of the walk of `c_delineate_flowpathlengths_in_catchment` -/
structure FpState where
  ipath : Nat
  up : Int
  down : Int
  steps : List Bool
  deriving Repr

/-- `while(ipath < nval)`; the first argument is `nval - ipath` -/
def fpLoop (codes : List Int) (g : FlowGrid) (outlet : Int) (diag : Int → Int → Bool) :
    Nat → FpState → FpState
  | 0, s => s
  | rem + 1, s =>
    match downstream codes g s.up with
    | .error _ => s                                   -- `ierr_down > 0`: break, `idxcell_down` untouched
    | .ok d =>
      if d < 0 then { s with down := d }              -- left the grid or reached a sink
      else if d = outlet then { s with down := d }    -- reached the outlet
      else fpLoop codes g outlet diag rem
        { ipath := s.ipath + 1, up := d, down := d, steps := s.steps ++ [diag s.up d] }

/-- one row `(start, end, steps)` of `c_delineate_flowpathlengths_in_catchment`: the end cell and the
steps whose lengths were added up (`length = 0` when the walk left the grid); `nval` is the length of
`idxcells_area`; `diag` is the step classification (`isDiag g.ncols` for the repaired kernel) -/
def flowPathWith (codes : List Int) (g : FlowGrid) (outlet : Int) (diag : Int → Int → Bool)
    (nval : Nat) (start : Int) : Int × List Bool :=
  let s := fpLoop codes g outlet diag nval { ipath := 0, up := start, down := -1, steps := [] }
  let steps := if s.ipath + 1 < nval ∧ 0 ≤ s.down then s.steps ++ [diag s.up s.down] else s.steps
  (s.down, if s.down < 0 then [] else steps)

def flowPath (codes : List Int) (g : FlowGrid) (outlet : Int) (nval : Nat) (start : Int) :
    Int × List Bool :=
  flowPathWith codes g outlet (isDiag g.ncols) nval start


/-! ## where the property leaves the outcome open: flow cycles and capped walks

The property only asks for "an error or a bounded result" on flow cycles. These three predicates are the
model's own account of where that applies; the correspondence compares values everywhere else. -/

/-- a flow cycle passes through the outlet (inlets removed): the search run with room for every cell of the
grid still exhausts its buffers (`Props/C06.lean`: `cycleThroughOutlet_iff`) -/
def cycleThroughOutlet (codes : List Int) (g : FlowGrid) (outlet : Int) (inlets : List Int) : Bool :=
  match delineateArea codes g outlet inlets (g.nrows * g.ncols + 2) with
  | .error .areaFull => true
  | .error .bufferFull => true
  | .error .outletFull => true
  | _ => false

/-- the downstream chain from `c` reaches a sink / exit within `n` cells -/
def chainEnds (codes : List Int) (g : FlowGrid) : Nat → Int → Bool
  | 0, _ => false
  | n + 1, c => if downstreamCell codes g c < 0 then true else chainEnds codes g n (downstreamCell codes g c)

/-- the downstream chain from a cell of the grid runs into a flow cycle: it has not ended after one cell
more than the grid has -/
def chainCyclic (codes : List Int) (g : FlowGrid) (start : Int) : Bool :=
  validCell g.nrows g.ncols start && !chainEnds codes g ((g.nrows * g.ncols).toNat + 1) start

/-- the flow-path walk from `start` used up all its `nval` iterations (neither the outlet nor an exit met) -/
def flowPathCapped (codes : List Int) (g : FlowGrid) (outlet : Int) (nval : Nat) (start : Int) : Bool :=
  (fpLoop codes g outlet (isDiag g.ncols) nval { ipath := 0, up := start, down := -1, steps := [] }).ipath == nval

/-! ## the downstream chain as such, and the area as a reachability set

What the theorems of `Props/C06.lean` state the results WITH (their right-hand sides). They are ordinary
executable definitions: the driver runs them (`chain`, `reach` requests) and the harness compares them with
the real code — iterated `Catchment.downstream` calls, `idxcells_area` — like every other model function. -/

namespace Bfs
/-- k-fold downstream walk over an abstract `down` -/
def walk {C : Type} (down : C → Option C) : Nat → C → Option C
  | 0, c => some c
  | k+1, c => (down c).bind (walk down k)
end Bfs

/-- one step down the chain: defined for a valid cell that is not an inlet and drains to a cell
(`none` for sinks, exits, invalid codes, inlets, cells off the grid) -/
def downStep (codes : List Int) (g : FlowGrid) (inlets : List Int) (u : Int) : Option Int :=
  if validCell g.nrows g.ncols u = true ∧ u ∉ inlets then
    (if 0 ≤ downstreamCell codes g u then some (downstreamCell codes g u) else none)
  else none

/-- `c` reaches `o` in exactly `k` steps of the downstream chain, none of the `k` cells it leaves being an
inlet (or off the grid, a sink, an exit) -/
def Reaches (codes : List Int) (g : FlowGrid) (inlets : List Int) (k : Nat) (c o : Int) : Prop :=
  Bfs.walk (downStep codes g inlets) k c = some o

instance (codes : List Int) (g : FlowGrid) (inlets : List Int) (k : Nat) (c o : Int) :
    Decidable (Reaches codes g inlets k c o) :=
  inferInstanceAs (Decidable (Bfs.walk (downStep codes g inlets) k c = some o))

/-- the cell `k` steps down the chain from `c` (meaningful while the chain stays on the grid) -/
def chainCell (codes : List Int) (g : FlowGrid) : Nat → Int → Int
  | 0, c => c
  | k + 1, c => chainCell codes g k (downstreamCell codes g c)

/-- the classification (`true` = diagonal) of the first `k` steps of the chain from `c` -/
def chainSteps (codes : List Int) (g : FlowGrid) (diag : Int → Int → Bool) : Nat → Int → List Bool
  | 0, _ => []
  | k + 1, c => diag c (downstreamCell codes g c) :: chainSteps codes g diag k (downstreamCell codes g c)

/-- cells of the river: the chain from the start, cut after the first cell that drains nowhere -/
def chainCells (codes : List Int) (g : FlowGrid) : Nat → Int → List Int
  | 0, _ => []
  | n + 1, c => c :: (if downstreamCell codes g c < 0 then [] else chainCells codes g n (downstreamCell codes g c))

/-- "iteration `i` of the flow-path walk from `c` goes on": the cell it stands on is a cell of the grid, drains to a
cell, and that cell is not the outlet -/
def GoesOn (codes : List Int) (g : FlowGrid) (outlet c : Int) (i : Nat) : Prop :=
  validCell g.nrows g.ncols (chainCell codes g i c) = true ∧ 0 ≤ chainCell codes g (i + 1) c ∧
    chainCell codes g (i + 1) c ≠ outlet

instance (codes : List Int) (g : FlowGrid) (outlet c : Int) (i : Nat) : Decidable (GoesOn codes g outlet c i) := by
  unfold GoesOn; infer_instance

/-- how many iterations go on before the first one that does not, among the first `n` -/
def goesOnCount (codes : List Int) (g : FlowGrid) (outlet c : Int) (n : Nat) : Nat :=
  ((List.range n).takeWhile fun i => decide (GoesOn codes g outlet c i)).length

/-- `n` counted in the arithmetic of `α` by steps of `step`: `0 + step + … + step` (with `step = 1` the double `n`
itself for `n < 2^53`: what the length of `n` orthogonal steps is, bit for bit) -/
def countBy {α : Type} [Add α] [OfNat α 0] (step : α) : Nat → α
  | 0 => 0
  | n + 1 => countBy step n + step

/-- the cells of the grid, `0 .. nrows*ncols-1` -/
def gridCells (g : FlowGrid) : List Int := (List.range (g.nrows * g.ncols).toNat).map fun n : Nat => (n : Int)

/-- **the area as the property states it**, by brute force over the grid: the outlet, provided some cell that
is not an inlet drains into it, plus every cell whose downstream chain reaches the outlet in `1 .. ncells` steps
without leaving from an inlet (more steps than the grid has cells would mean a flow cycle through the outlet) -/
def reachArea (codes : List Int) (g : FlowGrid) (outlet : Int) (inlets : List Int) : List Int :=
  let drains := (gridCells g).any fun u => decide (Reaches codes g inlets 1 u outlet)
  (gridCells g).filter fun c =>
    (decide (c = outlet) && drains) ||
      (List.range (g.nrows * g.ncols).toNat).any fun k => decide (Reaches codes g inlets (k + 1) c outlet)

/-! ## the Python wrapper around `c_delineate_area`, and the `Catchment` object as a state machine -/

/-- `idxcells = -1*np.ones(nval)` after the kernel wrote `area` into its first entries -/
def areaBuffer (nval : Int) (area : List Int) : List Int :=
  area ++ List.replicate (nval.toNat - area.length) (-1)

/-- `idxcells[idxcells >= 0]` -/
def keepCells (buf : List Int) : List Int := buf.filter fun c => decide (0 ≤ c)

/-- `Catchment.delineate_area(outlet, inlets, nval)` as far as `idxcells_area` goes: `inlets = None` is the
empty list (done by the caller of this function), a kernel error is re-raised, else the entries `>= 0` of the
work array are kept -/
def wrapperArea (codes : List Int) (g : FlowGrid) (outlet : Int) (inlets : List Int) (nval : Int) :
    Except Err (List Int) :=
  match delineateArea codes g outlet inlets nval with
  | .error e => .error e
  | .ok area => .ok (keepCells (areaBuffer nval area))

/-- the call as it is usually made, `Catchment.delineate_area(idxcell_outlet, idxinlets=None, nval=1000000)`:
`idxinlets=None` is an empty array of inlets, the default buffer has 10^6 entries -/
def delineateAreaPy (codes : List Int) (g : FlowGrid) (outlet : Int) (inlets : Option (List Int))
    (nval : Option Int) : Except Err (List Int) :=
  wrapperArea codes g outlet (inlets.getD []) (nval.getD 1000000)

/-- what a `Catchment` object remembers between calls (as far as this property goes): its own copy of the
flow-direction grid (`_flowdir`, cloned at construction, editable in place through `catchment.flowdir.data`),
`_idxcell_outlet` and `_idxcells_area` -/
structure CatchState where
  grid : FlowGrid
  outlet : Option Int
  area : Option (List Int)

/-- a freshly constructed `Catchment(name, flowdir)` -/
def CatchState.init (g : FlowGrid) : CatchState := { grid := g, outlet := none, area := none }

/-- calls made on one object -/
inductive HistOp
  /-- `c.delineate_area(outlet, inlets, nval)` -/
  | delineate (outlet : Int) (inlets : List Int) (nval : Int)
  /-- `c.compute_flowpathlengths(); c.flowpathlengths` -/
  | flowpaths
  /-- `c.flowdir.data.flat[cell] = code` (in place) -/
  | setCell (cell code : Int)
  /-- `c.flowdir.data = new` (same shape) -/
  | setGrid (fd : Int → Int)

/-- what a call returns -/
inductive HistObs
  | area (r : Except Err (List Int))
  /-- rows `(start, end, steps)` in the order of `idxcells_area` -/
  | table (r : Except Err (List (Int × Int × List Bool)))
  | nothing

/-- one call: new state and what the caller sees. `delineate_area` stores the outlet before it calls the
kernel and stores `None` as area when the kernel fails; `compute_flowpathlengths` reads the stored area and
outlet and the *current* grid. -/
def histStep (codes : List Int) (s : CatchState) : HistOp → CatchState × HistObs
  | .delineate o inlets nval =>
    match wrapperArea codes s.grid o inlets nval with
    | .error e => ({ s with outlet := some o, area := none }, .area (.error e))
    | .ok a => ({ s with outlet := some o, area := some a }, .area (.ok a))
  | .flowpaths =>
    match s.area, s.outlet with
    | some a, some o => (s, .table (.ok (a.map fun c => (c, flowPath codes s.grid o a.length c))))
    | _, _ => (s, .table (.error .noArea))
  | .setCell cell code =>
    ({ s with grid := { s.grid with fd := fun i => if i = cell then code else s.grid.fd i } }, .nothing)
  | .setGrid fd => ({ s with grid := { s.grid with fd := fd } }, .nothing)

/-- a whole history: the observations in order, and the final state -/
def histRun (codes : List Int) : CatchState → List HistOp → CatchState × List HistObs
  | s, [] => (s, [])
  | s, op :: ops =>
    let r := histStep codes s op
    let rest := histRun codes r.1 ops
    (rest.1, r.2 :: rest.2)

/-- the grid an object holds after a history: only the edits count -/
def gridAfter (g : FlowGrid) : List HistOp → FlowGrid
  | [] => g
  | .setCell cell code :: ops => gridAfter { g with fd := fun i => if i = cell then code else g.fd i } ops
  | .setGrid fd :: ops => gridAfter { g with fd := fd } ops
  | _ :: ops => gridAfter g ops

/-! ### read-only calls on the object, interleaved with the others -/

/-- read-only calls: they answer for what the object holds NOW and never change it -/
inductive HistQuery
  /-- `c.upstream(cells)` -/
  | upstream (cells : List Int)
  /-- `c.downstream(cells)` -/
  | downstream (cells : List Int)
  /-- `delineate_river(c.flowdir, start, nval)` -/
  | river (start nval : Int)
  /-- the accessor `c.idxcells_area` (raises while no delineation is stored) -/
  | area
  /-- `c.isin(cell)` (raises while no delineation is stored) -/
  | isin (cell : Int)

/-- what a read-only call returns -/
inductive QueryObs (α : Type)
  | rows (r : Except Err (List (List Int)))
  | cells (r : Except Err (List Int))
  | river (r : Except Err (List (RiverRow α)))
  | flag (r : Except Err Bool)

section Queries
variable {α : Type} [Add α] [Mul α] [OfNat α 0] [OfNat α 1] [IntCast α] [Transc α]

/-- the answer of a read-only call in state `s`: the kernels on the grid held now, the stored area -/
def histQuery (codes : List Int) (s : CatchState) : HistQuery → QueryObs α
  | .upstream cells =>
    match mapCells (upstream codes s.grid) cells with
    | .error e => .rows (.error e)
    | .ok l => .rows (.ok (l.map upstreamRow))
  | .downstream cells => .cells (mapCells (downstream codes s.grid) cells)
  | .river start nval => .river (delineateRiver codes s.grid start nval)
  | .area =>
    match s.area with
    | some a => .cells (.ok a)
    | none => .cells (.error .noArea)
  | .isin cell =>
    match s.area with
    | some a => .flag (.ok (decide (cell ∈ a)))
    | none => .flag (.error .noArea)

/-- any call made on one object -/
inductive HistCall
  | op (o : HistOp)
  | query (q : HistQuery)

/-- what it returns -/
inductive CallObs (α : Type)
  | op (o : HistObs)
  | query (q : QueryObs α)

/-- one call of either kind: a query leaves the state as it is -/
def callStep (codes : List Int) (s : CatchState) : HistCall → CatchState × CallObs α
  | .op o => ((histStep codes s o).1, .op (histStep codes s o).2)
  | .query q => (s, .query (histQuery codes s q))

/-- a whole interleaved history -/
def callRun (codes : List Int) : CatchState → List HistCall → CatchState × List (CallObs α)
  | s, [] => (s, [])
  | s, c :: cs =>
    let r : CatchState × CallObs α := callStep codes s c
    let rest := callRun codes r.1 cs
    (rest.1, r.2 :: rest.2)

end Queries

/-- the state-changing calls of an interleaved history -/
def opsOf : List HistCall → List HistOp
  | [] => []
  | .op o :: cs => o :: opsOf cs
  | .query _ :: cs => opsOf cs

end HydroVerif.C06
