/-
C14 — model of `c_var2h` (src/hydrodiy/data/c_var2h.c) and of the origin / size arithmetic of
`dutils.var2h` (src/hydrodiy/data/dutils.py).

Time stamps are `Int` seconds (C `long long`); they are cast to the numeric type `α` (C `double`) at
exactly the places where the kernel casts them.  A value is `Option α`: `none` is NaN (the kernel tests
`isnan`).  The model is generic over `α`: `Float` in the driver (IEEE double like the kernel), core `Rat`
(exact) and any ordered field / ℝ in the theorems.  No Mathlib.

The kernel's pointer walk is written over the *suffix* of the observation list that starts at
`varindex`: `(a, rest)` stands for `varindex` pointing at `a` with `rest` the observations after it,
so `varsec[varindex+1]` is the head of `rest`.  `varindex++` drops the head, the `varindex--` rewind
after the `while` is "return the suffix of the last interval processed".
-/
import HydroVerif.Num
namespace HydroVerif.C14

/-- error returns of the kernel (`VAR2H_ERROR + __LINE__`), by guard; `emptyWalk` and `noInterval`
are states the C code would handle by reading before / after its arrays: they are unreachable
(`Props/C14.lean`, `kernel_ok`). -/
inductive Err
  | badRainfall      -- rainfall ∉ {0,1}
  | badPeriod        -- nbsec_per_period ∉ {1800, 3600}
  | startBeforeData  -- `varindex < 0` after the start scan (also: fewer than 2 observations)
  | decreasing       -- `t2 < t1` met during the walk
  | emptyWalk        -- `while(t1<end)` would not run once (then `varindex--` would step before the head)
  | noInterval       -- `varsec[varindex+1]` would be read past the end
  | badMaxgap        -- wrapper: maxgapsec < 3600
  | tooShort         -- wrapper: no observation / negative size
  | lengthMismatch   -- Cython entry point: `assert nvalvar == varvalues.shape[0]`
  deriving DecidableEq, Repr

/-- one observation: epoch second and value -/
abbrev Obs (α : Type) := Int × Option α

/-- the scalar arguments of the kernel. `eps` is the literal `1e-8` used in both tolerance tests. -/
structure Cfg (α : Type) where
  P : Int          -- nbsec_per_period
  rain : Int       -- rainfall flag
  maxgap : Int     -- maxgapsec
  eps : α

section numeric
variable {α : Type} [Add α] [Sub α] [Mul α] [Div α] [Neg α] [LT α] [DecidableLT α]
  [OfNat α 0] [OfNat α 2] [IntCast α]

/-- line 118: `val1<-1e-8 || val2<-1e-8 || t2-t1>maxgapsec || isnan(val2) || isnan(val1)` -/
def invalid (c : Cfg α) (a b : Obs α) : Bool :=
  match a.2, b.2 with
  | some v1, some v2 =>
    decide (v1 < -c.eps) || decide (v2 < -c.eps) || decide ((c.maxgap : α) < (b.1 : α) - (a.1 : α))
  | _, _ => true

/-- lines 123-124: the interval clipped to the period, `it1 = t1<start ? start : t1` -/
def clipLo (s : α) (a : Obs α) : α := if (a.1 : α) < s then s else (a.1 : α)
/-- `it2 = t2>end ? end : t2` -/
def clipHi (e : α) (b : Obs α) : α := if e < (b.1 : α) then e else (b.1 : α)

/-- lines 127-143: what is added to `hvalue` for the interval `(a, b)` in the period `[s, e)`;
`none` = nothing is added (`it2-it1 <= 1e-8`), or a value is NaN (the period is then missing anyway). -/
def piece (c : Cfg α) (s e : α) (a b : Obs α) : Option α :=
  let it1 := clipLo s a
  let it2 := clipHi e b
  if c.eps < it2 - it1 then
    match a.2, b.2 with
    | some v1, some v2 =>
      let t1 : α := (a.1 : α)
      let t2 : α := (b.1 : α)
      if c.rain = 1 then
        some (v2 * (it2 - it1) / (t2 - t1) * (c.P : α))
      else
        let sl := (v2 - v1) / (t2 - t1)
        let vi1 := sl * (it1 - t1) + v1
        let vi2 := sl * (it2 - t1) + v1
        some ((vi2 + vi1) * (it2 - it1) / 2)
    | _, _ => none
  else none

/-- `hvalue += ...` -/
def addPiece (h : α) : Option α → α
  | some x => h + x
  | none => h

/-- the `while(t1<end)` loop (lines 100-156) once it has been entered, with `varindex` at `a`.
Returns `((hvalue, miss), suffix after the rewind)`.  The `break` when the observations run out
marks the period missing if they end before the period does. -/
def walk (c : Cfg α) (s e : α) : Obs α → List (Obs α) → α × Bool →
    Except Err ((α × Bool) × (Obs α × List (Obs α)))
  | _, [], _ => .error .noInterval
  | a, b :: rest, (h, m) =>
    if (b.1 : α) < (a.1 : α) then .error .decreasing
    else
      let m' := m || invalid c a b
      let h' := addPiece h (piece c s e a b)
      match rest with
      | [] => .ok ((h', m' || decide ((b.1 : α) < e)), (a, [b]))
      | _ :: _ =>
        if (b.1 : α) < e then walk c s e b rest (h', m')
        else .ok ((h', m'), (a, b :: rest))

/-- start and end of period `i` (lines 83-84): the integer sum is cast, then the period added -/
def pStart (c : Cfg α) (hstart : Int) (i : Nat) : α := ((hstart + (i : Int) * c.P : Int) : α)
def pEnd (c : Cfg α) (hstart : Int) (i : Nat) : α := pStart c hstart i + (c.P : α)

/-- one iteration of the `for` loop: `hvalues[i]` and the new position -/
def period (c : Cfg α) (hstart : Int) (i : Nat) (suf : Obs α × List (Obs α)) :
    Except Err (Option α × (Obs α × List (Obs α))) :=
  let s := pStart c hstart i
  let e := pEnd c hstart i
  if (suf.1.1 : α) < e then
    match walk c s e suf.1 suf.2 (0, false) with
    | .error x => .error x
    | .ok ((h, m), suf') => .ok (if m then none else some (h / (c.P : α)), suf')
  else .error .emptyWalk

/-- the `for(i=0; i<nvalh-1; i++)` loop: `n` periods starting with number `i` -/
def loop (c : Cfg α) (hstart : Int) : Nat → Nat → Obs α × List (Obs α) → Except Err (List (Option α))
  | 0, _, _ => .ok []
  | n + 1, i, suf =>
    match period c hstart i suf with
    | .error x => .error x
    | .ok (h, suf') =>
      match loop c hstart n (i + 1) suf' with
      | .error x => .error x
      | .ok hs => .ok (h :: hs)

end numeric

/-- lines 54-56 (bounded by `nvalvar-1`): with `a.1 ≤ hstart` already known, advance while the next
observation is not the last one and is not later than `hstart`; the result is `varindex` after `varindex--` -/
def scanFrom {α : Type} (hstart : Int) : Obs α → List (Obs α) → Obs α × List (Obs α)
  | a, [] => (a, [])
  | a, b :: rest =>
    match rest with
    | [] => (a, [b])
    | _ :: _ => if b.1 ≤ hstart then scanFrom hstart b rest else (a, b :: rest)

/-- the start scan: `none` = `varindex < 0` -/
def startScan {α : Type} (hstart : Int) : List (Obs α) → Option (Obs α × List (Obs α))
  | a :: b :: rest => if a.1 ≤ hstart then some (scanFrom hstart a (b :: rest)) else none
  | _ => none

section numeric
variable {α : Type} [Add α] [Sub α] [Mul α] [Div α] [Neg α] [LT α] [DecidableLT α]
  [OfNat α 0] [OfNat α 2] [IntCast α]

/-- `c_var2h`: the values written to `hvalues[0 .. nvalh-2]` (`hvalues[nvalh-1]` is never written) -/
def kernel (c : Cfg α) (hstart : Int) (nvalh : Int) (obs : List (Obs α)) : Except Err (List (Option α)) :=
  if c.rain < 0 ∨ 1 < c.rain then .error .badRainfall
  else if c.P ≠ 1800 ∧ c.P ≠ 3600 then .error .badPeriod
  else match startScan hstart obs with
    | none => .error .startBeforeData
    | some suf => loop c hstart (nvalh - 1).toNat 0 suf

/-! ### the control skeleton of the kernel: which periods are missing, in whole-second arithmetic only

Everything that decides whether a period is missing is a comparison between whole seconds or the validity test of
one interval.  `marks` keeps, of every observation, its stamp and "the interval that ends here is invalid" (the
kernel's own test, evaluated in the arithmetic at hand); `kernelMiss` is the pointer walk on these marks with the
numbers erased.  `Props/C14.lean` (`missing_pattern_is_skeleton`) shows that the kernel's missing pattern is
`kernelMiss` of the marks in every arithmetic in which whole seconds are cast, added and subtracted exactly —
no law of multiplication, division or rounding is used. -/

/-- stamp, and whether the interval ending at this observation is invalid -/
abbrev Mark := Int × Bool

def marksFrom (c : Cfg α) : Obs α → List (Obs α) → List Mark
  | _, [] => []
  | a, b :: r => (b.1, invalid c a b) :: marksFrom c b r

def marks (c : Cfg α) : List (Obs α) → List Mark
  | [] => []
  | a :: l => (a.1, false) :: marksFrom c a l

/-- a rational stand-in for an observation: same stamp, same validity class of the value
(missing / below `-eps` / acceptable); `Props/C14.lean` (`missing_pattern_same_as_exact`): the exact-rational kernel
on the stand-ins has the missing pattern of the kernel in the arithmetic at hand -/
def toQ (c : Cfg α) (x : Obs α) : Obs Rat := (x.1, x.2.map fun v => if v < -c.eps then (-1 : Rat) else 0)

/-- the same scalar arguments with the kernel's literal tolerance as an exact rational -/
def cfgQ (c : Cfg α) : Cfg Rat := ⟨c.P, c.rain, c.maxgap, 1 / 100000000⟩

end numeric

/-- the `while(t1<end)` loop on marks: the `miss` flag and the suffix after the rewind -/
def walkM (E : Int) : Mark → List Mark → Bool → Except Err (Bool × (Mark × List Mark))
  | _, [], _ => .error .noInterval
  | a, b :: rest, m =>
    if b.1 < a.1 then .error .decreasing
    else
      let m' := m || b.2
      match rest with
      | [] => .ok (m' || decide (b.1 < E), (a, [b]))
      | _ :: _ => if b.1 < E then walkM E b rest m' else .ok (m', (a, b :: rest))

def periodM (P hstart : Int) (i : Nat) (suf : Mark × List Mark) : Except Err (Bool × (Mark × List Mark)) :=
  let E := hstart + (i : Int) * P + P
  if suf.1.1 < E then walkM E suf.1 suf.2 false else .error .emptyWalk

def loopM (P hstart : Int) : Nat → Nat → Mark × List Mark → Except Err (List Bool)
  | 0, _, _ => .ok []
  | n + 1, i, suf =>
    match periodM P hstart i suf with
    | .error x => .error x
    | .ok (m, suf') =>
      match loopM P hstart n (i + 1) suf' with
      | .error x => .error x
      | .ok ms => .ok (m :: ms)

def scanFromM (hstart : Int) : Mark → List Mark → Mark × List Mark
  | a, [] => (a, [])
  | a, b :: rest =>
    match rest with
    | [] => (a, [b])
    | _ :: _ => if b.1 ≤ hstart then scanFromM hstart b rest else (a, b :: rest)

def startScanM (hstart : Int) : List Mark → Option (Mark × List Mark)
  | a :: b :: rest => if a.1 ≤ hstart then some (scanFromM hstart a (b :: rest)) else none
  | _ => none

/-- the missing pattern of `c_var2h` for periods `0 .. nvalh-2` (`true` = missing) -/
def kernelMiss (P rain hstart nvalh : Int) (ms : List Mark) : Except Err (List Bool) :=
  if rain < 0 ∨ 1 < rain then .error .badRainfall
  else if P ≠ 1800 ∧ P ≠ 3600 then .error .badPeriod
  else match startScanM hstart ms with
    | none => .error .startBeforeData
    | some suf => loopM P hstart (nvalh - 1).toNat 0 suf

section numeric
variable {α : Type} [Add α] [Sub α] [Mul α] [Div α] [Neg α] [LT α] [DecidableLT α]
  [OfNat α 0] [OfNat α 2] [IntCast α]

/-! ### wrapper arithmetic (`dutils.var2h`): the epoch seconds of the stamps are a parameter -/

/-- `datetime(y, m, d, h) + 1 hour` in epoch seconds: the first whole hour after the first stamp -/
def origin (first : Int) : Int := first / 3600 * 3600 + 3600

/-- `np.int32((end - start).total_seconds() / nbsec_per_period)` (truncation) -/
def nvalhOf (first last P : Int) : Int := Int.tdiv (last - first) P

/-- `dutils.var2h`: origin and the `nvalh` values of the returned series (the last one is the NaN
the array was allocated with) -/
def wrapper (c : Cfg α) (obs : List (Obs α)) : Except Err (Int × List (Option α)) :=
  if c.P ≠ 1800 ∧ c.P ≠ 3600 then .error .badPeriod
  else if c.maxgap < 3600 then .error .badMaxgap
  else match obs.head?, obs.getLast? with
    | some f, some l =>
      let hstart := origin f.1
      let nvalh := nvalhOf f.1 l.1 c.P
      if nvalh < 0 then .error .tooShort
      else match kernel c hstart nvalh obs with
        | .error x => .error x
        | .ok hs => .ok (hstart, if nvalh = 0 then [] else hs ++ [none])
    | _, _ => .error .tooShort

/-- `maxgapsec = np.int32(maxgapsec)` for a Python number (int or float) given as an exact rational: truncation
towards zero -/
def maxgapOfArg (q : Rat) : Int := Int.tdiv q.num (q.den : Int)

/-- `dutils.var2h(se, nbsec_per_period, maxgapsec, rainfall)` with `maxgapsec` as passed -/
def wrapperArg (P rain : Int) (maxgapArg : Rat) (eps : α) (obs : List (Obs α)) : Except Err (Int × List (Option α)) :=
  wrapper ⟨P, rain, maxgapOfArg maxgapArg, eps⟩ obs

/-! ### the returned series: values with their time labels (`pd.Series(hvalues, index=date_range(...))`) -/

/-- `freq = "h" if nbsec_per_period == 3600 else "30min"`: the spacing of the returned index in seconds
(the `else` branch is taken for every period other than 3600 — only 1800 gets past the first guard) -/
def freqSec (P : Int) : Int := if P = 3600 then 3600 else 1800

/-- `pd.date_range(hstart, freq=freq, periods=n)` in epoch seconds (wall clock, time-zone naive) -/
def labels (hstart P : Int) (n : Nat) : List Int := (List.range n).map fun (i : Nat) => hstart + (i : Int) * freqSec P

/-- what `dutils.var2h` returns: the series of `(label, value)` pairs, label = epoch second of the time stamp
the value is attached to ("data are mapped to the beginning of the time stamp") -/
def wrapperSeries (c : Cfg α) (obs : List (Obs α)) : Except Err (List (Int × Option α)) :=
  match wrapper c obs with
  | .error x => .error x
  | .ok (hstart, vals) => .ok ((labels hstart c.P vals.length).zip vals)

/-! ### the index as it is stored: unit and time zone

A `DatetimeIndex` stores, for every stamp, an int64 count `raw` of ticks of its unit since the epoch — of
the UTC instant when the index is time-zone aware.  `tz_localize(None)` turns it into the wall-clock
reading (adds the zone's UTC offset at that instant, in ticks), `.astype("datetime64[s]")` floors to whole
seconds.  The UTC offset of stamp i (seconds; 0 for a naive index) is a parameter. -/

inductive TUnit | s | ms | us | ns
  deriving DecidableEq, Repr

/-- ticks per second -/
def TUnit.perSec : TUnit → Int
  | .s => 1
  | .ms => 1000
  | .us => 1000000
  | .ns => 1000000000

/-- `index.tz_localize(None).values.astype("datetime64[s]").astype(np.int64)` for one stamp -/
def wallSec (u : TUnit) (raw off : Int) : Int := (raw + off * u.perSec) / u.perSec

/-- one stored stamp: raw count, UTC offset in seconds, value -/
abbrev Stamp (α : Type) := Int × Int × Option α

/-- the observations the wrapper hands to the kernel -/
def obsOfIndex (u : TUnit) (l : List (Stamp α)) : List (Obs α) :=
  l.map fun st => (wallSec u st.1 st.2.1, st.2.2)

/-- `dutils.var2h` on a series whose index is stored in unit `u` -/
def wrapperIdx (c : Cfg α) (u : TUnit) (l : List (Stamp α)) : Except Err (Int × List (Option α)) :=
  wrapper c (obsOfIndex u l)

/-- the returned labelled series for an index stored in unit `u` -/
def seriesIdx (c : Cfg α) (u : TUnit) (l : List (Stamp α)) : Except Err (List (Int × Option α)) :=
  wrapperSeries c (obsOfIndex u l)

/-! ### the kernel as it is called: results are written into the caller's buffer `hvalues`

`c_var2h` does not return values, it writes `hvalues[i]` (first NaN, then the value) while it goes; whatever the
buffer held before stays in every cell the loop does not reach — in particular in `hvalues[nvalh-1]`, the final
period.  An error return before the loop leaves the buffer as it was; the `decreasing` return in the middle of
period `i` leaves periods `0 .. i-1` written and `hvalues[i] = NaN`. -/

/-- the `for` loop on a buffer: `(buffer afterwards, error return if any)` -/
def loopInto (c : Cfg α) (hstart : Int) : Nat → Nat → Obs α × List (Obs α) → List (Option α) →
    List (Option α) × Option Err
  | 0, _, _, buf => (buf, none)
  | n + 1, i, suf, buf =>
    match period c hstart i suf with
    | .error x => (buf.set i none, some x)
    | .ok (h, suf') => loopInto c hstart n (i + 1) suf' (buf.set i h)

/-- `c_var2h(nvalvar, nvalh, ..., hvalues)` on the buffer `buf` -/
def kernelInto (c : Cfg α) (hstart : Int) (nvalh : Int) (obs : List (Obs α)) (buf : List (Option α)) :
    List (Option α) × Option Err :=
  if c.rain < 0 ∨ 1 < c.rain then (buf, some .badRainfall)
  else if c.P ≠ 1800 ∧ c.P ≠ 3600 then (buf, some .badPeriod)
  else match startScan hstart obs with
    | none => (buf, some .startBeforeData)
    | some suf => loopInto c hstart (nvalh - 1).toNat 0 suf buf

/-- `c_hydrodiy_data.var2h(maxgapsec, hstartsec, nbsec_per_period, rainfall, display, varsec, varvalues, hvalues)`:
`nvalh` is the length of `hvalues`, `nvalvar` the length of `varsec`, which `varvalues` must share -/
def pyxVar2h (c : Cfg α) (hstart : Int) (varsec : List Int) (varvalues : List (Option α)) (hvalues : List (Option α)) :
    List (Option α) × Option Err :=
  if varsec.length ≠ varvalues.length then (hvalues, some .lengthMismatch)
  else kernelInto c hstart (hvalues.length : Int) (varsec.zip varvalues) hvalues

/-! ### call histories on one set of buffers (the caller owns `varsec`, `varvalues`, `hvalues`) -/

/-- the caller's arrays -/
structure Bufs (α : Type) where
  varsec : List Int
  varvalues : List (Option α)
  hvalues : List (Option α)
  deriving DecidableEq

/-- what a caller can do between (and including) calls -/
inductive Op (α : Type)
  | setSec (k : Nat) (t : Int)              -- varsec[k] = t
  | setVal (k : Nat) (v : Option α)         -- varvalues[k] = v
  | scribble (v : Option α)                 -- hvalues[:] = v
  | call (c : Cfg α) (hstart : Int)         -- c_hydrodiy_data.var2h(..., varsec, varvalues, hvalues)

/-- one operation; a call changes `hvalues` only, and returns its error code (`none` = 0) -/
def step (s : Bufs α) : Op α → Bufs α × Option Err
  | .setSec k t => ({ s with varsec := s.varsec.set k t }, none)
  | .setVal k v => ({ s with varvalues := s.varvalues.set k v }, none)
  | .scribble v => ({ s with hvalues := s.hvalues.map fun _ => v }, none)
  | .call c hstart =>
    let r := pyxVar2h c hstart s.varsec s.varvalues s.hvalues
    ({ s with hvalues := r.1 }, r.2)

/-- a history: the state after it and the error codes it returned, in order -/
def run (s : Bufs α) : List (Op α) → Bufs α × List (Option Err)
  | [] => (s, [])
  | op :: ops =>
    let r := step s op
    let rr := run r.1 ops
    (rr.1, r.2 :: rr.2)

end numeric

end HydroVerif.C14
