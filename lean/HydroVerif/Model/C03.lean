/-
C03 — model of `hydrodiy.stat.metrics.crps`: the kernel `c_crps` (src/hydrodiy/stat/c_crps.c, called with
`use_weights = 0`, `is_sorted = 0`) and the Python wrapper's filtering and shape handling
(`__check_ensemble_data`); of the extension-level entry `c_hydrodiy_stat.crps` (both flags, weight vector,
caller-owned output arrays: `kernelGen`, `stepOp`, `runOps`); and the executable definition `definitionCrps`.
No Mathlib. Generic over the numeric type: `Float` (driver), `Rat` (driver, exact), ordered field (theorems).

Conventions
* NaN is `none`: observations / members entering the wrapper are `Option α`; inside the kernel the only
  NaN the code can produce from finite input is `o[j] = b[j]/g[j]` with `g[j] = 0` (`0/0`), which propagates to
  `r[j]`, `c[j]` of the table — these three columns are `Option α`.
* `qsort` is the parameter `sort` (theorems assume `Pairwise (· ≤ ·)` and `Perm`).
* `pow(x, 2)` is `x * x`.
* conditional `+=` of the C text are conditional updates here (not "add zero").
-/
namespace HydroVerif.C03

inductive Err
  /-- wrapper: `ens.shape[0] != obs.shape[0]`, or (kernel) a ragged / empty ensemble row -/
  | shape
  /-- wrapper: no forecast with a non-missing observation and at least one non-missing member -/
  | noValidData
  /-- a kept forecast has a missing member: outside the modelled domain (the property quantifies over
      finite members; the code does not reject such rows, the model declines to describe the result) -/
  | nanMember
  /-- kernel: `ensemb[j+1] < ensemb[j]` after sorting (`return EDOM`) -/
  | edom
  /-- wrapper: `obs` still has more than one dimension after `squeeze` (`ValueError("obs is not 1D")`) -/
  | obsNot1D
  /-- `ens` with more than two dimensions: never answered (the code raises a `ValueError` or an `IndexError`,
      depending on the shapes; the harness checks "rejected", not which) -/
  | ensNot2D
  /-- extension level: one of the `assert`s of `c_hydrodiy_stat.crps` fails (`AssertionError`) -/
  | assertion
  /-- extension level: `use_weights == 1` with fewer weights than forecasts — the C code reads past the end of
      `weights_vector` (the Cython wrapper does not check its length): outside the modelled domain -/
  | weightsLen
  deriving DecidableEq, Repr

/-- per-bin state after the forecast loop (c_crps.c:91-165) -/
structure Acc (α : Type) where
  /-- `(a[j], b[j])` for the inner bins `j = 1 .. ncol-1` -/
  ab : List (α × α)
  /-- `b[0]` -/
  b0 : α
  /-- `a[ncol]` -/
  aN : α
  /-- `o[0]` -/
  o0 : α
  /-- `o[ncol]` -/
  oN : α
  unc : α

/-- one row of the 7-column reliability table -/
structure Row (α : Type) where
  p : α
  a : α
  b : α
  g : α
  o : Option α
  r : Option α
  c : Option α

structure Result (α : Type) where
  crps : α
  reli : Option α
  resol : Option α
  unc : α
  pot : Option α
  table : List (Row α)

section
variable {α : Type} [Add α] [Sub α] [Mul α] [Div α] [LT α] [DecidableLT α] [LE α] [DecidableLE α]
  [BEq α] [OfNat α 0] [OfNat α 1] [NatCast α]

/-- `fabs` -/
def absv (d : α) : α := if d < 0 then 0 - d else d

/-- `pow(x, 2)` -/
def sq (x : α) : α := x * x

/-- c_crps.c:125-135 — the three `if`s of one bin `[l, r] = [ensemb[j], ensemb[j+1]]` of one forecast,
acting on `(a[j+1], b[j+1])` -/
def binStep (w y l r : α) (ab : α × α) : α × α :=
  let b1 := if y ≤ l then ab.2 + (r - l) * w else ab.2
  let a1 := if r ≤ y then ab.1 + (r - l) * w else ab.1
  if l < y ∧ y < r then (a1 + (y - l) * w, b1 + (r - y) * w) else (a1, b1)

/-- c_crps.c:109-136 over the whole sorted ensemble -/
def binsStep (w y : α) : List α → List (α × α) → List (α × α)
  | l :: r :: es, ab :: rest => binStep w y l r ab :: binsStep w y (r :: es) rest
  | _, acc => acc

/-- c_crps.c:112 — is there a `j` with `ensemb[j+1] < ensemb[j]` -/
def unsortedAt : List α → Bool
  | l :: r :: es => decide (r < l) || unsortedAt (r :: es)
  | _ => false

/-- c_crps.c:155-164 — `uncertainty += weight * weight_k * fabs(obs[k]-obs[i])` for `k < i`, in order -/
def uncStep (w y : α) (prev : List α) (u : α) : α :=
  prev.foldl (fun u yk => u + w * w * absv (yk - y)) u

/-- c_crps.c:109-164 for one forecast whose sorted ensemble `e` has first member `f` and last member `l`;
`prev` = the observations of the forecasts already processed -/
def step (w : α) (prev : List α) (y : α) (e : List α) (f l : α) (s : Acc α) : Acc α :=
  { ab := binsStep w y e s.ab
    b0 := if y < f then s.b0 + (f - y) * w else s.b0
    aN := if l ≤ y then s.aN + (y - l) * w else s.aN
    o0 := if y < f then s.o0 + w else s.o0
    oN := if y < l then s.oN + w else s.oN
    unc := uncStep w y prev s.unc }

/-- c_crps.c:91-165 -/
def loop (sort : List α → List α) (w : α) : List α → List (α × List α) → Acc α → Except Err (Acc α)
  | _, [], s => .ok s
  | prev, (y, row) :: rest, s =>
    let e := sort row
    if unsortedAt e then .error .edom
    else match e.head?, e.getLast? with
      | some f, some l => loop sort w (prev ++ [y]) rest (step w prev y e f l s)
      | _, _ => .error .shape

/-- c_crps.c:79-88 -/
def init (m : Nat) : Acc α :=
  { ab := List.replicate (m - 1) (0, 0), b0 := 0, aN := 0, o0 := 0, oN := 0, unc := 0 }

/-- c_crps.c:189,192 -/
def mkRow (p a b g : α) (o : Option α) : Row α :=
  { p := p, a := a, b := b, g := g, o := o
    r := o.map fun o => g * sq (o - p)
    c := o.map fun o => g * o * (1 - o) }

/-- row `j = 0` (c_crps.c:175-176): `a[0] = 0`, `g[0] = b[0]/o[0]` unless `o[0] == 0` -/
def row0 (m : Nat) (s : Acc α) : Row α :=
  mkRow (((0 : Nat) : α) / (m : α)) 0 s.b0 (if s.o0 != 0 then s.b0 / s.o0 else 0) (some s.o0)

/-- row `j = ncol` (c_crps.c:178-179): `b[ncol] = 0`, `g = a/(1-o)` unless `o == 1` -/
def rowN (m : Nat) (s : Acc α) : Row α :=
  mkRow ((m : α) / (m : α)) s.aN 0 (if s.oN != 1 then s.aN / (1 - s.oN) else 0) (some s.oN)

/-- rows `0 < j < ncol` (c_crps.c:182-186): `g = a+b`, `o = b/g` (`0/0 = NaN` when the bin is empty) -/
def rowMid (m j : Nat) (ab : α × α) : Row α :=
  let g := ab.1 + ab.2
  mkRow ((j : α) / (m : α)) ab.1 ab.2 g (if g == 0 then none else some (ab.2 / g))

def mids (m : Nat) : Nat → List (α × α) → List (Row α)
  | _, [] => []
  | j, ab :: t => rowMid m j ab :: mids m (j + 1) t

def table (m : Nat) (s : Acc α) : List (Row α) :=
  row0 m s :: (mids m 1 s.ab ++ [rowN m s])

/-- running `crps_decompos[0]`, `crps_decompos[1]`, `crps_potential` -/
structure Tot (α : Type) where
  crps : α
  reli : Option α
  pot : Option α

/-- c_crps.c:204-210 -/
def accRow (t : Tot α) (r : Row α) : Tot α :=
  let crps := t.crps + (r.a * sq r.p + r.b * sq (1 - r.p))
  if 0 < r.g then
    { crps := crps
      reli := t.reli.bind fun x => r.r.map fun v => x + v
      pot := t.pot.bind fun x => r.c.map fun v => x + v }
  else { crps := crps, reli := t.reli, pot := t.pot }

/-- the frequencies `o[0]`, `o[ncol]` cut back to 1 when the rounded weight sum exceeds it
(`if(o[0]>1.0) o[0] = 1.0; if(o[ncol]>1.0) o[ncol] = 1.0;`) -/
def clampFreq (s : Acc α) : Acc α :=
  { s with o0 := if 1 < s.o0 then 1 else s.o0, oN := if 1 < s.oN then 1 else s.oN }

/-- the table loop and the totals on the final state -/
def finishCore (m : Nat) (s : Acc α) : Result α :=
  let tb := table m s
  let t := tb.foldl accRow ({ crps := 0, reli := some 0, pot := some 0 } : Tot α)
  { crps := t.crps, reli := t.reli, resol := t.pot.map fun p => s.unc - p, unc := s.unc, pot := t.pot,
    table := tb }

/-- everything after the forecast loop: frequency clamp, table, totals -/
def finish (m : Nat) (s : Acc α) : Result α := finishCore m (clampFreq s)

/-- `c_crps(nval, ncol, use_weights=0, is_sorted=0, obs, sim, …)` on zeroed outputs;
`obs.length = nval`, `m = ncol`, every row of `ens` has `m ≥ 1` members (else `shape`: the Cython wrapper's
asserts / the 2-D array type guarantee it) -/
def kernel (sort : List α → List α) (m : Nat) (obs : List α) (ens : List (List α)) : Except Err (Result α) :=
  if ens.length ≠ obs.length ∨ m = 0 ∨ ens.any (fun r => r.length != m) then .error .shape
  else
    let w : α := 1 / (obs.length : α)
    match loop sort w [] (obs.zip ens) (init m) with
    | .error e => .error e
    | .ok s => .ok (finish m s)

def optAll {β : Type} : List (Option β) → Option (List β)
  | [] => some []
  | none :: _ => none
  | some a :: t => (optAll t).map (a :: ·)

/-- `idx = notnull(obs) & notnull(ens).any(axis=1)` (metrics.py:48-49) -/
def keep (p : Option α × List (Option α)) : Bool := p.1.isSome && p.2.any Option.isSome

/-- a kept forecast as finite numbers (`none` when a member is missing) -/
def finiteRow (p : Option α × List (Option α)) : Option (α × List α) :=
  match p.1, optAll p.2 with
  | some y, some r => some (y, r)
  | _, _ => none

/-- `metrics.crps(obs, ens)` with `obs` of shape `[n]`, `ens` of shape `[n', m]` (metrics.py:29-59, 130-176) -/
def wrapper (sort : List α → List α) (m : Nat) (obs : List (Option α)) (ens : List (List (Option α))) :
    Except Err (Result α) :=
  if ens.length ≠ obs.length then .error .shape
  else
    let kept := (obs.zip ens).filter keep
    if kept.isEmpty then .error .noValidData
    else match optAll (kept.map finiteRow) with
      | none => .error .nanMember
      | some rows => kernel sort m (rows.map (·.1)) (rows.map (·.2))


/-! ### shape handling of `__check_ensemble_data` (metrics.py:32-45) -/

/-- row-major `reshape(n, m)` of a flat buffer -/
def reshape {β : Type} (m : Nat) : Nat → List β → List (List β)
  | 0, _ => []
  | n + 1, l => l.take m :: reshape m n (l.drop m)

/-- shape of `obs` after `np.atleast_1d`, then — only when `ndim > 1` — `np.atleast_1d(obs.squeeze())`;
more than one dimension left is `ValueError("obs is not 1D")` -/
def obsForecasts (shape : List Nat) : Except Err Nat :=
  let s1 := if shape.isEmpty then [1] else shape
  let s2 := if 1 < s1.length then
      (let q := s1.filter (fun d => d != 1); if q.isEmpty then [1] else q)
    else s1
  match s2 with
  | [n] => .ok n
  | _ => .error .obsNot1D

/-- shape of `ens` after `np.atleast_2d` -/
def ensDims (shape : List Nat) : Except Err (Nat × Nat) :=
  match shape with
  | [] => .ok (1, 1)
  | [p] => .ok (1, p)
  | [a, b] => .ok (a, b)
  | _ => .error .ensNot2D

/-- `metrics.crps(obs, ens)` on arrays given by shape and C-ordered flat data
(`squeeze` and `atleast_nd` do not reorder the data) -/
def wrapperNd (sort : List α → List α) (oshape : List Nat) (obs : List (Option α)) (eshape : List Nat)
    (ens : List (Option α)) : Except Err (Result α) :=
  match obsForecasts oshape with
  | .error e => .error e
  | .ok _ =>
    match ensDims eshape with
    | .error e => .error e
    | .ok (n, m) => wrapper sort m obs (reshape m n ens)



/-! ### the extension-level entry point `c_hydrodiy_stat.crps(use_weights, is_sorted, obs, sim, weight_vector,
reliability_table, crps_decompos)` (c_hydrodiy_stat.pyx:109-132 → c_crps.c:43-234): both flags, the caller's
weight vector and the caller's output arrays, which `c_crps` *adds to* (`crps_decompos[0] += …`,
`crps_decompos[1] += …`) — `metrics.crps` is the call with `0, 0`, and freshly zeroed arrays -/

/-- c_crps.c:155-164 with `weight_k = weights_vector[k]`: `prev` = `(obs[k], weight_k)` for `k < i`, in order -/
def uncStepW (w y : α) (prev : List (α × α)) (u : α) : α :=
  prev.foldl (fun u p => u + w * p.2 * absv (p.1 - y)) u

/-- c_crps.c:109-164 for one forecast of weight `w` -/
def stepW (w : α) (prev : List (α × α)) (y : α) (e : List α) (f l : α) (s : Acc α) : Acc α :=
  { ab := binsStep w y e s.ab
    b0 := if y < f then s.b0 + (f - y) * w else s.b0
    aN := if l ≤ y then s.aN + (y - l) * w else s.aN
    o0 := if y < f then s.o0 + w else s.o0
    oN := if y < l then s.oN + w else s.oN
    unc := uncStepW w y prev s.unc }

/-- c_crps.c:91-165 with one weight per forecast; `srt` is `qsort` (`is_sorted == 0`) or nothing -/
def loopW (srt : List α → List α) : List (α × α) → List ((α × α) × List α) → Acc α → Except Err (Acc α)
  | _, [], s => .ok s
  | prev, ((y, w), row) :: rest, s =>
    let e := srt row
    if unsortedAt e then .error .edom
    else match e.head?, e.getLast? with
      | some f, some l => loopW srt (prev ++ [(y, w)]) rest (stepW w prev y e f l s)
      | _, _ => .error .shape

/-- c_crps.c:167-222 on output arrays holding `out`: only `crps_decompos[0]` and `crps_decompos[1]` are read
(added to); every other cell is overwritten -/
def finishInto (m : Nat) (s : Acc α) (out : Result α) : Result α :=
  let s := clampFreq s
  let tb := table m s
  let t := tb.foldl accRow ({ crps := out.crps, reli := out.reli, pot := some 0 } : Tot α)
  { crps := t.crps, reli := t.reli, resol := t.pot.map fun p => s.unc - p, unc := s.unc, pot := t.pot,
    table := tb }

/-- `c_crps(nval, ncol, use_weights, is_sorted, obs, sim, weights_vector, reliability_table, crps_decompos)`;
an error return (`EDOM`) happens inside the forecast loop, before anything is written to the output arrays -/
def kernelGen (sort : List α → List α) (useW isSorted : Int) (m : Nat) (obs : List α) (ens : List (List α))
    (weights : List α) (out : Result α) : Except Err (Result α) :=
  if ens.length ≠ obs.length ∨ m = 0 ∨ ens.any (fun r => r.length != m) then .error .shape
  else if useW = 1 ∧ weights.length < obs.length then .error .weightsLen
  else
    let ws := if useW = 1 then weights.take obs.length else List.replicate obs.length (1 / (obs.length : α))
    let srt := if isSorted = 0 then sort else id
    match loopW srt [] ((obs.zip ws).zip ens) (init m) with
    | .error e => .error e
    | .ok s => .ok (finishInto m s out)

/-- an array filled with `v` (`np.full`; `np.zeros` for `v = 0`) in both outputs -/
def filled (m : Nat) (v : α) : Result α :=
  { crps := v, reli := some v, resol := some v, unc := v, pot := some v
    table := List.replicate (m + 1) { p := v, a := v, b := v, g := v, o := some v, r := some v, c := some v } }

/-- what a caller can do with one pair of output arrays of shapes `(m+1, 7)` and `(5,)` -/
inductive Op (α : Type) where
  /-- `reliability_table[...] = v; crps_decompos[...] = v` -/
  | fill (v : α)
  /-- `c_hydrodiy_stat.crps(use_weights, is_sorted, obs, sim, weights, table, decompos)` with `sim` of shape
  `[sim.length, cols]` -/
  | call (useW isSorted : Int) (obs : List α) (cols : Nat) (sim : List (List α)) (weights : List α)

/-- one operation on the output arrays: the new content and what the caller sees (`none`: returned 0;
`assertion`: `AssertionError` from the Cython wrapper's shape checks; `edom`: returned `EDOM`). Every failing
operation leaves the arrays as they were. -/
def stepOp (sort : List α → List α) (m : Nat) (out : Result α) : Op α → Result α × Option Err
  | .fill v => (filled m v, none)
  | .call useW isSorted obs cols sim weights =>
    -- c_hydrodiy_stat.pyx:119-122
    if obs.length ≠ sim.length ∨ m ≠ cols then (out, some .assertion)
    else match kernelGen sort useW isSorted cols obs sim weights out with
      | .error e => (out, some e)
      | .ok r => (r, none)

/-- a history of operations on one pair of output arrays; returns the final content and every outcome -/
def runOps (sort : List α → List α) (m : Nat) : Result α → List (Op α) → Result α × List (Option Err)
  | out, [] => (out, [])
  | out, op :: ops =>
    let (out', e) := stepOp sort m out op
    let (fin, es) := runOps sort m out' ops
    (fin, e :: es)

/-! ### the definition the property compares with, executable (exact over `Rat`) -/

/-- `Σ_x |x - y|` -/
def sumAbs (y : α) (row : List α) : α := row.foldr (fun x acc => absv (x - y) + acc) 0

/-- `E|X-y| - ½ E|X-X'|` over the empirical distribution of the members as given (unsorted) -/
def energyM (y : α) (row : List α) : α :=
  sumAbs y row / (row.length : α)
    - row.foldr (fun a acc => sumAbs a row + acc) 0 / ((1 + 1) * ((row.length : α) * (row.length : α)))

/-- mean of `energyM` over the forecasts whose observation is present -/
def definitionCrps (obs : List (Option α)) (ens : List (List α)) : α :=
  let kept := (obs.zip ens).filterMap fun p => p.1.map fun y => (y, p.2)
  kept.foldr (fun p acc => energyM p.1 p.2 + acc) 0 / (kept.length : α)

end
end HydroVerif.C03
