/-
C18 — object-level model of a `Catchment` receiver: which array each attribute refers to (or `None`), which
attributes refer to the SAME array, and what every public method does to them — including every way a method
can stop half-way (the fault sites of `delineate_area`, `delineate_boundary`, `compute_flowpathlengths`).

`Model/C18.lean` follows buffers INSIDE one wrapper call; this file follows the receiver ACROSS calls: a history is
a list of `Op`s.  Data-dependent choices (does the kernel return an error? is the area empty?) are parameters of
the operation (`AreaOut`, `BndOut`, `FplOut`): the theorems quantify over all of them, the driver is given the
outcome observed on the real object and predicts everything else (slots that are `None`, aliasing between
attributes, which contents may have changed, whether the call raises).

gis/grid.py (Catchment):
* `delineate_area` 1214-1280: `_idxcell_outlet = np.int64(..)`; `_idxinlets = atleast_1d(..).astype(int64)` when given
  (and `None` otherwise, after fix-C18); work vectors; kernel; `ierr > 0` ⇒ `_idxcells_area = _idxcells_area_filled
  = None`, raise; `_idxcells_area = idxcells[idx]`; `idx.sum() > 0` ⇒ `_idxcells_area_filled = <new array>` else
  `_idxcells_area_filled = _idxcells_area` (the SAME, zero-length, array).
* `delineate_boundary` 1282-1343: guard `_idxcells_area is None`; `c_delineate_boundary` qsorts
  `_idxcells_area_filled` IN PLACE (c_catchment.c:192, after the `nval < 1` test); stores `_idxcells_boundary`,
  `_xycells_boundary` at the very end.
* `compute_flowpathlengths` 1345-1365: reads `idxcells_area`, `idxcell_outlet` (both raise when `None`), stores
  `_flowpathlengths` at the very end.
* every other public method / accessor only reads; accessors hand out the attribute's own array, which the caller
  may then overwrite in place (`callerEdit`).
No Mathlib.  Total and computable; the driver runs `orun` with the marking instance `omarkSem`.
-/
import HydroVerif.Model.C18
namespace HydroVerif.C18

/-- the attributes of a Catchment that hold arrays (the outlet is a numpy scalar object; the flow-direction
grid is a private clone made by the constructor and never re-assigned) -/
inductive Field
  | outlet | inlets | area | filled | boundary | xyboundary | fpl
  deriving DecidableEq, Repr

def Field.all : List Field := [.outlet, .inlets, .area, .filled, .boundary, .xyboundary, .fpl]

def Field.idx : Field → Nat
  | .outlet => 0 | .inlets => 1 | .area => 2 | .filled => 3 | .boundary => 4 | .xyboundary => 5 | .fpl => 6

/-- the receiver: per attribute `none` (Python `None`) or the buffer it refers to; `zero` = buffers with no
element (a store into them changes nothing); `next` = allocator -/
structure Obj where
  slot : Field → Option Buf
  zero : List Buf
  next : Nat

def Obj.set (o : Obj) (f : Field) (v : Option Buf) : Obj :=
  { o with slot := fun g => if g = f then v else o.slot g }

/-- a Catchment as built by the constructor: every attribute `None` -/
def Obj.new : Obj := ⟨fun _ => none, [], 0⟩

/-- what the data decide in `delineate_area` -/
inductive AreaOut
  /-- `np.int64(idxcell_outlet)` raises: nothing has been assigned -/
  | badOutlet
  /-- the conversion of `idxinlets` raises: the outlet has been assigned -/
  | badInlets
  /-- allocating the work vectors raises (`nval` negative / not an integer), or the extension function rejects an
      argument before the kernel runs (an outlet that is not a scalar): outlet and inlets assigned -/
  | badNval
  /-- the kernel returns an error (outlet or inlet outside the grid, `nval` too small): area and filled area set
      to `None`, `ValueError` -/
  | kernelError
  /-- no cell found: `_idxcells_area_filled = _idxcells_area`, one zero-length array -/
  | empty
  /-- the usual case: two new arrays -/
  | cells
  deriving DecidableEq, Repr

/-- what the data decide in `delineate_boundary` / `compute_flowpathlengths` (the `is None` guards are decided by
the state, not by the data) -/
inductive KernOut | ok | kernelError
  deriving DecidableEq, Repr

inductive Op
  /-- `delineate_area(outlet, idxinlets, nval)`; `arg` names the argument values -/
  | delineateArea (withInlets : Bool) (arg : Nat) (o : AreaOut)
  /-- `delineate_boundary(catchment_area_mask)`; `mask` names the caller's mask (`none`: built inside) -/
  | delineateBoundary (mask : Option Nat) (o : KernOut)
  | computeFpl (o : KernOut)
  /-- accessors and read-only methods: `idxcells_area` …, `intersect`, `extent`, `isin`, `to_dict`, `upstream`,
      `downstream`, `compute_area`, `plot_area`, `plot_boundary`, `clone`, `+`, `-` -/
  | read (f : Field)
  /-- the caller overwrites in place the array the accessor of `f` handed out -/
  | callerEdit (f : Field)
  deriving DecidableEq, Repr

/-- contents semantics: what the kernels compute, as arbitrary functions of the contents they read -/
structure OSem (α : Type) where
  outlet : Nat → α
  inlets : Nat → α
  area : Nat → α
  fill : α → α
  emptyArr : α
  sort : α → α
  boundary : α → Option Nat → α
  xy : α → α
  fpl : α → α → α
  edit : α → α

structure OState (α : Type) where
  obj : Obj
  mem : Mem α
  /-- the last operation raised -/
  raised : Bool

/-- `self.f = <new array holding v>` -/
def OState.alloc {α} (s : OState α) (f : Field) (v : α) : OState α :=
  { s with obj := { (s.obj.set f (some (.fresh s.obj.next))) with next := s.obj.next + 1 },
           mem := memSet s.mem (.fresh s.obj.next) v }

def OState.fail {α} (s : OState α) : OState α := { s with raised := true }
def OState.done {α} (s : OState α) : OState α := { s with raised := false }

/-- in-place store into the array of `b` (nothing happens to an array without elements) -/
def OState.store {α} (s : OState α) (b : Buf) (g : α → α) : OState α :=
  if s.obj.zero.contains b then s else { s with mem := memSet s.mem b (g (s.mem b)) }

/-- `delineate_area` up to the kernel call: `self._idxcell_outlet = np.int64(..)`; idxinlets given: a converted copy,
not given: `None` (fix-C18: the attribute used to keep the value of an earlier call) -/
def areaPrologue {α} (sem : OSem α) (s : OState α) (wi : Bool) (arg : Nat) : OState α :=
  let s1 := s.alloc .outlet (sem.outlet arg)
  if wi then s1.alloc .inlets (sem.inlets arg) else { s1 with obj := s1.obj.set .inlets none }

def ostep {α} (sem : OSem α) (s : OState α) : Op → OState α
  | .delineateArea wi arg o =>
    match o with
    | .badOutlet => s.fail
    | .badInlets => (s.alloc .outlet (sem.outlet arg)).fail
    | .badNval => (areaPrologue sem s wi arg).fail
    | .kernelError =>
      let s2 := areaPrologue sem s wi arg
      { s2 with obj := (s2.obj.set .area none).set .filled none, raised := true }
    | .empty =>
      let s2 := areaPrologue sem s wi arg
      let s3 := s2.alloc .area sem.emptyArr
      -- self._idxcells_area_filled = self._idxcells_area : the same zero-length array
      { s3 with obj := { (s3.obj.set .filled (some (.fresh s2.obj.next))) with
                         zero := .fresh s2.obj.next :: s3.obj.zero }, raised := false }
    | .cells =>
      let s3 := (areaPrologue sem s wi arg).alloc .area (sem.area arg)
      (s3.alloc .filled (sem.fill (sem.area arg))).done
  | .delineateBoundary mask o =>
    match s.obj.slot .area, s.obj.slot .filled with
    | some _, some b =>
      if s.obj.zero.contains b then s.fail          -- nval < 1: the kernel returns before the sort
      else
        let s1 := s.store b sem.sort                -- qsort(idxcells_area, …) on the receiver's own array
        match o with
        | .kernelError => s1.fail
        | .ok =>
          let bnd := sem.boundary (s1.mem b) mask
          ((s1.alloc .boundary bnd).alloc .xyboundary (sem.xy bnd)).done
    | _, _ => s.fail
  | .computeFpl o =>
    match s.obj.slot .area, s.obj.slot .outlet with
    | some a, some out =>
      match o with
      | .kernelError => s.fail
      | .ok => (s.alloc .fpl (sem.fpl (s.mem out) (s.mem a))).done
    | _, _ => s.fail
  | .read _ => s.done
  | .callerEdit f =>
    match s.obj.slot f with
    | some b => (s.store b sem.edit).done
    | none => s.done

def orunFrom {α} (sem : OSem α) (s : OState α) (ops : List Op) : OState α := ops.foldl (ostep sem) s

/-- a history on a new Catchment (the contents of the heap before are irrelevant: every buffer read is allocated
by an earlier operation) -/
def orun {α} (sem : OSem α) (ops : List Op) (m0 : Mem α) : OState α := orunFrom sem ⟨Obj.new, m0, false⟩ ops

/-- the contents an accessor hands out -/
def OState.content {α} (s : OState α) (f : Field) : Option α := (s.obj.slot f).map s.mem

/-- attributes an operation may re-assign or whose array it may store into (the documented effect) -/
def Op.writes : Op → List Field
  | .delineateArea _ _ _ => [.outlet, .inlets, .area, .filled]
  | .delineateBoundary _ _ => [.filled, .boundary, .xyboundary]
  | .computeFpl _ => [.fpl]
  | .read _ => []
  | .callerEdit f => [f]

/-- attributes an operation reads -/
def Op.reads : Op → List Field
  | .delineateArea _ _ _ => []
  | .delineateBoundary _ _ => [.area, .filled]
  | .computeFpl _ => [.area, .outlet]
  | .read f => [f]
  | .callerEdit f => [f]

/-- marking instance run by the driver: contents are counters, every store adds one, new arrays start at a value
that names what made them -/
def omarkSem : OSem Nat :=
  { outlet := fun _ => 0, inlets := fun _ => 0, area := fun _ => 0, fill := fun _ => 0, emptyArr := 0,
    sort := (· + 1), boundary := fun _ _ => 0, xy := fun _ => 0, fpl := fun _ _ => 0, edit := (· + 1) }

/-- an instance with an idempotent sort (contents abstracted to a number, sorting sets bit 0), for the examples -/
def idemSem : OSem Nat :=
  { omarkSem with sort := fun x => x ||| 1, area := fun _ => 6, fill := fun a => a + 2, boundary := fun f _ => 10 * f }

/-- the r7-style edit kept as a named term: an area without holes shares ONE array between `_idxcells_area` and
`_idxcells_area_filled` (instead of two) — the state it produces -/
def sharedAreaState {α} (v : α) : OState α :=
  ⟨⟨fun f => match f with | .outlet => some (.fresh 0) | .area => some (.fresh 1) | .filled => some (.fresh 1)
                          | _ => none, [], 2⟩, fun _ => v, false⟩

end HydroVerif.C18
