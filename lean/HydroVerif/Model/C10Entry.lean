/-
C10 — second part of the model: what sits between the caller and the kernels of `Model/C10.lean`.

* the sorts the driver instantiates the `sort` parameters with (`sortAsc` for `np.sort`, `sortADm` for the `qsort` of
  `c_ad_test` with the comparator of c_andersondarling.c), so that the theorems can discharge the sort hypotheses for them;
* scipy's `percentileofscore` for the four values of `pit`'s optional argument `kind`;
* the entry point `metrics.pit` as a whole: layouts accepted for `obs` / `ens` (`np.atleast_1d`, `squeeze`,
  `np.atleast_2d`), "obs is not 1D", first-dimension check, NaN filter, "No valid data", then per forecast the pseudo
  flag and the PIT of the random / non-random branch with NaN members (a NaN member is never "below" and never
  "censored"; `percentileofscore` propagates it);
* the entry point `metrics.alpha`: the filter, `pit` (which filters again), then the test chosen by `type`
  (anything but CV / KS / AD is rejected; KS is scipy's and stays outside);
* the entry point `metrics.dscore`: `obs` as [n] / [n,1] / [1,n], `sim` as [n] (one single-member forecast per value),
  [n,1] or [n,p]; a length mismatch ends in `np.corrcoef`'s ValueError;
* `c_hydrodiy_stat.ensrank` on caller-owned output buffers (`fmat`, `ranks`), as a step function over operation
  lists: the three shape assertions of the .pyx wrapper, the two rejections of the kernel (both leave the buffers
  untouched), the upper triangle of `fmat` and all of `ranks` overwritten by an accepted call;
* the formulas whose RANGE the property constrains, with an explicit rounding operator `rnd` after every arithmetic
  operation (`rnd = id` is the Float / exact-field model; the theorems hold for every monotone `rnd` fixing a few
  representable values, which is true of IEEE round-to-nearest).

Generic over the numeric type, no Mathlib.
-/
import HydroVerif.Model.C10
namespace HydroVerif.C10
open HydroVerif.C04 (sumL absG mean ssd pearson clip1)

/-! ### the sorts of the driver -/

section sorts
variable {α : Type} [LT α] [DecidableLT α] [LE α] [DecidableLE α]

/-- `np.sort` on NaN-free data -/
def sortAsc (l : List α) : List α := l.mergeSort fun a b => decide (a ≤ b)

/-- comparator of c_andersondarling.c (`a>b → 1; a==b → 0; a<b → -1; else 0`) as "`a` may stay in front of `b`":
false only when `a > b`; a NaN compares equal to everything -/
def adLe : Option α → Option α → Bool
  | some x, some y => !decide (y < x)
  | _, _ => true

/-- the `qsort` of `c_ad_test` (glibc: a stable merge sort) -/
def sortADm (l : List (Option α)) : List (Option α) := l.mergeSort adLe

end sorts

/-! ### scipy `percentileofscore(a, score, kind)` -/

inductive PctKind | rank | weak | strict | mean
  deriving DecidableEq, Repr

section pct
variable {α : Type} [Add α] [Sub α] [Mul α] [Div α] [Neg α] [LT α] [DecidableLT α] [LE α] [DecidableLE α]
  [OfNat α 0] [OfNat α 1] [OfNat α 2] [OfNat α 50] [OfNat α 100] [NatCast α]

/-- `left = count(a < score)`, `right = count(a <= score)`, `n = len(a)` -/
def pctFormula (k : PctKind) (left right nens : Nat) : α :=
  match k with
  | .rank => ((left + right + (if left < right then 1 else 0) : Nat) : α) * (50 / (nens : α))
  | .strict => (left : α) * (100 / (nens : α))
  | .weak => (right : α) * (100 / (nens : α))
  | .mean => ((left + right : Nat) : α) * (50 / (nens : α))

/-- `percentileofscore(ens, obs, kind)/100.` on NaN-free members -/
def pitKind (k : PctKind) (obs : α) (ens : List α) : α :=
  pctFormula k (ens.filter fun a => decide (a < obs)).length (ens.filter fun a => decide (a ≤ obs)).length
    ens.length / 100

end pct

/-! ### array layouts at the entry points -/

/-- what the caller may hand over for an array argument: a scalar, a vector, or a 2-d array given with its
number of columns (known to numpy even when there is no row) -/
inductive ArrIn (β : Type)
  | scalar (a : β)
  | vec (l : List β)
  | mat (ncol : Nat) (rows : List (List β))

section layout
variable {β : Type}

/-- `np.atleast_1d(obs)`, `squeeze` when 2-d, "obs is not 1D" when two dimensions are left: a 2-d array passes iff
it has one row or one column -/
def normObs : ArrIn β → Except EnsErr (List β)
  | .scalar a => .ok [a]
  | .vec l => .ok l
  | .mat c rows => if rows.length = 1 ∨ c = 1 then .ok rows.flatten else .error .obsNotOneD

/-- `np.atleast_2d(ens)`: a scalar is one forecast of one member, a vector ONE forecast of `len` members -/
def normEns : ArrIn β → List (List β)
  | .scalar a => [[a]]
  | .vec l => [l]
  | .mat _ rows => rows

/-- `__check_ensemble_data(obs, ens)` from the caller's arrays -/
def checkEnsembleIn (obs ens : ArrIn (Option β)) : Except EnsErr (List (β × List (Option β))) :=
  match normObs obs with
  | .error e => .error e
  | .ok os => checkEnsemble os (normEns ens)

end layout

/-! ### `metrics.pit`, the whole entry point -/

section pitentry
variable {α : Type} [Add α] [Sub α] [Mul α] [Div α] [Neg α] [LT α] [DecidableLT α] [LE α] [DecidableLE α]
  [OfNat α 0] [OfNat α 1] [OfNat α 2] [OfNat α 50] [OfNat α 100] [NatCast α]

/-- members with `ens + dens - (obs + dobs) < 0`; the comparison is false for a NaN member -/
def belowJitO (obs dobs : α) : List (Option α) → List α → Nat
  | e :: es, d :: ds =>
    (match e with
      | some v => if v + d - (obs + dobs) < 0 then 1 else 0
      | none => 0) + belowJitO obs dobs es ds
  | _, _ => 0

/-- `(obs - censor < EPS) & (sum(ens - censor < EPS) > 0)`; false for NaN members -/
def isSudoO (eps censor obs : α) (ens : List (Option α)) : Bool :=
  decide (obs - censor < eps) &&
    decide (0 < (ens.filter fun a => match a with
      | some v => decide (v - censor < eps)
      | none => false).length)

/-- PIT of one kept forecast. Random branch: NaN members are counted in `nens` but never below the observation.
Non-random branch: `percentileofscore` (nan_policy "propagate") returns NaN as soon as one member is NaN -/
def pitOne (random : Bool) (kind : PctKind) (cst obs dobs : α) (ens : List (Option α)) (dens : List α) : Option α :=
  if random then some (pitFormula (clampCst cst) (belowJitO obs dobs ens dens) ens.length)
  else match allSome ens with
    | some vs => some (pitKind kind obs vs)
    | none => none

/-- forecasts kept by the filter, each with its jitter (drawn AFTER the filter, one per kept forecast) -/
def pitRows (random : Bool) (kind : PctKind) (eps cst censor : α) :
    List (α × List (Option α)) → List α → List (List α) → List (Option α × Bool)
  | (o, e) :: k, d :: ds, de :: des =>
    (pitOne random kind cst o d e de, isSudoO eps censor o e) :: pitRows random kind eps cst censor k ds des
  | _, _, _ => []

/-- `pit(obs, ens, random, cst, kind, censor)`; `eps` is the module's EPS (1e-10); `dobs` / `dens` are the draws of
`np.random.uniform` (ignored unless `random`; the harness passes zeros of the right shape then) -/
def pitEntry (random : Bool) (kind : PctKind) (eps cst censor : α) (obs ens : ArrIn (Option α))
    (dobs : List α) (dens : List (List α)) : Except EnsErr (List (Option α × Bool)) :=
  match checkEnsembleIn obs ens with
  | .error e => .error e
  | .ok k => .ok (pitRows random kind eps cst censor k dobs dens)

end pitentry

/-! ### `metrics.alpha`, the whole entry point -/

inductive AlphaType | cv | ks | ad | other
  deriving DecidableEq, Repr

inductive AlphaErr | ens (e : EnsErr) | badType | adTest (e : ADErr)
  deriving DecidableEq, Repr

section alphaentry
variable {α : Type} [Add α] [Sub α] [Mul α] [Div α] [Neg α] [LT α] [DecidableLT α] [LE α] [DecidableLE α]
  [OfNat α 0] [OfNat α 1] [OfNat α 2] [OfNat α 12] [OfNat α 50] [OfNat α 100] [NatCast α] [OfScientific α] [Transc α]

/-- the kept forecasts handed on to `pit` (NaN members stay in their rows) -/
def keptObs (k : List (α × List (Option α))) : List (Option α) := k.map fun p => some p.1
def keptEns (k : List (α × List (Option α))) : List (List (Option α)) := k.map Prod.snd

/-- `alpha(obs, ens, cst, type)`: `__check_ensemble_data`, then `pit(obs, ens, random=True)` — which runs the filter
a second time and uses ITS OWN default constant `cst0` (0.3), not alpha's `cst` — then the test. `ks` stands for
`scipy.stats.kstest(pits, "uniform")` (statistic, p-value), external. Result: statistic, p-value (`none` = NaN),
pseudo flags -/
def alphaEntry (sortA : List α → List α) (sortD : List (Option α) → List (Option α)) (ks : List α → α × α)
    (typ : AlphaType) (eps prev0 cst0 : α) (obs ens : ArrIn (Option α)) (dobs : List α) (dens : List (List α)) :
    Except AlphaErr (α × Option α × List Bool) :=
  match checkEnsembleIn obs ens with
  | .error e => .error (.ens e)
  | .ok k =>
    match pitEntry true .rank eps cst0 0 (.vec (keptObs k))
        (.mat (match keptEns k with | [] => 0 | r :: _ => r.length) (keptEns k)) dobs dens with
    | .error e => .error (.ens e)
    | .ok r =>
      -- the random branch never returns NaN
      let pits := r.filterMap Prod.fst
      let sudo := r.map Prod.snd
      match typ with
      | .ks => let sp := ks pits; .ok (sp.1, some sp.2, sudo)
      | .cv => let s := cvmStat sortA pits; .ok (s, cvmPvalue pits.length s, sudo)
      | .ad =>
        match adTest sortD prev0 (pits.map some) with
        | .ok s => .ok (s, some (adPvalue pits.length s), sudo)
        | .error e => .error (.adTest e)
      | .other => .error .badType

end alphaentry

/-! ### `metrics.dscore`, the whole entry point -/

/-- layouts of `sim`: [n] (one single-member forecast per value) or 2-d -/
inductive SimIn (β : Type)
  | vec (l : List β)
  | mat (ncol : Nat) (rows : List (List β))

inductive DErr | lengthMismatch
  deriving DecidableEq, Repr

section dentry
variable {α : Type} [Add α] [Sub α] [Mul α] [Div α] [Neg α] [LT α] [DecidableLT α] [LE α] [DecidableLE α]
  [OfNat α 0] [OfNat α 1] [OfNat α 2] [NatCast α] [Transc α]

/-- `np.atleast_1d(sim)`, a vector becomes a column: (ensemble size, forecasts) -/
def simRows : SimIn α → Nat × List (List α)
  | .vec l => (1, l.map fun a => [a])
  | .mat c rows => (c, rows)

/-- `dscore(obs, sim, eps)`; `obs` is the flattened [n] / [n,1] / [1,n] array. `np.corrcoef` raises when the two rank
vectors differ in length -/
def dscoreEntry (sort : List (α × Nat) → List (α × Nat)) (epsmin eps : α) (obs : List α) (sim : SimIn α) :
    Except DErr (Option α) :=
  let mr := simRows sim
  if obs.length ≠ mr.2.length then .error .lengthMismatch
  else .ok (dscore sort epsmin eps mr.1 obs mr.2)

/-- the last two operations of `dscore` — clip of `np.corrcoef`, then `(r + 1)/2` — with explicit rounding -/
def dFinishR (rnd : α → α) (r : α) : α := rnd (rnd (clip1 r + 1) / 2)

/-- `dscoreOf` written through `dFinishR` (`rnd = id`): same value, executed by the driver -/
def dscoreOfFin (oranks franks : List α) : Option α :=
  if 0 < ssd (mean oranks) oranks ∧ 0 < ssd (mean franks) franks then
    some (dFinishR id (pearson oranks franks))
  else none

end dentry

/-! ### formulas of `pit` with explicit rounding -/

section rounded
variable {α : Type} [Add α] [Sub α] [Mul α] [Div α] [Neg α] [LT α] [DecidableLT α] [LE α] [DecidableLE α]
  [OfNat α 0] [OfNat α 1] [OfNat α 2] [NatCast α]

/-- `(count + 0.5 - cst)/(1. - cst + nens)`, every operation rounded -/
def pitFormulaR (rnd : α → α) (c : α) (cnt nens : Nat) : α :=
  rnd (rnd (rnd ((cnt : α) + 1 / 2) - c) / rnd (rnd (1 - c) + (nens : α)))

/-- `(obs - censor < EPS) & (sum(ens - censor < EPS) > 0)` with the differences rounded -/
def isSudoR (rnd : α → α) (eps censor obs : α) (ens : List α) : Bool :=
  decide (rnd (obs - censor) < eps) && decide (0 < (ens.filter fun a => decide (rnd (a - censor) < eps)).length)

end rounded

/-! ### `c_hydrodiy_stat.ensrank` on caller-owned buffers, as a step function -/

section buffers
variable {α : Type} [Add α] [Sub α] [Mul α] [Div α] [Neg α] [LT α] [DecidableLT α] [LE α] [DecidableLE α]
  [OfNat α 0] [OfNat α 1] [OfNat α 2] [NatCast α]

/-- the two output arrays the caller owns and may re-use from call to call -/
structure Bufs (α : Type) where
  fmat : List (List α)
  ranks : List α

/-- operations of a history: a call of the kernel through the wrapper, or the caller writing into its buffers -/
inductive BufOp (α : Type)
  | call (eps : α) (ncol : Nat) (rows : List (List α))
  | scribble (fmat : List (List α)) (ranks : List α)

/-- outcome of an operation, as the caller sees it -/
inductive BufReply (α : Type)
  | done                                   -- scribble
  | assertion                              -- AssertionError of the wrapper (shapes)
  | code (e : Err)                         -- non-zero return code
  | ok (upper : List (List α)) (ranks : List α)   -- return 0; what is then read from the buffers

/-- `sim.shape[0]==ranks.shape[0]`, `sim.shape[0]==fmat.shape[0]`, `sim.shape[0]==fmat.shape[1]` -/
def shapesOK (b : Bufs α) (n : Nat) : Bool :=
  decide (b.ranks.length = n) && decide (b.fmat.length = n) && b.fmat.all fun r => decide (r.length = n)

/-- `fmat[i1*nval+i2] = F` for `i1 < i2` only: row `i` keeps its first `i+1` entries -/
def writeUpper : Nat → List (List α) → List (List α) → List (List α)
  | i, row :: rest, up :: ups => (row.take (i + 1) ++ up) :: writeUpper (i + 1) rest ups
  | _, rows, _ => rows

/-- what the caller reads above the diagonal -/
def readUpper : Nat → List (List α) → List (List α)
  | _, [] => []
  | i, row :: rest => row.drop (i + 1) :: readUpper (i + 1) rest

def bufStep (sort : List (α × Nat) → List (α × Nat)) (epsmin : α) (b : Bufs α) : BufOp α → Bufs α × BufReply α
  | .scribble f r => (⟨f, r⟩, .done)
  | .call eps ncol rows =>
    if shapesOK b rows.length then
      match ensrank sort epsmin eps ncol rows with
      | .error e => (b, .code e)
      | .ok (up, rk) =>
        let b' : Bufs α := ⟨writeUpper 0 b.fmat up, rk⟩
        (b', .ok (readUpper 0 b'.fmat) b'.ranks)
    else (b, .assertion)

/-- a whole history: final buffers and the replies in order -/
def bufRun (sort : List (α × Nat) → List (α × Nat)) (epsmin : α) : Bufs α → List (BufOp α) → Bufs α × List (BufReply α)
  | b, [] => (b, [])
  | b, op :: ops =>
    let s := bufStep sort epsmin b op
    let r := bufRun sort epsmin s.1 ops
    (r.1, s.2 :: r.2)

/-- the answer of one call as it would be on any buffers of the right shape: history free -/
def callReply (sort : List (α × Nat) → List (α × Nat)) (epsmin eps : α) (ncol : Nat) (rows : List (List α)) :
    BufReply α :=
  match ensrank sort epsmin eps ncol rows with
  | .error e => .code e
  | .ok (up, rk) => .ok up rk

/-- the answer an operation would get on fresh buffers of the right shape -/
def replyOf (sort : List (α × Nat) → List (α × Nat)) (epsmin : α) : BufOp α → BufReply α
  | .call eps ncol rows => callReply sort epsmin eps ncol rows
  | .scribble _ _ => .done

end buffers

end HydroVerif.C10
