import HydroVerif.Model.C09
/-
C09 — the state `write_csv` / `read_csv` act on: a directory (file name → content) and a caller-supplied zip archive
(member name → text), as state machines over operation lists. File contents are opaque texts; zipfile and the file system
themselves are external (a zip file is a list of members, a directory a python-dict-like association list). No Mathlib.
-/
namespace HydroVerif.C09

/-- what a file of the directory holds -/
inductive Stored
  | plain (text : Str)
  | zip (members : List (Str × Str))
  deriving DecidableEq, Repr

abbrev Dir := List (Str × Stored)

def dirHas (d : Dir) (f : Str) : Bool := d.any (·.1 == f)

def dirGet : Dir → Str → Option Stored
  | [], _ => none
  | (g, c) :: d, f => if g == f then some c else dirGet d f

/-- create or replace a file -/
def dirSet (d : Dir) (f : Str) (c : Stored) : Dir :=
  if dirHas d f then d.map (fun e => if e.1 == f then (f, c) else e) else d ++ [(f, c)]

/-- `write_csv(data, name, …, compress=…)` without an archive: a plain file under the name itself, or a zip file
(`ZipFile(mode="w")`: any older file of that name is replaced) holding the single member `<stem>.csv`.
`sourceExists = false`: the ValueError raised before any file is opened - nothing changes -/
def writeStep (d : Dir) (name : Str) (compress : Bool) (sourceExists : Bool) (text : Str) : Dir :=
  if !sourceExists then d else
  match writeTarget name compress with
  | (full, some member) => dirSet d full (.zip [(member, text)])
  | (full, none) => dirSet d full (.plain text)

inductive ReadOutcome
  | text (t : Str)
  /-- `_check_name` finds no candidate: ValueError -/
  | notFound
  /-- the zip file opened does not hold `<stem>.csv`: KeyError -/
  | noMember
  /-- the file opened is not of the kind its extension announces (plain text under `.zip` / `.gz`, zip data under `.gz`) -/
  | wrongKind
  deriving DecidableEq, Repr

def memberGet : List (Str × Str) → Str → Option Str
  | [], _ => none
  | (n, t) :: ms, m => if n == m then some t else memberGet ms m

/-- `read_csv(name)` without an archive: resolve the name against the files present, open by extension -/
def readStep (d : Dir) (name : Str) : ReadOutcome :=
  match readTarget (dirHas d) name with
  | none => .notFound
  | some (.plain f) =>
    match dirGet d f with
    | some (.plain t) => .text t
    | some (.zip _) => .wrongKind     -- never: a zip file is only ever created under a `.zip` name (invariant)
    | none => .notFound
  | some (.zipMember f m) =>
    match dirGet d f with
    | some (.zip ms) => (match memberGet ms m with | some t => .text t | none => .noMember)
    | some (.plain _) => .wrongKind
    | none => .notFound
  | some (.gz _) => .wrongKind          -- the writer never produces gzip data

inductive Op
  | write (name : Str) (compress : Bool) (sourceExists : Bool) (text : Str)
  | read (name : Str)
  deriving Repr

/-- one operation: the new directory and, for a read, its outcome -/
def step (d : Dir) : Op → Dir × Option ReadOutcome
  | .write name compress src text => (writeStep d name compress src text, none)
  | .read name => (d, some (readStep d name))

/-- a whole history from a given directory: final directory and the outcomes of the reads in order -/
def run : Dir → List Op → Dir × List ReadOutcome
  | d, [] => (d, [])
  | d, op :: ops =>
    let (d', o) := step d op
    let (d'', os) := run d' ops
    (d'', match o with | some r => r :: os | none => os)

/-! ### a caller-supplied archive -/

abbrev Archive := List (Str × Str)

inductive AOp
  | write (member : Str) (text : Str)
  | read (member : Str)
  deriving Repr

/-- `write2zip`: a member of that name is refused (ValueError, archive unchanged), else appended -/
def arcWrite (a : Archive) (m t : Str) : Option Archive :=
  if a.any (·.1 == m) then none else some (a ++ [(m, t)])

/-- `archive.read(str(filename))`: the member of exactly that name, else KeyError -/
def arcRead (a : Archive) (m : Str) : Option Str := memberGet a m

/-- one archive operation: new archive, and the outcome (`some none` = refused / KeyError) -/
def astep (a : Archive) : AOp → Archive × Option Str
  | .write m t => match arcWrite a m t with | some a' => (a', some t) | none => (a, none)
  | .read m => (a, arcRead a m)

def arun : Archive → List AOp → Archive × List (Option Str)
  | a, [] => (a, [])
  | a, op :: ops =>
    let (a', o) := astep a op
    let (a'', os) := arun a' ops
    (a'', o :: os)

/-- the text of the first write of member `m` in a history (later writes of the same member are refused) -/
def firstWrite : List AOp → Str → Option Str
  | [], _ => none
  | .write n t :: ops, m => if n == m then some t else firstWrite ops m
  | .read _ :: ops, m => firstWrite ops m

end HydroVerif.C09
