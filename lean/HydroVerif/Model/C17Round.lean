/-
C17 — an arithmetic that rounds every result.  `Fl rnd` carries a value of an exact type `F`; its `+ - *`
are the exact operations followed by `rnd`.  The kernels of `Model/C17.lean` (same text) instantiate at
`Fl rnd`; with `F = Rat` and `rnd = rnd53` (round to nearest, ties to even, 53-bit significand, unbounded
exponent) this is IEEE double arithmetic as long as nothing overflows or enters the subnormal range;
`rndD` also has the subnormal range (fixed quantum `2^-1074`), i.e. it is IEEE double absent overflow.
No Mathlib; the driver runs these against the real kernels.
-/
import HydroVerif.Model.C17

namespace HydroVerif.C17

/-- a number of the rounding arithmetic -/
structure Fl {F : Type} (rnd : F → F) where
  val : F

instance {F : Type} [Add F] {rnd : F → F} : Add (Fl rnd) := ⟨fun a b => ⟨rnd (a.val + b.val)⟩⟩
instance {F : Type} [Sub F] {rnd : F → F} : Sub (Fl rnd) := ⟨fun a b => ⟨rnd (a.val - b.val)⟩⟩
instance {F : Type} [Mul F] {rnd : F → F} : Mul (Fl rnd) := ⟨fun a b => ⟨rnd (a.val * b.val)⟩⟩
instance {F : Type} [OfNat F 0] {rnd : F → F} : OfNat (Fl rnd) 0 := ⟨⟨0⟩⟩

/-- `2^k` for an integer exponent -/
def pow2 (k : Int) : Rat :=
  if 0 ≤ k then ((2 ^ k.toNat : Nat) : Rat) else 1 / ((2 ^ (-k).toNat : Nat) : Rat)

/-- `⌊log₂ a⌋` for a positive rational `a = n/d`: `log2 n - log2 d`, or one less -/
def ilog2 (a : Rat) : Int :=
  let e0 : Int := (a.num.toNat.log2 : Int) - (a.den.log2 : Int)
  if pow2 e0 ≤ a then e0 else e0 - 1

/-- nearest integer, ties to even -/
def roundHalfEven (q : Rat) : Int :=
  let f := q.floor
  let r := q - (f : Rat)
  if r < 1 / 2 then f
  else if 1 / 2 < r then f + 1
  else if f % 2 = 0 then f else f + 1

/-- round to the nearest multiple of `2^(e-52)` where `2^e ≤ |x| < 2^(e+1)`, but never finer than
`2^minQuantum` (ties to even) -/
def rndWith (minQuantum : Option Int) (x : Rat) : Rat :=
  if x = 0 then 0
  else
    let a := if x < 0 then -x else x
    let e := ilog2 a
    let qe : Int := match minQuantum with
      | none => e - 52
      | some mq => if e - 52 < mq then mq else e - 52
    let r : Rat := (roundHalfEven (a * pow2 (-qe)) : Rat) * pow2 qe
    if x < 0 then -r else r

/-- 53-bit significand, unbounded exponent: the standard model of double rounding -/
def rnd53 : Rat → Rat := rndWith none

/-- IEEE double rounding including the subnormal range (no overflow) -/
def rndD : Rat → Rat := rndWith (some (-1074))

end HydroVerif.C17
