/-
C07 — the Python layer of `hydrodiy/gis/grid.py` around the geometry kernels, as a state machine:

* `mkGrid` — `Grid.__init__(name, ncols, nrows=None, cellsize=1., xllcorner=0, yllcorner=0)`: the defaults, and the
  guard the constructor has (`np.zeros((nrows, ncols))` refuses a negative dimension with `ValueError`);
* `cellsRequestLen`, `pointsRequestLen`, `gridCell2rowcolReq`, `gridCell2coordReq`, `gridCoord2cellReq` — what the
  wrappers make of the *shape* of a request (`np.atleast_1d` / `np.atleast_2d`, the `[n, 2]` test of `coord2cell`,
  the one-dimensional buffers of the extension module) before any kernel runs;
* `Op`, `step`, `run`, `finalGeom` — a grid object is its five public geometry attributes (`_getsize()` reads them at
  every call; they are plain attributes, the library's own tests re-assign them); every public mutator / accessor the
  harness drives is an operation: re-assignment of an attribute, `clone` (also deepcopy / pickle round trip: a new
  object with the same attributes), and the calls `cell2rowcol`, `cell2coord`, `coord2cell`, `neighbours`,
  `xvalues / yvalues / xlim / ylim`. A call never writes an attribute; a rejected call (`neighbours` of an invalid
  cell: `ValueError`) leaves the object as it was.

No Mathlib. Executed by the driver at `Float` (`mk`, `shape`, `hist` requests).
-/
import HydroVerif.Model.C07Kernel
namespace HydroVerif.C07

/-- error kinds of the Python layer -/
inductive PyErr
  /-- `ValueError` (negative dimension in `np.zeros`, `[n, 2]` test, wrong number of buffer dimensions) -/
  | valueError
  deriving DecidableEq, Repr

/-! ### constructor -/

section Ctor
variable {α : Type} [OfNat α 0] [OfNat α 1]

/-- `Grid.__init__`: `nrows=None` means `nrows = ncols`; `cellsize=1.`, `xllcorner=0`, `yllcorner=0`;
`self._data = np.zeros((nrows, ncols))` raises `ValueError` for a negative dimension (zero is accepted) -/
def mkGrid (ncols : Int) (nrows : Option Int) (csz xll yll : Option α) : Except PyErr (Geom α) :=
  let nr := match nrows with
    | none => ncols
    | some r => r
  if nr < 0 ∨ ncols < 0 then .error .valueError
  else .ok ⟨nr, ncols,
    (match xll with | none => 0 | some v => v),
    (match yll with | none => 0 | some v => v),
    (match csz with | none => 1 | some v => v)⟩

end Ctor

/-! ### request shapes -/

/-- `cell2rowcol` / `cell2coord`: `np.atleast_1d(idxcells)` then a one-dimensional buffer:
a scalar (shape `()`) is one cell, shape `(n,)` is `n` cells, any other number of dimensions is a `ValueError` -/
def cellsRequestLen (shape : List Nat) : Except PyErr Nat :=
  match shape with
  | [] => .ok 1
  | [n] => .ok n
  | _ => .error .valueError

/-- `coord2cell`: `np.atleast_2d(xycoords)` then `ndim != 2 or shape[1] != 2 -> ValueError`:
a scalar becomes `(1, 1)`, shape `(k,)` becomes `(1, k)`: one point when `k = 2`; `(n, 2)` is `n` points -/
def pointsRequestLen (shape : List Nat) : Except PyErr Nat :=
  match shape with
  | [] => .error .valueError
  | [k] => if k = 2 then .ok 1 else .error .valueError
  | [n, k] => if k = 2 then .ok n else .error .valueError
  | _ => .error .valueError

/-- rows of a flat (C-ordered) `[n, 2]` array -/
def pairUp {β : Type} : List β → List (β × β)
  | a :: b :: t => (a, b) :: pairUp t
  | _ => []

section Requests
variable {α : Type} [Add α] [Sub α] [Mul α] [Div α] [OfNat α 0] [OfNat α 1] [LE α] [DecidableLE α] [LT α]
  [DecidableLT α] [Trunc α] [FloorNum α]

/-- `Grid.cell2rowcol(idxcells)` for a request of the given shape with the given (flat) content -/
def gridCell2rowcolReq (nrows ncols : Int) (shape : List Nat) (data : List Int) : Except PyErr (List (Int × Int)) :=
  match cellsRequestLen shape with
  | .error e => .error e
  | .ok _ => .ok (gridCell2rowcol nrows ncols data)

/-- `Grid.cell2coord(idxcells)` for a request of the given shape -/
def gridCell2coordReq (g : Geom α) (shape : List Nat) (data : List Int) : Except PyErr (List (Option (α × α))) :=
  match cellsRequestLen shape with
  | .error e => .error e
  | .ok _ => .ok (gridCell2coord g data)

/-- `Grid.coord2cell(xycoords)` for a request of the given shape -/
def gridCoord2cellReq (g : Geom α) (shape : List Nat) (data : List α) : Except PyErr (List Int) :=
  match pointsRequestLen shape with
  | .error e => .error e
  | .ok _ => .ok (gridCoord2cell g (pairUp data))

end Requests

/-! ### the grid object as a state machine -/

/-- operations on one grid object -/
inductive Op (α : Type)
  | setNrows (v : Int)
  | setNcols (v : Int)
  | setXll (v : α)
  | setYll (v : α)
  | setCsz (v : α)
  /-- `clone()`, `copy.deepcopy`, pickle round trip: continue with the copy -/
  | clone
  | rowcol (cells : List Int)
  | c2c (cells : List Int)
  | xy2c (pts : List (α × α))
  | nb (c : Int)
  | axes

/-- what an operation returns -/
inductive Ans (α : Type)
  /-- nothing (attribute assignment, clone) -/
  | unit
  | rowcol (l : List (Int × Int))
  | coords (l : List (Option (α × α)))
  | cells (l : List Int)
  /-- `neighbours`: the 9 entries, or the rejection (`ValueError`) -/
  | nb (r : Except Err (List Int))
  | axes (xv yv : List (Option α)) (xl yl : α × α)

/-- the operations that write an attribute -/
def Op.isMutator {α : Type} : Op α → Bool
  | .setNrows _ | .setNcols _ | .setXll _ | .setYll _ | .setCsz _ => true
  | _ => false

section Machine
variable {α : Type} [Add α] [Sub α] [Mul α] [Div α] [OfNat α 0] [OfNat α 1] [LE α] [DecidableLE α] [LT α]
  [DecidableLT α] [Trunc α] [FloorNum α]

/-- one operation: the new state (the five attributes) and the answer. Calls read the attributes of the moment
(`_getsize()`), answer with the kernels, and write nothing — whether they succeed or are rejected -/
def step (g : Geom α) : Op α → Geom α × Ans α
  | .setNrows v => ({ g with nrows := v }, .unit)
  | .setNcols v => ({ g with ncols := v }, .unit)
  | .setXll v => ({ g with xll := v }, .unit)
  | .setYll v => ({ g with yll := v }, .unit)
  | .setCsz v => ({ g with csz := v }, .unit)
  | .clone => (g, .unit)
  | .rowcol cells => (g, .rowcol (gridCell2rowcol g.nrows g.ncols cells))
  | .c2c cells => (g, .coords (gridCell2coord g cells))
  | .xy2c pts => (g, .cells (gridCoord2cell g pts))
  | .nb c => (g, .nb (cNeighbours g.nrows g.ncols c))
  | .axes => (g, .axes (xvalues g) (yvalues g) (xlim g) (ylim g))

/-- the answers of a history, in order -/
def run : Geom α → List (Op α) → List (Ans α)
  | _, [] => []
  | g, o :: os => (step g o).2 :: run (step g o).1 os

/-- the attributes after a history -/
def finalGeom : Geom α → List (Op α) → Geom α
  | g, [] => g
  | g, o :: os => finalGeom (step g o).1 os

end Machine

end HydroVerif.C07
