import HydroVerif.Model.C09
/-
C09 — numbers in the table body. `DataFrame.to_csv(float_format="%0.Nf")` formats every float cell with python's `%`
operator, which prints the exact binary value of the double correctly rounded (round half to even on the exact value);
integer cells are written with `str`. The reader turns a decimal text into the nearest number. Here: the writer's
formatting and the reader's decimal parsing over exact rationals (the value of a double IS a rational), no Mathlib.
-/
namespace HydroVerif.C09

/-- round half to even -/
def roundHalfEven (q : Rat) : Int :=
  let f := q.floor
  let r := q - (f : Rat)
  if r < 1 / 2 then f else if 1 / 2 < r then f + 1 else if f % 2 = 0 then f else f + 1

/-- exactly `d` decimal digits: the `d` least significant digits of `m`, zero padded on the left -/
def fracDigits : Nat → Nat → Str
  | 0, _ => []
  | d + 1, m => fracDigits d (m / 10) ++ [digitChar (m % 10)]

/-- `"%0.{d}f" % x` for a finite double given by its sign bit and its exact magnitude: the sign is the sign bit (so `-0.0`
and tiny negative numbers print `-0.00…`), the digits are those of `round(mag · 10^d)` -/
def fmtFixed (d : Nat) (neg : Bool) (mag : Rat) : Str :=
  let n := (roundHalfEven (mag * (10 : Rat) ^ d)).toNat
  (if neg then ['-'] else []) ++ natStr (n / 10 ^ d) ++ (if d = 0 then [] else '.' :: fracDigits d (n % 10 ^ d))

/-- `str(z)` for an integer cell -/
def fmtInt (z : Int) : Str := if z < 0 then '-' :: natStr z.natAbs else natStr z.natAbs

def isDigit (c : Char) : Bool := decide (48 ≤ c.toNat) && decide (c.toNat ≤ 57)
def allDigits (s : Str) : Bool := s.all isDigit

/-- digits, optionally a point and more digits (at least one digit in all) -/
def parseUnsigned (s : Str) : Option Rat :=
  let ip := s.takeWhile (· != '.')
  match s.drop ip.length with
  | [] => if ip ≠ [] ∧ allDigits ip = true then some (natVal ip : Rat) else none
  | _ :: fp =>
    if (ip ≠ [] ∨ fp ≠ []) ∧ allDigits ip = true ∧ allDigits fp = true then
      some ((natVal ip : Rat) + (natVal fp : Rat) / (10 : Rat) ^ fp.length)
    else none

/-- the exact value of a plain decimal text with an optional sign -/
def parseDec (s : Str) : Option Rat :=
  match s with
  | '-' :: r => (parseUnsigned r).map fun q => -q
  | '+' :: r => parseUnsigned r
  | _ => parseUnsigned s

/-- an integer text: optional sign and digits -/
def parseInt (s : Str) : Option Int :=
  match s with
  | '-' :: r => if r ≠ [] ∧ allDigits r = true then some (-(natVal r : Int)) else none
  | _ => if s ≠ [] ∧ allDigits s = true then some (natVal s : Int) else none

/-! ### exponent format `%0.{d}e` -/

/-- `10^e` for an integer exponent -/
def pow10 (e : Int) : Rat := if 0 ≤ e then (10 : Rat) ^ e.toNat else 1 / (10 : Rat) ^ (-e).toNat

/-- the decimal exponent of a positive magnitude: `e` with `10^e ≤ mag < 10^(e+1)`, searched from a guess -/
def findExp : Nat → Rat → Int → Int
  | 0, _, e => e
  | fuel + 1, mag, e =>
    if mag < pow10 e then findExp fuel mag (e - 1)
    else if pow10 (e + 1) ≤ mag then findExp fuel mag (e + 1)
    else e

/-- mantissa digits and exponent of `"%0.{d}e"`: `n` has `d+1` digits, the value printed is `n · 10^(e-d)` -/
def expParts (d : Nat) (mag : Rat) : Nat × Int :=
  if mag ≤ 0 then (0, 0) else
  let e := findExp 800 mag 0
  let n := (roundHalfEven (mag / pow10 (e - d))).toNat
  if n = 10 ^ (d + 1) then (10 ^ d, e + 1) else (n, e)

/-- `"%0.{d}e" % x`: sign, first digit, point and `d` digits (no point when `d = 0`), `e`, sign and at least two digits of
the exponent -/
def fmtExp (d : Nat) (neg : Bool) (mag : Rat) : Str :=
  let (n, e) := expParts d mag
  (if neg then ['-'] else []) ++ natStr (n / 10 ^ d) ++ (if d = 0 then [] else '.' :: fracDigits d (n % 10 ^ d))
    ++ 'e' :: (if e < 0 then '-' else '+') :: (if e.natAbs < 10 then '0' :: natStr e.natAbs else natStr e.natAbs)

/-- an explicit plus sign of the exponent is dropped -/
def dropPlus (ex : Str) : Str :=
  match ex with
  | '+' :: r => r
  | _ => ex

/-- a decimal text with an optional exponent part `e±dd` -/
def parseSci (s : Str) : Option Rat :=
  let m := s.takeWhile fun c => c != 'e' && c != 'E'
  match s.drop m.length with
  | [] => parseDec m
  | _ :: ex =>
    match parseDec m, parseInt (dropPlus ex) with
    | some q, some e => some (q * pow10 e)
    | _, _ => none

end HydroVerif.C09
