/-
C05 — footprint models of the hand-written C kernels of hydrodiy (memory accesses, integer divisors, integer
conversions), after the `fix:` commits of branch `fix-C05`.

A footprint model mirrors the loops of a kernel and keeps only what decides WHICH element of WHICH buffer is
touched: loop counters, the integer contents that steer the control flow (aggregation index, flow directions,
cell numbers, time stamps) and, where a floating point test steers it, the outcome of that test as a Boolean
oracle supplied by the caller (`lin i`, `outbox i`, …). Values that are only computed and stored are dropped.

* every array access goes through `acc` / `rdI` with the extent (number of elements) of the buffer the kernel
  was handed: outside `0 .. extent-1` the run ends with `Fault.oob buf idx`;
* an integer `%` or `/` whose divisor is zero ends with `Fault.div0`;
* an integer expression that leaves its C type (`int`: 32 bits, `long long`: 64 bits) or a conversion
  `(int) x`, `(long long) x` of a double that is NaN, infinite or out of range ends with `Fault.ovf`;
* loops the C text bounds only implicitly get a fuel argument; running out of fuel is `Fault.fuel`
  (the safety theorems show it cannot happen).

A run that touches only what it may returns `.ok code` (`0` = the kernel's success, `1` = one of its error
returns; the numeric value of error codes, `BASE + __LINE__`, is not modelled).

No Mathlib. C `int`/`long long` are `Int`; buffers are named by the C parameter (`Buf`), their extents are a
function `Ext = Buf → Nat`; integer contents are functions `Nat → Int` (never consulted outside the extent,
because the access check comes first). The integer grid core (`validCell`, `colOf`, `rowOf`, `neighbour`,
`cellOfNxNy`) is the one of `Model/C07.lean`.
-/
import HydroVerif.Model.C07

namespace HydroVerif.C05
open HydroVerif.C07 (validCell colOf rowOf neighbour cellOfNxNy)

/-- buffers, named after the C parameters (locals of a kernel included) -/
inductive Buf
  | aggindex | inputs | outputs | iend | data | islin | varsec | varvalues | hvalues
  | date | date1 | date2 | daysInMonth | dayOfYear
  | params | innov | prev | residuals | obs | sim | weights | table | decompos | ensemb | work
  | fmat | ranks | unifdata | isdominated | predictors | tXXinv | leverages
  | xycoords | idxcell | rowcols | neighbours | nbloc | zslice | xyslice
  | flowdircode | flowdir | idxdown | idxup | toacc | accumulation
  | xyarea | npoints | idxcells | idxcellsArea | xypoints | altitude | slopeval
  | points | polygon | xlim | ylim | inside
  | idxinlets | buffer1 | buffer2 | buffer | mask | idxboundary | idxok | rivdata | flowpaths
  /-- buffers of the definitions GENERATED from the C text (`Generated/CKernels.lean`): the `k`-th parameter of the
  function (a pointer), the `k`-th local array of the function — positions, not names -/
  | arg (k : Nat) | loc (k : Nat)
  deriving DecidableEq, Repr

inductive Fault
  | oob (b : Buf) (i : Int)
  | div0
  | ovf
  | fuel
  deriving DecidableEq, Repr

abbrev Ext := Buf → Nat
abbrev R := Except Fault

/-- extents of the local arrays of a kernel: every local has `n` elements -/
def constExt (n : Nat) : Ext := fun _ => n

/-- a run is safe when it ends with a return code, not with a fault -/
def Safe {α : Type} (r : R α) : Prop := ∃ x, r = .ok x

/-- the run ended without fault -/
def isOk {α : Type} : R α → Bool
  | .ok _ => true
  | .error _ => false

/-- checked access `b[i]` (read or write) -/
def acc (e : Ext) (b : Buf) (i : Int) : R Unit :=
  if 0 ≤ i ∧ i < (e b : Int) then .ok () else .error (.oob b i)

/-- checked read of an integer buffer whose content `f` steers the control flow -/
def rdI (e : Ext) (b : Buf) (f : Nat → Int) (i : Int) : R Int :=
  if 0 ≤ i ∧ i < (e b : Int) then .ok (f i.toNat) else .error (.oob b i)

def i32min : Int := -2147483648
def i32max : Int := 2147483647
def i64min : Int := -9223372036854775808
def i64max : Int := 9223372036854775807

/-- an `int` expression -/
def i32 (x : Int) : R Int := if i32min ≤ x ∧ x ≤ i32max then .ok x else .error .ovf
/-- a `long long` expression -/
def i64 (x : Int) : R Int := if i64min ≤ x ∧ x ≤ i64max then .ok x else .error .ovf

/-- the integer part of a double about to be converted: `none` = NaN or infinite -/
abbrev XInt := Option Int

/-- `(int) x` -/
def castI32 : XInt → R Int
  | none => .error .ovf
  | some v => i32 v
/-- `(long long) x` -/
def castI64 : XInt → R Int
  | none => .error .ovf
  | some v => i64 v

/-- C `a % b` on `long long`/`int` (truncated), `b = 0` is a fault -/
def cmod (a b : Int) : R Int := if b = 0 then .error .div0 else .ok (a.tmod b)
/-- C `a / b` -/
def cdiv (a b : Int) : R Int := if b = 0 then .error .div0 else .ok (a.tdiv b)

/-- `for (i = i0; i < i0 + k; i++) body`: the body returns the next state (`inl`) or leaves the loop
with a value (`inr`: `break` or `return`) -/
def forLoop {σ ρ : Type} (body : Int → σ → R (σ ⊕ ρ)) : Nat → Int → σ → R (σ ⊕ ρ)
  | 0, _, s => .ok (.inl s)
  | k + 1, i, s =>
    match body i s with
    | .error f => .error f
    | .ok (.inr r) => .ok (.inr r)
    | .ok (.inl s') => forLoop body k (i + 1) s'

/-- a loop without state and without early exit: `for (i = i0; i < i0 + k; i++) body(i)` -/
def forEach (body : Int → R Unit) (k : Nat) (i0 : Int) : R Unit :=
  match forLoop (σ := Unit) (ρ := Empty) (fun i _ => (body i).map fun _ => .inl ()) k i0 () with
  | .error f => .error f
  | .ok _ => .ok ()

/-! ## data package -/

/-- one iteration of the loop of `c_aggregate` (c_dutils.c); state `(iaprev, count)` -/
def aggBody (e : Ext) (nval : Int) (idx : Nat → Int) (i : Int) (s : Int × Int) : R ((Int × Int) ⊕ Int) := do
  let ia ← rdI e .aggindex idx i
  if ia < s.1 then pure (.inr 1)
  else if ia ≠ s.1 then do
    acc e .outputs s.2
    if s.2 + 1 ≥ nval then pure (.inr 1)
    else do
      acc e .inputs i
      pure (.inl (ia, s.2 + 1))
  else do
    acc e .inputs i
    pure (.inl s)

/-- `c_aggregate(nval, operator, maxnan, aggindex, inputs, outputs, iend)`; the operator and `maxnan`
do not steer any access -/
def aggregate (e : Ext) (nval : Int) (idx : Nat → Int) : R Int :=
  if nval < 1 then pure 1
  else do
    let ia0 ← rdI e .aggindex idx 0
    let r ← forLoop (aggBody e nval idx) nval.toNat 0 (ia0, 0)
    match r with
    | .inr c => pure c
    | .inl s => do
      acc e .outputs s.2
      acc e .iend 0
      pure 0

/-- second pass of `c_flathomogen` over a finished group: `for(j=start; j<i; j++)` reads `inputs[j]`,
writes `outputs[j]` -/
def homFlush (e : Ext) (start i : Int) : R Unit :=
  forEach (fun j => do acc e .inputs j; acc e .outputs j) (i - start).toNat start

/-- state `(iaprev, start)` -/
def homBody (e : Ext) (idx : Nat → Int) (i : Int) (s : Int × Int) : R ((Int × Int) ⊕ Int) := do
  let ia ← rdI e .aggindex idx i
  if ia < s.1 then pure (.inr 1)
  else if ia ≠ s.1 then do
    homFlush e s.2 i
    acc e .inputs i
    pure (.inl (ia, i))
  else do
    acc e .inputs i
    pure (.inl s)

/-- `c_flathomogen(nval, maxnan, aggindex, inputs, outputs)` -/
def flathomogen (e : Ext) (nval : Int) (idx : Nat → Int) : R Int :=
  if nval < 1 then pure 1
  else do
    let ia0 ← rdI e .aggindex idx 0
    let r ← forLoop (homBody e idx) nval.toNat 0 (ia0, 0)
    match r with
    | .inr c => pure c
    | .inl s => do
      homFlush e s.2 nval
      pure 0

/-- loop of `c_islin` from `i = 2`; state `(count, start)`; `lin i` = the test
`dist<tol && vcur>thresh && ~isnan(dist)` at iteration `i` -/
def islinBody (e : Ext) (npoints : Int) (lin : Nat → Bool) (i : Int) (s : Int × Int) :
    R ((Int × Int) ⊕ Int) := do
  acc e .data i
  acc e .islin i
  if lin i.toNat then
    pure (.inl (s.1 + 1, if s.1 = 0 then i - 2 else s.2))
  else do
    if s.1 ≥ npoints then forEach (fun k => acc e .islin k) (i - s.2).toNat s.2 else pure ()
    pure (.inl (0, s.2))

/-- `c_islin(nval, thresh, tol, npoints, data, islin)` -/
def islin (e : Ext) (nval npoints : Int) (lin : Nat → Bool) : R Int :=
  if nval < 2 then do
    if nval = 1 then acc e .islin 0 else pure ()
    pure 0
  else do
    acc e .data 0
    acc e .data 1
    acc e .islin 0
    acc e .islin 1
    let r ← forLoop (islinBody e npoints lin) (nval - 2).toNat 2 (0, 0)
    match r with
    | .inr c => pure c
    | .inl _ => pure 0

/-- `c_eckhardt(nval, timestep_type, thresh, tau, BFI_max, inputs, outputs)`; `badparam` = one of the
three parameter range tests fired -/
def eckhardt (e : Ext) (nval : Int) (badparam : Bool) : R Int :=
  if badparam then pure 1
  else if nval < 1 then pure 0
  else do
    acc e .inputs 0
    acc e .outputs 0
    forEach (fun i => do acc e .inputs i; acc e .outputs i) (nval - 1).toNat 1
    pure 0

/-- start scan of `c_var2h`: `while(varindex<nvalvar-1 && varsec[varindex]<=hstartsec) varindex++`;
returns the final `varindex` -/
def var2hScan (e : Ext) (nvalvar hstart : Int) (sec : Nat → Int) : R Int := do
  let r ← forLoop (σ := Unit) (ρ := Int) (fun j _ => do
      let t ← rdI e .varsec sec j
      if t ≤ hstart then pure (.inl ()) else pure (.inr j)) (nvalvar - 1).toNat 0 ()
  match r with
  | .inr j => pure j
  | .inl _ => pure (if nvalvar - 1 < 0 then 0 else nvalvar - 1)

/-- inner `while(t1<end)` of `c_var2h`; state `(varindex, t1)`;
result `inr (inl code)` = `return code`, `inr (inr v)` = loop left with `varindex = v` -/
def var2hInner (e : Ext) (nvalvar endt : Int) (sec : Nat → Int) (_ : Int) (s : Int × Int) :
    R ((Int × Int) ⊕ (Int ⊕ Int)) :=
  if s.2 < endt then do
    let t2 ← rdI e .varsec sec (s.1 + 1)
    acc e .varvalues (s.1 + 1)
    if t2 < s.2 then pure (.inr (.inl 1))
    else if s.1 + 1 + 1 ≥ nvalvar then pure (.inr (.inr (s.1 + 1)))
    else pure (.inl (s.1 + 1, t2))
  else pure (.inr (.inr s.1))

/-- one period of `c_var2h`; state `varindex` -/
def var2hBody (e : Ext) (nvalvar nbsec hstart : Int) (sec : Nat → Int) (i : Int) (v : Int) :
    R (Int ⊕ Int) := do
  let p ← i64 (i * nbsec)
  let start ← i64 (hstart + p)
  let t1 ← rdI e .varsec sec v
  acc e .varvalues v
  acc e .hvalues i
  let r ← forLoop (var2hInner e nvalvar (start + nbsec) sec) nvalvar.toNat 0 (v, t1)
  match r with
  | .inl _ => .error .fuel
  | .inr (.inl c) => pure (.inr c)
  | .inr (.inr v') => do
    acc e .hvalues i
    pure (.inl (v' - 1))

/-- `c_var2h(nvalvar, nvalh, nbsec_per_period, rainfall, display, maxgapsec, varsec, varvalues,
hstartsec, hvalues)`. Time stamps are compared as integers: the C code compares their conversions to
double, which is the same thing below 2^53 seconds. -/
def var2h (e : Ext) (nvalvar nvalh nbsec rainfall hstart : Int) (sec : Nat → Int) : R Int :=
  if rainfall < 0 ∨ rainfall > 1 then pure 1
  else if nbsec ≠ 1800 ∧ nbsec ≠ 3600 then pure 1
  else do
    let v0 ← var2hScan e nvalvar hstart sec
    if v0 - 1 < 0 then pure 1
    else do
      let r ← forLoop (var2hBody e nvalvar nbsec hstart sec) (nvalh - 1).toNat 0 (v0 - 1)
      match r with
      | .inr c => pure c
      | .inl _ => pure 0

/-- `c_dateutils_isleapyear(year)`: `year % 4 == 0 && (year % 100 != 0 || year % 400 == 0)` — three remainders
by constants -/
def isleapyear (year : Int) : R Int := do
  let a ← cmod year 4
  let b ← cmod year 100
  let c ← cmod year 400
  pure (if a = 0 ∧ (b ≠ 0 ∨ c = 0) then 1 else 0)

/-- `c_dateutils_daysinmonth`: the table `days_in_month[13]` is indexed behind the `1..12` guard -/
def daysinmonth (month : Int) : R Int :=
  if month < 1 ∨ month > 12 then pure (-1)
  else do
    acc (constExt 13) .daysInMonth month
    pure 0

/-- `c_dateutils_dayofyear` -/
def dayofyear (month day : Int) : R Int :=
  if month < 1 ∨ month > 12 then pure (-1)
  else if day < 1 ∨ day > 31 then pure (-1)
  else do
    acc (constExt 13) .dayOfYear month
    pure 0

/-- `c_dateutils_add1month(date)`; `d k` = content of `date[k]` -/
def add1month (e : Ext) (d : Nat → Int) : R Int := do
  let m ← rdI e .date d 1
  let ym ← (if m < 12 then do
      acc e .date 1
      let y ← rdI e .date d 0
      pure (some (y, m + 1))
    else do
      let y ← rdI e .date d 0
      if y = i32max then pure none
      else do
        acc e .date 1
        let y1 ← i32 (y + 1)
        acc e .date 0
        pure (some (y1, 1)))
  match ym with
  | none => pure 1
  | some (_, m') => do
    let r ← daysinmonth m'
    if r < 0 then pure 1
    else do
      acc e .date 2
      pure 0

/-- value returned by `c_dateutils_daysinmonth` for a month in `1..12` -/
def nbdayOf (y m : Int) : Int :=
  let leap := y.tmod 4 = 0 ∧ (y.tmod 100 ≠ 0 ∨ y.tmod 400 = 0)
  if m = 2 then (if leap then 29 else 28)
  else if m = 4 ∨ m = 6 ∨ m = 9 ∨ m = 11 then 30 else 31

/-- `c_dateutils_add1day(date)` -/
def add1day (e : Ext) (d : Nat → Int) : R Int := do
  let y ← rdI e .date d 0
  let m ← rdI e .date d 1
  let r ← daysinmonth m
  if r < 0 then pure 1
  else do
    let nbday := nbdayOf y m
    let day ← rdI e .date d 2
    if day < nbday then do
      let _ ← i32 (day + 1)
      acc e .date 2
      pure 0
    else if day = nbday then
      if m ≥ 12 ∧ y = i32max then pure 1
      else do
        acc e .date 2
        if m < 12 then do
          acc e .date 1
          pure 0
        else do
          acc e .date 1
          let _ ← i32 (y + 1)
          acc e .date 0
          pure 0
    else pure 1

/-- `c_dateutils_getdate(day, date)`: `inrange` = the test `day > -2147483648. && day < 2147483648.`;
`d4, d2, d0` = integer parts of `day*1e-4`, `day*1e-2`, `day` -/
def getdate (e : Ext) (inrange : Bool) (d4 d2 d0 : XInt) : R Int :=
  if !inrange then pure 1
  else do
    let year ← castI32 d4
    let c2 ← castI32 d2
    let y100 ← i32 (year * 100)
    let month ← i32 (c2 - y100)
    let c0 ← castI32 d0
    let y10000 ← i32 (year * 10000)
    let t ← i32 (c0 - y10000)
    let m100 ← i32 (month * 100)
    let nday ← i32 (t - m100)
    if month < 0 ∨ month > 12 then pure 1
    else do
      let r ← daysinmonth month
      -- nbday = -1 for month 0: `nday > nbday` or `nday < 0` then always holds
      if r < 0 then pure 1
      else do
        let _ := nday
        acc e .date 0
        acc e .date 1
        acc e .date 2
        pure 0

/-- `c_dateutils_comparedates(date1, date2)`: reads as far as the first differing field -/
def comparedates (e : Ext) (a b : Nat → Int) : R Int := do
  let a0 ← rdI e .date1 a 0
  let b0 ← rdI e .date2 b 0
  if a0 < b0 then pure 1 else if a0 > b0 then pure (-1)
  else do
    let a1 ← rdI e .date1 a 1
    let b1 ← rdI e .date2 b 1
    if a1 < b1 then pure 1 else if a1 > b1 then pure (-1)
    else do
      let a2 ← rdI e .date1 a 2
      let b2 ← rdI e .date2 b 2
      if a2 < b2 then pure 1 else if a2 > b2 then pure (-1) else pure 0

/-- loop of `c_combi`; state `(ans, n)`; every product is a `long long` expression -/
def combiBody (j : Int) (s : Int × Int) : R ((Int × Int) ⊕ Int) := do
  let m ← cmod s.2 j
  if m = 0 then do
    let q ← cdiv s.2 j
    let a ← i64 (s.1 * q)
    pure (.inl (a, s.2 - 1))
  else do
    let m2 ← cmod s.1 j
    if m2 = 0 then do
      let q ← cdiv s.1 j
      let a ← i64 (q * s.2)
      pure (.inl (a, s.2 - 1))
    else do
      let p ← i64 (s.1 * s.2)
      let a ← cdiv p j
      pure (.inl (a, s.2 - 1))

/-- `c_combi(n, k)` (after the fix: negative arguments are refused before `n-k` is formed) -/
def combi (n k : Int) : R Int :=
  if n < 0 ∨ k < 0 ∨ k > 30 then pure (-1)
  else do
    let d ← i32 (n - k)
    if d > 30 then pure (-1)
    else do
      let k' := if k > d then d else k
      let r ← forLoop combiBody k'.toNat 1 (1, n)
      match r with
      | .inr c => pure c
      | .inl s => pure s.1

/-! ## stat package -/

/-- `ARMODEL_NPARAMSMAX`: extent of the local array `prev_centered` -/
def arMax : Int := 10

/-- checks shared by `c_armodel_sim` and `c_armodel_residual`; `pnan k` = `isnan(params[k])`;
`badscalar` = `isnan(sim_mean) || isnan(sim_ini)`; `ok (some ())` = go on -/
def arChecks (e : Ext) (le : Ext) (nparams : Int) (pnan : Nat → Bool) (badscalar : Bool) : R (Option Unit) :=
  if nparams > arMax ∨ nparams ≤ 0 then pure none
  else do
    let r ← forLoop (σ := Unit) (ρ := Unit) (fun k _ => do
        acc e .params k
        if pnan k.toNat then pure (.inr ()) else pure (.inl ())) nparams.toNat 0 ()
    match r with
    | .inr _ => pure none
    | .inl _ =>
      if badscalar then pure none
      else do
        forEach (fun k => acc le .prev k) nparams.toNat 0
        pure (some ())

/-- the `for(k=nparams-1; k>=0; k--)` loop: reads `params[k]`, `prev[k]`, and `prev[k-1]` when `k>0` -/
def arShift (e le : Ext) (nparams : Int) : R Unit :=
  forEach (fun j => do
      let k := nparams - 1 - j
      acc le .prev k
      acc e .params k
      if k > 0 then acc le .prev (k - 1) else pure ()
      acc le .prev k) nparams.toNat 0

/-- `c_armodel_sim(nval, nparams, sim_mean, sim_ini, params, innov, outputs)` -/
def armodelSim (e : Ext) (nval nparams : Int) (pnan : Nat → Bool) (badscalar : Bool) : R Int := do
  let le : Ext := constExt 10
  let c ← arChecks e le nparams pnan badscalar
  match c with
  | none => pure 1
  | some _ => do
    forEach (fun i => do
        acc e .innov i
        arShift e le nparams
        acc e .outputs i) nval.toNat 0
    pure 0

/-- `c_armodel_residual(nval, nparams, sim_mean, sim_ini, params, inputs, residuals)`;
`xnan i` = `isnan(inputs[i]-sim_mean)` (then the value is rebuilt from `params[k]*prev[k]`) -/
def armodelResidual (e : Ext) (nval nparams : Int) (pnan : Nat → Bool) (badscalar : Bool)
    (xnan : Nat → Bool) : R Int := do
  let le : Ext := constExt 10
  let c ← arChecks e le nparams pnan badscalar
  match c with
  | none => pure 1
  | some _ => do
    forEach (fun i => do
        acc e .inputs i
        if xnan i.toNat then
          forEach (fun k => do acc e .params k; acc le .prev k) nparams.toNat 0
        else pure ()
        arShift e le nparams
        acc e .residuals i) nval.toNat 0
    pure 0

/-- one forecast of `c_crps`: copy of the ensemble, weight, bins, outliers, uncertainty;
`unsorted j` = `ensemb[j+1]<ensemb[j]` (the `EDOM` return) -/
def crpsRow (e le : Ext) (ncol useW : Int) (unsorted : Nat → Bool) (i : Int) (_ : Unit) : R (Unit ⊕ Int) := do
  forEach (fun j => do
      let _ ← i32 (ncol * i)
      let k ← i32 (ncol * i + j)
      acc e .sim k
      acc le .ensemb j) ncol.toNat 0
  if useW = 1 then acc e .weights i else pure ()
  let r ← forLoop (σ := Unit) (ρ := Unit) (fun j _ => do
      acc le .ensemb (j + 1)
      acc le .ensemb j
      if unsorted j.toNat then pure (.inr ())
      else do
        acc e .obs i
        acc le .work (j + 1)
        pure (.inl ())) (ncol - 1).toNat 0 ()
  match r with
  | .inr _ => pure (.inr 1)
  | .inl _ => do
    acc e .obs i
    acc le .ensemb 0
    acc le .work 0
    acc le .ensemb (ncol - 1)
    acc le .work ncol
    forEach (fun k => do
        acc e .obs k
        acc e .obs i
        if useW = 1 then acc e .weights k else pure ()) i.toNat 0
    pure (.inl ())

/-- `c_crps(nval, ncol, use_weights, is_sorted, obs, sim, weights_vector, reliability_table,
crps_decompos)`; the seven work arrays of `ncol+1` doubles are one local extent (`ensemb`, `work`);
`unsorted i j` = the sorting test of forecast `i` -/
def crps (e : Ext) (nval ncol useW : Int) (unsorted : Nat → Nat → Bool) : R Int := do
  let n1 ← i32 (ncol + 1)
  let le : Ext := constExt n1.toNat
  forEach (fun j => acc le .work j) n1.toNat 0
  let r ← forLoop (fun i s => crpsRow e le ncol useW (unsorted i.toNat) i s) nval.toNat 0 ()
  match r with
  | .inr c => pure c
  | .inl _ => do
    forEach (fun j => do
        acc le .work j
        forEach (fun c => do
            let k ← i32 (j * 7 + c)
            acc e .table k) 7 0
        acc e .decompos 0
        acc e .decompos 1) n1.toNat 0
    acc e .decompos 2
    acc e .decompos 3
    acc e .decompos 4
    pure 0

/-- one pair `(i1, i2)` of `c_ensrank` -/
def ensrankPair (e le : Ext) (nval ncol i1 i2 : Int) : R Unit := do
  forEach (fun j => do
      if j < ncol then do
        let k ← i32 (ncol * i1 + j)
        acc e .sim k
      else do
        let k ← i32 (ncol * (i2 - 1) + j)
        acc e .sim k
      acc le .ensemb j) (2 * ncol).toNat 0
  acc le .ensemb 0
  acc le .ensemb 1
  forEach (fun j => do
      acc le .ensemb j
      if j < 2 * ncol - 1 then acc le .ensemb (j + 1) else pure ()) (2 * ncol).toNat 0
  let k ← i32 (i1 * nval + i2)
  acc e .fmat k
  acc e .ranks i1
  acc e .ranks i2

/-- `c_ensrank(eps, nval, ncol, sim, fmat, ranks)`; `badeps` = `eps<1e-20`. `ensemb` is `2*ncol` pairs. -/
def ensrank (e : Ext) (nval ncol : Int) (badeps : Bool) : R Int :=
  if badeps then pure 1
  else if ncol ≤ 0 ∨ nval ≤ 0 then pure 1
  else do
    let n2 ← i32 (2 * ncol)
    let le : Ext := constExt n2.toNat
    let ninit := if nval < n2 then n2 else nval
    forEach (fun j => do
        if j < n2 then acc le .ensemb j else pure ()
        if j < nval then acc e .ranks j else pure ()) ninit.toNat 0
    forEach (fun i1 =>
        forEach (fun i2 => ensrankPair e le nval ncol i1 i2) (nval - (i1 + 1)).toNat (i1 + 1)) nval.toNat 0
    pure 0

/-- `c_ad_test(nval, unifdata, outputs)`: `qsort` of `unifdata[0..nval)` then `ADtest`;
`bad i` = one of the three input tests of `ADtest` fired at `i` -/
def adTest (e : Ext) (nval : Int) (bad : Nat → Bool) : R Int := do
  forEach (fun i => acc e .unifdata i) nval.toNat 0
  acc e .outputs 0
  acc e .outputs 1
  let r ← forLoop (σ := Unit) (ρ := Unit) (fun i _ => do
      acc e .unifdata i
      if bad i.toNat then pure (.inr ())
      else do
        acc e .unifdata (nval - 1 - i)
        pure (.inl ())) nval.toNat 0 ()
  match r with
  | .inr _ => pure 1
  | .inl _ => do
    acc e .outputs 0
    acc e .outputs 1
    pure 0

/-- `c_paretofront(nval, ncol, orientation, data, isdominated)`; `dom i j` = point `j` dominates point `i`
(the `break`) -/
def paretofront (e : Ext) (nval ncol : Int) (dom : Nat → Nat → Bool) : R Int := do
  forEach (fun i => do
      acc e .isdominated i
      let r ← forLoop (σ := Unit) (ρ := Unit) (fun j _ =>
          if i = j then pure (.inl ())
          else do
            forEach (fun k => do
                let a ← i32 (ncol * j + k)
                acc e .data a
                let b ← i32 (ncol * i + k)
                acc e .data b) ncol.toNat 0
            if dom i.toNat j.toNat then do
              acc e .isdominated i
              pure (.inr ())
            else pure (.inl ())) nval.toNat 0 ()
      match r with
      | _ => pure ()) nval.toNat 0
  pure 0

/-- `c_olsleverage(nval, npreds, predictors, tXXinv, leverage)` -/
def olsleverage (e : Ext) (nval npreds : Int) : R Int := do
  forEach (fun i =>
      forEach (fun j => do
          let a ← i32 (npreds * i + j)
          acc e .predictors a
          forEach (fun k => do
              let b ← i32 (npreds * j + k)
              acc e .tXXinv b
              let c ← i32 (npreds * i + k)
              acc e .predictors c) npreds.toNat 0
          acc e .leverages i) npreds.toNat 0) nval.toNat 0
  pure 0

/-! ## gis package (`long long` arithmetic) -/

/-- `getnxy`: `idxcell % ncols`, `(idxcell - nxy[0]) / ncols` -/
def getnxy (ncols idx : Int) : R (Int × Int) := do
  let c ← cmod idx ncols
  let r ← cdiv (idx - c) ncols
  pure (c, r)

/-- one point of `c_coord2cell` (after the fix): `fx, fy` = `floor((x-xll)/csz)`, `floor((y-yll)/csz)`;
the extent test is made on the doubles, the conversion only for points inside -/
def coord2cell1 (nrows ncols : Int) (fx fy : XInt) : R Int :=
  match fx, fy with
  | some x, some y =>
    if 0 ≤ x ∧ x < ncols ∧ 0 ≤ y ∧ y < nrows then do
      let nx ← castI64 (some x)
      let c ← castI64 (some y)
      let ny ← i64 (nrows - 1 - c)
      let p ← i64 (ny * ncols)
      i64 (p + nx)
    else pure (-1)
  | _, _ => pure (-1)

/-- `c_coord2cell(nrows, ncols, xll, yll, csz, nval, xycoords, idxcell)` -/
def coord2cell (e : Ext) (nrows ncols nval : Int) (fx fy : Nat → XInt) : R Int := do
  forEach (fun i => do
      acc e .xycoords (2 * i)
      acc e .xycoords (2 * i + 1)
      let _ ← coord2cell1 nrows ncols (fx i.toNat) (fy i.toNat)
      acc e .idxcell i) nval.toNat 0
  pure 0

/-- `c_cell2rowcol(nrows, ncols, nval, idxcell, rowcols)`; `cells` = content of `idxcell` -/
def cell2rowcol (e : Ext) (nrows ncols nval : Int) (cells : Nat → Int) : R Int := do
  forEach (fun i => do
      let c ← rdI e .idxcell cells i
      let n ← i64 (nrows * ncols)
      if c < 0 ∨ c ≥ n then do
        acc e .rowcols (2 * i)
        acc e .rowcols (2 * i + 1)
      else do
        let _ ← getnxy ncols c
        acc e .rowcols (2 * i + 1)
        acc e .rowcols (2 * i)) nval.toNat 0
  pure 0

/-- `c_cell2coord(nrows, ncols, xll, yll, csz, nval, idxcell, xycoords)` -/
def cell2coord (e : Ext) (nrows ncols nval : Int) (cells : Nat → Int) : R Int := do
  forEach (fun i => do
      let c ← rdI e .idxcell cells i
      let n ← i64 (nrows * ncols)
      if c < 0 ∨ c ≥ n then do
        acc e .xycoords (2 * i)
        acc e .xycoords (2 * i + 1)
      else do
        let _ ← getnxy ncols c
        acc e .xycoords (2 * i)
        acc e .xycoords (2 * i + 1)) nval.toNat 0
  pure 0

/-- `c_neighbours(nrows, ncols, idxcell, neighbours)` writing into buffer `b` of extents `eb`;
`ok none` = the error return (nothing written) -/
def neighboursInto (eb : Ext) (b : Buf) (nrows ncols idx : Int) : R (Option Unit) := do
  let n ← i64 (nrows * ncols)
  if idx < 0 ∨ idx ≥ n then pure none
  else do
    let _ ← getnxy ncols idx
    forEach (fun iy => forEach (fun ix => acc eb b (1 + ix + (1 + iy) * 3)) 3 (-1)) 3 (-1)
    pure (some ())

/-- `c_neighbours` as called through the wrapper -/
def neighbours (e : Ext) (nrows ncols idx : Int) : R Int := do
  let r ← neighboursInto e .neighbours nrows ncols idx
  match r with
  | none => pure 1
  | some _ => pure 0

/-- the local `long long neighbours[9]` of `c_upstream` / `c_downstream` -/
def nbExt : Ext := constExt 9

/-- one cell of `c_upstream`, writing row `row` of `idxup` (a buffer of extents `eu`); `ok false` = the error
return -/
def upstream1 (e eu : Ext) (nrows ncols : Int) (code fdir : Nat → Int) (row idxcell : Int) : R Bool := do
  let n ← i64 (nrows * ncols)
  if idxcell < 0 ∨ idxcell ≥ n then pure false
  else do
    let _ ← neighboursInto nbExt .nbloc nrows ncols idxcell
    let r ← forLoop (σ := Int) (ρ := Empty) (fun j k => do
        acc nbExt .nbloc j
        let nb := neighbour nrows ncols idxcell j.toNat
        if nb = -1 then pure (.inl k)
        else do
          let fd ← rdI e .flowdir fdir nb
          if fd = 0 then pure (.inl k)
          else do
            let cd ← rdI e .flowdircode code (8 - j)
            if fd = cd then do
              acc eu .idxup (9 * row + k)
              pure (.inl (k + 1))
            else pure (.inl k)) 9 0 0
    match r with
    | .inr x => nomatch x
    | .inl k => do
      forEach (fun j => acc eu .idxup (9 * row + j)) (9 - k).toNat k
      pure true

/-- `c_upstream(nrows, ncols, flowdircode, flowdir, nval, idxdown, idxup)` -/
def upstream (e : Ext) (nrows ncols nval : Int) (code fdir cells : Nat → Int) : R Int := do
  let r ← forLoop (σ := Unit) (ρ := Unit) (fun i _ => do
      let c ← rdI e .idxdown cells i
      let ok ← upstream1 e e nrows ncols code fdir i c
      if ok then pure (.inl ()) else pure (.inr ())) nval.toNat 0 ()
  match r with
  | .inr _ => pure 1
  | .inl _ => pure 0

/-- the downstream cell of `idxcell` as `c_downstream` computes it, without the accesses:
`-2` sink, `-1` off-grid or code not found, else the neighbour in the direction of the LAST matching code -/
def downCell (nrows ncols : Int) (code : Nat → Int) (fd idxcell : Int) : Int :=
  if fd = 0 then -2
  else (List.range 9).foldl (fun d j => if fd = code j then neighbour nrows ncols idxcell j else d) (-1)

/-- one cell of `c_downstream(…, 1, idxup, idxdown)` with `idxup`, `idxdown` in buffers `bu`, `bd` of
extents `eb` at position `pos`; returns `none` for the error return, else the downstream cell -/
def downstream1 (e eb : Ext) (bu bd : Buf) (nrows ncols : Int) (code fdir : Nat → Int) (pos idxcell : Int) :
    R (Option Int) := do
  acc eb bu pos
  let n ← i64 (nrows * ncols)
  if idxcell < 0 ∨ idxcell ≥ n then pure none
  else do
    let _ ← neighboursInto nbExt .nbloc nrows ncols idxcell
    let fd ← rdI e .flowdir fdir idxcell
    acc eb bd pos
    if fd = 0 then do
      acc eb bd pos
      pure (some (-2))
    else do
      forEach (fun j => do
          let cd ← rdI e .flowdircode code j
          if fd = cd then do
            acc nbExt .nbloc j
            acc eb bd pos
          else pure ()) 9 0
      pure (some (downCell nrows ncols code fd idxcell))

/-- `c_downstream(nrows, ncols, flowdircode, flowdir, nval, idxup, idxdown)` -/
def downstream (e : Ext) (nrows ncols nval : Int) (code fdir cells : Nat → Int) : R Int := do
  let r ← forLoop (σ := Unit) (ρ := Unit) (fun i _ => do
      let c ← rdI e .idxup cells i
      let d ← downstream1 e e .idxup .idxdown nrows ncols code fdir i c
      match d with
      | none => pure (.inr ())
      | some _ => pure (.inl ())) nval.toNat 0 ()
  match r with
  | .inr _ => pure 1
  | .inl _ => pure 0

/-- extents of the one-element locals `idxdown[1]`, `idxup[1]`, `idxcell[1]` -/
def oneExt : Ext := constExt 1

/-- the walk of `c_accumulate` from cell `i0`: `while(accumulated_cells <= max_accumulated_cells)`;
state = current `idxup[0]`; `inr (inl code)` = `return code`, `inr (inr ())` = `break`.
The value added along the walk is `to_accumulate[i0]` (the cell the walk started from). -/
def accWalk (e : Ext) (nrows ncols : Int) (code fdir : Nat → Int) (i0 : Int) (_ : Int) (cur : Int) :
    R (Int ⊕ (Int ⊕ Unit)) := do
  let d ← downstream1 e oneExt .idxup .idxdown nrows ncols code fdir 0 cur
  match d with
  | none => pure (.inr (.inl 1))
  | some dn =>
    if dn < 0 then do
      acc e .accumulation cur
      pure (.inr (.inr ()))
    else do
      acc e .toacc i0
      acc e .accumulation dn
      pure (.inl dn)

/-- `c_accumulate(nrows, ncols, nprint, max_accumulated_cells, nodata_to_accumulate, flowdircode,
flowdir, to_accumulate, accumulation)` (with the `nprint > 0` guard of the fix) -/
def accumulate (e : Ext) (nrows ncols nprint maxcells : Int) (code fdir : Nat → Int) : R Int :=
  if maxcells < 1 then pure 1
  else if nrows < 1 then pure 1
  else do
    let ntot ← i64 (nrows * ncols)
    let r ← forLoop (σ := Unit) (ρ := Int) (fun i _ => do
        if nprint > 0 then do let _ ← cmod i nprint; pure () else pure ()
        let w ← forLoop (accWalk e nrows ncols code fdir i) (maxcells + 1).toNat 0 i
        match w with
        | .inr (.inl c) => pure (.inr c)
        | _ => pure (.inl ())) ntot.toNat 0 ()
    match r with
    | .inr c => pure c
    | .inl _ => pure 0

/-- `c_slope(nrows, ncols, nprint, cellsize, flowdircode, flowdir, altitude, slopeval)` -/
def slope (e : Ext) (nrows ncols nprint : Int) (code fdir : Nat → Int) : R Int :=
  if nrows < 1 then pure 1
  else do
    let ntot ← i64 (nrows * ncols)
    let r ← forLoop (σ := Unit) (ρ := Int) (fun i _ => do
        if nprint > 0 then do let _ ← cmod i nprint; pure () else pure ()
        let d ← downstream1 e oneExt .idxup .idxdown nrows ncols code fdir 0 i
        match d with
        | none => pure (.inr 1)
        | some dn =>
          if dn ≥ 0 then do
            acc e .altitude i
            acc e .altitude dn
            let _ ← rdI e .flowdir fdir i
            acc e .flowdircode 0
            acc e .flowdircode 2
            acc e .flowdircode 6
            acc e .flowdircode 8
            acc e .slopeval i
            pure (.inl ())
          else pure (.inl ())) ntot.toNat 0 ()
    match r with
    | .inr c => pure c
    | .inl _ => pure 0

/-- `c_slice(nrows, ncols, xll, yll, csz, data, nval, xyslice, zslice)`: three conversions of a point to a
cell per slice point (`f1`, `f2`, `f3` = their floor pairs), each cell indexes `data` when it is not `-1` -/
def slice (e : Ext) (nrows ncols nval : Int) (f1 f2 f3 : Nat → XInt × XInt) : R Int := do
  forEach (fun i => do
      acc e .zslice i
      acc e .xyslice (2 * i)
      acc e .xyslice (2 * i + 1)
      let c1 ← coord2cell1 nrows ncols (f1 i.toNat).1 (f1 i.toNat).2
      if c1 < 0 then pure ()
      else do
        let _ ← getnxy ncols c1
        acc e .data c1
        acc e .zslice i
        acc e .xyslice (2 * i)
        acc e .xyslice (2 * i + 1)
        let c2 ← coord2cell1 nrows ncols (f2 i.toNat).1 (f2 i.toNat).2
        if c2 < 0 then pure ()
        else do
          let c3 ← coord2cell1 nrows ncols (f3 i.toNat).1 (f3 i.toNat).2
          if c3 < 0 then pure ()
          else do
            acc e .data c2
            acc e .data c3
            acc e .zslice i) nval.toNat 0
  pure 0

/-- search of `c_intersect` among the cells already stored (`stored`, most recent LAST):
reads `idxcells[k]` up to the match, then `weights[k]`; returns whether the cell was found -/
def intersectFind (e : Ext) (stored : List Int) (c : Int) : R Bool := do
  let r ← forLoop (σ := Unit) (ρ := Unit) (fun k _ => do
      acc e .idxcells k
      if stored.getD k.toNat (-1) = c then do
        acc e .weights k
        pure (.inr ())
      else pure (.inl ())) stored.length 0 ()
  match r with
  | .inr _ => pure true
  | .inl _ => pure false

/-- `c_intersect(nrows, ncols, xll, yll, csz, csz_area, nval, xy_area, ncells, npoints, idxcells, weights)`;
`f i` = floor pair of point `i` in the target grid. `ncells` is not used by the kernel. -/
def intersect (e : Ext) (nrows ncols nval : Int) (f : Nat → XInt × XInt) : R Int := do
  let r ← forLoop (σ := List Int) (ρ := Empty) (fun i stored => do
      acc e .xyarea (2 * i)
      acc e .xyarea (2 * i + 1)
      let c ← coord2cell1 nrows ncols (f i.toNat).1 (f i.toNat).2
      if c < 0 then pure (.inl stored)
      else do
        let found ← intersectFind e stored c
        if found then pure (.inl stored)
        else do
          acc e .idxcells stored.length
          acc e .weights stored.length
          pure (.inl (stored ++ [c]))) nval.toNat 0 []
  match r with
  | .inr x => nomatch x
  | .inl _ => do
    acc e .npoints 0
    pure 0

/-- `c_voronoi(nrows, ncols, xll, yll, csz, ncells, idxcells_area, npoints, xypoints, weights)` (after the
fixes: `npoints >= 1`, a grid with rows and columns, no read of `xypoints` at the cell index);
`closer i j` = the test `dist<distmin` for cell `i` and point `j` -/
def voronoi (e : Ext) (nrows ncols ncells npoints : Int) (cells : Nat → Int) (closer : Nat → Nat → Bool) :
    R Int :=
  if npoints < 1 then pure 1
  else if nrows < 1 ∨ ncols < 1 then pure 1
  else do
    forEach (fun j => acc e .weights j) npoints.toNat 0
    forEach (fun i => do
        let c ← rdI e .idxcellsArea cells i
        let _ ← getnxy ncols c
        let r ← forLoop (σ := Int) (ρ := Empty) (fun j jmin => do
            acc e .xypoints (2 * j)
            acc e .xypoints (2 * j + 1)
            pure (.inl (if closer i.toNat j.toNat then j else jmin))) npoints.toNat 0 0
        match r with
        | .inr x => nomatch x
        | .inl jmin => acc e .weights jmin) ncells.toNat 0
    forEach (fun j => acc e .weights j) npoints.toNat 0
    pure 0

/-- `c_inside(nprint, npoints, points, nvertices, polygon, atol, polygon_xlim, polygon_ylim, inside)`;
`outbox i` = the bounding box test sends point `i` to `continue` -/
def inside (e : Ext) (nprint npoints nvertices : Int) (outbox : Nat → Bool) : R Int := do
  forEach (fun ipt => do
      let a ← i32 (2 * ipt)
      acc e .points a
      let b ← i32 (2 * ipt + 1)
      acc e .points b
      -- the four comparisons are joined by `||`: at least `polygon_xlim[0]` is read, at most all four
      acc e .xlim 0
      acc e .xlim 1
      acc e .ylim 0
      acc e .ylim 1
      if outbox ipt.toNat then pure ()
      else do
        if nprint > 0 then do let _ ← cmod ipt nprint; pure () else pure ()
        acc e .polygon 0
        acc e .polygon 1
        acc e .inside ipt
        let nv1 ← i32 (nvertices + 1)
        forEach (fun ivert => do
            let m ← cmod ivert nvertices
            let k ← i32 (2 * m)
            acc e .polygon k
            acc e .polygon (k + 1)
            acc e .inside ipt) (nv1 - 1).toNat 1) npoints.toNat 0
  pure 0

/-- `c_exclude_zero_area_boundary(nval, deteps, xycoords, idxok)` -/
def excludeZeroArea (e : Ext) (nval : Int) : R Int :=
  if nval ≤ 2 then pure 1
  else do
    acc e .idxok 0
    acc e .idxok (nval - 1)
    forEach (fun i => do
        acc e .xycoords ((i - 1) * 2)
        acc e .xycoords ((i - 1) * 2 + 1)
        acc e .xycoords (i * 2)
        acc e .xycoords (i * 2 + 1)
        acc e .xycoords ((i + 1) * 2)
        acc e .xycoords ((i + 1) * 2 + 1)
        acc e .idxok i) (nval - 2).toNat 1
    pure 0

/-- `c_delineate_river(nrows, ncols, xll, yll, csz, flowdircode, flowdir, idxupstream, nval, npoints,
idxcells, data)`; state = current `idxupstream` -/
def delineateRiver (e : Ext) (nrows ncols nval idxupstream : Int) (code fdir : Nat → Int) : R Int := do
  let n ← i64 (nrows * ncols)
  if idxupstream < 0 ∨ idxupstream > n - 1 then pure 1
  else do
    acc e .npoints 0
    let r ← forLoop (σ := Int) (ρ := Int) (fun i cur => do
        acc e .idxcells i
        acc e .npoints 0
        let d ← downstream1 e oneExt .idxup .idxdown nrows ncols code fdir 0 cur
        forEach (fun c => acc e .rivdata (5 * i + c)) 3 0
        let _ ← getnxy ncols cur
        acc e .rivdata (5 * i + 3)
        acc e .rivdata (5 * i + 4)
        let _ ← cmod cur ncols
        match d with
        | none => pure (.inr 0)     -- cannot happen for a valid cell: the stale idxdown[0] would be used
        | some dn => do
          let _ ← cmod dn ncols
          if dn < 0 then pure (.inr 0) else pure (.inl dn)) nval.toNat 0 idxupstream
    match r with
    | .inr c => pure c
    | .inl _ => pure 0

/-- `stepsquaredist(ncols, n1, n2)`: rows and columns of both cells -/
def stepSquareDist (ncols n1 n2 : Int) : R Unit := do
  let _ ← getnxy ncols n1
  let _ ← getnxy ncols n2
  pure ()

/-- one start cell of `c_delineate_flowpathlengths_in_catchment`: the `while(ipath < nval)` walk;
state `(idxcell_up, idxcell_down, ipath)`; `inr` = `break` with the state at that point -/
def flowpathWalk (e : Ext) (nrows ncols outlet : Int) (code fdir : Nat → Int) (_ : Int) (s : Int × Int × Int) :
    R ((Int × Int × Int) ⊕ (Int × Int × Int)) := do
  let d ← downstream1 e oneExt .idxup .idxdown nrows ncols code fdir 0 s.1
  match d with
  | none => pure (.inr s)                 -- error return: `idxcell_down[0]` keeps its value
  | some dn =>
    if dn < 0 then pure (.inr (s.1, dn, s.2.2))
    else if dn = outlet then pure (.inr (s.1, dn, s.2.2))
    else do
      stepSquareDist ncols s.1 dn
      pure (.inl (dn, dn, s.2.2 + 1))

/-- `c_delineate_flowpathlengths_in_catchment(nrows, ncols, flowdircode, flowdir, nval, idxcells_area,
idxcell_outlet, flowpathlengths)` -/
def flowpathlengths (e : Ext) (nrows ncols nval outlet : Int) (code fdir cells : Nat → Int) : R Int := do
  forEach (fun i => do
      let c ← rdI e .idxcellsArea cells i
      let r ← forLoop (flowpathWalk e nrows ncols outlet code fdir) nval.toNat 0 (c, -1, 0)
      let s := match r with
        | .inl s => s
        | .inr s => s
      if s.2.2 + 1 < nval ∧ s.2.1 ≥ 0 then stepSquareDist ncols s.1 s.2.1 else pure ()
      acc e .idxcellsArea i
      forEach (fun k => acc e .flowpaths (3 * i + k)) 3 0) nval.toNat 0
  pure 0

/-! ### `c_delineate_area` -/

/-- the non-negative entries `c_upstream` leaves in `idxup[0..9)` for a cell of the grid, in order: the
neighbours (position `j`) that are not sinks and whose flow direction is the code mirrored at `8 - j` -/
def upList (nrows ncols : Int) (code fdir : Nat → Int) (idxcell : Int) : List Int :=
  (List.range 9).filterMap fun j =>
    let nb := neighbour nrows ncols idxcell j
    if nb = -1 then none
    else if fdir nb.toNat = 0 then none
    else if fdir nb.toNat = code (8 - j) then some nb else none

/-- `for(m=0; m<ninlets; m++) if(idxinlets[m] == idx) break;` → `m < ninlets` -/
def isInlet (e : Ext) (ninlets : Int) (inlets : Nat → Int) (idx : Int) : R Bool := do
  let r ← forLoop (σ := Unit) (ρ := Unit) (fun m _ => do
      let v ← rdI e .idxinlets inlets m
      if v = idx then pure (.inr ()) else pure (.inl ())) ninlets.toNat 0 ()
  match r with
  | .inr _ => pure true
  | .inl _ => pure false

/-- state of the layer loop: `i` (cells stored so far) and the content of `buffer2[0..nbuffer2)` -/
structure DA where
  i : Int
  buf2 : List Int

/-- storing one upstream cell; `inr code` = `return code` -/
def daStore (e : Ext) (nval idx : Int) (s : DA) : R (DA ⊕ Int) :=
  if s.i = nval - 1 then pure (.inr 1)
  else do
    acc e .idxcellsArea s.i
    acc e .buffer2 s.buf2.length
    if (s.buf2.length : Int) = nval - 1 then pure (.inr 1)
    else pure (.inl { i := s.i + 1, buf2 := s.buf2 ++ [idx] })

/-- one cell of `buffer1`: its upstream cells that are not inlets are stored -/
def daCell (e : Ext) (nrows ncols nval ninlets : Int) (code fdir inlets : Nat → Int) (idxcell : Int) (s : DA) :
    R (DA ⊕ Int) := do
  -- `c_upstream(…, 1, idxcell, idxup)` with the locals `idxcell[1]`, `idxup[9]`; its error return (a cell outside
  -- the grid) would leave `idxup` as it was — the cells handed to it are the outlet and cells it produced
  let _ ← upstream1 e (constExt 9) nrows ncols code fdir 0 idxcell
  forEach (fun k => acc (constExt 9) .idxup k) 9 0
  let ups := upList nrows ncols code fdir idxcell
  forLoop (fun k s => do
      let idx := ups.getD k.toNat (-1)
      let isin ← isInlet e ninlets inlets idx
      if isin then pure (.inl s) else daStore e nval idx s) ups.length 0 s

/-- one layer of the breadth-first search (`nlayer = t`) -/
def daLayer (e : Ext) (nrows ncols nval ninlets idxoutlet : Int) (code fdir inlets : Nat → Int)
    (t : Int) (s : DA) : R (DA ⊕ Int) := do
  forEach (fun l => do acc e .buffer2 l; acc e .buffer1 l) s.buf2.length 0
  let buf1 := s.buf2
  let r ← forLoop (fun l s' => do
      acc e .buffer1 l
      daCell e nrows ncols nval ninlets code fdir inlets (buf1.getD l.toNat (-1)) s')
    buf1.length 0 { i := s.i, buf2 := [] }
  match r with
  | .inr c => pure (.inr c)
  | .inl s' =>
    if s'.buf2.length = 0 then pure (.inr 0)
    else if t = 0 then
      if s'.i = nval - 1 then pure (.inr 1)
      else do
        acc e .idxcellsArea s'.i
        let _ := idxoutlet
        pure (.inl { s' with i := s'.i + 1 })
    else pure (.inl s')

/-- `c_delineate_area(nrows, ncols, flowdircode, flowdir, idxoutlet, ninlets, idxinlets, nval, idxcells_area,
buffer1, buffer2)`. The `while(nlayer>=0)` loop has no bound of its own: every layer that does not return stores
at least one cell and `i` stops at `nval-1`, so `nval+1` layers are fuel enough (theorem: never exhausted). -/
def delineateArea (e : Ext) (nrows ncols nval ninlets idxoutlet : Int) (code fdir inlets : Nat → Int) : R Int :=
  if nval < 1 then pure 1
  else do
    let n ← i64 (nrows * ncols)
    if idxoutlet < 0 ∨ idxoutlet > n - 1 then pure 1
    else do
      let r ← forLoop (σ := Unit) (ρ := Unit) (fun m _ => do
          let v ← rdI e .idxinlets inlets m
          if v < 0 ∨ v > n - 1 then pure (.inr ()) else pure (.inl ())) ninlets.toNat 0 ()
      match r with
      | .inr _ => pure 1
      | .inl _ => do
        acc e .buffer2 0
        let w ← forLoop (daLayer e nrows ncols nval ninlets idxoutlet code fdir inlets) (nval.toNat + 1) 0
          { i := 0, buf2 := [idxoutlet] }
        match w with
        | .inr c => pure c
        | .inl _ => .error .fuel

/-! ### `c_delineate_boundary` -/

/-- `shift[k]`: `-1, 1, -ncols, ncols` -/
def bndShift (ncols : Int) (k : Int) : Int :=
  if k = 0 then -1 else if k = 1 then 1 else if k = 2 then -ncols else ncols

/-- the four neighbours test of step 1 for cell `c`: `isout` after the loop (`true` = still 1) -/
def bndIsOut (e : Ext) (ngrid ncols : Int) (mask : Nat → Int) (c : Int) : R Bool := do
  let r ← forLoop (σ := Bool) (ρ := Empty) (fun k isout => do
      let cn ← i64 (c + bndShift ncols k)
      if 0 ≤ cn ∧ cn < ngrid then do
        let m ← rdI e .mask mask cn
        pure (.inl (isout && m == 1))
      else pure (.inl false)) 4 0 true
  match r with
  | .inr x => nomatch x
  | .inl b => pure b

/-- step 1: the cells with a neighbour outside the area go to `buffer`; `cells` = content of
`idxcells_area` AFTER `qsort`. Result: `none` = an error return, `some buf` = `buffer[0..nbuffer)` -/
def bndStep1 (e : Ext) (nval ngrid ncols : Int) (cells mask : Nat → Int) : R (Option (List Int)) := do
  let c0 ← rdI e .idxcellsArea cells 0
  acc e .buffer 0
  let r ← forLoop (σ := List Int) (ρ := Unit) (fun i buf => do
      let c ← rdI e .idxcellsArea cells i
      let m ← rdI e .mask mask c
      if m ≠ 1 then pure (.inr ())
      else do
        let isout ← bndIsOut e ngrid ncols mask c
        if !isout then
          if (buf.length : Int) > nval then pure (.inr ())
          else do
            acc e .buffer buf.length
            pure (.inl (buf ++ [c]))
        else pure (.inl buf)) (nval - 1).toNat 1 [c0]
  match r with
  | .inr _ => pure none
  | .inl buf => pure (some buf)

/-- state of step 2: current cell, `next`, `knext`, content of `buffer`, `ibnd` -/
structure Bnd2 where
  idxcell : Int
  next : Int
  knext : Int
  buf : List Int
  ibnd : Int

/-- the search `for(k=0; k<nbuffer; k++)` for the closest remaining boundary cell;
state `(next, knext, dmin)`; `(cx, cy)` = column and row of the current cell -/
def bndSearch (e : Ext) (ncols cx cy : Int) (buf : List Int) (k : Int) (s : Int × Int × Int) :
    R ((Int × Int × Int) ⊕ (Int × Int × Int)) := do
  acc e .buffer k
  let b := buf.getD k.toNat (-1)
  if b < 0 then pure (.inl s)
  else do
    let bxy ← getnxy ncols b
    let dx ← i64 (cx - bxy.1)
    let dy ← i64 (cy - bxy.2)
    let dx2 ← i64 (dx * dx)
    let dy2 ← i64 (dy * dy)
    let dist ← i64 (dx2 + dy2)
    let s' := if dist < s.2.2 ∧ dist > 0 then (b, k, dist) else s
    if dist = 1 then pure (.inr s') else pure (.inl s')

/-- one iteration of the boundary walk; `inr` = `break` (with `ibnd` where the loop stopped) -/
def bndWalk (e : Ext) (ncols dmax2 sx sy : Int) (j : Int) (s : Bnd2) : R (Bnd2 ⊕ Bnd2) := do
  let cxy ← getnxy ncols s.idxcell
  acc e .idxboundary j
  let r ← forLoop (bndSearch e ncols cxy.1 cxy.2 s.buf) s.buf.length 0 (s.next, s.knext, dmax2)
  let t := match r with
    | .inl t => t
    | .inr t => t
  let s1 : Bnd2 := { s with next := t.1, knext := t.2.1, ibnd := j }
  let thr := (4 * (s.buf.length : Int)).tdiv 5          -- (long long)((double)nbuffer*0.8)
  let dx ← i64 (cxy.1 - sx)
  let dy ← i64 (cxy.2 - sy)
  let stop ← (if j > thr then do
      let dx2 ← i64 (dx * dx)
      let dy2 ← i64 (dy * dy)
      let d ← i64 (dx2 + dy2)
      pure (decide (d < t.2.2))
    else pure false)
  if stop then pure (.inr s1)
  else if s1.knext < 0 then pure (.inr s1)
  else do
    acc e .buffer s1.knext
    pure (.inl { s1 with idxcell := s1.next, buf := s1.buf.set s1.knext.toNat (-1), ibnd := j + 1 })

/-- `c_delineate_boundary(nrows, ncols, nval, idxcells_area, buffer, catchment_area_mask, idxcells_boundary)`
(after the two fixes: cells outside the grid are refused, `buffer[knext]` is written only for `knext >= 0`);
`cells` = content of `idxcells_area` after `qsort` -/
def delineateBoundary (e : Ext) (nrows ncols nval : Int) (cells mask : Nat → Int) : R Int :=
  if nval < 1 then pure 1
  else do
    let ngrid ← i64 (nrows * ncols)
    let dmax := if nrows > ncols then nrows else ncols
    forEach (fun i => acc e .idxcellsArea i) nval.toNat 0       -- qsort
    let first ← rdI e .idxcellsArea cells 0
    if first < 0 then pure 1
    else do
      let last ← rdI e .idxcellsArea cells (nval - 1)
      if last ≥ ngrid then pure 1
      else do
        let b1 ← bndStep1 e nval ngrid ncols cells mask
        match b1 with
        | none => pure 1
        | some buf => do
          acc e .buffer 0
          let start := buf.getD 0 (-1)
          let sxy ← getnxy ncols start
          acc e .buffer 0
          let dmax2 ← i64 (dmax * dmax)
          let r ← forLoop (bndWalk e ncols dmax2 sxy.1 sxy.2) buf.length 0
            { idxcell := start, next := -1, knext := -1, buf := buf.set 0 (-1), ibnd := 0 }
          let ibnd := match r with
            | .inl s => s.ibnd
            | .inr s => s.ibnd
          let last := if ibnd > nval - 1 then nval - 1 else ibnd
          acc e .idxboundary last
          pure 0

/- sub-routines that have their own specification lemma (`Lemmas/C05.lean`): kept opaque to the elaborator so
that proofs about their callers go through the specification (`unfold` still opens them) -/
attribute [irreducible] getnxy coord2cell1 neighboursInto downstream1 upstream1 intersectFind bndIsOut bndStep1
  isInlet daCell

end HydroVerif.C05
