/-
C02 — what the Jacobian property adds to the transform model of `Model/C01.lean` (which already holds
`X.jac` / `X.jacobian` for the 13 classes):

* `X.jdom p x`   the set on which `X.jacobian p x` is a number, read off the `np.where` guard of `_jacobian`
                 (for `Log`/`BoxCox*`: `x + nu > mininu`; `Logit`: `lower + EPS < x < upper - EPS`; …);
* `Sinh.jacH`    the repaired `Sinh._jacobian` (`scale / hypot(1, u)`), overflow-free at `Float`;
* Softmax        the matrix of partial derivatives of one row of `forward`
                 (`∂y_i/∂x_j = δ_ij / x_i + 1/(1 - s)`), as nested lists, and a determinant by Laplace expansion
                 along the first row — executable at `Float` in the driver, where it is compared with
                 `jacRow` and with finite differences of the real `forward`.
No Mathlib. Generic over the carrier, like Model/C01.
-/
import HydroVerif.Model.C01
namespace HydroVerif.C02
open HydroVerif.C01

section
variable {α : Type} [Add α] [Sub α] [Mul α] [Div α] [Neg α] [LT α] [DecidableLT α] [LE α] [DecidableLE α]
  [OfNat α 0] [OfNat α 1] [OfNat α 2] [OfScientific α] [Transc α]

/-- `Logit._jacobian`: `np.where((x > lower+EPS) & (x < upper-EPS), value, nan)` -/
def Logit.jdom (p : Logit.Params α) (x : α) : Prop := p.lower + eps < x ∧ x < Logit.upper p - eps
/-- `Log._jacobian`: `np.where(x + nu > self.mininu, …, nan)` -/
def Log.jdom (p : Log.Params α) (x : α) : Prop := p.mininu < x + p.nu
/-- `BoxCox2._jacobian`: `np.where(x + nu > self.mininu, …, nan)` -/
def BoxCox2.jdom (p : BoxCox2.Params α) (x : α) : Prop := p.mininu < x + p.nu
/-- `Reciprocal._jacobian`: `np.where(x > -nu, …, nan)` -/
def Reciprocal.jdom (p : Reciprocal.Params α) (x : α) : Prop := -p.nu < x

/-- `Sinh._jacobian` after the repair: `scale / np.hypot(1., u)`. `hypot` evaluates `sqrt(1 + u²)` without forming
`u²` for large `|u|`; modelled as `|u| · sqrt(1 + (1/|u|)²)` when `|u| > 1` and `sqrt(1 + u·u)` otherwise, so that the
`Float` instance never overflows either. Over ℝ this is `Sinh.jac` of Model/C01 (theorem `Sinh.jacH_eq_jac`). -/
def Sinh.hypot1 (u : α) : α :=
  let au := absv u
  if 1 < au then au * Transc.sqrt (1 + (1 / au) * (1 / au)) else Transc.sqrt (1 + u * u)
def Sinh.jacH (p : Sinh.Params α) (x : α) : α := p.scale / Sinh.hypot1 ((x - p.nu) * p.scale)
def Sinh.jacobianH (p : Sinh.Params α) (x : α) : Option α := some (Sinh.jacH p x)

namespace Softmax
/-- `∂ forward(x)_i / ∂ x_j = δ_ij / x_i + 1/(1 - Σ x)` -/
def pdEntry (xs : List α) (i j : Fin xs.length) : α :=
  (if i = j then 1 / xs[i] else 0) + 1 / (1 - Softmax.sumL xs)

/-- the matrix of partial derivatives of one row, row `i` = derivatives of `y_i` -/
def pdMatrix (xs : List α) : List (List α) :=
  List.ofFn fun i : Fin xs.length => List.ofFn fun j : Fin xs.length => pdEntry xs i j

/-- `Σ_k (-1)^k r_k · det(minor_k)` over the entries of the first row (`sgn` = sign of the next term) -/
def laplaceRow (detMinor : Nat → α) : α → Nat → List α → α
  | _, _, [] => 0
  | sgn, k, a :: rest => sgn * a * detMinor k + laplaceRow detMinor (-sgn) (k + 1) rest

/-- determinant of a square matrix given as a list of rows, by Laplace expansion along the first row;
the first argument is the size (fuel) -/
def detL : Nat → List (List α) → α
  | 0, _ => 1
  | _ + 1, [] => 1
  | n + 1, r :: rest => laplaceRow (fun k => detL n (rest.map fun row => row.eraseIdx k)) 1 0 r

/-- determinant of the matrix of partial derivatives of a row -/
def pdDet (xs : List α) : α := detL xs.length (pdMatrix xs)
end Softmax

end
end HydroVerif.C02
