/-
C18 — buffer-ownership model of the kernel-facing Python wrappers of hydrodiy.

A wrapper body is abstracted to the statements that decide WHICH BUFFER reaches which parameter of a
C kernel: numpy operations that always produce a new buffer (`copy`), operations that return the
source buffer itself when it already has the requested dtype / layout (`view`), allocations, Python
level in-place writes (`pywrite`: `x.fill(..)`, `x[idx] = ..`) and kernel calls, where every argument
carries the flag "the C code writes through this pointer" (read off the C sources).

Buffers are `caller i` (anything that exists before the call: the i-th array handed in by the caller,
the arrays held by a Grid / Catchment argument or receiver, module constants such as FLOWDIRCODE)
or `fresh n` (allocated inside the call).  Every local name that the wrapper has not assigned yet
denotes something from outside: local `i` is initially bound to `caller i` (the conservative reading:
an unassigned name is never assumed to be private).

numpy's copy semantics are the axioms of this model (they are what the recorder shim of
harness/c18.py observes on the real code); the C kernels appear only through their write-sets.
No Mathlib.  Everything is total and computable; the driver runs `run`.
-/
namespace HydroVerif.C18

inductive Buf
  | caller (i : Nat)
  | fresh (n : Nat)
  deriving DecidableEq, Repr

def Buf.isFresh : Buf → Bool
  | .fresh _ => true
  | .caller _ => false

inductive DType | f64 | f32 | i64 | i32 | other
  deriving DecidableEq, Repr

/-- what matters of a caller argument for numpy's "view or copy" decisions -/
structure Kind where
  /-- `np.asarray(arg)` is a view of the caller's buffer (an ndarray, or a pandas object whose
      values are exposed without conversion); false for lists, scalars, mixed frames -/
  view : Bool
  dt : DType
  /-- C-contiguous -/
  contig : Bool
  deriving DecidableEq, Repr

/-- requirement of a view-or-copy conversion (`ascontiguousarray(x, dtype=d)`, `asarray`, `atleast_nd`,
`astype(copy=False)`, `reshape`, basic slicing, `.values`, `if not x.flags.c_contiguous: ...`) -/
structure Cond where
  dt : Option DType
  contig : Bool
  deriving DecidableEq, Repr

def Cond.sat (c : Cond) (k : Kind) : Bool :=
  k.view && (match c.dt with | none => true | some d => decide (d = k.dt)) && (!c.contig || k.contig)

/-- no requirement beyond being viewable: `atleast_1d`, `atleast_2d`, `reshape`, `squeeze`, `x[:n]`, `.values` -/
def anyLayout : Cond := ⟨none, false⟩
/-- `if not x.flags["C_CONTIGUOUS"]: x = np.ascontiguousarray(x)` -/
def cContig : Cond := ⟨none, true⟩
/-- `np.ascontiguousarray(x, dtype=d)` -/
def contigOf (d : DType) : Cond := ⟨some d, true⟩

inductive Stmt
  /-- `dst = src.astype(d)` (default `copy=True`), `np.array(src)`, `src.copy()`, `0.*src`, `src[mask]`,
      `copy.deepcopy`: always a new buffer -/
  | copy (dst src : Nat) (dt : Option DType)
  /-- the source buffer itself when `c.sat`, otherwise a new buffer -/
  | view (dst src : Nat) (c : Cond)
  /-- `np.zeros / ones / empty / zeros_like` -/
  | alloc (dst : Nat) (dt : DType)
  /-- `grid.dtype = d` on a Grid ARGUMENT (`self._data = self._data.astype(d)`): the caller's object now holds a
      converted array. The local keeps denoting "the cell data of that caller object" — the same caller buffer,
      whichever ndarray holds it now — with the new dtype, C-contiguous; cell values are kept. A later write
      through it is a write to the caller's grid. On a private buffer it is a plain conversion. -/
  | retype (x : Nat) (dt : DType)
  /-- Python-level in-place write into the buffer of `x` (`x.fill(v)`, `x[idx] = v`, `x += v`) -/
  | pywrite (x : Nat)
  /-- call of a C kernel through the Cython layer (which never copies): per argument, the local passed
      and whether the C code writes through that pointer -/
  | kernel (name : String) (args : List (Nat × Bool))
  deriving Repr

abbrev Program := List Stmt

structure Entry where
  buf : Buf
  kind : Kind
  deriving Repr

/-- one kernel call as seen at the Cython boundary: per argument, the caller buffer it aliases (if any)
and whether the kernel writes it -/
structure Event where
  name : String
  args : List (Option Nat × Bool)
  deriving DecidableEq, Repr

structure State where
  env : Nat → Entry
  next : Nat
  events : List Event
  written : List Buf
  /-- caller OBJECTS whose array was replaced by a converted one (`grid.dtype = d` on a Grid argument), latest
      first: the only way the dtype of something the caller passed can differ after the call -/
  retyped : List (Nat × DType) := []

def upd (env : Nat → Entry) (x : Nat) (e : Entry) : Nat → Entry :=
  fun y => if y = x then e else env y

def Buf.callerIdx : Buf → Option Nat
  | .caller i => some i
  | .fresh _ => none

/-- kind of a buffer produced by numpy itself: an ndarray, C-contiguous (layouts of private buffers
never influence ownership: a view of a private buffer is private whatever the test says) -/
def freshKind (dt : DType) : Kind := ⟨true, dt, true⟩

def step (st : State) : Stmt → State
  | .copy d s dt =>
      let k := (st.env s).kind
      { st with env := upd st.env d ⟨.fresh st.next, freshKind (dt.getD k.dt)⟩, next := st.next + 1 }
  | .view d s c =>
      let e := st.env s
      if c.sat e.kind then { st with env := upd st.env d e }
      else { st with env := upd st.env d ⟨.fresh st.next, freshKind (c.dt.getD e.kind.dt)⟩,
                     next := st.next + 1 }
  | .alloc d dt =>
      { st with env := upd st.env d ⟨.fresh st.next, freshKind dt⟩, next := st.next + 1 }
  | .retype x dt =>
      { st with env := upd st.env x ⟨(st.env x).buf, freshKind dt⟩,
                retyped := match (st.env x).buf with
                           | .caller i => (i, dt) :: st.retyped
                           | .fresh _ => st.retyped }
  | .pywrite x => { st with written := (st.env x).buf :: st.written }
  | .kernel name args =>
      { st with
        events := st.events ++ [⟨name, args.map fun a => ((st.env a.1).buf.callerIdx, a.2)⟩],
        written := ((args.filter (·.2)).map fun a => (st.env a.1).buf) ++ st.written }

def runFrom (st : State) (p : Program) : State := p.foldl step st

/-- initial state: local `i` denotes the caller's `i`-th buffer; `n0` = allocator state -/
def init (kinds : Nat → Kind) (n0 : Nat := 0) : State :=
  { env := fun i => ⟨.caller i, kinds i⟩, next := n0, events := [], written := [], retyped := [] }

def run (p : Program) (kinds : Nat → Kind) : State := runFrom (init kinds) p

/-- caller buffers written by the call (Python level or inside a kernel) -/
def writtenCallers (st : State) : List Nat := st.written.filterMap Buf.callerIdx

/-- dtype of the caller's `i`-th object after the call -/
def callerDType (st : State) (kinds : Nat → Kind) (i : Nat) : DType :=
  match st.retyped.lookup i with
  | some d => d
  | none => (kinds i).dt

/-- the body converts no object in place -/
def noRetype (p : Program) : Bool := p.all fun s => match s with | .retype _ _ => false | _ => true

/-- caller index that stands for the state of numpy's global random generator (`np.random.seed` restores it):
a draw is a Python-level store into it -/
def rngState : Nat := 9

/-! ### the syntactic ownership check

Abstract value of a local: `none` = certainly a private (fresh) buffer; `some r` = the buffer of
caller `r` or a private one (a chain of `view`s starting at caller `r`). -/

abbrev Abs := Nat → Option Nat

def absUpd (a : Abs) (x : Nat) (v : Option Nat) : Abs := fun y => if y = x then v else a y

/-- `allowed` = caller buffers the wrapper is entitled to write (output parameters, receiver state);
empty for a pure computation -/
def safeFrom (allowed : List Nat) (a : Abs) : Program → Bool
  | [] => true
  | .copy d _ _ :: p => safeFrom allowed (absUpd a d none) p
  | .alloc d _ :: p => safeFrom allowed (absUpd a d none) p
  | .view d s _ :: p => safeFrom allowed (absUpd a d (a s)) p
  | .retype _ _ :: p => safeFrom allowed a p
  | .pywrite x :: p =>
      (match a x with | none => true | some r => allowed.contains r) && safeFrom allowed a p
  | .kernel _ args :: p =>
      args.all (fun arg => !arg.2 || (match a arg.1 with | none => true | some r => allowed.contains r))
        && safeFrom allowed a p

def absInit : Abs := fun i => some i

/-- every buffer written by a kernel or in place is private to the call, except caller buffers in `allowed` -/
def SafeExcept (allowed : List Nat) (p : Program) : Prop := safeFrom allowed absInit p = true
/-- every buffer written by a kernel or in place was produced by `copy` / `alloc` inside the call -/
def Safe (p : Program) : Prop := SafeExcept [] p

/-- abstract value of every local after the body -/
def absStep (a : Abs) : Stmt → Abs
  | .copy d _ _ => absUpd a d none
  | .alloc d _ => absUpd a d none
  | .view d s _ => absUpd a d (a s)
  | _ => a

def absRun (a : Abs) (p : Program) : Abs := p.foldl absStep a

/-- the locals in `xs` (what the wrapper returns or stores into its receiver) certainly hold buffers made inside the
call: nothing of the caller's is handed back or kept -/
def ReturnsPrivate (p : Program) (xs : List Nat) : Prop := (xs.all fun x => (absRun absInit p x).isNone) = true

instance (p : Program) (xs : List Nat) : Decidable (ReturnsPrivate p xs) := by unfold ReturnsPrivate; infer_instance

instance (allowed : List Nat) (p : Program) : Decidable (SafeExcept allowed p) := by
  unfold SafeExcept; infer_instance
instance (p : Program) : Decidable (Safe p) := by unfold Safe; infer_instance

/-! ### memory semantics (contents), parametric in the value type and in what kernels compute

`Mem α` gives the contents of every buffer.  A kernel is an arbitrary function of its name and of the
contents of ALL its arguments that returns new contents for each argument; only arguments flagged
as written receive them (that is the meaning of the write-set).  `cast` stands for dtype conversion on
copy, `zero` for the contents of a new allocation, `pyval` for what a Python-level write stores. -/

structure Sem (α : Type) where
  cast : Option DType → α → α
  zero : DType → α
  pyval : α → α
  kernel : String → List α → List α

abbrev Mem (α : Type) := Buf → α

def memSet {α} (m : Mem α) (b : Buf) (v : α) : Mem α := fun b' => if b' = b then v else m b'

/-- store the kernel's outputs into the written arguments, left to right -/
def storeOut {α} (m : Mem α) : List (Buf × Bool) → List α → Mem α
  | [], _ => m
  | _, [] => m
  | (b, w) :: rest, v :: vs => storeOut (if w then memSet m b v else m) rest vs

structure MState (α : Type) where
  st : State
  mem : Mem α

def mstep {α} (sem : Sem α) (ms : MState α) (s : Stmt) : MState α :=
  let st := ms.st
  match s with
  | .copy _ src dt =>
      ⟨step st s, memSet ms.mem (.fresh st.next) (sem.cast dt (ms.mem (st.env src).buf))⟩
  | .view _ src c =>
      let e := st.env src
      if c.sat e.kind then ⟨step st s, ms.mem⟩
      else ⟨step st s, memSet ms.mem (.fresh st.next) (sem.cast c.dt (ms.mem e.buf))⟩
  | .alloc _ dt => ⟨step st s, memSet ms.mem (.fresh st.next) (sem.zero dt)⟩
  | .retype _ _ => ⟨step st s, ms.mem⟩            -- contents = cell values: kept by the conversion
  | .pywrite x =>
      let b := (st.env x).buf
      ⟨step st s, memSet ms.mem b (sem.pyval (ms.mem b))⟩
  | .kernel name args =>
      let bufs := args.map fun a => ((st.env a.1).buf, a.2)
      let outs := sem.kernel name (bufs.map fun b => ms.mem b.1)
      ⟨step st s, storeOut ms.mem bufs outs⟩

def mrunFrom {α} (sem : Sem α) (ms : MState α) (p : Program) : MState α := p.foldl (mstep sem) ms

/-- run a wrapper on caller contents `m0` (the contents of `fresh` buffers in `m0` are whatever the
heap held before: the theorems show they are irrelevant) -/
def mrun {α} (sem : Sem α) (p : Program) (kinds : Nat → Kind) (m0 : Mem α) (n0 : Nat := 0) : MState α :=
  mrunFrom sem ⟨init kinds n0, m0⟩ p

/-- the state after `k+1` consecutive calls of the same wrapper with the same arguments: every call starts from the
memory and the allocator state its predecessor left behind (whatever the earlier calls allocated is still there) -/
def nthCall {α} (sem : Sem α) (p : Program) (kinds : Nat → Kind) (m0 : Mem α) : Nat → MState α
  | 0 => mrun sem p kinds m0 0
  | k + 1 =>
    let r := nthCall sem p kinds m0 k
    mrun sem p kinds r.mem (0 + r.st.next)

/-- the body with every kernel argument made read-only: what is left in `written` are the Python-level stores -/
def pythonOnly (p : Program) : Program :=
  p.map fun s => match s with
    | .kernel n args => .kernel n (args.map fun a => (a.1, false))
    | s => s

/-- caller buffers a body stores into at the Python level (`x[idx] = ..`, `x.fill(..)`, `x += ..`): what fails when
the caller's arrays are made read-only -/
def pythonWrittenCallers (p : Program) (kinds : Nat → Kind) : List Nat :=
  writtenCallers (run (pythonOnly p) kinds)

/-- the kernels named by a body -/
def kernelsOf (p : Program) : List String :=
  p.filterMap fun s => match s with | .kernel n _ => some n | _ => none

/-- "marking" contents semantics run by the driver: contents are naturals, conversions keep them, a kernel or an
in-place write adds one to what it stores: a buffer whose content differs from its initial one has been stored to -/
def markSem : Sem Nat := ⟨fun _ v => v, fun _ => 0, fun v => v + 1, fun _ vs => vs.map (· + 1)⟩

/-- caller buffers (below `n`) whose contents differ after the call under the marking semantics -/
def markedCallers (p : Program) (kinds : Nat → Kind) (n : Nat) : List Nat :=
  let r := mrun markSem p kinds (fun _ => 0)
  (List.range n).filter fun i => r.mem (.caller i) != 0

/-! ### the wrappers, statement by statement (file:line of the kernel call in the comment)

Conventions: local `i` < 10 is the caller's `i`-th buffer until reassigned (`x = f(x)` rebinds local
`x` like Python does); locals ≥ 10 are temporaries.  `R`/`W` = read-only / written by the C code. -/

abbrev R := false
abbrev W := true
open Stmt DType

/-- dutils.aggregate(aggindex, inputs) — dutils.py:195.  0 = aggindex, 1 = inputs -/
def aggregate : Program :=
  [ copy 0 0 none, copy 0 0 (some i32),        -- np.array(aggindex).astype(np.int32)
    copy 1 1 (some f64),                        -- inputs.astype(np.float64)
    copy 10 1 none,                             -- outputs = 0.*inputs
    alloc 11 i32, copy 11 11 (some i32),        -- iend = np.array([0]).astype(np.int32)
    kernel "aggregate" [(0, R), (1, R), (10, W), (11, W)],
    view 10 10 anyLayout ]                      -- outputs[:iend[0]]

/-- dutils.flathomogen(aggindex, inputs) — dutils.py:244 -/
def flathomogen : Program :=
  [ copy 0 0 none, copy 0 0 (some i32),
    copy 1 1 (some f64),
    copy 10 1 none,
    kernel "flathomogen" [(0, R), (1, R), (10, W)] ]

/-- dutils.var2h(se) — dutils.py:495.  0 = se.values, 1 = se.index.values -/
def var2h : Program :=
  [ view 10 0 anyLayout, copy 10 10 (some f64),     -- se.values.astype(np.float64)
    view 11 1 anyLayout,                            -- se.index.tz_localize(None).values
    copy 11 11 (some i64), copy 11 11 none, copy 11 11 (some i64),  -- np.int64(time.astype(np.int64)/1e9)
    alloc 12 f64, copy 12 12 none,                  -- np.nan*np.ones(nvalh)
    kernel "var2h" [(11, R), (10, R), (12, W)] ]

/-- qualitycontrol.islinear(data) — qualitycontrol.py:120: `data` goes to the kernel as it is -/
def islinear : Program :=
  [ alloc 10 i32,
    kernel "islin" [(0, R), (10, W)] ]

/-- signatures.eckhardt(flow) — signatures.py:64 -/
def eckhardt : Program :=
  [ copy 0 0 none, copy 0 0 (some f64),         -- np.array(flow).astype(np.float64)
    alloc 10 f64,
    kernel "eckhardt" [(0, R), (10, W)] ]

/-- metrics.crps(obs, ens) — metrics.py:163 (through __check_ensemble_data, metrics.py:33-53) -/
def crps : Program :=
  [ view 0 0 anyLayout, copy 0 0 (some f64),    -- np.atleast_1d(obs).astype(np.float64)
    view 0 0 anyLayout, view 0 0 anyLayout,     -- np.atleast_1d(obs.squeeze()) when obs.ndim > 1
    view 1 1 anyLayout, copy 1 1 (some f64),    -- np.atleast_2d(ens).astype(np.float64)
    copy 0 0 none, copy 1 1 none,               -- obs[idx], ens[idx, :] (boolean mask)
    alloc 10 f64, alloc 11 f64, alloc 12 f64,   -- weights, table, decompos
    kernel "crps" [(0, R), (1, R), (10, R), (11, W), (12, W)] ]

/-- metrics.anderson_darling_test(unifdata) — metrics.py:208; `c_ad_test` qsorts its first argument -/
def andersonDarling : Program :=
  [ view 0 0 anyLayout, copy 0 0 (some f64),    -- np.atleast_1d(unifdata).astype(np.float64)
    alloc 10 f64,
    kernel "ad_test" [(0, W), (10, W)] ]

/-- metrics.dscore(obs, sim), ensemble branch — metrics.py:546.  0 = obs, 1 = sim -/
def dscore : Program :=
  [ view 0 0 anyLayout, copy 0 0 (some f64),
    view 1 1 anyLayout, copy 1 1 (some f64),
    alloc 10 f64, alloc 11 f64,                 -- fmat, franks
    kernel "ensrank" [(1, R), (10, W), (11, W)] ]

/-- armodels.armodel_sim(params, innov) — armodels.py:70.  0 = params, 1 = innov -/
def armodelSim : Program :=
  [ view 1 1 anyLayout, copy 1 1 (some f64),    -- np.atleast_1d(innov).astype(np.float64)
    view 1 1 cContig,                           -- if not C_CONTIGUOUS: np.ascontiguousarray
    view 0 0 anyLayout, copy 0 0 (some f64),    -- np.atleast_1d(params).astype(np.float64)
    alloc 10 f64,                               -- np.zeros_like(innov)
    kernel "armodel_sim" [(0, R), (1, R), (10, W)],
    view 10 10 anyLayout ]                      -- np.reshape(outputs, shape)

/-- armodels.armodel_residual(params, inputs) — armodels.py:140 -/
def armodelResidual : Program :=
  [ view 1 1 anyLayout, copy 1 1 (some f64),
    view 1 1 cContig,
    view 0 0 anyLayout, copy 0 0 (some f64),
    alloc 10 f64,
    kernel "armodel_residual" [(0, R), (1, R), (10, W)],
    view 10 10 anyLayout ]

/-- sutils.pareto_front(data) — sutils.py:327 -/
def paretoFront : Program :=
  [ copy 0 0 (some f64),                        -- data.astype(np.float64)
    view 0 0 cContig,
    alloc 10 f64, copy 10 10 (some i32),        -- np.zeros(n).astype(np.int32)
    kernel "pareto_front" [(0, R), (10, W)] ]

/-- Grid.coord2cell(xycoords) — grid.py:633: the caller's array itself reaches the kernel when it is
C-contiguous float64 (read-only there) -/
def coord2cell : Program :=
  [ view 0 0 anyLayout, view 0 0 (contigOf f64),   -- np.ascontiguousarray(np.atleast_2d(xy), dtype=np.float64)
    alloc 10 f64, copy 10 10 (some i64),
    kernel "coord2cell" [(0, R), (10, W)] ]

/-- Grid.cell2coord(idxcells) — grid.py:674 -/
def cell2coord : Program :=
  [ view 0 0 anyLayout, view 0 0 (contigOf i64),
    alloc 10 f64, copy 10 10 (some f64),
    kernel "cell2coord" [(0, R), (10, W)] ]

/-- Grid.cell2rowcol(idxcells) — grid.py:715 -/
def cell2rowcol : Program :=
  [ view 0 0 anyLayout, view 0 0 (contigOf i64),
    alloc 10 f64, copy 10 10 (some i64),
    kernel "cell2rowcol" [(0, R), (10, W)] ]

/-- Grid.neighbours(idxcell) — grid.py:748 (scalar argument) -/
def neighbours : Program :=
  [ alloc 10 f64, copy 10 10 (some i64),
    kernel "neighbours" [(10, W)] ]

/-- Grid.slice(xyslice) — grid.py:780.  0 = xyslice, 1 = self._data -/
def gridSlice : Program :=
  [ view 0 0 anyLayout, view 0 0 (contigOf f64),
    alloc 10 f64, copy 10 10 (some f64),
    copy 11 1 (some f64),                       -- self._data.astype(np.float64)
    kernel "slice" [(11, R), (0, R), (10, W)] ]

/-- Catchment.upstream(idxdown) — grid.py:1153.  0 = idxdown, 1 = flowdir data, 2 = FLOWDIRCODE -/
def upstream : Program :=
  [ view 0 0 anyLayout, copy 0 0 (some i64),
    alloc 10 i64,
    kernel "upstream" [(2, R), (1, R), (0, R), (10, W)] ]

/-- Catchment.downstream(idxup) — grid.py:1170 -/
def downstream : Program :=
  [ view 0 0 anyLayout, copy 0 0 (some i64),
    alloc 10 i64,
    kernel "downstream" [(2, R), (1, R), (0, R), (10, W)] ]

/-- Catchment.delineate_area(outlet, idxinlets) — grid.py:1208, then Grid.cell2rowcol on the result.
0 = idxinlets, 1 = flowdir data, 2 = FLOWDIRCODE -/
def delineateArea : Program :=
  [ view 0 0 anyLayout, copy 0 0 (some i64),    -- np.atleast_1d(idxinlets).astype(np.int64)
    alloc 10 i64, copy 10 10 none,              -- -1*np.ones(nval, dtype=np.int64)
    alloc 11 i64, copy 11 11 none,
    alloc 12 i64, copy 12 12 none,
    kernel "delineate_area" [(2, R), (1, R), (0, R), (10, W), (11, W), (12, W)],
    copy 13 10 none,                            -- idxcells[idx]
    view 13 13 anyLayout, view 13 13 (contigOf i64),
    alloc 14 f64, copy 14 14 (some i64),
    kernel "cell2rowcol" [(13, R), (14, W)] ]

/-- the same with `idxinlets=None` -/
def delineateAreaNoInlets : Program :=
  [ alloc 0 i64, copy 0 0 none ] ++ delineateArea.drop 2

/-- Catchment.delineate_boundary(catchment_area_mask) — grid.py:1275, 1296.
0 = catchment_area_mask, 1 = self._idxcells_area_filled (receiver state, qsorted by the kernel) -/
def delineateBoundary : Program :=
  [ alloc 10 i64, copy 10 10 none,              -- idxcells_boundary
    alloc 11 i64, copy 11 11 none,              -- buf
    kernel "delineate_boundary" [(1, W), (11, W), (0, R), (10, W)],
    copy 10 10 none,                            -- idxcells_boundary[idx]
    view 12 10 anyLayout, view 12 12 (contigOf i64),
    alloc 13 f64, copy 13 13 (some f64),
    kernel "cell2coord" [(12, R), (13, W)],
    alloc 14 i64,
    kernel "exclude_zero_area_boundary" [(13, R), (14, W)] ]

/-- the same with `catchment_area_mask=None`: the mask is built inside -/
def delineateBoundaryNoMask : Program :=
  [ alloc 0 i64, pywrite 0 ] ++ delineateBoundary

/-- Catchment.compute_flowpathlengths() — grid.py:1322.  0 = self._idxcells_area, 1 = flowdir data, 2 = FLOWDIRCODE -/
def flowpathlengths : Program :=
  [ alloc 10 f64,
    kernel "delineate_flowpathlengths_in_catchment" [(2, R), (1, R), (0, R), (10, W)] ]

/-- Catchment.intersect(grid) — grid.py:1377 with the three nested Grid calls.  0 = self._idxcells_area(_filled) -/
def intersect : Program :=
  [ view 0 0 anyLayout, view 0 0 (contigOf i64),
    alloc 10 f64, copy 10 10 (some f64),
    kernel "cell2coord" [(0, R), (10, W)],        -- xy_area = self.flowdir.cell2coord(cells)
    alloc 11 i64, alloc 12 i64, alloc 13 f64,     -- npoints, idxcells, weights
    kernel "intersect" [(10, R), (11, W), (12, W), (13, W)],
    view 12 12 anyLayout, view 13 13 anyLayout,   -- [:npoints[0]]
    view 14 12 anyLayout, view 14 14 (contigOf i64),
    alloc 15 f64, copy 15 15 (some f64),
    kernel "cell2coord" [(14, R), (15, W)],
    view 16 12 anyLayout, view 16 16 (contigOf i64),
    alloc 17 f64, copy 17 17 (some i64),
    kernel "cell2rowcol" [(16, R), (17, W)] ]

/-- grid.delineate_river(flowdir, idxupstream) — grid.py:1566.  0 = flowdir data, 1 = FLOWDIRCODE.
`flowdir.dtype = np.int64` converts the caller's grid: the kernel reads the caller's (converted) cells -/
def delineateRiver : Program :=
  [ retype 0 i64,
    alloc 10 i64, copy 10 10 none,
    alloc 11 f64, alloc 12 i64,
    kernel "delineate_river" [(1, R), (0, R), (12, W), (10, W), (11, W)] ]

/-- grid.accumulate(flowdir, to_accumulate) — grid.py:1625.  0 = flowdir data, 1 = to_accumulate data, 2 = FLOWDIRCODE -/
def accumulate : Program :=
  [ retype 0 i64,                               -- flowdir.dtype = np.int64
    retype 1 f64,                               -- to_accumulate.dtype = np.float64
    copy 10 1 none,                             -- accumulation = to_accumulate.clone()
    kernel "accumulate" [(2, R), (0, R), (1, R), (10, W)] ]

/-- the same with `to_accumulate=None`: a clone of flowdir filled with 1 -/
def accumulateDefault : Program :=
  [ retype 0 i64,
    copy 1 0 none, pywrite 1,                   -- flowdir.clone(); .fill(1)
    retype 1 f64,                               -- on the private clone
    copy 10 1 none,
    kernel "accumulate" [(2, R), (0, R), (1, R), (10, W)] ]

/-- grid.voronoi(catchment, xypoints) — grid.py:1701-1707.  0 = xypoints, 1 = catchment._idxcells_area.  Since
"voronoi accepts a points array of any memory layout" the points go through `np.ascontiguousarray(np.atleast_2d(..),
dtype=np.float64)`: a C-contiguous float64 array reaches the kernel itself (read-only there) -/
def voronoi : Program :=
  [ copy 1 1 none, copy 1 1 (some i64),
    view 0 0 anyLayout, view 0 0 (contigOf f64),
    alloc 10 f64, copy 10 10 (some f64),
    kernel "voronoi" [(1, R), (0, R), (10, W)] ]

/-- grid.slope(flowdir, altitude) — grid.py:1757.  0 = flowdir data, 1 = altitude data, 2 = FLOWDIRCODE -/
def slope : Program :=
  [ retype 0 i64, retype 1 f64,                 -- flowdir.dtype = np.int64; altitude.dtype = np.float64
    copy 10 1 none, pywrite 10,                 -- altitude.clone(); .fill(nodata)
    kernel "slope" [(2, R), (0, R), (1, R), (10, W)] ]

/-- gutils.points_inside_polygon(points, polygon) — gutils.py:62 -/
def pointsInsidePolygon : Program :=
  [ copy 0 0 (some f64), copy 1 1 (some f64),
    alloc 2 i32,
    kernel "points_inside_polygon" [(0, R), (1, R), (2, W)] ]

/-- the same with the caller-supplied OUTPUT array `inside` (2): filled with 0, then written by the kernel -/
def pointsInsidePolygonOut : Program :=
  [ copy 0 0 (some f64), copy 1 1 (some f64),
    pywrite 2,
    kernel "points_inside_polygon" [(0, R), (1, R), (2, W)] ]

/-! realistic breaking changes, kept as named terms so that the theorems show the check is not vacuous -/

/-- `np.asarray(unifdata, dtype=np.float64)` instead of `.astype(np.float64)` before `ad_test` -/
def andersonDarlingAsarray : Program :=
  [ view 0 0 anyLayout, view 0 0 ⟨some f64, false⟩,
    alloc 10 f64,
    kernel "ad_test" [(0, W), (10, W)] ]

/-- `accumulate` with a kernel that stores into the flow-direction buffer (e.g. to cut a circular path):
the buffer is the caller's grid (converted in place by `flowdir.dtype = np.int64`), not a private copy -/
def accumulateWritesFlowdir : Program :=
  [ retype 0 i64, retype 1 f64, copy 10 1 none,
    kernel "accumulate" [(2, R), (0, W), (1, R), (10, W)] ]

/-- `putils.kde` as pinned (pure Python, no kernel): `xy = np.asarray(xy)` … `xy += jitter` -/
def kdePinned : Program := [ view 0 0 anyLayout, pywrite 0 ]
/-- … and after the fix (`xy = xy + jitter`: a new array; `xy.T` before it is a view) -/
def kdeFixed : Program := [ view 0 0 anyLayout, copy 0 0 none ]


/-! pure-Python bodies that store in place into something derived from an argument (no kernel: the correspondence is
the read-only run of harness/c18.py — with every caller array made read-only the call must behave the same) -/

/-- metrics.absolute_peak_error(obs, sim) — metrics.py:745-777: `obsc = np.array(obs).squeeze().copy()`,
`obsc[obsc < 0] = nan`, the same for sim, then `obsc[idx] = nan` in the loop -/
def absolutePeakError : Program :=
  [ copy 0 0 none, view 0 0 anyLayout, copy 0 0 none, pywrite 0,
    copy 1 1 none, view 1 1 anyLayout, copy 1 1 none, pywrite 1,
    pywrite 0 ]

/-- dutils.lag(data, lag) — dutils.py:277-287: `np.atleast_1d`, `np.roll` (always a new array), `lagged[:lag] = missing` -/
def lag : Program :=
  [ view 0 0 anyLayout, copy 10 0 none, pywrite 10 ]

/-- dutils.monthly2daily(se) — dutils.py:353-365: `sec = se.copy()`, `sec[isnull] = ..`, `sec[nexti] = nan` -/
def monthly2daily : Program :=
  [ copy 10 0 none, pywrite 10, pywrite 10 ]

/-- grid.gsmooth(grid, mask) — grid.py:1812-1846.  0 = grid data, 1 = mask data: `z0 = grid.data.copy()`,
`z0[mask.data == 0] = nan`, `z0[idx] = -inf`, `z1 = maximum_filter(..)`, `z1[~idx] = ..`, `z2 = gaussian_filter(..)`,
`z2[mask.data == 0] = nan` -/
def gsmooth : Program :=
  [ copy 12 0 (some f64),                       -- smooth = grid.clone(dtype=np.float64)
    copy 10 0 none, pywrite 10, pywrite 10,
    copy 11 10 none, pywrite 11,
    copy 13 11 none, pywrite 13 ]

/-- transform.YeoJohnson._forward(x) — transform.py:513-532: `x = np.atleast_1d(x)`, `y = x*nan`, `y[ipos] = ..` -/
def yeoJohnsonForward : Program :=
  [ view 0 0 anyLayout, copy 10 0 none, copy 11 0 none, pywrite 10, pywrite 10 ]

/-- sutils.lstsq(X, y, add_intercept=True), frame branch — sutils.py:377-385 (after its fix): `X = X.copy()`,
`X.loc[:, "intercept"] = ones` -/
def lstsqIntercept : Program :=
  [ alloc 10 f64, copy 0 0 none, pywrite 0, copy 0 0 none ]
/-- … as pinned: the column was added to the caller's frame -/
def lstsqInterceptPinned : Program :=
  [ alloc 10 f64, pywrite 0, copy 0 0 none ]

/-- sutils.acf(data, maxlag, idx) — sutils.py:65-109.  0 = data, 1 = idx: slices of both (views), `idx1 & idx2` and the
boolean-mask selections are new arrays, `cov[k] = ..` goes into an allocated vector -/
def acf : Program :=
  [ view 0 0 anyLayout, view 1 1 anyLayout, alloc 10 f64,
    view 11 0 anyLayout, view 12 1 anyLayout, copy 13 12 none, copy 14 11 none, pywrite 10 ]

/-- metrics.iqr(ens, ref) — metrics.py:369-391.  0 = ens, 1 = ref: `np.nanpercentile` of row views (it works on a
copy), results stored into two allocated matrices -/
def iqr : Program :=
  [ view 0 0 anyLayout, view 1 1 anyLayout, alloc 10 f64, alloc 11 f64,
    view 12 1 anyLayout, copy 13 12 none, pywrite 11, view 14 0 anyLayout, copy 15 14 none, pywrite 10 ]
/-- … with `overwrite_input=True` on the row view: numpy then partitions the caller's own row -/
def iqrOverwriteInput : Program :=
  [ view 0 0 anyLayout, view 1 1 anyLayout, alloc 10 f64, alloc 11 f64,
    view 12 1 anyLayout, pywrite 12, pywrite 11 ]

/-- putils.kde(xy) after its fix, with the random draw made explicit — putils.py:400-409: `xy = xy.T` (a view),
`xy = xy + np.random.uniform(..)`: the draw advances numpy's global generator (caller `rngState`) -/
def kdeSeeded : Program :=
  [ view 0 0 anyLayout, pywrite rngState, alloc 10 f64, copy 0 0 none ]

/-- sutils.lhs(nsamples, pmin, pmax) — sutils.py:150-170.  0 = pmin, 1 = pmax: `np.random.permutation` per column,
`samples[:, i] = s` into a new matrix -/
def lhs : Program :=
  [ view 0 0 anyLayout, copy 0 0 (some f64), view 1 1 anyLayout, copy 1 1 (some f64),
    alloc 10 f64, pywrite rngState, pywrite 10 ]


/-! constructors and mutators of Grid / Catchment: what they STORE (a later mutator writes through it) -/

/-- Grid.data setter — grid.py:381-402.  0 = value: `np.ascontiguousarray(np.atleast_2d(value))`, `_clipdata` (the
array itself without bounds), `.astype(self.dtype)` (always a copy) -/
def gridDataSetter : Program :=
  [ view 10 0 anyLayout, view 10 10 cContig, view 10 10 anyLayout, copy 11 10 none ]
/-- … with `astype(self.dtype, copy=False)`: the caller's array is kept when it already has dtype and layout -/
def gridDataSetterNoCopy : Program :=
  [ view 10 0 anyLayout, view 10 10 cContig, view 10 10 anyLayout, view 11 10 anyLayout ]

/-- Grid.clip — grid.py:903-932.  0 = self._data: the corners go through coord2cell / cell2rowcol / cell2coord (lists and
scalars: converted, hence new arrays), then a basic slice (view) is handed to the data setter of the new grid -/
def gridClip : Program :=
  [ alloc 20 f64, alloc 21 f64, copy 21 21 (some i64), kernel "coord2cell" [(20, R), (21, W)],
    alloc 22 i64, alloc 23 f64, copy 23 23 (some i64), kernel "cell2rowcol" [(22, R), (23, W)],
    alloc 24 i64, alloc 25 f64, copy 25 25 (some f64), kernel "cell2coord" [(24, R), (25, W)],
    view 10 0 anyLayout ] ++ [ view 10 10 anyLayout, view 10 10 cContig, view 10 10 anyLayout, copy 11 10 none ]

/-- Grid.clone(dtype) — grid.py:884-901: `copy.deepcopy(self)`, then the dtype setter (`astype`) -/
def gridClone : Program := [ copy 10 0 none, copy 10 10 none ]

/-- Grid.apply(fun) — grid.py:934-939: `fun` receives the data of a deep copy (it may return that very array),
`.astype(self.dtype)` -/
def gridApply : Program := [ copy 10 0 none, view 11 10 anyLayout, copy 12 11 none ]

/-- Catchment.__init__(name, flowdir) — grid.py:1023: `flowdir.clone(np.int64)` -/
def catchmentInit : Program := [ copy 10 0 none, copy 10 10 (some i64) ]

def wrappers : List (String × Program) :=
  [ ("aggregate", aggregate), ("flathomogen", flathomogen), ("var2h", var2h), ("islinear", islinear),
    ("eckhardt", eckhardt), ("crps", crps), ("anderson_darling_test", andersonDarling), ("dscore", dscore),
    ("armodel_sim", armodelSim), ("armodel_residual", armodelResidual), ("pareto_front", paretoFront),
    ("coord2cell", coord2cell), ("cell2coord", cell2coord), ("cell2rowcol", cell2rowcol),
    ("neighbours", neighbours), ("slice", gridSlice), ("upstream", upstream), ("downstream", downstream),
    ("delineate_area", delineateArea), ("delineate_area_noinlets", delineateAreaNoInlets),
    ("delineate_boundary", delineateBoundary), ("delineate_boundary_nomask", delineateBoundaryNoMask),
    ("flowpathlengths", flowpathlengths), ("intersect", intersect), ("delineate_river", delineateRiver),
    ("accumulate", accumulate), ("accumulate_default", accumulateDefault), ("voronoi", voronoi),
    ("slope", slope), ("points_inside_polygon", pointsInsidePolygon),
    ("points_inside_polygon_out", pointsInsidePolygonOut),
    ("anderson_darling_test_asarray", andersonDarlingAsarray),
    ("accumulate_writes_flowdir", accumulateWritesFlowdir), ("kde_pinned", kdePinned), ("kde_fixed", kdeFixed),
    ("absolute_peak_error", absolutePeakError), ("lag", lag), ("monthly2daily", monthly2daily), ("gsmooth", gsmooth),
    ("yeojohnson_forward", yeoJohnsonForward), ("lstsq_intercept", lstsqIntercept),
    ("lstsq_intercept_pinned", lstsqInterceptPinned), ("kde", kdeSeeded), ("lhs", lhs), ("acf", acf), ("iqr", iqr),
    ("iqr_overwrite_input", iqrOverwriteInput),
    ("grid_data_setter", gridDataSetter), ("grid_data_setter_nocopy", gridDataSetterNoCopy), ("grid_clip", gridClip),
    ("grid_clone", gridClone), ("grid_apply", gridApply), ("catchment_init", catchmentInit) ]

/-- the locals each wrapper returns, or stores into its receiver -/
def results : List (String × List Nat) :=
  [ ("aggregate", [10]), ("flathomogen", [10]), ("var2h", [12]), ("islinear", [10]), ("eckhardt", [10]),
    ("crps", [11, 12]), ("anderson_darling_test", [10]), ("dscore", [10, 11]), ("armodel_sim", [10]),
    ("armodel_residual", [10]), ("pareto_front", [10]), ("coord2cell", [10]), ("cell2coord", [10]),
    ("cell2rowcol", [10]), ("neighbours", [10]), ("slice", [10]), ("upstream", [10]), ("downstream", [10]),
    ("delineate_area", [0, 13]), ("delineate_area_noinlets", [13]), ("delineate_boundary", [10, 13]),
    ("delineate_boundary_nomask", [10, 13]), ("flowpathlengths", [10]), ("intersect", [12, 13]),
    ("delineate_river", [10, 11, 12]), ("accumulate", [10]), ("accumulate_default", [10]), ("voronoi", [10]),
    ("slope", [10]), ("points_inside_polygon", [2]), ("points_inside_polygon_out", [2]), ("lag", [10]),
    ("gsmooth", [13]), ("yeojohnson_forward", [10]), ("lhs", [10]), ("monthly2daily", [10]),
    ("grid_data_setter", [11]), ("grid_data_setter_nocopy", [11]), ("grid_clip", [11]), ("grid_clone", [10]),
    ("grid_apply", [12]), ("catchment_init", [10]) ]

/-- caller buffers that what the wrapper returns / stores refers to (empty: everything handed back is private) -/
def resultCallers (name : String) (p : Program) (kinds : Nat → Kind) : List Nat :=
  ((results.lookup name).getD []).filterMap fun x => ((run p kinds).env x).buf.callerIdx

/-- the wrappers that convert a Grid argument in place (`flowdir.dtype = np.int64` …) -/
def retypingWrappers : List String :=
  ["delineate_river", "accumulate", "accumulate_default", "slope", "accumulate_writes_flowdir"]

end HydroVerif.C18
