/-
C02 — the transform OBJECT as a state machine: where the parameter vector of `X.jacobian p x` comes from.

`Model/C01.lean` takes the parameters "already clipped to their bounds". This file models the code that does it
(`hydrodiy.data.containers.Vector` as far as a `Transform` uses it, and the `Transform` glue of transform.py), so that
the hypotheses `X.admissible p` of the Jacobian theorems are DERIVED from the code's own guards for every object a
program can build, after any history of public operations:

* `Slot`, `Vec`            one `Vector`: names, bounds (`none` = ±∞), stored defaults, `accept_nan`, values
                           (`none` = NaN, only storable when `accept_nan`);
* `clip`                   python `min(max(v, lo), hi)` of `Vector.__setattr__` = `np.clip` of `__checkvalues__` on a
                           non-NaN value;
* `Vec.setName/setAll/reset`  `__setattr__/__setitem__`, the `values` setter (length test, NaN test, clip), `reset`;
* `mk`                     the constructors of the 12 scalar classes with their options (`mininu`, `minilam`, `base`) and
                           guards (`minilam < -3`; defaults / maxs outside the bounds by more than EPS: `minilam > 1 + EPS`;
                           `math.log(base)` for `base ≤ 0`), the inner `BoxCox2` of the delegating classes included;
* `Op`, `step`, `run`      the public operations the harness drives, on one object: `t.name = v`, `t[name] = v`,
                           `t.params.values = vs`, `t.reset()`, `t.jacobian(xs)` / `t.forward(xs)` (the delegating
                           classes first push their values through the inner object's OWN `values` setter). A rejected
                           operation (`ValueError`) returns the state unchanged and the error kind;
* `viaGet`                 `get_transform(name, **kwargs)` = constructor on the constructor keywords, then one assignment
                           per remaining keyword (`route` of Model/C01), unknown keywords ignored;
* `cast`                   `dutils.cast(x, y)`: the result of `_jacobian` brought back to the type of the argument
                           (float64 array of any shape: values kept; python float: the value; an integer or float32
                           ARRAY with a float64 result: `TypeError`).
No Mathlib; generic carrier; everything executable (the driver runs `run` at `Float` on the store stream).
-/
import HydroVerif.Model.C02
namespace HydroVerif.C02
open HydroVerif.C01

/-- the scalar transform classes (Softmax has no parameters and no state) -/
inductive Cls
  | Identity | Logit | Log | BoxCox2 | BoxCox1lam | BoxCox1nu | BoxCox2sym | YeoJohnson | LogSinh | Reciprocal | Sinh | Manly
  deriving DecidableEq, Repr

/-- `ValueError`s of the object layer (on top of `C01.Err` for the calls) -/
inductive SErr
  | nanValue | badLength | unknownKey | minilamBelowM3 | maxsOutside | defaultsOutside | baseNotPositive
  | call (e : C01.Err)
  /-- a state no constructor or operation produces (proved unreachable) -/
  | malformed
  deriving DecidableEq, Repr

section
variable {α : Type} [Add α] [Sub α] [Mul α] [Div α] [Neg α] [LT α] [DecidableLT α] [LE α] [DecidableLE α]
  [OfNat α 0] [OfNat α 1] [OfNat α 2] [OfScientific α] [Transc α]

/-- one entry of a `Vector` -/
structure Slot (α : Type) where
  name : String
  lo : Option α
  hi : Option α
  dflt : Option α

/-- `min(max(v, lo), hi)`: `max` returns `lo` iff `v < lo`, `min` returns `hi` iff `hi < m` -/
def clip (lo hi : Option α) (v : α) : α :=
  let m := match lo with
    | some l => if v < l then l else v
    | none => v
  match hi with
    | some h => if h < m then h else m
    | none => m

/-- a NaN stays a NaN through both clips -/
def clipO (lo hi : Option α) : Option α → Option α
  | none => none
  | some v => some (clip lo hi v)

structure Vec (α : Type) where
  slots : List (Slot α)
  acceptNan : Bool
  vals : List (Option α)

namespace Vec
def names (v : Vec α) : List String := v.slots.map (·.name)

def setIdx (slots : List (Slot α)) (vals : List (Option α)) (nm : String) (x : Option α) : List (Option α) :=
  match slots, vals with
  | s :: ss, v :: vs => if s.name == nm then clipO s.lo s.hi x :: vs else v :: setIdx ss vs nm x
  | _, vs => vs

/-- `setattr(vector, name, value)` for a name of the vector: NaN test, then the clipped value is written in place -/
def setName (v : Vec α) (nm : String) (x : Option α) : Except SErr (Vec α) :=
  if !(v.names.contains nm) then .error .unknownKey
  else if x.isNone && !v.acceptNan then .error .nanValue
  else .ok { v with vals := setIdx v.slots v.vals nm x }

def clipAll : List (Slot α) → List (Option α) → List (Option α)
  | s :: ss, x :: xs => clipO s.lo s.hi x :: clipAll ss xs
  | _, _ => []

/-- the `values` setter = `__checkvalues__`: length, NaN, clip -/
def setAll (v : Vec α) (xs : List (Option α)) : Except SErr (Vec α) :=
  if xs.length ≠ v.slots.length then .error .badLength
  else if xs.any (·.isNone) && !v.acceptNan then .error .nanValue
  else .ok { v with vals := clipAll v.slots xs }

/-- `reset`: `self.values = self.defaults` -/
def reset (v : Vec α) : Except SErr (Vec α) := setAll v (v.slots.map (·.dflt))

/-- a fresh vector holds its (clipped) defaults -/
def ofSlots (slots : List (Slot α)) (acceptNan : Bool) : Vec α :=
  ⟨slots, acceptNan, clipAll slots (slots.map (·.dflt))⟩
end Vec

/-- constructor options; `mininu = EPS`, `minilam = 0`, `base = None` when not given -/
structure Ctor (α : Type) where
  mininu : α
  minilam : α
  base : Option α

def Ctor.default : Ctor α := ⟨eps, 0, none⟩

/-- the `Vector(["nu", "lam"], [mininu, 1.], [mininu, minilam], [np.inf, 3.])` of `BoxCox2` / `BoxCox2sym` -/
def bcSlots (c : Ctor α) : List (Slot α) :=
  [⟨"nu", some c.mininu, none, some c.mininu⟩, ⟨"lam", some c.minilam, some 3.0, some 1⟩]

/-- guards met while a `BoxCox2(mininu, minilam)` is built: the explicit `minilam < -3`, then `Vector.__init__`'s tests
of `maxs` and of `defaults` against the bounds with the margin EPS -/
def bcGuard (c : Ctor α) : Except SErr Unit :=
  if c.minilam < -3.0 then .error .minilamBelowM3
  else if 3.0 < c.minilam - eps then .error .maxsOutside
  else if 1 < c.minilam - eps then .error .defaultsOutside
  else .ok ()

/-- the object: class, constructor options, parameter vector, constant vector, inner `BoxCox2` parameter vector -/
structure Obj (α : Type) where
  cls : Cls
  ctor : Ctor α
  params : Vec α
  consts : Vec α
  bc : Option (Vec α)

/-- parameter and constant slots of each class (transform.py constructors) -/
def paramSlots (cls : Cls) (c : Ctor α) : List (Slot α) :=
  match cls with
  | .Identity => []
  | .Logit => [⟨"lower", none, none, some 0⟩, ⟨"logdelta", some (-10.0), some 10.0, some 0⟩]
  | .Log => [⟨"nu", some c.mininu, none, some c.mininu⟩]
  | .BoxCox2 => bcSlots c
  | .BoxCox1lam => [⟨"lam", some c.minilam, some 3.0, some 1⟩]
  | .BoxCox1nu => [⟨"nu", some c.mininu, none, some c.mininu⟩]
  | .BoxCox2sym => bcSlots c
  | .YeoJohnson => [⟨"nu", none, none, some 0⟩, ⟨"scale", some 1e-5, none, some 1⟩, ⟨"lam", some (-1.0), some 3.0, some 1⟩]
  | .LogSinh => [⟨"loga", some (-20.0), some 0, some (-1)⟩, ⟨"logb", some (-5.0), some 5.0, some 0⟩]
  | .Reciprocal => [⟨"nu", some c.mininu, none, some c.mininu⟩]
  | .Sinh => [⟨"nu", none, none, some 0⟩, ⟨"scale", some 1e-10, none, some 1⟩]
  | .Manly => [⟨"lam", some (-5.0), some 5.0, some 0.1⟩]

def constSlots (cls : Cls) (c : Ctor α) : List (Slot α) :=
  match cls with
  | .BoxCox1lam => [⟨"nu", some c.mininu, none, none⟩]
  | .BoxCox1nu => [⟨"lam", some c.minilam, some 3.0, none⟩]
  | .LogSinh => [⟨"xmax", some eps, none, none⟩]
  | .Manly => [⟨"xmax", some eps, none, none⟩]
  | _ => []

def hasInner : Cls → Bool
  | .BoxCox1lam | .BoxCox1nu | .BoxCox2sym => true
  | _ => false

/-- guards met inside the constructor `X(**options)` -/
def ctorGuard (cls : Cls) (c : Ctor α) : Except SErr Unit :=
  match cls with
  | .BoxCox2 | .BoxCox1lam | .BoxCox1nu | .BoxCox2sym => bcGuard c
  | .Log =>
    match c.base with
    | some b => if b ≤ 0 then .error .baseNotPositive else .ok ()
    | none => .ok ()
  | _ => .ok ()

/-- the object a successful constructor returns: every vector holds its defaults -/
def build (cls : Cls) (c : Ctor α) : Obj α :=
  ⟨cls, c, Vec.ofSlots (paramSlots cls c) false, Vec.ofSlots (constSlots cls c) true,
    if hasInner cls then some (Vec.ofSlots (bcSlots c) false) else none⟩

/-- the constructor `X(**options)` -/
def mk (cls : Cls) (c : Ctor α) : Except SErr (Obj α) :=
  match ctorGuard cls c with
  | .ok _ => .ok (build cls c)
  | .error e => .error e

/-- the public operations on one object -/
inductive Op (α : Type) where
  /-- `t.name = v` (`Transform.__setattr__`): a parameter, a constant, or an unrelated attribute -/
  | setAttr (name : String) (v : Option α)
  /-- `t[name] = v` (`Transform.__setitem__`) -/
  | setItem (name : String) (v : Option α)
  /-- `t.params.values = vs` -/
  | setValues (vs : List (Option α))
  /-- `t.reset()` -/
  | reset
  /-- `t.jacobian(xs)` (`jac = true`) or `t.forward(xs)` on a 1-D float64 array -/
  | call (jac : Bool) (xs : List α)

/-- what an operation returns -/
inductive Out (α : Type) where
  | done
  | values (ys : List (Option α))
  | rejected (e : SErr)

/-- `Transform.__setattr__`: parameter names first, then constant names, else an ordinary attribute -/
def setAttr (o : Obj α) (nm : String) (v : Option α) : Except SErr (Obj α) :=
  if o.params.names.contains nm then (o.params.setName nm v).map fun p => { o with params := p }
  else if o.consts.names.contains nm then (o.consts.setName nm v).map fun c => { o with consts := c }
  else .ok o

/-- `Transform.__setitem__`: with no constants everything goes to the parameter vector (unknown key rejected there) -/
def setItem (o : Obj α) (nm : String) (v : Option α) : Except SErr (Obj α) :=
  if o.consts.slots.isEmpty then (o.params.setName nm v).map fun p => { o with params := p }
  else if o.params.names.contains nm then (o.params.setName nm v).map fun p => { o with params := p }
  else (o.consts.setName nm v).map fun c => { o with consts := c }

/-- `self.BC.params.values = [nu, lam]`: through the inner vector's own setter (its bounds, its NaN test) -/
def syncInner (o : Obj α) (nu lam : α) : Except SErr (Obj α) :=
  match o.bc with
  | some b => (b.setAll [some nu, some lam]).map fun b' => { o with bc := some b' }
  | none => .error .malformed

def applyArr (f : α → Option α) (xs : List α) : List (Option α) := xs.map f

/-- one call of `jacobian` / `forward`: the object-level glue, then `X.jacobian / X.forward` of Model/C01 (`Sinh`:
the repaired `jacobianH` of Model/C02) on every element -/
def callOp (o : Obj α) (jac : Bool) (xs : List α) : Except SErr (Obj α × List (Option α)) :=
  match o.cls, o.params.vals, o.consts.vals with
  | .Identity, [], [] =>
    let p : Identity.Params α := {}
    .ok (o, applyArr (if jac then Identity.jacobian p else Identity.forward p) xs)
  | .Logit, [some lower, some logdelta], [] =>
    let p : Logit.Params α := ⟨lower, logdelta⟩
    .ok (o, applyArr (if jac then Logit.jacobian p else Logit.forward p) xs)
  | .Log, [some nu], [] =>
    let p : Log.Params α := ⟨nu, o.ctor.base, o.ctor.mininu⟩
    .ok (o, applyArr (if jac then Log.jacobian p else Log.forward p) xs)
  | .BoxCox2, [some nu, some lam], [] =>
    let p : BoxCox2.Params α := ⟨nu, lam, o.ctor.mininu⟩
    .ok (o, applyArr (if jac then BoxCox2.jacobian p else BoxCox2.forward p) xs)
  | .BoxCox1lam, [some lam], [nu] =>
    match nu with
    | none => .error (.call .nuUnset)
    | some nu => do
      let o' ← syncInner o nu lam
      match o'.bc with
      | some ⟨_, _, [some bnu, some blam]⟩ =>
        let p : BoxCox2.Params α := ⟨bnu, blam, o.ctor.mininu⟩
        pure (o', applyArr (if jac then BoxCox2.jacobian p else BoxCox2.forward p) xs)
      | _ => .error .malformed
  | .BoxCox1nu, [some nu], [lam] =>
    match lam with
    | none => .error (.call .lamUnset)
    | some lam => do
      let o' ← syncInner o nu lam
      match o'.bc with
      | some ⟨_, _, [some bnu, some blam]⟩ =>
        let p : BoxCox2.Params α := ⟨bnu, blam, o.ctor.mininu⟩
        pure (o', applyArr (if jac then BoxCox2.jacobian p else BoxCox2.forward p) xs)
      | _ => .error .malformed
  | .BoxCox2sym, [some nu, some lam], [] => do
    let o' ← syncInner o nu lam
    match o'.bc with
    | some ⟨_, _, [some bnu, some blam]⟩ =>
      let p : BoxCox2sym.Params α := ⟨bnu, blam, o.ctor.mininu⟩
      pure (o', applyArr (if jac then BoxCox2sym.jacobian p else BoxCox2sym.forward p) xs)
    | _ => .error .malformed
  | .YeoJohnson, [some nu, some scale, some lam], [] =>
    let p : YeoJohnson.Params α := ⟨nu, scale, lam⟩
    .ok (o, applyArr (if jac then YeoJohnson.jacobian p else YeoJohnson.forward p) xs)
  | .LogSinh, [some loga, some logb], [xmax] =>
    match xmax with
    | none => .error (.call .xmaxUnset)
    | some xm =>
      let p : LogSinh.Params α := ⟨loga, logb, xm⟩
      .ok (o, applyArr (if jac then LogSinh.jacobian p else LogSinh.forward p) xs)
  | .Reciprocal, [some nu], [] =>
    let p : Reciprocal.Params α := ⟨nu, o.ctor.mininu⟩
    .ok (o, applyArr (if jac then Reciprocal.jacobian p else Reciprocal.forward p) xs)
  | .Sinh, [some nu, some scale], [] =>
    let p : Sinh.Params α := ⟨nu, scale⟩
    .ok (o, applyArr (if jac then C02.Sinh.jacobianH p else Sinh.forward p) xs)
  | .Manly, [some lam], [xmax] =>
    match xmax with
    | none => .error (.call .xmaxUnset)
    | some xm =>
      let p : Manly.Params α := ⟨lam, xm⟩
      .ok (o, applyArr (if jac then Manly.jacobian p else Manly.forward p) xs)
  | _, _, _ => .error .malformed

/-- one operation: new state and what the caller sees. A rejected operation leaves the object as it was -/
def step (o : Obj α) : Op α → Obj α × Out α
  | .setAttr nm v => match setAttr o nm v with
    | .ok o' => (o', .done)
    | .error e => (o, .rejected e)
  | .setItem nm v => match setItem o nm v with
    | .ok o' => (o', .done)
    | .error e => (o, .rejected e)
  | .setValues vs => match o.params.setAll vs with
    | .ok p => ({ o with params := p }, .done)
    | .error e => (o, .rejected e)
  | .reset => match o.params.reset with
    | .ok p => ({ o with params := p }, .done)
    | .error e => (o, .rejected e)
  | .call jac xs => match callOp o jac xs with
    | .ok (o', ys) => (o', .values ys)
    | .error e => (o, .rejected e)

/-- a history: the state after it -/
def run (o : Obj α) : List (Op α) → Obj α
  | [] => o
  | op :: rest => run (step o op).1 rest

/-- … and everything the caller saw -/
def trace (o : Obj α) : List (Op α) → List (Out α)
  | [] => []
  | op :: rest => (step o op).2 :: trace (step o op).1 rest

/-! ### `get_transform(name, **kwargs)` -/

def clsName : Cls → String
  | .Identity => "Identity" | .Logit => "Logit" | .Log => "Log" | .BoxCox2 => "BoxCox2" | .BoxCox1lam => "BoxCox1lam"
  | .BoxCox1nu => "BoxCox1nu" | .BoxCox2sym => "BoxCox2sym" | .YeoJohnson => "YeoJohnson" | .LogSinh => "LogSinh"
  | .Reciprocal => "Reciprocal" | .Sinh => "Sinh" | .Manly => "Manly"

/-- the keywords that are not constructor arguments become assignments `trans.params[k] = v` / `trans.constants[k] = v`
(both are `setName` on the vector that owns the name); a keyword that names nothing is skipped -/
def kwOps (cls : Cls) (kw : List (String × Option α)) : List (Op α) :=
  match lookupClass (clsName cls) with
  | .error _ => []
  | .ok spec => kw.filterMap fun (k, v) =>
    match route spec k with
    | .param | .const => some (.setAttr k v)
    | .ctor | .ignored => none

/-- `get_transform(name, **ctor_kw, **kw)`: the first rejected assignment aborts the construction -/
def viaGet (cls : Cls) (c : Ctor α) (kw : List (String × Option α)) : Except SErr (Obj α) := do
  let o ← mk cls c
  (kwOps cls kw).foldlM (fun o op => match step o op with
    | (_, .rejected e) => .error e
    | (o', _) => .ok o') o

end

/-! ### `dutils.cast(x, y)` — the last step of the public `forward` / `jacobian` -/

/-- dtypes that reach `cast` in the glue stream -/
inductive Dt | f64 | f32 | i64
  deriving DecidableEq, Repr

/-- numpy's `casting="safe"` on these three -/
def safeCast : Dt → Dt → Bool
  | .f64, .f64 | .f32, .f32 | .f32, .f64 | .i64, .i64 | .i64, .f64 => true
  | _, _ => false

/-- the argument of the public method, as far as `cast` looks at it -/
inductive Arg (α : Type) where
  /-- an ndarray with `ndim > 0` -/
  | arr (dt : Dt) (shape : List Nat) (vals : List α)
  /-- a python `float` -/
  | pyFloat (v : α)

inductive CastErr | typeError
  deriving DecidableEq, Repr

/-- the result handed to the caller -/
inductive Res (α : Type) where
  | arr (dt : Dt) (shape : List Nat) (vals : List α)
  | pyFloat (v : α)

/-- `dutils.cast(x, y)` where `y` is what `_jacobian` computed (dtype `ydt`, shape `yshape`, values `ys`):
array argument → `np.array(y).astype(x.dtype, casting="safe")` (shape and values of `y`); python float → `float(y)`, which
numpy accepts for a numpy scalar / 0-d array only (a 1-d result, e.g. Yeo-Johnson's `atleast_1d`, is a `TypeError` with
the installed numpy). Integer SCALAR arguments are not modelled: the code converts the result to `int` (truncation —
pinned by the library's own `test_cast_scalar`) or raises, depending on whether the formula returned a numpy scalar or a
0-d array; they are outside the property's quantifier (a domain point is a float) and only recorded by the glue stream -/
def cast {α : Type} (x : Arg α) (ydt : Dt) (yshape : List Nat) (ys : List α) : Except CastErr (Res α) :=
  match x with
  | .arr dt _ _ => if safeCast ydt dt then .ok (.arr dt yshape ys) else .error .typeError
  | .pyFloat _ => match yshape, ys with
    | [], [y] => .ok (.pyFloat y)
    | _, _ => .error .typeError

/-- the public `Transform.jacobian(x)` on a float64 array of any shape: `_jacobian` on the values (every formula is
elementwise, so the result has the shape of `x`), then `cast` -/
def publicOnArray {α : Type} (f : α → Option α) (shape : List Nat) (xs : List α) : Except CastErr (Res (Option α)) :=
  cast (.arr .f64 shape (xs.map some)) .f64 shape (xs.map f)

end HydroVerif.C02
