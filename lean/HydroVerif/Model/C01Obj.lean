/-
C01 — the transform OBJECT: what `Transform.__init__ / __setattr__ / __setitem__ / params / constants / reset`
(transform.py 83-175), the constructors of the 13 classes and the `Vector` behind them (data/containers.py:
`__init__`, `__setattr__`, `__setitem__`, `__checkvalues__`, `values` setter, `reset`) do to the parameter and constant
values that `forward / backward / jacobian / backward_censored` then read.

* `SlotSpec / VSpec`   names, defaults, bounds and NaN policy of one Vector (fixed at construction);
* `clipv`              `min(max(v, lo), hi)` (= `np.clip`), `none` bound = ∓inf, `none` value = NaN;
* `VSpec.setValues`    `vect.values = [...]`: length check, NaN check, clip — or rejection, the old values kept;
* `VSpec.setName`      `vect[name] = v` / `vect.name = v`;
* `mkObj`              the constructors: defaults, bounds, constructor validation (`minilam < -3`, default outside the
                        bounds, `math.log(base)` of a non-positive base), the inner `BoxCox2` of the delegating classes;
* `TOp / TObj.step`    one public operation on the object: every way of assigning (attribute, item, vector item, whole
                        vector), `reset`, and the four methods on a 1-D array; a REJECTED operation returns the object
                        unchanged (what the code must do as well: compared by the driver on fault histories);
* `TObj.run`           a history (any `List TOp`);
* `TObj.getItem`       `t[k]` (read back);
* `getTransform`       `get_transform(name, **kwargs)` on top of `route` / `lookupClass` of Model/C01.

No Mathlib. Generic over the carrier like Model/C01 (driver: `Float` and the error-tracking pairs; proofs: ℝ).
-/
import HydroVerif.Model.C01
namespace HydroVerif.C01

/-- the catalogue as a type -/
inductive Cls | identity | logit | log | boxcox2 | boxcox1lam | boxcox1nu | boxcox2sym | yeojohnson | reciprocal
  | softmax | sinh | logsinh | manly
  deriving DecidableEq, Repr

def Cls.all : List Cls := [.identity, .logit, .log, .boxcox2, .boxcox1lam, .boxcox1nu, .boxcox2sym, .yeojohnson,
  .reciprocal, .softmax, .sinh, .logsinh, .manly]

def Cls.name : Cls → String
  | .identity => "Identity" | .logit => "Logit" | .log => "Log" | .boxcox2 => "BoxCox2"
  | .boxcox1lam => "BoxCox1lam" | .boxcox1nu => "BoxCox1nu" | .boxcox2sym => "BoxCox2sym"
  | .yeojohnson => "YeoJohnson" | .reciprocal => "Reciprocal" | .softmax => "Softmax" | .sinh => "Sinh"
  | .logsinh => "LogSinh" | .manly => "Manly"

def Cls.ofName? (s : String) : Option Cls := Cls.all.find? (·.name == s)

/-- what an assignment / a constructor is rejected for (`ValueError` in the code) -/
inductive SetErr | nanValue | badLength | unknownKey | badCtor
  deriving DecidableEq, Repr

section
variable {α : Type} [Add α] [Sub α] [Mul α] [Div α] [Neg α] [LT α] [DecidableLT α] [LE α] [DecidableLE α]
  [OfNat α 0] [OfNat α 1] [OfNat α 2] [OfScientific α] [Transc α]

/-- one element of a `Vector`: name, default (`none` = NaN), bounds (`none` = -inf / +inf) -/
structure SlotSpec (α : Type) where
  name : String
  dflt : Option α
  lo : Option α
  hi : Option α

/-- a `Vector` without its values -/
structure VSpec (α : Type) where
  slots : List (SlotSpec α)
  acceptNan : Bool

def VSpec.names (sp : VSpec α) : List String := sp.slots.map (·.name)
def VSpec.dflts (sp : VSpec α) : List (Option α) := sp.slots.map (·.dflt)

/-- `min(max(v, lo), hi)` — `Vector.__setattr__`; `np.clip(v, lo, hi)` — `__checkvalues__` -/
def clipv (lo hi : Option α) (v : α) : α :=
  let v1 := match lo with
    | some l => if v < l then l else v
    | none => v
  match hi with
  | some h => if h < v1 then h else v1
  | none => v1

/-- NaN passes through the clipping -/
def clipOpt (s : SlotSpec α) (v : Option α) : Option α := v.map (clipv s.lo s.hi)

def clipAll : List (SlotSpec α) → List (Option α) → List (Option α)
  | s :: ss, v :: vs => clipOpt s v :: clipAll ss vs
  | _, _ => []

/-- `vect.values = vs` -/
def VSpec.setValues (sp : VSpec α) (vs : List (Option α)) : Except SetErr (List (Option α)) :=
  if vs.length ≠ sp.slots.length then .error .badLength
  else if !sp.acceptNan && vs.any Option.isNone then .error .nanValue
  else .ok (clipAll sp.slots vs)

/-- the values with the element called `k` replaced by the clipped `x` (`none` when there is no such name) -/
def setAt : List (SlotSpec α) → List (Option α) → String → Option α → Option (List (Option α))
  | s :: ss, v :: vs, k, x => if s.name = k then some (clipOpt s x :: vs) else (setAt ss vs k x).map (v :: ·)
  | _, _, _, _ => none

/-- `vect[k] = x` (and `vect.k = x` for a name of the vector): key check, NaN check, clipped store -/
def VSpec.setName (sp : VSpec α) (vals : List (Option α)) (k : String) (x : Option α) :
    Except SetErr (List (Option α)) :=
  if !sp.names.contains k then .error .unknownKey
  else if !sp.acceptNan && x.isNone then .error .nanValue
  else match setAt sp.slots vals k x with
    | some l => .ok l
    | none => .error .unknownKey

def getAt : List (SlotSpec α) → List (Option α) → String → Option α
  | s :: ss, v :: vs, k => if s.name = k then v else getAt ss vs k
  | _, _, _ => none

/-! ### constructors -/

/-- the object: class, the two Vectors (spec fixed, values mutable), the inner `BoxCox2`'s parameter Vector of the
delegating classes (`ispec.slots = []` otherwise), and the plain attributes `mininu` / `base` -/
structure TObj (α : Type) where
  cls : Cls
  pspec : VSpec α
  cspec : VSpec α
  pvals : List (Option α)
  cvals : List (Option α)
  ispec : VSpec α
  ivals : List (Option α)
  mininu : α
  base : Option α

def noVec : VSpec α := ⟨[], false⟩

/-- `BoxCox2.__init__`'s Vector(["nu", "lam"], [mininu, 1], [mininu, minilam], [inf, 3]) -/
def bc2Spec (mininu minilam : α) : VSpec α :=
  ⟨[⟨"nu", some mininu, some mininu, none⟩,
    ⟨"lam", some (clipv (some minilam) (some 3.0) 1), some minilam, some 3.0⟩], false⟩

/-- a `[minilam, 3]` element with default 1 is accepted by `Vector.__init__` iff the default is inside the bounds up to
EPS (`1 < minilam - EPS` raises); `BoxCox2` / `BoxCox2sym` also reject `minilam < -3` -/
def lamBoundsOk (minilam : α) : Bool := !decide (minilam < -3.0) && !decide (1 < minilam - eps)

def mkObj (c : Cls) (mininu minilam : α) (base : Option α) : Except SetErr (TObj α) :=
  let plain (ps : List (SlotSpec α)) : TObj α :=
    ⟨c, ⟨ps, false⟩, noVec, ps.map (·.dflt), [], noVec, [], mininu, none⟩
  match c with
  | .identity | .softmax => .ok (plain [])
  | .logit => .ok (plain [⟨"lower", some 0, none, none⟩, ⟨"logdelta", some 0, some (-10.0), some 10.0⟩])
  | .log =>
    match base with
    | some b => if b ≤ 0 then .error .badCtor
                else .ok { plain [⟨"nu", some mininu, some mininu, none⟩] with base := some b }
    | none => .ok (plain [⟨"nu", some mininu, some mininu, none⟩])
  | .reciprocal => .ok (plain [⟨"nu", some mininu, some mininu, none⟩])
  | .boxcox2 =>
    if lamBoundsOk minilam then .ok (plain (bc2Spec mininu minilam).slots) else .error .badCtor
  | .boxcox2sym =>
    if lamBoundsOk minilam then
      let sp := bc2Spec mininu minilam
      .ok ⟨c, sp, noVec, sp.dflts, [], sp, sp.dflts, mininu, none⟩
    else .error .badCtor
  | .boxcox1lam =>
    if lamBoundsOk minilam then
      let sp := bc2Spec mininu minilam
      let ps : List (SlotSpec α) := [⟨"lam", some (clipv (some minilam) (some 3.0) 1), some minilam, some 3.0⟩]
      let cs : List (SlotSpec α) := [⟨"nu", none, some mininu, none⟩]
      .ok ⟨c, ⟨ps, false⟩, ⟨cs, true⟩, ps.map (·.dflt), cs.map (·.dflt), sp, sp.dflts, mininu, none⟩
    else .error .badCtor
  | .boxcox1nu =>
    if lamBoundsOk minilam then
      let sp := bc2Spec mininu minilam
      let ps : List (SlotSpec α) := [⟨"nu", some mininu, some mininu, none⟩]
      let cs : List (SlotSpec α) := [⟨"lam", none, some minilam, some 3.0⟩]
      .ok ⟨c, ⟨ps, false⟩, ⟨cs, true⟩, ps.map (·.dflt), cs.map (·.dflt), sp, sp.dflts, mininu, none⟩
    else .error .badCtor
  | .yeojohnson =>
    .ok (plain [⟨"nu", some 0, none, none⟩, ⟨"scale", some 1, some 1e-5, none⟩, ⟨"lam", some 1, some (-1.0), some 3.0⟩])
  | .sinh => .ok (plain [⟨"nu", some 0, none, none⟩, ⟨"scale", some 1, some 1e-10, none⟩])
  | .logsinh =>
    let ps : List (SlotSpec α) := [⟨"loga", some (-1.0), some (-20.0), some 0⟩, ⟨"logb", some 0, some (-5.0), some 5.0⟩]
    let cs : List (SlotSpec α) := [⟨"xmax", none, some eps, none⟩]
    .ok ⟨c, ⟨ps, false⟩, ⟨cs, true⟩, ps.map (·.dflt), cs.map (·.dflt), noVec, [], mininu, none⟩
  | .manly =>
    let ps : List (SlotSpec α) := [⟨"lam", some 0.1, some (-5.0), some 5.0⟩]
    let cs : List (SlotSpec α) := [⟨"xmax", none, some eps, none⟩]
    .ok ⟨c, ⟨ps, false⟩, ⟨cs, true⟩, ps.map (·.dflt), cs.map (·.dflt), noVec, [], mininu, none⟩

/-! ### operations -/

inductive Method | fwd | bwd | jac | cens
  deriving DecidableEq, Repr

/-- one public operation on a transform object `t` -/
inductive TOp (α : Type) where
  /-- `t.k = v` (a name that is neither a parameter nor a constant becomes a plain python attribute) -/
  | setAttr (k : String) (v : Option α)
  /-- `t[k] = v` -/
  | setItem (k : String) (v : Option α)
  /-- `t.params[k] = v` -/
  | setPItem (k : String) (v : Option α)
  /-- `t.constants[k] = v` -/
  | setCItem (k : String) (v : Option α)
  /-- `t.params.values = vs` -/
  | setPValues (vs : List (Option α))
  /-- `t.constants.values = vs` -/
  | setCValues (vs : List (Option α))
  /-- `t.reset()` -/
  | reset
  /-- `t.forward(xs)` / `backward` / `jacobian` / `backward_censored(xs, censor)` on a 1-D float64 array -/
  | call (m : Method) (censor : α) (xs : List α)

inductive Reply (α : Type) where
  | done
  | rejected (e : SetErr)
  | values (vs : List (Option α))
  | raised (e : Err)

/-- a method of a class without hidden state, on an array; `cens` is how `backward_censored` combines the two directions
(`backwardCensored` of Model/C01; a parameter so that the driver can also evaluate it over error-tracking pairs) -/
def applyM (cens : (α → Option α) → (α → Option α) → α → α → Option α) (m : Method) (f b j : α → Option α)
    (c : α) (xs : List α) : List (Option α) :=
  match m with
  | .fwd => onArray f xs
  | .bwd => onArray b xs
  | .jac => onArray j xs
  | .cens => onArray (fun y => cens f b y c) xs

/-- a NaN among the parameters makes every element NaN (unreachable: parameters never hold NaN, `TObj.Inv`) -/
def allNaN (xs : List α) : List (Option α) := xs.map fun _ => none

/-- a method call: the class reads `self.params.values` / `self.constants.values` positionally; the delegating classes
first assign the inner `BoxCox2`'s parameter vector (through its own `values` setter: length / NaN check, clip) -/
def TObj.evalWith (cens : (α → Option α) → (α → Option α) → α → α → Option α) (o : TObj α) (m : Method) (c : α)
    (xs : List α) : TObj α × Reply α :=
  let ap := applyM cens m
  match o.cls, o.pvals, o.cvals with
  | .identity, [], [] =>
    let p : Identity.Params α := {}
    (o, .values (ap (Identity.forward p) (Identity.backward p) (Identity.jacobian p) c xs))
  | .logit, [some lower, some logdelta], [] =>
    let p : Logit.Params α := ⟨lower, logdelta⟩
    (o, .values (ap (Logit.forward p) (Logit.backward p) (Logit.jacobian p) c xs))
  | .log, [some nu], [] =>
    let p : Log.Params α := ⟨nu, o.base, o.mininu⟩
    (o, .values (ap (Log.forward p) (Log.backward p) (Log.jacobian p) c xs))
  | .boxcox2, [some nu, some lam], [] =>
    let p : BoxCox2.Params α := ⟨nu, lam, o.mininu⟩
    (o, .values (ap (BoxCox2.forward p) (BoxCox2.backward p) (BoxCox2.jacobian p) c xs))
  | .boxcox1lam, [some lam], [nu] =>
    (match nu with
    | none => (o, .raised .nuUnset)
    | some nu =>
      match o.ispec.setValues [some nu, some lam] with
      | .error e => (o, .rejected e)
      | .ok iv =>
        match iv with
        | [some bnu, some blam] =>
          let p : BoxCox2.Params α := ⟨bnu, blam, o.mininu⟩
          ({ o with ivals := iv }, .values (ap (BoxCox2.forward p) (BoxCox2.backward p) (BoxCox2.jacobian p) c xs))
        | _ => ({ o with ivals := iv }, .values (allNaN xs)))
  | .boxcox1nu, [some nu], [lam] =>
    (match lam with
    | none => (o, .raised .lamUnset)
    | some lam =>
      match o.ispec.setValues [some nu, some lam] with
      | .error e => (o, .rejected e)
      | .ok iv =>
        match iv with
        | [some bnu, some blam] =>
          let p : BoxCox2.Params α := ⟨bnu, blam, o.mininu⟩
          ({ o with ivals := iv }, .values (ap (BoxCox2.forward p) (BoxCox2.backward p) (BoxCox2.jacobian p) c xs))
        | _ => ({ o with ivals := iv }, .values (allNaN xs)))
  | .boxcox2sym, [some nu, some lam], [] =>
    (match o.ispec.setValues [some nu, some lam] with
    | .error e => (o, .rejected e)
    | .ok iv =>
      match iv with
      | [some bnu, some blam] =>
        let p : BoxCox2sym.Params α := ⟨bnu, blam, o.mininu⟩
        ({ o with ivals := iv },
          .values (ap (BoxCox2sym.forward p) (BoxCox2sym.backward p) (BoxCox2sym.jacobian p) c xs))
      | _ => ({ o with ivals := iv }, .values (allNaN xs)))
  | .yeojohnson, [some nu, some scale, some lam], [] =>
    let p : YeoJohnson.Params α := ⟨nu, scale, lam⟩
    (o, .values (ap (YeoJohnson.forward p) (YeoJohnson.backward p) (YeoJohnson.jacobian p) c xs))
  | .logsinh, [some loga, some logb], [xmax] =>
    (match xmax with
    | none => (o, .raised .xmaxUnset)
    | some xm =>
      let p : LogSinh.Params α := ⟨loga, logb, xm⟩
      (o, .values (ap (LogSinh.forward p) (LogSinh.backward p) (LogSinh.jacobian p) c xs)))
  | .reciprocal, [some nu], [] =>
    let p : Reciprocal.Params α := ⟨nu, o.mininu⟩
    (o, .values (ap (Reciprocal.forward p) (Reciprocal.backward p) (Reciprocal.jacobian p) c xs))
  | .sinh, [some nu, some scale], [] =>
    let p : Sinh.Params α := ⟨nu, scale⟩
    (o, .values (ap (Sinh.forward p) (Sinh.backward p) (Sinh.jacobian p) c xs))
  | .manly, [some lam], [xmax] =>
    (match xmax with
    | none => (o, .raised .xmaxUnset)
    | some xm =>
      let p : Manly.Params α := ⟨lam, xm⟩
      (o, .values (ap (Manly.forward p) (Manly.backward p) (Manly.jacobian p) c xs)))
  | .softmax, [], [] =>
    -- a 1-D array is one row (`np.atleast_2d`); `backward_censored` is not modelled for Softmax (never driven)
    let lift (r : Except Err (List α)) : Reply α := match r with
      | .ok l => .values (l.map some)
      | .error e => .raised e
    (match m with
    | .fwd => (o, lift (Softmax.forward xs))
    | .bwd => (o, lift (Softmax.backward xs))
    | .jac => (o, lift ((Softmax.jacobian xs).map fun v => [v]))
    | .cens => (o, .values (allNaN xs)))
  | _, _, _ => (o, .values (allNaN xs))

/-- assignment result: the new values, or the rejection with the old values kept -/
def assign (old : List (Option α)) (r : Except SetErr (List (Option α))) : List (Option α) × Reply α :=
  match r with
  | .ok l => (l, .done)
  | .error e => (old, .rejected e)

def TObj.setP (o : TObj α) (r : Except SetErr (List (Option α))) : TObj α × Reply α :=
  let (l, rep) := assign o.pvals r
  ({ o with pvals := l }, rep)

def TObj.setC (o : TObj α) (r : Except SetErr (List (Option α))) : TObj α × Reply α :=
  let (l, rep) := assign o.cvals r
  ({ o with cvals := l }, rep)

/-- one operation -/
def TObj.stepWith (cens : (α → Option α) → (α → Option α) → α → α → Option α) (o : TObj α) (op : TOp α) :
    TObj α × Reply α :=
  match op with
  | .setAttr k v =>
    -- Transform.__setattr__: a parameter name, else a constant name, else an ordinary attribute of the python object
    if o.pspec.names.contains k then o.setP (o.pspec.setName o.pvals k v)
    else if o.cspec.names.contains k then o.setC (o.cspec.setName o.cvals k v)
    else (o, .done)
  | .setItem k v =>
    -- Transform.__setitem__
    if o.cspec.slots.isEmpty then o.setP (o.pspec.setName o.pvals k v)
    else if o.pspec.names.contains k then o.setP (o.pspec.setName o.pvals k v)
    else o.setC (o.cspec.setName o.cvals k v)
  | .setPItem k v => o.setP (o.pspec.setName o.pvals k v)
  | .setCItem k v => o.setC (o.cspec.setName o.cvals k v)
  | .setPValues vs => o.setP (o.pspec.setValues vs)
  | .setCValues vs => o.setC (o.cspec.setValues vs)
  | .reset => o.setP (o.pspec.setValues o.pspec.dflts)
  | .call m c xs => o.evalWith cens m c xs

/-- a history: the object after it and the reply to every operation -/
def TObj.runWith (cens : (α → Option α) → (α → Option α) → α → α → Option α) :
    TObj α → List (TOp α) → TObj α × List (Reply α)
  | o, [] => (o, [])
  | o, op :: ops =>
    let (o1, r) := o.stepWith cens op
    let (o2, rs) := TObj.runWith cens o1 ops
    (o2, r :: rs)

def TObj.step [NanTest α] (o : TObj α) (op : TOp α) : TObj α × Reply α := o.stepWith backwardCensored op
def TObj.run [NanTest α] (o : TObj α) (ops : List (TOp α)) : TObj α × List (Reply α) := TObj.runWith backwardCensored o ops

/-! ### reading back -/

/-- `vect[k]` -/
def VSpec.getName (sp : VSpec α) (vals : List (Option α)) (k : String) : Except SetErr (Option α) :=
  if !sp.names.contains k then .error .unknownKey else .ok (getAt sp.slots vals k)

/-- `t[k]` (`Transform.__getitem__`): the parameter of that name, else the constant; `ValueError` for an unknown key -/
def TObj.getItem (o : TObj α) (k : String) : Except SetErr (Option α) :=
  if o.cspec.slots.isEmpty then o.pspec.getName o.pvals k
  else if o.pspec.names.contains k then o.pspec.getName o.pvals k
  else o.cspec.getName o.cvals k

/-! ### what every reachable object satisfies (used by the theorems) -/

/-- `x` is inside the declared bounds of the slot -/
def inBounds (s : SlotSpec α) (x : α) : Prop := (∀ l, s.lo = some l → l ≤ x) ∧ (∀ h, s.hi = some h → x ≤ h)

/-- a stored value is admissible: a number inside the bounds, or NaN where the Vector accepts NaN (unset constant) -/
def okSlot (nanOk : Bool) (s : SlotSpec α) : Option α → Prop
  | none => nanOk = true
  | some x => inBounds s x

def okVals (nanOk : Bool) : List (SlotSpec α) → List (Option α) → Prop
  | [], [] => True
  | s :: ss, v :: vs => okSlot nanOk s v ∧ okVals nanOk ss vs
  | _, _ => False

/-- the declared bounds are not empty -/
def VSpec.WF (sp : VSpec α) : Prop := ∀ s ∈ sp.slots, ∀ l h, s.lo = some l → s.hi = some h → l ≤ h

def VSpec.Ok (sp : VSpec α) (vals : List (Option α)) : Prop := okVals sp.acceptNan sp.slots vals

/-- the object invariant: one value per slot, every parameter a number inside its declared bounds, every constant inside
its bounds or unset, the inner BoxCox2 likewise -/
def TObj.Inv (o : TObj α) : Prop :=
  o.pspec.WF ∧ o.cspec.WF ∧ o.ispec.WF ∧ o.pspec.Ok o.pvals ∧ o.cspec.Ok o.cvals ∧ o.ispec.Ok o.ivals

/-- what no operation changes: class, the three Vector specifications, `mininu`, `base` -/
def TObj.sameSpec (o o' : TObj α) : Prop :=
  o'.cls = o.cls ∧ o'.pspec = o.pspec ∧ o'.cspec = o.cspec ∧ o'.ispec = o.ispec ∧ o'.mininu = o.mininu ∧ o'.base = o.base

/-! ### `get_transform(name, **kwargs)` -/

/-- constructor keywords are taken out first; every other keyword that names a parameter is assigned through
`trans.params[k] = v`, one that names a constant through `trans.constants[k] = v`, the rest is ignored. A rejected
assignment propagates (the call raises). -/
def applyKw (o : TObj α) : List (String × Option α) → Except SetErr (TObj α)
  | [] => .ok o
  | (k, v) :: kws =>
    if o.pspec.names.contains k then
      match o.pspec.setName o.pvals k v with
      | .ok l => applyKw { o with pvals := l } kws
      | .error e => .error e
    else if o.cspec.names.contains k then
      match o.cspec.setName o.cvals k v with
      | .ok l => applyKw { o with cvals := l } kws
      | .error e => .error e
    else applyKw o kws

def getTransform (name : String) (mininu minilam : α) (base : Option α) (kws : List (String × Option α)) :
    Except SetErr (TObj α) :=
  match Cls.ofName? name with
  | none => .error .unknownKey
  | some c =>
    match mkObj c mininu minilam base with
    | .error e => .error e
    | .ok o => applyKw o kws

end
end HydroVerif.C01
