/-
C17 — histories of calls.  `armodel_sim` / `armodel_residual` keep no state of their own: the only state a
history of calls has is the contents of the argument objects the caller holds (the coefficient array, the
series array, the array returned by the last accepted call) — which the caller may edit in place, replace, or
feed back between calls.  `step` is one operation of such a history; a call reads the objects as they are at
that moment, writes none of them, and (rejected or not) leaves nothing behind except, when accepted, the
array it returns.  Handing that array back as the series makes `series` and `last` one object: in-place edits
through either name are seen through the other until one of them is bound to another array (`aliased`).
The driver runs `run` / `exec` on the operation lists the harness executes on the real code.  No Mathlib.
-/
import HydroVerif.Model.C17

namespace HydroVerif.C17

/-- the objects a history works on -/
structure St (α : Type) where
  /-- the coefficient array (NaN = `none`) -/
  params : List (Option α)
  /-- the series array handed to the next call (innovations or inputs) -/
  series : List (Option α)
  /-- the array returned by the most recent accepted call (`none` before the first one) -/
  last : Option (List (Option α))
  /-- `series` and `last` are one and the same array object (after `feedBack`, until either name is bound to
  another array): an in-place edit through one name is seen through the other -/
  aliased : Bool := false

/-- one operation of a history -/
inductive Op (α : Type) where
  /-- `params[k] = v` in place (out of range: numpy raises IndexError, nothing changes) -/
  | setParam (k : Nat) (v : Option α)
  /-- `series[i] = v` in place -/
  | setSeries (i : Nat) (v : Option α)
  /-- another coefficient array -/
  | newParams (ps : List (Option α))
  /-- another series array -/
  | newSeries (xs : List (Option α))
  /-- in-place edit of the array returned by the last accepted call -/
  | setLast (i : Nat) (v : Option α)
  /-- the array returned by the last accepted call is handed over as the series of the next calls
  (nothing to hand over: nothing changes) -/
  | feedBack
  /-- `armodel_sim(params, series, sim_mean, sim_ini)`; an argument left at its default is the outer `none` -/
  | callSim (meanArg iniArg : Option (Option α))
  /-- `armodel_residual(params, series, sim_mean, sim_ini)`; `nanmean` is `numpy.nanmean(series)` at the time
  of the call (external, see `pyResidual`) -/
  | callRes (nanmean : Option α) (meanArg iniArg : Option (Option α))

/-- `a[i] = v` (no change when `i` is out of range) -/
def setAt {β : Type} : List β → Nat → β → List β
  | [], _, _ => []
  | _ :: t, 0, v => v :: t
  | h :: t, i+1, v => h :: setAt t i v

section
variable {α : Type} [Add α] [Sub α] [Mul α] [OfNat α 0]

/-- what a call leaves behind: the returned array when accepted, nothing when rejected -/
def afterCall (s : St α) (r : Except Err (List α)) : St α :=
  match r with
  | .ok ys => { s with last := some (ys.map some), aliased := false }
  | .error _ => s

/-- one operation: the new state and, for a call, its reply -/
def step (nan : α → Bool) (s : St α) : Op α → St α × Option (Except Err (List α))
  | .setParam k v => ({ s with params := setAt s.params k v }, none)
  | .setSeries i v =>
    let xs := setAt s.series i v
    ({ s with series := xs, last := if s.aliased then some xs else s.last }, none)
  | .newParams ps => ({ s with params := ps }, none)
  | .newSeries xs => ({ s with series := xs, aliased := false }, none)
  | .setLast i v =>
    (match s.last with
      | some l => { s with last := some (setAt l i v), series := if s.aliased then setAt l i v else s.series }
      | none => s, none)
  | .feedBack => (match s.last with
      | some l => { s with series := l, aliased := true }
      | none => s, none)
  | .callSim ma ia =>
    let r := pySim nan s.params s.series ma ia
    (afterCall s r, some r)
  | .callRes nm ma ia =>
    let r := pyResidual nan s.params s.series nm ma ia
    (afterCall s r, some r)

/-- a whole history: the replies of its calls, in order (`none` for the operations that are not calls) -/
def run (nan : α → Bool) : St α → List (Op α) → List (Option (Except Err (List α)))
  | _, [] => []
  | s, op :: ops => (step nan s op).2 :: run nan (step nan s op).1 ops

/-- the state a history ends in -/
def exec (nan : α → Bool) : St α → List (Op α) → St α
  | s, [] => s
  | s, op :: ops => exec nan (step nan s op).1 ops

end

/-- the operation is a call -/
def Op.isCall {α : Type} : Op α → Bool
  | .callSim _ _ => true
  | .callRes _ _ _ => true
  | _ => false

end HydroVerif.C17
