/-
C07 — model of the grid geometry routines of `hydrodiy/gis/c_grid.c` and their `Grid.*` wrappers:
`getnxy`, `getcoord`, `c_coord2cell`, `c_cell2rowcol`, `c_cell2coord`, `c_neighbours`,
`Grid.xvalues / yvalues / xlim / ylim`.

No Mathlib. Everything is total and computable; the driver runs these definitions at `Float`
(IEEE double, as the kernels) and at `Rat` (exact).

The file has two parts with stable names, imported by the models of C06 (delineation), C11
(accumulation) and C16 (intersection):

* PART 1 — integer grid core: cell number <-> (row, col), validity guard, neighbour table.
  C `long long` is `Int`; C `%` and `/` are `Int.tmod` / `Int.tdiv` (truncated), as in C99.
* PART 2 — coordinates, generic over the numeric type `α` through the class `Trunc`
  (`(double) n`, the C cast `(long long) x` = truncation toward zero, and `(long long) floor(x)`).

Index lemmas (no Mathlib needed by users beyond what the file imports): `HydroVerif/Lemmas/C07Grid.lean`.
-/
namespace HydroVerif.C07

/-! ## PART 1 — integer grid core (cells, rows, columns, neighbours) -/

inductive Err
  /-- `GRID_ERROR + __LINE__` of `c_neighbours`: the cell number is outside `0 .. nrows*ncols-1` -/
  | badCell
  deriving DecidableEq, Repr

/-- the guard every routine applies: `!(icell<0 || icell>=nrows*ncols)` -/
def validCell (nrows ncols idx : Int) : Bool :=
  !(decide (idx < 0) || decide (idx ≥ nrows * ncols))

/-- `nxy[0] = idxcell % ncols` (C remainder: truncated, sign of the dividend) -/
def colOf (ncols idx : Int) : Int := idx.tmod ncols

/-- `nxy[1] = (idxcell - nxy[0]) / ncols` (C division: truncated); rows are counted from the top -/
def rowOf (ncols idx : Int) : Int := (idx - colOf ncols idx).tdiv ncols

/-- `getnxy`: `(nxy[0], nxy[1]) = (column, row)`. The C code divides by `ncols` with no guard:
`ncols = 0` is a SIGFPE there; every caller modelled here reaches `getnxy` only behind `validCell`,
which excludes `ncols = 0` (lemma `validCell_ncols_ne_zero`). -/
def getnxy (ncols idx : Int) : Int × Int := (colOf ncols idx, rowOf ncols idx)

/-- row-major numbering from the top-left corner: `ny*ncols + nx` -/
def cellOf (ncols row col : Int) : Int := row * ncols + col

/-- one entry of `c_cell2rowcol`: `(row, col)`, or `(-1, -1)` for an invalid cell number -/
def cell2rowcol (nrows ncols idx : Int) : Int × Int :=
  if validCell nrows ncols idx then (rowOf ncols idx, colOf ncols idx) else (-1, -1)

/-- body of the double loop of `c_neighbours` for the offsets `(ix, iy)` (column, row offset) -/
def nbCell (nrows ncols idx ix iy : Int) : Int :=
  if ix = 0 ∧ iy = 0 then -1
  else
    let nx := colOf ncols idx + ix
    let ny := rowOf ncols idx + iy
    if nx < 0 ∨ nx > ncols - 1 ∨ ny < 0 ∨ ny > nrows - 1 then -1
    else ny * ncols + nx

/-- column offset of position `k` in the neighbour vector (`k = 1+ix+(1+iy)*3`)
```
0 1 2
3 X 5
6 7 8
``` -/
def nbDx (k : Nat) : Int := ((k % 3 : Nat) : Int) - 1
/-- row offset of position `k` -/
def nbDy (k : Nat) : Int := ((k / 3 : Nat) : Int) - 1

/-- entry `k` (0..8) of the neighbour vector of a *valid* cell; `-1` = centre or off-grid -/
def neighbour (nrows ncols idx : Int) (k : Nat) : Int :=
  nbCell nrows ncols idx (nbDx k) (nbDy k)

/-- `c_neighbours`: error for an invalid cell, else the 9 entries in the order the double loop
(`iy` outer, `ix` inner, both `-1..1`) stores them at `k = 1+ix+(1+iy)*3` -/
def cNeighbours (nrows ncols idx : Int) : Except Err (List Int) :=
  if validCell nrows ncols idx then
    .ok (([-1, 0, 1] : List Int).flatMap fun iy =>
          ([-1, 0, 1] : List Int).map fun ix => nbCell nrows ncols idx ix iy)
  else .error .badCell

/-! ## PART 2 — coordinates (generic numeric type) -/

/-- what the coordinate routines need beyond `+ - * /`: the two C conversions -/
class Trunc (α : Type) where
  /-- `(double) n` -/
  ofInt : Int → α
  /-- the C cast `(long long) x`: truncation toward zero -/
  truncToInt : α → Int
  /-- `(long long) floor(x)` -/
  floorToInt : α → Int

/-- `INT64_MIN`, the x86-64 "integer indefinite" produced by `cvttsd2si` for NaN and out-of-range values -/
def i64min : Int := -9223372036854775808

/-- `(long long) x` for a double as compiled for x86-64 -/
def floatToI64 (x : Float) : Int :=
  if x.isNaN || x ≥ 9223372036854775808.0 || x < -9223372036854775808.0 then i64min
  else x.toInt64.toInt

instance truncFloat : Trunc Float where
  ofInt := Float.ofInt
  truncToInt := floatToI64
  floorToInt x := floatToI64 x.floor

instance truncRat : Trunc Rat where
  ofInt n := (n : Rat)
  truncToInt x := if 0 ≤ x then x.floor else -((-x).floor)
  floorToInt x := x.floor

/-- grid geometry: `Grid._getsize()` -/
structure Geom (α : Type) where
  nrows : Int
  ncols : Int
  xll : α
  yll : α
  csz : α

section Coord
variable {α : Type} [Add α] [Sub α] [Mul α] [Div α] [OfNat α 1] [Trunc α]

/-- the literal `0.5` (exactly representable: `1/(1+1)`) -/
def half : α := 1 / (1 + 1)

/-- `getcoord`: centre of cell `idx` (not guarded):
`x = xll+csz*((double)nxy[0]+0.5)`, `y = yll+csz*((double)(nrows-1-nxy[1])+0.5)` -/
def getcoord (g : Geom α) (idx : Int) : α × α :=
  (g.xll + g.csz * (Trunc.ofInt (colOf g.ncols idx) + half),
   g.yll + g.csz * (Trunc.ofInt (g.nrows - 1 - rowOf g.ncols idx) + half))

/-- one entry of `c_cell2coord`; `none` = `(NaN, NaN)` for an invalid cell number -/
def cell2coord (g : Geom α) (idx : Int) : Option (α × α) :=
  if validCell g.nrows g.ncols idx then some (getcoord g idx) else none

/-- range test and numbering shared by both variants of `c_coord2cell` -/
def cellOfNxNy (nrows ncols nx ny : Int) : Int :=
  if nx < 0 ∨ nx ≥ ncols ∨ ny < 0 ∨ ny ≥ nrows then -1 else ny * ncols + nx

/-- one entry of `c_coord2cell` (after the `fix:` commit — `floor` before the cast):
`nx = (long long)floor((x-xll)/csz)`, `ny = nrows-1-(long long)floor((y-yll)/csz)` -/
def coord2cell (g : Geom α) (x y : α) : Int :=
  let nx := Trunc.floorToInt ((x - g.xll) / g.csz)
  let ny := g.nrows - 1 - Trunc.floorToInt ((y - g.yll) / g.csz)
  cellOfNxNy g.nrows g.ncols nx ny

/-- `c_coord2cell` as it was at the pinned commit (bare cast, truncation toward zero). Kept so that
the finding is a theorem (`Props/C07.lean: coord2cellTrunc_left_strip`) and for replay diagnostics. -/
def coord2cellTrunc (g : Geom α) (x y : α) : Int :=
  let nx := Trunc.truncToInt ((x - g.xll) / g.csz)
  let ny := g.nrows - 1 - Trunc.truncToInt ((y - g.yll) / g.csz)
  cellOfNxNy g.nrows g.ncols nx ny

/-- `Grid.xvalues`: x of `cell2coord(arange(ncols))` -/
def xvalues (g : Geom α) : List (Option α) :=
  (List.range g.ncols.toNat).map fun (j : Nat) => (cell2coord g (j : Int)).map (·.1)

/-- `Grid.yvalues`: y of `cell2coord(arange(0, nrows*ncols, ncols))` -/
def yvalues (g : Geom α) : List (Option α) :=
  (List.range g.nrows.toNat).map fun (i : Nat) => (cell2coord g ((i : Int) * g.ncols)).map (·.2)

/-- `Grid.xlim = (xllcorner, xllcorner + ncols*cellsize)` -/
def xlim (g : Geom α) : α × α := (g.xll, g.xll + Trunc.ofInt g.ncols * g.csz)
/-- `Grid.ylim = (yllcorner, yllcorner + nrows*cellsize)` -/
def ylim (g : Geom α) : α × α := (g.yll, g.yll + Trunc.ofInt g.nrows * g.csz)

end Coord

end HydroVerif.C07
