/-
C16 — model of the catchment / grid intersection and of the Voronoi weights:

* `c_intersect` (`hydrodiy/gis/c_grid.c`): every catchment-cell centre is located in the coarse grid with
  `c_coord2cell` (model: `C07.coord2cell`) and its weight is accumulated in a list of distinct cells by the
  accumulate-or-append inner loop;
* `Catchment.intersect` (`hydrodiy/gis/grid.py`): centres from `flowdir.cell2coord(cells)`, the kernel call,
  lower-left corner / row and column range of the sub-grid, scatter of the weights into the sub-grid array and
  the parent row/column bookkeeping;
* `c_voronoi` / `grid.voronoi`: nearest point per catchment cell (first arg-min, strict `<`), counts, division
  by the number of cells. The distance function is a parameter (`sqrt(dx*dx+dy*dy)` in the driver);
* the glue of the wrappers that decides the answer: `filled` selects the cell list, a catchment that is not
  delineated (`None` lists), `np.atleast_2d` and the two-column assert on the points argument, the kernel's
  guards `npoints < 1`, `nrows < 1 || ncols < 1` — error values by name (`Err`); in `Catchment.intersect` also the
  allocation of the kernel's buffers (`np.zeros(nrows*ncols)`: negative size rejected; the kernel does not check
  the size it is told: writing past it is the error value `bufferOverflow`), the shape guards of the `Grid.data`
  setter the weight array goes through, and the parent attributes `set_parent_attributes` copies;
* `repAdd`: the value the accumulate loop holds for a cell met `n + 1` times (`af`, then `+= af` `n` times, in
  this order — every numeric instance, also `Float`);
* an executable statement of the property (`specWeight`, `specArea`: counts of catchment-cell centres in the
  half-open footprint / extent, with `Bool`-valued tests) which the driver evaluates next to the model.

No Mathlib. Everything is total and computable; the driver runs these definitions at `Float` (IEEE double,
operation order of the C code) and at `Rat` (exact). Grid geometry is imported from `Model/C07.lean`.
-/
import HydroVerif.Model.C07
namespace HydroVerif.C16
open HydroVerif.C07

inductive Err
  /-- `np.min` of an empty array in `Catchment.intersect`: no catchment-cell centre falls inside the grid
  (`ValueError: zero-size array to reduction operation minimum which has no identity`) -/
  | noOverlap
  /-- `GRID_ERROR + __LINE__` of `c_voronoi`: `npoints < 1` -/
  | noPoints
  /-- `GRID_ERROR + __LINE__` of `c_voronoi`: `nrows < 1 || ncols < 1` (cell coordinates use `idxcell % ncols`) -/
  | badGrid
  /-- `grid.voronoi`: `catchment._idxcells_area is None` (`ValueError ... please delineate the area`) -/
  | notDelineated
  /-- `Catchment.intersect` on a catchment whose selected cell list is `None`: `cell2coord(None)` fails in numpy
  with `TypeError: int() argument must be ... not 'NoneType'` (there is no guard in `intersect`) -/
  | cellsNone
  /-- the Cython wrapper's `assert xypoints.shape[1] == 2` (`AssertionError`): after `np.atleast_2d` the points
  array does not have two columns -/
  | badShape
  /-- `np.zeros(nrows*ncols)` in `Catchment.intersect` with `nrows*ncols < 0`
  (`ValueError: negative dimensions are not allowed`) -/
  | badBuffer
  /-- `c_intersect` is told the length of `idxcells` / `weights` (`ncells`) and never compares it with `j`: listing
  more cells than the buffers hold is a write past their end (undefined behaviour in C) -/
  | bufferOverflow
  /-- the `Grid.data` setter: `Wrong number of rows` / `Wrong number of columns` (`ValueError`) -/
  | badData
  deriving DecidableEq, Repr

/-! ## `c_intersect` -/

section Intersect
variable {α : Type} [Add α] [Sub α] [Mul α] [Div α] [OfNat α 1] [Trunc α]

/-- `areafactor = (csz_area/csz)*(csz_area/csz)` -/
def areafactor (csz cszArea : α) : α := (cszArea / csz) * (cszArea / csz)

/-- the inner loop and the append that follows it:
```
for(k=0; k<j; k++) if(idxcells[k] == *idxcell){ weights[k] += areafactor; break; }
if(k==j){ idxcells[j] = *idxcell; weights[j] = areafactor; j++; }
``` -/
def bump (af : α) (c : Int) : List (Int × α) → List (Int × α)
  | [] => [(c, af)]
  | (k, w) :: t => if k = c then (k, w + af) :: t else (k, w) :: bump af c t

/-- what `weights[k]` holds once the cell has been met `n + 1` times: `weights[j] = areafactor` at the append,
then `weights[k] += areafactor` `n` times -/
def repAdd (af : α) : Nat → α
  | 0 => af
  | n + 1 => repAdd af n + af

/-- the cell `c_coord2cell` returns for one row of `xy_area`; `none` is the `(NaN, NaN)` row `c_cell2coord`
writes for an invalid cell number (`floor(NaN)` converts to a negative column, hence `-1`) -/
def cellOfPt (g : Geom α) : Option (α × α) → Int
  | none => -1
  | some (x, y) => coord2cell g x y

/-- one iteration of the outer loop: `if(ierr>0 || *idxcell<0) continue;` then accumulate or append -/
def step (g : Geom α) (af : α) (acc : List (Int × α)) (p : Option (α × α)) : List (Int × α) :=
  let c := cellOfPt g p
  if c < 0 then acc else bump af c acc

/-- `c_intersect`: `(idxcells[k], weights[k])` for `k < npoints[0]`, in the order the cells were first met -/
def cIntersect (g : Geom α) (cszArea : α) (pts : List (Option (α × α))) : List (Int × α) :=
  pts.foldl (step g (areafactor g.csz cszArea)) []

end Intersect

/-! ## `Catchment.intersect` -/

/-- `np.min` / `np.max` of a non-empty array given as first element and rest (no NaN reaches them here) -/
def listMin {β : Type} [LT β] [DecidableLT β] (x : β) (xs : List β) : β :=
  xs.foldl (fun m y => if y < m then y else m) x
def listMax {β : Type} [LT β] [DecidableLT β] (x : β) (xs : List β) : β :=
  xs.foldl (fun m y => if m < y then y else m) x

/-- what `Catchment.intersect` returns: `(area_grid, idxcells, weights)` with the attributes of `area_grid`
the property speaks about -/
structure AreaGrid (α : Type) where
  /-- `idxcells`: cells of the parent grid, in the order the kernel met them -/
  keys : List Int
  /-- `weights`, same order -/
  weights : List α
  /-- `parentgrid_rows_start / rows_end / cols_start / cols_end` -/
  rowStart : Int
  rowEnd : Int
  colStart : Int
  colEnd : Int
  /-- `area_grid.xllcorner / yllcorner / nrows / ncols` (cell size = the parent's) -/
  xll : α
  yll : α
  nrows : Int
  ncols : Int
  /-- `area_grid.data`, row by row from the top -/
  data : List (List α)
  /-- `area_grid.cellsize` (constructor argument `cellsize=grid.cellsize`) -/
  csz : α
  /-- `parentgrid_nrows / ncols / xllcorner / yllcorner / cellsize`, copied by `set_parent_attributes` -/
  parent : Geom α

/-- the `Grid.data` setter on a grid of shape `(nrows, ncols)`: an array with another number of rows or of columns
is rejected; `_clipdata` is the identity (`mindata = -inf`, `maxdata = +inf` on a fresh grid) and `astype(float64)`
of a float64 array changes nothing -/
def setData {β : Type} (nrows ncols : Int) (value : List (List β)) : Except Err (List (List β)) :=
  if (value.length : Int) ≠ nrows then .error .badData
  else if value.any (fun r => decide ((r.length : Int) ≠ ncols)) then .error .badData
  else .ok value

section PyIntersect
variable {α : Type} [Add α] [Sub α] [Mul α] [Div α] [OfNat α 0] [OfNat α 1] [LT α] [DecidableLT α] [Trunc α]

/-- `weights_array = zeros(...)` followed by the element-wise assignments
`weights_array[row_n - row_start, col_n - col_start] = weights[n]` in the order of `n`, as a function of the
array position (later assignments win) -/
def scatterFn (nrows ncols rowStart colStart : Int) (kws : List (Int × α)) : Int → Int → α :=
  kws.foldl (fun f kw i j =>
      let rc := cell2rowcol nrows ncols kw.1
      if i = rc.1 - rowStart ∧ j = rc.2 - colStart then kw.2 else f i j)
    (fun _ _ => 0)

/-- `Catchment.intersect(grid, filled)`; `cells` is `_idxcells_area_filled` or `_idxcells_area`.
`grid.cell2coord(idxcells)` is modelled by `getcoord`: the guard of `c_cell2coord` passes for every cell the
kernel returns (`Props/C16.lean: cIntersect_keys_valid`, true for every numeric instance). -/
def intersect (coarse fine : Geom α) (cells : List Int) : Except Err (AreaGrid α) :=
  -- `idxcells = np.zeros(nrows*ncols)`, `weights = np.zeros(nrows*ncols)`
  if coarse.nrows * coarse.ncols < 0 then .error .badBuffer else
  let kws := cIntersect coarse fine.csz (cells.map (cell2coord fine))
  -- the kernel fills the buffers without looking at their length
  if (coarse.nrows * coarse.ncols).toNat < kws.length then .error .bufferOverflow else
  match kws with
  | [] => .error .noOverlap
  | kw0 :: rest =>
    let xs := rest.map fun kw => (getcoord coarse kw.1).1
    let ys := rest.map fun kw => (getcoord coarse kw.1).2
    let axll := listMin (getcoord coarse kw0.1).1 xs - coarse.csz / (1 + 1)
    let ayll := listMin (getcoord coarse kw0.1).2 ys - coarse.csz / (1 + 1)
    let rc0 := cell2rowcol coarse.nrows coarse.ncols kw0.1
    let rows := rest.map fun kw => (cell2rowcol coarse.nrows coarse.ncols kw.1).1
    let cols := rest.map fun kw => (cell2rowcol coarse.nrows coarse.ncols kw.1).2
    let rowStart := listMin rc0.1 rows
    let rowEnd := listMax rc0.1 rows
    let colStart := listMin rc0.2 cols
    let colEnd := listMax rc0.2 cols
    let anrows := rowEnd - rowStart + 1
    let ancols := colEnd - colStart + 1
    let f := scatterFn coarse.nrows coarse.ncols rowStart colStart kws
    let arr := (List.range anrows.toNat).map fun (i : Nat) =>
                 (List.range ancols.toNat).map fun (j : Nat) => f (i : Int) (j : Int)
    -- `area_grid = Grid(ncols=ancols, nrows=anrows, cellsize=grid.cellsize, ...)`; `area_grid.data = weights_array`
    match setData anrows ancols arr with
    | .error e => .error e
    | .ok data =>
      .ok { keys := kws.map (·.1), weights := kws.map (·.2),
            rowStart, rowEnd, colStart, colEnd, xll := axll, yll := ayll, nrows := anrows, ncols := ancols,
            data, csz := coarse.csz, parent := coarse }

/-- the state of a `Catchment` object this property reads: the flow-direction grid geometry and the two cell
lists (`None` before `delineate_area`) -/
structure Catchment (α : Type) where
  fine : Geom α
  area : Option (List Int)
  filled : Option (List Int)

/-- `catchment.intersect(grid, filled)`: `cells = self._idxcells_area_filled if filled else self._idxcells_area` -/
def Catchment.intersect (ca : Catchment α) (grid : Geom α) (filled : Bool) : Except Err (AreaGrid α) :=
  match (if filled then ca.filled else ca.area) with
  | none => .error .cellsNone
  | some cells => C16.intersect grid ca.fine cells

/-- `catchment.intersect(grid)`: the default `filled=False` — the delineated (unfilled) area -/
def Catchment.intersectDefault (ca : Catchment α) (grid : Geom α) : Except Err (AreaGrid α) :=
  ca.intersect grid false

end PyIntersect

/-! ## the property, executable: counts of centres in half-open footprints -/

section Spec
variable {α : Type} [Add α] [Sub α] [Mul α] [Div α] [OfNat α 1] [LT α] [DecidableLT α] [LE α] [DecidableLE α] [Trunc α]

/-- `(x, y)` lies in the half-open square of cell `c`: `[left, left + csz) × [bottom, bottom + csz)` -/
def inFootprintB (g : Geom α) (c : Int) (x y : α) : Bool :=
  let col : α := Trunc.ofInt (colOf g.ncols c)
  let up : α := Trunc.ofInt (g.nrows - 1 - rowOf g.ncols c)
  decide (g.xll + g.csz * col ≤ x) && decide (x < g.xll + g.csz * (col + 1)) &&
  decide (g.yll + g.csz * up ≤ y) && decide (y < g.yll + g.csz * (up + 1))

/-- `(x, y)` lies in the half-open extent of the grid, `xlim × ylim` -/
def inExtentB (g : Geom α) (x y : α) : Bool :=
  decide (g.xll ≤ x) && decide (x < g.xll + Trunc.ofInt g.ncols * g.csz) &&
  decide (g.yll ≤ y) && decide (y < g.yll + Trunc.ofInt g.nrows * g.csz)

/-- number of catchment cells (valid cells of the flow-direction grid) whose centre lies in the footprint of
grid cell `k` -/
def specCount (coarse fine : Geom α) (cells : List Int) (k : Int) : Nat :=
  cells.countP fun c => validCell fine.nrows fine.ncols c &&
    inFootprintB coarse k (getcoord fine c).1 (getcoord fine c).2

/-- "the number of such cells times the ratio of cell areas" -/
def specWeight (coarse fine : Geom α) (cells : List Int) (k : Int) : α :=
  (fine.csz / coarse.csz) * (fine.csz / coarse.csz) * Trunc.ofInt (specCount coarse fine cells k : Nat)

/-- number of catchment cells whose centre lies inside the grid -/
def specInside (coarse fine : Geom α) (cells : List Int) : Nat :=
  cells.countP fun c => validCell fine.nrows fine.ncols c &&
    inExtentB coarse (getcoord fine c).1 (getcoord fine c).2

/-- "the catchment area inside the grid" -/
def specArea (coarse fine : Geom α) (cells : List Int) : α :=
  Trunc.ofInt (specInside coarse fine cells : Nat) * (fine.csz * fine.csz)

end Spec

/-! ## `c_voronoi` -/

section Voronoi
variable {α : Type} [Add α] [Sub α] [Mul α] [Div α] [OfNat α 0] [OfNat α 1] [LT α] [DecidableLT α] [Trunc α]

/-- the search loop
```
distmin = INFINITY; jmin = 0;
for(j=0; j<npoints; j++){ ...; if(dist<distmin){ distmin = dist; jmin = j; } }
```
over the list of distances; `best = none` stands for `distmin = +inf` (every distance the exact models can
form is below it). Arguments: remaining distances, current `j`, `distmin`, `jmin`. -/
def nearestLoop : List α → Nat → Option α → Nat → Nat
  | [], _, _, jmin => jmin
  | d :: t, j, none, _ => nearestLoop t (j + 1) (some d) j
  | d :: t, j, some m, jmin =>
    if d < m then nearestLoop t (j + 1) (some d) j else nearestLoop t (j + 1) (some m) jmin

def nearest (ds : List α) : Nat := nearestLoop ds 0 none 0

/-- `weights[jmin] += 1` -/
def incr : List α → Nat → List α
  | [], _ => []
  | w :: t, 0 => (w + 1) :: t
  | w :: t, j + 1 => w :: incr t j

/-- distances from the centre of cell `c` to every point: `dx = xy[0]-xypoints[2*j]`, `dy = xy[1]-xypoints[2*j+1]`,
`dist dx dy`; the centre comes from `getcoord` with no validity guard, as in the C code -/
def dists (dist : α → α → α) (g : Geom α) (pts : List (α × α)) (c : Int) : List α :=
  let xy := getcoord g c
  pts.map fun p => dist (xy.1 - p.1) (xy.2 - p.2)

/-- the counts before normalisation -/
def counts (dist : α → α → α) (g : Geom α) (cells : List Int) (pts : List (α × α)) : List α :=
  cells.foldl (fun ws c => incr ws (nearest (dists dist g pts c))) (pts.map fun _ => 0)

/-- `c_voronoi`: `npoints < 1` is rejected, then `nrows < 1 || ncols < 1`; `weights[j] /= (double)ncells`. With
`ncells = 0` every weight is `0.0/0.0`, a NaN: `none` (the division is not totalised). -/
def cVoronoi (dist : α → α → α) (g : Geom α) (cells : List Int) (pts : List (α × α)) :
    Except Err (List (Option α)) :=
  if pts.length < 1 then .error .noPoints
  else if g.nrows < 1 ∨ g.ncols < 1 then .error .badGrid
  else if cells.length = 0 then .ok (pts.map fun _ => none)
  else .ok ((counts dist g cells pts).map fun w => some (w / Trunc.ofInt (cells.length : Int)))

/-- what `grid.voronoi` may be handed as `xypoints`, as `np.atleast_2d(...)` sees it -/
inductive PtsArg (α : Type) where
  /-- a scalar: `atleast_2d` gives shape `(1, 1)` -/
  | scalar (x : α)
  /-- a flat sequence of `n` numbers: shape `(1, n)` — `[x, y]` is one point -/
  | flat (xs : List α)
  /-- `n` rows of equal width `w` (shape `(n, w)`; `n = 0` only as an explicit `(0, w)` array) -/
  | rows (w : Nat) (rs : List (List α))

/-- `np.atleast_2d(xypoints)`: `(number of columns, rows)` -/
def PtsArg.shape2d : PtsArg α → Nat × List (List α)
  | .scalar x => (1, [[x]])
  | .flat xs => (xs.length, [xs])
  | .rows w rs => (w, rs)

/-- the rows of a two-column array as points -/
def rowsToPts : List (List α) → List (α × α)
  | [] => []
  | (x :: y :: _) :: t => (x, y) :: rowsToPts t
  | _ :: t => rowsToPts t

/-- `grid.voronoi(catchment, xypoints)`: the `None` guard, `atleast_2d`, the wrapper's column assert, the kernel.
Always the unfilled area. -/
def voronoiPy (dist : α → α → α) (g : Geom α) (area : Option (List Int)) (arg : PtsArg α) :
    Except Err (List (Option α)) :=
  match area with
  | none => .error .notDelineated
  | some cells =>
    let sh := arg.shape2d
    if sh.1 ≠ 2 then .error .badShape
    else cVoronoi dist g cells (rowsToPts sh.2)

end Voronoi

end HydroVerif.C16
