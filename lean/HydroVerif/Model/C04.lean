/-
C04 — model of the deterministic and categorical scores of `hydrodiy.stat.metrics`:
* closed forms: `bias` (three types), `nse`, `kge`, `corr` (Pearson / Spearman on mid-ranks), the ensemble statistic
  (`nanmean` / `nanmedian`), `__nonulldata`, `__check_ensemble_data`;
* whole functions from the raw arguments: `biasFull`, `nseFull`, `kgeFull` (length check, transform `f`, null filter, guards, type
  check, in the order of the code), `corrRaw` (orientation of the ensemble, one row per observation, forecasts without
  observation / member dropped, `stat` / `type` checks, transform, statistic, null filter, guard, coefficient), with the
  errors the functions raise as values of `Res`;
* `confusion_matrix` (padding / re-ordering around `pd.crosstab`), `binary` with its error paths (`binaryOf`), the route
  two 0/1 series → table → scores (`binarySeries`);
* histories of tables held by the caller (`hstep` / `hrun`);
* `Rnd α r`: the same formulas with a rounding operator after every operation (float32 in the driver, any monotone odd
  rounding in the `_rnd` theorems).

Generic over the numeric type: `Float` (driver), `Rat` (exact, where no root/log is needed), any ordered field / ℝ (theorems)
and `Rnd`.  `none` stands for NaN results (the code returns `np.nan` with a warning) and for missing data (`pd.notnull`
false).  The transform is a parameter `f : α → Option α` (the driver passes the transform model of C01/C02).  No Mathlib.
-/
import HydroVerif.Num
namespace HydroVerif.C04

section numeric
variable {α : Type} [Add α] [Sub α] [Mul α] [Div α] [Neg α] [LT α] [DecidableLT α]
  [OfNat α 0] [OfNat α 1] [NatCast α]

def sumL : List α → α
  | [] => 0
  | x :: xs => x + sumL xs

def absG (x : α) : α := if x < 0 then -x else x

def mean (l : List α) : α := sumL l / (l.length : α)

/-- sum of squared deviations from `c` -/
def ssd (c : α) (l : List α) : α := sumL (l.map fun x => (c - x) * (c - x))

/-- sum of cross deviations -/
def scd (cx cy : α) : List α → List α → α
  | x :: xs, y :: ys => (x - cx) * (y - cy) + scd cx cy xs ys
  | _, _ => 0

/-- sum of squared errors `Σ (s - o)²` over paired entries -/
def sse : List α → List α → α
  | o :: os, s :: ss => (s - o) * (s - o) + sse os ss
  | _, _ => 0

/-- `__nonulldata`: keep the pairs in which both entries are present -/
def nonull : List (Option α) → List (Option α) → List α × List α
  | some o :: os, some s :: ss => let r := nonull os ss; (o :: r.1, s :: r.2)
  | _ :: os, _ :: ss => nonull os ss
  | _, _ => ([], [])

inductive BiasType | standard | normalised | log
  deriving DecidableEq, Repr

/-- `bias` for types standard / normalised (after transform and optional null filtering) -/
def biasStd (eps : α) (o s : List α) : Option α :=
  let mo := mean o
  if absG mo < eps then none else some ((mean s - mo) / mo)

def biasNorm (eps : α) (o s : List α) : Option α :=
  let mo := mean o
  if absG mo < eps then none else
  let ms := mean s
  some ((ms - mo) / (ms + mo))

/-- `nse = 1 - Σ(s-o)² / Σ(mean o - o)²` -/
def nse (o s : List α) : α := 1 - sse o s / ssd (mean o) o

end numeric

section transc
variable {α : Type} [Add α] [Sub α] [Mul α] [Div α] [Neg α] [LT α] [DecidableLT α]
  [OfNat α 0] [OfNat α 1] [NatCast α] [Transc α]

def biasLog (eps : α) (o s : List α) : Option α :=
  let mo := mean o
  if absG mo < eps then none else
  let ms := mean s
  if eps < ms ∧ eps < mo then some (Transc.log ms - Transc.log mo) else none

/-- `np.std` (population standard deviation) -/
def std (l : List α) : α := Transc.sqrt (ssd (mean l) l / (l.length : α))

def clip1 (x : α) : α := if x < -1 then -1 else if 1 < x then 1 else x

/-- `np.corrcoef(x, y)[0, 1]`: covariance divided by each root-variance in turn, clipped to [-1, 1]
(the common `1/(n-1)` factor is kept, as numpy does) -/
def pearson (x y : List α) : α :=
  let n1 : α := ((x.length - 1 : Nat) : α)
  let mx := mean x
  let my := mean y
  clip1 (scd mx my x y / n1 / Transc.sqrt (ssd mx x / n1) / Transc.sqrt (ssd my y / n1))

/-- `kge` with its three guards, in the order of the code -/
def kge (eps : α) (o s : List α) : Option α :=
  let mo := mean o
  if absG mo < eps then none else
  let ms := mean s
  let so := std o
  let ss := std s
  if absG so < eps then none else
  if eps < absG ss then
    let r := pearson o s
    let a := 1 - ms / mo
    let b := 1 - ss / so
    let c := 1 - r
    some (1 - Transc.sqrt (a * a + b * b + c * c))
  else none

/-- `corr(type="Pearson")` after the ensemble statistic has been applied -/
def corrPearson (eps : α) (o s : List α) : Option α :=
  if absG (std o) < eps then none else some (pearson o s)

/-- average (mid) rank, 1-based, of `x` within `l` (scipy `rankdata`, method "average"):
number of smaller values + (number of tied values + 1)/2 -/
def avgRank (l : List α) (x : α) : α :=
  ((l.filter fun y => decide (y < x)).length : α)
    + (((l.filter fun y => !decide (y < x) && !decide (x < y)).length : α) + 1) / (1 + 1)

def ranks (l : List α) : List α := l.map (avgRank l)

/-- `corr(type="Spearman")`: Pearson correlation of the mid-ranks (`scipy.stats.spearmanr`) -/
def corrSpearman (eps : α) (o s : List α) : Option α :=
  if absG (std o) < eps then none else some (pearson (ranks o) (ranks s))

end transc


/-! ### the ensemble statistic and the whole `corr` pipeline (glue around the correlation) -/

section ens
variable {α : Type} [Add α] [Sub α] [Mul α] [Div α] [Neg α] [LT α] [DecidableLT α]
  [OfNat α 0] [OfNat α 1] [NatCast α]

/-- members of a row that are not NaN (`np.nanmean` / `np.nanmedian` skip NaN; `none` = NaN) -/
def present (row : List (Option α)) : List α := row.filterMap id

def insertLE (x : α) : List α → List α
  | [] => [x]
  | y :: ys => if x < y then x :: y :: ys else y :: insertLE x ys

def sortL (l : List α) : List α := l.foldr insertLE []

/-- median of a non-empty list: middle value, or the mean of the two middle values -/
def median (l : List α) : Option α :=
  let p := sortL l
  let n := p.length
  if n % 2 = 1 then p[n / 2]?
  else match p[n / 2 - 1]?, p[n / 2]? with
    | some a, some b => some ((a + b) / (1 + 1))
    | _, _ => none

inductive Stat | mean | median
  deriving DecidableEq, Repr

/-- `np.nanmean(row)` / `np.nanmedian(row)`; a row without any value gives NaN -/
def ensStat (st : Stat) (row : List (Option α)) : Option α :=
  let p := present row
  if p.isEmpty then none else
  match st with
  | .mean => some (mean p)
  | .median => median p

/-- `__check_ensemble_data`: forecasts whose observation is NaN or whose members are all NaN are dropped -/
def checkEns (obs : List (Option α)) (ens : List (List (Option α))) : List (Option α × List (Option α)) :=
  (obs.zip ens).filter fun p => p.1.isSome && !(present p.2).isEmpty

def allSomeL : List (Option α) → Option (List α)
  | [] => some []
  | none :: _ => none
  | some a :: t => (allSomeL t).map (a :: ·)

end ens


/-! ### confusion matrix -/

/-- `pd.crosstab(obs, sim)`: the sorted labels present in each series and the pair counts -/
def count (obs sim : List Int) (i j : Int) : Nat :=
  ((obs.zip sim).filter fun p => p.1 == i && p.2 == j).length

def insertSorted (x : Int) : List Int → List Int
  | [] => [x]
  | y :: ys => if x < y then x :: y :: ys else if x = y then y :: ys else y :: insertSorted x ys

def uniqueSorted (l : List Int) : List Int := l.foldr insertSorted []

/-- number of categories when `ncat` is not given: largest label present + 1 -/
def inferNcat (obs sim : List Int) : Nat :=
  let cats := uniqueSorted (obs ++ sim)
  match cats.getLast? with
  | some m => (m + 1).toNat
  | none => 0

/-- the table returned by `confusion_matrix`: row labels, column labels and cells.
When the crosstab already has shape `(ncat, ncat)` it is returned as it is (labels as found);
otherwise missing labels `0..ncat-1` are added and rows/columns re-ordered to `0..ncat-1`. -/
def confusion (obs sim : List Int) (ncat : Nat) : List Int × List Int × List (List Nat) :=
  let rows := uniqueSorted obs
  let cols := uniqueSorted sim
  let (rows, cols) :=
    if rows.length = ncat ∧ cols.length = ncat then (rows, cols)
    else ((List.range ncat).map Int.ofNat, (List.range ncat).map Int.ofNat)
  (rows, cols, rows.map fun i => cols.map fun j => count obs sim i j)

/-! ### binary scores from a 2x2 table ((TN, FP), (FN, TP)) -/

structure Binary (α : Type) where
  bias : α
  hitrate : α
  precision : α
  falsealarm : α
  accuracy : α
  f1 : α
  mccNum : α          -- TP*TN - FP*FN
  mccDen2 : α         -- (TP+FP)(TP+FN)(TN+FP)(TN+FN); MCC = mccNum / sqrt mccDen2
  theta : α           -- odds ratio H(1-F)/((1-H)F)
  lorDefined : Bool   -- 0 < H < 1 ∧ 0 < F < 1 ; LOR = log theta
  orss : Option α

section binary
variable {α : Type} [Add α] [Sub α] [Mul α] [Div α] [Neg α] [LT α] [DecidableLT α]
  [OfNat α 0] [OfNat α 1] [OfNat α 2]

def binary (tn fp fn tp : α) : Binary α :=
  let pobs := tp + fn
  let nobs := tn + fp
  let psim := tp + fp
  let nsim := tn + fn
  let nval := pobs + nobs
  let h := tp / pobs
  let f := fp / nobs
  let theta := h * (1 - f) / (1 - h) / f
  { bias := psim / pobs
    hitrate := h
    precision := tp / psim
    falsealarm := f
    accuracy := (tp + tn) / nval
    f1 := 2 * tp / (2 * tp + fp + fn)
    mccNum := tp * tn - fp * fn
    mccDen2 := (tp + fp) * (tp + fn) * (tn + fp) * (tn + fn)
    theta := theta
    lorDefined := decide (0 < h) && decide (h < 1) && decide (0 < f) && decide (f < 1)
    orss := if -1 < theta then some ((theta - 1) / (theta + 1)) else none }

end binary

/-! ### whole functions: argument checks, transform, null filter, guards, closed form, error kinds

`obs`, `sim` are the RAW series (`none` = NaN, infinite values stay values of the carrier and are recognised by `fin`),
`f` is `trans.forward` on one value (`none` = NaN result).  `Res` carries the errors the functions raise. -/

inductive Res (α : Type)
  | value (v : α)
  | nan            -- `np.nan` returned (with a warning)
  | errShape       -- ValueError: obs and sim do not have the same length / ens does not have one row per observation
  | errNoValid     -- ValueError: "No valid data" (`__check_ensemble_data`) / "No valid data in transformed space" (`__nonulldata`)
  | errType        -- ValueError: unknown `type`
  | errStat        -- ValueError: unknown `stat`
  deriving Repr, DecidableEq

section pipeline
variable {α : Type} [Add α] [Sub α] [Mul α] [Div α] [Neg α] [LT α] [DecidableLT α]
  [OfNat α 0] [OfNat α 1] [NatCast α] [Transc α]

/-- `trans.forward` on a series: NaN stays NaN -/
def fwdL (f : α → Option α) (l : List (Option α)) : List (Option α) := l.map fun x => x.bind f

/-- `np.isfinite` as a filter on one entry -/
def finOpt (fin : α → Bool) (x : Option α) : Option α := x.bind fun v => if fin v then some v else none

/-- what the closed forms are applied to -/
inductive Prep (α : Type)
  | pairs (o s : List α)      -- two series without NaN
  | noValid                   -- `excludenull` and no complete pair: `__nonulldata` raises
  | nanObs                    -- no `excludenull`, a NaN among the transformed observations
  | nanSim (o : List α)       -- no `excludenull`, observations without NaN, a NaN among the transformed simulations
  deriving Repr

/-- `if excludenull: tobs, tsim = __nonulldata(tobs, tsim)` -/
def prep (fin : α → Bool) (excl : Bool) (tobs tsim : List (Option α)) : Prep α :=
  if excl then
    let r := nonull (tobs.map (finOpt fin)) (tsim.map (finOpt fin))
    if r.1.isEmpty then .noValid else .pairs r.1 r.2
  else match allSomeL tobs, allSomeL tsim with
    | some o, some s => .pairs o s
    | some o, none => .nanSim o
    | none, _ => .nanObs

def Res.ofOpt : Option α → Res α
  | some v => .value v
  | none => .nan

/-- `bias(obs, sim, trans, excludenull, type)`; `ty = none` stands for a `type` string that is not one of the three.
A NaN mean passes the guard (`abs(nan) < EPS` is false), so an unknown type is reported even then. -/
def biasFull (fin : α → Bool) (eps : α) (f : α → Option α) (ty : Option BiasType) (excl : Bool)
    (obs sim : List (Option α)) : Res α :=
  if obs.length ≠ sim.length then .errShape else
  match prep fin excl (fwdL f obs) (fwdL f sim) with
  | .noValid => .errNoValid
  | .nanObs => match ty with
    | none => .errType
    | some _ => .nan
  | .nanSim o =>
    if absG (mean o) < eps then .nan else
    match ty with
    | none => .errType
    | some _ => .nan
  | .pairs o s =>
    if absG (mean o) < eps then .nan else
    match ty with
    | none => .errType
    | some .standard => Res.ofOpt (biasStd eps o s)
    | some .normalised => Res.ofOpt (biasNorm eps o s)
    | some .log => Res.ofOpt (biasLog eps o s)

/-- `nse(obs, sim, trans, excludenull)`: no guard at all, the quotient is formed whatever the observations -/
def nseFull (fin : α → Bool) (f : α → Option α) (excl : Bool) (obs sim : List (Option α)) : Res α :=
  if obs.length ≠ sim.length then .errShape else
  match prep fin excl (fwdL f obs) (fwdL f sim) with
  | .noValid => .errNoValid
  | .nanObs => .nan
  | .nanSim _ => .nan
  | .pairs o s => .value (nse o s)

/-- `kge(obs, sim, trans, excludenull)` -/
def kgeFull (fin : α → Bool) (eps : α) (f : α → Option α) (excl : Bool) (obs sim : List (Option α)) : Res α :=
  if obs.length ≠ sim.length then .errShape else
  match prep fin excl (fwdL f obs) (fwdL f sim) with
  | .noValid => .errNoValid
  | .nanObs => .nan
  | .nanSim _ => .nan
  | .pairs o s => Res.ofOpt (kge eps o s)

inductive CorrResult (α : Type) | value (v : α) | nan | noValidData
  deriving Repr

/-- the last part of `corr`, from the transformed observations and the per-forecast statistic (`none` = NaN): optional null
filter, standard-deviation guard, coefficient.  Without `excludenull` a NaN anywhere makes the result NaN. -/
def corrSeries (fin : α → Bool) (eps : α) (spearman : Bool) (excl : Bool) (tobs tsim : List (Option α)) : CorrResult α :=
  match prep fin excl tobs tsim with
  | .noValid => .noValidData
  | .nanObs => .nan
  | .nanSim _ => .nan
  | .pairs o s =>
    match (if spearman then corrSpearman eps o s else corrPearson eps o s) with
    | some v => .value v
    | none => .nan

/-- a computed value that is NaN (`nanv`, `np.isnan`; e.g. the mean of `+inf` and `-inf`) is a NaN entry like any other -/
def nanOpt (nanv : α → Bool) (x : Option α) : Option α := x.bind fun v => if nanv v then none else some v

/-- `corr(obs, ens, trans, excludenull, stat, type)` from the transformed data on (`tobs`, `tens` with `none` = NaN;
`fin` = `np.isfinite`, `nanv` = `np.isnan`): statistic per forecast, then `corrSeries` -/
def corrFull (fin nanv : α → Bool) (eps : α) (spearman : Bool) (st : Stat) (excl : Bool)
    (tobs : List (Option α)) (tens : List (List (Option α))) : CorrResult α :=
  corrSeries fin eps spearman excl tobs (tens.map fun row => nanOpt nanv (ensStat st row))

inductive CorrType | pearson | spearman | censored
  deriving DecidableEq, Repr

/-- `ens = np.atleast_2d(ens); if ens.shape[0] == 1: ens = ens.T`: a single row (a 1d series) becomes a column
of one-member forecasts; anything else is left as it is, square ensembles included -/
def orient (ens : List (List (Option α))) : List (List (Option α)) :=
  match ens with
  | [row] => row.map fun x => [x]
  | _ => ens

/-- `corr(obs, ens, trans, excludenull, stat, type)` from the raw arguments: orientation, `__check_ensemble_data`
(one row per observation, forecasts without observation or without member dropped, at least one left), the
`stat` / `type` checks in the order of the code, transform, then `corrFull`.  `type="censored"` is accepted by the
check and takes the `else` branch of the last test, i.e. it is computed like Spearman. -/
def corrRaw (fin nanv : α → Bool) (eps : α) (f : α → Option α) (ct : Option CorrType) (st : Option Stat) (excl : Bool)
    (obs : List (Option α)) (ens : List (List (Option α))) : Res α :=
  let ens := orient ens
  if ens.length ≠ obs.length then .errShape else
  let kept := checkEns obs ens
  if kept.isEmpty then .errNoValid else
  match st with
  | none => .errStat
  | some st =>
  match ct with
  | none => .errType
  | some ct =>
    match corrFull fin nanv eps (ct != .pearson) st excl (fwdL f (kept.map fun p => p.1)) (kept.map fun p => fwdL f p.2) with
    | .value v => .value v
    | .nan => .nan
    | .noValidData => .errNoValid

end pipeline

/-! ### binary scores: the function with its error paths, and the route series → table → scores -/

inductive BinRes (α : Type)
  | ok (b : Binary α)
  | errShape        -- not a 2x2 table
  | errZeroDiv      -- ZeroDivisionError

section binaryFull
variable {α : Type} [Add α] [Sub α] [Mul α] [Div α] [Neg α] [LT α] [DecidableLT α]
  [OfNat α 0] [OfNat α 1] [OfNat α 2]

/-- `x == 0` for a number that is not NaN -/
def isZero (x : α) : Bool := !decide (x < 0) && !decide (0 < x)

/-- `binary(conf_mat)`: Python raises `ZeroDivisionError` for a zero divisor, int or float, in the order
`TP/Pobs`, `FP/Nobs`, `…/(1-H)`, `…/F`, `…/sqrt(…)` -/
def binaryOf (t : List (List α)) : BinRes α :=
  match t with
  | [[tn, fp], [fn, tp]] =>
    let b := binary tn fp fn tp
    if isZero (tp + fn) then .errZeroDiv else
    if isZero (tn + fp) then .errZeroDiv else
    if isZero (1 - b.hitrate) then .errZeroDiv else
    if isZero b.falsealarm then .errZeroDiv else
    if isZero b.mccDen2 then .errZeroDiv else
    .ok b
  | _ => .errShape

end binaryFull

section binarySeries
variable {α : Type} [Add α] [Sub α] [Mul α] [Div α] [Neg α] [LT α] [DecidableLT α]
  [OfNat α 0] [OfNat α 1] [OfNat α 2] [NatCast α]

/-- `binary(confusion_matrix(obs, sim, 2))` for two series of 0/1 categories -/
def binarySeries (obs sim : List Int) : BinRes α :=
  binaryOf ((confusion obs sim 2).2.2.map fun r => r.map fun (c : Nat) => (c : α))

end binarySeries

/-! ### histories: tables held by the caller while other tables are computed or edited

The functions have no state: a returned table is a value.  `hrun` is the reference for the history stream of the
harness (operations: score another pair of series; the caller overwrites a cell / all cells of a table it holds). -/

abbrev Table := List Int × List Int × List (List Nat)

inductive HOp
  | score (obs sim : List Int) (ncat : Option Nat)
  | setCell (k i j v : Nat)
  | fill (k v : Nat)
  deriving Repr

def modifyAt {β : Type} (l : List β) (k : Nat) (g : β → β) : List β :=
  match l, k with
  | [], _ => []
  | x :: xs, 0 => g x :: xs
  | x :: xs, k + 1 => x :: modifyAt xs k g

def hstep (held : List Table) : HOp → List Table
  | .score obs sim ncat => held ++ [confusion obs sim (match ncat with | some n => n | none => inferNcat obs sim)]
  | .setCell k i j v => modifyAt held k fun t => (t.1, t.2.1, modifyAt t.2.2 i fun r => modifyAt r j fun _ => v)
  | .fill k v => modifyAt held k fun t => (t.1, t.2.1, t.2.2.map fun r => r.map fun _ => v)

def hrun (ops : List HOp) : List Table := ops.foldl hstep []

/-- the held table an operation writes to (`none`: a new table is computed, nothing held is written to) -/
def HOp.target : HOp → Option Nat
  | .score _ _ _ => none
  | .setCell k _ _ _ => some k
  | .fill k _ => some k

/-- indices of the held tables that no operation of the history writes to -/
def untouched (ops : List HOp) : List Nat :=
  (List.range (hrun ops).length).filter fun k => ops.all fun op => op.target != some k

/-! ### "the series with incomplete pairs removed" (what `excludenull` is compared with) -/

section removed
variable {α : Type}

/-- both transformed values exist and are finite -/
def completeB (fin : α → Bool) (f : α → Option α) (a b : Option α) : Bool :=
  (finOpt fin (a.bind f)).isSome && (finOpt fin (b.bind f)).isSome

/-- the raw series without the pairs that are incomplete after the transform -/
def removedRaw (fin : α → Bool) (f : α → Option α) (obs sim : List (Option α)) : List (Option α) × List (Option α) :=
  ((obs.zip sim).filter fun p => completeB fin f p.1 p.2).unzip

end removed

/-! ### the same formulas with a rounding after every operation

`Rnd α r` carries values of `α`; every `+ - * /`, every cast of a natural number and every transcendental function is followed
by the rounding operator `r`; comparisons, negation and the literals 0, 1, 2 are exact.  With `α = Float` and
`r` = rounding to single precision this is float32 arithmetic (run by the driver); with `α` an ordered field and `r`
any monotone, odd operator fixing 0 and 1 it is the carrier of the `_rnd` theorems, which therefore hold for IEEE
arithmetic in every precision as long as nothing overflows. -/

structure Rnd (α : Type) (r : α → α) where
  val : α

namespace Rnd
variable {α : Type} {r : α → α}
instance [Add α] : Add (Rnd α r) := ⟨fun a b => ⟨r (a.val + b.val)⟩⟩
instance [Sub α] : Sub (Rnd α r) := ⟨fun a b => ⟨r (a.val - b.val)⟩⟩
instance [Mul α] : Mul (Rnd α r) := ⟨fun a b => ⟨r (a.val * b.val)⟩⟩
instance [Div α] : Div (Rnd α r) := ⟨fun a b => ⟨r (a.val / b.val)⟩⟩
instance [Neg α] : Neg (Rnd α r) := ⟨fun a => ⟨-a.val⟩⟩
instance [LT α] : LT (Rnd α r) := ⟨fun a b => a.val < b.val⟩
instance [LT α] [DecidableLT α] : DecidableLT (Rnd α r) := fun a b => inferInstanceAs (Decidable (a.val < b.val))
instance [OfNat α 0] : OfNat (Rnd α r) 0 := ⟨⟨0⟩⟩
instance [OfNat α 1] : OfNat (Rnd α r) 1 := ⟨⟨1⟩⟩
instance [OfNat α 2] : OfNat (Rnd α r) 2 := ⟨⟨2⟩⟩
instance [NatCast α] : NatCast (Rnd α r) := ⟨fun n => ⟨r (n : α)⟩⟩
instance [Transc α] : Transc (Rnd α r) where
  exp a := ⟨r (Transc.exp a.val)⟩
  log a := ⟨r (Transc.log a.val)⟩
  sqrt a := ⟨r (Transc.sqrt a.val)⟩
  sinh a := ⟨r (Transc.sinh a.val)⟩
  cosh a := ⟨r (Transc.cosh a.val)⟩
  tanh a := ⟨r (Transc.tanh a.val)⟩
  asinh a := ⟨r (Transc.asinh a.val)⟩
  pow a b := ⟨r (Transc.pow a.val b.val)⟩
end Rnd

end HydroVerif.C04
