/-
C04 — model of the deterministic and categorical scores of `hydrodiy.stat.metrics`:
`bias`, `nse`, `kge`, `corr` (Pearson, mean/median statistic), `__nonulldata`,
`confusion_matrix` (padding / re-ordering around `pd.crosstab`) and `binary`.

Generic over the numeric type: `Float` (driver), `Rat` (exact, where no root/log is needed)
and any ordered field / ℝ (theorems). `none` stands for NaN results (the code returns `np.nan`
with a warning) and for missing data (`pd.notnull` false).  No Mathlib.
-/
import HydroVerif.Num
namespace HydroVerif.C04

section numeric
variable {α : Type} [Add α] [Sub α] [Mul α] [Div α] [Neg α] [LT α] [DecidableLT α]
  [OfNat α 0] [OfNat α 1] [NatCast α]

def sumL : List α → α
  | [] => 0
  | x :: xs => x + sumL xs

def absG (x : α) : α := if x < 0 then -x else x

def mean (l : List α) : α := sumL l / (l.length : α)

/-- sum of squared deviations from `c` -/
def ssd (c : α) (l : List α) : α := sumL (l.map fun x => (c - x) * (c - x))

/-- sum of cross deviations -/
def scd (cx cy : α) : List α → List α → α
  | x :: xs, y :: ys => (x - cx) * (y - cy) + scd cx cy xs ys
  | _, _ => 0

/-- sum of squared errors `Σ (s - o)²` over paired entries -/
def sse : List α → List α → α
  | o :: os, s :: ss => (s - o) * (s - o) + sse os ss
  | _, _ => 0

/-- `__nonulldata`: keep the pairs in which both entries are present -/
def nonull : List (Option α) → List (Option α) → List α × List α
  | some o :: os, some s :: ss => let r := nonull os ss; (o :: r.1, s :: r.2)
  | _ :: os, _ :: ss => nonull os ss
  | _, _ => ([], [])

inductive BiasType | standard | normalised | log
  deriving DecidableEq, Repr

/-- `bias` for types standard / normalised (after transform and optional null filtering) -/
def biasStd (eps : α) (o s : List α) : Option α :=
  let mo := mean o
  if absG mo < eps then none else some ((mean s - mo) / mo)

def biasNorm (eps : α) (o s : List α) : Option α :=
  let mo := mean o
  if absG mo < eps then none else
  let ms := mean s
  some ((ms - mo) / (ms + mo))

/-- `nse = 1 - Σ(s-o)² / Σ(mean o - o)²` -/
def nse (o s : List α) : α := 1 - sse o s / ssd (mean o) o

end numeric

section transc
variable {α : Type} [Add α] [Sub α] [Mul α] [Div α] [Neg α] [LT α] [DecidableLT α]
  [OfNat α 0] [OfNat α 1] [NatCast α] [Transc α]

def biasLog (eps : α) (o s : List α) : Option α :=
  let mo := mean o
  if absG mo < eps then none else
  let ms := mean s
  if eps < ms ∧ eps < mo then some (Transc.log ms - Transc.log mo) else none

/-- `np.std` (population standard deviation) -/
def std (l : List α) : α := Transc.sqrt (ssd (mean l) l / (l.length : α))

def clip1 (x : α) : α := if x < -1 then -1 else if 1 < x then 1 else x

/-- `np.corrcoef(x, y)[0, 1]`: covariance divided by each root-variance in turn, clipped to [-1, 1]
(the common `1/(n-1)` factor is kept, as numpy does) -/
def pearson (x y : List α) : α :=
  let n1 : α := ((x.length - 1 : Nat) : α)
  let mx := mean x
  let my := mean y
  clip1 (scd mx my x y / n1 / Transc.sqrt (ssd mx x / n1) / Transc.sqrt (ssd my y / n1))

/-- `kge` with its three guards, in the order of the code -/
def kge (eps : α) (o s : List α) : Option α :=
  let mo := mean o
  if absG mo < eps then none else
  let ms := mean s
  let so := std o
  let ss := std s
  if absG so < eps then none else
  if eps < absG ss then
    let r := pearson o s
    let a := 1 - ms / mo
    let b := 1 - ss / so
    let c := 1 - r
    some (1 - Transc.sqrt (a * a + b * b + c * c))
  else none

/-- `corr(type="Pearson")` after the ensemble statistic has been applied -/
def corrPearson (eps : α) (o s : List α) : Option α :=
  if absG (std o) < eps then none else some (pearson o s)

/-- average (mid) rank, 1-based, of `x` within `l` (scipy `rankdata`, method "average"):
number of smaller values + (number of tied values + 1)/2 -/
def avgRank (l : List α) (x : α) : α :=
  ((l.filter fun y => decide (y < x)).length : α)
    + (((l.filter fun y => !decide (y < x) && !decide (x < y)).length : α) + 1) / (1 + 1)

def ranks (l : List α) : List α := l.map (avgRank l)

/-- `corr(type="Spearman")`: Pearson correlation of the mid-ranks (`scipy.stats.spearmanr`) -/
def corrSpearman (eps : α) (o s : List α) : Option α :=
  if absG (std o) < eps then none else some (pearson (ranks o) (ranks s))

end transc


/-! ### the ensemble statistic and the whole `corr` pipeline (glue around the correlation) -/

section ens
variable {α : Type} [Add α] [Sub α] [Mul α] [Div α] [Neg α] [LT α] [DecidableLT α]
  [OfNat α 0] [OfNat α 1] [NatCast α]

/-- members of a row that are not NaN (`np.nanmean` / `np.nanmedian` skip NaN; `none` = NaN) -/
def present (row : List (Option α)) : List α := row.filterMap id

def insertLE (x : α) : List α → List α
  | [] => [x]
  | y :: ys => if x < y then x :: y :: ys else y :: insertLE x ys

def sortL (l : List α) : List α := l.foldr insertLE []

/-- median of a non-empty list: middle value, or the mean of the two middle values -/
def median (l : List α) : Option α :=
  let p := sortL l
  let n := p.length
  if n % 2 = 1 then p[n / 2]?
  else match p[n / 2 - 1]?, p[n / 2]? with
    | some a, some b => some ((a + b) / (1 + 1))
    | _, _ => none

inductive Stat | mean | median
  deriving DecidableEq, Repr

/-- `np.nanmean(row)` / `np.nanmedian(row)`; a row without any value gives NaN -/
def ensStat (st : Stat) (row : List (Option α)) : Option α :=
  let p := present row
  if p.isEmpty then none else
  match st with
  | .mean => some (mean p)
  | .median => median p

/-- `__check_ensemble_data`: forecasts whose observation is NaN or whose members are all NaN are dropped -/
def checkEns (obs : List (Option α)) (ens : List (List (Option α))) : List (Option α × List (Option α)) :=
  (obs.zip ens).filter fun p => p.1.isSome && !(present p.2).isEmpty

def allSomeL : List (Option α) → Option (List α)
  | [] => some []
  | none :: _ => none
  | some a :: t => (allSomeL t).map (a :: ·)

end ens

section corrfull
variable {α : Type} [Add α] [Sub α] [Mul α] [Div α] [Neg α] [LT α] [DecidableLT α]
  [OfNat α 0] [OfNat α 1] [NatCast α] [Transc α]

inductive CorrResult (α : Type) | value (v : α) | nan | noValidData
  deriving Repr

/-- `corr(obs, ens, trans, excludenull, stat, type)` from the transformed data on (`tobs`, `tens` with `none` = NaN;
`fin` = `np.isfinite`): statistic per forecast, optional null filter, standard-deviation guard, coefficient.
Without `excludenull` a NaN anywhere makes the result NaN. -/
def corrFull (fin : α → Bool) (eps : α) (spearman : Bool) (st : Stat) (excl : Bool)
    (tobs : List (Option α)) (tens : List (List (Option α))) : CorrResult α :=
  let tsim := tens.map (ensStat st)
  let fo (x : Option α) : Option α := x.bind fun v => if fin v then some v else none
  let pair : Option (List α × List α) :=
    if excl then some (nonull (tobs.map fo) (tsim.map fo))
    else match allSomeL tobs, allSomeL tsim with
      | some o, some s => some (o, s)
      | _, _ => none
  match pair with
  | none => .nan
  | some (o, s) =>
    if excl && o.isEmpty then .noValidData else
    match (if spearman then corrSpearman eps o s else corrPearson eps o s) with
    | some v => .value v
    | none => .nan

end corrfull

/-! ### confusion matrix -/

/-- `pd.crosstab(obs, sim)`: the sorted labels present in each series and the pair counts -/
def count (obs sim : List Int) (i j : Int) : Nat :=
  ((obs.zip sim).filter fun p => p.1 == i && p.2 == j).length

def insertSorted (x : Int) : List Int → List Int
  | [] => [x]
  | y :: ys => if x < y then x :: y :: ys else if x = y then y :: ys else y :: insertSorted x ys

def uniqueSorted (l : List Int) : List Int := l.foldr insertSorted []

/-- number of categories when `ncat` is not given: largest label present + 1 -/
def inferNcat (obs sim : List Int) : Nat :=
  let cats := uniqueSorted (obs ++ sim)
  match cats.getLast? with
  | some m => (m + 1).toNat
  | none => 0

/-- the table returned by `confusion_matrix`: row labels, column labels and cells.
When the crosstab already has shape `(ncat, ncat)` it is returned as it is (labels as found);
otherwise missing labels `0..ncat-1` are added and rows/columns re-ordered to `0..ncat-1`. -/
def confusion (obs sim : List Int) (ncat : Nat) : List Int × List Int × List (List Nat) :=
  let rows := uniqueSorted obs
  let cols := uniqueSorted sim
  let (rows, cols) :=
    if rows.length = ncat ∧ cols.length = ncat then (rows, cols)
    else ((List.range ncat).map Int.ofNat, (List.range ncat).map Int.ofNat)
  (rows, cols, rows.map fun i => cols.map fun j => count obs sim i j)

/-! ### binary scores from a 2x2 table ((TN, FP), (FN, TP)) -/

structure Binary (α : Type) where
  bias : α
  hitrate : α
  precision : α
  falsealarm : α
  accuracy : α
  f1 : α
  mccNum : α          -- TP*TN - FP*FN
  mccDen2 : α         -- (TP+FP)(TP+FN)(TN+FP)(TN+FN); MCC = mccNum / sqrt mccDen2
  theta : α           -- odds ratio H(1-F)/((1-H)F)
  lorDefined : Bool   -- 0 < H < 1 ∧ 0 < F < 1 ; LOR = log theta
  orss : Option α

section binary
variable {α : Type} [Add α] [Sub α] [Mul α] [Div α] [Neg α] [LT α] [DecidableLT α]
  [OfNat α 0] [OfNat α 1] [OfNat α 2]

def binary (tn fp fn tp : α) : Binary α :=
  let pobs := tp + fn
  let nobs := tn + fp
  let psim := tp + fp
  let nsim := tn + fn
  let nval := pobs + nobs
  let h := tp / pobs
  let f := fp / nobs
  let theta := h * (1 - f) / (1 - h) / f
  { bias := psim / pobs
    hitrate := h
    precision := tp / psim
    falsealarm := f
    accuracy := (tp + tn) / nval
    f1 := 2 * tp / (2 * tp + fp + fn)
    mccNum := tp * tn - fp * fn
    mccDen2 := (tp + fp) * (tp + fn) * (tn + fp) * (tn + fn)
    theta := theta
    lorDefined := decide (0 < h) && decide (h < 1) && decide (0 < f) && decide (f < 1)
    orss := if -1 < theta then some ((theta - 1) / (theta + 1)) else none }

end binary

end HydroVerif.C04
