/-
C19 — model of `hydrodiy.io.hyruns`: `get_batch` (numpy `array_split` arithmetic),
`SiteBatch.search`, `OptionManager.from_cartesian_product / find / to_dict / from_dict / __eq__`.
No Mathlib. Everything is total and computable; the driver runs these definitions.
-/
namespace HydroVerif.C19

/-! ### get_batch -/

inductive Err | nelemLt1 | nelemLtNbatch | ibatchRange
  deriving DecidableEq, Repr

/-- size of batch `i` under `np.array_split(np.arange(n), k)`: the first `n % k` batches get one more -/
def bsize (n k i : Nat) : Nat := n / k + (if i < n % k then 1 else 0)
/-- first element of batch `i` -/
def bstart (n k i : Nat) : Nat := i * (n / k) + min i (n % k)

def batch (n k i : Nat) : List Nat := (List.range (bsize n k i)).map (bstart n k i + ·)

/-- `get_batch(nelements, nbatch, ibatch)` with its three guards, in the order the code tests them -/
def getBatch (n k i : Int) : Except Err (List Nat) :=
  if n < 1 then .error .nelemLt1
  else if n < k then .error .nelemLtNbatch
  else if i < 0 ∨ i ≥ k then .error .ibatchRange
  else .ok (batch n.toNat k.toNat i.toNat)

/-- `SiteBatch.search`: first batch (scanning 0..nbatch-1) containing the site position, `none` otherwise.
Site ids are unique, so a site is identified with its position `s` in the id list. -/
def search (n k s : Nat) : Option Nat :=
  (List.range k).find? fun i => (batch n k i).contains s

/-! ### option manager -/

/-- option values: integers and identifier-like strings are all the property quantifies over;
both are compared through their string form by `find`. -/
abbrev Val := String

abbrev Dict := List (String × Val)

/-- python dict equality on association lists with unique keys: same keys, same values, any order -/
def dictSub (a b : Dict) : Bool := a.all fun kv => b.lookup kv.1 == some kv.2
def dictEq (a b : Dict) : Bool := a.length == b.length && dictSub a b

/-- `itertools.product` order: last list varies fastest -/
def product : List (List Val) → List (List Val)
  | [] => [[]]
  | vs :: rest => vs.flatMap fun v => (product rest).map (v :: ·)

structure Manager where
  name : String
  context : Dict
  options : List (String × List Val)
  tasks : List Dict
  deriving Repr, DecidableEq

def fromCartesian (name : String) (context : Dict) (opts : List (String × List Val)) : Manager :=
  { name, context, options := opts,
    tasks := (product (opts.map (·.2))).map fun t => (opts.map (·.1)).zip t }

/-- an option as the caller gives it: a bare scalar (string, int, float) stands for the one-value list
(`from_cartesian_product` wraps `str`/`int`/`float` and iterates over anything else) -/
inductive OptArg
  | bare (v : Val)
  | many (vs : List Val)
  deriving Repr

def OptArg.toList : OptArg → List Val
  | .bare v => [v]
  | .many vs => vs

def fromCartesianArgs (name : String) (context : Dict) (opts : List (String × OptArg)) : Manager :=
  fromCartesian name context (opts.map fun kv => (kv.1, kv.2.toList))

/-- `find(key=val)`: indices of the tasks whose option `key` has exactly that value
(anchored literal pattern = string equality for identifier-like / integer values) -/
def find (m : Manager) (key : String) (val : Val) : Option (List Nat) :=
  if (m.options.lookup key).isNone then none
  else some <| (List.range m.tasks.length).filter fun i =>
    match m.tasks[i]? with
    | some t => t.lookup key == some val
    | none => false

/-! ### dictionary export / import with configurable key names -/

structure KeyNames where
  context : String
  taskOptions : String
  managerOptions : String
  deriving Repr

inductive J
  | str (s : String) | num (n : Nat) | dict (d : Dict) | odict (d : List (String × List Val))
  | tasks (ts : List (List (String × J)))
  deriving Repr

def taskToDict (kn : KeyNames) (id : Nat) (ctx : Dict) (opts : Dict) : List (String × J) :=
  [("taskid", .num id), (kn.context, .dict ctx), (kn.taskOptions, .dict opts)]

/-- python `{k1: v1, k2: v2, ...}` literal: a later duplicate key overwrites the value of the earlier one -/
def pyDict (kvs : List (String × J)) : List (String × J) :=
  kvs.foldl (fun acc kv =>
    if acc.any (·.1 == kv.1) then acc.map (fun e => if e.1 == kv.1 then (e.1, kv.2) else e)
    else acc ++ [kv]) []

def toDict (kn : KeyNames) (m : Manager) : List (String × J) :=
  pyDict [("name", .str m.name), (kn.context, .dict m.context), (kn.managerOptions, .odict m.options),
    ("tasks", .tasks ((List.range m.tasks.length).map fun i =>
        pyDict (taskToDict kn i m.context (m.tasks[i]?.getD []))))]

def jlookup (d : List (String × J)) (k : String) : Option J := d.lookup k

def taskFromDict (kn : KeyNames) (d : List (String × J)) : Option Dict :=
  match jlookup d "taskid", jlookup d kn.context, jlookup d kn.taskOptions with
  | some _, some _, some (.dict o) => some o
  | _, _, _ => none

def allSome {α} : List (Option α) → Option (List α)
  | [] => some []
  | none :: _ => none
  | some a :: t => (allSome t).map (a :: ·)

def fromDict (kn : KeyNames) (d : List (String × J)) : Option Manager :=
  let name := match jlookup d "name" with | some (.str s) => s | _ => "Task Manager"
  let ctx := match jlookup d kn.context with | some (.dict c) => some c | none => some [] | _ => none
  let opts := match jlookup d kn.managerOptions with | some (.odict o) => some o | none => some [] | _ => none
  let tasks := match jlookup d "tasks" with
    | some (.tasks ts) => allSome (ts.map (taskFromDict kn))
    | none => some []
    | _ => none
  match ctx, opts, tasks with
  | some c, some o, some t => some { name, context := c, options := o, tasks := t }
  | _, _, _ => none

/-- `OptionManager.__eq__` as written: keys of `self` are looked up in `other` (one direction),
then the number of tasks, then task dictionaries pairwise -/
def mEq (a b : Manager) : Bool :=
  dictSub a.context b.context
  && (a.options.all fun kv => b.options.lookup kv.1 == some kv.2)
  && (a.tasks.length == b.tasks.length)
  && ((a.tasks.zip b.tasks).all fun p => dictEq p.1 p.2)

end HydroVerif.C19
