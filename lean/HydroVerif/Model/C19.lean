/-
C19 — model of `hydrodiy.io.hyruns`, mirrored branch for branch:

* `get_batch` with its three guards and numpy's `array_split` arithmetic (divmod, section sizes, cumsum, slices),
* `SiteBatch.__init__ / __getitem__ / search` on the site ids themselves (uniqueness guard, gather, scan),
* `OptionManager.__init__ / from_cartesian_product / get_task / search,find / to_dict / from_dict / __eq__ / save /
  from_file`, `OptionTask.to_dict / from_dict / __getitem__`, the module-level key names
  (`set_dict_keyname`, `reset_dict_keyname`),
* a state machine (`World`, `Op`, `step`, `run`) over every public mutator / accessor the harness drives, rejected
  operations included.

No Mathlib. Everything is total and computable; the driver runs these definitions.
-/
namespace HydroVerif.C19

/-! ### get_batch -/

/-- `numpy` is the ValueError of `array_split` for 0 sections: never reached behind the guards (`getBatch_never_numpy`) -/
inductive Err | nelemLt1 | nelemLtNbatch | ibatchRange | numpy | indexError
  deriving DecidableEq, Repr

/-- size of batch `i` under `np.array_split(np.arange(n), k)`: the first `n % k` batches get one more -/
def bsize (n k i : Nat) : Nat := n / k + (if i < n % k then 1 else 0)
/-- first element of batch `i` -/
def bstart (n k i : Nat) : Nat := i * (n / k) + min i (n % k)

/-- closed form of batch `i` (what the theorems are stated about; `getBatch` itself runs numpy's arithmetic below) -/
def batch (n k i : Nat) : List Nat := (List.range (bsize n k i)).map (bstart n k i + ·)

/-! numpy `array_split(ary, Nsections)` for an integer number of sections:
```
Neach_section, extras = divmod(Ntotal, Nsections)
section_sizes = [0] + extras * [Neach_section+1] + (Nsections-extras) * [Neach_section]
div_points = array(section_sizes).cumsum()
sub_arys = [ary[div_points[i]:div_points[i + 1]] for i in range(Nsections)]
``` -/

def sectionSizes (n k : Nat) : List Nat :=
  List.replicate (n % k) (n / k + 1) ++ List.replicate (k - n % k) (n / k)

/-- running sums of `[acc] ++ l` : `cumsum 0 [a, b] = [0, a, a+b]` -/
def cumsum (acc : Nat) : List Nat → List Nat
  | [] => [acc]
  | a :: t => acc :: cumsum (acc + a) t

def divPoints (n k : Nat) : List Nat := cumsum 0 (sectionSizes n k)

/-- `ary[st:en]` -/
def slice {α : Type} (l : List α) (st en : Nat) : List α := (l.drop st).take (en - st)

/-- sub-array `i` of `array_split(l, k)`; `none` where numpy raises (0 sections) or python indexing fails (`i ≥ k`) -/
def arraySplitAt {α : Type} (l : List α) (k i : Nat) : Option (List α) :=
  if k = 0 then none
  else if i ≥ k then none
  else
    let dp := divPoints l.length k
    match dp[i]?, dp[i+1]? with
    | some st, some en => some (slice l st en)
    | _, _ => none

/-- the whole `array_split(l, k)` -/
def arraySplit {α : Type} (l : List α) (k : Nat) : List (Option (List α)) :=
  (List.range k).map (arraySplitAt l k)

/-- `get_batch(nelements, nbatch, ibatch)` with its three guards, in the order the code tests them -/
def getBatch (n k i : Int) : Except Err (List Nat) :=
  if n < 1 then .error .nelemLt1
  else if n < k then .error .nelemLtNbatch
  else if i < 0 ∨ i ≥ k then .error .ibatchRange
  else match arraySplitAt (List.range n.toNat) k.toNat i.toNat with
    | some b => .ok b
    | none => .error .numpy

/-- `SiteBatch.search` by position: first batch (scanning 0..nbatch-1) containing the site position, `none` otherwise.
The specification the id-based `SiteBatch.search` below is proved to refine. -/
def search (n k s : Nat) : Option Nat :=
  (List.range k).find? fun i => (batch n k i).contains s

/-! ### SiteBatch on the site ids -/

def allSome {α} : List (Option α) → Option (List α)
  | [] => some []
  | none :: _ => none
  | some a :: t => (allSome t).map (a :: ·)

structure SiteBatch (α : Type) where
  ids : List α
  nbatch : Int
  deriving Repr, DecidableEq

/-- `len(np.unique(l))` -/
def nunique {α : Type} [DecidableEq α] : List α → Nat
  | [] => 0
  | a :: t => if a ∈ t then nunique t else nunique t + 1

/-- `SiteBatch(siteids, nbatch)`: `assert len(np.unique(siteids)) == nsites`; `nbatch` is not validated here -/
def SiteBatch.mk? {α : Type} [DecidableEq α] (ids : List α) (k : Int) : Option (SiteBatch α) :=
  if nunique ids = ids.length then some ⟨ids, k⟩ else none

/-- `siteids[isites]` (numpy fancy indexing; an index out of range raises) -/
def gather {α : Type} (ids : List α) (idx : List Nat) : Option (List α) :=
  allSome (idx.map (ids[·]?))

/-- `sb[ibatch]` -/
def SiteBatch.getItem {α : Type} (sb : SiteBatch α) (i : Int) : Except Err (List α) :=
  match getBatch (sb.ids.length : Int) sb.nbatch i with
  | .error e => .error e
  | .ok idx => match gather sb.ids idx with
    | some l => .ok l
    | none => .error .indexError

/-- the scan of `search`: `for ibatch in range(nbatch): s = self[ibatch]; if siteid in s: return ibatch` -/
def SiteBatch.searchLoop {α : Type} [BEq α] (sb : SiteBatch α) (id : α) : List Nat → Except Err (Option Nat)
  | [] => .ok none
  | i :: rest =>
    match sb.getItem (i : Int) with
    | .error e => .error e
    | .ok s => if s.contains id then .ok (some i) else searchLoop sb id rest

def SiteBatch.search {α : Type} [BEq α] (sb : SiteBatch α) (id : α) : Except Err (Option Nat) :=
  sb.searchLoop id (List.range sb.nbatch.toNat)

/-! ### option values -/

/-- option / context values. `int` and `str` (identifier-like) are what the property quantifies over; `flt` is a float
given bare, carried as its python `repr`; `other` is an opaque context value (`None`, `False`, `[]`, ...). -/
inductive Val
  | int (i : Int)
  | str (s : String)
  | flt (repr : String)
  | other (repr : String)
  deriving DecidableEq, Repr

/-- python `str(v)` -/
def Val.toStr : Val → String
  | .int i => toString i
  | .str s => s
  | .flt r => r
  | .other r => r

abbrev Dict := List (String × Val)

/-- python dict equality on association lists with unique keys: same keys, same values, any order -/
def dictSub (a b : Dict) : Bool := a.all fun kv => b.lookup kv.1 == some kv.2
def dictEq (a b : Dict) : Bool := a.length == b.length && dictSub a b

/-- python `d[k] = v`: an existing key keeps its place and takes the new value, a new key goes last -/
def dictSet {β : Type} (d : List (String × β)) (k : String) (v : β) : List (String × β) :=
  if d.any (·.1 == k) then d.map (fun e => if e.1 == k then (e.1, v) else e) else d ++ [(k, v)]

/-- python `{k1: v1, k2: v2, ...}` / `**kwargs` collected into a dict: keys come out unique -/
def dictOf {β : Type} (kvs : List (String × β)) : List (String × β) :=
  kvs.foldl (fun acc kv => dictSet acc kv.1 kv.2) []

/-! ### `search` / `find`: the comparison of two values -/

/-- `re.sub("\\[|\\]", "", s)` -/
def reStrip (s : String) : String :=
  String.ofList (s.toList.filter fun c => !(c == '[' || c == ']'))

/-- `re.search("^" + p + "$", s)` for patterns over letters, digits, `_`, `-` and `.`: every character stands for
itself except `.`, which matches any one character -/
def matchLit : List Char → List Char → Bool
  | [], [] => true
  | p :: ps, c :: cs => (p == '.' || p == c) && matchLit ps cs
  | _, _ => false

/-- `find(key=v)` against a task value `tv`: both go through `str` and lose their brackets -/
def valMatch (v tv : Val) : Bool :=
  matchLit (reStrip v.toStr).toList (reStrip tv.toStr).toList

/-- a value whose string form has no `.`, `[`, `]`: integers and identifier-like strings -/
def Val.plain (v : Val) : Bool :=
  v.toStr.toList.all fun c => !(c == '.' || c == '[' || c == ']')

/-- the option values the property quantifies over: integers, and identifier-like strings (at least one letter, no
`.`/`[`/`]`; such a string never reads as an integer) -/
def Val.quant : Val → Bool
  | .int _ => true
  | .str s => s.toList.any Char.isAlpha && (Val.str s).plain
  | _ => false

/-! ### option manager -/

/-- `itertools.product` order: last list varies fastest -/
def product : List (List Val) → List (List Val)
  | [] => [[]]
  | vs :: rest => vs.flatMap fun v => (product rest).map (v :: ·)

structure Manager where
  name : String
  context : Dict
  options : List (String × List Val)
  tasks : List Dict
  deriving Repr, DecidableEq

/-- `OptionManager(name, **kwargs)` -/
def Manager.new (name : String) (ctx : Dict) : Manager :=
  { name, context := dictOf ctx, options := [], tasks := [] }

/-- the task list of an option dictionary: `{k: tt for k, tt in zip(keys, t)}` for `t` in the product -/
def tasksOf (opts : List (String × List Val)) : List Dict :=
  (product (opts.map (·.2))).map fun t => (opts.map (·.1)).zip t

def fromCartesian (name : String) (context : Dict) (opts : List (String × List Val)) : Manager :=
  { name, context, options := opts, tasks := tasksOf opts }

/-- an option as the caller gives it: a bare scalar (string, int, float) stands for the one-value list, any iterable is
listed (`list(v)`), anything else is a `TypeError` -/
inductive OptArg
  | bare (v : Val)
  | many (vs : List Val)
  | notIterable
  deriving Repr, DecidableEq

def OptArg.toList? : OptArg → Option (List Val)
  | .bare v => some [v]
  | .many vs => some vs
  | .notIterable => none

/-- the loop over `kwargs.items()`: `self.options[str(k)] = v2`, stopping at the first value that is neither a scalar
nor iterable. Returns the options filled so far and whether the loop completed. -/
def fillOptions : List (String × OptArg) → List (String × List Val) → List (String × List Val) × Bool
  | [], acc => (acc, true)
  | (k, a) :: rest, acc =>
    match a.toList? with
    | some vs => fillOptions rest (dictSet acc k vs)
    | none => (acc, false)

/-- `opm.from_cartesian_product(**kwargs)`. `self.options = {}` comes first and the tasks are rebuilt last: when the
loop raises, the options are partly rebuilt and the OLD tasks stay. -/
def Manager.cartesian (m : Manager) (args : List (String × OptArg)) : Manager × Bool :=
  match fillOptions args [] with
  | (opts, true) => ({ m with options := opts, tasks := tasksOf opts }, true)
  | (opts, false) => ({ m with options := opts }, false)

def fromCartesianArgs (name : String) (context : Dict) (args : List (String × OptArg)) : Manager :=
  ((Manager.new name context).cartesian args).1

structure Task where
  taskid : Nat
  context : Dict
  options : Dict
  deriving Repr, DecidableEq

/-- `get_task(taskid)`: `assert taskid >= 0 and taskid < ntasks` -/
def getTask (m : Manager) (id : Int) : Option Task :=
  if 0 ≤ id ∧ id < m.tasks.length then
    match m.tasks[id.toNat]? with
    | some o => some ⟨id.toNat, m.context, o⟩
    | none => none
  else none

/-- `task[key]`: options first, then context; the assertion fails for a key in neither -/
def Task.get (t : Task) (key : String) : Option Val :=
  match t.options.lookup key with
  | some v => some v
  | none => t.context.lookup key

inductive FErr | unknownKey | keyError
  deriving DecidableEq, Repr

/-- one task against all criteria (`match` list, then `all(match)`): `assert key in self.options`, then `task[key]` -/
def critMatch (options : List (String × List Val)) (t : Dict) : List (String × Val) → Except FErr Bool
  | [] => .ok true
  | (k, v) :: rest =>
    if (options.lookup k).isNone then .error .unknownKey
    else match t.lookup k with
      | none => .error .keyError
      | some tv =>
        match critMatch options t rest with
        | .error e => .error e
        | .ok b => .ok (valMatch v tv && b)

/-- `for taskid, task in enumerate(self.tasks)`: the first failure wins; no task, no assertion -/
def findLoop (options : List (String × List Val)) (crit : List (String × Val)) : List Dict → Nat → Except FErr (List Nat)
  | [], _ => .ok []
  | t :: ts, id =>
    match critMatch options t crit with
    | .error e => .error e
    | .ok b =>
      match findLoop options crit ts (id + 1) with
      | .error e => .error e
      | .ok r => .ok (if b then id :: r else r)

/-- `find(**crit)` = `search(**{k: f"^{v}$"})` -/
def find (m : Manager) (crit : List (String × Val)) : Except FErr (List Nat) :=
  findLoop m.options crit m.tasks 0

/-! ### dictionary export / import with configurable key names -/

structure KeyNames where
  context : String
  taskOptions : String
  managerOptions : String
  deriving Repr, DecidableEq

/-- `_DICT_KEYNAMES_DEFAULT` -/
def KeyNames.default : KeyNames := ⟨"context", "options", "options"⟩

/-- `set_dict_keyname(key, name)`: `assert key in _DICT_KEYNAMES_DEFAULT` -/
def KeyNames.set (kn : KeyNames) (key name : String) : Option KeyNames :=
  if key = "context_name" then some { kn with context := name }
  else if key = "task_options_name" then some { kn with taskOptions := name }
  else if key = "manager_options_name" then some { kn with managerOptions := name }
  else none

/-- what the exact round trip needs of the key names: the two top-level names differ from each other and from the fixed
top-level keys `name` and `tasks`. (The task-level names may collide with anything: `from_dict` only keeps the
options of a task, and that entry is written last.) -/
def KeyNames.ok (kn : KeyNames) : Prop :=
  kn.context ≠ kn.managerOptions ∧ kn.context ≠ "tasks" ∧ kn.managerOptions ≠ "tasks" ∧
  kn.context ≠ "name" ∧ kn.managerOptions ≠ "name"

/-- what equality through `==` needs (the name of a manager is not compared) -/
def KeyNames.okEq (kn : KeyNames) : Prop :=
  kn.context ≠ kn.managerOptions ∧ kn.context ≠ "tasks" ∧ kn.managerOptions ≠ "tasks"

instance (kn : KeyNames) : Decidable kn.okEq := by unfold KeyNames.okEq; infer_instance

instance (kn : KeyNames) : Decidable kn.ok := by unfold KeyNames.ok; infer_instance

inductive J
  | str (s : String) | num (n : Nat) | dict (d : Dict) | odict (d : List (String × List Val))
  | tasks (ts : List (List (String × J)))
  deriving Repr

abbrev Doc := List (String × J)

def taskToDict (kn : KeyNames) (id : Nat) (ctx : Dict) (opts : Dict) : Doc :=
  [("taskid", .num id), (kn.context, .dict ctx), (kn.taskOptions, .dict opts)]

/-- a dict literal: a later duplicate key overwrites the value of the earlier one -/
def pyDict (kvs : Doc) : Doc := dictOf kvs

/-- `OptionTask.to_dict` -/
def Task.toDict (kn : KeyNames) (t : Task) : Doc := pyDict (taskToDict kn t.taskid t.context t.options)

/-- `OptionManager.to_dict`: the tasks are exported as `get_task(taskid).to_dict()` for `taskid` in `range(ntasks)` -/
def toDict (kn : KeyNames) (m : Manager) : Doc :=
  pyDict [("name", .str m.name), (kn.context, .dict m.context), (kn.managerOptions, .odict m.options),
    ("tasks", .tasks (m.tasks.mapIdx fun i o => pyDict (taskToDict kn i m.context o)))]

def jlookup (d : Doc) (k : String) : Option J := d.lookup k

/-- `OptionTask.from_dict(t).options`: the three keys must be there -/
def taskFromDict (kn : KeyNames) (d : Doc) : Option Dict :=
  match jlookup d "taskid", jlookup d kn.context, jlookup d kn.taskOptions with
  | some _, some _, some (.dict o) => some o
  | _, _, _ => none

/-- `OptionManager.from_dict`. The code does not look at what kind of value sits under a key; the model answers `none`
where a field would come out of the wrong kind (a list or a dictionary of lists as context, ...), and the harness
counts such a manager as a failed import. An empty dictionary is of both kinds. -/
def fromDict (kn : KeyNames) (d : Doc) : Option Manager :=
  let name := match jlookup d "name" with | some (.str s) => s | _ => "Task Manager"
  let ctx := match jlookup d kn.context with
    | some (.dict c) => some c | some (.odict []) => some [] | none => some [] | _ => none
  let opts := match jlookup d kn.managerOptions with
    | some (.odict o) => some o | some (.dict []) => some [] | none => some [] | _ => none
  let tasks := match jlookup d "tasks" with
    | some (.tasks ts) => allSome (ts.map (taskFromDict kn))
    | none => some []
    | _ => none
  match ctx, opts, tasks with
  | some c, some o, some t => some { name, context := c, options := o, tasks := t }
  | _, _, _ => none

/-- `OptionManager.__eq__` as written: keys of `self` are looked up in `other` (one direction),
then the number of tasks, then task dictionaries pairwise -/
def mEq (a b : Manager) : Bool :=
  dictSub a.context b.context
  && (a.options.all fun kv => b.options.lookup kv.1 == some kv.2)
  && (a.tasks.length == b.tasks.length)
  && ((a.tasks.zip b.tasks).all fun p => dictEq p.1 p.2)

/-! ### histories: one manager object, the module-level key names, one exported dictionary, files -/

structure World where
  mgr : Manager
  kn : KeyNames
  /-- the dictionary last exported with `to_dict` (the caller's variable) -/
  reg : Option Doc
  /-- json files written by `save` -/
  files : List (String × Doc)
  deriving Repr

def World.init (name : String) (ctx : Dict) : World :=
  { mgr := Manager.new name ctx, kn := KeyNames.default, reg := none, files := [] }

inductive Op
  | setKey (key name : String)                 -- `set_dict_keyname(key, name)`
  | resetKeys                                  -- `reset_dict_keyname()`
  | cartesian (args : List (String × OptArg))  -- `opm.from_cartesian_product(**args)`
  | find (crit : List (String × Val))          -- `opm.find(**crit)`
  | getTask (id : Int)                         -- `opm.get_task(id)`
  | exp                                        -- `dd = opm.to_dict()`
  | jsn                                        -- `dd = json.loads(json.dumps(dd))`
  | imp                                        -- `OptionManager.from_dict(dd)`
  | save (path : String) (overwrite : Bool)    -- `opm.save(path, overwrite)`
  | load (path : String)                       -- `OptionManager.from_file(path)`
  deriving Repr

inductive Out
  | ok
  | err
  | ids (l : List Nat)
  | task (t : Task)
  | mgr (m : Manager)
  deriving Repr, DecidableEq

def readDoc (kn : KeyNames) : Option Doc → Out
  | none => .err
  | some d => match fromDict kn d with
    | some m => .mgr m
    | none => .err

/-- one public call. Accessors and rejected calls leave the world as it is, except a rejected
`from_cartesian_product`, which leaves the options partly rebuilt (see `Manager.cartesian`). -/
def step (w : World) : Op → World × Out
  | .setKey key name =>
    match w.kn.set key name with
    | some kn => ({ w with kn := kn }, .ok)
    | none => (w, .err)
  | .resetKeys => ({ w with kn := KeyNames.default }, .ok)
  | .cartesian args =>
    match w.mgr.cartesian args with
    | (m, true) => ({ w with mgr := m }, .ok)
    | (m, false) => ({ w with mgr := m }, .err)
  | .find crit =>
    (w, match find w.mgr crit with | .ok l => .ids l | .error _ => .err)
  | .getTask id =>
    (w, match getTask w.mgr id with | some t => .task t | none => .err)
  | .exp => ({ w with reg := some (toDict w.kn w.mgr) }, .ok)
  | .jsn => (w, .ok)
  | .imp => (w, readDoc w.kn w.reg)
  | .save path overwrite =>
    if (w.files.lookup path).isSome && !overwrite then (w, .ok)
    else ({ w with files := dictSet w.files path (toDict w.kn w.mgr) }, .ok)
  | .load path => (w, readDoc w.kn (w.files.lookup path))

def run (w : World) : List Op → World × List Out
  | [] => (w, [])
  | op :: rest =>
    let (w1, o) := step w op
    let (w2, os) := run w1 rest
    (w2, o :: os)

end HydroVerif.C19
