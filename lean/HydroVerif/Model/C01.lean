/-
C01 / C02 — model of `hydrodiy.stat.transform`: the 13 transform classes.

For every class `X` of `transform.py`:
* `X.Params α`            parameters, constants and constructor options (already clipped to their bounds);
* `X.fwd / X.bwd / X.jac`  the closed formulas of `_forward / _backward / _jacobian`, branch for branch and
                          operation for operation (so that the `Float` instance reproduces numpy up to the
                          transcendental functions);
* `X.forward / X.backward / X.jacobian : Params α → α → Option α`
                          the same with `np.where(cond, v, nan)` guards as `none`;
* `X.admissible`, `X.dom`, `X.codom`  declared parameter bounds, domain and image (used by the theorems).
Classes that hold object state besides their parameters (`BoxCox1lam`, `BoxCox1nu`, `BoxCox2sym`: an inner
`BoxCox2` object that is re-synchronised on every call; `LogSinh`, `Manly`, `BoxCox1*`: a constant that is NaN
until set) also have `X.State α` and `X.State.forward/backward/jacobian : … → Except Err (State × result)`.

Everything is written over core notation classes + `Transc`, so that the same text runs at `Float`
(driver), at the error-tracking pair type of the driver, and is proved at `ℝ` (Props/C01.lean).
No Mathlib.

`Manly` is modelled after the repaired branch test `abs(lam) > EPS` and `Reciprocal.backward` after the repaired
guard `y < 0` (fix commits recorded in known_findings.d/C01.json); the pinned code tested `abs(lam-EPS) > 0` and
`y < -mininu`.
-/
import HydroVerif.Num
namespace HydroVerif.C01

/-- errors raised (as `ValueError`) by the real code -/
inductive Err | nuUnset | lamUnset | xmaxUnset | negative | sumGe1 | ndimGt2 | unknownName
  deriving DecidableEq, Repr

/-- `np.isnan` on a value of the carrier (only `backward_censored` tests a computed value for NaN) -/
class NanTest (α : Type) where
  isNaN : α → Bool

instance : NanTest Float := ⟨Float.isNaN⟩

section
variable {α : Type} [Add α] [Sub α] [Mul α] [Div α] [Neg α] [LT α] [DecidableLT α] [LE α] [DecidableLE α]
  [OfNat α 0] [OfNat α 1] [OfNat α 2] [OfScientific α] [Transc α]

/-- `EPS = 1e-10` of transform.py -/
def eps : α := 1e-10

def absv (x : α) : α := if x < 0 then -x else x

/-- `np.sign` -/
def sign (x : α) : α := if 0 < x then 1 else if x < 0 then -1 else 0

/-- `np.maximum(a, b)` for a non-NaN `b` (a NaN `a` is returned as is) -/
def maxv (a b : α) : α := if a < b then b else a

/-- `abs(lam) > EPS` -/
def lamBig (lam : α) : Bool := decide (eps < absv lam)
/-- `np.isclose(lam, 0.0)`: `abs(lam - 0) <= atol + rtol*abs(0)` with `atol = 1e-8` -/
def isclose0 (lam : α) : Bool := decide (absv lam ≤ 1e-8)
/-- `np.isclose(lam, 2.0)`: `abs(lam - 2) <= 1e-8 + 1e-5*2` -/
def isclose2 (lam : α) : Bool := decide (absv (lam - 2) ≤ 1e-8 + 1e-5 * 2)

/-- `np.where(c, v, nan)` -/
def guard (c : Bool) (v : α) : Option α := if c then some v else none

/-! ### Identity -/
namespace Identity
structure Params (α : Type) where
  deriving Repr
def fwd (_ : Params α) (x : α) : α := x
def bwd (_ : Params α) (y : α) : α := y
def jac (_ : Params α) (_ : α) : α := 1
def forward (p : Params α) (x : α) : Option α := some (fwd p x)
def backward (p : Params α) (y : α) : Option α := some (bwd p y)
def jacobian (p : Params α) (x : α) : Option α := some (jac p x)
end Identity

/-! ### Logit -/
namespace Logit
structure Params (α : Type) where
  lower : α
  logdelta : α
/-- declared bounds: `lower` free, `logdelta ∈ [-10, 10]` -/
def admissible (p : Params α) : Prop := -10.0 ≤ p.logdelta ∧ p.logdelta ≤ 10.0
def upper (p : Params α) : α := p.lower + Transc.exp p.logdelta
def dom (p : Params α) (x : α) : Prop := p.lower < x ∧ x < upper p
def fwd (p : Params α) (x : α) : α :=
  let value := (x - p.lower) / (upper p - p.lower)
  Transc.log (1 / (1 - value) - 1)
def bwd (p : Params α) (y : α) : α :=
  let bnd := 1 - 1 / (1 + Transc.exp y)
  bnd * (upper p - p.lower) + p.lower
def jac (p : Params α) (x : α) : α :=
  let value := (x - p.lower) / (upper p - p.lower)
  1 / (upper p - p.lower) / value / (1 - value)
def forward (p : Params α) (x : α) : Option α := some (fwd p x)
def backward (p : Params α) (y : α) : Option α := some (bwd p y)
def jacobian (p : Params α) (x : α) : Option α :=
  guard (decide (p.lower + eps < x) && decide (x < upper p - eps)) (jac p x)
end Logit

/-! ### Log -/
namespace Log
structure Params (α : Type) where
  nu : α
  /-- constructor option `base` (`None` = natural logarithm) -/
  base : Option α
  mininu : α
/-- `basefactor` -/
def bf (p : Params α) : α := match p.base with
  | none => 1
  | some b => Transc.log b
def admissible (p : Params α) : Prop := p.mininu ≤ p.nu
def dom (p : Params α) (x : α) : Prop := 0 < x + p.nu
def fwd (p : Params α) (x : α) : α := Transc.log (x + p.nu) / bf p
def bwd (p : Params α) (y : α) : α := Transc.exp (bf p * y) - p.nu
def jac (p : Params α) (x : α) : α := 1 / (x + p.nu) / bf p
def forward (p : Params α) (x : α) : Option α := some (fwd p x)
def backward (p : Params α) (y : α) : Option α := some (bwd p y)
def jacobian (p : Params α) (x : α) : Option α := guard (decide (p.mininu < x + p.nu)) (jac p x)
end Log

/-! ### BoxCox2 -/
namespace BoxCox2
structure Params (α : Type) where
  nu : α
  lam : α
  mininu : α
def dom (p : Params α) (x : α) : Prop := 0 < x + p.nu
/-- image of the domain: all of ℝ on the log branch, `lam*y + 1 > 0` on the power branch -/
def codom (p : Params α) (y : α) : Prop := lamBig p.lam = true → 0 < p.lam * y + 1
def fwd (p : Params α) (x : α) : α :=
  if lamBig p.lam then (Transc.pow (x + p.nu) p.lam - 1) / p.lam
  else Transc.log (x + p.nu)
def bwd (p : Params α) (y : α) : α :=
  if lamBig p.lam then
    let u := p.lam * y + 1
    Transc.pow u (1 / p.lam) - p.nu
  else Transc.exp y - p.nu
def jac (p : Params α) (x : α) : α :=
  if lamBig p.lam then Transc.pow (x + p.nu) (p.lam - 1)
  else 1 / (x + p.nu)
def forward (p : Params α) (x : α) : Option α := some (fwd p x)
def backward (p : Params α) (y : α) : Option α := some (bwd p y)
def jacobian (p : Params α) (x : α) : Option α := guard (decide (p.mininu < x + p.nu)) (jac p x)
end BoxCox2

/-! ### BoxCox1lam (nu is a constant), BoxCox1nu (lam is a constant): both delegate to an inner BoxCox2 -/
namespace BoxCox1lam
structure Params (α : Type) where
  lam : α
  nu : α
  mininu : α
def toBC (p : Params α) : BoxCox2.Params α := ⟨p.nu, p.lam, p.mininu⟩
def fwd (p : Params α) (x : α) : α := BoxCox2.fwd (toBC p) x
def bwd (p : Params α) (y : α) : α := BoxCox2.bwd (toBC p) y
def jac (p : Params α) (x : α) : α := BoxCox2.jac (toBC p) x
def forward (p : Params α) (x : α) : Option α := BoxCox2.forward (toBC p) x
def backward (p : Params α) (y : α) : Option α := BoxCox2.backward (toBC p) y
def jacobian (p : Params α) (x : α) : Option α := BoxCox2.jacobian (toBC p) x

/-- the object: parameter `lam`, constant `nu` (NaN until set), and the inner `BC` object's current parameters -/
structure State (α : Type) where
  lam : α
  nu : Option α
  bc : BoxCox2.Params α
/-- `self.BC.params.values = [self.get_nu(), self.params.values[0]]` -/
def State.sync (s : State α) : Except Err (State α) := match s.nu with
  | none => .error .nuUnset
  | some nu => .ok { s with bc := { s.bc with nu := nu, lam := s.lam } }
def State.forward (s : State α) (x : α) : Except Err (State α × Option α) :=
  (State.sync s).map fun s' => (s', BoxCox2.forward s'.bc x)
def State.backward (s : State α) (y : α) : Except Err (State α × Option α) :=
  (State.sync s).map fun s' => (s', BoxCox2.backward s'.bc y)
def State.jacobian (s : State α) (x : α) : Except Err (State α × Option α) :=
  (State.sync s).map fun s' => (s', BoxCox2.jacobian s'.bc x)
end BoxCox1lam

namespace BoxCox1nu
structure Params (α : Type) where
  nu : α
  lam : α
  mininu : α
def toBC (p : Params α) : BoxCox2.Params α := ⟨p.nu, p.lam, p.mininu⟩
def fwd (p : Params α) (x : α) : α := BoxCox2.fwd (toBC p) x
def bwd (p : Params α) (y : α) : α := BoxCox2.bwd (toBC p) y
def jac (p : Params α) (x : α) : α := BoxCox2.jac (toBC p) x
def forward (p : Params α) (x : α) : Option α := BoxCox2.forward (toBC p) x
def backward (p : Params α) (y : α) : Option α := BoxCox2.backward (toBC p) y
def jacobian (p : Params α) (x : α) : Option α := BoxCox2.jacobian (toBC p) x

structure State (α : Type) where
  nu : α
  lam : Option α
  bc : BoxCox2.Params α
def State.sync (s : State α) : Except Err (State α) := match s.lam with
  | none => .error .lamUnset
  | some lam => .ok { s with bc := { s.bc with nu := s.nu, lam := lam } }
def State.forward (s : State α) (x : α) : Except Err (State α × Option α) :=
  (State.sync s).map fun s' => (s', BoxCox2.forward s'.bc x)
def State.backward (s : State α) (y : α) : Except Err (State α × Option α) :=
  (State.sync s).map fun s' => (s', BoxCox2.backward s'.bc y)
def State.jacobian (s : State α) (x : α) : Except Err (State α × Option α) :=
  (State.sync s).map fun s' => (s', BoxCox2.jacobian s'.bc x)
end BoxCox1nu

/-! ### BoxCox2sym -/
namespace BoxCox2sym
structure Params (α : Type) where
  nu : α
  lam : α
  mininu : α
def toBC (p : Params α) : BoxCox2.Params α := ⟨p.nu, p.lam, p.mininu⟩
/-- `y0 = self.BC.forward(0.)` -/
def y0 (p : Params α) : α := BoxCox2.fwd (toBC p) 0
def codom (p : Params α) (y : α) : Prop := BoxCox2.codom (toBC p) (absv y + y0 p)
def fwd (p : Params α) (x : α) : α := sign x * (BoxCox2.fwd (toBC p) (absv x) - y0 p)
def bwd (p : Params α) (y : α) : α := sign y * BoxCox2.bwd (toBC p) (absv y + y0 p)
def jac (p : Params α) (x : α) : α := BoxCox2.jac (toBC p) (absv x)
def forward (p : Params α) (x : α) : Option α := some (fwd p x)
def backward (p : Params α) (y : α) : Option α := some (bwd p y)
def jacobian (p : Params α) (x : α) : Option α := BoxCox2.jacobian (toBC p) (absv x)

structure State (α : Type) where
  nu : α
  lam : α
  bc : BoxCox2.Params α
/-- `self.BC.params.values = self.params.values` -/
def State.sync (s : State α) : State α := { s with bc := { s.bc with nu := s.nu, lam := s.lam } }
def State.params (s : State α) : Params α := ⟨s.bc.nu, s.bc.lam, s.bc.mininu⟩
def State.forward (s : State α) (x : α) : State α × Option α :=
  let s' := State.sync s; (s', BoxCox2sym.forward (State.params s') x)
def State.backward (s : State α) (y : α) : State α × Option α :=
  let s' := State.sync s; (s', BoxCox2sym.backward (State.params s') y)
def State.jacobian (s : State α) (x : α) : State α × Option α :=
  let s' := State.sync s; (s', BoxCox2sym.jacobian (State.params s') x)
end BoxCox2sym

/-! ### Yeo-Johnson -/
namespace YeoJohnson
structure Params (α : Type) where
  nu : α
  scale : α
  lam : α
/-- declared bounds: `scale ≥ 1e-5`, `lam ∈ [-1, 3]` -/
def admissible (p : Params α) : Prop := 1e-5 ≤ p.scale ∧ -1.0 ≤ p.lam ∧ p.lam ≤ 3.0
/-- forward on the shifted/scaled argument `w = nu + x*scale` -/
def fwdW (lam w : α) : α :=
  if eps ≤ w then
    (if isclose0 lam then Transc.log (w + 1) else (Transc.pow (w + 1) lam - 1) / lam)
  else
    (if isclose2 lam then -(Transc.log (-w + 1))
     else (-(Transc.pow (-w + 1) (2 - lam) - 1)) / (2 - lam))
/-- backward up to the final `(x - nu)/scale` -/
def bwdW (lam y : α) : α :=
  if eps ≤ y then
    (if isclose0 lam then Transc.exp y - 1 else Transc.pow (lam * y + 1) (1 / lam) - 1)
  else
    (if isclose2 lam then -(Transc.exp (-y)) + 1
     else -(Transc.pow (-(2 - lam) * y + 1) (1 / (2 - lam))) + 1)
def jacW (lam w : α) : α :=
  if eps ≤ w then
    (if isclose0 lam then 1 / (w + 1) else Transc.pow (w + 1) (lam - 1))
  else
    (if isclose2 lam then 1 / (-w + 1) else Transc.pow (-w + 1) (1 - lam))
def fwd (p : Params α) (x : α) : α := fwdW p.lam (p.nu + x * p.scale)
def bwd (p : Params α) (y : α) : α := (bwdW p.lam y - p.nu) / p.scale
def jac (p : Params α) (x : α) : α := jacW p.lam (p.nu + x * p.scale) * p.scale
/-- image: the argument of the power is positive on the branch that `y` selects -/
def codom (p : Params α) (y : α) : Prop :=
  (eps ≤ y → isclose0 p.lam = false → 0 < p.lam * y + 1) ∧
  (¬ eps ≤ y → isclose2 p.lam = false → 0 < -(2 - p.lam) * y + 1)
def forward (p : Params α) (x : α) : Option α := some (fwd p x)
def backward (p : Params α) (y : α) : Option α := some (bwd p y)
def jacobian (p : Params α) (x : α) : Option α := some (jac p x)
end YeoJohnson

/-! ### LogSinh -/
namespace LogSinh
structure Params (α : Type) where
  loga : α
  logb : α
  xmax : α
/-- declared bounds: `loga ∈ [-20, 0]`, `logb ∈ [-5, 5]`, `xmax ≥ EPS` -/
def admissible (p : Params α) : Prop :=
  -20.0 ≤ p.loga ∧ p.loga ≤ 0 ∧ -5.0 ≤ p.logb ∧ p.logb ≤ 5.0 ∧ eps ≤ p.xmax
def a (p : Params α) : α := Transc.exp p.loga
def b (p : Params α) : α := Transc.exp p.logb
/-- `xn > -a/b + EPS` -/
def inDom (p : Params α) (x : α) : Bool := decide (-(a p) / b p + eps < x / p.xmax)
def dom (p : Params α) (x : α) : Prop := inDom p x = true
def fwd (p : Params α) (x : α) : α :=
  let xn := x / p.xmax
  let w := a p + b p * xn
  (w + Transc.log ((1 - Transc.exp (-2 * w)) / 2)) / b p
def bwd (p : Params α) (y : α) : α :=
  let w := b p * y
  p.xmax * (y + (Transc.log (1 + Transc.sqrt (1 + Transc.exp (-2 * w))) - a p) / b p)
def jac (p : Params α) (x : α) : α :=
  let xn := x / p.xmax
  let w := a p + b p * xn
  1 / p.xmax * (1 / Transc.tanh w)
def codom (p : Params α) (y : α) : Prop := dom p (bwd p y)
def forward (p : Params α) (x : α) : Option α := guard (inDom p x) (fwd p x)
def backward (p : Params α) (y : α) : Option α := some (bwd p y)
def jacobian (p : Params α) (x : α) : Option α := guard (inDom p x) (jac p x)

/-- the object: `xmax` is NaN until set (`get_xmax` raises) -/
structure State (α : Type) where
  loga : α
  logb : α
  xmax : Option α
def State.params (s : State α) : Except Err (Params α) := match s.xmax with
  | none => .error .xmaxUnset
  | some xm => .ok ⟨s.loga, s.logb, xm⟩
def State.forward (s : State α) (x : α) : Except Err (Option α) :=
  (State.params s).map fun p => LogSinh.forward p x
def State.backward (s : State α) (y : α) : Except Err (Option α) :=
  (State.params s).map fun p => LogSinh.backward p y
def State.jacobian (s : State α) (x : α) : Except Err (Option α) :=
  (State.params s).map fun p => LogSinh.jacobian p x
end LogSinh

/-! ### Reciprocal -/
namespace Reciprocal
structure Params (α : Type) where
  nu : α
  mininu : α
def admissible (p : Params α) : Prop := p.mininu ≤ p.nu
def dom (p : Params α) (x : α) : Prop := -p.nu < x
def fwd (p : Params α) (x : α) : α := -1 / (p.nu + x)
def bwd (p : Params α) (y : α) : α := -1 / y - p.nu
def jac (p : Params α) (x : α) : α := 1 / ((p.nu + x) * (p.nu + x))
def forward (p : Params α) (x : α) : Option α := guard (decide (-p.nu < x)) (fwd p x)
/-- the guard is `y < 0`, the whole image of `forward` (repaired; the pinned code tested `y < -mininu`) -/
def backward (p : Params α) (y : α) : Option α := guard (decide (y < 0)) (bwd p y)
def jacobian (p : Params α) (x : α) : Option α := guard (decide (-p.nu < x)) (jac p x)
end Reciprocal

/-! ### Softmax (rows) -/
namespace Softmax
/-- `np.sum` of a short row: left to right -/
def sumFrom (acc : α) : List α → α
  | [] => acc
  | x :: xs => sumFrom (acc + x) xs
def sumL (xs : List α) : α := sumFrom 0 xs
def prodFrom (acc : α) : List α → α
  | [] => acc
  | x :: xs => prodFrom (acc * x) xs
def prodL (xs : List α) : α := prodFrom 1 xs
/-- the two input checks of one row -/
def anyNeg (xs : List α) : Bool := xs.any fun x => decide (x < 0)
def sumTooBig (xs : List α) : Bool := decide (1 - eps < sumL xs)
/-- domain of a row: entries positive, sum at most `1 - EPS` -/
def dom (xs : List α) : Prop := (∀ x ∈ xs, 0 < x) ∧ sumL xs ≤ 1 - eps
def fwdRow (xs : List α) : List α :=
  let s := sumL xs
  xs.map fun x => Transc.log (x / (1 - s))
def bwdRow (ys : List α) : List α :=
  let e := ys.map Transc.exp
  let s := sumL e
  e.map fun v => v / (1 + s)
def jacRow (xs : List α) : α :=
  let s := sumL xs
  (1 + s / (1 - s)) / prodL xs
/-- image of the domain -/
def codom (ys : List α) : Prop := dom (bwdRow ys)
/-- one row -/
def forward (xs : List α) : Except Err (List α) :=
  if anyNeg xs then .error .negative
  else if sumTooBig xs then .error .sumGe1
  else .ok (fwdRow xs)
def backward (ys : List α) : Except Err (List α) := .ok (bwdRow ys)
def jacobian (xs : List α) : Except Err α :=
  if anyNeg xs then .error .negative
  else if sumTooBig xs then .error .sumGe1
  else .ok (jacRow xs)
/-- a 2-D array: `np.any(x < 0)` is tested on the whole array before any row sum -/
def forwardM (rows : List (List α)) : Except Err (List (List α)) :=
  if rows.any anyNeg then .error .negative
  else if rows.any sumTooBig then .error .sumGe1
  else .ok (rows.map fwdRow)
def backwardM (rows : List (List α)) : Except Err (List (List α)) := .ok (rows.map bwdRow)
def jacobianM (rows : List (List α)) : Except Err (List α) :=
  if rows.any anyNeg then .error .negative
  else if rows.any sumTooBig then .error .sumGe1
  else .ok (rows.map jacRow)
end Softmax

/-! ### Sinh -/
namespace Sinh
structure Params (α : Type) where
  nu : α
  scale : α
/-- declared bounds: `scale ≥ 1e-10` -/
def admissible (p : Params α) : Prop := 1e-10 ≤ p.scale
def fwd (p : Params α) (x : α) : α := Transc.asinh ((x - p.nu) * p.scale)
def bwd (p : Params α) (y : α) : α := Transc.sinh y / p.scale + p.nu
def jac (p : Params α) (x : α) : α :=
  let u := (x - p.nu) * p.scale
  p.scale / Transc.sqrt (1 + u * u)
def forward (p : Params α) (x : α) : Option α := some (fwd p x)
def backward (p : Params α) (y : α) : Option α := some (bwd p y)
def jacobian (p : Params α) (x : α) : Option α := some (jac p x)
end Sinh

/-! ### Manly (after the repair of the branch test) -/
namespace Manly
structure Params (α : Type) where
  lam : α
  xmax : α
/-- declared bounds: `lam ∈ [-5, 5]`, `xmax ≥ EPS` -/
def admissible (p : Params α) : Prop := -5.0 ≤ p.lam ∧ p.lam ≤ 5.0 ∧ eps ≤ p.xmax
def codom (p : Params α) (y : α) : Prop := lamBig p.lam = true → 0 < 1 + p.lam * y
def fwd (p : Params α) (x : α) : α :=
  let u := x / p.xmax
  if lamBig p.lam then (Transc.exp (p.lam * u) - 1) / p.lam else u
def bwd (p : Params α) (y : α) : α :=
  if lamBig p.lam then p.xmax * Transc.log (1 + p.lam * y) / p.lam else p.xmax * y
def jac (p : Params α) (x : α) : α :=
  if lamBig p.lam then Transc.exp (p.lam * (x / p.xmax)) / p.xmax else 1 / p.xmax
def forward (p : Params α) (x : α) : Option α := some (fwd p x)
def backward (p : Params α) (y : α) : Option α := some (bwd p y)
def jacobian (p : Params α) (x : α) : Option α := some (jac p x)

structure State (α : Type) where
  lam : α
  xmax : Option α
def State.params (s : State α) : Except Err (Params α) := match s.xmax with
  | none => .error .xmaxUnset
  | some xm => .ok ⟨s.lam, xm⟩
def State.forward (s : State α) (x : α) : Except Err (Option α) :=
  (State.params s).map fun p => Manly.forward p x
def State.backward (s : State α) (y : α) : Except Err (Option α) :=
  (State.params s).map fun p => Manly.backward p y
def State.jacobian (s : State α) (x : α) : Except Err (Option α) :=
  (State.params s).map fun p => Manly.jacobian p x
end Manly

/-! ### `Transform.backward_censored` (base class, any transform) -/

/-- `backward_censored(y, censor)` for a transform given by its `forward`/`backward`:
`tcensor = forward(censor)`; `yc = y` if `tcensor` is NaN else `maximum(y, tcensor)`;
result `maximum(backward(yc), censor)`. `censor` itself is not NaN. -/
def backwardCensored [NanTest α] (forward backward : α → Option α) (y censor : α) : Option α :=
  let yc := match forward censor with
    | none => y
    | some t => if NanTest.isNaN t then y else maxv y t
  (backward yc).map fun b => maxv b censor


/-! ### public methods on arrays and on objects (what a call of `forward / backward / jacobian /
backward_censored` with a 1-D float64 array does: the object-level glue, then the formula on every element) -/

/-- a method applied to a 1-D array: elementwise (NaN marks stay per element) -/
def onArray (f : α → Option α) (xs : List α) : List (Option α) := xs.map f

/-- `backward(forward(xs))` on arrays: NaN elements stay NaN -/
def bindArray (b : α → Option α) (ys : List (Option α)) : List (Option α) := ys.map fun y => y.bind b

namespace BoxCox1lam
def State.forwardArr (s : State α) (xs : List α) : Except Err (State α × List (Option α)) :=
  (State.sync s).map fun s' => (s', onArray (BoxCox2.forward s'.bc) xs)
def State.backwardArr (s : State α) (ys : List α) : Except Err (State α × List (Option α)) :=
  (State.sync s).map fun s' => (s', onArray (BoxCox2.backward s'.bc) ys)
def State.jacobianArr (s : State α) (xs : List α) : Except Err (State α × List (Option α)) :=
  (State.sync s).map fun s' => (s', onArray (BoxCox2.jacobian s'.bc) xs)
/-- `backward_censored`: `self.forward(censor)` and `self.backward(yc)` both synchronise first -/
def State.censoredArr [NanTest α] (s : State α) (ys : List α) (c : α) : Except Err (State α × List (Option α)) :=
  (State.sync s).map fun s' =>
    (s', onArray (fun y => backwardCensored (BoxCox2.forward s'.bc) (BoxCox2.backward s'.bc) y c) ys)
end BoxCox1lam

namespace BoxCox1nu
def State.forwardArr (s : State α) (xs : List α) : Except Err (State α × List (Option α)) :=
  (State.sync s).map fun s' => (s', onArray (BoxCox2.forward s'.bc) xs)
def State.backwardArr (s : State α) (ys : List α) : Except Err (State α × List (Option α)) :=
  (State.sync s).map fun s' => (s', onArray (BoxCox2.backward s'.bc) ys)
def State.jacobianArr (s : State α) (xs : List α) : Except Err (State α × List (Option α)) :=
  (State.sync s).map fun s' => (s', onArray (BoxCox2.jacobian s'.bc) xs)
def State.censoredArr [NanTest α] (s : State α) (ys : List α) (c : α) : Except Err (State α × List (Option α)) :=
  (State.sync s).map fun s' =>
    (s', onArray (fun y => backwardCensored (BoxCox2.forward s'.bc) (BoxCox2.backward s'.bc) y c) ys)
end BoxCox1nu

namespace BoxCox2sym
def State.forwardArr (s : State α) (xs : List α) : State α × List (Option α) :=
  let s' := State.sync s; (s', onArray (BoxCox2sym.forward (State.params s')) xs)
def State.backwardArr (s : State α) (ys : List α) : State α × List (Option α) :=
  let s' := State.sync s; (s', onArray (BoxCox2sym.backward (State.params s')) ys)
def State.jacobianArr (s : State α) (xs : List α) : State α × List (Option α) :=
  let s' := State.sync s; (s', onArray (BoxCox2sym.jacobian (State.params s')) xs)
def State.censoredArr [NanTest α] (s : State α) (ys : List α) (c : α) : State α × List (Option α) :=
  let s' := State.sync s
  (s', onArray (fun y => backwardCensored (BoxCox2sym.forward (State.params s'))
    (BoxCox2sym.backward (State.params s')) y c) ys)
end BoxCox2sym

namespace LogSinh
def State.forwardArr (s : State α) (xs : List α) : Except Err (List (Option α)) :=
  (State.params s).map fun p => onArray (LogSinh.forward p) xs
def State.backwardArr (s : State α) (ys : List α) : Except Err (List (Option α)) :=
  (State.params s).map fun p => onArray (LogSinh.backward p) ys
def State.jacobianArr (s : State α) (xs : List α) : Except Err (List (Option α)) :=
  (State.params s).map fun p => onArray (LogSinh.jacobian p) xs
def State.censoredArr [NanTest α] (s : State α) (ys : List α) (c : α) : Except Err (List (Option α)) :=
  (State.params s).map fun p => onArray (fun y => backwardCensored (LogSinh.forward p) (LogSinh.backward p) y c) ys
end LogSinh

namespace Manly
def State.forwardArr (s : State α) (xs : List α) : Except Err (List (Option α)) :=
  (State.params s).map fun p => onArray (Manly.forward p) xs
def State.backwardArr (s : State α) (ys : List α) : Except Err (List (Option α)) :=
  (State.params s).map fun p => onArray (Manly.backward p) ys
def State.jacobianArr (s : State α) (xs : List α) : Except Err (List (Option α)) :=
  (State.params s).map fun p => onArray (Manly.jacobian p) xs
def State.censoredArr [NanTest α] (s : State α) (ys : List α) (c : α) : Except Err (List (Option α)) :=
  (State.params s).map fun p => onArray (fun y => backwardCensored (Manly.forward p) (Manly.backward p) y c) ys
end Manly

namespace Softmax
/-- an array of `ndim` dimensions whose rows (after `np.atleast_2d`) are `rows`: more than 2 dimensions are rejected
before any other check -/
def forwardND (ndim : Nat) (rows : List (List α)) : Except Err (List (List α)) :=
  if 2 < ndim then .error .ndimGt2 else forwardM rows
def backwardND (ndim : Nat) (rows : List (List α)) : Except Err (List (List α)) :=
  if 2 < ndim then .error .ndimGt2 else backwardM rows
def jacobianND (ndim : Nat) (rows : List (List α)) : Except Err (List α) :=
  if 2 < ndim then .error .ndimGt2 else jacobianM rows
end Softmax

end

/-! ### `get_transform(name, **kwargs)`: which keyword goes where -/

/-- constructor argument names, parameter names and constant names of one class -/
structure ClassSpec where
  name : String
  ctorArgs : List String
  params : List String
  constants : List String
  deriving Repr, DecidableEq

/-- the catalogue (`__all__`), in its order -/
def catalogue : List ClassSpec := [
  ⟨"Identity", [], [], []⟩,
  ⟨"Logit", [], ["lower", "logdelta"], []⟩,
  ⟨"Log", ["mininu", "base"], ["nu"], []⟩,
  ⟨"BoxCox2", ["mininu", "minilam"], ["nu", "lam"], []⟩,
  ⟨"BoxCox1lam", ["mininu", "minilam"], ["lam"], ["nu"]⟩,
  ⟨"BoxCox1nu", ["mininu", "minilam"], ["nu"], ["lam"]⟩,
  ⟨"BoxCox2sym", ["mininu", "minilam"], ["nu", "lam"], []⟩,
  ⟨"YeoJohnson", [], ["nu", "scale", "lam"], []⟩,
  ⟨"Reciprocal", ["mininu"], ["nu"], []⟩,
  ⟨"Softmax", [], [], []⟩,
  ⟨"Sinh", [], ["nu", "scale"], []⟩,
  ⟨"LogSinh", [], ["loga", "logb"], ["xmax"]⟩,
  ⟨"Manly", [], ["lam"], ["xmax"]⟩]

inductive Route | ctor | param | const | ignored
  deriving DecidableEq, Repr

/-- a keyword that names a constructor argument goes to the constructor (and is removed); the others are assigned to
the parameter / constant of that name, and silently ignored when there is none -/
def route (c : ClassSpec) (key : String) : Route :=
  if c.ctorArgs.contains key then .ctor
  else if c.params.contains key then .param
  else if c.constants.contains key then .const
  else .ignored

/-- an unknown name is rejected -/
def lookupClass (name : String) : Except Err ClassSpec :=
  match catalogue.find? (·.name == name) with
  | some c => .ok c
  | none => .error .unknownName

end HydroVerif.C01
