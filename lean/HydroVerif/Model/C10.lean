/-
C10 — model of the rank- and PIT-based forecast diagnostics of `hydrodiy.stat`:

* `c_ensrank` (c_dscore.c): pooled sort of every pair of ensembles, the tie-sequence scan
  (`start / end / nties`, mid-rank `1 + (start+end)/2`), the comparison `F`, `u ∈ {0, ½, 1}` and the ranks;
* `metrics.dscore`: observation ranks, forecast ranks (mid-ranks for single-member forecasts), Pearson
  correlation of the ranks mapped to `(r+1)/2`;
* `metrics.pit`: the random branch (jitter given as an input), scipy's `percentileofscore(kind="rank")`
  branch, and the pseudo-PIT flag;
* `metrics.cramer_von_mises_test`: the statistic;
* `ADtest` (AnDarl.c) behind `c_ad_test`: the three rejection guards and the statistic.

Generic over the numeric type: `Float` in the driver, any ordered field / ℝ in the theorems. The sorts
(glibc `qsort`, `np.sort`) are parameters; the theorems state what they assume about them. NaN is `none`
where the code tests `isnan`. No Mathlib.
-/
import HydroVerif.Num
import HydroVerif.Model.C04
import HydroVerif.Generated.CvmTable
namespace HydroVerif.C10
open HydroVerif.C04 (sumL absG mean ssd pearson)

/-! ### c_ensrank -/

section rank
variable {α : Type} [Add α] [Sub α] [Mul α] [Div α] [Neg α] [LT α] [DecidableLT α] [LE α] [DecidableLE α]
  [OfNat α 0] [OfNat α 1] [OfNat α 2] [NatCast α]

/-- the `qsort` comparator of c_dscore.c: `diff < -eps ? -1 : diff > eps ? 1 : 0` (`ceps` is 1e-8 there) -/
def cmpTol (ceps a b : α) : Int :=
  let d := a - b
  if d < -ceps then -1 else if ceps < d then 1 else 0

/-- `a` may stay in front of `b` in a stable sort driven by `cmpTol` -/
def leTol (ceps : α) (a b : α × Nat) : Bool := decide (cmpTol ceps a.1 b.1 ≤ 0)

/-- the two ensembles side by side, each value tagged with its position `j` (`ensemb[j][1] = j`) -/
def pool (e1 e2 : List α) : List (α × Nat) := (e1 ++ e2).zipIdx

/-- state of the scan: `start = -1` is `none` -/
structure Scan (α : Type) where
  sumrank : α
  start : Option Nat
  stop : Nat
  nties : Nat

/-- `fabs(value - neighbour)`; at the two ends of the array the scan uses `eps` itself -/
def gap (eps v : α) : Option α → α
  | none => eps
  | some w => absG (v - w)

/-- one iteration of the loop over the sorted pooled array, on the outcomes of its four tests:
`first` = `index<ncol`, `ge` = `diff>=eps`, `lt` = `diff<eps`, `geNext` = `diffnext>=eps` -/
def scanStepB (first ge lt geNext : Bool) (j : Nat) (st : Scan α) : Scan α :=
  -- start a tie sequence
  let st1 := if first && ge then { st with start := some j, stop := j, nties := 1 } else st
  -- continue it
  let st2 := if st1.start.isSome && lt then
      { st1 with stop := st1.stop + 1, nties := if first then st1.nties + 1 else st1.nties }
    else st1
  -- end it
  match st2.start with
  | some s =>
    if geNext then
      { st2 with sumrank := st2.sumrank + (1 + ((s + st2.stop : Nat) : α) / 2) * (st2.nties : α), start := none }
    else st2
  | none => st2

def scanStep (eps : α) (ncol j : Nat) (prev next : Option α) (v : α) (idx : Nat) (st : Scan α) : Scan α :=
  let diff := gap eps v prev
  let diffnext := gap eps v next
  scanStepB (decide (idx < ncol)) (decide (eps ≤ diff)) (decide (diff < eps)) (decide (eps ≤ diffnext)) j st

def scanAux (eps : α) (ncol : Nat) : Nat → Option α → Scan α → List (α × Nat) → Scan α
  | _, _, st, [] => st
  | j, prev, st, (v, idx) :: rest =>
    let next := match rest with
      | [] => none
      | (w, _) :: _ => some w
    scanAux eps ncol (j + 1) (some v) (scanStep eps ncol j prev next v idx st) rest

/-- sum of the pooled ranks of the members of the first ensemble -/
def scan (eps : α) (ncol : Nat) (sorted : List (α × Nat)) : α :=
  (scanAux eps ncol 0 none ⟨0, none, 0, 0⟩ sorted).sumrank

/-- comparison function `F` of two ensembles (Weigel and Mason 2011, eq. 1) as the kernel computes it -/
def fpair (sort : List (α × Nat) → List (α × Nat)) (eps : α) (e1 e2 : List α) : α :=
  let ncol := e1.length
  let ncold : α := (ncol : α)
  let sumrank := scan eps ncol (sort (pool e1 e2))
  (sumrank - (ncold + 1) * ncold / 2) / ncold / ncold

/-- `u = F<0.5 ? 0 : F>0.5 ? 1 : 0.5` -/
def uOf (F : α) : α := if F < 1 / 2 then 0 else if 1 / 2 < F then 1 else 1 / 2

/-- rows of the upper triangle of `fmat`: entry `(i1, i2)`, `i1 < i2` -/
def upperF (F : List α → List α → α) : List (List α) → List (List α)
  | [] => []
  | e :: rest => rest.map (F e) :: upperF F rest

/-- `ranks[i]`: 1, plus `1-u` for every pair in which `i` is the second ensemble, plus `u` for every
pair in which it is the first -/
def rankAt (F : List α → List α → α) (rows : List (List α)) (i : Nat) (ei : List α) : α :=
  1 + sumL (rows.zipIdx.map fun ek =>
    if ek.2 < i then 1 - uOf (F ek.1 ei) else if i < ek.2 then uOf (F ei ek.1) else 0)

def ranksOf (F : List α → List α → α) (rows : List (List α)) : List α :=
  rows.zipIdx.map fun ei => rankAt F rows ei.2 ei.1

inductive Err | evalue | esize
  deriving DecidableEq, Repr

/-- `c_ensrank(eps, nval, ncol, sim, fmat, ranks)`; `epsmin` is 1e-20 in the code.
Returns the upper triangle of `fmat` (nothing else is written) and `ranks`. -/
def ensrank (sort : List (α × Nat) → List (α × Nat)) (epsmin eps : α) (ncol : Nat)
    (rows : List (List α)) : Except Err (List (List α) × List α) :=
  if eps < epsmin then .error .evalue
  else if ncol = 0 ∨ rows.length = 0 then .error .esize
  else .ok (upperF (fpair sort eps) rows, ranksOf (fpair sort eps) rows)

/-! ### ranks used by `dscore` -/

/-- `np.argsort(np.argsort(x))` for a stable argsort: number of smaller values plus equal values in front -/
def stableRanks (xs : List α) : List Nat :=
  xs.zipIdx.map fun xi => (xs.zipIdx.filter fun yk =>
    decide (yk.1 < xi.1) || (!decide (yk.1 < xi.1) && !decide (xi.1 < yk.1) && decide (yk.2 < xi.2))).length

/-- `scipy.stats.rankdata(x)` (average method): smaller values + (equal values + 1)/2 -/
def midRanks (xs : List α) : List α :=
  xs.map fun a =>
    (((xs.filter fun b => decide (b < a)).length : Nat) : α)
      + ((((xs.filter fun b => !decide (b < a) && !decide (a < b)).length : Nat) : α) + 1) / 2

end rank

/-! ### dscore -/

section dscore
variable {α : Type} [Add α] [Sub α] [Mul α] [Div α] [Neg α] [LT α] [DecidableLT α] [LE α] [DecidableLE α]
  [OfNat α 0] [OfNat α 1] [OfNat α 2] [NatCast α] [Transc α]

/-- `(np.corrcoef(oranks, franks)[0, 1] + 1)/2`; `none` = NaN (one of the rank vectors is constant) -/
def dscoreOf (oranks franks : List α) : Option α :=
  if 0 < ssd (mean oranks) oranks ∧ 0 < ssd (mean franks) franks then
    some ((pearson oranks franks + 1) / 2)
  else none

/-- forecast ranks: mid-ranks of the single column when `nens == 1`, else `c_ensrank`
(whose return code `dscore` ignores: on an error the ranks stay at their initial zeros) -/
def franksOf (sort : List (α × Nat) → List (α × Nat)) (epsmin eps : α) (ncol : Nat)
    (rows : List (List α)) : List α :=
  if ncol = 1 then midRanks rows.flatten
  else match ensrank sort epsmin eps ncol rows with
    | .ok r => r.2
    | .error _ => rows.map fun _ => 0

/-- `dscore` with the observation ranks given (`np.argsort(np.argsort(obs))`) -/
def dscoreWith (sort : List (α × Nat) → List (α × Nat)) (epsmin eps : α) (ncol : Nat)
    (oranks : List Nat) (rows : List (List α)) : Option α :=
  dscoreOf (oranks.map fun (r : Nat) => (Nat.cast r : α)) (franksOf sort epsmin eps ncol rows)

def dscore (sort : List (α × Nat) → List (α × Nat)) (epsmin eps : α) (ncol : Nat)
    (obs : List α) (rows : List (List α)) : Option α :=
  dscoreWith sort epsmin eps ncol (stableRanks obs) rows

end dscore

/-! ### pit -/

section pit
variable {α : Type} [Add α] [Sub α] [Mul α] [Div α] [Neg α] [LT α] [DecidableLT α] [LE α] [DecidableLE α]
  [OfNat α 0] [OfNat α 1] [OfNat α 2] [OfNat α 50] [OfNat α 100] [NatCast α]

/-- `cst = min(0.5, cst)` -/
def clampCst (cst : α) : α := if cst < 1 / 2 then cst else 1 / 2

/-- number of members with `ens + dens - (obs + dobs) < 0` -/
def belowJit (obs dobs : α) : List α → List α → Nat
  | e :: es, d :: ds => (if e + d - (obs + dobs) < 0 then 1 else 0) + belowJit obs dobs es ds
  | _, _ => 0

/-- `(count + 0.5 - cst)/(1 - cst + nens)` -/
def pitFormula (c : α) (cnt nens : Nat) : α := ((cnt : α) + 1 / 2 - c) / (1 - c + (nens : α))

/-- `pit(..., random=True)` for one forecast; `dobs`, `dens` are the jitters drawn by the code -/
def pitRandom (cst obs dobs : α) (ens dens : List α) : α :=
  pitFormula (clampCst cst) (belowJit obs dobs ens dens) ens.length

/-- `pit(..., random=True)` for all forecasts (rows of `ens` / `dens`) -/
def pitRandomAll (cst : α) : List α → List α → List (List α) → List (List α) → List α
  | o :: os, d :: ds, e :: es, de :: des => pitRandom cst o d e de :: pitRandomAll cst os ds es des
  | _, _, _, _ => []

/-- scipy's `percentileofscore(ens, obs, kind="rank")/100` -/
def pitRankFormula (left right nens : Nat) : α :=
  ((left + right + (if left < right then 1 else 0) : Nat) : α) * (50 / (nens : α)) / 100

def pitRank (obs : α) (ens : List α) : α :=
  pitRankFormula (ens.filter fun a => decide (a < obs)).length (ens.filter fun a => decide (a ≤ obs)).length
    ens.length

/-- `(obs - censor < EPS) & (sum(ens - censor < EPS) > 0)` -/
def isSudo (eps censor obs : α) (ens : List α) : Bool :=
  decide (obs - censor < eps) && decide (0 < (ens.filter fun a => decide (a - censor < eps)).length)

end pit

/-! ### `__check_ensemble_data`: the glue in front of `pit` and `alpha` -/

section glue
variable {α : Type}

/-- `obsNotOneD` is raised in front of `checkEnsemble`, by the layout handling of `Model/C10Entry.lean` -/
inductive EnsErr | lengthMismatch | noValidData | obsNotOneD
  deriving DecidableEq, Repr

/-- forecasts kept: the observation is present (`pd.notnull`) and at least one member is -/
def keepRows : List (Option α) → List (List (Option α)) → List (α × List (Option α))
  | some o :: os, e :: es => if e.any Option.isSome then (o, e) :: keepRows os es else keepRows os es
  | none :: os, _ :: es => keepRows os es
  | _, _ => []

/-- first-dimension check, then the NaN filter, then "No valid data" -/
def checkEnsemble (obs : List (Option α)) (ens : List (List (Option α))) :
    Except EnsErr (List (α × List (Option α))) :=
  if ens.length ≠ obs.length then .error .lengthMismatch
  else
    let k := keepRows obs ens
    if k.isEmpty then .error .noValidData else .ok k

end glue

/-! ### Cramer-von Mises and Anderson-Darling statistics -/

section unif
variable {α : Type} [Add α] [Sub α] [Mul α] [Div α] [Neg α] [LT α] [DecidableLT α] [LE α] [DecidableLE α]
  [OfNat α 0] [OfNat α 1] [OfNat α 2] [OfNat α 12] [NatCast α]

/-- `unif[i] = (2(i+1) - 1)/2/n` -/
def plotPos (n i : Nat) : α := ((2 * (i + 1) - 1 : Nat) : α) / 2 / (n : α)

/-- `1/12/n + sum((unif - sort(data))**2)` -/
def cvmStat (sort : List α → List α) (data : List α) : α :=
  let n := data.length
  1 / 12 / (n : α) + sumL ((sort data).zipIdx.map fun xi =>
    (plotPos n xi.2 - xi.1) * (plotPos n xi.2 - xi.1))

inductive ADErr | range | nan | unsorted
  deriving DecidableEq, Repr

/-- the input checks of `ADtest`, in the order of the code, at the first offending position -/
def adGuards : α → List (Option α) → Option ADErr
  | _, [] => none
  | _, none :: _ => some .nan
  | prev, some x :: rest =>
    if x < 0 ∨ 1 < x then some .range
    else if x < prev then some .unsorted
    else adGuards x rest

def allSome : List (Option α) → Option (List α)
  | [] => some []
  | none :: _ => none
  | some a :: t => (allSome t).map (a :: ·)

end unif

section ad
variable {α : Type} [Add α] [Sub α] [Mul α] [Div α] [Neg α] [LT α] [DecidableLT α] [LE α] [DecidableLE α]
  [OfNat α 0] [OfNat α 1] [NatCast α] [Transc α]

/-- `t = x[i]*(1 - x[n-1-i]); z = z - (i+i+1)*log(t)`; `rs` is the array read from its end -/
def adLoop : Nat → α → List α → List α → α
  | i, z, x :: xs, r :: rs => adLoop (i + 1) (z - ((i + i + 1 : Nat) : α) * Transc.log (x * (1 - r))) xs rs
  | _, z, _, _ => z

/-- `-n + z/n` on the sorted sample -/
def adStat (sorted : List α) : α :=
  -(sorted.length : α) + adLoop 0 0 sorted sorted.reverse / (sorted.length : α)

/-- `c_ad_test`: sort, then `ADtest`. `prev0` is the initial `prev` (-1e-300 in the code).
The checks run inside the loop that accumulates the statistic; since any failure discards the
accumulated value, the model runs them first. -/
def adTest (sort : List (Option α) → List (Option α)) (prev0 : α) (data : List (Option α)) : Except ADErr α :=
  let sorted := sort data
  match adGuards prev0 sorted with
  | some e => .error e
  | none =>
    match allSome sorted with
    | some xs => .ok (adStat xs)
    | none => .error .nan

end ad

/-! ### p-values: `np.interp` into the Cramer-von Mises table, Marsaglia & Marsaglia's `AD(n, z)` -/

section interp
variable {α : Type} [Add α] [Sub α] [Mul α] [Div α] [LT α] [DecidableLT α] [LE α] [DecidableLE α]

/-- `np.interp` to the right of the knot `(x0, f0)` (`x0 ≤ x`): linear between consecutive knots,
the last ordinate beyond the last knot -/
def interpAux (x : α) : α → α → List α → List α → α
  | x0, f0, x1 :: xs, f1 :: fs =>
    if x < x1 then (if x ≤ x0 then f0 else (f1 - f0) / (x1 - x0) * (x - x0) + f0)
    else interpAux x x1 f1 xs fs
  | _, f0, _, _ => f0

/-- `np.interp(x, xp, fp)` for increasing `xp`; `none` for empty tables -/
def interp (x : α) : List α → List α → Option α
  | x0 :: xs, f0 :: fs => some (if x < x0 then f0 else interpAux x x0 f0 xs fs)
  | _, _ => none

/-- `np.argmin(np.abs(nsample - CVM_NSAMPLE))`: first position of the closest tabulated sample size -/
def closestIdx (n : Nat) : List Nat → Option Nat
  | [] => none
  | s :: rest =>
    let d (a : Nat) : Nat := if a < n then n - a else a - n
    let rec go (best bestd i : Nat) : List Nat → Nat
      | [] => best
      | t :: ts => if d t < bestd then go i (d t) (i + 1) ts else go best bestd (i + 1) ts
    some (go 0 (d s) 1 rest)

end interp

section cvmp
variable {α : Type} [Add α] [Sub α] [Mul α] [Div α] [LT α] [DecidableLT α] [LE α] [DecidableLE α] [NatCast α]

/-- a number of the shipped table: `mantissa / 10^scale` (Generated/CvmTable.lean, regenerated from the archive) -/
def ofMant (m : Nat) : α := (m : α) / ((10 ^ Gen.scale : Nat) : α)

/-- the p-value of `cramer_von_mises_test`: column of the closest tabulated sample size, `np.interp` of the
statistic over `CVM_QQ` -/
def cvmPvalue (nsample : Nat) (stat : α) : Option α :=
  match closestIdx nsample Gen.sizes with
  | none => none
  | some j =>
    match Gen.columns[j]? with
    | none => none
    | some col => interp stat (Gen.qq.map ofMant) (col.map ofMant)

end cvmp

section adp
variable {α : Type} [Add α] [Sub α] [Mul α] [Div α] [Neg α] [LT α] [DecidableLT α] [LE α] [DecidableLE α]
  [OfNat α 0] [OfNat α 1] [OfNat α 2] [NatCast α] [OfScientific α] [Transc α]

/-- `adinf(z)`: the asymptotic distribution function of the Anderson-Darling statistic (two fits) -/
def adinf (z : α) : α :=
  if z < 2 then
    Transc.exp (-1.2337141 / z) / Transc.sqrt z
      * (2.00012 + (0.247105 - (0.0649821 - (0.0347962 - (0.011672 - 0.00168691 * z) * z) * z) * z) * z)
  else
    Transc.exp (-Transc.exp (1.0776 - (2.30695 - (0.43424 - (0.082433 - (0.008056 - 0.0003146 * z) * z) * z) * z) * z))

/-- `AD(n, z) = adinf(z) + errfix(n, adinf(z))` -/
def adProb (n : Nat) (z : α) : α :=
  let nd : α := (n : α)
  let x := adinf z
  if 0.8 < x then
    x + (-130.2137 + (745.2337 - (1705.091 - (1950.646 - (1116.360 - 255.7844 * x) * x) * x) * x) * x) / nd
  else
    let c := 0.01265 + 0.1757 / nd
    if x < c then
      let v := x / c
      let v := Transc.sqrt v * (1 - v) * (((49 : Nat) : α) * v - ((102 : Nat) : α))
      x + v * (0.0037 / ((n * n : Nat) : α) + 0.00078 / nd + 0.00006) / nd
    else
      let v := (x - c) / (0.8 - c)
      let v := -0.00022633 + (6.54034 - (14.6538 - (14.458 - (8.259 - 1.91864 * v) * v) * v) * v) * v
      x + v * (0.04213 + 0.01365 / nd) / nd

/-- `pval<0 ? 0 : pval>1 ? 1 : pval` -/
def clamp01 (p : α) : α := if p < 0 then 0 else if 1 < p then 1 else p

/-- `outputs[1]`: the p-value returned with the statistic `stat = outputs[0]` -/
def adPvalue (n : Nat) (stat : α) : α := clamp01 (1 - adProb n stat)

end adp

/-! ### alpha: PIT of the random branch (with `pit`'s own default constant), then a uniformity test -/

section alpha
variable {α : Type} [Add α] [Sub α] [Mul α] [Div α] [Neg α] [LT α] [DecidableLT α] [LE α] [DecidableLE α]
  [OfNat α 0] [OfNat α 1] [OfNat α 2] [OfNat α 12] [OfNat α 50] [OfNat α 100] [NatCast α] [OfScientific α] [Transc α]

/-- `alpha(type="CV")`: statistic and p-value. `cst0` is the default `cst` of `pit` (0.3): `alpha` calls
`pit(obs, ens, random=True)` without passing its own `cst` on -/
def alphaCV (sort : List α → List α) (cst0 : α) (obs dobs : List α) (ens dens : List (List α)) : α × Option α :=
  let pits := pitRandomAll cst0 obs dobs ens dens
  let stat := cvmStat sort pits
  (stat, cvmPvalue pits.length stat)

/-- `alpha(type="AD")` -/
def alphaAD (sort : List (Option α) → List (Option α)) (prev0 cst0 : α) (obs dobs : List α)
    (ens dens : List (List α)) : Except ADErr (α × α) :=
  let pits := pitRandomAll cst0 obs dobs ens dens
  match adTest sort prev0 (pits.map some) with
  | .ok s => .ok (s, adPvalue pits.length s)
  | .error e => .error e

end alpha

end HydroVerif.C10
