/-
C08 — specification vocabulary, executable and Mathlib-free so that the driver can run the SPECIFICATION side of every
theorem on the correspondence stream (requests `aggspec`, `aggpg`, `homogspec`, `homogpg`, `stampinfo` of
Drivers/C08.lean) next to the kernels' loops.

Nothing here looks at the kernels' loop structure: a group is a `filter`, the keys are `eraseDups`, the reductions are
the textbook ones.  `sumL` adds from the left starting at 0 — the order in which a C loop accumulates — so that the
`Float` instance of the specification is comparable bit for bit with the kernels; over an ordered field it is
`List.sum` (`sumL_eq_sum` in Lemmas/C08.lean) and `maxOf` is `List.maximum` (`maxOf_eq_maximum`).
-/
import HydroVerif.Model.C08

namespace HydroVerif.C08

/-- the inputs carrying index value `k`, in order -/
def groupOf {β : Type} (l : List (Int × β)) (k : Int) : List β :=
  (l.filter fun p => p.1 == k).map Prod.snd

/-- the distinct index values, in order of first appearance -/
def keys {β : Type} (l : List (Int × β)) : List Int := (l.map Prod.fst).eraseDups

/-- the non-missing values of a group, in order -/
def vals {α : Type} (g : List (Option α)) : List α := g.filterMap id

/-- the number of missing values of a group -/
def nmiss {α : Type} (g : List (Option α)) : Nat := g.countP Option.isNone

section vocab
variable {α : Type} [Add α] [Div α] [LT α] [DecidableLT α] [OfNat α 0] [NatCast α]

/-- the kernel's running reduction after a whole group (left fold of `accStep`) -/
def accOf (op : Int) (g : List (Option α)) : Acc α := g.foldl (accStep op) Acc.init

/-- the outputs `c_flathomogen` writes for one finished group, in input order -/
def hcells (maxnan : Int) (g : List (Option α)) : List (Option α) := hflush maxnan (accOf 0 g) g

/-- sum from the left, starting at 0 -/
def sumL (v : List α) : α := v.foldl (· + ·) 0

/-- greatest element (the first of equal ones); 0 for the empty list -/
def maxOf : List α → α
  | [] => 0
  | a :: t => t.foldl (fun m x => if m < x then x else m) a

/-- the reduction of the non-missing values of a group that each operator stands for
(a group with no non-missing value reduces to 0, the kernel's initial value) -/
def red (op : Int) (v : List α) : α :=
  if op = 0 then sumL v
  else if op = 1 then (if v.isEmpty then 0 else sumL v / (v.length : α))
  else if op = 2 then maxOf v
  else v.getLast?.getD 0

/-- value of a group: NaN when it holds more than `maxnan` missing values, else the reduction of the others -/
def reduce (op maxnan : Int) (g : List (Option α)) : Option α :=
  if maxnan < (nmiss g : Int) then none else some (red op (vals g))

/-- the value `flathomogen` writes at a position holding `x` inside the group `g` -/
def cell (maxnan : Int) (g : List (Option α)) (x : Option α) : Option α :=
  match x with
  | none => none
  | some _ => if maxnan < (nmiss g : Int) then none else some (sumL (vals g) / ((vals g).length : α))

/-- right-hand side of `aggregate_spec`: one reduced value per distinct index value -/
def aggregateSpec (op maxnan : Int) (l : List (Int × Option α)) : List (Option α) :=
  (keys l).map fun k => reduce op maxnan (groupOf l k)

/-- right-hand side of `aggregate_per_group_any_carrier` -/
def aggregatePerGroup (op maxnan : Int) (l : List (Int × Option α)) : List (Option α) :=
  (keys l).map fun k => flush op maxnan (accOf op (groupOf l k))

/-- right-hand side of `flathomogen_spec` -/
def flathomogenSpec (maxnan : Int) (l : List (Int × Option α)) : List (Option α) :=
  l.map fun p => cell maxnan (groupOf l p.1) p.2

/-- right-hand side of `flathomogen_per_group_any_carrier` -/
def flathomogenPerGroup (maxnan : Int) (l : List (Int × Option α)) : List (Option α) :=
  (keys l).flatMap fun k => hcells maxnan (groupOf l k)

end vocab

/-- non-decreasing, decided by comparing every element with its predecessor (what the kernels do) -/
def nondecreasing : List Int → Bool
  | [] => true
  | [_] => true
  | a :: b :: r => decide (a ≤ b) && nondecreasing (b :: r)

/-! ### time stamps (compute_aggindex) -/

/-- a time stamp pandas can hold: month 1..12, day 1..31, hour 0..23 -/
def Stamp.valid (t : Stamp) : Prop := 1 ≤ t.m ∧ t.m ≤ 12 ∧ 1 ≤ t.d ∧ t.d ≤ 31 ∧ t.h ≤ 23

instance (t : Stamp) : Decidable t.valid := by unfold Stamp.valid; infer_instance

/-- chronological order on (year, month, day, hour), lexicographic -/
def Stamp.le (a b : Stamp) : Prop :=
  a.y < b.y ∨ (a.y = b.y ∧ (a.m < b.m ∨ (a.m = b.m ∧ (a.d < b.d ∨ (a.d = b.d ∧ a.h ≤ b.h)))))

instance (a b : Stamp) : Decidable (Stamp.le a b) := by unfold Stamp.le; infer_instance

/-- every stamp against its successor (chronological order is transitive: `chrono_iff_pairwise`) -/
def chrono : List Stamp → Bool
  | [] => true
  | [_] => true
  | a :: b :: r => decide (Stamp.le a b) && chrono (b :: r)

end HydroVerif.C08
