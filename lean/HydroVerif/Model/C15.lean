/-
C15 — model of point-in-polygon:
  * `c_inside` (src/hydrodiy/gis/c_points_inside_polygon.c): bounding-box rejection, edge loop with the
    half-open rule `y > fmin`, `y <= fmax`, the pre-test `x <= fmax`, the abscissa `xinters` with its two
    `atol` guards, the toggle `inside = 1 - inside`;
  * the Cython wrapper (polygon extent = column min / max) and `gutils.points_inside_polygon`
    (int32 conversion of `nprint`, dtype and length check of a caller-supplied answer vector, zero initialisation);
  * `Grid.cells_inside_polygon` (cell centres from `getcoord`, default tolerance, cells kept where the answer is 1).
Besides the model of the code, this file holds the tolerance-free even-odd specification (`evenOdd`,
`evenOddLeft`) the theorems of `Props/C15.lean` relate it to; the driver runs both.

No Mathlib. Generic over the numeric type: `Float` (driver), `Rat` (driver, exact), ordered fields (theorems).
A point / vertex is a pair `(x, y)`; an answer is a `Bool` (`true` = the C `1`).
-/
import HydroVerif.Num
namespace HydroVerif.C15

inductive Err
  | nprintRange    -- `np.int32(nprint)` of a Python integer outside the int32 range (gutils.py: OverflowError, first statement)
  | insideDtype    -- caller-supplied answer vector not of dtype int32 (gutils.py: ValueError, tested first)
  | insideLength   -- caller-supplied answer vector of the wrong length (gutils.py: ValueError, tested second)
  | shapeAssert    -- `points.shape[1] == 2` / `polygon.shape[1] == 2` (c_hydrodiy_gis.pyx: bare AssertionError)
  | emptyPolygon   -- `polygon[:, 0].min()` of a 0-row array raises (ValueError, last)
  deriving DecidableEq, Repr

/-! ### the closed edge cycle and parity (used by the specification) -/

def edgesFrom {α : Type} : α × α → List (α × α) → List ((α × α) × (α × α))
  | _, [] => []
  | p1, p2 :: rest => (p1, p2) :: edgesFrom p2 rest

/-- the closed cycle of edges `v0→v1, …, v(n-1)→v0` -/
def edges {α : Type} (poly : List (α × α)) : List ((α × α) × (α × α)) :=
  match poly with
  | [] => []
  | v0 :: t => edgesFrom v0 (t ++ [v0])

def parity : List Bool → Bool
  | [] => false
  | b :: t => xor b (parity t)

section generic
variable {α : Type} [Add α] [Sub α] [Mul α] [Div α] [Neg α] [LT α] [DecidableLT α] [LE α] [DecidableLE α]
  [OfNat α 0]

/-! ### C library functions (NaN is outside the model) -/

def fmin (a b : α) : α := if a < b then a else b
def fmax (a b : α) : α := if a < b then b else a
def fabs (a : α) : α := if a < 0 then -a else a

/-! ### `c_inside` -/

/-- lines 55–58: `xinters = p1x; if (fabs(p1y-p2y) > atol) xinters += (y-p1y)*(p2x-p1x)/(p2y-p1y);` -/
def xinters (atol y : α) (p1 p2 : α × α) : α :=
  if atol < fabs (p1.2 - p2.2) then p1.1 + (y - p1.2) * (p2.1 - p1.1) / (p2.2 - p1.2) else p1.1

/-- lines 49–63: does the edge `p1 → p2` flip `inside[ipt]`? -/
def edgeToggle (atol x y : α) (p1 p2 : α × α) : Bool :=
  if fmin p1.2 p2.2 < y then
    if y ≤ fmax p1.2 p2.2 then
      if x ≤ fmax p1.1 p2.1 then
        decide (fabs (p1.1 - p2.1) < atol) || decide (x ≤ xinters atol y p1 p2)
      else false
    else false
  else false

/-- the vertex loop (lines 43–68): `p1` is the current start vertex, the list holds the remaining end vertices -/
def walk (atol x y : α) : α × α → List (α × α) → Bool → Bool
  | _, [], ins => ins
  | p1, p2 :: rest, ins => walk atol x y p2 rest (xor ins (edgeToggle atol x y p1 p2))

/-- lines 39–68 for one point that passed the box test: start at vertex 0 with `inside = 0`, visit vertices
`1, …, n-1, 0` (`ivert % nvertices`) -/
def crossing (atol : α) (poly : List (α × α)) (pt : α × α) : Bool :=
  match poly with
  | [] => false
  | v0 :: t => walk atol pt.1 pt.2 v0 (t ++ [v0]) false

/-- lines 27–29 -/
def outsideBox (xlim ylim : α × α) (pt : α × α) : Bool :=
  decide (pt.1 < xlim.1) || decide (xlim.2 < pt.1) || decide (pt.2 < ylim.1) || decide (ylim.2 < pt.2)

/-- the kernel: points outside the box keep whatever the answer vector held on entry -/
def cInside (atol : α) (poly : List (α × α)) (xlim ylim : α × α) (pts : List (α × α)) (inside0 : List Bool) :
    List Bool :=
  List.zipWith (fun pt i0 => if outsideBox xlim ylim pt then i0 else crossing atol poly pt) pts inside0

/-! ### wrappers -/

/-- `numpy.min` / `numpy.max` of a non-empty column, left to right -/
def colMin : α → List α → α
  | m, [] => m
  | m, a :: t => colMin (fmin m a) t
def colMax : α → List α → α
  | m, [] => m
  | m, a :: t => colMax (fmax m a) t

/-- `(min, max)` of the x column and of the y column (c_hydrodiy_gis.pyx:484-488) -/
def extentX (v0 : α × α) (t : List (α × α)) : α × α := (colMin v0.1 (t.map (·.1)), colMax v0.1 (t.map (·.1)))
def extentY (v0 : α × α) (t : List (α × α)) : α × α := (colMin v0.2 (t.map (·.2)), colMax v0.2 (t.map (·.2)))

/-- one point through wrapper + kernel, the answer vector holding `init` on entry -/
def pointInsideFrom (init : Bool) (atol : α) (poly : List (α × α)) (pt : α × α) : Bool :=
  match poly with
  | [] => init
  | v0 :: t => if outsideBox (extentX v0 t) (extentY v0 t) pt then init else crossing atol poly pt

/-- one point through `gutils.points_inside_polygon` (answer vector zero-initialised) -/
def pointInside (atol : α) (poly : List (α × α)) (pt : α × α) : Bool := pointInsideFrom false atol poly pt

/-- `gutils.points_inside_polygon(points, polygon, inside, atol)`: `insideLen` is the length of the caller's
answer vector when one is passed (its content is overwritten with zeros before the kernel runs) -/
def pointsInsidePolygon (atol : α) (pts : List (α × α)) (poly : List (α × α)) (insideLen : Option Nat) :
    Except Err (List Bool) :=
  if (match insideLen with | some n => n != pts.length | none => false) then .error .insideLength
  else match poly with
    | [] => .error .emptyPolygon
    | v0 :: t => .ok (cInside atol poly (extentX v0 t) (extentY v0 t) pts (List.replicate pts.length false))

/-- the whole call as the Python caller makes it: `ptsWidth` / `polyWidth` are `points.shape[1]` /
`polygon.shape[1]` (the pairs hold the first two columns), `inside` is `(dtype is int32, length)` of the answer
vector when one is passed. Order of the guards as in the code: dtype, length (gutils.py), the two shape asserts
(pyx), empty polygon (numpy `min`). 1-d / 3-d arrays are refused by Cython's buffer typing and are not modelled. -/
def pointsInsidePolygonCall (atol : α) (ptsWidth : Nat) (pts : List (α × α)) (polyWidth : Nat)
    (poly : List (α × α)) (inside : Option (Bool × Nat)) : Except Err (List Bool) :=
  if (match inside with | some (isInt32, _) => !isInt32 | none => false) then .error .insideDtype
  else if (match inside with | some (_, n) => n != pts.length | none => false) then .error .insideLength
  else if ptsWidth != 2 || polyWidth != 2 then .error .shapeAssert
  else pointsInsidePolygon atol pts poly (inside.map (·.2))

/-- … with the `nprint` argument. `nprint = np.int32(nprint)` is the first statement of the wrapper: an integer outside
the int32 range is refused (OverflowError) before any other argument is looked at; a value in range only sets how
often the kernel logs its progress on stdout (`nprint > 0`) and decides no answer -/
def pointsInsidePolygonCallN (nprint : Int) (atol : α) (ptsWidth : Nat) (pts : List (α × α)) (polyWidth : Nat)
    (poly : List (α × α)) (inside : Option (Bool × Nat)) : Except Err (List Bool) :=
  if nprint < -2147483648 || 2147483647 < nprint then .error .nprintRange
  else pointsInsidePolygonCall atol ptsWidth pts polyWidth poly inside

/-! ### `Grid.cells_inside_polygon` -/

/-- `getcoord` (c_grid.c:27-42): centre of cell `idx`, cells numbered row by row from the top-left corner -/
def cellCentre [NatCast α] (nrows ncols : Nat) (xll yll csz : α) (idx : Nat) : α × α :=
  let nx := idx % ncols
  let ny := (idx - nx) / ncols
  let half : α := ((1 : Nat) : α) / ((2 : Nat) : α)
  (xll + csz * ((nx : α) + half), yll + csz * (((nrows - 1 - ny : Nat) : α) + half))

/-- `Grid.cells_inside_polygon(polygon, atol)`: the `atol` argument is not forwarded, the default of
`points_inside_polygon` (`atolDefault`, 1e-8) is what reaches the kernel -/
def cellsInside [NatCast α] (nrows ncols : Nat) (xll yll csz : α) (atolDefault : α) (poly : List (α × α)) :
    Except Err (List Nat) :=
  let cells := List.range (nrows * ncols)
  match pointsInsidePolygon atolDefault (cells.map (cellCentre nrows ncols xll yll csz)) poly none with
  | .error e => .error e
  | .ok ins => .ok (((cells.zip ins).filter (·.2)).map (·.1))

/-- the returned table: columns `x = points[inside, 0]`, `y = points[inside, 1]`, `cell = ncells[inside]`
(boolean-mask selection of the rows of the centre array and of the cell numbers) -/
def cellsInsideTable [NatCast α] (nrows ncols : Nat) (xll yll csz : α) (atolDefault : α) (poly : List (α × α)) :
    Except Err (List (α × α × Nat)) :=
  let cells := List.range (nrows * ncols)
  let pts := cells.map (cellCentre nrows ncols xll yll csz)
  match pointsInsidePolygon atolDefault pts poly none with
  | .error e => .error e
  | .ok ins => .ok ((((pts.zip cells).zip ins).filter (·.2)).map fun r => (r.1.1.1, r.1.1.2, r.1.2))

/-! ### the even-odd rule, free of tolerances, pre-tests and boxes (specification) -/

/-- is the vertex ordinate strictly below the horizontal line through the point? -/
def below (y py : α) : Bool := decide (py < y)

/-- half-open rule: exactly one end point strictly below the line -/
def straddle (y : α) (p1 p2 : α × α) : Bool := xor (below y p1.2) (below y p2.2)

/-- abscissa at which the line through `p1`, `p2` meets the horizontal through `y` -/
def xint (y : α) (p1 p2 : α × α) : α := p1.1 + (y - p1.2) * (p2.1 - p1.1) / (p2.2 - p1.2)

/-- the edge crosses the open ray going right / left from the point -/
def crossR (x y : α) (p1 p2 : α × α) : Bool := straddle y p1 p2 && decide (x < xint y p1 p2)
def crossL (x y : α) (p1 p2 : α × α) : Bool := straddle y p1 p2 && decide (xint y p1 p2 < x)
/-- crossing of the closed right ray (what `c_inside` counts when its guards are inactive) -/
def crossRle (x y : α) (p1 p2 : α × α) : Bool := straddle y p1 p2 && decide (x ≤ xint y p1 p2)

/-- even-odd rule with the ray going right: odd number of crossed edges -/
def evenOdd (poly : List (α × α)) (pt : α × α) : Bool :=
  parity ((edges poly).map fun e => crossR pt.1 pt.2 e.1 e.2)
/-- the same with the ray going left -/
def evenOddLeft (poly : List (α × α)) (pt : α × α) : Bool :=
  parity ((edges poly).map fun e => crossL pt.1 pt.2 e.1 e.2)
/-- closed right ray -/
def evenOddLe (poly : List (α × α)) (pt : α × α) : Bool :=
  parity ((edges poly).map fun e => crossRle pt.1 pt.2 e.1 e.2)

/-- coordinates of `V` in the frame with origin `P` whose first axis is the direction `d` (not normalised:
a rotation followed by a scaling by `|d|`) -/
def rot (d P V : α × α) : α × α :=
  (d.1 * (V.1 - P.1) + d.2 * (V.2 - P.2), d.1 * (V.2 - P.2) - d.2 * (V.1 - P.1))

/-- the edge `A B` crosses the open ray `P + s d`, `s > 0`: its end points lie on different sides of the line
through `P` along `d` (half-open rule: a vertex on the line counts with the left side) and the crossing point is
ahead of `P` -/
def crossDir (d P A B : α × α) : Bool := crossR 0 0 (rot d P A) (rot d P B)

/-- even-odd rule along an arbitrary ray direction `d` -/
def evenOddDir (d : α × α) (poly : List (α × α)) (P : α × α) : Bool :=
  parity ((edges poly).map fun e => crossDir d P e.1 e.2)

/-- twice the signed area of the triangle `p1 p2 q`: positive iff `q` is strictly left of `p1 → p2` -/
def cross (p1 p2 q : α × α) : α := (p2.1 - p1.1) * (q.2 - p1.2) - (p2.2 - p1.2) * (q.1 - p1.1)

end generic

end HydroVerif.C15
