/-
C11 — model of flow accumulation: `c_accumulate` (`hydrodiy/gis/c_grid.c`, with the one-entry call of
`c_downstream` it makes at every step) and the wrapper `hydrodiy.gis.grid.accumulate` (`grid.py`).

No Mathlib. Total and computable; the driver runs these definitions at `Float` (IEEE double, the kernel's
type). The integer grid core (cell <-> (row, col), `validCell`, `neighbour k`) is imported from the C07 model.

The code modelled is the one AFTER the `fix:` commit "flow accumulation adds the value of the source cell":
the walk that starts from cell `i` adds `to_accumulate[i]` to every cell it visits (the pinned kernel added
`to_accumulate[visited cell]`; that variant is kept as `walkPinned` for replay diagnostics).

Buffers are `Array`s with checked access (`Err.oob` instead of a default value): the kernel receives
`nrows`, `ncols` from `flowdir.shape` and the wrapper asserts the other two shapes, so `oob` is unreachable
under `flowdir.size = field.size = acc.size = nrows*ncols` — that is a theorem (`Props/C11.lean`), not a
convention. `nprint` only drives `fprintf` and is not modelled (`nprint = 0` divides by zero: C05's matter).

The flow-direction code table (`FLOWDIRCODE.ravel()`, 9 entries) is a parameter `codes`; the harness reads it
from `grid.py` at run time and passes it with every request.
-/
import HydroVerif.Model.C07

namespace HydroVerif.C11
open HydroVerif.C07

inductive Err
  /-- `max_accumulated_cells < 1` -/
  | badMaxCells
  /-- `nrows < 1 || nrows < 1` (the code tests `nrows` twice; `ncols` is not tested) -/
  | badDims
  /-- `c_downstream` returned an error code (cell number outside the grid) -/
  | downstream
  /-- a buffer index outside its buffer (undefined behaviour in C) -/
  | oob
  /-- the Cython wrapper's `assert`s: `to_accumulate` / `accumulation` do not have the shape of `flowdir` -/
  | shape
  deriving DecidableEq, Repr

/-- flow-direction grid as the kernel sees it: dimensions, the 3x3 code table flattened, row-major data -/
structure FlowGrid where
  nrows : Int
  ncols : Int
  codes : List Int
  flowdir : Array Int

/-- `ntot = nrows*ncols` -/
def FlowGrid.ntot (g : FlowGrid) : Int := g.nrows * g.ncols

/-- the scan `for(j=0;j<9;j++) if(fd == flowdircode[j]) idxdown = neighbours[j];` — there is no `break`
(the `continue` is the last statement of the body), so the LAST matching code wins. `j` is the current
position, `d` the value of `idxdown` so far. -/
def downScan (nrows ncols idx fd : Int) : List Int → Nat → Int → Int
  | [], _, d => d
  | code :: rest, j, d =>
    downScan nrows ncols idx fd rest (j + 1) (if fd = code then neighbour nrows ncols idx j else d)

/-- one entry of `c_downstream` (`nval = 1`): error for a cell outside the grid, else
`-2` for a sink (`fd = 0`), `-1` for a code not in the table or pointing off the grid, else the neighbour -/
def downstream (g : FlowGrid) (idx : Int) : Except Err Int :=
  if validCell g.nrows g.ncols idx then
    match g.flowdir[idx.toNat]? with
    | none => .error .oob
    | some fd => .ok (if fd = 0 then -2 else downScan g.nrows g.ncols idx fd g.codes 0 (-1))
  else .error .downstream

/-- downstream cell as a plain number (negative = the cell drains nowhere / is not a cell) -/
def dn (g : FlowGrid) (idx : Int) : Int :=
  match downstream g idx with
  | .ok d => d
  | .error _ => -1

section Walk
variable {α : Type} [Add α]

/-- `buf[i] = x` -/
def writeAt (a : Array α) (i : Int) (x : α) : Except Err (Array α) :=
  if h : 0 ≤ i ∧ i.toNat < a.size then .ok (a.set i.toNat x h.2) else .error .oob

/-- `buf[i] += v` -/
def addAt (a : Array α) (i : Int) (v : α) : Except Err (Array α) :=
  if h : 0 ≤ i ∧ i.toNat < a.size then .ok (a.set i.toNat (a[i.toNat]'h.2 + v) h.2) else .error .oob

/-- the `while(accumulated_cells <= max_accumulated_cells)` loop for the source cell `src`:
`fuel` = iterations left, `cur` = `idxup[0]`. Each iteration: find the downstream cell `d` of `cur`;
`d < 0` → `accumulation[cur] = nodata`, stop; else `accumulation[d] += to_accumulate[src]`, go on from `d`. -/
def walk (g : FlowGrid) (field : Array α) (nodata : α) (src : Nat) : Nat → Int → Array α → Except Err (Array α)
  | 0, _, acc => .ok acc
  | fuel + 1, cur, acc =>
    match downstream g cur with
    | .error _ => .error .downstream
    | .ok d =>
      if d < 0 then writeAt acc cur nodata
      else
        match field[src]? with
        | none => .error .oob
        | some v =>
          match addAt acc d v with
          | .error e => .error e
          | .ok acc' => walk g field nodata src fuel d acc'

/-- the kernel as it was at the pinned commit: adds `to_accumulate[d]` (the value of the cell being
incremented). Equal to `walk` exactly when the field is uniform along the walk. Diagnostics only. -/
def walkPinned (g : FlowGrid) (field : Array α) (nodata : α) : Nat → Int → Array α → Except Err (Array α)
  | 0, _, acc => .ok acc
  | fuel + 1, cur, acc =>
    match downstream g cur with
    | .error _ => .error .downstream
    | .ok d =>
      if d < 0 then writeAt acc cur nodata
      else
        match field[d.toNat]? with
        | none => .error .oob
        | some v =>
          match addAt acc d v with
          | .error e => .error e
          | .ok acc' => walkPinned g field nodata fuel d acc'

/-- the outer `for(i=0;i<ntot;i++)` loop over the source cells still to do -/
def accLoop (g : FlowGrid) (field : Array α) (nodata : α) (fuel : Nat) :
    List Nat → Array α → Except Err (Array α)
  | [], acc => .ok acc
  | i :: rest, acc =>
    match walk g field nodata i fuel (i : Int) acc with
    | .error e => .error e
    | .ok acc' => accLoop g field nodata fuel rest acc'

def accLoopPinned (g : FlowGrid) (field : Array α) (nodata : α) (fuel : Nat) :
    List Nat → Array α → Except Err (Array α)
  | [], acc => .ok acc
  | i :: rest, acc =>
    match walkPinned g field nodata fuel (i : Int) acc with
    | .error e => .error e
    | .ok acc' => accLoopPinned g field nodata fuel rest acc'

/-- number of iterations the `while` loop can make: `accumulated_cells` runs from 0 while `<= max` -/
def fuelOf (maxCells : Int) : Nat := (maxCells + 1).toNat

/-- `c_accumulate`: the two guards, then the double loop; `acc0` is the `accumulation` buffer on entry -/
def cAccumulate (g : FlowGrid) (maxCells : Int) (nodata : α) (field acc0 : Array α) :
    Except Err (Array α) :=
  if maxCells < 1 then .error .badMaxCells
  else if g.nrows < 1 ∨ g.nrows < 1 then .error .badDims
  else accLoop g field nodata (fuelOf maxCells) (List.range g.ntot.toNat) acc0

def cAccumulatePinned (g : FlowGrid) (maxCells : Int) (nodata : α) (field acc0 : Array α) :
    Except Err (Array α) :=
  if maxCells < 1 then .error .badMaxCells
  else if g.nrows < 1 ∨ g.nrows < 1 then .error .badDims
  else accLoopPinned g field nodata (fuelOf maxCells) (List.range g.ntot.toNat) acc0

/-- `max_accumulated_cells == -1` → `nrows*ncols` -/
def capOf (g : FlowGrid) (maxCells : Int) : Int := if maxCells = -1 then g.nrows * g.ncols else maxCells

/-- `grid.accumulate(flowdir, to_accumulate, nprint, max_accumulated_cells)` with a given field:
default cap, accumulation buffer initialised as a copy of the field (`to_accumulate.clone()`),
no-data value of the field grid -/
def accumulate (g : FlowGrid) (maxCells : Int) (nodata : α) (field : Array α) : Except Err (Array α) :=
  cAccumulate g (capOf g maxCells) nodata field field

/-- `to_accumulate=None`: the field is `flowdir.clone()` filled with 1 -/
def accumulateUnit [OfNat α 1] (g : FlowGrid) (maxCells : Int) (nodata : α) : Except Err (Array α) :=
  accumulate g maxCells nodata (Array.replicate g.flowdir.size (1 : α))

/-! ### the two float buffers as memory: `to_accumulate` and `accumulation` may be the SAME array

`c_accumulate` receives two `double*`. The pure functions above thread only the accumulation buffer; here
both buffers live in a store so that "the kernel writes only through the `accumulation` pointer" and "the
wrapper hands it a copy" are statements with content: with `aliased = true` (one array passed twice) every
write is also seen by the reads of `to_accumulate[i]`. -/

structure Store (α : Type) where
  field : Array α
  acc : Array α
  /-- the two pointers designate the same memory (`acc` is then ignored) -/
  aliased : Bool
  deriving DecidableEq

/-- the memory behind the `accumulation` pointer -/
def Store.accArr (s : Store α) : Array α := if s.aliased then s.field else s.acc
/-- store through the `accumulation` pointer -/
def Store.setAcc (s : Store α) (a : Array α) : Store α :=
  if s.aliased then { s with field := a } else { s with acc := a }

/-- `walk` on the store: `to_accumulate[src]` is read from memory at every step -/
def walkS (g : FlowGrid) (nodata : α) (src : Nat) : Nat → Int → Store α → Except Err (Store α)
  | 0, _, s => .ok s
  | fuel + 1, cur, s =>
    match downstream g cur with
    | .error _ => .error .downstream
    | .ok d =>
      if d < 0 then (writeAt s.accArr cur nodata).map s.setAcc
      else
        match s.field[src]? with
        | none => .error .oob
        | some v =>
          match addAt s.accArr d v with
          | .error e => .error e
          | .ok a => walkS g nodata src fuel d (s.setAcc a)

def accLoopS (g : FlowGrid) (nodata : α) (fuel : Nat) : List Nat → Store α → Except Err (Store α)
  | [], s => .ok s
  | i :: rest, s =>
    match walkS g nodata i fuel (i : Int) s with
    | .error e => .error e
    | .ok s' => accLoopS g nodata fuel rest s'

/-- `c_accumulate` on memory -/
def cAccumulateS (g : FlowGrid) (maxCells : Int) (nodata : α) (s : Store α) : Except Err (Store α) :=
  if maxCells < 1 then .error .badMaxCells
  else if g.nrows < 1 ∨ g.nrows < 1 then .error .badDims
  else accLoopS g nodata (fuelOf maxCells) (List.range g.ntot.toNat) s

/-! ### the wrapper on grid objects: shapes, default field, no-data value of the result -/

/-- a float grid as the wrapper sees it (`to_accumulate`, and the returned `accumulation`) -/
structure FieldGrid (α : Type) where
  nrows : Int
  ncols : Int
  data : Array α
  nodata : α
  deriving DecidableEq

/-- `grid.accumulate(flowdir, to_accumulate, nprint, max_accumulated_cells)` on grid objects.
`fdNodata` is `flowdir.nodata` as a double (used only when the default unit field is built from a clone of
`flowdir`). Order of the code: default cap; default field; `accumulation = to_accumulate.clone()` — a deep copy,
i.e. NOT aliased; the Cython `assert`s on the shapes; the kernel; the result is the clone (same no-data value
as the field, dimensions of the field = dimensions of `flowdir`). Returns the final memory and the result grid. -/
def gridAccumulate [OfNat α 1] (g : FlowGrid) (fdNodata : α) (field : Option (FieldGrid α)) (maxCells : Int) :
    Except Err (Store α × FieldGrid α) :=
  let f : FieldGrid α := match field with
    | some f => f
    | none => ⟨g.nrows, g.ncols, Array.replicate g.flowdir.size (1 : α), fdNodata⟩
  if f.nrows ≠ g.nrows ∨ f.ncols ≠ g.ncols then .error .shape
  else
    match cAccumulateS g (capOf g maxCells) f.nodata ⟨f.data, f.data, false⟩ with
    | .error e => .error e
    | .ok s => .ok (s, ⟨f.nrows, f.ncols, s.acc, f.nodata⟩)

/-! ### `nprint`: the progress lines of the outer loop

`if(nprint > 0 && i%nprint == 0) fprintf(...)` — the only use of `nprint`. The guard `nprint > 0` (a `fix:` commit)
keeps `i % 0` from being evaluated. The loop below is `accLoop` with that branch in place and a count of the lines
printed; the result does not depend on `nprint` (`Props`: `cAccumulateP_result`), for any integer, 0 and negatives
included. -/

/-- the branch `nprint > 0 && i % nprint == 0` of the source cell `i` -/
def progressAt (nprint : Int) (i : Nat) : Bool := decide (0 < nprint) && decide ((i : Int).tmod nprint = 0)

def accLoopP (g : FlowGrid) (field : Array α) (nodata : α) (fuel : Nat) (nprint : Int) :
    List Nat → Array α × Nat → Except Err (Array α × Nat)
  | [], st => .ok st
  | i :: rest, (acc, lines) =>
    let lines' := if progressAt nprint i then lines + 1 else lines
    match walk g field nodata i fuel (i : Int) acc with
    | .error e => .error e
    | .ok acc' => accLoopP g field nodata fuel nprint rest (acc', lines')

/-- `c_accumulate` with its `nprint` argument: the result and the number of progress lines printed -/
def cAccumulateP (g : FlowGrid) (nprint maxCells : Int) (nodata : α) (field acc0 : Array α) :
    Except Err (Array α × Nat) :=
  if maxCells < 1 then .error .badMaxCells
  else if g.nrows < 1 ∨ g.nrows < 1 then .error .badDims
  else accLoopP g field nodata (fuelOf maxCells) nprint (List.range g.ntot.toNat) (acc0, 0)

end Walk

/-! ### histories: what a caller holds between calls

`grid.accumulate` keeps nothing between calls, but the grid objects it is given and the one it returns are mutable and
can be the same object (the result of one call fed back as the field of the next). `Sess` is that picture: float grid
objects live on a heap and are designated by reference; the flow-direction grid is held by value (the wrapper never
returns it nor keeps a reference to it). `step` is one operation of the caller — a call, or an edit of one of the
objects through the public `Grid` interface (`data` setter with its shape guard, `data.flat[i] = v` / `grid[i] = v`,
`nodata` setter, `clone`) — and answers `rejected` exactly when the real operation raises. Values written are the
values the object holds afterwards (the dtype cast of numpy is external). -/

structure Sess (α : Type) where
  fd : FlowGrid
  /-- `flowdir.nodata` as a double (no-data value of the default unit field, a clone of `flowdir`) -/
  fdNodata : α
  heap : Array (FieldGrid α)
  /-- reference of the grid passed as `to_accumulate` (`none`: the default) -/
  field : Option Nat
  /-- reference of the grid returned by the last successful call -/
  res : Option Nat
  /-- `max_accumulated_cells` passed with every call -/
  cap : Int

inductive Op (α : Type) where
  /-- `res = accumulate(flowdir, field, max_accumulated_cells=cap)` -/
  | call
  | setCap (m : Int)
  /-- `flowdir.data.flat[i] = code` (IndexError outside `0 .. n-1`; numpy's negative indices are not used) -/
  | fdSetCell (i : Int) (code : Int)
  /-- `flowdir.data = array` (ValueError unless the array has the shape of the grid) -/
  | fdAssign (nrows ncols : Int) (data : Array Int)
  | fdSetNodata (v : α)
  /-- `flowdir = flowdir.clone()` / deepcopy / pickle round trip: an equal object (held by value here) -/
  | fdClone
  /-- `field.data.flat[i] = v` / `field[i] = v` -/
  | fSetCell (i : Int) (v : α)
  /-- `field.data = array` -/
  | fAssign (nrows ncols : Int) (data : Array α)
  | fSetNodata (v : α)
  /-- a new grid object becomes the field -/
  | fNew (f : FieldGrid α)
  /-- `to_accumulate=None` from now on -/
  | fDrop
  /-- `field = field.clone()`: a fresh object with equal contents -/
  | fClone
  /-- the caller edits the grid returned by the last call -/
  | rSetCell (i : Int) (v : α)
  | rFill (v : α)
  | rSetNodata (v : α)
  /-- the grid returned by the last call becomes the field (the same object) -/
  | feedBack

inductive Reply (α : Type) where
  | done
  /-- the operation raised; nothing has changed -/
  | rejected
  | result (r : FieldGrid α)
  deriving DecidableEq

section Hist
variable {α : Type}

/-- a `Grid` object is well-formed: `_data` has `nrows x ncols` entries (constructor, `data` setter) -/
def FieldGrid.wellShaped (f : FieldGrid α) : Bool := decide (f.data.size = (f.nrows * f.ncols).toNat)

/-- `grid.data.flat[i] = v` -/
def FieldGrid.setCell (f : FieldGrid α) (i : Int) (v : α) : Option (FieldGrid α) :=
  if 0 ≤ i ∧ i.toNat < f.data.size then some { f with data := f.data.setIfInBounds i.toNat v } else none

/-- `grid.data = array`: the shape guard of the `data` setter -/
def FieldGrid.assign (f : FieldGrid α) (nrows ncols : Int) (data : Array α) : Option (FieldGrid α) :=
  if nrows = f.nrows ∧ ncols = f.ncols ∧ data.size = (nrows * ncols).toNat then some { f with data := data } else none

/-- the grid object the reference `field` designates -/
def Sess.fieldGrid (s : Sess α) : Option (FieldGrid α) := s.field.bind fun q => s.heap[q]?
def Sess.resGrid (s : Sess α) : Option (FieldGrid α) := s.res.bind fun q => s.heap[q]?

/-- apply an edit to the object behind a reference -/
def Sess.editAt (s : Sess α) (ref : Option Nat) (e : FieldGrid α → Option (FieldGrid α)) : Sess α × Reply α :=
  match ref with
  | none => (s, .rejected)
  | some q =>
    match s.heap[q]? with
    | none => (s, .rejected)
    | some f =>
      match e f with
      | none => (s, .rejected)
      | some f' => ({ s with heap := s.heap.setIfInBounds q f' }, .done)

section Step
variable [Add α] [OfNat α 1]

def step (s : Sess α) : Op α → Sess α × Reply α
  | .call =>
    match gridAccumulate s.fd s.fdNodata s.fieldGrid s.cap with
    | .error _ => (s, .rejected)
    | .ok (st, r) =>
      -- the memory of the field after the kernel has run is written back to the field object
      -- (`Props`: it is what it was), the clone becomes a new object
      let heap := match s.field, s.fieldGrid with
        | some q, some f => s.heap.setIfInBounds q { f with data := st.field }
        | _, _ => s.heap
      ({ s with heap := heap.push r, res := some heap.size }, .result r)
  | .setCap m => ({ s with cap := m }, .done)
  | .fdSetCell i code =>
    if 0 ≤ i ∧ i.toNat < s.fd.flowdir.size then
      ({ s with fd := { s.fd with flowdir := s.fd.flowdir.setIfInBounds i.toNat code } }, .done)
    else (s, .rejected)
  | .fdAssign nrows ncols data =>
    if nrows = s.fd.nrows ∧ ncols = s.fd.ncols ∧ data.size = (nrows * ncols).toNat then
      ({ s with fd := { s.fd with flowdir := data } }, .done)
    else (s, .rejected)
  | .fdSetNodata v => ({ s with fdNodata := v }, .done)
  | .fdClone => (s, .done)
  | .fSetCell i v => s.editAt s.field fun f => f.setCell i v
  | .fAssign nrows ncols data => s.editAt s.field fun f => f.assign nrows ncols data
  | .fSetNodata v => s.editAt s.field fun f => some { f with nodata := v }
  | .fNew f =>
    if f.wellShaped then ({ s with heap := s.heap.push f, field := some s.heap.size }, .done) else (s, .rejected)
  | .fDrop => ({ s with field := none }, .done)
  | .fClone =>
    match s.fieldGrid with
    | none => (s, .rejected)
    | some f => ({ s with heap := s.heap.push f, field := some s.heap.size }, .done)
  | .rSetCell i v => s.editAt s.res fun f => f.setCell i v
  | .rFill v => s.editAt s.res fun f => some { f with data := Array.replicate f.data.size v }
  | .rSetNodata v => s.editAt s.res fun f => some { f with nodata := v }
  | .feedBack =>
    match s.res with
    | none => (s, .rejected)
    | some q => ({ s with field := some q }, .done)

/-- a whole history: the state reached and the answers, in order -/
def run (s : Sess α) : List (Op α) → Sess α × List (Reply α)
  | [] => (s, [])
  | op :: rest =>
    let (s1, r) := step s op
    let (s2, rs) := run s1 rest
    (s2, r :: rs)

/-- what the kernel receives as `to_accumulate` and `nodata_to_accumulate` in the state `s` -/
def Sess.input (s : Sess α) : Array α × α :=
  match s.fieldGrid with
  | some f => (f.data, f.nodata)
  | none => (Array.replicate s.fd.flowdir.size (1 : α), s.fdNodata)

end Step

end Hist

/-- a value type whose addition is followed by a rounding: `a + b := rnd (a.val + b.val)`. With `rnd` the rounding
to the nearest double this is IEEE addition; the generic kernel instantiated at `Rounded α rnd` is the kernel
computing in rounded arithmetic, and the `[Add α]` theorems (`accumulate_eq_fold` …) apply to it verbatim. -/
structure Rounded (α : Type) (rnd : α → α) where
  val : α
  deriving DecidableEq

instance {α : Type} [Add α] {rnd : α → α} : Add (Rounded α rnd) := ⟨fun a b => ⟨rnd (a.val + b.val)⟩⟩
instance {α : Type} [OfNat α 1] {rnd : α → α} : OfNat (Rounded α rnd) 1 := ⟨⟨1⟩⟩

/-! ### binary floating point as a rounding of exact rationals

`rndBits p` rounds a rational to `p` significant bits (nearest, ties to even, unbounded exponent range); the kernel at
`Rounded Rat (rndBits 53)` is the kernel in IEEE binary64 arithmetic away from overflow and subnormal numbers. The driver
runs it next to the `Float` instance (`accr` request: the two must agree bit for bit), and `Props` proves the hypotheses
of the rounded-arithmetic theorems for it (`rndBits_err`, `rndBits_int` in `Lemmas/C11Round.lean`). -/

/-- `2^k` for an integer exponent -/
def pow2 (k : Int) : Rat :=
  if 0 ≤ k then ((2 ^ k.toNat : Nat) : Rat) else 1 / ((2 ^ (-k).toNat : Nat) : Rat)

def absR (x : Rat) : Rat := if x < 0 then -x else x

/-- an exponent `k` with `2^k ≤ |x|`, looked for next to `log2 |num| - log2 den` (`none` is never met for `x ≠ 0`:
observed by the driver, not needed by the proofs — `rndBits` then returns `x` itself) -/
def expOf? (x : Rat) : Option Int :=
  let k0 : Int := (Nat.log2 x.num.natAbs : Int) - (Nat.log2 x.den : Int)
  if pow2 k0 ≤ absR x then some k0 else if pow2 (k0 - 1) ≤ absR x then some (k0 - 1) else none

/-- nearest integer, ties to even -/
def roundHalfEven (y : Rat) : Int :=
  let f := (y + 1 / 2).floor
  if ((f : Int) : Rat) = y + 1 / 2 ∧ f % 2 = 1 then f - 1 else f

/-- rounding to `p` significant bits, nearest, ties to even, unbounded exponent range: IEEE binary64 is `p = 53`
(away from overflow and subnormal numbers) -/
def rndBits (p : Nat) (x : Rat) : Rat :=
  if x = 0 then 0
  else match expOf? x with
    | none => x
    | some k =>
      let s := pow2 (k - (p : Int) + 1)
      ((roundHalfEven (x / s) : Int) : Rat) * s

/-- the exact value of a finite double -/
def ratOfFloat? (x : Float) : Option Rat :=
  let bits : Nat := x.toBits.toNat
  let neg : Bool := bits >>> 63 == 1
  let e : Nat := (bits >>> 52) &&& 0x7ff
  let m : Nat := bits &&& (2 ^ 52 - 1)
  if e == 0x7ff then none
  else
    let mag : Rat :=
      if e == 0 then ((m : Nat) : Rat) * pow2 (-1074) else (((m + 2 ^ 52 : Nat)) : Rat) * pow2 ((e : Int) - 1075)
    some (if neg then -mag else mag)

/-! ### specification vocabulary (computable, used by the theorems and by `example`s) -/

/-- the cell where the walk from `cur` stops within `fuel` iterations (`none`: the cap came first) -/
def endsAt (g : FlowGrid) : Nat → Int → Option Int
  | 0, _ => none
  | fuel + 1, cur => if dn g cur < 0 then some cur else endsAt g fuel (dn g cur)

/-- how many times the walk from `cur` adds to cell `j` within `fuel` iterations -/
def hitCount (g : FlowGrid) : Nat → Int → Int → Nat
  | 0, _, _ => 0
  | fuel + 1, cur, j =>
    if dn g cur < 0 then 0
    else (if dn g cur = j then 1 else 0) + hitCount g fuel (dn g cur) j

/-- `j` is strictly downstream of `cur` (reached by the walk from `cur` within `fuel` iterations) -/
def onPath (g : FlowGrid) : Nat → Int → Int → Bool
  | 0, _, _ => false
  | fuel + 1, cur, j =>
    if dn g cur < 0 then false
    else decide (dn g cur = j) || onPath g fuel (dn g cur) j

/-- `k` downstream steps from `c` (negative once the chain has left the grid / stopped) -/
def iterDn (g : FlowGrid) : Nat → Int → Int
  | 0, c => c
  | k + 1, c => iterDn g k (dn g c)

/-- `x + v + v + ... + v` (`k` additions, in the order the kernel performs them) -/
def addN {α : Type} [Add α] : Nat → α → α → α
  | 0, _, x => x
  | k + 1, v, x => addN k v (x + v)

/-- cells whose final value depends on the order in which the outer loop visits the source cells:
terminal cells incremented by a walk that the cap stopped before it could reset them. Empty when every
walk terminates (`AllTerminate`). Used by the harness to leave those cells out of the comparison on
capped / cyclic inputs (the property does not constrain them). -/
def orderSensitive (g : FlowGrid) (fuel : Nat) : List Int :=
  (List.range g.ntot.toNat).filterMap fun (u : Nat) =>
    if (endsAt g fuel (u : Int)).isNone then
      let t := iterDn g fuel (u : Int)
      if 0 ≤ t ∧ dn g t < 0 then some t else none
    else none

/-- computable upstream closure of `c`: `c` and the cells whose walk passes through `c` -/
def upClosure (g : FlowGrid) (fuel : Nat) (c : Int) : List Nat :=
  (List.range g.ntot.toNat).filter fun (u : Nat) => decide ((u : Int) = c) || onPath g fuel (u : Int) c

/-- computable list of the direct upstream cells of `c` -/
def directUpList (g : FlowGrid) (c : Int) : List Nat :=
  (List.range g.ntot.toNat).filter fun (u : Nat) => decide (dn g (u : Int) = c)

/-- every walk reaches a cell that drains nowhere before the cap -/
def AllTerminate (g : FlowGrid) (fuel : Nat) : Prop :=
  ∀ c : Int, validCell g.nrows g.ncols c = true → (endsAt g fuel c).isSome = true

/-- decidable form of `AllTerminate` for concrete grids -/
def allTerminateB (g : FlowGrid) (fuel : Nat) : Bool :=
  (List.range g.ntot.toNat).all fun i => (endsAt g fuel (i : Int)).isSome

end HydroVerif.C11
