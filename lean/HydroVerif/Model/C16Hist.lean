/-
C16 — histories of calls on live objects.

`Catchment.intersect` and `grid.voronoi` keep no state of their own: what a history of calls can depend on is the
contents of the objects the caller holds — `Catchment` objects (flow-direction grid geometry, the two cell arrays),
`Grid` objects (plain attributes `nrows ncols cellsize xllcorner yllcorner`, assigned without any validation) and
the points array — which the caller may edit in place, re-assign, clone (`clone`, `copy.deepcopy`, `pickle`) or
combine (`Catchment.__add__`, `Catchment.__sub__`) between calls. `step` is one operation of such a history: a call
reads the objects as they are at that moment and writes none of them; whatever it returns is a fresh array, so
editing it in place (`editReturned`) changes nothing either; a rejected operation leaves every object as it was.
No Mathlib.
-/
import HydroVerif.Model.C16

namespace HydroVerif.C16
open HydroVerif.C07

/-- the objects a history works on -/
structure World (α : Type) where
  /-- the `Catchment` objects alive, in the order they were created -/
  cats : List (Catchment α)
  /-- the `Grid` objects alive (the grids handed to `intersect`) -/
  grids : List (Geom α)
  /-- the points array handed to `voronoi` (an `(n, 2)` float64 array edited in place) -/
  pts : List (α × α)

/-- why an operation of a history is rejected (the objects stay as they were) -/
inductive HErr
  /-- there is no such object (Python: `IndexError` in the caller's own list) -/
  | noSuchObject
  /-- `Catchment.__add__` / `__sub__` read the property `idxcells_area_filled` of a catchment that is not
  delineated (`ValueError ... please delineate the area`) -/
  | notDelineated
  deriving DecidableEq, Repr

/-- one operation of a history -/
inductive Op (α : Type) where
  /-- assign `nrows, ncols, xllcorner, yllcorner, cellsize` of grid `j` (any values: plain attributes) -/
  | setGrid (j : Nat) (g : Geom α)
  /-- the same on the flow-direction grid of catchment `i` -/
  | setFlowdir (i : Nat) (g : Geom α)
  /-- other contents of the two cell arrays of catchment `i`: edited in place, or set by `delineate_area` again -/
  | setCells (i : Nat) (area filled : Option (List Int))
  /-- `cats[i].clone()` / `copy.deepcopy` / `pickle.loads(pickle.dumps(...))`: a new object, appended -/
  | cloneCat (i : Nat)
  /-- a deep copy of grid `j`, appended -/
  | cloneGrid (j : Nat)
  /-- `cats[i] + cats[k]`, appended -/
  | addCat (i k : Nat)
  /-- `cats[i] - cats[k]`, appended -/
  | subCat (i k : Nat)
  /-- other contents of the points array (moved, reversed, duplicated in place) -/
  | setPts (pts : List (α × α))
  /-- in-place edits of anything earlier calls returned (idxcells, weights, the weight grid, Voronoi weights) -/
  | editReturned
  /-- `cats[i].intersect(grids[j], filled)` -/
  | intersect (i j : Nat) (filled : Bool)
  /-- `voronoi(cats[i], pts)` -/
  | voronoi (i : Nat)

/-- what an operation answers -/
inductive Reply (α : Type) where
  /-- an accepted operation that is not a call -/
  | done
  /-- a rejected operation that is not a call -/
  | rejected (e : HErr)
  /-- what `intersect` returned or raised -/
  | isect (r : Except Err (AreaGrid α))
  /-- what `voronoi` returned or raised -/
  | vor (r : Except Err (List (Option α)))

/-- `l[i] = v` (nothing changes when there is no `l[i]`) -/
def setAt {β : Type} : List β → Nat → β → List β
  | [], _, _ => []
  | _ :: t, 0, v => v :: t
  | h :: t, i + 1, v => h :: setAt t i v

/-- insertion into a strictly increasing list, keeping it strictly increasing (an element already there is kept once) -/
def insertSorted (x : Int) : List Int → List Int
  | [] => [x]
  | y :: t => if x < y then x :: y :: t else if x = y then y :: t else y :: insertSorted x t

/-- `np.unique`: the distinct values in increasing order -/
def sortDedup (l : List Int) : List Int := l.foldr insertSorted []

/-- `np.union1d(a, b)` = `np.unique(np.concatenate((a, b)))` -/
def union1d (a b : List Int) : List Int := sortDedup (a ++ b)

/-- `np.setdiff1d(a, b)`: the distinct values of `a` that are not in `b`, in increasing order -/
def setdiff1d (a b : List Int) : List Int := (sortDedup a).filter fun x => !b.contains x

/-- `Catchment.__add__`: a clone of `self` (its flow-direction grid, its filled area) whose area is the union of
the two *filled* areas when both catchments have an area; the property `idxcells_area_filled` raises on `None` -/
def Catchment.add {α : Type} (a b : Catchment α) : Except HErr (Catchment α) :=
  match a.area, b.area with
  | some _, some _ =>
    match a.filled, b.filled with
    | some fa, some fb => .ok { a with area := some (union1d fa fb) }
    | _, _ => .error .notDelineated
  | _, _ => .ok a

/-- `Catchment.__sub__`: a clone of `self` whose area is the filled area of `self` without the filled area of
`other`; both properties are read unconditionally -/
def Catchment.sub {α : Type} (a b : Catchment α) : Except HErr (Catchment α) :=
  match a.filled, b.filled with
  | some fa, some fb => .ok { a with area := some (setdiff1d fa fb) }
  | _, _ => .error .notDelineated

section
variable {α : Type} [Add α] [Sub α] [Mul α] [Div α] [OfNat α 0] [OfNat α 1] [LT α] [DecidableLT α] [Trunc α]

/-- a new catchment built from two existing ones -/
def combine (w : World α) (i k : Nat) (f : Catchment α → Catchment α → Except HErr (Catchment α)) :
    World α × Reply α :=
  match w.cats[i]?, w.cats[k]? with
  | some a, some b =>
    match f a b with
    | .ok c => ({ w with cats := w.cats ++ [c] }, .done)
    | .error e => (w, .rejected e)
  | _, _ => (w, .rejected .noSuchObject)

/-- one operation: the objects afterwards, and the answer -/
def hstep (dist : α → α → α) (w : World α) : Op α → World α × Reply α
  | .setGrid j g =>
    if j < w.grids.length then ({ w with grids := setAt w.grids j g }, .done) else (w, .rejected .noSuchObject)
  | .setFlowdir i g =>
    match w.cats[i]? with
    | some c => ({ w with cats := setAt w.cats i { c with fine := g } }, .done)
    | none => (w, .rejected .noSuchObject)
  | .setCells i area filled =>
    match w.cats[i]? with
    | some c => ({ w with cats := setAt w.cats i { c with area := area, filled := filled } }, .done)
    | none => (w, .rejected .noSuchObject)
  | .cloneCat i =>
    match w.cats[i]? with
    | some c => ({ w with cats := w.cats ++ [c] }, .done)
    | none => (w, .rejected .noSuchObject)
  | .cloneGrid j =>
    match w.grids[j]? with
    | some g => ({ w with grids := w.grids ++ [g] }, .done)
    | none => (w, .rejected .noSuchObject)
  | .addCat i k => combine w i k Catchment.add
  | .subCat i k => combine w i k Catchment.sub
  | .setPts pts => ({ w with pts := pts }, .done)
  | .editReturned => (w, .done)
  | .intersect i j filled =>
    match w.cats[i]?, w.grids[j]? with
    | some c, some g => (w, .isect (c.intersect g filled))
    | _, _ => (w, .rejected .noSuchObject)
  | .voronoi i =>
    match w.cats[i]? with
    | some c => (w, .vor (voronoiPy dist c.fine c.area (.rows 2 (w.pts.map fun p => [p.1, p.2]))))
    | none => (w, .rejected .noSuchObject)

/-- a whole history: the answers of its operations, in order -/
def hrun (dist : α → α → α) : World α → List (Op α) → List (Reply α)
  | _, [] => []
  | w, op :: ops => (hstep dist w op).2 :: hrun dist (hstep dist w op).1 ops

/-- the objects a history ends with -/
def hfinal (dist : α → α → α) (w : World α) (ops : List (Op α)) : World α :=
  ops.foldl (fun w op => (hstep dist w op).1) w

end

/-- the operations that may change an object (the others are calls, or edits of returned arrays) -/
def Op.isMutator {α : Type} : Op α → Bool
  | .intersect _ _ _ => false
  | .voronoi _ => false
  | .editReturned => false
  | _ => true

end HydroVerif.C16
