/-
C12 — model of `hydrodiy.data.containers.Vector` as a state machine over an explicit array store
(aliasing is part of the state) and of the state-relevant part of `hydrodiy.stat.transform.Transform`.
No Mathlib. Everything is total and computable; the driver runs these definitions at `α = Float`.

What is mirrored (containers.py, after the `fix:` commits on branch fix-C12):
* `__checkvalues__`  : length test, NaN test, hit test with the ±EPS margin, `np.clip`          → `reject?`, `hitAll`, `clipAll`
* `__init__`         : flag conflict, unique names, mins / maxs / defaults validation, copies    → `mkArrays`, `mkFrom`, `mk`
* `__setattr__`      : NaN test, hit test WITHOUT margin, python `min(max(..))`, IN-PLACE write   → `setAttr`
* `__setitem__`      : unknown key rejected, else `setattr`                                        → `setKey`
* `values` setter    : `__checkvalues__`, REBINDS `_values` to a fresh array, sets the hit flag    → `setAll`
* `reset`            : `self.values = self.defaults`                                               → `reset`
* `clone`            : constructor on own names/defaults/bounds/flags, values setter, hit flag     → `clone`
* `to_dict/from_dict`: plain record of scalars; constructor, values setter, hit flag               → `toDict`, `fromDict`
* transform.py       : `__setitem__/__setattr__/reset` delegation, the inner `BC.params.values = …`
                       re-sync performed by forward/backward/jacobian of the BoxCox1lam/1nu/2sym
                       classes; sampling / prior / printing touch nothing                          → `tstep`
The getters `values/mins/maxs/defaults` return the internal array itself: an array is a reference (`Ref = Nat`,
written `Nat` in the structures so that `omega` sees through it) into the store.
-/
namespace HydroVerif.C12

/-- float64 seen by the container: NaN, −∞, a finite value, +∞ -/
inductive XR (α : Type) where
  | nan | ninf | fin (a : α) | pinf
  deriving DecidableEq, Repr

section
variable {α : Type} [LT α] [DecidableLT α] [Add α] [Sub α]

namespace XR
/-- IEEE `<` : false as soon as a NaN is involved -/
def lt : XR α → XR α → Bool
  | nan, _ => false
  | _, nan => false
  | ninf, ninf => false
  | ninf, _ => true
  | _, ninf => false
  | pinf, _ => false
  | fin _, pinf => true
  | fin a, fin b => decide (a < b)

def isNaN : XR α → Bool
  | nan => true
  | _ => false

/-- `np.maximum`: a NaN in either argument propagates -/
def maxNp (a b : XR α) : XR α := if a.isNaN then a else if b.isNaN then b else if lt a b then b else a
/-- `np.minimum` -/
def minNp (a b : XR α) : XR α := if a.isNaN then a else if b.isNaN then b else if lt b a then b else a
/-- `np.clip(v, lo, hi)` = `minimum(maximum(v, lo), hi)` -/
def clipNp (v lo hi : XR α) : XR α := minNp (maxNp v lo) hi
/-- python builtins `min(max(v, lo), hi)`: `max(v, lo)` is `lo` iff `lo > v`; `min(m, hi)` is `hi` iff `hi < m` -/
def clipPy (v lo hi : XR α) : XR α :=
  let m := if lt v lo then lo else v
  if lt hi m then hi else m

/-- `x - EPS` / `x + EPS` in IEEE arithmetic (infinities and NaN absorb) -/
def subEps (eps : α) : XR α → XR α
  | fin a => fin (a - eps)
  | x => x
def addEps (eps : α) : XR α → XR α
  | fin a => fin (a + eps)
  | x => x

/-- executable form, at one bound, of the only fact the theorems use about the margin arithmetic (`EpsOk` in
Lemmas): `a - EPS` is not above `a` and `a + EPS` is not below it. The driver evaluates it at Float on every bound of every
live vector of the correspondence stream. -/
def epsOkAt (eps : α) : XR α → Bool
  | fin a => !decide (a < a - eps) && !decide (a + eps < a)
  | _ => true

/-- `val < mins - EPS  |  val > maxs + EPS` (one element of the `__checkvalues__` hit test) -/
def outsideEps (eps : α) (x lo hi : XR α) : Bool := lt x (lo.subEps eps) || lt (hi.addEps eps) x
/-- `value < mins[idx] or value > maxs[idx]` (the `__setattr__` hit test: no margin) -/
def outside (x lo hi : XR α) : Bool := lt x lo || lt hi x
/-- not NaN and inside the closed interval -/
def within (x lo hi : XR α) : Bool := !x.isNaN && !lt x lo && !lt hi x
/-- the property's conditioning of an assigned value: NaN, inside / on the bounds, or outside by more than EPS -/
def inRegion (eps : α) (x lo hi : XR α) : Bool := x.isNaN || within x lo hi || outsideEps eps x lo hi
end XR

/-! ### element-wise helpers (numpy broadcasting is not involved: all arrays have length `nval`) -/
def map3 {β γ : Type} (f : β → β → β → γ) : List β → List β → List β → List γ
  | a :: as, b :: bs, c :: cs => f a b c :: map3 f as bs cs
  | _, _, _ => []
def any3 {β : Type} (p : β → β → β → Bool) : List β → List β → List β → Bool
  | a :: as, b :: bs, c :: cs => p a b c || any3 p as bs cs
  | _, _, _ => false
def all3 {β : Type} (p : β → β → β → Bool) : List β → List β → List β → Bool
  | a :: as, b :: bs, c :: cs => p a b c && all3 p as bs cs
  | _, _, _ => true
def all2 {β : Type} (p : β → β → Bool) : List β → List β → Bool
  | a :: as, b :: bs => p a b && all2 p as bs
  | _, _ => true

def indexOf (nm : String) : List String → Option Nat
  | [] => none
  | a :: t => if a = nm then some 0 else (indexOf nm t).map (· + 1)

def nodupB : List String → Bool
  | [] => true
  | a :: t => !t.contains a && nodupB t

/-! ### the array store -/
/-- an array reference is a natural number (allocation order) -/
abbrev Ref := Nat

/-- every numpy array ever allocated; `next` is the first unused reference -/
structure Store (α : Type) where
  cells : Nat → List (XR α)
  next : Nat

def Store.empty : Store α := ⟨fun _ => [], 0⟩
/-- a fresh array (numpy `copy`, `astype`, `clip`, … all allocate) -/
def Store.alloc (s : Store α) (a : List (XR α)) : Store α × Nat :=
  (⟨fun r => if r = s.next then a else s.cells r, s.next + 1⟩, s.next)
/-- `arr[i] = x` on the array behind `r` — seen through every alias of `r` -/
def Store.write (s : Store α) (r : Nat) (i : Nat) (x : XR α) : Store α :=
  ⟨fun r' => if r' = r then (s.cells r).set i x else s.cells r', s.next⟩

inductive Err
  | flagConflict | dupNames | badLength | nanValue | maxsOutside | defaultsOutside | unknownKey | index
  /-- `getattr(vect, name)` on a non-name (AttributeError), a value `float()` rejects, a failing copy protocol -/
  | noAttr | notNumber | copyProtocol
  /-- a guard of a transform constructor (`minilam < -3`), an unknown transform name in `get_transform` -/
  | ctorGuard | unknownClass
  deriving DecidableEq, Repr

inductive Out
  | ok | rejected (e : Err)
  deriving DecidableEq, Repr

/-- the Python object: names are an immutable tuple of strings here (no operation of the class
writes into `_names`), the four float arrays are references into the store -/
structure Vec where
  names : List String
  values : Nat
  mins : Nat
  maxs : Nat
  defaults : Nat
  hit : Bool
  checkBounds : Bool
  checkHit : Bool
  acceptNan : Bool
  deriving DecidableEq, Repr

def Vec.n (v : Vec) : Nat := v.names.length
def Vec.refs (v : Vec) : List Nat := [v.values, v.mins, v.maxs, v.defaults]

/-! ### `__checkvalues__` -/
/-- the two guards, in the order of the code -/
def reject? (acceptNan : Bool) (n : Nat) (val : List (XR α)) : Option Err :=
  if val.length ≠ n then some .badLength
  else if val.any XR.isNaN && !acceptNan then some .nanValue
  else none
def clipAll (val lo hi : List (XR α)) : List (XR α) := map3 XR.clipNp val lo hi
def hitAll (eps : α) (val lo hi : List (XR α)) : Bool := any3 (XR.outsideEps eps) val lo hi

/-! ### constructor -/
/-- `mins`: default −∞, else `__checkvalues__(mins, False)` (clipping against (−∞, +∞) changes nothing) -/
def ctorMins (an : Bool) (n : Nat) : Option (List (XR α)) → Except Err (List (XR α))
  | none => .ok (List.replicate n .ninf)
  | some m => match reject? an n m with
    | some e => .error e
    | none => .ok (clipAll m (List.replicate n .ninf) (List.replicate n .pinf))

/-- `maxs`: default +∞, else `__checkvalues__(maxs, True)` against `[mins, +∞]`; a hit is an error -/
def ctorMaxs (eps : α) (an : Bool) (n : Nat) (lo : List (XR α)) : Option (List (XR α)) → Except Err (List (XR α))
  | none => .ok (List.replicate n .pinf)
  | some m => match reject? an n m with
    | some e => .error e
    | none =>
      if hitAll eps m lo (List.replicate n .pinf) then .error .maxsOutside
      else .ok (clipAll m lo (List.replicate n .pinf))

/-- `defaults`: default `np.clip(zeros, mins, maxs)`, else `__checkvalues__(defaults, True)`; a hit is an error -/
def ctorDefaults [OfNat α 0] (eps : α) (an : Bool) (n : Nat) (lo hi : List (XR α)) :
    Option (List (XR α)) → Except Err (List (XR α))
  | none => .ok (clipAll (List.replicate n (.fin 0)) lo hi)
  | some d => match reject? an n d with
    | some e => .error e
    | none => if hitAll eps d lo hi then .error .defaultsOutside else .ok (clipAll d lo hi)

/-- validation part of `Vector.__init__`: the (mins, maxs, defaults) arrays it ends up holding -/
def mkArrays [OfNat α 0] (eps : α) (names : List String) (defaults mins maxs : Option (List (XR α)))
    (cb ch an : Bool) : Except Err (List (XR α) × List (XR α) × List (XR α)) :=
  let n := names.length
  if ch && !cb then .error .flagConflict
  else if !nodupB names then .error .dupNames
  else match ctorMins an n mins with
    | .error e => .error e
    | .ok lo => match ctorMaxs eps an n lo maxs with
      | .error e => .error e
      | .ok hi => match ctorDefaults eps an n lo hi defaults with
        | .error e => .error e
        | .ok d => .ok (lo, hi, d)

/-- allocation part: four fresh arrays, `_values = _defaults.copy()`, hit flag off -/
def mkFrom (s : Store α) (names : List String) (lo hi d : List (XR α)) (cb ch an : Bool) : Store α × Vec :=
  let (s1, rlo) := s.alloc lo
  let (s2, rhi) := s1.alloc hi
  let (s3, rd) := s2.alloc d
  let (s4, rv) := s3.alloc d
  (s4, { names, values := rv, mins := rlo, maxs := rhi, defaults := rd, hit := false,
         checkBounds := cb, checkHit := ch, acceptNan := an })

def mk [OfNat α 0] (eps : α) (s : Store α) (names : List String) (defaults mins maxs : Option (List (XR α)))
    (cb ch an : Bool) : Except Err (Store α × Vec) :=
  match mkArrays eps names defaults mins maxs cb ch an with
  | .error e => .error e
  | .ok (lo, hi, d) => .ok (mkFrom s names lo hi d cb ch an)

/-! ### assignments -/
/-- `setattr(vect, name, x)`. An attribute that is not one of the names is an ordinary Python attribute:
the vector's state is not involved. -/
def setAttr (s : Store α) (v : Vec) (name : String) (x : XR α) : (Store α × Vec) × Out :=
  match indexOf name v.names with
  | none => ((s, v), .ok)
  | some i =>
    if x.isNaN && !v.acceptNan then ((s, v), .rejected .nanValue)
    else match (s.cells v.mins)[i]?, (s.cells v.maxs)[i]? with
      | some lo, some hi =>
        let hit := if v.checkHit then XR.outside x lo hi else v.hit
        ((s.write v.values i (XR.clipPy x lo hi), { v with hit := hit }), .ok)
      | _, _ => ((s, v), .rejected .index)

/-- `vect[name] = x` -/
def setKey (s : Store α) (v : Vec) (name : String) (x : XR α) : (Store α × Vec) × Out :=
  match indexOf name v.names with
  | none => ((s, v), .rejected .unknownKey)
  | some _ => setAttr s v name x

/-- `vect.values = xs` -/
def setAll (eps : α) (s : Store α) (v : Vec) (xs : List (XR α)) : (Store α × Vec) × Out :=
  match reject? v.acceptNan v.n xs with
  | some e => ((s, v), .rejected e)
  | none =>
    let lo := s.cells v.mins
    let hi := s.cells v.maxs
    let (s', r) := s.alloc (clipAll xs lo hi)
    ((s', { v with values := r, hit := v.checkHit && hitAll eps xs lo hi }), .ok)

/-- `vect.reset()` -/
def reset (eps : α) (s : Store α) (v : Vec) : (Store α × Vec) × Out := setAll eps s v (s.cells v.defaults)

/-- constructor followed by `new.values = values; new._hitbounds = hit` (shared tail of clone / from_dict) -/
def rebuild [OfNat α 0] (eps : α) (s : Store α) (names : List String) (defaults mins maxs values : List (XR α))
    (hit cb ch an : Bool) : Except Err (Store α × Vec) :=
  match mk eps s names (some defaults) (some mins) (some maxs) cb ch an with
  | .error e => .error e
  | .ok (s1, c) =>
    match setAll eps s1 c values with
    | ((s2, c2), .ok) => .ok (s2, { c2 with hit := hit })
    | (_, .rejected e) => .error e

/-- `vect.clone()` -/
def clone [OfNat α 0] (eps : α) (s : Store α) (v : Vec) : Except Err (Store α × Vec) :=
  rebuild eps s v.names (s.cells v.defaults) (s.cells v.mins) (s.cells v.maxs) (s.cells v.values)
    v.hit v.checkBounds v.checkHit v.acceptNan

/-! ### dictionary export / import -/
structure Item (α : Type) where
  name : String
  value : XR α
  min : XR α
  max : XR α
  default : XR α
  deriving DecidableEq, Repr

structure Dict (α : Type) where
  nval : Nat
  hit : Bool
  checkBounds : Bool
  checkHit : Bool
  acceptNan : Bool
  data : List (Item α)
  deriving DecidableEq, Repr

def items : List String → List (XR α) → List (XR α) → List (XR α) → List (XR α) → List (Item α)
  | nm :: ns, v :: vs, lo :: los, hi :: his, d :: ds => ⟨nm, v, lo, hi, d⟩ :: items ns vs los his ds
  | _, _, _, _, _ => []

/-- `vect.to_dict()`: scalars only, nothing aliased -/
def toDict (s : Store α) (v : Vec) : Dict α :=
  { nval := v.n, hit := v.hit, checkBounds := v.checkBounds, checkHit := v.checkHit, acceptNan := v.acceptNan,
    data := items v.names (s.cells v.values) (s.cells v.mins) (s.cells v.maxs) (s.cells v.defaults) }

/-- `Vector.from_dict(dct)`: reads the first `nval` items (IndexError when there are fewer) -/
def fromDict [OfNat α 0] (eps : α) (s : Store α) (d : Dict α) : Except Err (Store α × Vec) :=
  if d.data.length < d.nval then .error .index
  else
    let its := d.data.take d.nval
    rebuild eps s (its.map (·.name)) (its.map (·.default)) (its.map (·.min)) (its.map (·.max))
      (its.map (·.value)) d.hit d.checkBounds d.checkHit d.acceptNan

/-! ### the world: a store and the vectors living in it -/
structure World (α : Type) where
  store : Store α
  vecs : List Vec

inductive Op (α : Type) where
  | setAttr (k : Nat) (name : String) (x : XR α)
  | setKey (k : Nat) (name : String) (x : XR α)
  | setAll (k : Nat) (xs : List (XR α))
  | reset (k : Nat)
  | clone (k : Nat)
  | dictRT (k : Nat)
  /-- `vect[name]` (ValueError on an unknown key) -/
  | getKey (k : Nat) (name : String)
  /-- `vect.name` / `getattr(vect, name)` (AttributeError on a non-name) -/
  | getAttr (k : Nat) (name : String)
  /-- every other pure accessor: `to_dict()`, `to_series()`, `str(vect)`, the property getters `nval`, `names`,
  `values`, `mins`, `maxs`, `defaults`, `hitbounds`, `check_bounds`, `check_hitbounds`, `accept_nan` -/
  | read (k : Nat)
  /-- assignment (by attribute, by key or whole-vector) of something `np.float64()` / `astype(float64)` rejects -/
  | setBad (k : Nat)
  /-- `copy.deepcopy(vect)` / `pickle.loads(pickle.dumps(vect))`. Whether CPython's copy protocol manages to
  rebuild the object is external to the class (`works`, observed by the harness; on the pinned class it does not:
  `__getattribute__` reads `_names` on the blank instance). When it works the result is an independent deep copy. -/
  | pyCopy (k : Nat) (works : Bool)
  deriving Repr

def Op.target : Op α → Nat
  | .setAttr k _ _ | .setKey k _ _ | .setAll k _ | .reset k | .clone k | .dictRT k
  | .getKey k _ | .getAttr k _ | .read k | .setBad k | .pyCopy k _ => k

/-- the value `vect[name]` / `vect.name` returns -/
def readItem (w : World α) (k : Nat) (name : String) : Option (XR α) :=
  match w.vecs[k]? with
  | none => none
  | some v => match indexOf name v.names with
    | none => none
    | some i => (w.store.cells v.values)[i]?

/-- an operation on the `k`-th vector that only looks -/
def World.peek (w : World α) (k : Nat) (f : Store α → Vec → Out) : World α × Out :=
  match w.vecs[k]? with
  | none => (w, .rejected .index)
  | some v => (w, f w.store v)

/-- an operation on the `k`-th vector that mutates that vector -/
def World.update (w : World α) (k : Nat) (f : Store α → Vec → (Store α × Vec) × Out) : World α × Out :=
  match w.vecs[k]? with
  | none => (w, .rejected .index)
  | some v =>
    match f w.store v with
    | ((s', v'), .ok) => (⟨s', w.vecs.set k v'⟩, .ok)
    | (_, .rejected e) => (w, .rejected e)

/-- an operation on the `k`-th vector that creates a new vector (appended to the world) -/
def World.spawn (w : World α) (k : Nat) (f : Store α → Vec → Except Err (Store α × Vec)) : World α × Out :=
  match w.vecs[k]? with
  | none => (w, .rejected .index)
  | some v =>
    match f w.store v with
    | .ok (s', c) => (⟨s', w.vecs ++ [c]⟩, .ok)
    | .error e => (w, .rejected e)

/-- one step of the state machine; a rejected operation returns the world it was given -/
def step [OfNat α 0] (eps : α) (w : World α) : Op α → World α × Out
  | .setAttr k nm x => w.update k fun s v => setAttr s v nm x
  | .setKey k nm x => w.update k fun s v => setKey s v nm x
  | .setAll k xs => w.update k fun s v => setAll eps s v xs
  | .reset k => w.update k fun s v => reset eps s v
  | .clone k => w.spawn k fun s v => clone eps s v
  | .dictRT k => w.spawn k fun s v => fromDict eps s (toDict s v)
  | .getKey k nm => w.peek k fun _ v => match indexOf nm v.names with
      | none => .rejected .unknownKey
      | some _ => .ok
  | .getAttr k nm => w.peek k fun _ v => match indexOf nm v.names with
      | none => .rejected .noAttr
      | some _ => .ok
  | .read k => w.peek k fun _ _ => .ok
  | .setBad k => w.peek k fun _ _ => .rejected .notNumber
  | .pyCopy k works =>
    if works then w.spawn k fun s v => clone eps s v
    else w.peek k fun _ _ => .rejected .copyProtocol

def run [OfNat α 0] (eps : α) (w : World α) : List (Op α) → World α
  | [] => w
  | op :: ops => run eps (step eps w op).1 ops

/-- the world right after `Vector(names, defaults, mins, maxs, check_bounds, check_hitbounds, accept_nan)` -/
def init [OfNat α 0] (eps : α) (names : List String) (defaults mins maxs : Option (List (XR α)))
    (cb ch an : Bool) : Except Err (World α) :=
  match mk eps Store.empty names defaults mins maxs cb ch an with
  | .error e => .error e
  | .ok (s, v) => .ok ⟨s, [v]⟩

/-! ### observables -/
/-- everything the public getters show of one vector (array CONTENTS, not references) -/
structure View (α : Type) where
  names : List String
  values : List (XR α)
  mins : List (XR α)
  maxs : List (XR α)
  defaults : List (XR α)
  hit : Bool
  checkBounds : Bool
  checkHit : Bool
  acceptNan : Bool
  deriving DecidableEq, Repr

def view (s : Store α) (v : Vec) : View α :=
  { names := v.names, values := s.cells v.values, mins := s.cells v.mins, maxs := s.cells v.maxs,
    defaults := s.cells v.defaults, hit := v.hit, checkBounds := v.checkBounds, checkHit := v.checkHit,
    acceptNan := v.acceptNan }

def World.view (w : World α) (k : Nat) : Option (View α) := (w.vecs[k]?).map (C12.view w.store)

/-- what construction fixes for good: names, bounds, defaults (and the three option flags) -/
structure Frozen (α : Type) where
  names : List String
  mins : List (XR α)
  maxs : List (XR α)
  defaults : List (XR α)
  checkBounds : Bool
  checkHit : Bool
  acceptNan : Bool
  deriving DecidableEq, Repr

def View.frozen (v : View α) : Frozen α :=
  ⟨v.names, v.mins, v.maxs, v.defaults, v.checkBounds, v.checkHit, v.acceptNan⟩

def World.frozen (w : World α) (k : Nat) : Option (Frozen α) := (w.view k).map View.frozen

/-- the invariant, executable: values inside the bounds or NaN-when-allowed -/
def okElem (an : Bool) (x l h : XR α) : Bool := (x.isNaN && an) || XR.within x l h
def valuesOk (an : Bool) (vals lo hi : List (XR α)) : Bool := all3 (okElem an) vals lo hi
/-- bounds are real intervals: no NaN, `min ≤ max` -/
def boundElem (l h : XR α) : Bool := !l.isNaN && !h.isNaN && !XR.lt h l
def boundsOk (lo hi : List (XR α)) : Bool := all2 boundElem lo hi

/-- `EpsOk` evaluated on the bounds of one vector -/
def View.epsOk (eps : α) (v : View α) : Bool := v.mins.all (XR.epsOkAt eps) && v.maxs.all (XR.epsOkAt eps)

def View.ok (v : View α) : Bool :=
  valuesOk v.acceptNan v.values v.mins v.maxs && valuesOk v.acceptNan v.defaults v.mins v.maxs
    && boundsOk v.mins v.maxs

/-! ### transforms -/
/-- how forward / backward / jacobian of a class touch state -/
inductive TKind
  /-- Identity, Logit, Log, BoxCox2, YeoJohnson, LogSinh, Reciprocal, Softmax, Sinh, Manly: nothing written -/
  | plain
  /-- BoxCox1lam: `BC.params.values = [get_nu(), params.values[0]]` (raises before writing when nu is NaN) -/
  | bc1lam
  /-- BoxCox1nu: `BC.params.values = [params.values[0], get_lam()]` -/
  | bc1nu
  /-- BoxCox2sym: `BC.params.values = params.values` -/
  | bc2sym
  deriving DecidableEq, Repr

/-- a transform: indices (into the world) of its parameter vector, constant vector and, for the
classes that own one, the parameter vector of the inner `BoxCox2` -/
structure Trans where
  kind : TKind
  params : Nat
  constants : Nat
  bc : Nat
  deriving DecidableEq, Repr

/-- constructor arguments of one `Vector(...)` call -/
structure Spec (α : Type) where
  names : List String
  defaults : Option (List (XR α))
  mins : Option (List (XR α))
  maxs : Option (List (XR α))
  checkBounds : Bool
  checkHit : Bool
  acceptNan : Bool

/-- one more `Vector(...)` constructed next to the live ones -/
def World.add [OfNat α 0] (eps : α) (w : World α) (sp : Spec α) : Except Err (World α) :=
  match C12.mk eps w.store sp.names sp.defaults sp.mins sp.maxs sp.checkBounds sp.checkHit sp.acceptNan with
  | .error e => .error e
  | .ok (s, v) => .ok ⟨s, w.vecs ++ [v]⟩

/-- the world of a freshly constructed transform: parameter vector (0), constant vector (1) and, for the
classes that own an inner `BoxCox2`, its parameter vector (2) -/
def tinit [OfNat α 0] (eps : α) (params constants : Spec α) (bc : Option (Spec α)) : Except Err (World α) :=
  match World.add eps ⟨Store.empty, []⟩ params with
  | .error e => .error e
  | .ok w1 => match World.add eps w1 constants with
    | .error e => .error e
    | .ok w2 => match bc with
      | none => .ok w2
      | some b => World.add eps w2 b

inductive TOp (α : Type) where
  /-- read-only uses -/
  | forward | backward | jacobian | sample | logprior | print
  /-- `trans[name]` (routed like `__setitem__`; ValueError on an unknown key) and `trans.name` / `getattr(trans, name)`
  (params first, then constants; a non-name is an ordinary Python attribute lookup: AttributeError) -/
  | getItem (name : String) | getAttr (name : String)
  /-- `trans[name] = x` -/
  | setItem (name : String) (x : XR α)
  /-- `setattr(trans, name, x)` -/
  | setAttr (name : String) (x : XR α)
  /-- `trans.reset()` -/
  | reset
  /-- `trans.params.values = xs`, `trans.constants.values = xs` -/
  | setParams (xs : List (XR α))
  | setConstants (xs : List (XR α))
  deriving Repr

def TOp.readOnly : TOp α → Bool
  | .forward | .backward | .jacobian | .sample | .logprior | .print | .getItem _ | .getAttr _ => true
  | _ => false

/-- the vector `trans[name]` / `trans[name] = x` is routed to: the parameter vector when there is no constant or when
`name` is a parameter name, else the constant vector -/
def Trans.route (t : Trans) (p c : Vec) (nm : String) : Nat :=
  if c.n = 0 then t.params else if p.names.contains nm then t.params else t.constants

/-- the value `trans[name]` / `trans.name` returns -/
def treadItem (w : World α) (t : Trans) (nm : String) : Option (XR α) :=
  match w.vecs[t.params]?, w.vecs[t.constants]? with
  | some p, some c =>
    if p.names.contains nm then readItem w t.params nm
    else if c.names.contains nm then readItem w t.constants nm else none
  | _, _ => none

/-- the values the class hands to `BC.params.values` (`none`: the getter raised on a NaN constant) -/
def syncValues (w : World α) (t : Trans) : Option (List (XR α)) :=
  match w.vecs[t.params]?, w.vecs[t.constants]? with
  | some p, some c =>
    let pv := w.store.cells p.values
    let cv := w.store.cells c.values
    match t.kind with
    | .plain => none
    | .bc2sym => some pv
    | .bc1lam => match cv[0]?, pv[0]? with
      | some nu, some lam => if nu.isNaN then none else some [nu, lam]
      | _, _ => none
    | .bc1nu => match pv[0]?, cv[0]? with
      | some nu, some lam => if lam.isNaN then none else some [nu, lam]
      | _, _ => none
  | _, _ => none

/-- forward / backward / jacobian: at most a whole-vector assignment on the inner BoxCox2 parameters -/
def sync (eps : α) (w : World α) (t : Trans) : World α :=
  match syncValues w t with
  | none => w
  | some xs => (w.update t.bc fun s v => setAll eps s v xs).1

def tstep (eps : α) (w : World α) (t : Trans) : TOp α → World α × Out
  | .forward | .backward | .jacobian => (sync eps w t, .ok)
  | .sample | .logprior | .print => (w, .ok)
  | .getItem nm =>
    match w.vecs[t.params]?, w.vecs[t.constants]? with
    | some p, some c => w.peek (t.route p c nm) fun _ v => match indexOf nm v.names with
        | none => .rejected .unknownKey
        | some _ => .ok
    | _, _ => (w, .rejected .index)
  | .getAttr nm =>
    match w.vecs[t.params]?, w.vecs[t.constants]? with
    | some p, some c => (w, if p.names.contains nm || c.names.contains nm then .ok else .rejected .noAttr)
    | _, _ => (w, .rejected .index)
  | .setItem nm x =>
    match w.vecs[t.params]?, w.vecs[t.constants]? with
    | some p, some c =>
      if c.n = 0 then w.update t.params fun s v => setKey s v nm x
      else if p.names.contains nm then w.update t.params fun s v => setKey s v nm x
      else w.update t.constants fun s v => setKey s v nm x
    | _, _ => (w, .rejected .index)
  | .setAttr nm x =>
    match w.vecs[t.params]?, w.vecs[t.constants]? with
    | some p, some c =>
      if p.names.contains nm then w.update t.params fun s v => setAttr s v nm x
      else if c.names.contains nm then w.update t.constants fun s v => setAttr s v nm x
      else (w, .ok)
    | _, _ => (w, .rejected .index)
  | .reset => w.update t.params fun s v => reset eps s v
  | .setParams xs => w.update t.params fun s v => setAll eps s v xs
  | .setConstants xs => w.update t.constants fun s v => setAll eps s v xs

/-! ### several live transforms in one process -/

/-- the vectors a transform object owns (a `plain` class has no inner BoxCox2: its `bc` field is unused) -/
def Trans.idx (t : Trans) : List Nat :=
  match t.kind with
  | .plain => [t.params, t.constants]
  | _ => [t.params, t.constants, t.bc]

/-- a process holding several transform instances: every `Class()` call builds its OWN parameter vector, constant
vector and inner BoxCox2 (nothing is shared between instances, of the same class or of classes written alike) -/
structure MWorld (α : Type) where
  world : World α
  insts : List Trans

def MWorld.empty : MWorld α := ⟨⟨Store.empty, []⟩, []⟩

/-- `Class(**kwargs)`: two or three fresh `Vector(...)` objects appended to the world -/
def madd [OfNat α 0] (eps : α) (m : MWorld α) (kind : TKind) (p c : Spec α) (b : Option (Spec α)) :
    Except Err (MWorld α) :=
  let n := m.world.vecs.length
  match World.add eps m.world p with
  | .error e => .error e
  | .ok w1 => match World.add eps w1 c with
    | .error e => .error e
    | .ok w2 =>
      if kind = .plain then .ok ⟨w2, m.insts ++ [⟨.plain, n, n + 1, n + 2⟩]⟩
      else match b with
        | none => .error .index
        | some sb => match World.add eps w2 sb with
          | .error e => .error e
          | .ok w3 => .ok ⟨w3, m.insts ++ [⟨kind, n, n + 1, n + 2⟩]⟩

/-- an operation on the `i`-th instance -/
def mstep (eps : α) (m : MWorld α) (i : Nat) (op : TOp α) : MWorld α × Out :=
  match m.insts[i]? with
  | none => (m, .rejected .index)
  | some t => ({ m with world := (tstep eps m.world t op).1 }, (tstep eps m.world t op).2)

end
end HydroVerif.C12
