/-
C20 — model of the sampling, ranking and summary helpers:

* `hydrodiy.stat.sutils.lhs`            (`linspace` stratum centres, permutation, uniform jitter; the
                                          permutation and the unit draws of `np.random` are INPUTS)
* `hydrodiy.stat.sutils.ppos`, `standard_normal` (pandas rank: average / min / max; `norm.ppf` external:
                                          the model returns the argument handed to it)
* `c_paretofront` + `sutils.pareto_front`
* `hydrodiy.plot.boxplot.boxplot_stats`, `compute_percentiles`, `Boxplot._compute` (finite mask, count,
                                          numpy's linear-interpolation percentile, mean / min / max,
                                          NaN row under 4 values, grouping by category)
* `hydrodiy.plot.violinplot.Violin._compute` (quantiles of the finite values, abscissae of the density
                                          profile, min–max normalisation; `gaussian_kde` external)

Generic over the numeric type (core notation classes only): `Float` in the driver, `Rat` for exact
evaluation, any ordered field in the theorems. `none` stands for a value the code masks out
(NaN, and ±inf where the code tests `isinf` / `isfinite`). No Mathlib.
-/
import HydroVerif.Num
namespace HydroVerif.C20

inductive Err
  | pmaxLength        -- lhs: len(pmax) != nparams
  | pmaxLePmin        -- lhs: some pmax - pmin <= 0
  | zeroSamples       -- lhs: nsamples = 0 (division by zero)
  | drawsShape        -- lhs: the supplied draws do not have the shape numpy would return
  | cstRange          -- ppos: cst outside [0, 0.5]
  | hasNan            -- standard_normal: NaN in x
  | percentileRange   -- numpy: "Percentiles must be in the range [0, 100]"
  | boxCoverage       -- Boxplot: box_coverage < 40
  | whiskersCoverage  -- Boxplot: whiskers_coverage <= box_coverage
  | oneCategory       -- Boxplot: `by` has 1 category only
  | empty             -- an operation that needs one value at least was given none
  | ndim              -- pareto_front: data is not 2-dimensional
  deriving DecidableEq, Repr

/-- `floor` of a non-negative number, as an index -/
class FloorNat (α : Type) where
  floorNat : α → Nat

instance : FloorNat Float := ⟨fun x => x.floor.toUInt64.toNat⟩
instance : FloorNat Rat := ⟨fun x => x.floor.toNat⟩

section numeric
variable {α : Type} [Add α] [Sub α] [Mul α] [Div α] [Neg α] [LT α] [DecidableLT α] [LE α] [DecidableLE α]
  [OfNat α 0] [OfNat α 1] [OfNat α 2] [NatCast α]

def sumL : List α → α
  | [] => 0
  | x :: xs => x + sumL xs

def absG (x : α) : α := if x < 0 then -x else x

/-- `np.linspace(start, stop, num)` (endpoint included): `arange(num) * step + start`, last entry set to
`stop`; a single sample is `0 * (stop - start) + start` -/
def linspace (start stop : α) : Nat → List α
  | 0 => []
  | 1 => [((0 : Nat) : α) * (stop - start) + start]
  | m + 2 =>
    let step := (stop - start) / ((m + 1 : Nat) : α)
    (List.range (m + 1)).map (fun (i : Nat) => ((i : Nat) : α) * step + start) ++ [stop]

/-! ### lhs -/

/-- fancy indexing `u[kk]`: every index must be in range -/
def gather {β : Type} (u : List β) : List Nat → Option (List β)
  | [] => some []
  | k :: ks => match u[k]?, gather u ks with
    | some a, some r => some (a :: r)
    | _, _ => none

/-- one parameter of `lhs`: `perm` is what `np.random.permutation(n)` returned, `r` the unit draws in
`[0, 1)` from which `np.random.uniform(-du/2, du/2, n)` is computed as `low + (high - low) * r` -/
def lhsColumn (n : Nat) (pmin pmax : α) (perm : List Nat) (r : List α) : Except Err (List α) :=
  let du := (pmax - pmin) / (n : α)
  let u := linspace (pmin + du / 2) (pmax - du / 2) n
  let lo := (-du) / 2
  let hi := du / 2
  if perm.length ≠ n ∨ r.length ≠ n then .error .drawsShape else
  match gather u perm with
  | none => .error .drawsShape
  | some uk => .ok (List.zipWith (fun c ri => c + (lo + (hi - lo) * ri)) uk r)

def lhsColumns (n : Nat) : List α → List α → List (List Nat) → List (List α) → Except Err (List (List α))
  | a :: pmin, b :: pmax, p :: perms, r :: rs => do
    let c ← lhsColumn n a b p r
    let cs ← lhsColumns n pmin pmax perms rs
    pure (c :: cs)
  | [], [], [], [] => .ok []
  | _, _, _, _ => .error .drawsShape

/-- `if pmax.shape[0] == 1: pmax = np.repeat(pmax, nparams)` -/
def broadcast {β : Type} (nparams : Nat) : List β → List β
  | [p] => List.replicate nparams p
  | pmax => pmax

/-- `lhs(nsamples, pmin, pmax)`: the result is returned column by column (one list per parameter) -/
def lhs (n : Nat) (pmin pmax : List α) (perms : List (List Nat)) (rs : List (List α)) :
    Except Err (List (List α)) :=
  let nparams := pmin.length
  let pmax := broadcast nparams pmax
  if pmax.length ≠ nparams then .error .pmaxLength
  else if (List.zipWith (fun a b => decide (b - a ≤ 0)) pmin pmax).any id then .error .pmaxLePmin
  else if n = 0 ∧ nparams ≠ 0 then .error .zeroSamples
  else lhsColumns n pmin pmax perms rs

/-! ### ppos, standard_normal -/

/-- `ppos(nval, cst)` -/
def ppos (n : Nat) (cst : α) : Except Err (List α) :=
  if cst < 0 ∨ 1 / 2 < cst then .error .cstRange
  else .ok ((List.range n).map fun i => (((i + 1 : Nat) : α) - cst) / (((n + 1 : Nat) : α) - 2 * cst))

inductive RankMethod | average | min | max
  deriving DecidableEq, Repr

def cntLt (xs : List α) (x : α) : Nat := xs.countP fun y => decide (y < x)
/-- entries equal to `x` (neither smaller nor larger; the data hold no NaN) -/
def cntEq (xs : List α) (x : α) : Nat := xs.countP fun y => !decide (y < x) && !decide (x < y)

/-- `pd.Series(xs).rank(method=m)` at an entry `x` (1-based) -/
def rank (m : RankMethod) (xs : List α) (x : α) : α :=
  match m with
  | .average => (cntLt xs x : α) + ((cntEq xs x : α) + 1) / 2
  | .min => ((cntLt xs x + 1 : Nat) : α)
  | .max => ((cntLt xs x + cntEq xs x : Nat) : α)

/-- the number handed to `norm.ppf` for a 0-based rank `r0` -/
def scoreArg (n : Nat) (cst r0 : α) : α := (r0 + 1 - cst) / (((n + 1 : Nat) : α) - 2 * cst)

/-- `standard_normal(x, cst, sorted=False, rank_method=m)`: (arguments of `norm.ppf`, 0-based ranks) -/
def standardNormal (m : RankMethod) (cst : α) (x : List (Option α)) : Except Err (List α × List α) :=
  if x.any Option.isNone then .error .hasNan else
  let xs := x.filterMap id
  let ranks := xs.map fun v => rank m xs v - 1
  .ok (ranks.map (scoreArg xs.length cst), ranks)

/-- `standard_normal(x, cst, sorted=True)`: ranks are `arange(nval)` -/
def standardNormalSorted (cst : α) (x : List (Option α)) : Except Err (List α × List α) :=
  if x.any Option.isNone then .error .hasNan else
  let n := x.length
  let ranks : List α := (List.range n).map fun i => ((i : Nat) : α)
  .ok (ranks.map (scoreArg n cst), ranks)

/-! ### pareto front -/

/-- inner `k` loop of `c_paretofront`: `dom` stays 1 iff every coordinate whose difference is not NaN
has `orientation * (data[j,k] - data[i,k]) > 0` -/
def domBy (o : α) (rj ri : List (Option α)) : Bool :=
  (List.zipWith (fun a b => match a, b with
      | some dj, some di => decide (0 < o * (dj - di))
      | _, _ => true) rj ri).all id

/-- `j` loop with its `i == j` skip and `break` -/
def isDominatedAt (o : α) (d : List (List (Option α))) (i : Nat) : Bool :=
  match d[i]? with
  | none => false
  | some ri => (List.range d.length).any fun j =>
      j != i && (match d[j]? with | some rj => domBy o rj ri | none => false)

/-- `pareto_front(data, orientation)`: 1 = dominated -/
def paretoFront (o : α) (d : List (List (Option α))) : List Nat :=
  (List.range d.length).map fun i => if isDominatedAt o d i then 1 else 0

/-- the wrapper's shape guard: `data.ndim != 2` is rejected before the kernel is called -/
def paretoFrontNd (ndim : Nat) (o : α) (d : List (List (Option α))) : Except Err (List Nat) :=
  if ndim ≠ 2 then .error .ndim else .ok (paretoFront o d)

def negRows (d : List (List (Option α))) : List (List (Option α)) :=
  d.map fun r => r.map fun x => x.map fun v => -v

/-! ### percentiles, box statistics -/

def insertSorted (x : α) : List α → List α
  | [] => [x]
  | y :: ys => if x < y then x :: y :: ys else y :: insertSorted x ys

def sortL (l : List α) : List α := l.foldr insertSorted []

def minL : List α → Option α
  | [] => none
  | x :: xs => some (xs.foldl (fun m y => if y < m then y else m) x)

def maxL : List α → Option α
  | [] => none
  | x :: xs => some (xs.foldl (fun m y => if m < y then y else m) x)

/-- numpy `_lerp` -/
def lerp (a b t : α) : α := if 1 / 2 ≤ t then b - (b - a) * (1 - t) else a + (b - a) * t

/-- `np.quantile(s, q)` (method "linear") on an already sorted list -/
def quantile [FloorNat α] (s : List α) (q : α) : Except Err α :=
  if ¬ (0 ≤ q ∧ q ≤ 1) then .error .percentileRange else
  match s.head?, s.getLast? with
  | some first, some last =>
    let nm1 : α := ((s.length - 1 : Nat) : α)
    let v := nm1 * q
    if nm1 ≤ v then .ok last
    else if v < 0 then .ok first
    else
      let lo := FloorNat.floorNat v
      match s[lo]?, s[lo + 1]? with
      | some a, some b => .ok (lerp a b (v - (lo : α)))
      | _, _ => .error .empty
  | _, _ => .error .empty

/-- `np.percentile(s, p)` = `np.quantile(s, p / 100)` -/
def percentile [FloorNat α] (s : List α) (p : α) : Except Err α := quantile s (p / ((100 : Nat) : α))

/-- `compute_percentiles(coverage)` -/
def computePercentiles (coverage : α) : α × α :=
  let qq1 := (((100 : Nat) : α) - coverage) / 2
  (qq1, ((100 : Nat) : α) - qq1)

structure BoxVals (α : Type) where
  w1 : α
  b1 : α
  med : α
  b2 : α
  w2 : α
  mean : α
  max : α
  min : α

/-- `boxplot_stats(data, box_coverage, whiskers_coverage)`: the count of finite values and, when there are
more than 3, the statistics (otherwise a NaN row); `none` entries are NaN or ±inf -/
def boxStats [FloorNat α] (data : List (Option α)) (bcov wcov : α) : Except Err (Nat × Option (BoxVals α)) :=
  let vals := data.filterMap id
  let b := computePercentiles bcov
  let w := computePercentiles wcov
  let nok := vals.length
  if nok > 3 then
    let s := sortL vals
    match percentile s w.1, percentile s b.1, percentile s ((50 : Nat) : α), percentile s b.2, percentile s w.2,
          maxL vals, minL vals with
    | .ok w1, .ok b1, .ok med, .ok b2, .ok w2, some mx, some mn =>
      .ok (nok, some { w1, b1, med, b2, w2, mean := sumL vals / (nok : α), max := mx, min := mn })
    | .error e, _, _, _, _, _, _ => .error e
    | _, .error e, _, _, _, _, _ => .error e
    | _, _, .error e, _, _, _, _ => .error e
    | _, _, _, .error e, _, _, _ => .error e
    | _, _, _, _, .error e, _, _ => .error e
    | _, _, _, _, _, _, _ => .error .empty
  else .ok (nok, none)

/-- the two coverage guards of `Boxplot.__init__` -/
def boxplotCheck (bcov wcov : α) : Except Err Unit :=
  if bcov < ((40 : Nat) : α) then .error .boxCoverage
  else if wcov ≤ bcov then .error .whiskersCoverage
  else .ok ()

end numeric

/-! ### grouping (`data.groupby(by)`) -/

/-- append `v` to the bucket of key `k`, buckets kept in increasing key order -/
def insertGroup {β : Type} (k : Int) (v : β) : List (Int × List β) → List (Int × List β)
  | [] => [(k, [v])]
  | (k', vs) :: rest =>
    if k < k' then (k, [v]) :: (k', vs) :: rest
    else if k = k' then (k', vs ++ [v]) :: rest
    else (k', vs) :: insertGroup k v rest

/-- rows are scanned once, in order; every row lands in the bucket of its category -/
def groupBy {β : Type} (cats : List Int) (data : List β) : List (Int × List β) :=
  (cats.zip data).foldl (fun acc kv => insertGroup kv.1 kv.2 acc) []

section numeric2
variable {α : Type} [Add α] [Sub α] [Mul α] [Div α] [Neg α] [LT α] [DecidableLT α] [LE α] [DecidableLE α]
  [OfNat α 0] [OfNat α 1] [OfNat α 2] [NatCast α] [FloorNat α]

/-- `groupby(by).apply(boxplot_stats, bhc, whc)`: the statistics of every bucket, in key order -/
def statsOfGroups (bcov wcov : α) : List (Int × List (Option α)) → Except Err (List (Int × Nat × Option (BoxVals α)))
  | [] => .ok []
  | g :: gs =>
    match boxStats g.2 bcov wcov, statsOfGroups bcov wcov gs with
    | .ok st, .ok rest => .ok ((g.1, st.1, st.2) :: rest)
    | .error e, _ => .error e
    | _, .error e => .error e

/-- `Boxplot(data, by=cats, box_coverage, whiskers_coverage).stats`: one column per category -/
def boxStatsBy (cats : List Int) (data : List (Option α)) (bcov wcov : α) :
    Except Err (List (Int × Nat × Option (BoxVals α))) :=
  let groups := groupBy cats data
  if groups.length = 1 then .error .oneCategory else
  match boxplotCheck bcov wcov with
  | .error e => .error e
  | .ok _ => statsOfGroups bcov wcov groups

/-! ### violin -/

/-- `np.median` of a sorted list: the middle value or the mean of the two middle values -/
def median (s : List α) : Option α :=
  let n := s.length
  if n = 0 then none
  else if n % 2 = 1 then s[n / 2]?
  else match s[n / 2 - 1]?, s[n / 2]? with
    | some a, some b => some ((a + b) / 2)
    | _, _ => none

/-- pandas `quantile(q)` = `np.quantile(values without NaN, q)` -/
def pquantile (s : List α) (q : α) : Except Err α := quantile s q

/-- `sen.quantile(q)` for an array of levels: all of them, or the first error -/
def quantilesAt (s : List α) : List α → Except Err (List α)
  | [] => .ok []
  | q :: qs =>
    match pquantile s q, quantilesAt s qs with
    | .ok v, .ok vs => .ok (v :: vs)
    | .error e, _ => .error e
    | _, .error e => .error e

structure ViolinStats (α : Type) where
  q0 : α
  q25 : α
  med : α
  q75 : α
  q100 : α

/-- `Violin.stats` of one column: quantiles of the finite values (`none`: no finite value, a NaN column) -/
def violinStats (data : List (Option α)) : Except Err (Option (ViolinStats α)) :=
  let s := sortL (data.filterMap id)
  let c := computePercentiles ((50 : Nat) : α)
  let e := computePercentiles ((100 : Nat) : α)
  match median s with
  | none => .ok none
  | some med => do
    let q0 ← pquantile s (e.1 / ((100 : Nat) : α))
    let q25 ← pquantile s (c.1 / ((100 : Nat) : α))
    let q75 ← pquantile s (c.2 / ((100 : Nat) : α))
    let q100 ← pquantile s (e.2 / ((100 : Nat) : α))
    pure (some { q0, q25, med, q75, q100 })

/-- keep only the first `true` when there are several -/
def keepFirstTrue : List Bool → List Bool
  | [] => []
  | true :: t => true :: t.map fun _ => false
  | false :: t => false :: keepFirstTrue t

def reduceMask (m : List Bool) : List Bool := if m.count true > 1 then keepFirstTrue m else m

/-- the "reduce impact of censored data" selection: `irest | ilow | ihigh`, with `irest` computed from
the masks after they were reduced to their first hit -/
def violinSelect (eps : α) (vals : List α) (x0 x1 : α) : List α :=
  let ilow := reduceMask (vals.map fun v => decide (absG (v - x0) < eps))
  let ihigh := reduceMask (vals.map fun v => decide (absG (v - x1) < eps))
  let irest := List.zipWith (fun a b => !a && !b) ilow ihigh
  let sel := List.zipWith (fun r ab => r || ab) irest (List.zipWith (fun a b => a || b) ilow ihigh)
  (vals.zip sel).filterMap fun vs => if vs.2 then some vs.1 else none

/-- the density profile of one column: the values handed to `gaussian_kde` and the sorted abscissae
(`npts - npts // 2` regular points and `npts // 2` sample quantiles shifted by `err`);
`none`: fewer than 3 finite values or a constant column, no profile -/
def violinGrid (eps : α) (data : List (Option α)) (npts : Nat) (err : List α) :
    Except Err (Option (List α × List α)) :=
  let vals := data.filterMap id
  match minL vals, maxL vals with
  | some x0, some x1 =>
    if vals.length ≤ 2 ∨ ¬ (x0 < x1) then .ok none else
    let m := npts / 2
    if err.length ≠ m then .error .drawsShape else do
    let s := sortL vals
    let qv ← quantilesAt s (linspace 0 1 m)
    pure (some (violinSelect eps vals x0 x1,
                sortL (linspace x0 x1 (npts - m) ++ List.zipWith (fun a b => a + b) qv err)))
  | _, _ => .ok none

/-- `(y - y.min()) / (y.max() - y.min())` -/
def normalise (y : List α) : Option (List α) :=
  match minL y, maxL y with
  | some lo, some hi => some (y.map fun v => (v - lo) / (hi - lo))
  | _, _ => none

end numeric2

end HydroVerif.C20
