/-
Numeric plumbing shared by every model (no Mathlib).
* float64 crosses the line protocol as 16 hex digits (`Float.ofBits` / `Float.toBits`);
* exact rationals cross as `p/q`;
* `Transc` collects the transcendental functions the transform models need, so that the
  same model text runs at `Float` and is proved at `ℝ`.
-/
namespace HydroVerif

def hexDigit? (c : Char) : Option Nat :=
  if '0' ≤ c ∧ c ≤ '9' then some (c.toNat - '0'.toNat)
  else if 'a' ≤ c ∧ c ≤ 'f' then some (c.toNat - 'a'.toNat + 10)
  else if 'A' ≤ c ∧ c ≤ 'F' then some (c.toNat - 'A'.toNat + 10)
  else none

def parseHex? (s : String) : Option Nat :=
  s.toList.foldl (fun acc c => match acc, hexDigit? c with
    | some a, some d => some (a * 16 + d)
    | _, _ => none) (some 0)

def floatOfHex? (s : String) : Option Float :=
  if s.length ≠ 16 then none else (parseHex? s).map fun n => Float.ofBits n.toUInt64

def hexOfNat (n : Nat) (width : Nat) : String :=
  let rec go (n : Nat) (k : Nat) (acc : List Char) : List Char :=
    match k with
    | 0 => acc
    | k+1 => go (n / 16) k ((Nat.digitChar (n % 16)) :: acc)
  String.ofList (go n width [])

/-- canonical: every NaN is written `nan` -/
def hexOfFloat (x : Float) : String :=
  if x.isNaN then "nan" else hexOfNat x.toBits.toNat 16

def parseInt? (s : String) : Option Int := s.toInt?

class Transc (α : Type) where
  exp : α → α
  log : α → α
  sqrt : α → α
  sinh : α → α
  cosh : α → α
  tanh : α → α
  asinh : α → α
  /-- `pow x y` for `x > 0` -/
  pow : α → α → α

instance : Transc Float where
  exp := Float.exp
  log := Float.log
  sqrt := Float.sqrt
  sinh := Float.sinh
  cosh := Float.cosh
  tanh := Float.tanh
  asinh := Float.asinh
  pow := Float.pow

instance instNatCastFloat : NatCast Float := ⟨Float.ofNat⟩
instance instIntCastFloat : IntCast Float := ⟨Float.ofInt⟩

end HydroVerif
