/-
Line protocol helpers shared by the per-property drivers (no Mathlib).
A request is one line of space-separated tokens; a list is one token `[a,b,c]`
(`[]` when empty), a matrix `[a,b;c,d]`. Replies are one line each.
-/
import HydroVerif.Num
namespace HydroVerif

def splitTok (line : String) : List String :=
  (line.splitOn " ").filter (· ≠ "")

def stripBrackets (s : String) : String :=
  let s := if s.startsWith "[" then (s.drop 1).toString else s
  if s.endsWith "]" then (s.dropEnd 1).toString else s

def listToks (s : String) : List String :=
  let body := stripBrackets s
  if body = "" then [] else body.splitOn ","

def matToks (s : String) : List (List String) :=
  let body := stripBrackets s
  if body = "" then [] else (body.splitOn ";").map fun r => if r = "" then [] else r.splitOn ","

def allSome {α} : List (Option α) → Option (List α)
  | [] => some []
  | none :: _ => none
  | some a :: t => (allSome t).map (a :: ·)

def parseIntList? (s : String) : Option (List Int) := allSome ((listToks s).map String.toInt?)
def parseNatList? (s : String) : Option (List Nat) := allSome ((listToks s).map String.toNat?)

/-- float token: 16 hex digits, or `nan` -/
def floatTok? (s : String) : Option Float :=
  if s = "nan" then some (0.0/0.0) else floatOfHex? s
def parseFloatList? (s : String) : Option (List Float) := allSome ((listToks s).map floatTok?)
def parseFloatMat? (s : String) : Option (List (List Float)) :=
  allSome ((matToks s).map fun r => allSome (r.map floatTok?))

def fmtList (xs : List String) : String := "[" ++ ",".intercalate xs ++ "]"
def fmtIntList (xs : List Int) : String := fmtList (xs.map toString)
def fmtNatList (xs : List Nat) : String := fmtList (xs.map toString)
def fmtFloatList (xs : List Float) : String := fmtList (xs.map hexOfFloat)
def fmtOptFloat : Option Float → String
  | none => "nan"
  | some x => hexOfFloat x

/-- rational token `p/q` or `p` -/
def ratTok? (s : String) : Option Rat :=
  match s.splitOn "/" with
  | [p] => p.toInt?.map fun n => (n : Rat)
  | [p, q] => match p.toInt?, q.toNat? with
      | some n, some d => if d = 0 then none else some ((n : Rat) / (d : Rat))
      | _, _ => none
  | _ => none
def parseRatList? (s : String) : Option (List Rat) := allSome ((listToks s).map ratTok?)
def fmtRat (r : Rat) : String := if r.den = 1 then toString r.num else s!"{r.num}/{r.den}"
def fmtRatList (xs : List Rat) : String := fmtList (xs.map fmtRat)

/-- generic stdin loop: one reply per request line -/
partial def serve (handle : List String → String) : IO Unit := do
  let stdin ← IO.getStdin
  let stdout ← IO.getStdout
  let rec loop : IO Unit := do
    let line ← stdin.getLine
    if line.isEmpty then return ()
    let toks := splitTok (line.trimAscii.toString)
    stdout.putStrLn (handle toks)
    loop
  loop
  stdout.flush

end HydroVerif
