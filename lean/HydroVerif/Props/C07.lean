/-
C07 — property theorems (only).
Models: `Model/C07.lean` (integer grid core; coordinates, cast-first `coord2cell` imported by C05/C13/C16),
`Model/C07Kernel.lean` (`c_coord2cell` as written since /repo c8d188e: extent test on the floored doubles, then
the casts; request-level wrappers), `Model/C07Round.lean` (the coordinate kernels with the rounding of every arithmetic
result explicit; `round53` = IEEE double rounding on exact rationals), `Model/C07State.lean` (the Python layer:
constructor defaults and guard, request shapes, the grid object as a state machine over its public operations).
Lemmas: `Lemmas/C07Grid.lean`, `Lemmas/C07Coord.lean`, `Lemmas/C07Kernel.lean`, `Lemmas/C07Round.lean`.

Sections 1-11 hold for every grid size (`nrows`, `ncols` arbitrary integers with the stated sign hypotheses), every
cell number (any integer), every point, over any ordered field with a floor function (`ℚ`, `ℝ`): exact arithmetic.
Sections 12 and 17 are about *rounded* arithmetic: every `+ - * /` result passes through an operator `rnd` with relative
error at most `u` (the standard model of floating point arithmetic); `round53` (nearest, ties to even, 53 bits, on `ℚ`)
is proved to satisfy it with `u = 2^-53`, is executed by the driver, and is compared *exactly* with the doubles of the
code on every finite point and every cell. Section 13 is over arbitrary operation lists on one grid object.
Standing hypotheses, both inside the property's quantifier ("nrows, ncols >= 1, cell size over eight orders of
magnitude"): `0 < g.csz`, `0 < g.ncols` (`0 < nrows` follows from the existence of a valid cell). Section 14 discharges
`0 < ncols` from the constructor's own guard; section 15 shows that neither can be dropped in general (and that the
round trip needs only `csz ≠ 0`); the harness probes the code at the excluded points (stream `excluded/`).

CLAUSE -> THEOREMS -> WHAT REMAINS OUTSIDE
 1. "cells are numbered row by row from the top-left corner"
      cell2rowcol_valid, cell2rowcol_cellOf, cell2rowcol_injective (bijection valid cells <-> in-range (row, col),
      cell = row*ncols + col), cell2rowcol_zero, cell2rowcol_succ (row by row), cell2coord_top_left_order (row 0 is
      the top row, column 0 the left column).                                              outside: nothing.
 2. "cell2coord returns the centre of the cell"
      cell2coord_eq, cell2coord_centre (midpoint of the footprint), cell2coord_inFootprint; with rounded arithmetic:
      cell2coordR_error (within (3u+3u²+u³)(|ll| + csz(k+1/2)) of the exact centre), cell2coordR_id.
      outside: that the doubles obey the standard model — `round53` does (round53_standard_model), and the code is
      compared exactly with the `round53` instance on every cell; the bound itself is checked on the code's doubles.
 3. "coord2cell returns c for every point inside the footprint of cell c"
      coord2cellK_inside, coord2cellK_eq_iff, coord2cellK_lims (kernel as written); coord2cell_inside, coord2cell_eq_iff,
      coord2cell_extent (cast-first form); coord2cellK_eq_coord2cell (the two forms agree everywhere);
      cellOfQuot_inside_of_approx (the clause survives any evaluation error of the quotients up to the margin);
      quotientsR_error (that error IS at most (2u+u²)|q| with rounded arithmetic), coord2cellR_inside,
      coord2cell_double_inside (u = 2^-53, margin 1e-9 cell sizes, |q| <= 2^21: the quantifier's numbers), coord2cellR_id.
      outside: as 2 (exact comparison with the `round53` instance on every finite point, edges included).
 4. "and -1 for every point outside the grid extent" (4 sides and diagonals, just outside to far away)
      coord2cellK_outside, coord2cellK_lims (= -1 exactly off xlim x ylim), coord2cell_outside,
      coord2cell_eq_neg_one_iff, cellOfQuot_outside_of_approx, coord2cellR_outside, coord2cell_double_outside.
      outside: as 3; NaN/inf points (not in the quantifier; the Float instance sends them to -1 like the code, compared).
 5. "so that coord2cell(cell2coord(c)) = c for every valid cell"
      coord2cellK_cell2coord, coord2cell_cell2coord, coord2cell_axes; coord2cell_cell2coord_of_ne_zero (only csz ≠ 0);
      with BOTH kernels rounded: roundtripR (accumulated error below half a cell: rtBudget u (|ll|/csz + n) < 1/2),
      roundtrip_double (u = 2^-53: every grid with |ll|/csz + n <= 2^48); constructed_roundtrip; history_roundtrip.
      outside: as 2.
 6. "cell2rowcol and neighbours agree with that numbering (symmetric, positions mirror, off-grid neighbours -1)"
      neighbours_spec (entry k = cell at (row+k/3-1, col+k%3-1) or -1; 9 entries; each non-flag entry valid and with
      that (row, col)), neighbours_symmetric (mirror 8-k), neighbours_not_self.            outside: nothing.
 7. "invalid cell numbers are flagged (-1, NaN or an error) rather than mapped to a cell"
      invalid_cell_flagged (every integer outside 0..nrows*ncols-1), valid_cell_not_flagged (only those),
      coord2cellK_valid_or_flag / coord2cell_valid_or_flag (coord2cell never invents a cell number), history_rejected
      (a rejected call answers with the error and leaves the object unchanged, after any history).
      outside: numpy's conversion of Python integers that do not fit int64 (refused or wrapped to a negative number;
      observed flagged-or-error by the oracle, not modelled).
 8. observables `Grid.xvalues`, `Grid.yvalues` (and xlim / ylim)
      xvalues_eq, yvalues_eq, coord2cell_axes, coord2cellK_lims, centreR_mono (the computed centres are monotone in the
      column / row-from-below for any monotone rounding).                                  outside: as 2.
 9. vectorised entry points (glue: atleast_1d / atleast_2d, one kernel entry per requested element)
      grid_requests_elementwise (entry i is answered on its own, whatever the length / order / other entries),
      request_shapes (which shapes are answered — scalar / 1-d cells, a pair / [n, 2] points — and that every other shape
      is a ValueError).        outside: numpy dtype conversion of the request (floats truncated to int64); what the code
      does with a request of another shape is outside the quantifier (compared with the model for the evidence only).
10. the finding fixed in a909179 (truncation toward zero), kept as theorems about the pinned kernel
      coord2cellTrunc_eq_of_ge, coord2cellTrunc_left_strip, coord2cellTrunc_bottom_strip.
11. the exact instances the driver executes are the ones of the theorems: truncRat_eq_fieldTrunc, floorRat_eq_fieldFloor.
12. "for any grid geometry" — however the object got it: the grid object is a state machine over its public operations
      (re-assignment of the five attributes, clone / deepcopy / pickle, the five kinds of calls, rejected calls)
      step_keeps_state (calls, rejected calls and copies write nothing), finalGeom_eq_mutators, run_answer (answer i is
      the answer of a fresh object with the attributes the assignments before i produce), run_append, run_length,
      history_rejected, history_roundtrip.
      outside: that the code has no state beyond the five attributes — the harness sends every call history to the
      model's `run` and compares all answers and the final attributes; caller-side edits of returned / input arrays and
      a second live grid object are harness streams only.
13. constructor `Grid(name, ncols, nrows=None, cellsize=1., xllcorner=0, yllcorner=0)`
      mkGrid_default, mkGrid_ok_iff (refuses exactly negative dimensions), mkGrid_valid_pos (a constructed grid with a
      valid cell has ncols, nrows > 0: discharges the standing hypothesis), constructed_roundtrip.
      outside: np.int64() conversion of non-integer arguments; MemoryError for grids that cannot be allocated.
14. the hypotheses are needed: ncols_pos_needed, csz_pos_needed (counterexamples). The code is run at the excluded points
      (cell size <= 0, zero / negative dimensions) and compared with the Float model for the evidence only: the property
      says nothing there, so a difference is recorded, never an alarm.
-/
import HydroVerif.Lemmas.C07Coord
import HydroVerif.Lemmas.C07Kernel
import HydroVerif.Lemmas.C07Round
import HydroVerif.Model.C07State
import Mathlib.Data.Rat.Floor

set_option linter.unusedSectionVars false

namespace HydroVerif.C07

variable {α : Type} [Field α] [LinearOrder α] [IsStrictOrderedRing α] [FloorRing α]

/-! ### 1. numbering: cell <-> (row, col) is a bijection, row by row from the top-left corner -/

/-- a valid cell has an in-range (row, col), and `row * ncols + col` gives the cell number back -/
theorem cell2rowcol_valid {nrows ncols c : Int} (hc : 0 < ncols) (hv : validCell nrows ncols c = true) :
    0 ≤ (cell2rowcol nrows ncols c).1 ∧ (cell2rowcol nrows ncols c).1 < nrows ∧
    0 ≤ (cell2rowcol nrows ncols c).2 ∧ (cell2rowcol nrows ncols c).2 < ncols ∧
    (cell2rowcol nrows ncols c).1 * ncols + (cell2rowcol nrows ncols c).2 = c := by
  unfold cell2rowcol
  rw [if_pos hv]
  exact valid_rowcol hc hv

/-- every in-range (row, col) is the (row, col) of exactly the cell `row * ncols + col`, which is valid -/
theorem cell2rowcol_cellOf {nrows ncols row col : Int} (hr0 : 0 ≤ row) (hr1 : row < nrows)
    (hc0 : 0 ≤ col) (hc1 : col < ncols) :
    validCell nrows ncols (row * ncols + col) = true ∧
    cell2rowcol nrows ncols (row * ncols + col) = (row, col) := by
  have hv := validCell_cellOf hr0 hr1 hc0 hc1
  refine ⟨hv, ?_⟩
  unfold cell2rowcol
  rw [show row * ncols + col = cellOf ncols row col from rfl, if_pos hv,
    rowOf_cellOf hr0 hc0 hc1, colOf_cellOf hr0 hc0 hc1]

/-- two valid cells with the same (row, col) are the same cell -/
theorem cell2rowcol_injective {nrows ncols c d : Int} (hc : 0 < ncols)
    (hvc : validCell nrows ncols c = true) (hvd : validCell nrows ncols d = true)
    (h : cell2rowcol nrows ncols c = cell2rowcol nrows ncols d) : c = d := by
  have a := (cell2rowcol_valid hc hvc).2.2.2.2
  have b := (cell2rowcol_valid hc hvd).2.2.2.2
  rw [h] at a
  exact a.symm.trans b

/-- numbering starts in the top-left corner: cell 0 is row 0 (the top row, see
`cell2coord_top_left_order`), column 0 -/
theorem cell2rowcol_zero {nrows ncols : Int} (hr : 0 < nrows) (hc : 0 < ncols) :
    cell2rowcol nrows ncols 0 = (0, 0) := by
  have := (cell2rowcol_cellOf (nrows := nrows) (ncols := ncols) (row := 0) (col := 0)
    (le_refl 0) hr (le_refl 0) hc).2
  simpa using this

/-- numbering proceeds row by row: the next cell is one column to the right, or the first column
of the next row when the current row is finished -/
theorem cell2rowcol_succ {nrows ncols c : Int} (hc : 0 < ncols)
    (hv : validCell nrows ncols c = true) (hv' : validCell nrows ncols (c + 1) = true) :
    cell2rowcol nrows ncols (c + 1) =
      if (cell2rowcol nrows ncols c).2 + 1 < ncols
      then ((cell2rowcol nrows ncols c).1, (cell2rowcol nrows ncols c).2 + 1)
      else ((cell2rowcol nrows ncols c).1 + 1, 0) := by
  obtain ⟨r0, r1, c0, c1, hidx⟩ := cell2rowcol_valid hc hv
  generalize (cell2rowcol nrows ncols c).1 = r at *
  generalize (cell2rowcol nrows ncols c).2 = k at *
  subst hidx
  split
  · rename_i hlt
    have := (cell2rowcol_cellOf (nrows := nrows) r0 r1 (by omega : 0 ≤ k + 1) hlt).2
    rw [← this]; congr 1; omega
  · rename_i hge
    have hk : k + 1 = ncols := by omega
    have hvr : r + 1 < nrows := by
      have h2 : r * ncols + k + 1 = cellOf ncols (r + 1) 0 := by
        unfold cellOf; rw [Int.add_mul]; omega
      rw [h2] at hv'
      exact ((validCell_cellOf_iff (le_refl 0) hc).1 hv').2
    have := (cell2rowcol_cellOf (nrows := nrows) (ncols := ncols) (row := r + 1) (col := 0)
      (by omega) hvr (le_refl 0) hc).2
    rw [← this]; congr 1; rw [Int.add_mul]; omega

/-! ### 2. `cell2coord` returns the centre of the cell -/

/-- explicit centre formula -/
theorem cell2coord_eq {g : Geom α} {c : Int} (hv : validCell g.nrows g.ncols c = true) :
    cell2coord g c = some
      (g.xll + g.csz * ((colOf g.ncols c : α) + 1 / 2),
       g.yll + g.csz * (((g.nrows - 1 - rowOf g.ncols c : Int) : α) + 1 / 2)) := by
  unfold cell2coord getcoord
  rw [if_pos hv]
  simp

/-- the point returned for a valid cell is the midpoint of its footprint in both directions -/
theorem cell2coord_centre {g : Geom α} {c : Int} (hv : validCell g.nrows g.ncols c = true) :
    ∃ x y, cell2coord g c = some (x, y) ∧
      2 * x = cellLeft g c + cellRight g c ∧ 2 * y = cellBottom g c + cellTop g c := by
  refine ⟨_, _, cell2coord_eq hv, ?_, ?_⟩
  · unfold cellLeft cellRight; ring
  · unfold cellBottom cellTop rowUp; ring

/-- the centre lies strictly inside the footprint (for a positive cell size) -/
theorem cell2coord_inFootprint {g : Geom α} (hcsz : 0 < g.csz) {c : Int}
    (hv : validCell g.nrows g.ncols c = true) :
    ∃ x y, cell2coord g c = some (x, y) ∧ cellLeft g c < x ∧ x < cellRight g c ∧
      cellBottom g c < y ∧ y < cellTop g c := by
  refine ⟨_, _, cell2coord_eq hv, ?_, ?_, ?_, ?_⟩
  · unfold cellLeft; nlinarith
  · unfold cellRight; nlinarith
  · unfold cellBottom rowUp; nlinarith
  · unfold cellTop rowUp; nlinarith

/-- orientation: x grows with the column number, y *decreases* with the row number — row 0 is the
top row, column 0 the left column, so cell 0 is the top-left corner -/
theorem cell2coord_top_left_order {g : Geom α} (hcsz : 0 < g.csz) {c d : Int} {xc yc xd yd : α}
    (hvc : validCell g.nrows g.ncols c = true) (hvd : validCell g.nrows g.ncols d = true)
    (hc : cell2coord g c = some (xc, yc)) (hd : cell2coord g d = some (xd, yd)) :
    (colOf g.ncols c < colOf g.ncols d → xc < xd) ∧ (rowOf g.ncols c < rowOf g.ncols d → yd < yc) := by
  rw [cell2coord_eq hvc] at hc
  rw [cell2coord_eq hvd] at hd
  simp only [Option.some.injEq, Prod.mk.injEq] at hc hd
  obtain ⟨rfl, rfl⟩ := hc
  obtain ⟨rfl, rfl⟩ := hd
  constructor
  · intro h
    have : (colOf g.ncols c : α) < (colOf g.ncols d : α) := by exact_mod_cast h
    nlinarith
  · intro h
    have : ((g.nrows - 1 - rowOf g.ncols d : Int) : α) < ((g.nrows - 1 - rowOf g.ncols c : Int) : α) := by
      exact_mod_cast (by omega : g.nrows - 1 - rowOf g.ncols d < g.nrows - 1 - rowOf g.ncols c)
    nlinarith

/-! ### 3. `coord2cell`: inside a footprint ⇒ that cell; outside the extent ⇒ -1 -/

/-- every point of the footprint of a valid cell `c` (left/bottom edges included) is mapped to `c` -/
theorem coord2cell_inside {g : Geom α} (hcsz : 0 < g.csz) (hc : 0 < g.ncols) {c : Int}
    (hv : validCell g.nrows g.ncols c = true) {x y : α} (h : InFootprint g c x y) :
    coord2cell g x y = c :=
  coord2cell_of_inFootprint hcsz hc hv h

/-- every point outside the extent — left, right, below, above or diagonal, however close or far —
is mapped to `-1`. (No side condition `x ≥ xll ∧ y ≥ yll`: the kernel takes `floor` since the `fix:`
commit; for the pinned kernel see `coord2cellTrunc_left_strip`.) -/
theorem coord2cell_outside {g : Geom α} (hcsz : 0 < g.csz) {x y : α}
    (h : x < g.xll ∨ g.xll + (g.ncols : α) * g.csz ≤ x ∨ y < g.yll ∨ g.yll + (g.nrows : α) * g.csz ≤ y) :
    coord2cell g x y = -1 := by
  apply coord2cell_of_not_inExtent hcsz
  rintro ⟨a, b, c, d⟩
  rcases h with h | h | h | h <;> linarith

/-- every point of the extent is mapped to a valid cell, and lies in the footprint of that cell:
the footprints of the valid cells tile the extent -/
theorem coord2cell_extent {g : Geom α} (hcsz : 0 < g.csz) {x y : α} (h : InExtent g x y) :
    validCell g.nrows g.ncols (coord2cell g x y) = true ∧ InFootprint g (coord2cell g x y) x y :=
  coord2cell_of_inExtent hcsz h

/-- the result is `-1` exactly for the points outside the extent -/
theorem coord2cell_eq_neg_one_iff {g : Geom α} (hcsz : 0 < g.csz) {x y : α} :
    coord2cell g x y = -1 ↔ ¬ InExtent g x y := by
  constructor
  · intro h hin
    have := (validCell_iff.1 (coord2cell_of_inExtent hcsz hin).1).1
    omega
  · exact coord2cell_of_not_inExtent hcsz

/-- `coord2cell` characterised: it returns the valid cell `c` exactly on the footprint of `c` -/
theorem coord2cell_eq_iff {g : Geom α} (hcsz : 0 < g.csz) (hc : 0 < g.ncols) {c : Int}
    (hv : validCell g.nrows g.ncols c = true) {x y : α} :
    coord2cell g x y = c ↔ InFootprint g c x y := by
  constructor
  · intro h
    have hin : InExtent g x y := by
      by_contra hne
      have := coord2cell_of_not_inExtent hcsz hne
      have := (validCell_iff.1 hv).1
      omega
    have := (coord2cell_of_inExtent hcsz hin).2
    rwa [h] at this
  · exact coord2cell_of_inFootprint hcsz hc hv

/-- round trip: `coord2cell (cell2coord c) = c` for every valid cell -/
theorem coord2cell_cell2coord {g : Geom α} (hcsz : 0 < g.csz) (hc : 0 < g.ncols) {c : Int}
    (hv : validCell g.nrows g.ncols c = true) :
    ∃ x y, cell2coord g c = some (x, y) ∧ coord2cell g x y = c := by
  obtain ⟨x, y, hxy, h1, h2, h3, h4⟩ := cell2coord_inFootprint hcsz hv
  exact ⟨x, y, hxy, coord2cell_of_inFootprint hcsz hc hv ⟨h1.le, h2, h3.le, h4⟩⟩

/-! ### 4. neighbours agree with the numbering -/

/-- the neighbour vector of a valid cell has 9 entries; entry `k` is the cell one step away in the
direction `(k/3 - 1, k%3 - 1)` (row, col offsets) when that position is on the grid and `k ≠ 4`,
and `-1` otherwise (centre, or off-grid neighbour) -/
theorem neighbours_spec {nrows ncols c : Int} (hv : validCell nrows ncols c = true) :
    ∃ l, cNeighbours nrows ncols c = .ok l ∧ l.length = 9 ∧
      ∀ k, (hk : k < 9) → ∀ d, l[k]? = some d →
        let row := (cell2rowcol nrows ncols c).1 + ((k / 3 : Nat) - 1 : Int)
        let col := (cell2rowcol nrows ncols c).2 + ((k % 3 : Nat) - 1 : Int)
        if k ≠ 4 ∧ 0 ≤ row ∧ row < nrows ∧ 0 ≤ col ∧ col < ncols
        then d = row * ncols + col ∧ validCell nrows ncols d = true ∧ cell2rowcol nrows ncols d = (row, col)
        else d = -1 := by
  refine ⟨_, cNeighbours_eq hv, by simp, ?_⟩
  intro k hk d hd
  have hd' : neighbour nrows ncols c k = d := by
    simpa [List.getElem?_map, List.getElem?_range hk] using hd
  have hrc : cell2rowcol nrows ncols c = (rowOf ncols c, colOf ncols c) := by
    unfold cell2rowcol; rw [if_pos hv]
  simp only [hrc]
  show if k ≠ 4 ∧ 0 ≤ rowOf ncols c + nbDy k ∧ rowOf ncols c + nbDy k < nrows ∧
        0 ≤ colOf ncols c + nbDx k ∧ colOf ncols c + nbDx k < ncols
      then d = (rowOf ncols c + nbDy k) * ncols + (colOf ncols c + nbDx k) ∧
        validCell nrows ncols d = true ∧
        cell2rowcol nrows ncols d = (rowOf ncols c + nbDy k, colOf ncols c + nbDx k)
      else d = -1
  split
  · rename_i h
    have hne : ¬ neighbour nrows ncols c k = -1 := by
      rw [neighbour_eq_neg_one_iff, nb_centre_iff hk]
      rintro (h4 | hout)
      · exact h.1 h4
      · exact hout ⟨h.2.2.2.1, h.2.2.2.2, h.2.1, h.2.2.1⟩
    rw [hd'] at hne
    obtain ⟨-, c0, c1, r0, r1, hdef⟩ := neighbour_spec hd' hne
    refine ⟨hdef, neighbour_valid hd' hne, ?_⟩
    rw [hdef]
    exact (cell2rowcol_cellOf r0 r1 c0 c1).2
  · rename_i h
    rw [← hd', neighbour_eq_neg_one_iff, nb_centre_iff hk]
    by_cases h4 : k = 4
    · exact Or.inl h4
    · right
      rintro ⟨a, b, c', d'⟩
      exact h ⟨h4, c', d', a, b⟩

/-- **symmetry with mirrored position**: if `d ≠ -1` is entry `k` of the neighbour vector of the valid
cell `c`, then `d` is valid and `c` is entry `8 - k` of the neighbour vector of `d` -/
theorem neighbours_symmetric {nrows ncols c : Int} (hc : 0 < ncols)
    (hv : validCell nrows ncols c = true) {l : List Int} (hl : cNeighbours nrows ncols c = .ok l)
    {k : Nat} (hk : k < 9) {d : Int} (hd : l[k]? = some d) (hne : d ≠ -1) :
    ∃ l', cNeighbours nrows ncols d = .ok l' ∧ l'[8 - k]? = some c := by
  rw [cNeighbours_eq hv] at hl
  injection hl with hl
  subst hl
  have hd' : neighbour nrows ncols c k = d := by
    simpa [List.getElem?_map, List.getElem?_range hk] using hd
  have hvd := neighbour_valid hd' hne
  refine ⟨_, cNeighbours_eq hvd, ?_⟩
  have h8 : 8 - k < 9 := by omega
  simp [List.getElem?_map, List.getElem?_range h8, neighbour_mirror hc hv hk hd' hne]

/-- a valid cell never lists itself as a neighbour -/
theorem neighbours_not_self {nrows ncols c : Int} (hv : validCell nrows ncols c = true)
    {l : List Int} (hl : cNeighbours nrows ncols c = .ok l) : c ∉ l := by
  rw [cNeighbours_eq hv] at hl
  injection hl with hl
  subst hl
  intro hmem
  rw [List.mem_map] at hmem
  obtain ⟨k, -, hk⟩ := hmem
  exact neighbour_ne_self hv hk

/-! ### 5. invalid cell numbers are flagged, never mapped to a cell -/

/-- a cell number outside `0 .. nrows*ncols-1` gives `(-1,-1)`, `(NaN, NaN)` and an error -/
theorem invalid_cell_flagged {g : Geom α} {c : Int} (h : c < 0 ∨ g.nrows * g.ncols ≤ c) :
    cell2rowcol g.nrows g.ncols c = (-1, -1) ∧ cell2coord g c = none ∧
      cNeighbours g.nrows g.ncols c = .error .badCell := by
  have hv := validCell_eq_false_iff.2 h
  refine ⟨?_, ?_, cNeighbours_invalid hv⟩
  · unfold cell2rowcol; simp [hv]
  · unfold cell2coord; simp [hv]

/-- conversely the flags are raised only for invalid cell numbers -/
theorem valid_cell_not_flagged {g : Geom α} (hc : 0 < g.ncols) {c : Int}
    (hv : validCell g.nrows g.ncols c = true) :
    cell2rowcol g.nrows g.ncols c ≠ (-1, -1) ∧ cell2coord g c ≠ none ∧
      cNeighbours g.nrows g.ncols c ≠ .error .badCell := by
  refine ⟨?_, ?_, ?_⟩
  · intro h
    have := (cell2rowcol_valid hc hv).1
    rw [h] at this
    omega
  · rw [cell2coord_eq hv]; simp
  · rw [cNeighbours_eq hv]; simp

/-- `coord2cell` never produces an invalid cell number other than the flag `-1` -/
theorem coord2cell_valid_or_flag {g : Geom α} (hcsz : 0 < g.csz) (x y : α) :
    coord2cell g x y = -1 ∨ validCell g.nrows g.ncols (coord2cell g x y) = true := by
  by_cases h : InExtent g x y
  · exact Or.inr (coord2cell_of_inExtent hcsz h).1
  · exact Or.inl (coord2cell_of_not_inExtent hcsz h)

/-! ### 6. derived axes: `xvalues`, `yvalues` -/

/-- `xvalues[j]` is the centre abscissa of column `j`, for all `ncols` columns -/
theorem xvalues_eq {g : Geom α} (hr : 0 < g.nrows) (hc : 0 < g.ncols) :
    xvalues g = (List.range g.ncols.toNat).map fun (j : Nat) =>
      some (g.xll + g.csz * ((j : α) + 1 / 2)) := by
  unfold xvalues
  apply List.map_congr_left
  intro j hj
  rw [List.mem_range] at hj
  have hj1 : (j : Int) < g.ncols := by omega
  have hv : validCell g.nrows g.ncols (j : Int) = true := by
    have := validCell_cellOf (nrows := g.nrows) (le_refl 0) hr (Int.natCast_nonneg j) hj1
    simpa [cellOf] using this
  have hcol : colOf g.ncols (j : Int) = j := by
    have := colOf_cellOf (row := 0) (le_refl 0) (Int.natCast_nonneg j) hj1
    simpa [cellOf] using this
  rw [cell2coord_eq hv, hcol]
  simp

/-- `yvalues[i]` is the centre ordinate of row `i` (row 0 at the top), for all `nrows` rows -/
theorem yvalues_eq {g : Geom α} (hc : 0 < g.ncols) :
    yvalues g = (List.range g.nrows.toNat).map fun (i : Nat) =>
      some (g.yll + g.csz * (((g.nrows - 1 - (i : Int) : Int) : α) + 1 / 2)) := by
  unfold yvalues
  apply List.map_congr_left
  intro i hi
  rw [List.mem_range] at hi
  have hi1 : (i : Int) < g.nrows := by omega
  have hv : validCell g.nrows g.ncols ((i : Int) * g.ncols) = true := by
    have := validCell_cellOf (ncols := g.ncols) (Int.natCast_nonneg i) hi1 (le_refl 0) hc
    simpa [cellOf] using this
  have hrow : rowOf g.ncols ((i : Int) * g.ncols) = i := by
    have := rowOf_cellOf (ncols := g.ncols) (col := 0) (Int.natCast_nonneg i) (le_refl 0) hc
    simpa [cellOf] using this
  rw [cell2coord_eq hv, hrow]
  simp

/-- the axes address the cells: the point `(xvalues[j], yvalues[i])` is mapped to cell `i*ncols + j` -/
theorem coord2cell_axes {g : Geom α} (hcsz : 0 < g.csz) {i j : Int} (hi0 : 0 ≤ i) (hi1 : i < g.nrows)
    (hj0 : 0 ≤ j) (hj1 : j < g.ncols) :
    coord2cell g (g.xll + g.csz * ((j : α) + 1 / 2))
      (g.yll + g.csz * (((g.nrows - 1 - i : Int) : α) + 1 / 2)) = i * g.ncols + j := by
  obtain ⟨hv, hrc⟩ := cell2rowcol_cellOf hi0 hi1 hj0 hj1
  obtain ⟨x, y, hxy, hcell⟩ := coord2cell_cell2coord hcsz (by omega) hv
  rw [cell2coord_eq hv] at hxy
  have hcol : colOf g.ncols (i * g.ncols + j) = j := colOf_cellOf hi0 hj0 hj1
  have hrow : rowOf g.ncols (i * g.ncols + j) = i := rowOf_cellOf hi0 hj0 hj1
  rw [hcol, hrow] at hxy
  simp only [Option.some.injEq, Prod.mk.injEq] at hxy
  obtain ⟨rfl, rfl⟩ := hxy
  exact hcell

/-! ### 7. the pinned kernel (bare cast, truncation toward zero): the finding as a theorem -/

/-- the `fix:` commit changes nothing for points with `x ≥ xll` and `y ≥ yll` -/
theorem coord2cellTrunc_eq_of_ge {g : Geom α} (hcsz : 0 < g.csz) {x y : α}
    (hx : g.xll ≤ x) (hy : g.yll ≤ y) : coord2cellTrunc g x y = coord2cell g x y := by
  unfold coord2cellTrunc coord2cell
  rw [trunc_eq_floor_of_nonneg (div_nonneg (by linarith) hcsz.le),
    trunc_eq_floor_of_nonneg (div_nonneg (by linarith) hcsz.le)]
  rfl

/-- with truncation, a point less than one cell to the *left* of the extent (and at a height inside
it) is not flagged: it gets the same valid cell of column 0 as the point on the left edge -/
theorem coord2cellTrunc_left_strip {g : Geom α} (hcsz : 0 < g.csz) (hc : 0 < g.ncols) {x y : α}
    (hx0 : g.xll - g.csz < x) (hx1 : x < g.xll) (hy0 : g.yll ≤ y)
    (hy1 : y < g.yll + (g.nrows : α) * g.csz) :
    coord2cellTrunc g x y = coord2cell g g.xll y ∧
      validCell g.nrows g.ncols (coord2cellTrunc g x y) = true ∧ coord2cell g x y = -1 := by
  have hq0 : -1 < (x - g.xll) / g.csz := by rw [lt_div_iff₀ hcsz]; linarith
  have hq1 : (x - g.xll) / g.csz < 0 := div_neg_of_neg_of_pos (by linarith) hcsz
  have e : coord2cellTrunc g x y = coord2cell g g.xll y := by
    unfold coord2cellTrunc coord2cell
    rw [trunc_eq_zero_of_strip hq0 hq1, trunc_eq_floor_of_nonneg (div_nonneg (by linarith) hcsz.le)]
    simp
  have hin : InExtent g g.xll y := by
    refine ⟨le_refl _, ?_, hy0, hy1⟩
    have : (0 : α) < (g.ncols : α) := by exact_mod_cast hc
    nlinarith
  refine ⟨e, ?_, coord2cell_outside hcsz (Or.inl hx1)⟩
  rw [e]
  exact (coord2cell_of_inExtent hcsz hin).1

/-- the same below the extent: a point less than one cell *below* it is given a cell of the bottom row -/
theorem coord2cellTrunc_bottom_strip {g : Geom α} (hcsz : 0 < g.csz) (hr : 0 < g.nrows) {x y : α}
    (hy0 : g.yll - g.csz < y) (hy1 : y < g.yll) (hx0 : g.xll ≤ x)
    (hx1 : x < g.xll + (g.ncols : α) * g.csz) :
    coord2cellTrunc g x y = coord2cell g x g.yll ∧
      validCell g.nrows g.ncols (coord2cellTrunc g x y) = true ∧ coord2cell g x y = -1 := by
  have hq0 : -1 < (y - g.yll) / g.csz := by rw [lt_div_iff₀ hcsz]; linarith
  have hq1 : (y - g.yll) / g.csz < 0 := div_neg_of_neg_of_pos (by linarith) hcsz
  have e : coord2cellTrunc g x y = coord2cell g x g.yll := by
    unfold coord2cellTrunc coord2cell
    rw [trunc_eq_zero_of_strip hq0 hq1, trunc_eq_floor_of_nonneg (div_nonneg (by linarith) hcsz.le)]
    simp
  have hin : InExtent g x g.yll := by
    refine ⟨hx0, hx1, le_refl _, ?_⟩
    have : (0 : α) < (g.nrows : α) := by exact_mod_cast hr
    nlinarith
  refine ⟨e, ?_, coord2cell_outside hcsz (Or.inr (Or.inr (Or.inl hy1)))⟩
  rw [e]
  exact (coord2cell_of_inExtent hcsz hin).1

/-! ### 8. the exact instance executed by the driver is the one the theorems speak about -/

/-- the `Rat` instance of `Model/C07.lean` (run by the driver for the exact replies) coincides with the
ordered-field instance used in every theorem above, at `α = ℚ` -/
theorem truncRat_eq_fieldTrunc : (truncRat : Trunc ℚ) = (fieldTrunc : Trunc ℚ) := by
  have h3 : truncRat.floorToInt = (fieldTrunc : Trunc ℚ).floorToInt := rfl
  have h1 : truncRat.ofInt = (fieldTrunc : Trunc ℚ).ofInt := rfl
  have h2 : truncRat.truncToInt = (fieldTrunc : Trunc ℚ).truncToInt := by
    funext x
    show (if 0 ≤ x then x.floor else -((-x).floor)) = if 0 ≤ x then ⌊x⌋ else ⌈x⌉
    split
    · rfl
    · show -⌊-x⌋ = ⌈x⌉
      rw [Int.floor_neg, neg_neg]
  cases h : (truncRat : Trunc ℚ) with
  | mk a b c =>
    cases h' : (fieldTrunc : Trunc ℚ) with
    | mk a' b' c' =>
      rw [h] at h1 h2 h3; rw [h'] at h1 h2 h3
      simp only at h1 h2 h3
      subst h1 h2 h3
      rfl

/-! ### 9. the kernel as it is written now (extent test on the floored doubles, then the casts) -/

/-- `c_coord2cell` as written since c8d188e equals the cast-first form, for every geometry and every point:
every theorem of sections 3, 6 and 7 transfers word for word (restated below for the principal ones) -/
theorem coord2cellK_eq_coord2cell (g : Geom α) (x y : α) : coord2cellK g x y = coord2cell g x y :=
  coord2cellK_eq g x y

/-- inside a footprint ⇒ that cell (kernel as written) -/
theorem coord2cellK_inside {g : Geom α} (hcsz : 0 < g.csz) (hc : 0 < g.ncols) {c : Int}
    (hv : validCell g.nrows g.ncols c = true) {x y : α} (h : InFootprint g c x y) :
    coord2cellK g x y = c := by
  rw [coord2cellK_eq]; exact coord2cell_inside hcsz hc hv h

/-- outside the extent on any side ⇒ -1 (kernel as written) -/
theorem coord2cellK_outside {g : Geom α} (hcsz : 0 < g.csz) {x y : α}
    (h : x < g.xll ∨ g.xll + (g.ncols : α) * g.csz ≤ x ∨ y < g.yll ∨ g.yll + (g.nrows : α) * g.csz ≤ y) :
    coord2cellK g x y = -1 := by
  rw [coord2cellK_eq]; exact coord2cell_outside hcsz h

/-- the result is `-1` exactly off `xlim × ylim` (the half-open extent as `Grid.xlim` / `Grid.ylim` give it),
and on it a valid cell whose footprint contains the point -/
theorem coord2cellK_lims {g : Geom α} (hcsz : 0 < g.csz) (x y : α) :
    (coord2cellK g x y ≠ -1 ↔
      ((xlim g).1 ≤ x ∧ x < (xlim g).2 ∧ (ylim g).1 ≤ y ∧ y < (ylim g).2)) ∧
    (coord2cellK g x y ≠ -1 →
      validCell g.nrows g.ncols (coord2cellK g x y) = true ∧ InFootprint g (coord2cellK g x y) x y) := by
  rw [coord2cellK_eq]
  constructor
  · rw [← inExtent_iff_lims, not_iff_comm, coord2cell_eq_neg_one_iff hcsz]
  · intro h
    have hin : InExtent g x y := by
      by_contra hne
      exact h ((coord2cell_eq_neg_one_iff hcsz).2 hne)
    exact coord2cell_extent hcsz hin

/-- characterisation (kernel as written): the valid cell `c` is returned exactly on the footprint of `c` -/
theorem coord2cellK_eq_iff {g : Geom α} (hcsz : 0 < g.csz) (hc : 0 < g.ncols) {c : Int}
    (hv : validCell g.nrows g.ncols c = true) {x y : α} :
    coord2cellK g x y = c ↔ InFootprint g c x y := by
  rw [coord2cellK_eq]; exact coord2cell_eq_iff hcsz hc hv

/-- round trip (kernel as written) -/
theorem coord2cellK_cell2coord {g : Geom α} (hcsz : 0 < g.csz) (hc : 0 < g.ncols) {c : Int}
    (hv : validCell g.nrows g.ncols c = true) :
    ∃ x y, cell2coord g c = some (x, y) ∧ coord2cellK g x y = c := by
  obtain ⟨x, y, h1, h2⟩ := coord2cell_cell2coord hcsz hc hv
  exact ⟨x, y, h1, by rw [coord2cellK_eq]; exact h2⟩

/-- never an invalid number other than the flag (kernel as written) -/
theorem coord2cellK_valid_or_flag {g : Geom α} (hcsz : 0 < g.csz) (x y : α) :
    coord2cellK g x y = -1 ∨ validCell g.nrows g.ncols (coord2cellK g x y) = true := by
  rw [coord2cellK_eq]; exact coord2cell_valid_or_flag hcsz x y

/-! ### 10. the conditioning region: "away from the edges by a relative margin" -/

/-- **robustness of the inside clause.** Let the two quotients be evaluated with any error of at most `δ`
cell sizes (rounded subtraction and division, for instance). If the point is at least `δ` cell sizes inside the
footprint of the valid cell `c`, the kernel still returns `c`. With `δ = 1e-9` this is the property's
"away from edges by 1e-9 relative"; the harness measures the actual error of the double evaluation on every
case (it is below `1e-9` for the whole quantifier) -/
theorem cellOfQuot_inside_of_approx {g : Geom α} (hcsz : 0 < g.csz) (hc : 0 < g.ncols) {c : Int}
    (hv : validCell g.nrows g.ncols c = true) {x y qx' qy' δ : α}
    (hqx : |qx' - (quotients g x y).1| ≤ δ) (hqy : |qy' - (quotients g x y).2| ≤ δ)
    (hin : cellLeft g c + δ * g.csz ≤ x ∧ x + δ * g.csz < cellRight g c ∧
      cellBottom g c + δ * g.csz ≤ y ∧ y + δ * g.csz < cellTop g c) :
    cellOfQuot g.nrows g.ncols qx' qy' = c := by
  obtain ⟨hr0, hr1, hc0, hc1, hidx⟩ := valid_rowcol hc hv
  obtain ⟨hl, hr, hb, ht⟩ := hin
  unfold quotients at hqx hqy
  simp only at hqx hqy
  unfold cellLeft at hl
  unfold cellRight at hr
  unfold cellBottom at hb
  unfold cellTop at ht
  have fx : ⌊qx'⌋ = colOf g.ncols c := by
    apply floor_eq_of_approx hqx
    · rw [le_div_iff₀ hcsz]; nlinarith
    · rw [← sub_pos, show (colOf g.ncols c : α) + 1 - ((x - g.xll) / g.csz + δ)
        = ((g.xll + g.csz * ((colOf g.ncols c : α) + 1)) - (x + δ * g.csz)) / g.csz by field_simp; ring]
      exact div_pos (by linarith) hcsz
  have fy : ⌊qy'⌋ = rowUp g c := by
    apply floor_eq_of_approx hqy
    · rw [le_div_iff₀ hcsz]; nlinarith
    · rw [← sub_pos, show (rowUp g c : α) + 1 - ((y - g.yll) / g.csz + δ)
        = ((g.yll + g.csz * ((rowUp g c : α) + 1)) - (y + δ * g.csz)) / g.csz by field_simp; ring]
      exact div_pos (by linarith) hcsz
  rw [cellOfQuot_eq, fx, fy]
  have e : g.nrows - 1 - rowUp g c = rowOf g.ncols c := by unfold rowUp; omega
  rw [e, cellOfNxNy_in ⟨hc0, hc1, hr0, hr1⟩, hidx]

/-- **robustness of the outside clause.** With the quotients evaluated within `δ` cell sizes, a point at least
`δ` cell sizes outside the extent on any side is mapped to `-1` -/
theorem cellOfQuot_outside_of_approx {g : Geom α} (hcsz : 0 < g.csz) {x y qx' qy' δ : α}
    (hqx : |qx' - (quotients g x y).1| ≤ δ) (hqy : |qy' - (quotients g x y).2| ≤ δ)
    (hout : x + δ * g.csz < g.xll ∨ g.xll + (g.ncols : α) * g.csz + δ * g.csz ≤ x ∨
      y + δ * g.csz < g.yll ∨ g.yll + (g.nrows : α) * g.csz + δ * g.csz ≤ y) :
    cellOfQuot g.nrows g.ncols qx' qy' = -1 := by
  unfold quotients at hqx hqy
  simp only at hqx hqy
  rw [cellOfQuot_eq]
  apply cellOfNxNy_out
  rintro ⟨a, b, c, d⟩
  rcases hout with h | h | h | h
  · have : ⌊qx'⌋ < 0 := by
      apply floor_neg_of_approx hqx
      rw [← sub_pos, show (0 : α) - ((x - g.xll) / g.csz + δ) = (g.xll - (x + δ * g.csz)) / g.csz by
        field_simp; ring]
      exact div_pos (by linarith) hcsz
    omega
  · have : g.ncols ≤ ⌊qx'⌋ := by
      apply floor_ge_of_approx hqx
      rw [le_div_iff₀ hcsz]; nlinarith
    omega
  · have : ⌊qy'⌋ < 0 := by
      apply floor_neg_of_approx hqy
      rw [← sub_pos, show (0 : α) - ((y - g.yll) / g.csz + δ) = (g.yll - (y + δ * g.csz)) / g.csz by
        field_simp; ring]
      exact div_pos (by linarith) hcsz
    omega
  · have : g.nrows ≤ ⌊qy'⌋ := by
      apply floor_ge_of_approx hqy
      rw [le_div_iff₀ hcsz]; nlinarith
    omega

/-! ### 11. vectorised requests: each entry is answered on its own -/

/-- the answer of the vectorised entry points for entry `i` of a request is the answer for that entry alone,
whatever the length, the order and the other entries of the request (a bare scalar is the one-entry request) -/
theorem grid_requests_elementwise (g : Geom α) (cells : List Int) (pts : List (α × α)) (i : Nat) :
    (gridCell2rowcol g.nrows g.ncols cells)[i]? = cells[i]?.map (cell2rowcol g.nrows g.ncols) ∧
    (gridCell2coord g cells)[i]? = cells[i]?.map (cell2coord g) ∧
    (gridCoord2cell g pts)[i]? = pts[i]?.map (fun p => coord2cellK g p.1 p.2) ∧
    (gridCell2rowcol g.nrows g.ncols cells).length = cells.length ∧
    (gridCell2coord g cells).length = cells.length ∧ (gridCoord2cell g pts).length = pts.length := by
  simp [gridCell2rowcol, gridCell2coord, gridCoord2cell]

/-- the exact `floor` executed by the driver at `Rat` is the one of the theorems -/
theorem floorRat_eq_fieldFloor : (floorRat : FloorNum ℚ) = (fieldFloor : FloorNum ℚ) := rfl


/-! ### 12. rounding: the clauses under the standard model of floating point arithmetic -/

/-- **the hypothesis of the robustness theorems, proved.** With every arithmetic result rounded with relative error
at most `u`, each quotient the kernel floors is within `(2u + u²)·|q|` of the exact quotient `q` -/
theorem quotientsR_error {rnd : α → α} {u : α} (hr : RelErr rnd u) (hu : 0 ≤ u) (g : Geom α) (x y : α) :
    |(quotientsR rnd g x y).1 - (quotients g x y).1| ≤ quotBudget u * |(quotients g x y).1| ∧
    |(quotientsR rnd g x y).2 - (quotients g x y).2| ≤ quotBudget u * |(quotients g x y).2| :=
  ⟨quot_err hr hu _ _, quot_err hr hu _ _⟩

/-- inside clause with rounded arithmetic: a point at least `δ` cell sizes inside the footprint of the valid cell
`c` is mapped to `c`, for every `δ` that covers the rounding budget of the two quotients -/
theorem coord2cellR_inside {rnd : α → α} {u : α} (hr : RelErr rnd u) (hu : 0 ≤ u) {g : Geom α}
    (hcsz : 0 < g.csz) (hc : 0 < g.ncols) {c : Int} (hv : validCell g.nrows g.ncols c = true) {x y δ : α}
    (hδx : quotBudget u * |(quotients g x y).1| ≤ δ) (hδy : quotBudget u * |(quotients g x y).2| ≤ δ)
    (hin : cellLeft g c + δ * g.csz ≤ x ∧ x + δ * g.csz < cellRight g c ∧
      cellBottom g c + δ * g.csz ≤ y ∧ y + δ * g.csz < cellTop g c) :
    coord2cellR rnd g x y = c :=
  cellOfQuot_inside_of_approx hcsz hc hv ((quotientsR_error hr hu g x y).1.trans hδx)
    ((quotientsR_error hr hu g x y).2.trans hδy) hin

/-- outside clause with rounded arithmetic: a point at least `δ` cell sizes outside the extent, on any side, is
mapped to `-1` -/
theorem coord2cellR_outside {rnd : α → α} {u : α} (hr : RelErr rnd u) (hu : 0 ≤ u) {g : Geom α}
    (hcsz : 0 < g.csz) {x y δ : α}
    (hδx : quotBudget u * |(quotients g x y).1| ≤ δ) (hδy : quotBudget u * |(quotients g x y).2| ≤ δ)
    (hout : x + δ * g.csz < g.xll ∨ g.xll + (g.ncols : α) * g.csz + δ * g.csz ≤ x ∨
      y + δ * g.csz < g.yll ∨ g.yll + (g.nrows : α) * g.csz + δ * g.csz ≤ y) :
    coord2cellR rnd g x y = -1 :=
  cellOfQuot_outside_of_approx hcsz ((quotientsR_error hr hu g x y).1.trans hδx)
    ((quotientsR_error hr hu g x y).2.trans hδy) hout

/-- the centre computed with rounded arithmetic is within `(3u + 3u² + u³)(|ll| + csz·(k + 1/2))` of the exact
centre, in both directions -/
theorem cell2coordR_error {rnd : α → α} {u : α} (hr : RelErr rnd u) (hu : 0 ≤ u) {g : Geom α} {c : Int}
    (hv : validCell g.nrows g.ncols c = true) :
    ∃ x' y' x y, cell2coordR rnd g c = some (x', y') ∧ cell2coord g c = some (x, y) ∧
      |x' - x| ≤ centreBudget u * (|g.xll| + |g.csz| * |(colOf g.ncols c : α) + 1 / 2|) ∧
      |y' - y| ≤ centreBudget u * (|g.yll| + |g.csz| * |((g.nrows - 1 - rowOf g.ncols c : Int) : α) + 1 / 2|) := by
  refine ⟨_, _, _, _, by unfold cell2coordR; rw [if_pos hv], cell2coord_eq hv, ?_, ?_⟩
  · have := centre_err hr hu g.xll g.csz ((colOf g.ncols c : α) + 1 / 2)
    simpa [getcoordR, centreR] using this
  · have := centre_err hr hu g.yll g.csz (((g.nrows - 1 - rowOf g.ncols c : Int) : α) + 1 / 2)
    simpa [getcoordR, centreR] using this

/-- **round trip with rounded arithmetic**: `coord2cell(cell2coord c) = c` for every valid cell, with every
arithmetic result of both kernels rounded, as long as the grid is not so large / so far from the origin that the
accumulated rounding reaches half a cell: `rtBudget u · (|ll|/csz + n) < 1/2` on both axes
(`rtBudget u ≈ 5u`; for doubles, `u = 2^-53`: any grid with `|ll|/csz + n ≤ 2^48`) -/
theorem roundtripR {rnd : α → α} {u : α} (hr : RelErr rnd u) (hu : 0 ≤ u) {g : Geom α}
    (hcsz : 0 < g.csz) (hc : 0 < g.ncols) {c : Int} (hv : validCell g.nrows g.ncols c = true)
    (hX : rtBudget u * (|g.xll| / g.csz + (g.ncols : α)) < 1 / 2)
    (hY : rtBudget u * (|g.yll| / g.csz + (g.nrows : α)) < 1 / 2) :
    ∃ x y, cell2coordR rnd g c = some (x, y) ∧ coord2cellR rnd g x y = c := by
  obtain ⟨hr0, hr1, hc0, hc1, hidx⟩ := valid_rowcol hc hv
  refine ⟨_, _, by unfold cell2coordR; rw [if_pos hv], ?_⟩
  have hB := rtBudget_nonneg hu
  have hx0 : (0 : α) ≤ |g.xll| / g.csz := div_nonneg (abs_nonneg _) hcsz.le
  have hcol : ((colOf g.ncols c : Int) : α) + 1 ≤ (g.ncols : α) := by exact_mod_cast (by omega : colOf g.ncols c + 1 ≤ g.ncols)
  have hrow : (((g.nrows - 1 - rowOf g.ncols c : Int)) : α) + 1 ≤ (g.nrows : α) := by
    exact_mod_cast (by omega : g.nrows - 1 - rowOf g.ncols c + 1 ≤ g.nrows)
  have fx := axis_roundtrip hr hu (ll := g.xll) hcsz hc0 (by
    have : rtBudget u * (|g.xll| / g.csz + (colOf g.ncols c : α) + 1 / 2)
        ≤ rtBudget u * (|g.xll| / g.csz + (g.ncols : α)) := mul_le_mul_of_nonneg_left (by linarith) hB
    linarith)
  have fy := axis_roundtrip hr hu (ll := g.yll) hcsz (by omega : 0 ≤ g.nrows - 1 - rowOf g.ncols c) (by
    have : rtBudget u * (|g.yll| / g.csz + ((g.nrows - 1 - rowOf g.ncols c : Int) : α) + 1 / 2)
        ≤ rtBudget u * (|g.yll| / g.csz + (g.nrows : α)) := mul_le_mul_of_nonneg_left (by linarith) hB
    linarith)
  unfold coord2cellR quotientsR getcoordR
  rw [cellOfQuot_eq]
  simp only
  rw [fx, fy]
  have e : g.nrows - 1 - (g.nrows - 1 - rowOf g.ncols c) = rowOf g.ncols c := by omega
  rw [e, cellOfNxNy_in ⟨hc0, hc1, hr0, hr1⟩, hidx]

/-- order survives rounding: for any monotone rounding operator (IEEE rounding is monotone) and a non-negative cell
size the computed centres are monotone in the index — `xvalues` never decreases with the column, `yvalues` never
increases with the row, whatever the rounding errors -/
theorem centreR_mono {rnd : α → α} (hm : Monotone rnd) {ll csz : α} (hcsz : 0 ≤ csz) {j k : Int} (h : j ≤ k) :
    centreR rnd ll csz j ≤ centreR rnd ll csz k := by
  unfold centreR
  apply hm
  have h1 : rnd (Trunc.ofInt j + half) ≤ rnd (Trunc.ofInt k + half) := by
    apply hm
    have : (j : α) ≤ (k : α) := by exact_mod_cast h
    simpa using this
  have h2 := hm (mul_le_mul_of_nonneg_left h1 hcsz)
  linarith

/-- the rounding the driver executes on exact rationals (nearest, ties to even, 53 bits) satisfies the standard
model with `u = 2^-53` -/
theorem round53_standard_model (t : ℚ) : |round53 t - t| ≤ 1 / 2 ^ 53 * |t| := round53_err t

/-! ### 13. the grid object as a state machine: histories -/

section Machine
variable {β : Type} [Add β] [Sub β] [Mul β] [Div β] [OfNat β 0] [OfNat β 1] [LE β] [DecidableLE β] [LT β]
  [DecidableLT β] [Trunc β] [FloorNum β]

/-- with the identity as rounding operator the rounded kernel is the kernel, over any numeric type: at `Float` the
operations round themselves, and this instance is what the driver runs against the code -/
theorem coord2cellR_id (g : Geom β) (x y : β) : coord2cellR (fun t => t) g x y = coord2cellK g x y := rfl

/-- the same for the centres -/
theorem cell2coordR_id (g : Geom β) (c : Int) : cell2coordR (fun t => t) g c = cell2coord g c := rfl

/-- a call — answered or rejected — and `clone` leave the attributes as they were (any numeric type, `Float` included) -/
theorem step_keeps_state (g : Geom β) (o : Op β) (h : o.isMutator = false) : (step g o).1 = g := by
  cases o <;> first | rfl | (simp [Op.isMutator] at h)

/-- the attributes after a history are those after its attribute assignments alone -/
theorem finalGeom_eq_mutators (g : Geom β) (ops : List (Op β)) :
    finalGeom g ops = finalGeom g (ops.filter Op.isMutator) := by
  induction ops generalizing g with
  | nil => rfl
  | cons o os ih =>
    cases h : o.isMutator
    · rw [List.filter_cons_of_neg (by simp [h])]
      show finalGeom (step g o).1 os = _
      rw [step_keeps_state g o h]; exact ih g
    · rw [List.filter_cons_of_pos h]
      show finalGeom (step g o).1 os = finalGeom (step g o).1 _
      exact ih _

/-- answer number `i` of a history is the answer a *fresh* object gives to operation `i` when it has the attributes
produced by the assignments before `i`: no earlier call, rejected call or copy, and nothing later, has any part in it -/
theorem run_answer (g : Geom β) (ops : List (Op β)) (i : Nat) :
    (run g ops)[i]? = ops[i]?.map fun o => (step (finalGeom g ((ops.take i).filter Op.isMutator)) o).2 := by
  rw [← finalGeom_eq_mutators]
  induction ops generalizing g i with
  | nil => simp [run]
  | cons o os ih =>
    cases i with
    | zero => simp [run, finalGeom]
    | succ i =>
      simp only [run, List.getElem?_cons_succ, List.take_succ_cons, finalGeom]
      exact ih _ i

/-- histories compose: the answers of `a ++ b` are those of `a`, then those of `b` on the attributes `a` left -/
theorem run_append (g : Geom β) (a b : List (Op β)) : run g (a ++ b) = run g a ++ run (finalGeom g a) b := by
  induction a generalizing g with
  | nil => rfl
  | cons o os ih => simp [run, finalGeom, ih]

/-- one answer per operation -/
theorem run_length (g : Geom β) (ops : List (Op β)) : (run g ops).length = ops.length := by
  induction ops generalizing g with
  | nil => rfl
  | cons o os ih => simp [run, ih]

/-- a rejected `neighbours` call answers with the error and leaves the object unchanged, after any history -/
theorem history_rejected (g : Geom β) (ops : List (Op β)) (c : Int)
    (h : validCell (finalGeom g ops).nrows (finalGeom g ops).ncols c = false) :
    (run g (ops ++ [.nb c]))[ops.length]? = some (.nb (.error .badCell)) ∧
      finalGeom g (ops ++ [.nb c]) = finalGeom g ops := by
  constructor
  · rw [run_answer, ← finalGeom_eq_mutators]
    simp [step, cNeighbours, h]
  · rw [finalGeom_eq_mutators, finalGeom_eq_mutators g ops]
    simp [Op.isMutator]

end Machine

/-- **round trip after any history**: whatever was done to the object before — attribute re-assignments, calls,
rejected calls, copies — `cell2coord [c]` followed by `coord2cell` of its answer gives `[c]`, for every cell that is
valid for the attributes of that moment (cell size and ncols positive at that moment); the earlier answers are
what they were -/
theorem history_roundtrip (g : Geom α) (ops : List (Op α)) {c : Int}
    (hcsz : 0 < (finalGeom g ops).csz) (hc : 0 < (finalGeom g ops).ncols)
    (hv : validCell (finalGeom g ops).nrows (finalGeom g ops).ncols c = true) :
    ∃ x y, run g (ops ++ [.c2c [c], .xy2c [(x, y)]]) = run g ops ++ [.coords [some (x, y)], .cells [c]] := by
  obtain ⟨x, y, h1, h2⟩ := coord2cellK_cell2coord hcsz hc hv
  refine ⟨x, y, ?_⟩
  rw [run_append]
  simp [run, step, gridCell2coord, gridCoord2cell, h1, h2]

/-! ### 14. the constructor: defaults, its guard, and the hypothesis `0 < ncols` discharged -/

/-- `Grid(name, n)`: the square grid of unit cells with its lower-left corner at the origin -/
theorem mkGrid_default {n : Int} (hn : 0 ≤ n) :
    mkGrid (α := α) n none none none none = .ok ⟨n, n, 0, 0, 1⟩ := by
  unfold mkGrid
  simp [not_lt.2 hn]

/-- the constructor refuses exactly the negative dimensions, and otherwise stores what it was given -/
theorem mkGrid_ok_iff {ncols : Int} {nrows : Option Int} {csz xll yll : Option α} {g : Geom α} :
    mkGrid ncols nrows csz xll yll = .ok g ↔
      (0 ≤ ncols ∧ 0 ≤ nrows.getD ncols ∧
        g = ⟨nrows.getD ncols, ncols, xll.getD 0, yll.getD 0, csz.getD 1⟩) := by
  unfold mkGrid
  cases nrows <;> cases csz <;> cases xll <;> cases yll <;> simp only [Option.getD] <;>
    (split
     · rename_i h; constructor
       · intro h'; cases h'
       · rintro ⟨a, b, -⟩; omega
     · rename_i h; constructor
       · intro h'; injection h' with h'; exact ⟨by omega, by omega, h'.symm⟩
       · rintro ⟨-, -, rfl⟩; rfl)

/-- on a constructed grid the existence of a valid cell gives `0 < ncols` and `0 < nrows`: the standing hypothesis
of the theorems follows from the constructor's own guard -/
theorem mkGrid_valid_pos {ncols : Int} {nrows : Option Int} {csz xll yll : Option α} {g : Geom α}
    (hg : mkGrid ncols nrows csz xll yll = .ok g) {c : Int} (hv : validCell g.nrows g.ncols c = true) :
    0 < g.ncols ∧ 0 < g.nrows := by
  obtain ⟨h1, h2, rfl⟩ := mkGrid_ok_iff.1 hg
  simp only at hv ⊢
  obtain ⟨a, b⟩ := validCell_iff.1 hv
  have hne := validCell_ncols_ne_zero hv
  have hc : 0 < ncols := by omega
  refine ⟨hc, ?_⟩
  by_contra hn
  have : nrows.getD ncols = 0 := by omega
  rw [this] at b
  omega

/-- round trip on every constructed grid with a positive cell size — no hypothesis on the number of columns -/
theorem constructed_roundtrip {ncols : Int} {nrows : Option Int} {csz xll yll : Option α} {g : Geom α}
    (hg : mkGrid ncols nrows csz xll yll = .ok g) (hcsz : 0 < g.csz) {c : Int}
    (hv : validCell g.nrows g.ncols c = true) :
    ∃ x y, cell2coord g c = some (x, y) ∧ coord2cellK g x y = c :=
  coord2cellK_cell2coord hcsz (mkGrid_valid_pos hg hv).1 hv

/-! ### 15. the hypotheses are needed (and how far they can be weakened) -/

/-- `0 < ncols` cannot be dropped: attributes can be re-assigned to a pair of negative numbers whose product is
positive; cell 4 then passes the guard and gets row -1 -/
theorem ncols_pos_needed :
    ∃ nrows ncols c : Int, validCell nrows ncols c = true ∧ (cell2rowcol nrows ncols c).1 < 0 :=
  ⟨-2, -3, 4, by decide, by decide⟩

/-- the round trip needs only `csz ≠ 0` (a negative cell size mirrors the grid; the centre still maps back) -/
theorem coord2cell_cell2coord_of_ne_zero {g : Geom α} (hcsz : g.csz ≠ 0) (hc : 0 < g.ncols) {c : Int}
    (hv : validCell g.nrows g.ncols c = true) :
    ∃ x y, cell2coord g c = some (x, y) ∧ coord2cellK g x y = c := by
  obtain ⟨hr0, hr1, hc0, hc1, hidx⟩ := valid_rowcol hc hv
  refine ⟨_, _, cell2coord_eq hv, ?_⟩
  rw [coord2cellK_eq]
  unfold coord2cell
  simp only [floorToInt_eq]
  have e1 : (g.xll + g.csz * ((colOf g.ncols c : α) + 1 / 2) - g.xll) / g.csz = (colOf g.ncols c : α) + 1 / 2 := by
    field_simp; ring
  have e2 : (g.yll + g.csz * (((g.nrows - 1 - rowOf g.ncols c : Int) : α) + 1 / 2) - g.yll) / g.csz
      = ((g.nrows - 1 - rowOf g.ncols c : Int) : α) + 1 / 2 := by
    field_simp; ring
  have f : ∀ k : Int, ⌊(k : α) + 1 / 2⌋ = k := by
    intro k
    rw [Int.floor_eq_iff]
    constructor <;> norm_num
  rw [e1, e2, f, f]
  have e : g.nrows - 1 - (g.nrows - 1 - rowOf g.ncols c) = rowOf g.ncols c := by omega
  rw [e, cellOfNxNy_in ⟨hc0, hc1, hr0, hr1⟩, hidx]

/-- `0 < csz` cannot be dropped from the outside clause: with a negative cell size a point left of `xll` gets a cell -/
theorem csz_pos_needed :
    ∃ (g : Geom α) (x y : α), g.csz ≠ 0 ∧ 0 < g.ncols ∧ x < g.xll ∧
      validCell g.nrows g.ncols (coord2cell g x y) = true := by
  refine ⟨⟨1, 1, 0, 0, -1⟩, -1 / 2, -1 / 2, by norm_num, by norm_num, by norm_num, ?_⟩
  have h : coord2cell (⟨1, 1, 0, 0, -1⟩ : Geom α) (-1 / 2) (-1 / 2) = 0 := by
    unfold coord2cell
    simp only [floorToInt_eq]
    have : ⌊((-1 / 2 : α) - 0) / -1⌋ = 0 := by
      rw [Int.floor_eq_iff]; norm_num
    rw [this]
    decide
  rw [h]
  show validCell 1 1 0 = true
  decide

/-! ### 16. request shapes -/

/-- the wrappers answer a request exactly when its shape is a scalar or one-dimensional (cells), respectively a pair
or an `[n, 2]` array (points); then the answer is the element-wise one on the flat content; any other shape is a
`ValueError` and no cell / coordinate is produced -/
theorem request_shapes (g : Geom α) (shape : List Nat) (cells : List Int) (data : List α) :
    (gridCell2rowcolReq g.nrows g.ncols shape cells =
      if shape.length ≤ 1 then .ok (gridCell2rowcol g.nrows g.ncols cells) else .error .valueError) ∧
    (gridCell2coordReq g shape cells =
      if shape.length ≤ 1 then .ok (gridCell2coord g cells) else .error .valueError) ∧
    (gridCoord2cellReq g shape data =
      if (shape.length = 1 ∨ shape.length = 2) ∧ shape.getLast? = some 2
      then .ok (gridCoord2cell g (pairUp data)) else .error .valueError) := by
  refine ⟨?_, ?_, ?_⟩
  · unfold gridCell2rowcolReq cellsRequestLen
    match shape with
    | [] => simp
    | [_] => simp
    | _ :: _ :: _ => simp
  · unfold gridCell2coordReq cellsRequestLen
    match shape with
    | [] => simp
    | [_] => simp
    | _ :: _ :: _ => simp
  · unfold gridCoord2cellReq pointsRequestLen
    match shape with
    | [] => simp
    | [k] => by_cases h : k = 2 <;> simp [h]
    | [n, k] => by_cases h : k = 2 <;> simp [h]
    | _ :: _ :: _ :: _ => simp

/-! ### non-vacuity: the hypotheses are met by concrete grids (these are tests, not theorems) -/

/-- a 2 x 3 grid over ℚ with cell size 1/2 and a negative origin -/
def exGeom : Geom ℚ := ⟨2, 3, -7 / 2, 10, 1 / 2⟩

example : validCell 2 3 4 = true ∧ cell2rowcol 2 3 4 = (1, 1) := by decide
example : cNeighbours 2 3 4 = .ok [0, 1, 2, 3, -1, 5, -1, -1, -1] := by decide
example : cNeighbours 2 3 6 = .error .badCell := by decide
example : (0 : ℚ) < exGeom.csz ∧ 0 < exGeom.ncols ∧ validCell exGeom.nrows exGeom.ncols 4 = true := by
  refine ⟨by norm_num [exGeom], by decide, by decide⟩
/-- a point of the left strip: outside the extent, `xll - csz < x < xll`, `yll ≤ y < yll + nrows*csz` -/
example : exGeom.xll - exGeom.csz < (-15 / 4 : ℚ) ∧ (-15 / 4 : ℚ) < exGeom.xll ∧
    exGeom.yll ≤ (41 / 4 : ℚ) ∧ (41 / 4 : ℚ) < exGeom.yll + (exGeom.nrows : ℚ) * exGeom.csz := by
  norm_num [exGeom]
/-- a point in the footprint of cell 4 = (row 1, col 1) -/
example : InFootprint exGeom 4 (-29 / 10) (101 / 10) := by
  have h1 : colOf exGeom.ncols 4 = 1 := by decide
  have h2 : rowUp exGeom 4 = 0 := by decide
  unfold InFootprint cellLeft cellRight cellBottom cellTop
  rw [h1, h2]
  norm_num [exGeom]

/-- the inside / outside theorems applied to that grid: the point above goes to cell 4, the strip point to -1 -/
example : coord2cell exGeom (-29 / 10) (101 / 10) = 4 ∧ coord2cell exGeom (-15 / 4) (41 / 4) = -1 := by
  have hcsz : (0 : ℚ) < exGeom.csz := by norm_num [exGeom]
  refine ⟨coord2cell_inside hcsz (by decide) (by decide) ?_, coord2cell_outside hcsz (Or.inl ?_)⟩
  · have h1 : colOf exGeom.ncols 4 = 1 := by decide
    have h2 : rowUp exGeom 4 = 0 := by decide
    unfold InFootprint cellLeft cellRight cellBottom cellTop
    rw [h1, h2]
    norm_num [exGeom]
  · norm_num [exGeom]

/-- hypotheses of `cell2rowcol_succ` across the end of a row, and of `neighbours_symmetric`, on the 2 x 3 grid -/
example : validCell 2 3 2 = true ∧ validCell 2 3 (2 + 1) = true ∧ cell2rowcol 2 3 (2 + 1) = (1, 0) := by decide
example : ∃ l, cNeighbours 2 3 4 = .ok l ∧ l[1]? = some 1 ∧ (1 : Int) ≠ -1 ∧
    ∃ l', cNeighbours 2 3 1 = .ok l' ∧ l'[8 - 1]? = some 4 :=
  ⟨_, rfl, by decide, by decide, neighbours_symmetric (by decide) (by decide) rfl (by decide) (by decide) (by decide)⟩
/-- invalid numbers on both sides -/
example : cell2rowcol exGeom.nrows exGeom.ncols 6 = (-1, -1) ∧ cell2rowcol exGeom.nrows exGeom.ncols (-1) = (-1, -1) :=
  ⟨(invalid_cell_flagged (g := exGeom) (Or.inr (by decide))).1, (invalid_cell_flagged (g := exGeom) (Or.inl (by decide))).1⟩

/-- the robust theorems with `δ = 1/1000`: quotients off by 1/2000, point 1/5 of a cell inside cell 4;
and a point 1/4 of a cell left of the extent -/
example : cellOfQuot exGeom.nrows exGeom.ncols ((6 / 5 : ℚ) + 1 / 2000) ((1 / 5 : ℚ) - 1 / 2000) = 4 := by
  have hcsz : (0 : ℚ) < exGeom.csz := by norm_num [exGeom]
  have h1 : colOf exGeom.ncols 4 = 1 := by decide
  have h2 : rowUp exGeom 4 = 0 := by decide
  refine cellOfQuot_inside_of_approx (δ := 1 / 1000) (x := -29 / 10) (y := 101 / 10) hcsz (by decide) (by decide)
    ?_ ?_ ?_
  · norm_num [quotients, exGeom, abs_le]
  · norm_num [quotients, exGeom, abs_le]
  · unfold cellLeft cellRight cellBottom cellTop
    rw [h1, h2]
    norm_num [exGeom]
example : cellOfQuot exGeom.nrows exGeom.ncols ((-1 / 2 : ℚ) + 1 / 2000) (1 / 2 : ℚ) = -1 := by
  have hcsz : (0 : ℚ) < exGeom.csz := by norm_num [exGeom]
  refine cellOfQuot_outside_of_approx (δ := 1 / 1000) (x := -15 / 4) (y := 41 / 4) hcsz ?_ ?_ (Or.inl ?_)
  · norm_num [quotients, exGeom, abs_le]
  · norm_num [quotients, exGeom, abs_le]
  · norm_num [exGeom]
local instance (priority := high) exTrunc : Trunc ℚ := fieldTrunc
local instance (priority := high) exFloor : FloorNum ℚ := fieldFloor

/-! ### 17. doubles: the rounded kernels on exact rationals with `round53` (what the driver executes and the harness
compares exactly with the code), with the numbers of the property's quantifier -/

/-- **inside clause for doubles**: with IEEE rounding (`round53`) of every arithmetic result, a point at least
`1e-9` cell sizes inside the footprint of a valid cell, at most `2^21` cell sizes from the lower-left corner, is
mapped to that cell -/
theorem coord2cell_double_inside {g : Geom ℚ} (hcsz : 0 < g.csz) (hc : 0 < g.ncols) {c : Int}
    (hv : validCell g.nrows g.ncols c = true) {x y : ℚ}
    (hqx : |(quotients g x y).1| ≤ 2 ^ 21) (hqy : |(quotients g x y).2| ≤ 2 ^ 21)
    (hin : cellLeft g c + 1 / 10 ^ 9 * g.csz ≤ x ∧ x + 1 / 10 ^ 9 * g.csz < cellRight g c ∧
      cellBottom g c + 1 / 10 ^ 9 * g.csz ≤ y ∧ y + 1 / 10 ^ 9 * g.csz < cellTop g c) :
    coord2cellR round53 g x y = c := by
  have hb : (0 : ℚ) ≤ quotBudget (1 / 2 ^ 53) := quotBudget_nonneg (by positivity)
  have hn : quotBudget ((1 : ℚ) / 2 ^ 53) * 2 ^ 21 ≤ 1 / 10 ^ 9 := by norm_num [quotBudget]
  exact coord2cellR_inside round53_relErr (by positivity) hcsz hc hv
    ((mul_le_mul_of_nonneg_left hqx hb).trans hn) ((mul_le_mul_of_nonneg_left hqy hb).trans hn) hin

/-- **outside clause for doubles**: a point at least `1e-9` cell sizes outside the extent on any side, at most
`2^21` cell sizes from the lower-left corner, is mapped to `-1` -/
theorem coord2cell_double_outside {g : Geom ℚ} (hcsz : 0 < g.csz) {x y : ℚ}
    (hqx : |(quotients g x y).1| ≤ 2 ^ 21) (hqy : |(quotients g x y).2| ≤ 2 ^ 21)
    (hout : x + 1 / 10 ^ 9 * g.csz < g.xll ∨ g.xll + (g.ncols : ℚ) * g.csz + 1 / 10 ^ 9 * g.csz ≤ x ∨
      y + 1 / 10 ^ 9 * g.csz < g.yll ∨ g.yll + (g.nrows : ℚ) * g.csz + 1 / 10 ^ 9 * g.csz ≤ y) :
    coord2cellR round53 g x y = -1 := by
  have hb : (0 : ℚ) ≤ quotBudget (1 / 2 ^ 53) := quotBudget_nonneg (by positivity)
  have hn : quotBudget ((1 : ℚ) / 2 ^ 53) * 2 ^ 21 ≤ 1 / 10 ^ 9 := by norm_num [quotBudget]
  exact coord2cellR_outside round53_relErr (by positivity) hcsz
    ((mul_le_mul_of_nonneg_left hqx hb).trans hn) ((mul_le_mul_of_nonneg_left hqy hb).trans hn) hout

/-- **round trip for doubles**: `coord2cell(cell2coord c) = c` with IEEE rounding of every arithmetic result of both
kernels, for every grid with `|xll|/csz + ncols ≤ 2^48` and `|yll|/csz + nrows ≤ 2^48` (the property's quantifier:
origins up to `1e4` cell sizes from zero; any allocatable grid) -/
theorem roundtrip_double {g : Geom ℚ} (hcsz : 0 < g.csz) (hc : 0 < g.ncols) {c : Int}
    (hv : validCell g.nrows g.ncols c = true)
    (hX : |g.xll| / g.csz + (g.ncols : ℚ) ≤ 2 ^ 48) (hY : |g.yll| / g.csz + (g.nrows : ℚ) ≤ 2 ^ 48) :
    ∃ x y, cell2coordR round53 g c = some (x, y) ∧ coord2cellR round53 g x y = c := by
  have hb : (0 : ℚ) ≤ rtBudget (1 / 2 ^ 53) := rtBudget_nonneg (by positivity)
  have hn : rtBudget ((1 : ℚ) / 2 ^ 53) * 2 ^ 48 < 1 / 2 := by norm_num [rtBudget, centreBudget, quotBudget]
  exact roundtripR round53_relErr (by positivity) hcsz hc hv
    (lt_of_le_of_lt (mul_le_mul_of_nonneg_left hX hb) hn) (lt_of_le_of_lt (mul_le_mul_of_nonneg_left hY hb) hn)

/-! non-vacuity of sections 12-17 -/

/-- the rounded theorems on the 2 x 3 grid: point 1/5 of a cell inside cell 4; a point 1/4 of a cell left of the
extent; the round trip of cell 4 -/
example : coord2cellR round53 exGeom (-29 / 10) (101 / 10) = 4 := by
  have h1 : colOf exGeom.ncols 4 = 1 := by decide
  have h2 : rowUp exGeom 4 = 0 := by decide
  refine coord2cell_double_inside (by norm_num [exGeom]) (by decide) (by decide) ?_ ?_ ?_
  · norm_num [quotients, exGeom, abs_le]
  · norm_num [quotients, exGeom, abs_le]
  · unfold cellLeft cellRight cellBottom cellTop
    rw [h1, h2]
    norm_num [exGeom]
example : coord2cellR round53 exGeom (-15 / 4) (41 / 4) = -1 := by
  refine coord2cell_double_outside (by norm_num [exGeom]) ?_ ?_ (Or.inl (by norm_num [exGeom]))
  · norm_num [quotients, exGeom, abs_le]
  · norm_num [quotients, exGeom, abs_le]
example : ∃ x y, cell2coordR round53 exGeom 4 = some (x, y) ∧ coord2cellR round53 exGeom x y = 4 :=
  roundtrip_double (by norm_num [exGeom]) (by decide) (by decide)
    (by norm_num [exGeom, abs_of_neg]) (by norm_num [exGeom])
example : centreR (fun t : ℚ => t) exGeom.xll exGeom.csz 1 ≤ centreR (fun t : ℚ => t) exGeom.xll exGeom.csz 2 :=
  centreR_mono (fun _ _ h => h) (by norm_num [exGeom]) (by decide)
/-- a history on the 2 x 3 grid: use it, transpose it (3 x 2), reject a call, copy it — then the round trip of cell 5 -/
def exOps : List (Op ℚ) := [.rowcol [0, 7], .setNrows 3, .setNcols 2, .nb 6, .clone, .setCsz 2]
example : (finalGeom exGeom exOps).nrows = 3 ∧ (finalGeom exGeom exOps).ncols = 2 ∧ (finalGeom exGeom exOps).csz = 2 :=
  ⟨rfl, rfl, rfl⟩
example : ∃ x y, run exGeom (exOps ++ [.c2c [5], .xy2c [(x, y)]]) = run exGeom exOps ++ [.coords [some (x, y)], .cells [5]] :=
  history_roundtrip exGeom exOps (by norm_num [exOps, finalGeom, step, exGeom]) (by decide) (by decide)
example : (run exGeom exOps)[3]? = some (.nb (.error .badCell)) := by
  rw [run_answer]; rfl
example : ∃ x' y' x y, cell2coordR round53 exGeom 4 = some (x', y') ∧ cell2coord exGeom 4 = some (x, y) ∧
    |x' - x| ≤ centreBudget (1 / 2 ^ 53) * (|exGeom.xll| + |exGeom.csz| * |((colOf exGeom.ncols 4 : Int) : ℚ) + 1 / 2|) ∧
    |y' - y| ≤ centreBudget (1 / 2 ^ 53) *
      (|exGeom.yll| + |exGeom.csz| * |((exGeom.nrows - 1 - rowOf exGeom.ncols 4 : Int) : ℚ) + 1 / 2|) :=
  cell2coordR_error round53_relErr (by positivity) (by decide)
/-- a rejected call after the history: cell 7 does not exist on the 3 x 2 grid the history leaves -/
example : (run exGeom (exOps ++ [.nb 7]))[exOps.length]? = some (.nb (.error .badCell)) ∧
    finalGeom exGeom (exOps ++ [.nb 7]) = finalGeom exGeom exOps :=
  history_rejected exGeom exOps 7 (by decide)
example : (step exGeom (.nb 6 : Op ℚ)).1 = exGeom := step_keeps_state exGeom _ rfl
/-- the round trip with a NEGATIVE cell size (mirrored grid) -/
example : ∃ x y, cell2coord (⟨2, 3, 0, 0, -1 / 2⟩ : Geom ℚ) 4 = some (x, y) ∧ coord2cellK (⟨2, 3, 0, 0, -1 / 2⟩ : Geom ℚ) x y = 4 :=
  coord2cell_cell2coord_of_ne_zero (by norm_num) (by decide) (by decide)
example : ∃ x y, cell2coord exGeom 4 = some (x, y) ∧ coord2cellK exGeom x y = 4 :=
  constructed_roundtrip (α := ℚ) (ncols := 3) (nrows := some 2) (csz := some (1 / 2)) (xll := some (-7 / 2)) (yll := some 10)
    rfl (by norm_num [exGeom]) (by decide)
/-- constructor: defaults, the guard, and a constructed grid with a valid cell -/
example : mkGrid (α := ℚ) 3 none none none none = .ok ⟨3, 3, 0, 0, 1⟩ := mkGrid_default (by decide)
example : mkGrid (α := ℚ) 3 (some (-1)) none none none = .error .valueError := rfl
example : mkGrid (α := ℚ) 3 (some 2) (some (1 / 2)) (some (-7 / 2)) (some 10) = .ok exGeom := rfl
example : 0 < exGeom.ncols ∧ 0 < exGeom.nrows :=
  mkGrid_valid_pos (α := ℚ) (ncols := 3) (nrows := some 2) (csz := some (1 / 2)) (xll := some (-7 / 2)) (yll := some 10)
    rfl (c := 4) (by decide)
/-- request shapes: a pair is one point, a triple is refused, `[2, 2]` is two points; cells: `[2, 1]` is refused -/
example : pointsRequestLen [2] = .ok 1 ∧ pointsRequestLen [3] = .error .valueError ∧ pointsRequestLen [2, 2] = .ok 2 ∧
    pointsRequestLen [] = .error .valueError ∧ cellsRequestLen [] = .ok 1 ∧ cellsRequestLen [2, 1] = .error .valueError := by
  decide
example : coord2cellK exGeom (-29 / 10) (101 / 10) = 4 ∧ coord2cellK exGeom (-15 / 4) (41 / 4) = -1 := by
  have hcsz : (0 : ℚ) < exGeom.csz := by norm_num [exGeom]
  refine ⟨(coord2cellK_eq_iff hcsz (by decide) (by decide)).2 ?_,
    coord2cellK_outside hcsz (Or.inl (by norm_num [exGeom]))⟩
  have h1 : colOf exGeom.ncols 4 = 1 := by decide
  have h2 : rowUp exGeom 4 = 0 := by decide
  unfold InFootprint cellLeft cellRight cellBottom cellTop
  rw [h1, h2]
  norm_num [exGeom]

end HydroVerif.C07
