import HydroVerif.Model.C14
namespace HydroVerif.C14
theorem placeholder : origin 0 = 3600 := by decide
end HydroVerif.C14
