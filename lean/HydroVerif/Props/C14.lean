/-
C14 — property theorems for `c_var2h` / `dutils.var2h`.
Model: `HydroVerif/Model/C14.lean`; vocabulary and loop invariant: `Lemmas/C14.lean`; the interpolant as one
function ℝ → ℝ: `Lemmas/C14Real.lean`; the kernel on the caller's buffer and call histories: `Lemmas/C14Buf.lean`;
the control skeleton and arithmetic-free missing pattern: `Lemmas/C14Skel.lean`, `Lemmas/C14Arith.lean`.

Reading guide.  `obs` is the list of observations `(epoch second, value or NaN)`, `pairs obs` its
observation intervals, period `i` is `[perS P hstart i, perE P hstart i)` in whole seconds.
`contrib c S E a b` is the exact integral over `[S, E]` of the affine piece through `a` and `b`
(`trapArea`, Mathlib's interval integral) — or, for rainfall, the share of the increment `b.2` that falls in
`[S, E]` (times `P`).  `invalid c a b` is the kernel's validity test (`invalid_iff`).  `interp obs` is the
piecewise-linear interpolant.  Statements in `section field` hold for every ordered field (`ℝ`, `ℚ`, …) unless they
mention an integral; statements in `section anyarith` hold for EVERY instance of the model (no law of the
arithmetic is used, or only `ExactInt`: whole seconds are cast / compared / added / subtracted exactly — true of IEEE
doubles below 2^53), for every series length and every number of periods.  Every model function named here
(`kernel`, `wrapper`, `wrapperSeries`, `wrapperIdx`, `seriesIdx`, `wrapperArg`, `maxgapOfArg`, `labels`, `freqSec`,
`startScan`, `origin`, `nvalhOf`, `wallSec`, `kernelInto`, `pyxVar2h`, `step`, `run`, `kernelMiss`, `marks`, `toQ`,
`cfgQ`) is executed by the driver and compared with the real code.

CLAUSE → THEOREMS (what remains outside)

1. "every value var2h returns is either missing or the time-average over its period of the piecewise-linear
   interpolant"
   → on the returned object: `series_value_is_average_over_its_period` (ℝ: every pair `(t, h)` of the returned series
     has h = (∫_t^{t+P} interp obs)/P), `series_labels_are_period_starts` (pair i is (origin + i·P, value i)),
     `freqSec_eq_period`, `labels_getElem?`;
     `value_is_average_of_interpolant`, `wrapper_value_is_average_of_interpolant` (ℝ: h = (∫_S^E interp obs)/P);
     `value_is_period_integral` (any field, closed form), `value_is_integral_of_interpolant`,
     `trapArea_eq_integral`, `overlaps_tile(_covered)`, `lin_left/right`, `kernel_total`,
     `wrapper_spec`, `wrapper_is_kernel_plus_final`.
   outside: IEEE rounding of the VALUES (Float instance compared with the code, bit-equal so far).  Which periods
   are missing is NOT subject to rounding: see 4.
2. "(for rainfall, the period total of the increments spread uniformly over their intervals)"
   → `rainfall_value_is_prorated_total`.
3. "so that the time-integral of the series is conserved" → `conservation` (any run of non-missing periods).
4. "apart from the final period, a period is missing exactly when an interval overlapping it is invalid
   (missing or negative end value, or longer than maxgapsec)"
   → `invalid_iff`, `valid_iff` (what invalid means); `invalid_overlap_makes_missing`, `gap_makes_missing`
     (⇐); `missing_has_cause`, `valid_data_gives_value` (⇒); `missing_iff_invalid_overlap` (⇔ when no invalid
     interval merely ends on the period start); `nonmissing_covered_and_valid`; `series_missing_has_cause` (on the
     returned object, by label);
     in ANY arithmetic with exact whole seconds (floats included, no field law): `missing_pattern_is_skeleton` (the
     pattern is `kernelMiss` of the `marks`: integer comparisons + the per-interval validity test),
     `missing_pattern_same_as_exact` (= the pattern of the exact-rational kernel on stand-in values),
     `kernel_total_any_arith`, `missing_has_cause_any_arith`, `invalid_overlap_makes_missing_any_arith`,
     `valid_data_gives_value_any_arith`;
     `maxgapsec` passed as a float: `maxgap_truncation_harmless`, `gap_test_with_float_maxgap`;
     final period: `wrapper_final_missing`, `kernel_final_period_untouched` (the kernel never writes it: it keeps
     the caller's NaN); hourly: `hourly_periods_within_data`, `wrapper_hourly_missing_cause`
     (no other cause exists); half-hourly: `halfhourly_periods_within_data`, `halfhourly_periods_overhang` —
     only period `nvalh-2` can extend past the last stamp (by < 1800 s) and is then missing although no interval
     is invalid: the interpolant does not exist there, clause 1 forces it (this is the repaired defect).
   outside: intervals that merely touch a period boundary (left open by the property; the model says exactly
   what the code does: `missing_has_cause` has `≤`, the converse `<`); "negative" is `< -1e-8`; that IEEE doubles
   satisfy `ExactInt` for |x| ≤ 2^53 (core `Float` is opaque; the driver runs skeleton, Float kernel and exact kernel
   side by side on every kernel case and the harness compares all three with the real code's NaN pattern).
5. "the result does not depend on the storage resolution or time zone of the index"
   → `index_independence`, `index_independence_two`, `series_index_independence`, `wallSec_whole`, `wallSec_floor`:
     the stored index (unit, raw int64 count of the UTC instant, UTC offset of each stamp) is part of the model
     (`wrapperIdx`, `seriesIdx`).
   outside: pandas/numpy do compute `raw`, the offsets and the final `date_range` (external; the correspondence
   compares `wallSec` with the wall-clock seconds the index was built from for every unit/zone, offsets from zoneinfo, and
   the returned index with the model's `labels`).
6. quantifier "≥ 2 observations, ≥ 2 periods, integer-second stamps, duplicates, stamps on boundaries, any
   values, P ∈ {1800,3600}, rainfall flag, maxgapsec ≥ 3600": hypotheses `Sorted`, two leading observations,
   `CfgOK`, `3600 ≤ maxgap`, `1 ≤ nvalh` only; stamps are `Int` by type.  Wrapper arithmetic: `origin_spec`,
   `nvalhOf_spec`, `wrapper_empty`, `startScan_position`.  Hypotheses the text does not state, each discharged or shown
   necessary: first stamp ≤ origin (`origin_spec` gives it in the wrapper; `kernel_rejects_late_start` at the excluded
   point), `Sorted` (`kernel_rejects_decreasing_pair`; the example after it shows a decreasing pair the walk never
   meets is not rejected), `3600 ≤ maxgap` (`wrapper_rejects_small_maxgap`), `1 ≤ nvalh` (`wrapper_empty`), `CfgOK`
   (`wrapper_rejects_bad_period`; rainfall flag: `kernel_guard_error_leaves_buffer`).
7. (glue, not a clause) the kernel as it is called — results written into the caller's buffer, the Cython entry
   point, call histories on one set of buffers, for EVERY arithmetic: `kernel_writes_prefix_only`,
   `kernel_stale_buffer_irrelevant`, `kernel_return_code`, `kernel_guard_error_leaves_buffer`, `kernel_buffer_length`,
   `pyx_rejects_length_mismatch`, `pyx_is_kernel`, `call_keeps_inputs`, `history_answer` (after ANY list of
   operations — edits, scribbling over the output, other calls, rejected calls — a call answers with the kernel's
   values for the arrays as they are now), `history_call_values_as_required` (… and these are as the property requires).
Each group is followed, at the end of the file, by `example`s on one worked series (`exObs`; `exObs8` in the rounded
arithmetic `Rnd8`).
-/
import HydroVerif.Lemmas.C14
import HydroVerif.Lemmas.C14Real
import HydroVerif.Lemmas.C14Buf
import HydroVerif.Lemmas.C14Arith
import Mathlib.Analysis.SpecialFunctions.Integrals.Basic

namespace HydroVerif.C14

section field
set_option linter.unusedSectionVars false
set_option linter.unusedSimpArgs false
variable {α : Type} [Field α] [LinearOrder α] [IsStrictOrderedRing α]

/-! ### the kernel -/

/-- **No error, right size.** On a non-decreasing series of at least two observations starting at or
before the origin, the kernel succeeds (in particular the two states in which the C code would index
outside its arrays never arise) and writes exactly `nvalh - 1` values. -/
theorem kernel_total (c : Cfg α) (hc : CfgOK c) (hstart nvalh : Int) (a b : Obs α) (rest : List (Obs α))
    (hs : Sorted (a :: b :: rest)) (ha : a.1 ≤ hstart) :
    ∃ out, kernel c hstart nvalh (a :: b :: rest) = .ok out ∧ out.length = (nvalh - 1).toNat := by
  obtain ⟨out, h1, h2, _⟩ := kernel_spec c hc hstart nvalh a b rest hs ha
  exact ⟨out, h1, h2⟩

/-- **Value.** Every non-missing value, times the period, is the sum over all observation intervals of
the exact integral of the affine piece over the part of the interval inside the period
(rainfall: of the prorated increments, times `P`). -/
theorem value_is_period_integral (c : Cfg α) (hc : CfgOK c) (hstart nvalh : Int) (a b : Obs α)
    (rest : List (Obs α)) (hs : Sorted (a :: b :: rest)) (ha : a.1 ≤ hstart)
    (out : List (Option α)) (hk : kernel c hstart nvalh (a :: b :: rest) = .ok out)
    (i : Nat) (h : α) (hi : out[i]? = some (some h)) :
    h * (c.P : α) =
      ((pairs (a :: b :: rest)).map fun p => contrib c (perS c.P hstart i) (perE c.P hstart i) p.1 p.2).sum := by
  obtain ⟨out', h1, _, h3⟩ := kernel_spec c hc hstart nvalh a b rest hs ha
  rw [hk] at h1; cases h1
  have := h3 i (some h) hi
  simp only [PeriodOK] at this
  rw [this.1, psum_eq_contrib c hc.eps_pos hc.eps_lt]

/-- **Non-missing ⇒ covered and valid.** A value is returned only for a period that ends at or before
the last observation and all of whose overlapping intervals (`t_a < E`, `S < t_b`) are valid. -/
theorem nonmissing_covered_and_valid (c : Cfg α) (hc : CfgOK c) (hstart nvalh : Int) (a b : Obs α)
    (rest : List (Obs α)) (hs : Sorted (a :: b :: rest)) (ha : a.1 ≤ hstart)
    (out : List (Option α)) (hk : kernel c hstart nvalh (a :: b :: rest) = .ok out)
    (i : Nat) (h : α) (hi : out[i]? = some (some h)) :
    perE c.P hstart i ≤ lastTime (a :: b :: rest) ∧
      ∀ p ∈ pairs (a :: b :: rest), p.1.1 < perE c.P hstart i → perS c.P hstart i < p.2.1 →
        invalid c p.1 p.2 = false := by
  obtain ⟨out', h1, _, h3⟩ := kernel_spec c hc hstart nvalh a b rest hs ha
  rw [hk] at h1; cases h1
  have := h3 i (some h) hi
  simp only [PeriodOK] at this
  exact this.2

/-- **Missing ⇒ a cause.** A missing value has a reason the property admits: the period extends past the
last observation, or an invalid interval overlaps or touches it (`t_a < E`, `S ≤ t_b`). -/
theorem missing_has_cause (c : Cfg α) (hc : CfgOK c) (hstart nvalh : Int) (a b : Obs α)
    (rest : List (Obs α)) (hs : Sorted (a :: b :: rest)) (ha : a.1 ≤ hstart)
    (out : List (Option α)) (hk : kernel c hstart nvalh (a :: b :: rest) = .ok out)
    (i : Nat) (hi : out[i]? = some none) :
    lastTime (a :: b :: rest) < perE c.P hstart i ∨
      ∃ p ∈ pairs (a :: b :: rest), p.1.1 < perE c.P hstart i ∧ perS c.P hstart i ≤ p.2.1 ∧
        invalid c p.1 p.2 = true := by
  obtain ⟨out', h1, _, h3⟩ := kernel_spec c hc hstart nvalh a b rest hs ha
  rw [hk] at h1; cases h1
  have := h3 i none hi
  simpa only [PeriodOK] using this

/-- **Missing exactly when.** For a period inside the data on whose start no invalid interval merely
ends (the "touching" case the property leaves open), the value is missing if and only if an invalid
interval overlaps the period. -/
theorem missing_iff_invalid_overlap (c : Cfg α) (hc : CfgOK c) (hstart nvalh : Int) (a b : Obs α)
    (rest : List (Obs α)) (hs : Sorted (a :: b :: rest)) (ha : a.1 ≤ hstart)
    (out : List (Option α)) (hk : kernel c hstart nvalh (a :: b :: rest) = .ok out)
    (i : Nat) (o : Option α) (hi : out[i]? = some o)
    (hcov : perE c.P hstart i ≤ lastTime (a :: b :: rest))
    (htouch : ∀ p ∈ pairs (a :: b :: rest), invalid c p.1 p.2 = true → p.2.1 ≠ perS c.P hstart i) :
    o = none ↔ ∃ p ∈ pairs (a :: b :: rest), p.1.1 < perE c.P hstart i ∧ perS c.P hstart i < p.2.1 ∧
        invalid c p.1 p.2 = true := by
  obtain ⟨out', h1, _, h3⟩ := kernel_spec c hc hstart nvalh a b rest hs ha
  rw [hk] at h1; cases h1
  have hok := h3 i o hi
  cases o with
  | none =>
    simp only [PeriodOK] at hok
    simp only [true_iff]
    rcases hok with hlt | ⟨p, hp, h1, h2, h3⟩
    · omega
    · exact ⟨p, hp, h1, lt_of_le_of_ne h2 (Ne.symm (htouch p hp h3)), h3⟩
  | some h =>
    simp only [PeriodOK] at hok
    simp only [reduceCtorEq, false_iff, not_exists, not_and]
    intro p hp h1 h2 h3
    rw [hok.2.2 p hp h1 h2] at h3
    exact absurd h3 (by simp)

/-- **Conservation.** Over a run of `m` consecutive non-missing periods the values add up (times `P`) to
the contributions over the whole span `[S_i, S_(i+m)]`: the time-integral of the series is conserved. -/
theorem conservation (c : Cfg α) (hc : CfgOK c) (hstart nvalh : Int) (a b : Obs α)
    (rest : List (Obs α)) (hs : Sorted (a :: b :: rest)) (ha : a.1 ≤ hstart)
    (out : List (Option α)) (hk : kernel c hstart nvalh (a :: b :: rest) = .ok out)
    (i m : Nat) (v : Nat → α) (hv : ∀ k < m, out[i + k]? = some (some (v k))) :
    ((List.range m).map v).sum * (c.P : α) =
      ((pairs (a :: b :: rest)).map fun p => contrib c (perS c.P hstart i) (perS c.P hstart (i + m)) p.1 p.2).sum := by
  induction m with
  | zero =>
    simp only [List.range_zero, List.map_nil, List.sum_nil, zero_mul, Nat.add_zero]
    symm
    apply List.sum_eq_zero
    intro x hx
    obtain ⟨p, _, rfl⟩ := List.mem_map.mp hx
    have : ¬ (ovLo (perS c.P hstart i) p.1 < ovHi (perS c.P hstart i) p.2) := by
      have := Sorted.pair_le hs p (by assumption)
      unfold ovLo ovHi; omega
    simp [contrib, this]
  | succ m ih =>
    have ih' := ih (fun k hk' => hv k (Nat.lt_succ_of_lt hk'))
    have hlast := value_is_period_integral c hc hstart nvalh a b rest hs ha out hk (i + m) (v m)
      (hv m (Nat.lt_succ_self m))
    have hP := hc.P_pos
    have hle1 : perS c.P hstart i ≤ perS c.P hstart (i + m) := by
      simp only [perS]; push_cast; nlinarith
    have hle2 : perS c.P hstart (i + m) ≤ perE c.P hstart (i + m) := by
      simp only [perS, perE]; omega
    rw [List.range_succ, List.map_append, List.sum_append, add_mul, ih']
    simp only [List.map_cons, List.map_nil, List.sum_cons, List.sum_nil, add_zero]
    rw [hlast, show i + (m + 1) = (i + m) + 1 by omega, perS_succ]
    exact contribSum_add c _ _ _ hle1 hle2 _ hs

/-- **Rainfall.** With the rainfall flag a non-missing value is the period total of the increments spread
uniformly over their intervals. -/
theorem rainfall_value_is_prorated_total (c : Cfg α) (hc : CfgOK c) (hr : c.rain = 1) (hstart nvalh : Int)
    (a b : Obs α) (rest : List (Obs α)) (hs : Sorted (a :: b :: rest)) (ha : a.1 ≤ hstart)
    (out : List (Option α)) (hk : kernel c hstart nvalh (a :: b :: rest) = .ok out)
    (i : Nat) (h : α) (hi : out[i]? = some (some h)) :
    h = ((pairs (a :: b :: rest)).map fun p =>
        if ovLo (perS c.P hstart i) p.1 < ovHi (perE c.P hstart i) p.2 then
          match p.1.2, p.2.2 with
          | some _, some v2 => rainShare p.1 p.2 v2 (ovLo (perS c.P hstart i) p.1) (ovHi (perE c.P hstart i) p.2)
          | _, _ => 0
        else 0).sum := by
  have hval := value_is_period_integral c hc hstart nvalh a b rest hs ha out hk i h hi
  have hPne : (c.P : α) ≠ 0 := by exact_mod_cast hc.P_pos.ne'
  have : ∀ l : List (Obs α × Obs α),
      (l.map fun p => contrib c (perS c.P hstart i) (perE c.P hstart i) p.1 p.2).sum =
      (l.map fun p =>
        if ovLo (perS c.P hstart i) p.1 < ovHi (perE c.P hstart i) p.2 then
          match p.1.2, p.2.2 with
          | some _, some v2 => rainShare p.1 p.2 v2 (ovLo (perS c.P hstart i) p.1) (ovHi (perE c.P hstart i) p.2)
          | _, _ => 0
        else 0).sum * (c.P : α) := by
    intro l
    induction l with
    | nil => simp
    | cons p l ih =>
      simp only [List.map_cons, List.sum_cons, ih, add_mul]
      congr 1
      unfold contrib
      split_ifs with h1
      · rcases p with ⟨⟨ta, va⟩, ⟨tb, vb⟩⟩
        cases va <;> cases vb <;> simp [hr]
      · simp
  rw [this] at hval
  exact mul_right_cancel₀ hPne hval

/-- what "valid" means: both end values present and not below `-eps`, and the interval not longer than
`maxgapsec` — so in the sums above every overlapping interval of a non-missing period has both values -/
theorem valid_iff (c : Cfg α) (a b : Obs α) :
    invalid c a b = false ↔ ∃ v1 v2, a.2 = some v1 ∧ b.2 = some v2 ∧ ¬ v1 < -c.eps ∧ ¬ v2 < -c.eps ∧
      ¬ (c.maxgap : α) < (b.1 : α) - (a.1 : α) := by
  obtain ⟨ta, va⟩ := a
  obtain ⟨tb, vb⟩ := b
  cases va <;> cases vb <;> simp [invalid, and_assoc]

/-- **The clipped intervals tile the period.** For a non-decreasing series the overlaps
`[max(t_a,S), min(t_b,E)]` of the observation intervals with `[S, E]` have total length
`clamp(last) - clamp(first)`; so for a period inside the data (`first ≤ S`, `E ≤ last`) they cover it
exactly once: the sum of the per-interval integrals is the integral over the whole period. -/
theorem overlaps_tile (S E : Int) (hSE : S ≤ E) :
    ∀ (a : Obs α) (l : List (Obs α)), Sorted (a :: l) →
      ((pairs (a :: l)).map fun p => max 0 (ovHi E p.2 - ovLo S p.1)).sum =
        min E (max S (lastTime (a :: l))) - min E (max S a.1)
  | a, [], _ => by simp
  | a, b :: r, hs => by
    have ih := overlaps_tile S E hSE b r hs.tail
    have hab : a.1 ≤ b.1 := hs.head_le b (by simp)
    simp only [ovHi, ovLo] at ih
    simp only [pairs_cons_cons, List.map_cons, List.sum_cons, lastTime_cons_cons, ovHi, ovLo, ih]
    omega

theorem overlaps_tile_covered (S E : Int) (hSE : S ≤ E) (a : Obs α) (l : List (Obs α)) (hs : Sorted (a :: l))
    (h0 : a.1 ≤ S) (h1 : E ≤ lastTime (a :: l)) :
    ((pairs (a :: l)).map fun p => max 0 (ovHi E p.2 - ovLo S p.1)).sum = E - S := by
  rw [overlaps_tile S E hSE a l hs]; omega

/-- **The start scan** leaves `varindex` on the interval that contains the origin:
`varsec[varindex] ≤ hstart`, and the next stamp is later than `hstart` unless it is the last one. -/
theorem startScan_position (hstart : Int) (a b : Obs α) (rest : List (Obs α)) (ha : a.1 ≤ hstart) :
    ∃ suf, startScan hstart (a :: b :: rest) = some suf ∧
      (∃ pre, a :: b :: rest = pre ++ suf.1 :: suf.2) ∧ suf.1.1 ≤ hstart ∧
      ((∃ x, suf.2 = [x]) ∨ ∀ x ∈ suf.2.head?, hstart < x.1) := by
  refine ⟨scanFrom hstart a (b :: rest), by simp [startScan, ha], ?_⟩
  have key : ∀ (l : List (Obs α)) (x : Obs α) (pre : List (Obs α)), a :: b :: rest = pre ++ x :: l → l ≠ [] →
      x.1 ≤ hstart →
      (∃ pre, a :: b :: rest = pre ++ (scanFrom hstart x l).1 :: (scanFrom hstart x l).2) ∧
      (scanFrom hstart x l).1.1 ≤ hstart ∧
      ((∃ y, (scanFrom hstart x l).2 = [y]) ∨ ∀ y ∈ (scanFrom hstart x l).2.head?, hstart < y.1) := by
    intro l
    induction l with
    | nil => intro x pre _ hne; exact absurd rfl hne
    | cons y r ih =>
      intro x pre hpre _ hx
      cases r with
      | nil => exact ⟨⟨pre, hpre⟩, hx, Or.inl ⟨y, rfl⟩⟩
      | cons z r' =>
        by_cases hy : y.1 ≤ hstart
        · have : scanFrom hstart x (y :: z :: r') = scanFrom hstart y (z :: r') := by
            rw [scanFrom]; simp [hy]
          rw [this]
          exact ih y (pre ++ [x]) (by rw [hpre]; simp) (by simp) hy
        · have : scanFrom hstart x (y :: z :: r') = (x, y :: z :: r') := by
            rw [scanFrom]; simp [hy]
          rw [this]
          exact ⟨⟨pre, hpre⟩, hx, Or.inr (by simp; omega)⟩
  exact key (b :: rest) a [] rfl (by simp) ha

/-- a series whose first stamp is later than the origin, or with fewer than two observations, is rejected -/
theorem kernel_rejects_late_start (c : Cfg α) (hc : CfgOK c) (hstart nvalh : Int) (a : Obs α)
    (rest : List (Obs α)) (ha : hstart < a.1) :
    kernel c hstart nvalh (a :: rest) = .error .startBeforeData := by
  have h1 : ¬ (c.rain < 0 ∨ 1 < c.rain) := by rcases hc.rain with h | h <;> omega
  have h2 : ¬ (c.P ≠ 1800 ∧ c.P ≠ 3600) := by rcases hc.period with h | h <;> omega
  cases rest with
  | nil => simp [kernel, h1, h2, startScan]
  | cons b r =>
    have : ¬ a.1 ≤ hstart := by omega
    simp [kernel, h1, h2, startScan, this]

/-- the affine piece is the interpolant: it passes through both observations -/
theorem lin_left (t1 t2 v1 v2 : α) : lin t1 t2 v1 v2 t1 = v1 := by simp [lin]

theorem lin_right (t1 t2 v1 v2 : α) (h : t1 ≠ t2) : lin t1 t2 v1 v2 t2 = v2 := by
  have : t2 - t1 ≠ 0 := sub_ne_zero.mpr (Ne.symm h)
  unfold lin; field_simp; ring

/-! ### the wrapper's origin and size -/

/-- the origin is the first whole hour strictly after the first stamp -/
theorem origin_spec (first : Int) :
    origin first % 3600 = 0 ∧ first < origin first ∧ origin first ≤ first + 3600 := by
  unfold origin; omega

/-- hourly output: every period the kernel computes ends at or before the last stamp, so none is
missing for lack of data -/
theorem hourly_periods_within_data (first last : Int) (h : first ≤ last) (i : Nat)
    (hi : (i : Int) < nvalhOf first last 3600 - 1) :
    perE 3600 (origin first) i ≤ last := by
  unfold nvalhOf at hi
  rw [Int.tdiv_eq_ediv_of_nonneg (by omega)] at hi
  have := origin_spec first
  unfold perE; omega

/-- half-hourly output: a computed period can extend past the last stamp, by less than one period -/
theorem halfhourly_periods_overhang (first last : Int) (h : first ≤ last) (i : Nat)
    (hi : (i : Int) < nvalhOf first last 1800 - 1) :
    perE 1800 (origin first) i ≤ last + 1800 := by
  unfold nvalhOf at hi
  rw [Int.tdiv_eq_ediv_of_nonneg (by omega)] at hi
  have := origin_spec first
  unfold perE; omega

/-- **The wrapper.** For admissible arguments and a non-decreasing series of at least two observations,
`var2h` returns the origin, and `nvalh` values: the kernel's values for periods `0 .. nvalh-2`, each as
the property requires, followed by one missing value. -/
theorem wrapper_spec (c : Cfg α) (hc : CfgOK c) (hgap : 3600 ≤ c.maxgap) (a b : Obs α) (rest : List (Obs α))
    (hs : Sorted (a :: b :: rest)) (hn : 1 ≤ nvalhOf a.1 (lastTime (a :: b :: rest)) c.P) :
    ∃ out, wrapper c (a :: b :: rest) = .ok (origin a.1, out ++ [none]) ∧
      ((out.length : Int) = nvalhOf a.1 (lastTime (a :: b :: rest)) c.P - 1) ∧
      ∀ i o, out[i]? = some o →
        PeriodOK c (a :: b :: rest) (perS c.P (origin a.1) i) (perE c.P (origin a.1) i) o := by
  have hlastq : ∀ (l : List (Obs α)) (x : Obs α), (x :: l).getLast?.map Prod.fst = some (lastTime (x :: l)) := by
    intro l
    induction l with
    | nil => intro x; simp
    | cons y r ih => intro x; rw [List.getLast?_cons_cons, ih y, lastTime_cons_cons]
  obtain ⟨lst, hlst⟩ : ∃ lst, (a :: b :: rest).getLast? = some lst := by
    cases h : (a :: b :: rest).getLast? with
    | none => simp at h
    | some x => exact ⟨x, rfl⟩
  have hl1 : lst.1 = lastTime (a :: b :: rest) := by
    have := hlastq (b :: rest) a
    rw [hlst] at this; simpa using this
  have horg := origin_spec a.1
  obtain ⟨out, hk, hlen, hall⟩ := kernel_spec c hc (origin a.1)
    (nvalhOf a.1 (lastTime (a :: b :: rest)) c.P) a b rest hs (by omega)
  refine ⟨out, ?_, by rw [hlen]; omega, hall⟩
  have h2 : ¬ (c.P ≠ 1800 ∧ c.P ≠ 3600) := by rcases hc.period with h | h <;> omega
  have h3 : ¬ c.maxgap < 3600 := by omega
  have h4 : ¬ nvalhOf a.1 (lastTime (a :: b :: rest)) c.P < 0 := by omega
  have h5 : ¬ nvalhOf a.1 (lastTime (a :: b :: rest)) c.P = 0 := by omega
  simp only [wrapper, h2, h3, if_false, List.head?_cons, hlst, hl1, h4, hk, h5]

/-- **Hourly output: missing only for an invalid interval.** With `P = 3600` every period the wrapper
computes lies inside the data, so a missing value (other than the final one) always comes from an invalid
interval that overlaps or touches the period. -/
theorem wrapper_hourly_missing_cause (c : Cfg α) (hc : CfgOK c) (hP : c.P = 3600) (hgap : 3600 ≤ c.maxgap)
    (a b : Obs α) (rest : List (Obs α)) (hs : Sorted (a :: b :: rest))
    (hn : 1 ≤ nvalhOf a.1 (lastTime (a :: b :: rest)) c.P)
    (hstart : Int) (out : List (Option α)) (hw : wrapper c (a :: b :: rest) = .ok (hstart, out ++ [none]))
    (i : Nat) (hi : out[i]? = some none) :
    ∃ p ∈ pairs (a :: b :: rest), p.1.1 < perE c.P hstart i ∧ perS c.P hstart i ≤ p.2.1 ∧
      invalid c p.1 p.2 = true := by
  obtain ⟨out', hw', hlen, hall⟩ := wrapper_spec c hc hgap a b rest hs hn
  rw [hw] at hw'
  have hEq : hstart = origin a.1 ∧ out = out' := by
    have := Except.ok.inj hw'
    have h1 := (Prod.mk.inj this).1
    have h2 := List.append_cancel_right (Prod.mk.inj this).2
    exact ⟨h1, h2⟩
  obtain ⟨rfl, rfl⟩ := hEq
  have hok := hall i none hi
  simp only [PeriodOK] at hok
  have hilt : i < out.length := by
    by_contra hcon
    rw [List.getElem?_eq_none (by omega)] at hi
    exact absurd hi (by simp)
  have hle : a.1 ≤ lastTime (a :: b :: rest) := Sorted.le_lastTime hs a (by simp)
  have hcov := hourly_periods_within_data a.1 (lastTime (a :: b :: rest)) hle i (by rw [hP] at hlen; omega)
  rcases hok with hlt | h
  · rw [hP] at hlt; omega
  · exact h

/-! ### invalid intervals, cause by cause -/

/-- the validity test spelled out as the property words it: a missing end value, an end value below
`-eps` ("negative"), or an interval longer than `maxgapsec` (whole seconds) -/
theorem invalid_iff (c : Cfg α) (a b : Obs α) :
    invalid c a b = true ↔ a.2 = none ∨ b.2 = none ∨ (∃ v, a.2 = some v ∧ v < -c.eps) ∨
      (∃ v, b.2 = some v ∧ v < -c.eps) ∨ c.maxgap < b.1 - a.1 := by
  obtain ⟨ta, va⟩ := a
  obtain ⟨tb, vb⟩ := b
  have hcast : ((c.maxgap : Int) : α) < ((tb : Int) : α) - ((ta : Int) : α) ↔ c.maxgap < tb - ta := by
    rw [← Int.cast_sub, Int.cast_lt]
  cases va <;> cases vb <;> simp [invalid, hcast, or_assoc]

/-- **An invalid interval that overlaps a period makes it missing** — whatever else the period contains. -/
theorem invalid_overlap_makes_missing (c : Cfg α) (hc : CfgOK c) (hstart nvalh : Int) (a b : Obs α)
    (rest : List (Obs α)) (hs : Sorted (a :: b :: rest)) (ha : a.1 ≤ hstart)
    (out : List (Option α)) (hk : kernel c hstart nvalh (a :: b :: rest) = .ok out)
    (i : Nat) (o : Option α) (hi : out[i]? = some o)
    (p : Obs α × Obs α) (hp : p ∈ pairs (a :: b :: rest))
    (h1 : p.1.1 < perE c.P hstart i) (h2 : perS c.P hstart i < p.2.1) (hinv : invalid c p.1 p.2 = true) :
    o = none := by
  cases o with
  | none => rfl
  | some h =>
    have := (nonmissing_covered_and_valid c hc hstart nvalh a b rest hs ha out hk i h hi).2 p hp h1 h2
    rw [this] at hinv; exact absurd hinv (by simp)

/-- **Gap handling.** An interval longer than `maxgapsec` makes every period it overlaps missing. -/
theorem gap_makes_missing (c : Cfg α) (hc : CfgOK c) (hstart nvalh : Int) (a b : Obs α)
    (rest : List (Obs α)) (hs : Sorted (a :: b :: rest)) (ha : a.1 ≤ hstart)
    (out : List (Option α)) (hk : kernel c hstart nvalh (a :: b :: rest) = .ok out)
    (i : Nat) (o : Option α) (hi : out[i]? = some o)
    (p : Obs α × Obs α) (hp : p ∈ pairs (a :: b :: rest))
    (h1 : p.1.1 < perE c.P hstart i) (h2 : perS c.P hstart i < p.2.1) (hgap : c.maxgap < p.2.1 - p.1.1) :
    o = none :=
  invalid_overlap_makes_missing c hc hstart nvalh a b rest hs ha out hk i o hi p hp h1 h2
    ((invalid_iff c p.1 p.2).mpr (Or.inr (Or.inr (Or.inr (Or.inr hgap)))))

/-- **An interval at most `maxgapsec` long with two non-negative end values never makes a period missing**:
if every interval that overlaps or touches the period is of that kind and the data reach the end of the
period, a value is returned. -/
theorem valid_data_gives_value (c : Cfg α) (hc : CfgOK c) (hstart nvalh : Int) (a b : Obs α)
    (rest : List (Obs α)) (hs : Sorted (a :: b :: rest)) (ha : a.1 ≤ hstart)
    (out : List (Option α)) (hk : kernel c hstart nvalh (a :: b :: rest) = .ok out)
    (i : Nat) (o : Option α) (hi : out[i]? = some o)
    (hcov : perE c.P hstart i ≤ lastTime (a :: b :: rest))
    (hvalid : ∀ p ∈ pairs (a :: b :: rest), p.1.1 < perE c.P hstart i → perS c.P hstart i ≤ p.2.1 →
      (∃ v1 v2, p.1.2 = some v1 ∧ p.2.2 = some v2 ∧ 0 ≤ v1 ∧ 0 ≤ v2) ∧ p.2.1 - p.1.1 ≤ c.maxgap) :
    ∃ h, o = some h := by
  cases o with
  | some h => exact ⟨h, rfl⟩
  | none =>
    exfalso
    rcases missing_has_cause c hc hstart nvalh a b rest hs ha out hk i hi with hlt | ⟨p, hp, h1, h2, hinv⟩
    · omega
    · obtain ⟨⟨v1, v2, e1, e2, p1, p2⟩, hg⟩ := hvalid p hp h1 h2
      have heps := hc.eps_pos
      rcases (invalid_iff c p.1 p.2).mp hinv with h | h | ⟨v, hv, hlt⟩ | ⟨v, hv, hlt⟩ | h
      · rw [e1] at h; exact absurd h (by simp)
      · rw [e2] at h; exact absurd h (by simp)
      · rw [e1] at hv; cases hv; linarith
      · rw [e2] at hv; cases hv; linarith
      · omega

/-! ### the wrapper: validation, size, and transfer of the kernel theorems -/

/-- a period other than 1800 / 3600 s is rejected before anything else -/
theorem wrapper_rejects_bad_period (c : Cfg α) (obs : List (Obs α)) (h : c.P ≠ 1800 ∧ c.P ≠ 3600) :
    wrapper c obs = .error .badPeriod := by
  simp [wrapper, h]

/-- `maxgapsec < 3600` is rejected -/
theorem wrapper_rejects_small_maxgap (c : Cfg α) (obs : List (Obs α)) (hP : c.P = 1800 ∨ c.P = 3600)
    (h : c.maxgap < 3600) : wrapper c obs = .error .badMaxgap := by
  have h2 : ¬ (c.P ≠ 1800 ∧ c.P ≠ 3600) := by rcases hP with h | h <;> omega
  simp [wrapper, h2, h]

/-- half-hourly output: only the last computed period (number `nvalh - 2`) can overhang the data; all the
earlier ones end at or before the last stamp -/
theorem halfhourly_periods_within_data (first last : Int) (h : first ≤ last) (i : Nat)
    (hi : (i : Int) < nvalhOf first last 1800 - 2) :
    perE 1800 (origin first) i ≤ last := by
  unfold nvalhOf at hi
  rw [Int.tdiv_eq_ediv_of_nonneg (by omega)] at hi
  have := origin_spec first
  unfold perE; omega

/-- the number of values is `trunc((last - first) / P)`: a series spanning `k` whole periods gives `k` values -/
theorem nvalhOf_spec (first last P : Int) (h : first ≤ last) (hP : 0 < P) :
    nvalhOf first last P * P ≤ last - first ∧ last - first < (nvalhOf first last P + 1) * P := by
  unfold nvalhOf
  rw [Int.tdiv_eq_ediv_of_nonneg (by omega)]
  constructor
  · have := Int.ediv_mul_le (last - first) (ne_of_gt hP); linarith
  · have := Int.lt_ediv_add_one_mul_self (last - first) hP; linarith

/-- a series that spans less than one period yields an empty result -/
theorem wrapper_empty (c : Cfg α) (hc : CfgOK c) (hgap : 3600 ≤ c.maxgap) (a b : Obs α) (rest : List (Obs α))
    (hs : Sorted (a :: b :: rest)) (hn : nvalhOf a.1 (lastTime (a :: b :: rest)) c.P = 0) :
    wrapper c (a :: b :: rest) = .ok (origin a.1, []) := by
  have hlastq : ∀ (l : List (Obs α)) (x : Obs α), (x :: l).getLast?.map Prod.fst = some (lastTime (x :: l)) := by
    intro l
    induction l with
    | nil => intro x; simp
    | cons y r ih => intro x; rw [List.getLast?_cons_cons, ih y, lastTime_cons_cons]
  obtain ⟨lst, hlst⟩ : ∃ lst, (a :: b :: rest).getLast? = some lst := by
    cases h : (a :: b :: rest).getLast? with
    | none => simp at h
    | some x => exact ⟨x, rfl⟩
  have hl1 : lst.1 = lastTime (a :: b :: rest) := by
    have := hlastq (b :: rest) a
    rw [hlst] at this; simpa using this
  have horg := origin_spec a.1
  obtain ⟨out, hk, hlen, _⟩ := kernel_spec c hc (origin a.1) 0 a b rest hs (by omega)
  have h2 : ¬ (c.P ≠ 1800 ∧ c.P ≠ 3600) := by rcases hc.period with h | h <;> omega
  have h3 : ¬ c.maxgap < 3600 := by omega
  simp only [wrapper, h2, h3, if_false, List.head?_cons, hlst, hl1, hn, hk]
  simp

/-- **The wrapper is the kernel plus one final missing value.** Whatever `var2h` returns on a
non-decreasing series spanning at least one period is: the origin `origin a.1`, then the kernel's values for
that origin and size, then one missing value.  Every kernel theorem above therefore speaks about the
returned series (`res[i]? = out[i]?` for `i < out.length`). -/
theorem wrapper_is_kernel_plus_final (c : Cfg α) (hc : CfgOK c) (hgap : 3600 ≤ c.maxgap) (a b : Obs α)
    (rest : List (Obs α)) (hs : Sorted (a :: b :: rest))
    (hn : 1 ≤ nvalhOf a.1 (lastTime (a :: b :: rest)) c.P)
    (hstart : Int) (res : List (Option α)) (hw : wrapper c (a :: b :: rest) = .ok (hstart, res)) :
    hstart = origin a.1 ∧ a.1 ≤ hstart ∧ (res.length : Int) = nvalhOf a.1 (lastTime (a :: b :: rest)) c.P ∧
      ∃ out, kernel c hstart (nvalhOf a.1 (lastTime (a :: b :: rest)) c.P) (a :: b :: rest) = .ok out ∧
        res = out ++ [none] := by
  obtain ⟨out', hw', hlen, _⟩ := wrapper_spec c hc hgap a b rest hs hn
  rw [hw] at hw'
  have h1 := (Prod.mk.inj (Except.ok.inj hw')).1
  have h2 := (Prod.mk.inj (Except.ok.inj hw')).2
  subst h1 h2
  have horg := origin_spec a.1
  refine ⟨rfl, by omega, by rw [List.length_append, List.length_singleton]; push_cast; omega, out', ?_, rfl⟩
  obtain ⟨out, hk, _, _⟩ := kernel_spec c hc (origin a.1)
    (nvalhOf a.1 (lastTime (a :: b :: rest)) c.P) a b rest hs (by omega)
  have : wrapper c (a :: b :: rest) = .ok (origin a.1, out ++ [none]) := by
    have hlastq : ∀ (l : List (Obs α)) (x : Obs α), (x :: l).getLast?.map Prod.fst = some (lastTime (x :: l)) := by
      intro l
      induction l with
      | nil => intro x; simp
      | cons y r ih => intro x; rw [List.getLast?_cons_cons, ih y, lastTime_cons_cons]
    obtain ⟨lst, hlst⟩ : ∃ lst, (a :: b :: rest).getLast? = some lst := by
      cases h : (a :: b :: rest).getLast? with
      | none => simp at h
      | some x => exact ⟨x, rfl⟩
    have hl1 : lst.1 = lastTime (a :: b :: rest) := by
      have := hlastq (b :: rest) a
      rw [hlst] at this; simpa using this
    have h2 : ¬ (c.P ≠ 1800 ∧ c.P ≠ 3600) := by rcases hc.period with h | h <;> omega
    have h3 : ¬ c.maxgap < 3600 := by omega
    have h4 : ¬ nvalhOf a.1 (lastTime (a :: b :: rest)) c.P < 0 := by omega
    have h5 : ¬ nvalhOf a.1 (lastTime (a :: b :: rest)) c.P = 0 := by omega
    simp only [wrapper, h2, h3, if_false, List.head?_cons, hlst, hl1, h4, hk, h5]
  rw [hw] at this
  have h3 := List.append_cancel_right (Prod.mk.inj (Except.ok.inj this)).2
  rw [h3]; exact hk

/-- the final value of the returned series is missing -/
theorem wrapper_final_missing (c : Cfg α) (hc : CfgOK c) (hgap : 3600 ≤ c.maxgap) (a b : Obs α)
    (rest : List (Obs α)) (hs : Sorted (a :: b :: rest))
    (hn : 1 ≤ nvalhOf a.1 (lastTime (a :: b :: rest)) c.P)
    (hstart : Int) (res : List (Option α)) (hw : wrapper c (a :: b :: rest) = .ok (hstart, res)) :
    res.getLast? = some none := by
  obtain ⟨_, _, _, out, _, rfl⟩ := wrapper_is_kernel_plus_final c hc hgap a b rest hs hn hstart res hw
  simp

/-! ### storage resolution and time zone of the index -/

/-- a whole-second wall-clock stamp `t` in a zone whose offset is `off` is stored as `(t - off) * perSec`
ticks (the UTC instant); the wrapper's conversion gives back `t`, for every unit and every offset -/
theorem wallSec_whole (u : TUnit) (t off : Int) : wallSec u ((t - off) * u.perSec) off = t := by
  unfold wallSec
  have hp : u.perSec ≠ 0 := by cases u <;> decide
  rw [← add_mul, sub_add_cancel, Int.mul_ediv_cancel _ hp]

/-- sub-second stamps are floored to the second (naive index) -/
theorem wallSec_floor (u : TUnit) (q r : Int) (h0 : 0 ≤ r) (h1 : r < u.perSec) :
    wallSec u (q * u.perSec + r) 0 = q := by
  unfold wallSec
  have hp : 0 < u.perSec := by cases u <;> decide
  rw [zero_mul, add_zero, add_comm, Int.add_mul_ediv_right _ _ (ne_of_gt hp), Int.ediv_eq_zero_of_lt h0 h1, zero_add]

/-- **Independence of storage resolution and time zone.** Take whole-second wall-clock stamps
`(t, utc offset, value)`; store them in any unit, each with its own UTC offset (any zone, daylight
saving included): `var2h` returns what it returns for the naive list of wall-clock seconds. -/
theorem index_independence (c : Cfg α) (u : TUnit) (l : List (Int × Int × Option α)) :
    wrapperIdx c u (l.map fun x => ((x.1 - x.2.1) * u.perSec, x.2.1, x.2.2)) =
      wrapper c (l.map fun x => (x.1, x.2.2)) := by
  unfold wrapperIdx obsOfIndex
  congr 1
  rw [List.map_map]
  apply List.map_congr_left
  intro x _
  simp [wallSec_whole]

/-- two stored indexes that read the same wall-clock seconds give the same result -/
theorem index_independence_two (c : Cfg α) (u1 u2 : TUnit) (l1 l2 : List (Stamp α))
    (h : obsOfIndex u1 l1 = obsOfIndex u2 l2) : wrapperIdx c u1 l1 = wrapperIdx c u2 l2 := by
  unfold wrapperIdx; rw [h]

end field

/-! ### the trapezoid is the integral (ℝ) -/

open intervalIntegral in
/-- the trapezoid area the kernel adds is Mathlib's interval integral of the affine piece -/
theorem trapArea_eq_integral (a b : Obs ℝ) (v1 v2 : ℝ) (lo hi : Int) :
    trapArea a b v1 v2 lo hi = ∫ x in (lo : ℝ)..(hi : ℝ), lin (a.1 : ℝ) (b.1 : ℝ) v1 v2 x := by
  unfold trapArea lin
  generalize (v2 - v1) / ((b.1 : ℝ) - (a.1 : ℝ)) = sl
  rw [intervalIntegral.integral_add, intervalIntegral.integral_const_mul, intervalIntegral.integral_sub,
    integral_id, intervalIntegral.integral_const, intervalIntegral.integral_const]
  · simp only [smul_eq_mul]; ring
  all_goals
    first
    | exact continuous_id.intervalIntegrable _ _
    | exact continuous_const.intervalIntegrable _ _
    | exact (Continuous.intervalIntegrable (by continuity) _ _)

/-- **Value, as an integral.** Over the reals, without the rainfall flag: a non-missing value times the
period is the sum, over the observation intervals that overlap the period, of the interval integral of
the linear interpolant between `max(t_a, S)` and `min(t_b, E)`. -/
theorem value_is_integral_of_interpolant (c : Cfg ℝ) (hc : CfgOK c) (hr : c.rain = 0) (hstart nvalh : Int)
    (a b : Obs ℝ) (rest : List (Obs ℝ)) (hs : Sorted (a :: b :: rest)) (ha : a.1 ≤ hstart)
    (out : List (Option ℝ)) (hk : kernel c hstart nvalh (a :: b :: rest) = .ok out)
    (i : Nat) (h : ℝ) (hi : out[i]? = some (some h)) :
    h * (c.P : ℝ) = ((pairs (a :: b :: rest)).map fun p =>
        if ovLo (perS c.P hstart i) p.1 < ovHi (perE c.P hstart i) p.2 then
          match p.1.2, p.2.2 with
          | some v1, some v2 =>
            ∫ x in ((ovLo (perS c.P hstart i) p.1 : Int) : ℝ)..((ovHi (perE c.P hstart i) p.2 : Int) : ℝ),
              lin (p.1.1 : ℝ) (p.2.1 : ℝ) v1 v2 x
          | _, _ => 0
        else 0).sum := by
  rw [value_is_period_integral c hc hstart nvalh a b rest hs ha out hk i h hi]
  congr 1
  apply List.map_congr_left
  intro p _
  unfold contrib
  have hr1 : ¬ c.rain = 1 := by omega
  by_cases h1 : ovLo (perS c.P hstart i) p.1 < ovHi (perE c.P hstart i) p.2
  · simp only [h1, if_true, hr1, if_false]
    rcases p with ⟨⟨ta, va⟩, ⟨tb, vb⟩⟩
    cases va <;> cases vb <;> simp [trapArea_eq_integral]
  · simp only [h1, if_false]

/-- over the reals, without the rainfall flag, a contribution is the clipped integral of the piece -/
theorem contrib_eq_segInt (c : Cfg ℝ) (hr : c.rain = 0) (S E : Int) (p : Obs ℝ × Obs ℝ) :
    contrib c S E p.1 p.2 = segInt S E p := by
  have hr1 : ¬ c.rain = 1 := by omega
  unfold contrib segInt
  by_cases h1 : ovLo S p.1 < ovHi E p.2
  · simp only [h1, if_true, hr1, if_false]
    rcases p with ⟨⟨ta, va⟩, ⟨tb, vb⟩⟩
    cases va <;> cases vb <;> simp [trapArea_eq_integral, pieceFun]
  · simp only [h1, if_false]

/-- **Value, as the time-average of THE interpolant.** Over the reals, without the rainfall flag, every
non-missing value is the interval integral over its period of the piecewise-linear interpolant `interp obs`
of the observations (one function ℝ → ℝ), divided by the period. -/
theorem value_is_average_of_interpolant (c : Cfg ℝ) (hc : CfgOK c) (hr : c.rain = 0) (hstart nvalh : Int)
    (a b : Obs ℝ) (rest : List (Obs ℝ)) (hs : Sorted (a :: b :: rest)) (ha : a.1 ≤ hstart)
    (out : List (Option ℝ)) (hk : kernel c hstart nvalh (a :: b :: rest) = .ok out)
    (i : Nat) (h : ℝ) (hi : out[i]? = some (some h)) :
    h = (∫ x in ((perS c.P hstart i : Int) : ℝ)..((perE c.P hstart i : Int) : ℝ), interp (a :: b :: rest) x)
          / (c.P : ℝ) := by
  have hval := value_is_period_integral c hc hstart nvalh a b rest hs ha out hk i h hi
  have hcov := (nonmissing_covered_and_valid c hc hstart nvalh a b rest hs ha out hk i h hi).1
  have hP := hc.P_pos
  have hPne : (c.P : ℝ) ≠ 0 := by exact_mod_cast hP.ne'
  have hS : a.1 ≤ perS c.P hstart i := by
    have : 0 ≤ (i : Int) * c.P := mul_nonneg (by omega) hP.le
    unfold perS; omega
  have hSE : perS c.P hstart i ≤ perE c.P hstart i := by unfold perS perE; omega
  rw [integral_interp_eq_sum (perE c.P hstart i) (b :: rest) a (perS c.P hstart i) hs hS hSE hcov]
  rw [eq_div_iff hPne, hval]
  congr 1
  apply List.map_congr_left
  intro p _
  exact contrib_eq_segInt c hr _ _ p

/-- the same for what `dutils.var2h` returns: origin the first whole hour after the first stamp, value `i`
the average of the interpolant over `[origin + i P, origin + (i+1) P]` -/
theorem wrapper_value_is_average_of_interpolant (c : Cfg ℝ) (hc : CfgOK c) (hr : c.rain = 0)
    (hgap : 3600 ≤ c.maxgap) (a b : Obs ℝ) (rest : List (Obs ℝ)) (hs : Sorted (a :: b :: rest))
    (hn : 1 ≤ nvalhOf a.1 (lastTime (a :: b :: rest)) c.P)
    (hstart : Int) (res : List (Option ℝ)) (hw : wrapper c (a :: b :: rest) = .ok (hstart, res))
    (i : Nat) (h : ℝ) (hi : res[i]? = some (some h)) :
    hstart = origin a.1 ∧
    h = (∫ x in ((perS c.P hstart i : Int) : ℝ)..((perE c.P hstart i : Int) : ℝ), interp (a :: b :: rest) x)
          / (c.P : ℝ) := by
  obtain ⟨h1, h2, _, out, hk, rfl⟩ := wrapper_is_kernel_plus_final c hc hgap a b rest hs hn hstart res hw
  refine ⟨h1, ?_⟩
  have hi' : out[i]? = some (some h) := by
    by_cases hlt : i < out.length
    · rwa [List.getElem?_append_left hlt] at hi
    · rw [List.getElem?_append_right (by omega)] at hi
      cases hk' : i - out.length with
      | zero => rw [hk'] at hi; simp at hi
      | succ k => rw [hk'] at hi; simp at hi
  exact value_is_average_of_interpolant c hc hr hstart _ a b rest hs h2 out hk i h hi'

section field
set_option linter.unusedSectionVars false
variable {α : Type} [Field α] [LinearOrder α] [IsStrictOrderedRing α]

/-! ### the returned series: every value with its time label -/

/-- for the two admissible periods the spacing of the returned index is the period -/
theorem freqSec_eq_period (c : Cfg α) (hc : CfgOK c) : freqSec c.P = c.P := by
  rcases hc.period with h | h <;> simp [freqSec, h]

/-- label `i` of `date_range(hstart, freq, periods = n)` -/
theorem labels_getElem? (hstart P : Int) (n i : Nat) (h : i < n) :
    (labels hstart P n)[i]? = some (hstart + (i : Int) * freqSec P) := by
  simp [labels, h]

/-- **Each returned value carries the start of its own period as label.** `dutils.var2h` returns `nvalh`
pairs; pair `i` is `(origin + i·P, value i of the wrapper)` — the value that the theorems above describe for
the period `[origin + i·P, origin + (i+1)·P]`. -/
theorem series_labels_are_period_starts (c : Cfg α) (hc : CfgOK c) (hgap : 3600 ≤ c.maxgap) (a b : Obs α)
    (rest : List (Obs α)) (hs : Sorted (a :: b :: rest))
    (hn : 1 ≤ nvalhOf a.1 (lastTime (a :: b :: rest)) c.P)
    (ser : List (Int × Option α)) (hw : wrapperSeries c (a :: b :: rest) = .ok ser) :
    (ser.length : Int) = nvalhOf a.1 (lastTime (a :: b :: rest)) c.P ∧
    ∃ res, wrapper c (a :: b :: rest) = .ok (origin a.1, res) ∧
      ∀ i t o, ser[i]? = some (t, o) → t = perS c.P (origin a.1) i ∧ res[i]? = some o := by
  obtain ⟨out, hw', hlen, _⟩ := wrapper_spec c hc hgap a b rest hs hn
  unfold wrapperSeries at hw
  rw [hw'] at hw
  simp only [Except.ok.injEq] at hw
  subst hw
  refine ⟨?_, out ++ [none], hw', ?_⟩
  · have hl : ((labels (origin a.1) c.P (out ++ [none]).length).zip (out ++ [none])).length = out.length + 1 := by
      simp [labels]
    rw [hl]; push_cast; omega
  · intro i t o hi
    rw [List.getElem?_zip_eq_some] at hi
    obtain ⟨h1, h2⟩ := hi
    have hlt : i < (out ++ [none]).length := by
      by_contra hcon
      rw [List.getElem?_eq_none (by omega)] at h2
      exact absurd h2 (by simp)
    rw [labels_getElem? _ _ _ _ hlt, freqSec_eq_period c hc] at h1
    exact ⟨by simpa [perS] using h1.symm, h2⟩

/-- **A missing value in the returned series has a cause** (every label but the last): the period it labels
extends past the last observation, or an invalid interval overlaps or touches it. -/
theorem series_missing_has_cause (c : Cfg α) (hc : CfgOK c) (hgap : 3600 ≤ c.maxgap) (a b : Obs α)
    (rest : List (Obs α)) (hs : Sorted (a :: b :: rest))
    (hn : 1 ≤ nvalhOf a.1 (lastTime (a :: b :: rest)) c.P)
    (ser : List (Int × Option α)) (hw : wrapperSeries c (a :: b :: rest) = .ok ser)
    (i : Nat) (t : Int) (hi : ser[i]? = some (t, none)) (hnl : i + 1 < ser.length) :
    lastTime (a :: b :: rest) < t + c.P ∨
      ∃ p ∈ pairs (a :: b :: rest), p.1.1 < t + c.P ∧ t ≤ p.2.1 ∧ invalid c p.1 p.2 = true := by
  obtain ⟨hlen, res, hres, hall⟩ := series_labels_are_period_starts c hc hgap a b rest hs hn ser hw
  obtain ⟨ht, hri⟩ := hall i t none hi
  obtain ⟨_, h2, hrl, out, hk, rfl⟩ := wrapper_is_kernel_plus_final c hc hgap a b rest hs hn _ res hres
  have hio : i < out.length := by
    have : (out ++ [none]).length = ser.length := by
      have := hlen; rw [← hrl] at this; exact_mod_cast this.symm
    simp at this; omega
  rw [List.getElem?_append_left hio] at hri
  have := missing_has_cause c hc (origin a.1) _ a b rest hs h2 out hk i hri
  rw [ht]
  simpa [perS, perE] using this

end field

/-- **Clause 1 on the returned object.** Over the reals, without the rainfall flag: whenever the series
`dutils.var2h` returns holds the pair `(t, h)` with `h` not missing, `h` is the integral of the piecewise-linear
interpolant of the observations over `[t, t + P]`, divided by `P`. -/
theorem series_value_is_average_over_its_period (c : Cfg ℝ) (hc : CfgOK c) (hr : c.rain = 0)
    (hgap : 3600 ≤ c.maxgap) (a b : Obs ℝ) (rest : List (Obs ℝ)) (hs : Sorted (a :: b :: rest))
    (hn : 1 ≤ nvalhOf a.1 (lastTime (a :: b :: rest)) c.P)
    (ser : List (Int × Option ℝ)) (hw : wrapperSeries c (a :: b :: rest) = .ok ser)
    (t : Int) (h : ℝ) (hm : (t, some h) ∈ ser) :
    h = (∫ x in ((t : Int) : ℝ)..((t + c.P : Int) : ℝ), interp (a :: b :: rest) x) / (c.P : ℝ) := by
  obtain ⟨_, res, hres, hall⟩ := series_labels_are_period_starts c hc hgap a b rest hs hn ser hw
  obtain ⟨i, hi⟩ := List.mem_iff_getElem?.mp hm
  obtain ⟨ht, hri⟩ := hall i t (some h) hi
  have := (wrapper_value_is_average_of_interpolant c hc hr hgap a b rest hs hn _ res hres i h hri).2
  rw [ht]
  exact this

section anyarith
variable {α : Type} [Add α] [Sub α] [Mul α] [Div α] [Neg α] [LT α] [DecidableLT α]
  [OfNat α 0] [OfNat α 2] [IntCast α]

/-! ### the kernel on the caller's buffer, the Cython entry point, call histories

No law of the arithmetic is used: these hold for every instance of the model, `Float` included. -/

/-- **The kernel writes `hvalues[0 .. nvalh-2]` and nothing else**: after a successful call the buffer holds the
kernel's values followed by whatever it held before — so the answer does not depend on what an earlier call
left in the buffer, and `hvalues[nvalh-1]` (the final period) is not written. -/
theorem kernel_writes_prefix_only (c : Cfg α) (hstart nvalh : Int) (obs : List (Obs α)) (buf out : List (Option α))
    (hk : kernel c hstart nvalh obs = .ok out) (hlen : (nvalh - 1).toNat ≤ buf.length) :
    kernelInto c hstart nvalh obs buf = (out ++ buf.drop out.length, none) :=
  kernelInto_of_ok c hstart nvalh obs buf out hk hlen

/-- the final period keeps the value the caller put there (`dutils.var2h`: NaN) -/
theorem kernel_final_period_untouched (c : Cfg α) (hstart nvalh : Int) (obs : List (Obs α))
    (buf out : List (Option α)) (hk : kernel c hstart nvalh obs = .ok out) (hlen : (nvalh - 1).toNat < buf.length) :
    (kernelInto c hstart nvalh obs buf).1[(nvalh - 1).toNat]? = buf[(nvalh - 1).toNat]? := by
  have hol : out.length = (nvalh - 1).toNat := by
    unfold kernel at hk
    split at hk
    · exact absurd hk (by simp)
    · split at hk
      · exact absurd hk (by simp)
      · split at hk
        · exact absurd hk (by simp)
        · exact loop_length c hstart _ _ _ _ hk
  rw [kernelInto_of_ok c hstart nvalh obs buf out hk (by omega), ← hol]
  rw [List.getElem?_append_right (le_refl _), List.getElem?_drop]
  simp

/-- two calls with the same arguments on buffers holding different stale values return the same values -/
theorem kernel_stale_buffer_irrelevant (c : Cfg α) (hstart nvalh : Int) (obs : List (Obs α))
    (buf1 buf2 out : List (Option α)) (hk : kernel c hstart nvalh obs = .ok out)
    (h1 : (nvalh - 1).toNat ≤ buf1.length) (h2 : (nvalh - 1).toNat ≤ buf2.length) :
    (kernelInto c hstart nvalh obs buf1).1.take out.length = out ∧
    (kernelInto c hstart nvalh obs buf2).1.take out.length = out := by
  rw [kernelInto_of_ok c hstart nvalh obs buf1 out hk h1, kernelInto_of_ok c hstart nvalh obs buf2 out hk h2]
  simp

/-- the return code is non-zero exactly when the kernel (as a function) fails, with the same guard -/
theorem kernel_return_code (c : Cfg α) (hstart nvalh : Int) (obs : List (Obs α)) (buf : List (Option α)) :
    (kernelInto c hstart nvalh obs buf).2 =
      (match kernel c hstart nvalh obs with | .ok _ => none | .error x => some x) :=
  kernelInto_err c hstart nvalh obs buf

/-- **A call rejected by a guard before the loop leaves the buffer as it was** (bad rainfall flag, bad
period, origin before the first stamp / fewer than two observations). -/
theorem kernel_guard_error_leaves_buffer (c : Cfg α) (hstart nvalh : Int) (obs : List (Obs α))
    (buf : List (Option α))
    (h : (c.rain < 0 ∨ 1 < c.rain) ∨ (c.P ≠ 1800 ∧ c.P ≠ 3600) ∨ startScan hstart obs = none) :
    (kernelInto c hstart nvalh obs buf).1 = buf ∧ (kernelInto c hstart nvalh obs buf).2 ≠ none := by
  unfold kernelInto
  by_cases h1 : c.rain < 0 ∨ 1 < c.rain
  · simp [h1]
  · by_cases h2 : c.P ≠ 1800 ∧ c.P ≠ 3600
    · simp [h1, h2]
    · have h3 : startScan hstart obs = none := by tauto
      simp [h1, h2, h3]

/-- whatever happens, the buffer keeps its length (nothing is written past `hvalues`) -/
theorem kernel_buffer_length (c : Cfg α) (hstart nvalh : Int) (obs : List (Obs α)) (buf : List (Option α)) :
    (kernelInto c hstart nvalh obs buf).1.length = buf.length :=
  kernelInto_length c hstart nvalh obs buf

/-- the Cython entry point rejects value and stamp arrays of different lengths and touches nothing -/
theorem pyx_rejects_length_mismatch (c : Cfg α) (hstart : Int) (varsec : List Int) (varvalues hv : List (Option α))
    (h : varsec.length ≠ varvalues.length) :
    pyxVar2h c hstart varsec varvalues hv = (hv, some .lengthMismatch) := by
  simp [pyxVar2h, h]

/-- the Cython entry point: `nvalh` is the length of `hvalues`; on success the buffer holds the kernel's
`nvalh - 1` values followed by its old last cell -/
theorem pyx_is_kernel (c : Cfg α) (hstart : Int) (varsec : List Int) (varvalues hv out : List (Option α))
    (h : varsec.length = varvalues.length)
    (hk : kernel c hstart (hv.length : Int) (varsec.zip varvalues) = .ok out) :
    pyxVar2h c hstart varsec varvalues hv = (out ++ hv.drop out.length, none) := by
  simp only [pyxVar2h, h, ne_eq, not_true_eq_false, if_false]
  exact kernelInto_of_ok c hstart _ _ hv out hk (by omega)

/-- a call never changes the stamps or the values, and keeps the size of `hvalues` -/
theorem call_keeps_inputs (s : Bufs α) (c : Cfg α) (hstart : Int) :
    (step s (.call c hstart)).1.varsec = s.varsec ∧ (step s (.call c hstart)).1.varvalues = s.varvalues ∧
      (step s (.call c hstart)).1.hvalues.length = s.hvalues.length := by
  refine ⟨rfl, rfl, ?_⟩
  simp only [step, pyxVar2h]
  split
  · rfl
  · exact kernelInto_length _ _ _ _ _

/-- **Histories.** After ANY history `ops` on one set of buffers (edits of stamps and values, scribbling over the
output, earlier calls with other arguments, rejected calls), one more call answers with the kernel's values for
the arrays as they are now: `hvalues` = those values followed by the old last cell, return code 0. -/
theorem history_answer (s : Bufs α) (ops : List (Op α)) (c : Cfg α) (hstart : Int) (out : List (Option α))
    (hlen : (run s ops).1.varsec.length = (run s ops).1.varvalues.length)
    (hk : kernel c hstart ((run s ops).1.hvalues.length : Int)
      ((run s ops).1.varsec.zip (run s ops).1.varvalues) = .ok out) :
    (run s (ops ++ [.call c hstart])).1.hvalues = out ++ (run s ops).1.hvalues.drop out.length ∧
    (run s (ops ++ [.call c hstart])).1.varsec = (run s ops).1.varsec ∧
    (run s (ops ++ [.call c hstart])).1.varvalues = (run s ops).1.varvalues ∧
    (run s (ops ++ [.call c hstart])).2.getLast? = some none := by
  rw [run_append]
  simp only [run, step]
  rw [pyx_is_kernel c hstart _ _ _ out hlen hk]
  simp

end anyarith

section field
set_option linter.unusedSectionVars false
variable {α : Type} [Field α] [LinearOrder α] [IsStrictOrderedRing α]

/-- **Histories, with the property.** After any history on one set of buffers, if the arrays now hold a
non-decreasing series of at least two observations starting at or before the origin, a call succeeds and every
value it writes is what the property requires of that period *for the arrays as they are now*. -/
theorem history_call_values_as_required (c : Cfg α) (hc : CfgOK c) (s : Bufs α) (ops : List (Op α)) (hstart : Int)
    (a b : Obs α) (rest : List (Obs α))
    (hlen : (run s ops).1.varsec.length = (run s ops).1.varvalues.length)
    (hcur : (run s ops).1.varsec.zip (run s ops).1.varvalues = a :: b :: rest)
    (hs : Sorted (a :: b :: rest)) (ha : a.1 ≤ hstart) :
    ∃ out, (run s (ops ++ [.call c hstart])).1.hvalues = out ++ (run s ops).1.hvalues.drop out.length ∧
      (run s (ops ++ [.call c hstart])).2.getLast? = some none ∧
      out.length = (run s ops).1.hvalues.length - 1 ∧
      ∀ i o, out[i]? = some o → PeriodOK c (a :: b :: rest) (perS c.P hstart i) (perE c.P hstart i) o := by
  obtain ⟨out, hk, hol, hall⟩ := kernel_spec c hc hstart ((run s ops).1.hvalues.length : Int) a b rest hs ha
  rw [← hcur] at hk
  obtain ⟨h1, _, _, h4⟩ := history_answer s ops c hstart out hlen hk
  exact ⟨out, h1, h4, by omega, hall⟩

end field


section anyarith
set_option linter.unusedSectionVars false
variable {α : Type} [Add α] [Sub α] [Mul α] [Div α] [Neg α] [LT α] [DecidableLT α]
  [OfNat α 0] [OfNat α 2] [IntCast α]

/-! ### which periods are missing does not depend on rounding

`α` is ANY number system (no field law, no law relating `*` and `/` to anything): the only assumption is `ExactInt α R`
— whole seconds in the range `R` are cast, compared, added and subtracted exactly — and that the stamps, the period
boundaries, the interval lengths and `maxgapsec` lie in `R` (`InRange`).  True of IEEE doubles with
`R x := |x| ≤ 2^53`. -/

/-- **The missing pattern is decided in whole-second arithmetic.** In any such arithmetic the kernel fails with the
same guard as, or marks as missing exactly the periods marked by, the control skeleton `kernelMiss` run on the
`marks` (stamp, "the interval ending here fails the kernel's validity test") of the observations. -/
theorem missing_pattern_is_skeleton {R : Int → Prop} (hx : ExactInt α R) (c : Cfg α) (hstart nvalh : Int)
    (obs : List (Obs α)) (hr : InRange R c hstart nvalh obs) :
    Except.map (List.map Option.isNone) (kernel c hstart nvalh obs) =
      kernelMiss c.P c.rain hstart nvalh (marks c obs) :=
  kernel_pattern_eq hx c hstart nvalh obs hr.stamps hr.period hr.per

/-- **Same missing pattern as exact arithmetic.** The kernel run in `α` and the kernel run on exact rationals (on
stand-in values of the same validity class) return the same error or the same missing pattern: rounding of
`+ − × ÷` cannot move a period between "missing" and "returned". -/
theorem missing_pattern_same_as_exact {R : Int → Prop} (hx : ExactInt α R) (c : Cfg α) (hstart nvalh : Int)
    (obs : List (Obs α)) (hr : InRange R c hstart nvalh obs) :
    Except.map (List.map Option.isNone) (kernel c hstart nvalh obs) =
      Except.map (List.map Option.isNone) (kernel (cfgQ c) hstart nvalh (obs.map (toQ c))) :=
  kernel_pattern_toQ hx c hstart nvalh obs hr

/-- `kernel_total` without a field: no error, `nvalh - 1` values, in any arithmetic with exact whole seconds -/
theorem kernel_total_any_arith {R : Int → Prop} (hx : ExactInt α R) (c : Cfg α) (hP : c.P = 1800 ∨ c.P = 3600)
    (hrain : c.rain = 0 ∨ c.rain = 1) (hstart nvalh : Int) (a b : Obs α) (rest : List (Obs α))
    (hs : Sorted (a :: b :: rest)) (ha : a.1 ≤ hstart) (hr : InRange R c hstart nvalh (a :: b :: rest)) :
    ∃ out, kernel c hstart nvalh (a :: b :: rest) = .ok out ∧ out.length = (nvalh - 1).toNat := by
  have hcq : CfgOK (cfgQ c) := ⟨hP, hrain, by norm_num [cfgQ], by norm_num [cfgQ]⟩
  obtain ⟨outQ, hkQ, hlenQ⟩ := kernel_total (cfgQ c) hcq hstart nvalh (toQ c a) (toQ c b) (rest.map (toQ c))
    (sorted_map_toQ c _ hs) ha
  obtain ⟨out, hk, hpat⟩ := pattern_ok _ _ (kernel_pattern_toQ hx c hstart nvalh _ hr) outQ hkQ
  refine ⟨out, hk, ?_⟩
  have := congrArg List.length hpat
  simpa [hlenQ] using this

/-- `missing_has_cause` without a field: in any arithmetic with exact whole seconds, a period the kernel marks as
missing extends past the last observation or is overlapped or touched by an interval that fails the kernel's
validity test (evaluated in that arithmetic). -/
theorem missing_has_cause_any_arith {R : Int → Prop} (hx : ExactInt α R) (c : Cfg α) (hP : c.P = 1800 ∨ c.P = 3600)
    (hrain : c.rain = 0 ∨ c.rain = 1) (hstart nvalh : Int) (a b : Obs α) (rest : List (Obs α))
    (hs : Sorted (a :: b :: rest)) (ha : a.1 ≤ hstart) (hr : InRange R c hstart nvalh (a :: b :: rest))
    (out : List (Option α)) (hk : kernel c hstart nvalh (a :: b :: rest) = .ok out)
    (i : Nat) (hi : out[i]? = some none) :
    lastTime (a :: b :: rest) < perE c.P hstart i ∨
      ∃ p ∈ pairs (a :: b :: rest), p.1.1 < perE c.P hstart i ∧ perS c.P hstart i ≤ p.2.1 ∧
        invalid c p.1 p.2 = true := by
  have hcq : CfgOK (cfgQ c) := ⟨hP, hrain, by norm_num [cfgQ], by norm_num [cfgQ]⟩
  obtain ⟨outQ, hkQ, _⟩ := kernel_total (cfgQ c) hcq hstart nvalh (toQ c a) (toQ c b) (rest.map (toQ c))
    (sorted_map_toQ c _ hs) ha
  obtain ⟨out', hk', hpat⟩ := pattern_ok _ _ (kernel_pattern_toQ hx c hstart nvalh _ hr) outQ hkQ
  rw [hk] at hk'; cases hk'
  obtain ⟨y, hy, hyn⟩ := pattern_get out outQ hpat i none hi
  have hyq : outQ[i]? = some none := by
    cases y with
    | none => exact hy
    | some v => simp at hyn
  have := missing_has_cause (cfgQ c) hcq hstart nvalh (toQ c a) (toQ c b) (rest.map (toQ c))
    (sorted_map_toQ c _ hs) ha outQ hkQ i hyq
  have hlt := lastTime_map_toQ c (a :: b :: rest)
  have hpm := pairs_map_toQ c (a :: b :: rest)
  simp only [List.map_cons] at hlt hpm
  rw [hlt, hpm] at this
  rcases this with h | ⟨p, hp, h1, h2, h3⟩
  · exact Or.inl h
  · obtain ⟨q, hq, rfl⟩ := List.mem_map.mp hp
    have hm := mem_pairs hq
    refine Or.inr ⟨q, hq, h1, h2, ?_⟩
    rw [← invalid_toQ hx c q.1 q.2 (hr.stamps _ hm.1) (hr.stamps _ hm.2) hr.gap (hr.diff q hq)]
    exact h3

/-- `invalid_overlap_makes_missing` without a field: in any arithmetic with exact whole seconds, an interval that
fails the validity test and overlaps a period makes it missing. -/
theorem invalid_overlap_makes_missing_any_arith {R : Int → Prop} (hx : ExactInt α R) (c : Cfg α)
    (hP : c.P = 1800 ∨ c.P = 3600) (hrain : c.rain = 0 ∨ c.rain = 1) (hstart nvalh : Int) (a b : Obs α)
    (rest : List (Obs α)) (hs : Sorted (a :: b :: rest)) (ha : a.1 ≤ hstart)
    (hr : InRange R c hstart nvalh (a :: b :: rest))
    (out : List (Option α)) (hk : kernel c hstart nvalh (a :: b :: rest) = .ok out)
    (i : Nat) (o : Option α) (hi : out[i]? = some o)
    (p : Obs α × Obs α) (hp : p ∈ pairs (a :: b :: rest))
    (h1 : p.1.1 < perE c.P hstart i) (h2 : perS c.P hstart i < p.2.1) (hinv : invalid c p.1 p.2 = true) :
    o = none := by
  have hcq : CfgOK (cfgQ c) := ⟨hP, hrain, by norm_num [cfgQ], by norm_num [cfgQ]⟩
  obtain ⟨outQ, hkQ, _⟩ := kernel_total (cfgQ c) hcq hstart nvalh (toQ c a) (toQ c b) (rest.map (toQ c))
    (sorted_map_toQ c _ hs) ha
  obtain ⟨out', hk', hpat⟩ := pattern_ok _ _ (kernel_pattern_toQ hx c hstart nvalh _ hr) outQ hkQ
  rw [hk] at hk'; cases hk'
  obtain ⟨y, hy, hyn⟩ := pattern_get out outQ hpat i o hi
  have hm := mem_pairs hp
  have hpq : (toQ c p.1, toQ c p.2) ∈ pairs (toQ c a :: toQ c b :: rest.map (toQ c)) := by
    have hpm := pairs_map_toQ c (a :: b :: rest)
    simp only [List.map_cons] at hpm
    rw [hpm]
    exact List.mem_map.mpr ⟨p, hp, rfl⟩
  have hy0 : y = none := invalid_overlap_makes_missing (cfgQ c) hcq hstart nvalh (toQ c a) (toQ c b)
    (rest.map (toQ c)) (sorted_map_toQ c _ hs) ha outQ hkQ i y hy (toQ c p.1, toQ c p.2) hpq h1 h2
    (by rw [invalid_toQ hx c p.1 p.2 (hr.stamps _ hm.1) (hr.stamps _ hm.2) hr.gap (hr.diff p hp)]; exact hinv)
  subst hy0
  cases o with
  | none => rfl
  | some v => simp at hyn

end anyarith


section anyarith
set_option linter.unusedSectionVars false
variable {α : Type} [Add α] [Sub α] [Mul α] [Div α] [Neg α] [LT α] [DecidableLT α]
  [OfNat α 0] [OfNat α 2] [IntCast α]

/-- `valid_data_gives_value` without a field: if the data reach the end of the period and every interval that overlaps
or touches it passes the validity test, a value is returned — in any arithmetic with exact whole seconds. -/
theorem valid_data_gives_value_any_arith {R : Int → Prop} (hx : ExactInt α R) (c : Cfg α)
    (hP : c.P = 1800 ∨ c.P = 3600) (hrain : c.rain = 0 ∨ c.rain = 1) (hstart nvalh : Int) (a b : Obs α)
    (rest : List (Obs α)) (hs : Sorted (a :: b :: rest)) (ha : a.1 ≤ hstart)
    (hr : InRange R c hstart nvalh (a :: b :: rest))
    (out : List (Option α)) (hk : kernel c hstart nvalh (a :: b :: rest) = .ok out)
    (i : Nat) (o : Option α) (hi : out[i]? = some o)
    (hcov : perE c.P hstart i ≤ lastTime (a :: b :: rest))
    (hvalid : ∀ p ∈ pairs (a :: b :: rest), p.1.1 < perE c.P hstart i → perS c.P hstart i ≤ p.2.1 →
      invalid c p.1 p.2 = false) :
    ∃ h, o = some h := by
  cases o with
  | some h => exact ⟨h, rfl⟩
  | none =>
    exfalso
    rcases missing_has_cause_any_arith hx c hP hrain hstart nvalh a b rest hs ha hr out hk i hi with
      h | ⟨p, hp, h1, h2, h3⟩
    · omega
    · rw [hvalid p hp h1 h2] at h3; exact absurd h3 (by simp)

/-- the labelled series does not depend on the storage unit or the time zone of the index either -/
theorem series_index_independence (c : Cfg α) (u : TUnit) (l : List (Int × Int × Option α)) :
    seriesIdx c u (l.map fun x => ((x.1 - x.2.1) * u.perSec, x.2.1, x.2.2)) =
      wrapperSeries c (l.map fun x => (x.1, x.2.2)) := by
  unfold seriesIdx obsOfIndex
  congr 1
  rw [List.map_map]
  apply List.map_congr_left
  intro x _
  simp [wallSec_whole]

end anyarith

section field
set_option linter.unusedSectionVars false
variable {α : Type} [Field α] [LinearOrder α] [IsStrictOrderedRing α]

/-- `Sorted` is needed: two observations in decreasing order are rejected by the kernel's own guard as soon as
one period is computed (`t2 < t1` met during the walk) -/
theorem kernel_rejects_decreasing_pair (c : Cfg α) (hc : CfgOK c) (hstart nvalh : Int) (a b : Obs α)
    (ha : a.1 ≤ hstart) (hba : b.1 < a.1) (hn : 2 ≤ nvalh) :
    kernel c hstart nvalh [a, b] = .error .decreasing := by
  have h1 : ¬ (c.rain < 0 ∨ 1 < c.rain) := by rcases hc.rain with h | h <;> omega
  have h2 : ¬ (c.P ≠ 1800 ∧ c.P ≠ 3600) := by rcases hc.period with h | h <;> omega
  obtain ⟨k, hk⟩ : ∃ k, (nvalh - 1).toNat = k + 1 := ⟨(nvalh - 1).toNat - 1, by omega⟩
  have hP := hc.P_pos
  have hae : ((a.1 : Int) : α) < ((hstart + ((0 : Nat) : Int) * c.P + c.P : Int) : α) := by
    exact_mod_cast (by push_cast; omega : a.1 < hstart + ((0 : Nat) : Int) * c.P + c.P)
  have hlt : ((b.1 : Int) : α) < ((a.1 : Int) : α) := by exact_mod_cast hba
  simp only [kernel, h1, h2, if_false, startScan, ha, if_true, scanFrom, hk, loop, period, pEnd_eq, hae, walk, hlt]

end field

/-! ### the `maxgapsec` argument as passed (int or float) -/

/-- `np.int32(maxgapsec)` truncates a float argument; against whole-second interval lengths the truncated value
decides "longer than maxgapsec" exactly as the number that was passed -/
theorem maxgap_truncation_harmless (q : ℚ) (hq : 0 ≤ q) (g : Int) : maxgapOfArg q < g ↔ q < (g : ℚ) := by
  have hnum : 0 ≤ q.num := Rat.num_nonneg.mpr hq
  unfold maxgapOfArg
  rw [Int.tdiv_eq_ediv_of_nonneg hnum, ← Rat.floor_def', Int.floor_lt]

section field
set_option linter.unusedSectionVars false
variable {α : Type} [Field α] [LinearOrder α] [IsStrictOrderedRing α]

/-- the wrapper called with a non-integer `maxgapsec`: an interval with present, non-negative end values is invalid
exactly when it is longer than the number passed -/
theorem gap_test_with_float_maxgap (P rain : Int) (q : ℚ) (hq : 0 ≤ q) (eps : α) (heps : 0 ≤ eps) (a b : Obs α)
    (v1 v2 : α) (h1 : a.2 = some v1) (h2 : b.2 = some v2) (p1 : 0 ≤ v1) (p2 : 0 ≤ v2) :
    invalid (⟨P, rain, maxgapOfArg q, eps⟩ : Cfg α) a b = true ↔ q < ((b.1 - a.1 : Int) : ℚ) := by
  rw [invalid_iff, ← maxgap_truncation_harmless q hq]
  simp only [h1, h2, reduceCtorEq, Option.some.injEq, false_or]
  constructor
  · rintro (⟨v, rfl, hv⟩ | ⟨v, rfl, hv⟩ | h)
    · exact absurd hv (by simp only [not_lt]; linarith)
    · exact absurd hv (by simp only [not_lt]; linarith)
    · exact h
  · intro h; exact Or.inr (Or.inr h)

end field

/-! ### the hypotheses are satisfiable: one worked series (exact rationals)

hourly output from 01:00, `maxgapsec = 7200`: stamps on period boundaries, a duplicate stamp (jump 8 → 6 at
02:00), a 3-hour gap, a NaN, a negative value. -/

def exCfg : Cfg ℚ := ⟨3600, 0, 7200, 1 / 100000000⟩

def exObs : List (Obs ℚ) :=
  [(0, some 0), (1800, some 2), (3600, some 4), (7200, some 8), (7200, some 6), (10800, some 6),
   (21600, some 6), (25200, none), (28800, some 1), (32400, some (-1)), (36000, some 3), (39600, some 3),
   (43200, some 5)]

/-- `CfgOK` (all theorems): the kernel's own constants -/
example : CfgOK exCfg := ⟨Or.inr rfl, Or.inl rfl, by norm_num [exCfg], by norm_num [exCfg]⟩
example : CfgOK (⟨1800, 1, 3600, 1 / 100000000⟩ : Cfg ℚ) := ⟨Or.inl rfl, Or.inr rfl, by norm_num, by norm_num⟩
example : CfgOK (⟨3600, 0, 432000, 1 / 100000000⟩ : Cfg ℝ) := ⟨Or.inr rfl, Or.inl rfl, by norm_num, by norm_num⟩

/-- `Sorted`, at least two observations, first stamp not later than the origin -/
example : Sorted exObs := by simp [Sorted, exObs]

/-- `kernel_total`, and the outputs the other examples refer to: periods 0, 1 and 10 are returned, 2-4
are hit by the gap, 5-6 by the NaN, 7-8 by the negative value, 9 only *touches* the invalid interval
32400 → 36000 (the case the property leaves open; the code makes it missing) -/
example : kernel exCfg 3600 12 exObs =
    .ok [some 6, some 6, none, none, none, none, none, none, none, none, some 4] := by decide +kernel

/-- `value_is_period_integral` (i = 0, h = 6): the right-hand side is `6 * 3600` -/
example : ((pairs exObs).map fun p => contrib exCfg (perS 3600 3600 0) (perE 3600 3600 0) p.1 p.2).sum
    = 6 * 3600 := by decide +kernel

/-- `nonmissing_covered_and_valid` / `valid_data_gives_value` (i = 0): the period ends before the last stamp and
all touching intervals have present, non-negative values and are at most `maxgapsec` long -/
example : perE exCfg.P 3600 0 ≤ lastTime exObs ∧
    ∀ p ∈ pairs exObs, p.1.1 < perE exCfg.P 3600 0 → perS exCfg.P 3600 0 ≤ p.2.1 →
      invalid exCfg p.1 p.2 = false ∧ p.2.1 - p.1.1 ≤ exCfg.maxgap := by decide +kernel

/-- `missing_iff_invalid_overlap` (i = 2): the period is inside the data, no invalid interval ends on its
start, and an invalid interval (the gap) overlaps it -/
example : perE exCfg.P 3600 2 ≤ lastTime exObs ∧
    (∀ p ∈ pairs exObs, invalid exCfg p.1 p.2 = true → p.2.1 ≠ perS exCfg.P 3600 2) ∧
    (∃ p ∈ pairs exObs, p.1.1 < perE exCfg.P 3600 2 ∧ perS exCfg.P 3600 2 < p.2.1 ∧ invalid exCfg p.1 p.2 = true) := by
  decide +kernel

/-- the touching case (i = 9): no invalid interval overlaps the period, one ends exactly on its start
(`htouch` fails), and the code returns missing — `missing_has_cause` applies, `missing_iff_invalid_overlap` does not -/
example : (¬ ∃ p ∈ pairs exObs, p.1.1 < perE exCfg.P 3600 9 ∧ perS exCfg.P 3600 9 < p.2.1 ∧ invalid exCfg p.1 p.2 = true) ∧
    (∃ p ∈ pairs exObs, invalid exCfg p.1 p.2 = true ∧ p.2.1 = perS exCfg.P 3600 9) := by decide +kernel

/-- `gap_makes_missing` (i = 2): the interval 10800 → 21600 is longer than `maxgapsec` and overlaps the period -/
example : ((10800, some 6), (21600, some 6)) ∈ pairs exObs ∧ (10800 : Int) < perE exCfg.P 3600 2 ∧
    perS exCfg.P 3600 2 < (21600 : Int) ∧ exCfg.maxgap < 21600 - 10800 := by decide +kernel

/-- `conservation` (i = 0, m = 2): `(6 + 6) * 3600` is the integral over 3600 .. 10800 -/
example : ((List.range 2).map fun _ => (6 : ℚ)).sum * (exCfg.P : ℚ) =
    ((pairs exObs).map fun p => contrib exCfg (perS exCfg.P 3600 0) (perS exCfg.P 3600 (0 + 2)) p.1 p.2).sum := by
  decide +kernel

/-- `rainfall_value_is_prorated_total`: with the flag, period 0 gets the whole increment 8, period 1 the 6 -/
example : kernel { exCfg with rain := 1 } 3600 3 exObs = .ok [some 8, some 6] := by decide +kernel

/-- `overlaps_tile_covered` (S = 3600, E = 7200) -/
example : ((pairs exObs).map fun p => max 0 (ovHi 7200 p.2 - ovLo 3600 p.1)).sum = 7200 - 3600 := by decide +kernel

/-- `kernel_rejects_late_start` -/
example : kernel exCfg (-1) 3 exObs = .error .startBeforeData := by decide +kernel

/-- `wrapper_spec`, `wrapper_is_kernel_plus_final`, `wrapper_final_missing`, `hourly_periods_within_data`:
`nvalh = 12`, origin 3600, the kernel's 11 values and the final missing one -/
example : nvalhOf 0 (lastTime exObs) exCfg.P = 12 ∧ origin 0 = 3600 := by decide +kernel
example : wrapper exCfg exObs =
    .ok (3600, [some 6, some 6, none, none, none, none, none, none, none, none, some 4, none]) := by decide +kernel

/-- `halfhourly_periods_overhang`: the defect input of the property — constant 10 every 10 minutes from
00:00:01 to 02:00:01, half-hourly: `nvalh = 4`, period 2 = 02:00–02:30 extends past the last stamp and is missing
(before the fix: `10 * 1 s / 1800 s`) -/
example : wrapper (⟨1800, 0, 432000, 1 / 100000000⟩ : Cfg ℚ)
    [(1, some 10), (601, some 10), (1201, some 10), (1801, some 10), (2401, some 10), (3001, some 10),
     (3601, some 10), (4201, some 10), (4801, some 10), (5401, some 10), (6001, some 10), (6601, some 10),
     (7201, some 10)] = .ok (3600, [some 10, some 10, none, none]) := by decide +kernel

/-- `wrapper_empty`, `wrapper_rejects_bad_period`, `wrapper_rejects_small_maxgap` -/
example : wrapper exCfg [(10, some 1), (700, some 2)] = .ok (3600, []) := by decide +kernel
example : wrapper { exCfg with P := 900 } exObs = .error .badPeriod := by decide +kernel
example : wrapper { exCfg with maxgap := 3599 } exObs = .error .badMaxgap := by decide +kernel

/-- `index_independence`: the wall-clock stamps 00:00, 01:00, 02:00, 03:00 stored in milliseconds in a zone
9 h 30 min ahead of UTC (raw counts are the UTC instants) give the result of the naive seconds -/
example : wrapperIdx exCfg .ms [(0 - 34200000, 34200, some 0), (3600000 - 34200000, 34200, some 4),
      (7200000 - 34200000, 34200, some 8), (10800000 - 34200000, 34200, some 8)] =
    wrapper exCfg [(0, some 0), (3600, some 4), (7200, some 8), (10800, some 8)] := by decide +kernel

/-- the theorems over ℝ (`trapArea_eq_integral`, `value_is_integral_of_interpolant`,
`value_is_average_of_interpolant`, `wrapper_value_is_average_of_interpolant`): on real-valued data 0, 4, 8 at
00:00, 01:00, 02:00 the kernel returns 6 for 01:00–02:00 … -/
example : kernel (⟨3600, 0, 432000, 1 / 100000000⟩ : Cfg ℝ) 3600 2
    [(0, some 0), (3600, some 4), (7200, some 8)] = .ok [some 6] := by
  simp [kernel, startScan, scanFrom, loop, period, walk, pStart, pEnd, invalid, piece, clipLo, clipHi, addPiece]
  norm_num

/-- … and the theorem says that this 6 is the integral of the interpolant over the period, divided by 3600 -/
example : (6 : ℝ) =
    (∫ x in ((perS 3600 3600 0 : Int) : ℝ)..((perE 3600 3600 0 : Int) : ℝ),
        interp [(0, some 0), (3600, some 4), (7200, some 8)] x) / ((3600 : Int) : ℝ) :=
  value_is_average_of_interpolant (⟨3600, 0, 432000, 1 / 100000000⟩ : Cfg ℝ)
    ⟨Or.inr rfl, Or.inl rfl, by norm_num, by norm_num⟩ rfl 3600 2 _ _ _ (by simp [Sorted]) (by norm_num)
    [some 6] (by
      simp [kernel, startScan, scanFrom, loop, period, walk, pStart, pEnd, invalid, piece, clipLo, clipHi, addPiece]
      norm_num) 0 6 rfl


/-! ### examples for the returned series, the buffer, histories and the arithmetic-free missing pattern -/

/-- `series_labels_are_period_starts`, `series_missing_has_cause`: hourly labels 01:00, 02:00, … each with its value -/
example : wrapperSeries exCfg exObs =
    .ok [(3600, some 6), (7200, some 6), (10800, none), (14400, none), (18000, none), (21600, none), (25200, none),
      (28800, none), (32400, none), (36000, none), (39600, some 4), (43200, none)] := by decide +kernel

/-- half-hourly: the labels are 1800 s apart (`freqSec`), the same data -/
example : wrapperSeries { exCfg with P := 1800 } [(0, some 0), (3600, some 4), (7200, some 8), (9000, some 8)] =
    .ok [(3600, some 5), (5400, some 7), (7200, some 8), (9000, none), (10800, none)] := by decide +kernel

/-- `series_index_independence`: stored in milliseconds, 9 h 30 min ahead of UTC -/
example : seriesIdx exCfg .ms [(0 - 34200000, 34200, some 0), (3600000 - 34200000, 34200, some 4),
      (7200000 - 34200000, 34200, some 8), (10800000 - 34200000, 34200, some 8)] =
    .ok [(3600, some 6), (7200, some 8), (10800, none)] := by decide +kernel

/-- `series_value_is_average_over_its_period` on real data: the pair `(3600, 6)` -/
example : wrapperSeries (⟨3600, 0, 432000, 1 / 100000000⟩ : Cfg ℝ) [(0, some 0), (3600, some 4), (7200, some 8)] =
    .ok [(3600, some 6), (7200, none)] := by
  simp [wrapperSeries, wrapper, nvalhOf, origin, kernel, startScan, scanFrom, loop, period, walk, pStart, pEnd, invalid,
    piece, clipLo, clipHi, addPiece, labels, freqSec]
  norm_num
  rfl

/-- `kernel_writes_prefix_only`, `kernel_final_period_untouched`, `kernel_stale_buffer_irrelevant`: `nvalh = 3`
on a buffer of stale 99s — two values written, the third cell (the final period) and the fourth keep their 99 -/
example : kernelInto exCfg 3600 3 exObs [some 99, some 99, some 99, some 99] =
    ([some 6, some 6, some 99, some 99], none) := by decide +kernel

/-- `kernel_guard_error_leaves_buffer`: origin before the first stamp -/
example : kernelInto exCfg (-1) 3 exObs [some 99, none, some 7] = ([some 99, none, some 7], some .startBeforeData) := by
  decide +kernel

/-- `kernel_return_code` on the `decreasing` return in the middle of the loop: period 0 written, period 1 set to NaN -/
example : kernelInto exCfg 3600 4 [(0, some 0), (3600, some 4), (7200, some 8), (7100, some 8), (20000, some 1)]
    [some 99, some 99, some 99, some 99] = ([some 6, none, some 99, some 99], some .decreasing) := by decide +kernel

/-- `pyx_rejects_length_mismatch`, `pyx_is_kernel` -/
example : pyxVar2h exCfg 3600 [0, 3600, 7200] [some 0, some 4] [some 99, some 99] =
    ([some 99, some 99], some .lengthMismatch) := by decide +kernel
example : pyxVar2h exCfg 3600 [0, 3600, 7200, 10800] [some 0, some 4, some 8, some 8] [some 99, some 99, some 99] =
    ([some 6, some 8, some 99], none) := by decide +kernel

/-- `history_answer`, `history_call_values_as_required`, `call_keeps_inputs`: call, edit a value, scribble over the
output, a rejected call (origin before the data), another call — the last answer is the kernel's for the edited
arrays, whatever happened before -/
example : run (⟨[0, 3600, 7200, 10800], [some 0, some 4, some 8, some 8], [some 99, some 99, some 99]⟩ : Bufs ℚ)
      [.call exCfg 3600, .setVal 1 (some 6), .scribble (some 1), .call exCfg (-5), .call exCfg 3600] =
    (⟨[0, 3600, 7200, 10800], [some 0, some 6, some 8, some 8], [some 7, some 8, some 1]⟩,
      [none, none, none, some .startBeforeData, none]) := by decide +kernel

/-- `kernel_rejects_decreasing_pair`; and a decreasing pair that the walk never meets is NOT rejected (which is why
`Sorted` is a hypothesis of the theorems and not a consequence of the kernel's guard) -/
example : kernel exCfg 3600 2 [(100, some 1), (50, some 1)] = .error .decreasing := by decide +kernel
example : kernel exCfg 3600 2 [(0, some 1), (100, some 1), (50, some 1), (3000, some 1), (9000, some 1)] =
    .ok [some 1] := by decide +kernel

/-- `ExactInt`: exact rationals, and an arithmetic that rounds every operation to multiples of 1/8 -/
example : ExactInt ℚ (fun _ => True) := exactInt_rat
example : ExactInt Rnd8 (fun _ => True) := Rnd8.exactInt

/-- the worked series in the rounded arithmetic `Rnd8` (two more observations so that the last periods have values) -/
def exObs8 : List (Obs Rnd8) :=
  [(0, some ⟨0⟩), (1800, some ⟨2⟩), (3600, some ⟨4⟩), (7200, some ⟨8⟩), (7200, some ⟨6⟩), (10800, some ⟨6⟩),
   (21600, some ⟨6⟩), (25200, none), (28800, some ⟨1⟩), (32400, some ⟨-1⟩), (36000, some ⟨3⟩), (39600, some ⟨3⟩),
   (43200, some ⟨5⟩), (45000, some ⟨7⟩), (46800, some ⟨4⟩)]
def exCfg8 : Cfg Rnd8 := ⟨3600, 0, 7200, ⟨1 / 100000000⟩⟩

/-- `InRange` with the range of IEEE doubles, `|x| ≤ 2^53` -/
example : InRange (fun x => -9007199254740992 ≤ x ∧ x ≤ 9007199254740992) exCfg8 3600 13 exObs8 where
  stamps := by decide +kernel
  diff := by decide +kernel
  period := by decide +kernel
  gap := by decide +kernel
  per := by
    intro k hk
    have : (exCfg8.P : Int) = 3600 := rfl
    rw [this]
    constructor <;> constructor <;> omega

/-- rounding changes the VALUES: `Rnd8` returns 4, 6, …, 3, −201/4 where exact arithmetic returns 6, 6, …, 4, 23/4 … -/
example : (kernel exCfg8 3600 13 exObs8).toOption.map (List.map (Option.map Rnd8.val)) =
    some [some 4, some 6, none, none, none, none, none, none, none, none, some 3, some (-201 / 4)] := by decide +kernel
example : kernel (cfgQ exCfg8) 3600 13 (exObs8.map fun x => (x.1, x.2.map Rnd8.val)) =
    .ok [some 6, some 6, none, none, none, none, none, none, none, none, some 4, some (23 / 4)] := by decide +kernel

/-- … but not the missing pattern (`missing_pattern_is_skeleton`, `missing_pattern_same_as_exact`,
`missing_has_cause_any_arith`, `invalid_overlap_makes_missing_any_arith`, `kernel_total_any_arith`): the kernel in
`Rnd8`, the control skeleton on the marks, and the exact kernel on the stand-in series agree -/
example : Except.map (List.map Option.isNone) (kernel exCfg8 3600 13 exObs8) =
    .ok [false, false, true, true, true, true, true, true, true, true, false, false] := by decide +kernel
example : kernelMiss exCfg8.P exCfg8.rain 3600 13 (marks exCfg8 exObs8) =
    .ok [false, false, true, true, true, true, true, true, true, true, false, false] := by decide +kernel
example : Except.map (List.map Option.isNone) (kernel (cfgQ exCfg8) 3600 13 (exObs8.map (toQ exCfg8))) =
    .ok [false, false, true, true, true, true, true, true, true, true, false, false] := by decide +kernel

/-- `maxgap_truncation_harmless`, `gap_test_with_float_maxgap`: `maxgapsec = 5400.9` acts as 5400, 36000.5 as 36000 -/
example : maxgapOfArg (54009 / 10) = 5400 := by decide +kernel
example : wrapperArg 3600 0 (72001 / 2) (1 / 100000000 : ℚ) exObs = wrapper { exCfg with maxgap := 36000 } exObs := by
  decide +kernel

end HydroVerif.C14
