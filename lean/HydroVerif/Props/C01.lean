/-
C01 — property theorems (only). Models: `HydroVerif/Model/C01.lean` (formulas), `HydroVerif/Model/C01Obj.lean` (the
transform object); real instance and helper lemmas: `HydroVerif/Lemmas/C01Real.lean`, `HydroVerif/Lemmas/C01Sliver.lean`,
`HydroVerif/Lemmas/C01Obj.lean`; rounded instance: `HydroVerif/Lemmas/C01Rnd.lean`.

Every statement is over ℝ (section `Rounded`: over `Rd M`, the rounded instance), for every parameter vector inside the declared bounds, every branch of the formulas, arrays
of any length and any history of the object (`Option.bind` threads the NaN of `np.where(cond, v, nan)`).
Every model function named below is executed by `Drivers/C01.lean` and compared with the real code.

Clause → theorems → what remains outside

* every transform of the catalogue (13 classes) x every admissible parameter/constant setting, incl. non-default mininu / minilam / base: backward(forward(x)) = x for all x in the domain
    - Identity.backward_forward
    - Logit.backward_forward
    - Log.backward_forward + Log.bf_ne_zero
    - BoxCox2.backward_forward
    - BoxCox1lam.backward_forward
    - BoxCox1nu.backward_forward
    - BoxCox2sym.backward_forward (nu > 0) + backward_forward_nu_zero
    - YeoJohnson.backward_forward_near (all x, sliver included, 1e-18) + backward_forward / _of_side / _of_nonpos / _lam_one (exact)
    - LogSinh.backward_forward
    - Reciprocal.backward_forward (every x > -nu; repaired guard y < 0) + forward_neg + backward_nan_of_nonneg
    - Sinh.backward_forward
    - Manly.backward_forward
    - Softmax.backward_forward / backwardM_forwardM (rows and 2-D arrays of any size)
    outside: BoxCox2sym with nu = 0 and lam <= 1e-10, or nu < 0: BC(0) does not exist, the transform is undefined (no domain).

* forward(backward(y)) = y for all y of the image
    - Identity/Logit/Log/BoxCox2/BoxCox1lam/BoxCox1nu/Sinh/Manly/Reciprocal .forward_backward
    - BoxCox2sym.forward_backward + forward_backward_nu_zero
    - YeoJohnson.forward_backward_near (+ forward_backward, forward_backward_of_nonpos exact)
    - LogSinh.forward_backward + LogSinh.codom_iff + forward_mem_codom
    - Softmax.forward_backward / forwardM_backwardM + Softmax.codom_iff + fwdRow_mem_codom
    - image/domain closure: Logit.backward_mem_dom, BoxCox2.forward_mem_codom / backward_mem_dom, Manly.forward_mem_codom
    outside: nothing (image sets are explicit predicates: lam*y+1 > 0, 1+lam*y > 0, y < 0, sum exp(y)/(1+sum) <= 1-EPS, b*EPS < b*y + log(1+sqrt(1+exp(-2by))))

* limiting parameter values where the formula changes branch: exponent 0 of the power family and of Manly, exponents 0 and 2 of Yeo-Johnson, lam either side of the 1e-10 switch, any logarithm base
    - the BoxCox2 / Manly theorems case-split on lamBig (abs(lam) > EPS) and hold on both branches; Manly.lam_zero
    - YeoJohnson theorems case-split on isclose0 / isclose2 x sign of w - EPS (four formulas)
    - Log.bf_ne_zero: every base > 0, != 1, or none
    - examples: lamBig 0 / 1e-10 / 1.1e-10 / 0.5, isclose0 / isclose2 at 0, 1e-7, 2, 2.0001
    outside: nothing over the reals; in floating point 1e-10 < |lam| <= 1e-9 loses up to ~4e-6 (known finding */power/lam_just_above_switch)

* objects: parameters / constants re-assigned between calls by any route, refused assignments (fault paths), reset, constants unset, any call order (histories)
    - BoxCox1lam/BoxCox1nu.state_forward_eq, state_backward_eq, state_backward_forward, state_array_backward_forward (from ANY inner state), state_unset / state_array_unset
    - BoxCox2sym.state_forward_eq / state_backward_eq / state_array_backward_forward
    - LogSinh/Manly.state_set, state_unset, state_array_backward_forward, state_array_unset
    - object model (Model/C01Obj: mkObj, TObj.step, TObj.run): mkObj_inv (every accepting constructor establishes the invariant), TObj.step_inv / TObj.run_inv (ANY operation list keeps: one value per slot, parameters numbers inside their declared bounds, constants inside bounds or unset; class, bounds, NaN policy, mininu, base never change), TObj.run_append
    - TObj.step_refused_unchanged: a refused assignment (NaN into a parameter by attribute / item / vector item, a vector holding a NaN or of the wrong length, an unknown key) or a call that raises returns the object unchanged; VSpec.setValues_rejects / VSpec.setName_rejects say what is refused; mkObj_rejects / mkObj_log_rejects the constructor validation
    - setAt_get / TObj.getItem_setItem (an accepted t[k] = x reads back as x clipped to the bounds of k, every other key unchanged), TObj.reset_done, TObj.call_frame (a call never changes a parameter or constant)
    - X.history for X = Logit, Log, BoxCox2, BoxCox1lam, BoxCox1nu, BoxCox2sym, YeoJohnson, LogSinh, Reciprocal, Sinh, Manly: after ANY history from the constructor the parameters satisfy X.admissible / the declared bounds and a call returns the closed formula at the CURRENT values (for the delegating classes: the inner assignment is accepted and stores [nu, lam] unclipped, whatever the inner object held)
    - Manly / Sinh / LogSinh / BoxCox2 / BoxCox1lam .history_roundtrip: forward then backward ON THE OBJECT returns the array after any history, with no hypothesis on the parameters
    outside: +-inf or non-numeric values assigned to a parameter; writes into the live array returned by params.values (aliasing by design); the hitbounds flags / clone / from_dict of Vector (C12); attributes such as t.mininu or t.BC overwritten by the caller

* all float64 arrays (1-D; 2-D rows for Softmax): the method acts elementwise / row-wise
    - onArray_roundtrip (arrays of any length)
    - the state_array_* theorems
    - Softmax.backwardM_forwardM / forwardM_backwardM (any number of rows and columns)
    - rejections: Softmax.forward_rejects, forwardM_rejects, forwardND_rejects (ndim > 2), forwardND_le_two
    outside: dutils.cast for non-float64 inputs (python scalars, 0-d, float32, int arrays) - outside the quantifier; numpy summation order for rows longer than 7

* get_transform(name, **params) gives the instance with those settings
    - route_ctor, route_param, route_const, route_ignored (every catalogue class, every keyword)
    - lookupClass_known, lookupClass_unknown
    - getTransform_eq_run / applyKw_eq_run: get_transform(name, **kw) = the constructor followed by the attribute assignments t.k = v in keyword order (ignored keywords ignored by both), and the result satisfies the invariant
    - Cls.names_eq_catalogue, mkObj_names: the object model and the keyword catalogue name the same classes, parameters and constants
    outside: nothing (the assignments are the object model's; compared with the real get_transform on `getkw` requests)

* backward_censored (observe_at)
    - backwardCensored_ge
    - backwardCensored_eq
    outside: not part of the property text; modelled and compared only

* to a relative accuracy of 1e-6 wherever the mapping is well conditioned (float64)
    - (exact-arithmetic part) all of the above
    - BoxCox2.float_roundtrip_statement (stated, not provable: Lean Float operations are opaque)
    - rounded instance Rd M (Lemmas/C01Rnd: every operation followed by an arbitrary monotone rounding with rnd 0 = 0, rnd 1 = 1, rnd(-x) = -rnd x; any exp >= 0) - exact statements about the floating-point code: Softmax.rounded_backward_range (entries of backward in [0, 1]), Softmax.rounded_forward_backward_not_negative (forward never refuses a backward image for a negative entry), BoxCox2sym.rounded_zero / rounded_odd (0 -> 0 and f(-x) = -f(x) exactly, both directions), backwardCensored_ge_rounded
    outside: IEEE rounding of the values themselves and numpy's transcendental functions: carried by the correspondence (Float instance of the model = numpy within the propagated 1e-13 bound, every element) and by the 1e-6 oracle inside the documented conditioning regions; the rounded statements are also checked on the real code

* every admissible setting of its parameters and constants (hypotheses of the theorems vs. the code's own guards)
    - X.admissible is discharged for every reachable object by X.history (Vector clipping + NaN refusal + constructor validation)
    - Log.history: an accepted base is > 0; Log.base_one_counterexample: base = 1 (accepted by the code, log base = 0) is not invertible - the hypothesis Log.bf p != 0 is necessary
    - BoxCox2sym.nu_zero_counterexample: nu = 0 on the logarithm branch is not invertible - the hypothesis nu > 0 (or lam > EPS) is necessary
    outside: the counterexamples are in the model's arithmetic (x/0 = 0, log 0 = 0); the real code returns +-inf / NaN there (probed by the history stream with base = 1 and by BoxCox2sym configurations with nu = 0, not judged)

-/
import HydroVerif.Lemmas.C01Real
import HydroVerif.Lemmas.C01Sliver
import HydroVerif.Lemmas.C01Obj
import HydroVerif.Lemmas.C01Rnd

namespace HydroVerif.C01
open Real

/-! ### Identity -/

theorem Identity.backward_forward (p : Identity.Params ℝ) (x : ℝ) :
    (Identity.forward p x).bind (Identity.backward p) = some x := rfl

theorem Identity.forward_backward (p : Identity.Params ℝ) (y : ℝ) :
    (Identity.backward p y).bind (Identity.forward p) = some y := rfl

/-! ### Logit -/

/-- for every `lower`, `logdelta` and every `x` strictly between the bounds -/
theorem Logit.backward_forward (p : Logit.Params ℝ) (x : ℝ) (hx : Logit.dom p x) :
    (Logit.forward p x).bind (Logit.backward p) = some x := by
  obtain ⟨h1, h2⟩ := hx
  have hd : Logit.upper p - p.lower = Real.exp p.logdelta := by simp [Logit.upper]
  have hup : Logit.upper p = p.lower + Real.exp p.logdelta := rfl
  simp only [Logit.forward, Logit.backward, Option.bind_some, Logit.fwd, Logit.bwd, hd,
    transc_log, transc_exp]
  have hdpos : 0 < Real.exp p.logdelta := Real.exp_pos _
  generalize Real.exp p.logdelta = d at *
  have hv0 : 0 < (x - p.lower) / d := div_pos (by linarith) hdpos
  have hv1 : (x - p.lower) / d < 1 := by rw [div_lt_one hdpos]; linarith
  have hxv : x = (x - p.lower) / d * d + p.lower := by field_simp; ring
  generalize (x - p.lower) / d = v at *
  have h1v : 0 < 1 - v := by linarith
  have e1 : 1 / (1 - v) - 1 = v / (1 - v) := by field_simp; ring
  rw [e1, Real.exp_log (div_pos hv0 h1v)]
  have e2 : 1 - 1 / (1 + v / (1 - v)) = v := by field_simp; ring
  rw [e2, ← hxv]

/-- for every real `y` (the image of the open interval is all of ℝ) -/
theorem Logit.forward_backward (p : Logit.Params ℝ) (y : ℝ) :
    (Logit.backward p y).bind (Logit.forward p) = some y := by
  have hd : Logit.upper p - p.lower = Real.exp p.logdelta := by simp [Logit.upper]
  simp only [Logit.forward, Logit.backward, Option.bind_some, Logit.fwd, Logit.bwd, hd,
    transc_log, transc_exp]
  have hdpos : 0 < Real.exp p.logdelta := Real.exp_pos _
  generalize Real.exp p.logdelta = d at *
  have hE : 0 < Real.exp y := Real.exp_pos _
  have e1 : ((1 - 1 / (1 + Real.exp y)) * d + p.lower - p.lower) / d = 1 - 1 / (1 + Real.exp y) := by
    field_simp; ring
  rw [e1]
  have e2 : 1 / (1 - (1 - 1 / (1 + Real.exp y))) - 1 = Real.exp y := by
    field_simp; ring
  rw [e2, Real.log_exp]

/-- the backward image lies strictly inside the interval, for every `y` -/
theorem Logit.backward_mem_dom (p : Logit.Params ℝ) (y : ℝ) : Logit.dom p (Logit.bwd p y) := by
  have hup : Logit.upper p = p.lower + Real.exp p.logdelta := rfl
  simp only [Logit.dom, Logit.bwd, transc_exp, hup]
  have hdpos : 0 < Real.exp p.logdelta := Real.exp_pos _
  generalize Real.exp p.logdelta = d at *
  have hE : 0 < Real.exp y := Real.exp_pos _
  have hb0 : 0 < 1 - 1 / (1 + Real.exp y) := by
    rw [sub_pos, div_lt_one (by linarith)]; linarith
  have hb1 : 1 - 1 / (1 + Real.exp y) < 1 := by
    have : 0 < 1 / (1 + Real.exp y) := by positivity
    linarith
  constructor
  · nlinarith [mul_pos hb0 hdpos]
  · nlinarith [mul_pos hb0 hdpos]

/-! ### Log -/

/-- any base with `log base ≠ 0` (i.e. `base ≠ 1`, `base > 0`), or no base -/
theorem Log.backward_forward (p : Log.Params ℝ) (x : ℝ) (hb : Log.bf p ≠ 0) (hx : Log.dom p x) :
    (Log.forward p x).bind (Log.backward p) = some x := by
  simp only [Log.forward, Log.backward, Option.bind_some, Log.fwd, Log.bwd, transc_log, transc_exp]
  rw [mul_div_cancel₀ _ hb, Real.exp_log hx]
  congr 1; ring

theorem Log.forward_backward (p : Log.Params ℝ) (y : ℝ) (hb : Log.bf p ≠ 0) :
    (Log.backward p y).bind (Log.forward p) = some y := by
  simp only [Log.forward, Log.backward, Option.bind_some, Log.fwd, Log.bwd, transc_log, transc_exp]
  rw [sub_add_cancel, Real.log_exp, mul_div_cancel_left₀ _ hb]

/-- `basefactor ≠ 0` for every admissible base: natural logarithm, or a positive base other than 1 -/
theorem Log.bf_ne_zero (p : Log.Params ℝ) (h : ∀ b, p.base = some b → 0 < b ∧ b ≠ 1) : Log.bf p ≠ 0 := by
  unfold Log.bf
  cases hb : p.base with
  | none => simp
  | some b =>
    obtain ⟨h0, h1⟩ := h b hb
    simp only [transc_log]
    exact Real.log_ne_zero_of_pos_of_ne_one h0 h1

/-! ### BoxCox2 — both branches (`abs(lam) > EPS`: power; otherwise: logarithm) -/

/-- every `nu`, every `lam` (including `lam = 0` and either side of the 1e-10 switch), every `x` with `x + nu > 0` -/
theorem BoxCox2.backward_forward (p : BoxCox2.Params ℝ) (x : ℝ) (hx : BoxCox2.dom p x) :
    (BoxCox2.forward p x).bind (BoxCox2.backward p) = some x := by
  simp only [BoxCox2.forward, BoxCox2.backward, Option.bind_some, BoxCox2.bwd_fwd p hx]

theorem BoxCox2.forward_backward (p : BoxCox2.Params ℝ) (y : ℝ) (hy : BoxCox2.codom p y) :
    (BoxCox2.backward p y).bind (BoxCox2.forward p) = some y := by
  simp only [BoxCox2.forward, BoxCox2.backward, Option.bind_some, BoxCox2.fwd_bwd p hy]

/-- the image of the domain is inside `codom`, and the backward image of `codom` is inside the domain
for `lam ≠ 0` branch values: the two theorems above compose -/
theorem BoxCox2.forward_mem_codom (p : BoxCox2.Params ℝ) (x : ℝ) (hx : BoxCox2.dom p x) :
    BoxCox2.codom p (BoxCox2.fwd p x) := BoxCox2.codom_fwd p hx

theorem BoxCox2.backward_mem_dom (p : BoxCox2.Params ℝ) (y : ℝ) (hy : BoxCox2.codom p y) :
    BoxCox2.dom p (BoxCox2.bwd p y) := by
  unfold BoxCox2.dom BoxCox2.bwd
  unfold BoxCox2.codom at hy
  cases h : lamBig p.lam with
  | true =>
    simp only [if_true, transc_pow, sub_add_cancel]
    exact Real.rpow_pos_of_pos (hy h) _
  | false =>
    simp only [Bool.false_eq_true, if_false, transc_exp, sub_add_cancel]
    exact Real.exp_pos _

/-! ### BoxCox1lam / BoxCox1nu — delegation to an inner BoxCox2 that is re-synchronised on every call -/

/-- whatever the inner object held before the call (any history), a call first copies the current
`nu`, `lam` into it: the result is BoxCox2's at the current parameters -/
theorem BoxCox1lam.state_forward_eq (s : BoxCox1lam.State ℝ) (nu x : ℝ) (hnu : s.nu = some nu) :
    BoxCox1lam.State.forward s x =
      .ok (⟨s.lam, some nu, ⟨nu, s.lam, s.bc.mininu⟩⟩, BoxCox1lam.forward ⟨s.lam, nu, s.bc.mininu⟩ x) := by
  cases s with
  | mk lam nu' bc => cases hnu; rfl

theorem BoxCox1lam.state_backward_eq (s : BoxCox1lam.State ℝ) (nu y : ℝ) (hnu : s.nu = some nu) :
    BoxCox1lam.State.backward s y =
      .ok (⟨s.lam, some nu, ⟨nu, s.lam, s.bc.mininu⟩⟩, BoxCox1lam.backward ⟨s.lam, nu, s.bc.mininu⟩ y) := by
  cases s with
  | mk lam nu' bc => cases hnu; rfl

/-- an unset constant is an error, not a value -/
theorem BoxCox1lam.state_unset (s : BoxCox1lam.State ℝ) (x : ℝ) (hnu : s.nu = none) :
    BoxCox1lam.State.forward s x = .error .nuUnset ∧ BoxCox1lam.State.backward s x = .error .nuUnset := by
  cases s with
  | mk lam nu' bc => cases hnu; exact ⟨rfl, rfl⟩

theorem BoxCox1lam.backward_forward (p : BoxCox1lam.Params ℝ) (x : ℝ) (hx : 0 < x + p.nu) :
    (BoxCox1lam.forward p x).bind (BoxCox1lam.backward p) = some x :=
  BoxCox2.backward_forward (BoxCox1lam.toBC p) x hx

theorem BoxCox1lam.forward_backward (p : BoxCox1lam.Params ℝ) (y : ℝ)
    (hy : BoxCox2.codom (BoxCox1lam.toBC p) y) :
    (BoxCox1lam.backward p y).bind (BoxCox1lam.forward p) = some y :=
  BoxCox2.forward_backward (BoxCox1lam.toBC p) y hy

/-- round trip on the object, from ANY inner state (i.e. after any history of calls and parameter changes) -/
theorem BoxCox1lam.state_backward_forward (s : BoxCox1lam.State ℝ) (nu x : ℝ) (hnu : s.nu = some nu)
    (hx : 0 < x + nu) :
    ∃ s1 y s2, BoxCox1lam.State.forward s x = .ok (s1, some y) ∧
      BoxCox1lam.State.backward s1 y = .ok (s2, some x) := by
  refine ⟨_, _, ⟨s.lam, some nu, ⟨nu, s.lam, s.bc.mininu⟩⟩, BoxCox1lam.state_forward_eq s nu x hnu, ?_⟩
  rw [BoxCox1lam.state_backward_eq _ nu _ rfl]
  simp only [BoxCox1lam.backward, BoxCox1lam.toBC, BoxCox2.backward]
  rw [BoxCox2.bwd_fwd _ hx]

theorem BoxCox1nu.state_forward_eq (s : BoxCox1nu.State ℝ) (lam x : ℝ) (hlam : s.lam = some lam) :
    BoxCox1nu.State.forward s x =
      .ok (⟨s.nu, some lam, ⟨s.nu, lam, s.bc.mininu⟩⟩, BoxCox1nu.forward ⟨s.nu, lam, s.bc.mininu⟩ x) := by
  cases s with
  | mk nu lam' bc => cases hlam; rfl

theorem BoxCox1nu.state_backward_eq (s : BoxCox1nu.State ℝ) (lam y : ℝ) (hlam : s.lam = some lam) :
    BoxCox1nu.State.backward s y =
      .ok (⟨s.nu, some lam, ⟨s.nu, lam, s.bc.mininu⟩⟩, BoxCox1nu.backward ⟨s.nu, lam, s.bc.mininu⟩ y) := by
  cases s with
  | mk nu lam' bc => cases hlam; rfl

theorem BoxCox1nu.state_unset (s : BoxCox1nu.State ℝ) (x : ℝ) (hlam : s.lam = none) :
    BoxCox1nu.State.forward s x = .error .lamUnset ∧ BoxCox1nu.State.backward s x = .error .lamUnset := by
  cases s with
  | mk nu lam' bc => cases hlam; exact ⟨rfl, rfl⟩

theorem BoxCox1nu.backward_forward (p : BoxCox1nu.Params ℝ) (x : ℝ) (hx : 0 < x + p.nu) :
    (BoxCox1nu.forward p x).bind (BoxCox1nu.backward p) = some x :=
  BoxCox2.backward_forward (BoxCox1nu.toBC p) x hx

theorem BoxCox1nu.forward_backward (p : BoxCox1nu.Params ℝ) (y : ℝ)
    (hy : BoxCox2.codom (BoxCox1nu.toBC p) y) :
    (BoxCox1nu.backward p y).bind (BoxCox1nu.forward p) = some y :=
  BoxCox2.forward_backward (BoxCox1nu.toBC p) y hy

theorem BoxCox1nu.state_backward_forward (s : BoxCox1nu.State ℝ) (lam x : ℝ) (hlam : s.lam = some lam)
    (hx : 0 < x + s.nu) :
    ∃ s1 y s2, BoxCox1nu.State.forward s x = .ok (s1, some y) ∧
      BoxCox1nu.State.backward s1 y = .ok (s2, some x) := by
  refine ⟨_, _, ⟨s.nu, some lam, ⟨s.nu, lam, s.bc.mininu⟩⟩, BoxCox1nu.state_forward_eq s lam x hlam, ?_⟩
  rw [BoxCox1nu.state_backward_eq _ lam _ rfl]
  simp only [BoxCox1nu.backward, BoxCox1nu.toBC, BoxCox2.backward]
  rw [BoxCox2.bwd_fwd _ hx]

/-! ### BoxCox2sym — odd extension of `BC(|x|) - BC(0)`; needs `nu > 0` for `BC(0)` to exist -/

theorem BoxCox2sym.backward_forward (p : BoxCox2sym.Params ℝ) (x : ℝ) (hnu : 0 < p.nu) :
    (BoxCox2sym.forward p x).bind (BoxCox2sym.backward p) = some x := by
  simp only [BoxCox2sym.forward, BoxCox2sym.backward, Option.bind_some, BoxCox2sym.fwd, BoxCox2sym.bwd,
    BoxCox2sym.y0, absv_eq]
  have h0 : 0 < (0 : ℝ) + (BoxCox2sym.toBC p).nu := by simpa [BoxCox2sym.toBC] using hnu
  congr 1
  rcases lt_trichotomy x 0 with hx | hx | hx
  · have hlt := BoxCox2.fwd_lt (BoxCox2sym.toBC p) h0 (neg_pos.mpr hx)
    rw [sign_neg hx, abs_of_neg hx]
    have hy : (-1 : ℝ) * (BoxCox2.fwd (BoxCox2sym.toBC p) (-x) - BoxCox2.fwd (BoxCox2sym.toBC p) 0) < 0 := by
      linarith
    rw [sign_neg hy, abs_of_neg hy]
    have e : -(-1 * (BoxCox2.fwd (BoxCox2sym.toBC p) (-x) - BoxCox2.fwd (BoxCox2sym.toBC p) 0))
        + BoxCox2.fwd (BoxCox2sym.toBC p) 0 = BoxCox2.fwd (BoxCox2sym.toBC p) (-x) := by ring
    rw [e, BoxCox2.bwd_fwd _ (by simp only [BoxCox2sym.toBC] at h0 ⊢; linarith)]
    ring
  · subst hx
    simp [sign_zero]
  · have hlt := BoxCox2.fwd_lt (BoxCox2sym.toBC p) h0 hx
    rw [sign_pos hx, abs_of_pos hx]
    have hy : 0 < (1 : ℝ) * (BoxCox2.fwd (BoxCox2sym.toBC p) x - BoxCox2.fwd (BoxCox2sym.toBC p) 0) := by
      linarith
    rw [sign_pos hy, abs_of_pos hy]
    have e : 1 * (BoxCox2.fwd (BoxCox2sym.toBC p) x - BoxCox2.fwd (BoxCox2sym.toBC p) 0)
        + BoxCox2.fwd (BoxCox2sym.toBC p) 0 = BoxCox2.fwd (BoxCox2sym.toBC p) x := by ring
    rw [e, BoxCox2.bwd_fwd _ (by simp only [BoxCox2sym.toBC] at h0 ⊢; linarith)]
    ring

theorem BoxCox2sym.forward_backward (p : BoxCox2sym.Params ℝ) (y : ℝ) (hnu : 0 < p.nu)
    (hy : BoxCox2sym.codom p y) :
    (BoxCox2sym.backward p y).bind (BoxCox2sym.forward p) = some y := by
  unfold BoxCox2sym.codom at hy
  simp only [BoxCox2sym.forward, BoxCox2sym.backward, Option.bind_some, BoxCox2sym.fwd, BoxCox2sym.bwd,
    BoxCox2sym.y0, absv_eq] at hy ⊢
  have h0 : 0 < (0 : ℝ) + (BoxCox2sym.toBC p).nu := by simpa [BoxCox2sym.toBC] using hnu
  have hc0 := BoxCox2.codom_fwd (BoxCox2sym.toBC p) h0
  have hg0 := BoxCox2.bwd_fwd (BoxCox2sym.toBC p) h0
  congr 1
  rcases lt_trichotomy y 0 with hy0 | hy0 | hy0
  · rw [abs_of_neg hy0] at hy
    have hlt := BoxCox2.bwd_lt (BoxCox2sym.toBC p) hc0 hy (by linarith)
    rw [hg0] at hlt
    rw [sign_neg hy0, abs_of_neg hy0]
    have hx : (-1 : ℝ) * BoxCox2.bwd (BoxCox2sym.toBC p) (-y + BoxCox2.fwd (BoxCox2sym.toBC p) 0) < 0 := by
      linarith
    rw [sign_neg hx, abs_of_neg hx]
    have e : -(-1 * BoxCox2.bwd (BoxCox2sym.toBC p) (-y + BoxCox2.fwd (BoxCox2sym.toBC p) 0))
        = BoxCox2.bwd (BoxCox2sym.toBC p) (-y + BoxCox2.fwd (BoxCox2sym.toBC p) 0) := by ring
    rw [e, BoxCox2.fwd_bwd _ hy]
    ring
  · subst hy0
    simp [sign_zero]
  · rw [abs_of_pos hy0] at hy
    have hlt := BoxCox2.bwd_lt (BoxCox2sym.toBC p) hc0 hy (by linarith)
    rw [hg0] at hlt
    rw [sign_pos hy0, abs_of_pos hy0]
    have hx : 0 < (1 : ℝ) * BoxCox2.bwd (BoxCox2sym.toBC p) (y + BoxCox2.fwd (BoxCox2sym.toBC p) 0) := by
      linarith
    rw [sign_pos hx, abs_of_pos hx]
    simp only [one_mul]
    rw [BoxCox2.fwd_bwd _ hy]
    ring

/-- `nu = 0` (reachable with the constructor option `mininu = 0`): `BC(0)` still exists on the power branch with
`lam > 0` (`0^lam = 0`), and the round trip holds for every `x` -/
theorem BoxCox2sym.backward_forward_nu_zero (p : BoxCox2sym.Params ℝ) (x : ℝ) (hnu : p.nu = 0)
    (hl : lamBig p.lam = true) (hpos : 0 < p.lam) :
    (BoxCox2sym.forward p x).bind (BoxCox2sym.backward p) = some x := by
  simp only [BoxCox2sym.forward, BoxCox2sym.backward, Option.bind_some, BoxCox2sym.fwd, BoxCox2sym.bwd,
    BoxCox2sym.y0, absv_eq]
  have hne := lamBig_true hl
  have hf0 : BoxCox2.fwd (BoxCox2sym.toBC p) 0 = -1 / p.lam := by
    simp only [BoxCox2.fwd, BoxCox2sym.toBC, hl, if_true, transc_pow, hnu, add_zero, Real.zero_rpow hne]
    ring
  have hf : ∀ t : ℝ, 0 < t → BoxCox2.fwd (BoxCox2sym.toBC p) t - BoxCox2.fwd (BoxCox2sym.toBC p) 0 = t ^ p.lam / p.lam := by
    intro t _
    rw [hf0]
    simp only [BoxCox2.fwd, BoxCox2sym.toBC, hl, if_true, transc_pow, hnu, add_zero]
    field_simp; ring
  have hfpos : ∀ t : ℝ, 0 < t → 0 < BoxCox2.fwd (BoxCox2sym.toBC p) t - BoxCox2.fwd (BoxCox2sym.toBC p) 0 := by
    intro t ht; rw [hf t ht]; exact div_pos (Real.rpow_pos_of_pos ht _) hpos
  congr 1
  rcases lt_trichotomy x 0 with hx | hx | hx
  · have hp := hfpos (-x) (neg_pos.mpr hx)
    rw [sign_neg hx, abs_of_neg hx]
    have hy : (-1 : ℝ) * (BoxCox2.fwd (BoxCox2sym.toBC p) (-x) - BoxCox2.fwd (BoxCox2sym.toBC p) 0) < 0 := by
      linarith
    rw [sign_neg hy, abs_of_neg hy]
    have e : -(-1 * (BoxCox2.fwd (BoxCox2sym.toBC p) (-x) - BoxCox2.fwd (BoxCox2sym.toBC p) 0))
        + BoxCox2.fwd (BoxCox2sym.toBC p) 0 = BoxCox2.fwd (BoxCox2sym.toBC p) (-x) := by ring
    rw [e, BoxCox2.bwd_fwd _ (by simp only [BoxCox2sym.toBC, hnu]; linarith)]
    ring
  · subst hx
    simp [sign_zero]
  · have hp := hfpos x hx
    rw [sign_pos hx, abs_of_pos hx]
    have hy : 0 < (1 : ℝ) * (BoxCox2.fwd (BoxCox2sym.toBC p) x - BoxCox2.fwd (BoxCox2sym.toBC p) 0) := by
      linarith
    rw [sign_pos hy, abs_of_pos hy]
    have e : 1 * (BoxCox2.fwd (BoxCox2sym.toBC p) x - BoxCox2.fwd (BoxCox2sym.toBC p) 0)
        + BoxCox2.fwd (BoxCox2sym.toBC p) 0 = BoxCox2.fwd (BoxCox2sym.toBC p) x := by ring
    rw [e, BoxCox2.bwd_fwd _ (by simp only [BoxCox2sym.toBC, hnu]; linarith)]
    ring

/-- image side at `nu = 0`, power branch with `lam > 0`: the image is `lam*|y| > 0`, i.e. every real `y` -/
theorem BoxCox2sym.forward_backward_nu_zero (p : BoxCox2sym.Params ℝ) (y : ℝ) (hnu : p.nu = 0)
    (hl : lamBig p.lam = true) (hpos : 0 < p.lam) :
    (BoxCox2sym.backward p y).bind (BoxCox2sym.forward p) = some y := by
  simp only [BoxCox2sym.forward, BoxCox2sym.backward, Option.bind_some, BoxCox2sym.fwd, BoxCox2sym.bwd,
    BoxCox2sym.y0, absv_eq]
  have hne := lamBig_true hl
  have hf0 : BoxCox2.fwd (BoxCox2sym.toBC p) 0 = -1 / p.lam := by
    simp only [BoxCox2.fwd, BoxCox2sym.toBC, hl, if_true, transc_pow, hnu, add_zero, Real.zero_rpow hne]
    ring
  rw [hf0]
  -- backward of t + BC(0) for t > 0 is (lam t)^(1/lam) > 0, and forward of it is t + BC(0)
  have hb : ∀ t : ℝ, 0 < t → BoxCox2.bwd (BoxCox2sym.toBC p) (t + -1 / p.lam) = (p.lam * t) ^ (1 / p.lam) := by
    intro t _
    simp only [BoxCox2.bwd, BoxCox2sym.toBC, hl, if_true, transc_pow, hnu, sub_zero]
    congr 1; field_simp; ring
  have hbpos : ∀ t : ℝ, 0 < t → 0 < BoxCox2.bwd (BoxCox2sym.toBC p) (t + -1 / p.lam) := by
    intro t ht; rw [hb t ht]; exact Real.rpow_pos_of_pos (mul_pos hpos ht) _
  have hfb : ∀ t : ℝ, 0 < t →
      BoxCox2.fwd (BoxCox2sym.toBC p) (BoxCox2.bwd (BoxCox2sym.toBC p) (t + -1 / p.lam)) = t + -1 / p.lam := by
    intro t ht
    apply BoxCox2.fwd_bwd
    intro _
    simp only [BoxCox2sym.toBC]
    have : p.lam * (t + -1 / p.lam) + 1 = p.lam * t := by field_simp; ring
    rw [this]; exact mul_pos hpos ht
  congr 1
  rcases lt_trichotomy y 0 with hy | hy | hy
  · have ht := neg_pos.mpr hy
    rw [sign_neg hy, abs_of_neg hy]
    have hx : (-1 : ℝ) * BoxCox2.bwd (BoxCox2sym.toBC p) (-y + -1 / p.lam) < 0 := by
      have := hbpos (-y) ht; linarith
    rw [sign_neg hx, abs_of_neg hx]
    rw [show -(-1 * BoxCox2.bwd (BoxCox2sym.toBC p) (-y + -1 / p.lam))
        = BoxCox2.bwd (BoxCox2sym.toBC p) (-y + -1 / p.lam) by ring, hfb (-y) ht]
    ring
  · subst hy
    simp [sign_zero]
  · rw [sign_pos hy, abs_of_pos hy]
    have hx : 0 < (1 : ℝ) * BoxCox2.bwd (BoxCox2sym.toBC p) (y + -1 / p.lam) := by
      have := hbpos y hy; linarith
    rw [sign_pos hx, abs_of_pos hx]
    simp only [one_mul]
    rw [hfb y hy]
    ring

/-- the object re-synchronises its inner BoxCox2 first: the result never depends on the stale inner state -/
theorem BoxCox2sym.state_forward_eq (s : BoxCox2sym.State ℝ) (x : ℝ) :
    BoxCox2sym.State.forward s x =
      (⟨s.nu, s.lam, ⟨s.nu, s.lam, s.bc.mininu⟩⟩, BoxCox2sym.forward ⟨s.nu, s.lam, s.bc.mininu⟩ x) := rfl

theorem BoxCox2sym.state_backward_eq (s : BoxCox2sym.State ℝ) (y : ℝ) :
    BoxCox2sym.State.backward s y =
      (⟨s.nu, s.lam, ⟨s.nu, s.lam, s.bc.mininu⟩⟩, BoxCox2sym.backward ⟨s.nu, s.lam, s.bc.mininu⟩ y) := rfl

/-! ### Yeo-Johnson — four formulas (`isclose(lam,0)`, `isclose(lam,2)` × sign of `nu + scale*x - EPS`)

The forward selects its branch from `w = nu + scale*x ≥ EPS`, the backward from `y ≥ EPS`. The two tests
agree except on a sliver of width ~`EPS²` next to `w = EPS`; the exact identity is proved under the
agreement hypothesis `hb`, which is shown to hold for every `w ≤ 0` (all parameters), for `lam ≤ 1` below `EPS`
and `lam ≥ 1` above it; `backward_forward_near` / `forward_backward_near` then cover every input, sliver
included, with the error bound `1e-18`. -/

theorem YeoJohnson.scale_ne_zero (p : YeoJohnson.Params ℝ) (hp : YeoJohnson.admissible p) : p.scale ≠ 0 := by
  have h := hp.1
  have : (0 : ℝ) < 1e-5 := by norm_num
  intro h0; rw [h0] at h; linarith

theorem YeoJohnson.backward_forward (p : YeoJohnson.Params ℝ) (x : ℝ) (hp : YeoJohnson.admissible p)
    (hb : eps ≤ p.nu + x * p.scale ↔ eps ≤ YeoJohnson.fwd p x) :
    (YeoJohnson.forward p x).bind (YeoJohnson.backward p) = some x := by
  have hs := YeoJohnson.scale_ne_zero p hp
  simp only [YeoJohnson.forward, YeoJohnson.backward, Option.bind_some, YeoJohnson.bwd]
  unfold YeoJohnson.fwd at hb ⊢
  rw [YeoJohnson.bwdW_fwdW _ _ hb]
  congr 1; field_simp; ring

theorem YeoJohnson.forward_backward (p : YeoJohnson.Params ℝ) (y : ℝ) (hp : YeoJohnson.admissible p)
    (hy : YeoJohnson.codom p y) (hb : eps ≤ y ↔ eps ≤ YeoJohnson.bwdW p.lam y) :
    (YeoJohnson.backward p y).bind (YeoJohnson.forward p) = some y := by
  have hs := YeoJohnson.scale_ne_zero p hp
  simp only [YeoJohnson.forward, YeoJohnson.backward, Option.bind_some, YeoJohnson.bwd, YeoJohnson.fwd]
  have e : p.nu + (YeoJohnson.bwdW p.lam y - p.nu) / p.scale * p.scale = YeoJohnson.bwdW p.lam y := by
    field_simp; ring
  rw [e, YeoJohnson.fwdW_bwdW _ _ hb hy.1 hy.2]

/-- no sliver on the non-positive side: for `nu + scale*x ≤ 0` the round trip is exact for all parameters
(`lam = 2`, `isclose(lam, 2)` and the power formula alike) -/
theorem YeoJohnson.backward_forward_of_nonpos (p : YeoJohnson.Params ℝ) (x : ℝ) (hp : YeoJohnson.admissible p)
    (hw : p.nu + x * p.scale ≤ 0) :
    (YeoJohnson.forward p x).bind (YeoJohnson.backward p) = some x := by
  apply YeoJohnson.backward_forward p x hp
  have h1 : ¬ eps ≤ p.nu + x * p.scale := by linarith [eps_pos]
  have h2 : ¬ eps ≤ YeoJohnson.fwd p x := by
    have := YeoJohnson.fwdW_nonpos p.lam _ hw
    unfold YeoJohnson.fwd; linarith [eps_pos]
  exact ⟨fun h => absurd h h1, fun h => absurd h h2⟩


/-- the branch tests agree — hence the round trip is exact — whenever `w = nu + scale*x ≤ 0`, or `w < EPS` with
`lam ≤ 1`, or `w ≥ EPS` with `lam ≥ 1` (Bernoulli); in particular for every `x` at the default `lam = 1` -/
theorem YeoJohnson.backward_forward_of_side (p : YeoJohnson.Params ℝ) (x : ℝ) (hp : YeoJohnson.admissible p)
    (h : p.nu + x * p.scale ≤ 0 ∨ (p.nu + x * p.scale < eps ∧ p.lam ≤ 1) ∨ (eps ≤ p.nu + x * p.scale ∧ 1 ≤ p.lam)) :
    (YeoJohnson.forward p x).bind (YeoJohnson.backward p) = some x := by
  rcases h with h | ⟨hw, hl⟩ | ⟨hw, hl⟩
  · exact YeoJohnson.backward_forward_of_nonpos p x hp h
  · apply YeoJohnson.backward_forward p x hp
    have h2 : ¬ eps ≤ YeoJohnson.fwd p x := by
      have := YeoJohnson.fwdW_le_of_le_one p.lam _ hl hw
      unfold YeoJohnson.fwd; linarith
    exact ⟨fun h => absurd h (not_le.mpr hw), fun h => absurd h h2⟩
  · apply YeoJohnson.backward_forward p x hp
    have h2 : eps ≤ YeoJohnson.fwd p x := by
      have := YeoJohnson.le_fwdW_of_one_le p.lam _ hl hw
      unfold YeoJohnson.fwd; linarith
    exact ⟨fun _ => h2, fun _ => hw⟩

theorem YeoJohnson.backward_forward_lam_one (p : YeoJohnson.Params ℝ) (x : ℝ) (hp : YeoJohnson.admissible p)
    (hl : p.lam = 1) : (YeoJohnson.forward p x).bind (YeoJohnson.backward p) = some x := by
  apply YeoJohnson.backward_forward_of_side p x hp
  by_cases hw : eps ≤ p.nu + x * p.scale
  · exact Or.inr (Or.inr ⟨hw, hl.ge⟩)
  · exact Or.inr (Or.inl ⟨not_le.mp hw, hl.le⟩)


/-- image side without a sliver: every `y ≤ 0` of the image is recovered exactly, for all parameters -/
theorem YeoJohnson.forward_backward_of_nonpos (p : YeoJohnson.Params ℝ) (y : ℝ) (hp : YeoJohnson.admissible p)
    (hy : YeoJohnson.codom p y) (hy0 : y ≤ 0) :
    (YeoJohnson.backward p y).bind (YeoJohnson.forward p) = some y := by
  apply YeoJohnson.forward_backward p y hp hy
  have h1 : ¬ eps ≤ y := by linarith [eps_pos]
  have h2 : ¬ eps ≤ YeoJohnson.bwdW p.lam y := by
    have := YeoJohnson.bwdW_nonpos p.lam y hy0 (hy.2 h1)
    linarith [eps_pos]
  exact ⟨fun h => absurd h h1, fun h => absurd h h2⟩

/-- full strength, every `x` and every admissible parameter vector: the round trip is defined and returns `x`
exactly outside the sliver, and within `1e-18/scale` inside it (there the inverse of the other branch is applied;
both branches agree with the identity to second order, which bounds the difference by `20 EPS²`) -/
theorem YeoJohnson.backward_forward_near (p : YeoJohnson.Params ℝ) (x : ℝ) (hp : YeoJohnson.admissible p) :
    ∃ r, (YeoJohnson.forward p x).bind (YeoJohnson.backward p) = some r ∧ |(r - x) * p.scale| ≤ 1e-18 := by
  have hs := YeoJohnson.scale_ne_zero p hp
  have hl1 : -1 ≤ p.lam := by have := hp.2.1; norm_num at this; exact this
  have hl3 : p.lam ≤ 3 := by have := hp.2.2; norm_num at this; exact this
  refine ⟨_, rfl, ?_⟩
  simp only [YeoJohnson.bwd, YeoJohnson.fwd]
  have e : ((YeoJohnson.bwdW p.lam (YeoJohnson.fwdW p.lam (p.nu + x * p.scale)) - p.nu) / p.scale - x) * p.scale
      = YeoJohnson.bwdW p.lam (YeoJohnson.fwdW p.lam (p.nu + x * p.scale)) - (p.nu + x * p.scale) := by
    field_simp; ring
  rw [e]
  exact YeoJohnson.bwdW_fwdW_near hl1 hl3 _

theorem YeoJohnson.forward_backward_near (p : YeoJohnson.Params ℝ) (y : ℝ) (hp : YeoJohnson.admissible p)
    (hy : YeoJohnson.codom p y) :
    ∃ r, (YeoJohnson.backward p y).bind (YeoJohnson.forward p) = some r ∧ |r - y| ≤ 1e-18 := by
  have hs := YeoJohnson.scale_ne_zero p hp
  have hl1 : -1 ≤ p.lam := by have := hp.2.1; norm_num at this; exact this
  have hl3 : p.lam ≤ 3 := by have := hp.2.2; norm_num at this; exact this
  refine ⟨_, rfl, ?_⟩
  simp only [YeoJohnson.bwd, YeoJohnson.fwd]
  have e : p.nu + (YeoJohnson.bwdW p.lam y - p.nu) / p.scale * p.scale = YeoJohnson.bwdW p.lam y := by
    field_simp; ring
  rw [e]
  exact YeoJohnson.fwdW_bwdW_near hl1 hl3 y hy.1 hy.2

/-! ### LogSinh -/

theorem LogSinh.backward_forward (p : LogSinh.Params ℝ) (x : ℝ) (hp : LogSinh.admissible p)
    (hx : LogSinh.dom p x) : (LogSinh.forward p x).bind (LogSinh.backward p) = some x := by
  have hxm : p.xmax ≠ 0 := by
    have h := hp.2.2.2.2; have := eps_pos; intro h0; rw [h0] at h; linarith
  have ha : 0 < LogSinh.a p := Real.exp_pos _
  have hb : 0 < LogSinh.b p := Real.exp_pos _
  unfold LogSinh.dom at hx
  have hx' := hx
  unfold LogSinh.inDom at hx'
  rw [decide_eq_true_iff] at hx'
  have hw : 0 < LogSinh.a p + LogSinh.b p * (x / p.xmax) := by
    have h1 : -LogSinh.a p / LogSinh.b p < x / p.xmax := by linarith [eps_pos]
    rw [div_lt_iff₀ hb] at h1
    linarith
  simp only [LogSinh.forward, guard, hx, if_true, LogSinh.backward, Option.bind_some, LogSinh.bwd, LogSinh.fwd,
    transc_log, transc_exp, transc_sqrt]
  generalize LogSinh.a p = a at *
  generalize LogSinh.b p = b at *
  have e1 : b * ((a + b * (x / p.xmax) + Real.log ((1 - Real.exp (-2 * (a + b * (x / p.xmax)))) / 2)) / b)
      = a + b * (x / p.xmax) + Real.log ((1 - Real.exp (-2 * (a + b * (x / p.xmax)))) / 2) := by
    field_simp
  rw [e1, logsinh_back hw]
  congr 1
  field_simp; ring

/-- for every `y` whose backward image passes the forward guard -/
theorem LogSinh.forward_backward (p : LogSinh.Params ℝ) (y : ℝ) (hp : LogSinh.admissible p)
    (hy : LogSinh.codom p y) : (LogSinh.backward p y).bind (LogSinh.forward p) = some y := by
  have hxm : p.xmax ≠ 0 := by
    have h := hp.2.2.2.2; have := eps_pos; intro h0; rw [h0] at h; linarith
  have hb : 0 < LogSinh.b p := Real.exp_pos _
  unfold LogSinh.codom LogSinh.dom at hy
  simp only [LogSinh.forward, guard, hy, if_true, LogSinh.backward, Option.bind_some]
  simp only [LogSinh.bwd, LogSinh.fwd, transc_log, transc_exp, transc_sqrt]
  generalize LogSinh.a p = a at *
  generalize LogSinh.b p = b at *
  have e1 : a + b * (p.xmax * (y + (Real.log (1 + Real.sqrt (1 + Real.exp (-2 * (b * y)))) - a) / b) / p.xmax)
      = b * y + Real.log (1 + Real.sqrt (1 + Real.exp (-2 * (b * y)))) := by
    field_simp; ring
  rw [e1, logsinh_fwd]
  congr 1
  field_simp; ring

/-- the forward image of the domain lies in the image set on which `forward_backward` holds -/
theorem LogSinh.forward_mem_codom (p : LogSinh.Params ℝ) (x : ℝ) (hp : LogSinh.admissible p)
    (hx : LogSinh.dom p x) : LogSinh.codom p (LogSinh.fwd p x) := by
  have h := LogSinh.backward_forward p x hp hx
  have hx' : LogSinh.inDom p x = true := hx
  simp only [LogSinh.forward, guard, hx', if_true, Option.bind_some, LogSinh.backward, Option.some.injEq] at h
  unfold LogSinh.codom
  rw [h]; exact hx

theorem LogSinh.state_unset (s : LogSinh.State ℝ) (x : ℝ) (h : s.xmax = none) :
    LogSinh.State.forward s x = .error .xmaxUnset ∧ LogSinh.State.backward s x = .error .xmaxUnset := by
  cases s with
  | mk a b xm => cases h; exact ⟨rfl, rfl⟩

theorem LogSinh.state_set (s : LogSinh.State ℝ) (x xm : ℝ) (h : s.xmax = some xm) :
    LogSinh.State.forward s x = .ok (LogSinh.forward ⟨s.loga, s.logb, xm⟩ x) ∧
    LogSinh.State.backward s x = .ok (LogSinh.backward ⟨s.loga, s.logb, xm⟩ x) := by
  cases s with
  | mk a b xm' => cases h; exact ⟨rfl, rfl⟩

/-! ### Reciprocal (repaired backward guard `y < 0`) -/

/-- every `x` of the domain `x > -nu`, every `nu`, every `mininu` -/
theorem Reciprocal.backward_forward (p : Reciprocal.Params ℝ) (x : ℝ) (hx : Reciprocal.dom p x) :
    (Reciprocal.forward p x).bind (Reciprocal.backward p) = some x := by
  unfold Reciprocal.dom at hx
  have hs : 0 < p.nu + x := by linarith
  have hg : -1 / (p.nu + x) < 0 := by
    rw [neg_div, neg_lt_zero]; positivity
  simp only [Reciprocal.forward, guard, decide_eq_true hx, if_true, Option.bind_some, Reciprocal.backward,
    Reciprocal.fwd, decide_eq_true hg, Reciprocal.bwd]
  congr 1
  field_simp; ring

/-- the image of the domain is exactly `y < 0`: every such `y` is recovered -/
theorem Reciprocal.forward_backward (p : Reciprocal.Params ℝ) (y : ℝ) (hy0 : y < 0) :
    (Reciprocal.backward p y).bind (Reciprocal.forward p) = some y := by
  have hg : -p.nu < -1 / y - p.nu := by
    have : 0 < -1 / y := by rw [neg_div, neg_pos, one_div, inv_lt_zero]; exact hy0
    linarith
  simp only [Reciprocal.backward, guard, decide_eq_true hy0, if_true, Option.bind_some, Reciprocal.forward,
    Reciprocal.bwd, decide_eq_true hg, Reciprocal.fwd]
  congr 1
  have : y ≠ 0 := ne_of_lt hy0
  field_simp; ring

/-- the forward image lies in `y < 0`, and what is outside the image (`y ≥ 0`) stays NaN -/
theorem Reciprocal.forward_neg (p : Reciprocal.Params ℝ) (x : ℝ) (hx : Reciprocal.dom p x) :
    Reciprocal.fwd p x < 0 := by
  unfold Reciprocal.dom at hx
  have hs : 0 < p.nu + x := by linarith
  unfold Reciprocal.fwd
  rw [neg_div, neg_lt_zero]; positivity

theorem Reciprocal.backward_nan_of_nonneg (p : Reciprocal.Params ℝ) (y : ℝ) (hy : 0 ≤ y) :
    Reciprocal.backward p y = none := by
  simp only [Reciprocal.backward, guard, decide_eq_false (not_lt.mpr hy), Bool.false_eq_true, if_false]

/-! ### Sinh -/

theorem Sinh.scale_ne_zero (p : Sinh.Params ℝ) (hp : Sinh.admissible p) : p.scale ≠ 0 := by
  unfold Sinh.admissible at hp
  have : (0 : ℝ) < 1e-10 := by norm_num
  intro h0; rw [h0] at hp; linarith

theorem Sinh.backward_forward (p : Sinh.Params ℝ) (x : ℝ) (hp : Sinh.admissible p) :
    (Sinh.forward p x).bind (Sinh.backward p) = some x := by
  have hs := Sinh.scale_ne_zero p hp
  simp only [Sinh.forward, Sinh.backward, Option.bind_some, Sinh.fwd, Sinh.bwd, transc_asinh, transc_sinh,
    Real.sinh_arsinh]
  congr 1; field_simp; ring

theorem Sinh.forward_backward (p : Sinh.Params ℝ) (y : ℝ) (hp : Sinh.admissible p) :
    (Sinh.backward p y).bind (Sinh.forward p) = some y := by
  have hs := Sinh.scale_ne_zero p hp
  simp only [Sinh.forward, Sinh.backward, Option.bind_some, Sinh.fwd, Sinh.bwd, transc_asinh, transc_sinh]
  have e : (Real.sinh y / p.scale + p.nu - p.nu) * p.scale = Real.sinh y := by field_simp; ring
  rw [e, Real.arsinh_sinh]

/-! ### Manly (repaired branch test `abs(lam) > EPS`) — exponential branch and identity branch (`lam = 0`) -/

theorem Manly.xmax_ne_zero (p : Manly.Params ℝ) (hp : Manly.admissible p) : p.xmax ≠ 0 := by
  have h := hp.2.2; have := eps_pos; intro h0; rw [h0] at h; linarith

theorem Manly.backward_forward (p : Manly.Params ℝ) (x : ℝ) (hp : Manly.admissible p) :
    (Manly.forward p x).bind (Manly.backward p) = some x := by
  have hxm := Manly.xmax_ne_zero p hp
  simp only [Manly.forward, Manly.backward, Option.bind_some, Manly.fwd, Manly.bwd]
  congr 1
  cases h : lamBig p.lam with
  | true =>
    have hl := lamBig_true h
    simp only [if_true, transc_exp, transc_log]
    have e : 1 + p.lam * ((Real.exp (p.lam * (x / p.xmax)) - 1) / p.lam) = Real.exp (p.lam * (x / p.xmax)) := by
      field_simp; ring
    rw [e, Real.log_exp]
    field_simp
  | false =>
    simp only [Bool.false_eq_true, if_false]
    field_simp

theorem Manly.forward_backward (p : Manly.Params ℝ) (y : ℝ) (hp : Manly.admissible p) (hy : Manly.codom p y) :
    (Manly.backward p y).bind (Manly.forward p) = some y := by
  have hxm := Manly.xmax_ne_zero p hp
  unfold Manly.codom at hy
  simp only [Manly.forward, Manly.backward, Option.bind_some, Manly.fwd, Manly.bwd]
  congr 1
  cases h : lamBig p.lam with
  | true =>
    have hl := lamBig_true h
    simp only [if_true, transc_exp, transc_log]
    have e : p.lam * (p.xmax * Real.log (1 + p.lam * y) / p.lam / p.xmax) = Real.log (1 + p.lam * y) := by
      field_simp
    rw [e, Real.exp_log (hy h)]
    field_simp; ring
  | false =>
    simp only [Bool.false_eq_true, if_false]
    field_simp

theorem Manly.forward_mem_codom (p : Manly.Params ℝ) (x : ℝ) : Manly.codom p (Manly.fwd p x) := by
  intro h
  have hl := lamBig_true h
  simp only [Manly.fwd, h, if_true, transc_exp]
  have e : 1 + p.lam * ((Real.exp (p.lam * (x / p.xmax)) - 1) / p.lam) = Real.exp (p.lam * (x / p.xmax)) := by
    field_simp; ring
  rw [e]; exact Real.exp_pos _

/-- `lam = 0` exactly takes the identity branch (the pinned code sent it to `0/0`) -/
theorem Manly.lam_zero (xmax x : ℝ) : Manly.fwd ⟨0, xmax⟩ x = x / xmax ∧ Manly.bwd ⟨0, xmax⟩ x = xmax * x := by
  have h : lamBig (0 : ℝ) = false := by
    unfold lamBig; rw [decide_eq_false_iff_not, absv_eq, abs_zero]; exact not_lt.mpr eps_pos.le
  simp [Manly.fwd, Manly.bwd, h]

theorem Manly.state_unset (s : Manly.State ℝ) (x : ℝ) (h : s.xmax = none) :
    Manly.State.forward s x = .error .xmaxUnset ∧ Manly.State.backward s x = .error .xmaxUnset := by
  cases s with
  | mk l xm => cases h; exact ⟨rfl, rfl⟩

theorem Manly.state_set (s : Manly.State ℝ) (x xm : ℝ) (h : s.xmax = some xm) :
    Manly.State.forward s x = .ok (Manly.forward ⟨s.lam, xm⟩ x) ∧
    Manly.State.backward s x = .ok (Manly.backward ⟨s.lam, xm⟩ x) := by
  cases s with
  | mk l xm' => cases h; exact ⟨rfl, rfl⟩

/-! ### Softmax — rows of any length -/

theorem Softmax.bwdRow_fwdRow (xs : List ℝ) (hd : Softmax.dom xs) :
    Softmax.bwdRow (Softmax.fwdRow xs) = xs := by
  obtain ⟨hpos, hs⟩ := hd
  rw [sumL_eq] at hs
  have hs1 : 0 < 1 - xs.sum := by linarith [eps_pos]
  have hf : Softmax.fwdRow xs = xs.map fun x => Real.log (x / (1 - xs.sum)) := by
    simp only [Softmax.fwdRow, sumL_eq, transc_log]
  have he : (Softmax.fwdRow xs).map Transc.exp = xs.map fun x => x / (1 - xs.sum) := by
    rw [hf, List.map_map]
    apply List.map_congr_left
    intro x hx
    simp only [Function.comp, transc_exp]
    exact Real.exp_log (div_pos (hpos x hx) hs1)
  unfold Softmax.bwdRow
  simp only [he, sumL_eq, sum_map_div, List.map_map]
  have hid : ∀ x ∈ xs, ((fun v => v / (1 + xs.sum / (1 - xs.sum))) ∘ fun x => x / (1 - xs.sum)) x = id x := by
    intro x _
    simp only [Function.comp, id]
    field_simp; ring
  rw [List.map_congr_left hid, List.map_id]

theorem Softmax.fwdRow_bwdRow (ys : List ℝ) : Softmax.fwdRow (Softmax.bwdRow ys) = ys := by
  have hE : 0 ≤ (ys.map Real.exp).sum := sum_exp_pos ys
  have hb : Softmax.bwdRow ys = ys.map fun y => Real.exp y / (1 + (ys.map Real.exp).sum) := by
    simp only [Softmax.bwdRow, sumL_eq, List.map_map]
    rfl
  have hsum : (Softmax.bwdRow ys).sum = (ys.map Real.exp).sum / (1 + (ys.map Real.exp).sum) := by
    rw [hb, ← sum_map_div, List.map_map]; rfl
  unfold Softmax.fwdRow
  simp only [sumL_eq, hsum]
  rw [hb, List.map_map]
  have hid : ∀ y ∈ ys, ((fun x => Transc.log (x / (1 - (ys.map Real.exp).sum / (1 + (ys.map Real.exp).sum))))
      ∘ fun y => Real.exp y / (1 + (ys.map Real.exp).sum)) y = id y := by
    intro y _
    simp only [Function.comp, id, transc_log]
    have e : Real.exp y / (1 + (ys.map Real.exp).sum) /
        (1 - (ys.map Real.exp).sum / (1 + (ys.map Real.exp).sum)) = Real.exp y := by
      have : (1 : ℝ) + (ys.map Real.exp).sum ≠ 0 := by linarith
      field_simp; ring
    rw [e, Real.log_exp]
  rw [List.map_congr_left hid, List.map_id]

/-- a row with positive entries summing to at most `1 - EPS` is accepted and recovered -/
theorem Softmax.backward_forward (xs : List ℝ) (hd : Softmax.dom xs) :
    Softmax.forward xs >>= Softmax.backward = .ok xs := by
  have h1 : Softmax.anyNeg xs = false := by
    unfold Softmax.anyNeg
    rw [List.any_eq_false]
    intro x hx
    have := hd.1 x hx
    simp [not_lt.mpr this.le]
  have h2 : Softmax.sumTooBig xs = false := by
    unfold Softmax.sumTooBig
    rw [decide_eq_false_iff_not, not_lt]; exact hd.2
  simp only [Softmax.forward, h1, h2, Bool.false_eq_true, if_false]
  show Except.ok (Softmax.bwdRow (Softmax.fwdRow xs)) = Except.ok xs
  rw [Softmax.bwdRow_fwdRow xs hd]

/-- any real row `ys` whose backward image passes the input checks (its sum is at most `1 - EPS`) -/
theorem Softmax.forward_backward (ys : List ℝ) (hc : Softmax.codom ys) :
    Softmax.backward ys >>= Softmax.forward = .ok ys := by
  unfold Softmax.codom at hc
  have h1 : Softmax.anyNeg (Softmax.bwdRow ys) = false := by
    unfold Softmax.anyNeg
    rw [List.any_eq_false]
    intro x hx
    have := hc.1 x hx
    simp [not_lt.mpr this.le]
  have h2 : Softmax.sumTooBig (Softmax.bwdRow ys) = false := by
    unfold Softmax.sumTooBig
    rw [decide_eq_false_iff_not, not_lt]; exact hc.2
  show Softmax.forward (Softmax.bwdRow ys) = Except.ok ys
  simp only [Softmax.forward, h1, h2, Bool.false_eq_true, if_false]
  rw [Softmax.fwdRow_bwdRow]

/-- the backward image always has positive entries (so `codom` only constrains the sum) -/
theorem Softmax.bwdRow_pos (ys : List ℝ) : ∀ x ∈ Softmax.bwdRow ys, 0 < x := by
  intro x hx
  unfold Softmax.bwdRow at hx
  simp only [List.map_map, List.mem_map, Function.comp] at hx
  obtain ⟨y, _, rfl⟩ := hx
  have hE : 0 ≤ (List.map Transc.exp ys).sum := sum_exp_pos ys
  rw [sumL_eq]
  simp only [transc_exp]
  have := Real.exp_pos y
  positivity

/-- the forward image of a domain row lies in the image set on which `forward_backward` holds -/
theorem Softmax.fwdRow_mem_codom (xs : List ℝ) (hd : Softmax.dom xs) : Softmax.codom (Softmax.fwdRow xs) := by
  unfold Softmax.codom
  rw [Softmax.bwdRow_fwdRow xs hd]; exact hd

/-- 2-D arrays: every row in the domain ⇒ accepted, and the rows are recovered -/
theorem Softmax.backwardM_forwardM (rows : List (List ℝ)) (hd : ∀ r ∈ rows, Softmax.dom r) :
    Softmax.forwardM rows >>= Softmax.backwardM = .ok rows := by
  have h1 : rows.any Softmax.anyNeg = false := by
    rw [List.any_eq_false]
    intro r hr
    have hdr := hd r hr
    unfold Softmax.anyNeg
    rw [Bool.not_eq_true, List.any_eq_false]
    intro x hx
    have := hdr.1 x hx
    simp [not_lt.mpr this.le]
  have h2 : rows.any Softmax.sumTooBig = false := by
    rw [List.any_eq_false]
    intro r hr
    unfold Softmax.sumTooBig
    rw [Bool.not_eq_true, decide_eq_false_iff_not, not_lt]; exact (hd r hr).2
  simp only [Softmax.forwardM, h1, h2, Bool.false_eq_true, if_false]
  show Except.ok ((rows.map Softmax.fwdRow).map Softmax.bwdRow) = Except.ok rows
  rw [List.map_map]
  have : ∀ r ∈ rows, (Softmax.bwdRow ∘ Softmax.fwdRow) r = id r := fun r hr => Softmax.bwdRow_fwdRow r (hd r hr)
  rw [List.map_congr_left this, List.map_id]

/-- a negative entry anywhere, or a row sum above `1 - EPS`, is rejected (never a silent NaN) -/
theorem Softmax.forward_rejects (xs : List ℝ) (h : (∃ x ∈ xs, x < 0) ∨ 1 - eps < Softmax.sumL xs) :
    ∃ e, Softmax.forward xs = .error e := by
  unfold Softmax.forward
  by_cases h1 : Softmax.anyNeg xs = true
  · exact ⟨_, by rw [if_pos h1]⟩
  · rw [if_neg h1]
    rcases h with ⟨x, hx, hneg⟩ | h
    · exfalso; apply h1
      unfold Softmax.anyNeg
      rw [List.any_eq_true]
      exact ⟨x, hx, by simpa using hneg⟩
    · have h2 : Softmax.sumTooBig xs = true := by unfold Softmax.sumTooBig; simpa using h
      exact ⟨_, by rw [if_pos h2]⟩

/-! ### backward_censored (base class) -/

/-- whenever it returns a value, `backward_censored(y, censor) ≥ censor` -/
theorem backwardCensored_ge (f b : ℝ → Option ℝ) (y c r : ℝ) (h : backwardCensored f b y c = some r) :
    c ≤ r := by
  unfold backwardCensored at h
  simp only [Option.map_eq_some_iff] at h
  obtain ⟨v, _, rfl⟩ := h
  unfold maxv
  split_ifs with hlt
  · exact le_refl c
  · exact not_lt.mp hlt

/-- on a transform whose `forward(censor)` exists, `backward_censored(y, censor)` is
`max(backward(max(y, forward(censor))), censor)` -/
theorem backwardCensored_eq (f b : ℝ → Option ℝ) (y c t : ℝ) (h : f c = some t) :
    backwardCensored f b y c = (b (max y t)).map fun v => max v c := by
  have hm : ∀ a b : ℝ, maxv a b = max a b := by
    intro a b; unfold maxv
    split_ifs with hlt
    · exact (max_eq_right hlt.le).symm
    · exact (max_eq_left (not_lt.mp hlt)).symm
  unfold backwardCensored
  simp only [h, NanTest.isNaN, Bool.false_eq_true, if_false, hm]

/-! ### arrays and objects -/

/-- a method pair that round-trips on `dom` round-trips on every array with entries in `dom` (any length) -/
theorem onArray_roundtrip (f b : ℝ → Option ℝ) (dom : ℝ → Prop)
    (h : ∀ x, dom x → (f x).bind b = some x) (xs : List ℝ) (hx : ∀ x ∈ xs, dom x) :
    bindArray b (onArray f xs) = xs.map some := by
  unfold bindArray onArray
  rw [List.map_map]
  apply List.map_congr_left
  intro x hxm
  exact h x (hx x hxm)

/-- BoxCox1lam object, arrays of any length, from ANY inner state: `forward` then `backward` returns the array -/
theorem BoxCox1lam.state_array_backward_forward (s : BoxCox1lam.State ℝ) (nu : ℝ) (hnu : s.nu = some nu)
    (xs : List ℝ) (hx : ∀ x ∈ xs, 0 < x + nu) :
    ∃ s1 ys s2, BoxCox1lam.State.forwardArr s xs = .ok (s1, ys.map some) ∧
      BoxCox1lam.State.backwardArr s1 ys = .ok (s2, xs.map some) ∧
      ys = xs.map (BoxCox2.fwd ⟨nu, s.lam, s.bc.mininu⟩) := by
  cases s with
  | mk lam nu' bc =>
    cases hnu
    refine ⟨⟨lam, some nu, ⟨nu, lam, bc.mininu⟩⟩, xs.map (BoxCox2.fwd ⟨nu, lam, bc.mininu⟩),
      ⟨lam, some nu, ⟨nu, lam, bc.mininu⟩⟩, ?_, ?_, rfl⟩
    · simp [BoxCox1lam.State.forwardArr, BoxCox1lam.State.sync, Except.map, onArray, BoxCox2.forward, List.map_map,
        Function.comp_def]
    · simp only [BoxCox1lam.State.backwardArr, BoxCox1lam.State.sync, Except.map, onArray, BoxCox2.backward,
        List.map_map, Function.comp_def]
      congr 2
      apply List.map_congr_left
      intro x hxm
      rw [BoxCox2.bwd_fwd _ (hx x hxm)]

theorem BoxCox1lam.state_array_unset (s : BoxCox1lam.State ℝ) (xs : List ℝ) (hnu : s.nu = none) :
    BoxCox1lam.State.forwardArr s xs = .error .nuUnset ∧ BoxCox1lam.State.backwardArr s xs = .error .nuUnset ∧
    BoxCox1lam.State.jacobianArr s xs = .error .nuUnset := by
  cases s with
  | mk lam nu' bc => cases hnu; exact ⟨rfl, rfl, rfl⟩

theorem BoxCox1nu.state_array_backward_forward (s : BoxCox1nu.State ℝ) (lam : ℝ) (hlam : s.lam = some lam)
    (xs : List ℝ) (hx : ∀ x ∈ xs, 0 < x + s.nu) :
    ∃ s1 ys s2, BoxCox1nu.State.forwardArr s xs = .ok (s1, ys.map some) ∧
      BoxCox1nu.State.backwardArr s1 ys = .ok (s2, xs.map some) ∧
      ys = xs.map (BoxCox2.fwd ⟨s.nu, lam, s.bc.mininu⟩) := by
  cases s with
  | mk nu lam' bc =>
    cases hlam
    refine ⟨⟨nu, some lam, ⟨nu, lam, bc.mininu⟩⟩, xs.map (BoxCox2.fwd ⟨nu, lam, bc.mininu⟩),
      ⟨nu, some lam, ⟨nu, lam, bc.mininu⟩⟩, ?_, ?_, rfl⟩
    · simp [BoxCox1nu.State.forwardArr, BoxCox1nu.State.sync, Except.map, onArray, BoxCox2.forward, List.map_map,
        Function.comp_def]
    · simp only [BoxCox1nu.State.backwardArr, BoxCox1nu.State.sync, Except.map, onArray, BoxCox2.backward,
        List.map_map, Function.comp_def]
      congr 2
      apply List.map_congr_left
      intro x hxm
      rw [BoxCox2.bwd_fwd _ (hx x hxm)]

theorem BoxCox1nu.state_array_unset (s : BoxCox1nu.State ℝ) (xs : List ℝ) (hlam : s.lam = none) :
    BoxCox1nu.State.forwardArr s xs = .error .lamUnset ∧ BoxCox1nu.State.backwardArr s xs = .error .lamUnset ∧
    BoxCox1nu.State.jacobianArr s xs = .error .lamUnset := by
  cases s with
  | mk nu lam' bc => cases hlam; exact ⟨rfl, rfl, rfl⟩

/-- BoxCox2sym object on arrays, from any inner state: `forward` then `backward` returns the array -/
theorem BoxCox2sym.state_array_backward_forward (s : BoxCox2sym.State ℝ) (hnu : 0 < s.nu) (xs : List ℝ) :
    ∃ ys, (BoxCox2sym.State.forwardArr s xs).2 = ys.map some ∧
      (BoxCox2sym.State.backwardArr (BoxCox2sym.State.forwardArr s xs).1 ys).2 = xs.map some := by
  refine ⟨xs.map (BoxCox2sym.fwd ⟨s.nu, s.lam, s.bc.mininu⟩), ?_, ?_⟩
  · simp [BoxCox2sym.State.forwardArr, BoxCox2sym.State.sync, BoxCox2sym.State.params, onArray,
      BoxCox2sym.forward, List.map_map, Function.comp_def]
  · simp only [BoxCox2sym.State.forwardArr, BoxCox2sym.State.backwardArr, BoxCox2sym.State.sync,
      BoxCox2sym.State.params, onArray, List.map_map]
    apply List.map_congr_left
    intro x _
    have h := BoxCox2sym.backward_forward ⟨s.nu, s.lam, s.bc.mininu⟩ x hnu
    simpa [BoxCox2sym.forward] using h

/-- LogSinh / Manly objects on arrays: with the constant set the object is its parameter vector -/
theorem LogSinh.state_array_backward_forward (s : LogSinh.State ℝ) (xm : ℝ) (hxm : s.xmax = some xm)
    (hp : LogSinh.admissible ⟨s.loga, s.logb, xm⟩) (xs : List ℝ) (hx : ∀ x ∈ xs, LogSinh.dom ⟨s.loga, s.logb, xm⟩ x) :
    ∃ ys, LogSinh.State.forwardArr s xs = .ok ys ∧
      bindArray (LogSinh.backward ⟨s.loga, s.logb, xm⟩) ys = xs.map some ∧
      (∀ zs, LogSinh.State.backwardArr s zs = .ok (onArray (LogSinh.backward ⟨s.loga, s.logb, xm⟩) zs)) := by
  cases s with
  | mk a b xm' =>
    cases hxm
    refine ⟨onArray (LogSinh.forward ⟨a, b, xm⟩) xs, rfl, ?_, fun _ => rfl⟩
    exact onArray_roundtrip _ _ _ (fun x hx => LogSinh.backward_forward ⟨a, b, xm⟩ x hp hx) xs hx

theorem Manly.state_array_backward_forward (s : Manly.State ℝ) (xm : ℝ) (hxm : s.xmax = some xm)
    (hp : Manly.admissible ⟨s.lam, xm⟩) (xs : List ℝ) :
    ∃ ys, Manly.State.forwardArr s xs = .ok ys ∧
      bindArray (Manly.backward ⟨s.lam, xm⟩) ys = xs.map some ∧
      (∀ zs, Manly.State.backwardArr s zs = .ok (onArray (Manly.backward ⟨s.lam, xm⟩) zs)) := by
  cases s with
  | mk l xm' =>
    cases hxm
    refine ⟨onArray (Manly.forward ⟨l, xm⟩) xs, rfl, ?_, fun _ => rfl⟩
    exact onArray_roundtrip _ _ (fun _ => True) (fun x _ => Manly.backward_forward ⟨l, xm⟩ x hp) xs
      (fun _ _ => trivial)

theorem LogSinh.state_array_unset (s : LogSinh.State ℝ) (xs : List ℝ) (h : s.xmax = none) :
    LogSinh.State.forwardArr s xs = .error .xmaxUnset ∧ LogSinh.State.backwardArr s xs = .error .xmaxUnset ∧
    LogSinh.State.jacobianArr s xs = .error .xmaxUnset := by
  cases s with
  | mk a b xm => cases h; exact ⟨rfl, rfl, rfl⟩

theorem Manly.state_array_unset (s : Manly.State ℝ) (xs : List ℝ) (h : s.xmax = none) :
    Manly.State.forwardArr s xs = .error .xmaxUnset ∧ Manly.State.backwardArr s xs = .error .xmaxUnset ∧
    Manly.State.jacobianArr s xs = .error .xmaxUnset := by
  cases s with
  | mk l xm => cases h; exact ⟨rfl, rfl, rfl⟩

/-! ### Softmax: 2-D image side, rejections, dimensions -/

/-- image side on 2-D arrays: every row in the image set ⇒ accepted and recovered -/
theorem Softmax.forwardM_backwardM (rows : List (List ℝ)) (hc : ∀ r ∈ rows, Softmax.codom r) :
    Softmax.backwardM rows >>= Softmax.forwardM = .ok rows := by
  show Softmax.forwardM (rows.map Softmax.bwdRow) = .ok rows
  have h1 : (rows.map Softmax.bwdRow).any Softmax.anyNeg = false := by
    rw [List.any_eq_false]
    intro r hr
    obtain ⟨r0, _, rfl⟩ := List.mem_map.mp hr
    unfold Softmax.anyNeg
    rw [Bool.not_eq_true, List.any_eq_false]
    intro x hx
    have := Softmax.bwdRow_pos r0 x hx
    simp [not_lt.mpr this.le]
  have h2 : (rows.map Softmax.bwdRow).any Softmax.sumTooBig = false := by
    rw [List.any_eq_false]
    intro r hr
    obtain ⟨r0, hr0, rfl⟩ := List.mem_map.mp hr
    unfold Softmax.sumTooBig
    rw [Bool.not_eq_true, decide_eq_false_iff_not, not_lt]; exact (hc r0 hr0).2
  simp only [Softmax.forwardM, h1, h2, Bool.false_eq_true, if_false, List.map_map]
  have : ∀ r ∈ rows, (Softmax.fwdRow ∘ Softmax.bwdRow) r = id r := fun r _ => Softmax.fwdRow_bwdRow r
  rw [List.map_congr_left this, List.map_id]

/-- the image set, explicitly: only the sum of the exponentials is constrained -/
theorem Softmax.codom_iff (ys : List ℝ) :
    Softmax.codom ys ↔ (ys.map Real.exp).sum / (1 + (ys.map Real.exp).sum) ≤ 1 - eps := by
  have hsum : Softmax.sumL (Softmax.bwdRow ys) = (ys.map Real.exp).sum / (1 + (ys.map Real.exp).sum) := by
    rw [sumL_eq]
    simp only [Softmax.bwdRow, sumL_eq, sum_map_div]
    rfl
  unfold Softmax.codom Softmax.dom
  rw [hsum]
  exact ⟨fun h => h.2, fun h => ⟨Softmax.bwdRow_pos ys, h⟩⟩

/-- 2-D arrays: a negative entry in any row, or any row sum above `1 - EPS`, rejects the whole array -/
theorem Softmax.forwardM_rejects (rows : List (List ℝ))
    (h : (∃ r ∈ rows, ∃ x ∈ r, x < 0) ∨ (∃ r ∈ rows, 1 - eps < Softmax.sumL r)) :
    ∃ e, Softmax.forwardM rows = .error e := by
  unfold Softmax.forwardM
  by_cases h1 : rows.any Softmax.anyNeg = true
  · exact ⟨_, by rw [if_pos h1]⟩
  · rw [if_neg h1]
    rcases h with ⟨r, hr, x, hx, hneg⟩ | ⟨r, hr, hs⟩
    · exfalso; apply h1
      rw [List.any_eq_true]
      refine ⟨r, hr, ?_⟩
      unfold Softmax.anyNeg
      rw [List.any_eq_true]
      exact ⟨x, hx, by simpa using hneg⟩
    · have h2 : rows.any Softmax.sumTooBig = true := by
        rw [List.any_eq_true]
        exact ⟨r, hr, by unfold Softmax.sumTooBig; simpa using hs⟩
      exact ⟨_, by rw [if_pos h2]⟩

/-- more than two dimensions are rejected before anything else; up to two, the 2-D functions apply -/
theorem Softmax.forwardND_rejects (ndim : Nat) (rows : List (List ℝ)) (h : 2 < ndim) :
    Softmax.forwardND ndim rows = .error .ndimGt2 ∧ Softmax.backwardND ndim rows = .error .ndimGt2 ∧
    Softmax.jacobianND ndim rows = .error .ndimGt2 := by
  simp [Softmax.forwardND, Softmax.backwardND, Softmax.jacobianND, h]

theorem Softmax.forwardND_le_two (ndim : Nat) (rows : List (List ℝ)) (h : ndim ≤ 2) :
    Softmax.forwardND ndim rows = Softmax.forwardM rows ∧ Softmax.backwardND ndim rows = Softmax.backwardM rows := by
  have : ¬ 2 < ndim := by omega
  simp [Softmax.forwardND, Softmax.backwardND, this]

/-! ### LogSinh: the image set, explicitly -/

theorem LogSinh.codom_iff (p : LogSinh.Params ℝ) (y : ℝ) (hp : LogSinh.admissible p) :
    LogSinh.codom p y ↔
      LogSinh.b p * eps < LogSinh.b p * y + Real.log (1 + Real.sqrt (1 + Real.exp (-2 * (LogSinh.b p * y)))) := by
  have hxm : p.xmax ≠ 0 := by
    have h := hp.2.2.2.2; have := eps_pos; intro h0; rw [h0] at h; linarith
  have hb : 0 < LogSinh.b p := Real.exp_pos _
  unfold LogSinh.codom LogSinh.dom LogSinh.inDom
  rw [decide_eq_true_iff]
  simp only [LogSinh.bwd, transc_log, transc_sqrt, transc_exp]
  generalize Real.log (1 + Real.sqrt (1 + Real.exp (-2 * (LogSinh.b p * y)))) = M
  have e : p.xmax * (y + (M - LogSinh.a p) / LogSinh.b p) / p.xmax = y + (M - LogSinh.a p) / LogSinh.b p := by
    field_simp
  rw [e]
  constructor
  · intro h
    have h2 : eps < y + M / LogSinh.b p := by
      have : (M - LogSinh.a p) / LogSinh.b p = M / LogSinh.b p - LogSinh.a p / LogSinh.b p := by ring
      rw [this, neg_div] at h; linarith
    have := mul_lt_mul_of_pos_left h2 hb
    rw [mul_add, mul_div_cancel₀ _ hb.ne'] at this
    exact this
  · intro h
    have h2 : eps < y + M / LogSinh.b p := by
      rw [← sub_pos]
      have : y + M / LogSinh.b p - eps = (LogSinh.b p * y + M - LogSinh.b p * eps) / LogSinh.b p := by
        field_simp
      rw [this]; exact div_pos (by linarith) hb
    have : (M - LogSinh.a p) / LogSinh.b p = M / LogSinh.b p - LogSinh.a p / LogSinh.b p := by ring
    rw [this, neg_div]; linarith

/-! ### get_transform: every keyword reaches the parameter / constant / constructor argument it names -/

theorem route_ctor : ∀ c ∈ catalogue, ∀ k ∈ c.ctorArgs, route c k = .ctor := by decide
theorem route_param : ∀ c ∈ catalogue, ∀ k ∈ c.params, route c k = .param := by decide
theorem route_const : ∀ c ∈ catalogue, ∀ k ∈ c.constants, route c k = .const := by decide
/-- a keyword naming nothing of the class is ignored, never an error and never another class's parameter -/
theorem route_ignored (c : ClassSpec) (k : String) (h1 : k ∉ c.ctorArgs) (h2 : k ∉ c.params) (h3 : k ∉ c.constants) :
    route c k = .ignored := by
  simp [route, h1, h2, h3]
theorem lookupClass_known : ∀ c ∈ catalogue, lookupClass c.name = .ok c := by decide
theorem lookupClass_unknown (name : String) (h : ∀ c ∈ catalogue, c.name ≠ name) :
    lookupClass name = .error .unknownName := by
  unfold lookupClass
  have : catalogue.find? (fun c => c.name == name) = none := by
    rw [List.find?_eq_none]
    intro c hc
    simpa using h c hc
  rw [this]

/-! ### the transform OBJECT (Model/C01Obj): constructors, every way of assigning, refused assignments, histories

`TObj.step` is one public operation (assignment by attribute / item / vector item / whole vector, `reset`, a method
call); `TObj.run` a history. What is proved: constructors establish, and every operation keeps, the invariant "one value
per slot, every parameter a number inside its declared bounds, every constant inside its bounds or unset"; a REFUSED
operation returns the object unchanged; a call changes nothing but the inner BoxCox2 of the delegating classes, and its
result is the closed formula at the CURRENT parameter values. Hence, for ANY history — refused assignments included — the
`admissible` hypotheses of the round-trip theorems hold and the round trip holds on the object (`X.history*`). -/

/-- every constructor that accepts its options builds an object that satisfies the invariant -/
theorem mkObj_inv (c : Cls) (mininu minilam : ℝ) (base : Option ℝ) (o : TObj ℝ)
    (h : mkObj c mininu minilam base = .ok o) : o.Inv := by
  have hl3 : lamBoundsOk minilam = true → minilam ≤ 3 := by
    intro hb
    unfold lamBoundsOk at hb
    simp only [Bool.and_eq_true, Bool.not_eq_true', decide_eq_false_iff_not, not_lt] at hb
    have := hb.2
    unfold eps at this
    norm_num at this ⊢
    linarith
  have hclip : ∀ ml : ℝ, ml ≤ 3 → inBounds (⟨"lam", some (clipv (some ml) (some 3.0) 1), some ml, some 3.0⟩ : SlotSpec ℝ)
      (clipv (some ml) (some 3.0) 1) := by
    intro ml hml
    exact clipv_inBounds ⟨"lam", some (clipv (some ml) (some 3.0) 1), some ml, some 3.0⟩
      (by intro l h hl hh; cases hl; cases hh; norm_num; linarith) 1
  have fin : ∀ (sp cp ip : VSpec ℝ) (pv cv iv : List (Option ℝ)) (mn : ℝ) (b : Option ℝ) (cc : Cls),
      sp.WF → cp.WF → ip.WF → sp.Ok pv → cp.Ok cv → ip.Ok iv → (⟨cc, sp, cp, pv, cv, ip, iv, mn, b⟩ : TObj ℝ).Inv :=
    fun _ _ _ _ _ _ _ _ _ a b c d e f => ⟨a, b, c, d, e, f⟩
  have wf0 : (noVec : VSpec ℝ).WF := by intro s hs; simp [noVec] at hs
  have ok0 : (noVec : VSpec ℝ).Ok [] := by simp [VSpec.Ok, noVec, okVals]
  have hbcw : minilam ≤ 3 → (bc2Spec mininu minilam).WF := by
    intro h3; simp [VSpec.WF, bc2Spec]; norm_num; linarith
  have hbco : minilam ≤ 3 → (bc2Spec mininu minilam).Ok (bc2Spec mininu minilam).dflts := by
    intro h3
    simp [VSpec.Ok, VSpec.dflts, okVals, okSlot, bc2Spec, inBounds]
    have := hclip minilam h3
    simp [inBounds] at this
    exact this
  cases c <;> simp only [mkObj] at h
  case identity =>
    cases h; exact fin _ _ _ _ _ _ _ _ _ (by intro s hs; simp at hs) wf0 wf0 (by simp [VSpec.Ok, okVals]) ok0 ok0
  case softmax =>
    cases h; exact fin _ _ _ _ _ _ _ _ _ (by intro s hs; simp at hs) wf0 wf0 (by simp [VSpec.Ok, okVals]) ok0 ok0
  case logit =>
    cases h
    refine fin _ _ _ _ _ _ _ _ _ ?_ wf0 wf0 ?_ ok0 ok0
    · simp [VSpec.WF]; norm_num
    · simp [VSpec.Ok, okVals, okSlot, inBounds]; norm_num
  case boxcox2 =>
    split_ifs at h with hb
    cases h
    have h3 := hl3 hb
    refine fin _ _ _ _ _ _ _ _ _ ?_ wf0 wf0 ?_ ok0 ok0
    · simp [VSpec.WF, bc2Spec]; norm_num; linarith
    · simp [VSpec.Ok, okVals, okSlot, bc2Spec, inBounds]
      have := hclip minilam h3
      simp [inBounds] at this
      exact this
  case boxcox2sym =>
    split_ifs at h with hb
    cases h
    have h3 := hl3 hb
    exact fin _ _ _ _ _ _ _ _ _ (hbcw h3) wf0 (hbcw h3) (hbco h3) ok0 (hbco h3)
  case boxcox1lam =>
    split_ifs at h with hb
    cases h
    have h3 := hl3 hb
    refine fin _ _ _ _ _ _ _ _ _ ?_ ?_ (hbcw h3) ?_ ?_ (hbco h3)
    · simp [VSpec.WF]; norm_num; linarith
    · simp [VSpec.WF]
    · simp [VSpec.Ok, okVals, okSlot, inBounds]
      have := hclip minilam h3
      simp [inBounds] at this
      exact this
    · simp [VSpec.Ok, okVals, okSlot]
  case boxcox1nu =>
    split_ifs at h with hb
    cases h
    have h3 := hl3 hb
    refine fin _ _ _ _ _ _ _ _ _ ?_ ?_ (hbcw h3) ?_ ?_ (hbco h3)
    · simp [VSpec.WF]
    · simp [VSpec.WF]; norm_num; linarith
    · simp [VSpec.Ok, okVals, okSlot, inBounds]
    · simp [VSpec.Ok, okVals, okSlot]
  case log =>
    cases base with
    | none =>
      cases h
      refine fin _ _ _ _ _ _ _ _ _ ?_ wf0 wf0 ?_ ok0 ok0
      · simp [VSpec.WF]
      · simp [VSpec.Ok, okVals, okSlot, inBounds]
    | some b =>
      simp only at h
      split_ifs at h
      cases h
      refine fin _ _ _ _ _ _ _ _ _ ?_ wf0 wf0 ?_ ok0 ok0
      · simp [VSpec.WF]
      · simp [VSpec.Ok, okVals, okSlot, inBounds]
  case reciprocal =>
    cases h
    refine fin _ _ _ _ _ _ _ _ _ ?_ wf0 wf0 ?_ ok0 ok0
    · simp [VSpec.WF]
    · simp [VSpec.Ok, okVals, okSlot, inBounds]
  case yeojohnson =>
    cases h
    refine fin _ _ _ _ _ _ _ _ _ ?_ wf0 wf0 ?_ ok0 ok0
    · simp [VSpec.WF]; norm_num
    · simp [VSpec.Ok, okVals, okSlot, inBounds]; norm_num
  case sinh =>
    cases h
    refine fin _ _ _ _ _ _ _ _ _ ?_ wf0 wf0 ?_ ok0 ok0
    · simp [VSpec.WF]
    · simp [VSpec.Ok, okVals, okSlot, inBounds]; norm_num
  case logsinh =>
    cases h
    refine fin _ _ _ _ _ _ _ _ _ ?_ ?_ wf0 ?_ ?_ ok0
    · simp [VSpec.WF]; norm_num
    · simp [VSpec.WF]
    · simp [VSpec.Ok, okVals, okSlot, inBounds]; norm_num
    · simp [VSpec.Ok, okVals, okSlot]
  case manly =>
    cases h
    refine fin _ _ _ _ _ _ _ _ _ ?_ ?_ wf0 ?_ ?_ ok0
    · simp [VSpec.WF]; norm_num
    · simp [VSpec.WF]
    · simp [VSpec.Ok, okVals, okSlot, inBounds]; norm_num
    · simp [VSpec.Ok, okVals, okSlot]

/-- constructor validation: `minilam < -3`, or a default `lam = 1` more than EPS below `minilam`, is refused by the four
Box-Cox classes; a non-positive logarithm base by `Log` -/
theorem mkObj_rejects (mininu minilam : ℝ) (base : Option ℝ) (h : minilam < -3 ∨ 1 + eps < minilam) :
    mkObj .boxcox2 mininu minilam base = .error .badCtor ∧ mkObj .boxcox2sym mininu minilam base = .error .badCtor ∧
    mkObj .boxcox1lam mininu minilam base = .error .badCtor ∧ mkObj .boxcox1nu mininu minilam base = .error .badCtor := by
  have hb : lamBoundsOk minilam = false := by
    unfold lamBoundsOk
    rcases h with h | h
    · have : minilam < -3.0 := by norm_num; exact h
      simp [this]
    · have : 1 < minilam - eps := by linarith
      simp [this]
  simp [mkObj, hb]

theorem mkObj_log_rejects (mininu minilam b : ℝ) (h : b ≤ 0) : mkObj .log mininu minilam (some b) = .error .badCtor := by
  simp [mkObj, h]

/-- what an assignment refuses: a vector of the wrong length, a NaN where the Vector does not accept NaN -/
theorem VSpec.setValues_rejects (sp : VSpec ℝ) (vs : List (Option ℝ))
    (h : vs.length ≠ sp.slots.length ∨ (sp.acceptNan = false ∧ none ∈ vs)) : ∃ e, sp.setValues vs = .error e := by
  unfold VSpec.setValues
  by_cases h1 : vs.length ≠ sp.slots.length
  · exact ⟨_, by rw [if_pos h1]⟩
  · rw [if_neg h1]
    rcases h with h | ⟨ha, hn⟩
    · exact absurd h h1
    · have : (!sp.acceptNan && vs.any Option.isNone) = true := by
        simp only [ha, Bool.not_false, Bool.true_and, List.any_eq_true]
        exact ⟨none, hn, rfl⟩
      exact ⟨_, by rw [if_pos this]⟩

theorem VSpec.setName_rejects (sp : VSpec ℝ) (vals : List (Option ℝ)) (k : String) (x : Option ℝ)
    (h : k ∉ sp.names ∨ (sp.acceptNan = false ∧ x = none)) : ∃ e, sp.setName vals k x = .error e := by
  unfold VSpec.setName
  by_cases h1 : (!sp.names.contains k) = true
  · exact ⟨_, by rw [if_pos h1]⟩
  · rw [if_neg h1]
    rcases h with h | ⟨ha, hx⟩
    · exfalso; apply h1; simpa using h
    · have : (!sp.acceptNan && x.isNone) = true := by simp [ha, hx]
      exact ⟨_, by rw [if_pos this]⟩

/-- what an accepted assignment stores: the value itself when it is inside the bounds (clipped otherwise: `setAt`),
and nothing else changes -/
theorem setAt_get (k : String) (x : ℝ) : ∀ (slots : List (SlotSpec ℝ)) (vals l : List (Option ℝ)),
    setAt slots vals k (some x) = some l →
    (∃ s ∈ slots, s.name = k ∧ getAt slots l k = some (clipv s.lo s.hi x)) ∧
    ∀ k', k' ≠ k → getAt slots l k' = getAt slots vals k'
  | [], [], _, h => by simp [setAt] at h
  | [], _ :: _, _, h => by simp [setAt] at h
  | _ :: _, [], _, h => by simp [setAt] at h
  | s :: ss, v :: vs, l, h => by
    simp only [setAt] at h
    split_ifs at h with hk
    · cases h
      refine ⟨⟨s, List.mem_cons_self .., hk, by simp [getAt, hk, clipOpt]⟩, ?_⟩
      intro k' hk'
      have : ¬ s.name = k' := fun h' => hk' (h'.symm.trans hk)
      simp [getAt, this]
    · rcases hr : setAt ss vs k (some x) with _ | l'
      · simp [hr] at h
      · simp only [hr, Option.map_some, Option.some.injEq] at h
        subst h
        obtain ⟨⟨s', hs', hn', hg'⟩, hf⟩ := setAt_get k x ss vs l' hr
        refine ⟨⟨s', List.mem_cons_of_mem _ hs', hn', by simp [getAt, hk, hg']⟩, ?_⟩
        intro k' hk'
        by_cases hsk : s.name = k'
        · simp [getAt, hsk]
        · simp [getAt, hsk, hf k' hk']

/-- a REFUSED operation — an assignment that raises (NaN into a parameter by any route, a vector of the wrong length or
holding a NaN next to valid values, an unknown key) or a call that raises (constant unset) — returns the object unchanged:
the last accepted setting stays in place -/
theorem TObj.step_refused_unchanged (o : TObj ℝ) (op : TOp ℝ) (h1 : (o.step op).2 ≠ .done)
    (h2 : ∀ vals, (o.step op).2 ≠ .values vals) : (o.step op).1 = o := by
  have key : ∀ r : TObj ℝ × Reply ℝ, (∀ e, r.2 = .rejected e → r.1 = o) → (∀ e, r.2 ≠ .raised e) → r.2 ≠ .done →
      (∀ vals, r.2 ≠ .values vals) → r.1 = o := by
    intro r hr hne hd hv
    rcases hrep : r.2 with _ | e | vals | e
    · exact absurd hrep hd
    · exact hr e hrep
    · exact absurd hrep (hv vals)
    · exact absurd hrep (hne e)
  unfold TObj.step at h1 h2 ⊢
  cases op with
  | setAttr k v =>
    simp only [TObj.stepWith] at h1 h2 ⊢
    split_ifs at h1 h2 ⊢
    · exact key _ (TObj.setP_rejected o _) (TObj.setP_not_raised o _) h1 h2
    · exact key _ (TObj.setC_rejected o _) (TObj.setC_not_raised o _) h1 h2
    · rfl
  | setItem k v =>
    simp only [TObj.stepWith] at h1 h2 ⊢
    split_ifs at h1 h2 ⊢
    · exact key _ (TObj.setP_rejected o _) (TObj.setP_not_raised o _) h1 h2
    · exact key _ (TObj.setP_rejected o _) (TObj.setP_not_raised o _) h1 h2
    · exact key _ (TObj.setC_rejected o _) (TObj.setC_not_raised o _) h1 h2
  | setPItem k v => exact key _ (TObj.setP_rejected o _) (TObj.setP_not_raised o _) h1 h2
  | setCItem k v => exact key _ (TObj.setC_rejected o _) (TObj.setC_not_raised o _) h1 h2
  | setPValues vs => exact key _ (TObj.setP_rejected o _) (TObj.setP_not_raised o _) h1 h2
  | setCValues vs => exact key _ (TObj.setC_rejected o _) (TObj.setC_not_raised o _) h1 h2
  | reset => exact key _ (TObj.setP_rejected o _) (TObj.setP_not_raised o _) h1 h2
  | call m c xs => exact TObj.evalWith_refused _ o m c xs h2

/-- every operation keeps the invariant, and never changes the class, the bounds, the NaN policy, `mininu`, `base` -/
theorem TObj.step_inv (o : TObj ℝ) (op : TOp ℝ) (h : o.Inv) : (o.step op).1.Inv ∧ o.sameSpec (o.step op).1 :=
  ⟨TObj.stepWith_inv _ o op h, TObj.stepWith_spec _ o op⟩

/-- histories: after ANY list of operations (accepted, refused, calls, in any order) the invariant holds -/
theorem TObj.run_inv (o : TObj ℝ) (ops : List (TOp ℝ)) (h : o.Inv) : (o.run ops).1.Inv ∧ o.sameSpec (o.run ops).1 :=
  ⟨TObj.runWith_inv _ ops o h, TObj.runWith_spec _ ops o⟩

/-- a history is its operations one after the other, and replies one to one -/
theorem TObj.run_append (o : TObj ℝ) (ops ops' : List (TOp ℝ)) :
    o.run (ops ++ ops') = ((TObj.run (o.run ops).1 ops').1, (o.run ops).2 ++ (TObj.run (o.run ops).1 ops').2) := by
  unfold TObj.run
  induction ops generalizing o with
  | nil => simp [TObj.runWith]
  | cons op ops ih => simp only [List.cons_append, TObj.runWith, ih]

/-- a method call never changes a parameter or a constant -/
theorem TObj.call_frame (o : TObj ℝ) (m : Method) (c : ℝ) (xs : List ℝ) :
    (o.step (.call m c xs)).1.pvals = o.pvals ∧ (o.step (.call m c xs)).1.cvals = o.cvals :=
  TObj.evalWith_frame _ o m c xs

/-- `reset` is accepted whenever the defaults are inside the bounds (every constructor, `mkObj_inv`), and stores them -/
theorem TObj.reset_done (o : TObj ℝ) (hd : o.pspec.Ok o.pspec.dflts) (hn : ∀ v ∈ o.pspec.dflts, v ≠ none) :
    o.step .reset = ({ o with pvals := o.pspec.dflts }, .done) := by
  simp only [TObj.step, TObj.stepWith, TObj.setP, assign, VSpec.setValues_of_ok o.pspec _ hd hn]

/-! #### per class: after ANY history the parameters are admissible and a call is the closed formula at the current
values (the object's `admissible` hypotheses are discharged from the Vector's own clipping and NaN refusal) -/

/-- Manly -/
theorem Manly.history (mininu minilam : ℝ) (base : Option ℝ) (o0 : TObj ℝ)
    (h0 : mkObj .manly mininu minilam base = .ok o0) (ops : List (TOp ℝ)) :
    ∃ lam : ℝ, ∃ xm : Option ℝ, (o0.run ops).1.pvals = [some lam] ∧ (o0.run ops).1.cvals = [xm] ∧
      (∀ x, xm = some x → Manly.admissible ⟨lam, x⟩) ∧
      ∀ m c xs, (o0.run ops).1.step (.call m c xs) = ((o0.run ops).1,
        match xm with
        | none => Reply.raised .xmaxUnset
        | some x => .values (applyM backwardCensored m (Manly.forward ⟨lam, x⟩) (Manly.backward ⟨lam, x⟩)
            (Manly.jacobian ⟨lam, x⟩) c xs)) := by
  have hinv := TObj.runWith_inv backwardCensored ops o0 (mkObj_inv _ _ _ _ _ h0)
  have hsp := TObj.runWith_spec backwardCensored ops o0
  simp only [mkObj] at h0
  cases h0
  unfold TObj.run
  generalize (TObj.runWith backwardCensored _ ops).1 = o at hinv hsp ⊢
  obtain ⟨hcls, hps, hcs, -, -, -⟩ := hsp
  obtain ⟨-, -, -, hpo, hco, -⟩ := hinv
  simp only at hcls hps hcs
  rw [hps] at hpo
  rw [hcs] at hco
  simp only [VSpec.Ok, okVals_cons, okVals_nil, okSlot_false, okSlot_true] at hpo hco
  obtain ⟨v, rest, hpv, ⟨lam, rfl, hb⟩, rfl⟩ := hpo
  obtain ⟨xm, rest', hcv, hxm, rfl⟩ := hco
  refine ⟨lam, xm, hpv, hcv, ?_, ?_⟩
  · intro x hx
    have := hxm x hx
    simp [inBounds] at hb this
    refine ⟨by norm_num at hb ⊢; linarith [hb.1], by norm_num at hb ⊢; linarith [hb.2], this⟩
  · intro m c xs
    simp only [TObj.step, TObj.stepWith, TObj.evalWith, hcls, hpv, hcv]
    cases xm <;> rfl

/-- Manly, on the object, for any history: `forward` then `backward` returns the array (no hypothesis on the parameters:
they are admissible by construction); with `xmax` unset both calls raise -/
theorem Manly.history_roundtrip (mininu minilam : ℝ) (base : Option ℝ) (o0 : TObj ℝ)
    (h0 : mkObj .manly mininu minilam base = .ok o0) (ops : List (TOp ℝ)) (xs : List ℝ) :
    ((o0.run ops).1.cvals = [none] ∧ ((o0.run ops).1.step (.call .fwd 0 xs)).2 = .raised .xmaxUnset) ∨
    ∃ ys, (o0.run ops).1.step (.call .fwd 0 xs) = ((o0.run ops).1, .values (ys.map some)) ∧
      (o0.run ops).1.step (.call .bwd 0 ys) = ((o0.run ops).1, .values (xs.map some)) := by
  obtain ⟨lam, xm, -, hcv, hadm, hcall⟩ := Manly.history mininu minilam base o0 h0 ops
  cases xm with
  | none => left; exact ⟨hcv, by rw [hcall]⟩
  | some x =>
    right
    have hp := hadm x rfl
    refine ⟨xs.map (Manly.fwd ⟨lam, x⟩), ?_, ?_⟩
    · rw [hcall]; simp [applyM, onArray, Manly.forward, List.map_map, Function.comp_def]
    · rw [hcall]
      simp only [applyM, onArray, List.map_map]
      congr 2
      apply List.map_congr_left
      intro a _
      have := Manly.backward_forward ⟨lam, x⟩ a hp
      simpa [Manly.forward] using this

/-- LogSinh -/
theorem LogSinh.history (mininu minilam : ℝ) (base : Option ℝ) (o0 : TObj ℝ)
    (h0 : mkObj .logsinh mininu minilam base = .ok o0) (ops : List (TOp ℝ)) :
    ∃ loga logb : ℝ, ∃ xm : Option ℝ, (o0.run ops).1.pvals = [some loga, some logb] ∧ (o0.run ops).1.cvals = [xm] ∧
      (∀ x, xm = some x → LogSinh.admissible ⟨loga, logb, x⟩) ∧
      ∀ m c xs, (o0.run ops).1.step (.call m c xs) = ((o0.run ops).1,
        match xm with
        | none => Reply.raised .xmaxUnset
        | some x => .values (applyM backwardCensored m (LogSinh.forward ⟨loga, logb, x⟩) (LogSinh.backward ⟨loga, logb, x⟩)
            (LogSinh.jacobian ⟨loga, logb, x⟩) c xs)) := by
  have hinv := TObj.runWith_inv backwardCensored ops o0 (mkObj_inv _ _ _ _ _ h0)
  have hsp := TObj.runWith_spec backwardCensored ops o0
  simp only [mkObj] at h0
  cases h0
  unfold TObj.run
  generalize (TObj.runWith backwardCensored _ ops).1 = o at hinv hsp ⊢
  obtain ⟨hcls, hps, hcs, -, -, -⟩ := hsp
  obtain ⟨-, -, -, hpo, hco, -⟩ := hinv
  simp only at hcls hps hcs
  rw [hps] at hpo
  rw [hcs] at hco
  simp only [VSpec.Ok, okVals_cons, okVals_nil, okSlot_false, okSlot_true] at hpo hco
  obtain ⟨v, rest, hpv, ⟨loga, rfl, hb1⟩, v2, rest2, rfl, ⟨logb, rfl, hb2⟩, rfl⟩ := hpo
  obtain ⟨xm, rest', hcv, hxm, rfl⟩ := hco
  refine ⟨loga, logb, xm, hpv, hcv, ?_, ?_⟩
  · intro x hx
    have := hxm x hx
    simp [inBounds] at hb1 hb2 this
    refine ⟨?_, ?_, ?_, ?_, this⟩
    · have := hb1.1; norm_num at this ⊢; linarith
    · exact hb1.2
    · have := hb2.1; norm_num at this ⊢; linarith
    · have := hb2.2; norm_num at this ⊢; linarith
  · intro m c xs
    simp only [TObj.step, TObj.stepWith, TObj.evalWith, hcls, hpv, hcv]
    cases xm <;> rfl

/-- LogSinh on the object, any history: arrays inside the guard are recovered -/
theorem LogSinh.history_roundtrip (mininu minilam : ℝ) (base : Option ℝ) (o0 : TObj ℝ)
    (h0 : mkObj .logsinh mininu minilam base = .ok o0) (ops : List (TOp ℝ)) (xs : List ℝ) (loga logb xm : ℝ)
    (hp : (o0.run ops).1.pvals = [some loga, some logb]) (hc : (o0.run ops).1.cvals = [some xm])
    (hx : ∀ x ∈ xs, LogSinh.dom ⟨loga, logb, xm⟩ x) :
    ∃ ys, (o0.run ops).1.step (.call .fwd 0 xs) = ((o0.run ops).1, .values (ys.map some)) ∧
      (o0.run ops).1.step (.call .bwd 0 ys) = ((o0.run ops).1, .values (xs.map some)) := by
  obtain ⟨a, b, x', hpv, hcv, hadm, hcall⟩ := LogSinh.history mininu minilam base o0 h0 ops
  rw [hp] at hpv
  rw [hc] at hcv
  simp only [List.cons.injEq, Option.some.injEq, and_true] at hpv hcv
  obtain ⟨rfl, rfl⟩ := hpv
  subst hcv
  have hadm' := hadm xm rfl
  refine ⟨xs.map (LogSinh.fwd ⟨loga, logb, xm⟩), ?_, ?_⟩
  · rw [hcall]
    simp only [applyM, onArray, List.map_map]
    congr 2
    apply List.map_congr_left
    intro a ha
    have hd : LogSinh.inDom ⟨loga, logb, xm⟩ a = true := hx a ha
    simp [LogSinh.forward, guard, hd]
  · rw [hcall]
    simp only [applyM, onArray, List.map_map]
    congr 2
    apply List.map_congr_left
    intro a ha
    have hd : LogSinh.inDom ⟨loga, logb, xm⟩ a = true := hx a ha
    have := LogSinh.backward_forward ⟨loga, logb, xm⟩ a hadm' (hx a ha)
    simpa [LogSinh.forward, guard, hd] using this

/-- Yeo-Johnson: after any history the parameters satisfy `admissible` (so `backward_forward_near` /
`forward_backward_near` apply to every reachable object) and a call is the closed formula at the current values -/
theorem YeoJohnson.history (mininu minilam : ℝ) (base : Option ℝ) (o0 : TObj ℝ)
    (h0 : mkObj .yeojohnson mininu minilam base = .ok o0) (ops : List (TOp ℝ)) :
    ∃ p : YeoJohnson.Params ℝ, (o0.run ops).1.pvals = [some p.nu, some p.scale, some p.lam] ∧
      YeoJohnson.admissible p ∧
      ∀ m c xs, (o0.run ops).1.step (.call m c xs) = ((o0.run ops).1,
        .values (applyM backwardCensored m (YeoJohnson.forward p) (YeoJohnson.backward p) (YeoJohnson.jacobian p) c xs)) := by
  have hinv := TObj.runWith_inv backwardCensored ops o0 (mkObj_inv _ _ _ _ _ h0)
  have hsp := TObj.runWith_spec backwardCensored ops o0
  simp only [mkObj] at h0
  cases h0
  unfold TObj.run
  generalize (TObj.runWith backwardCensored _ ops).1 = o at hinv hsp ⊢
  obtain ⟨hcls, hps, hcs, -, -, -⟩ := hsp
  obtain ⟨-, -, -, hpo, hco, -⟩ := hinv
  simp only at hcls hps hcs
  rw [hps] at hpo
  rw [hcs] at hco
  simp only [VSpec.Ok, noVec, okVals_cons, okVals_nil, okSlot_false] at hpo hco
  obtain ⟨v, rest, hpv, ⟨nu, rfl, -⟩, v2, rest2, rfl, ⟨scale, rfl, hb2⟩, v3, rest3, rfl, ⟨lam, rfl, hb3⟩, rfl⟩ := hpo
  refine ⟨⟨nu, scale, lam⟩, hpv, ?_, ?_⟩
  · simp [inBounds] at hb2 hb3
    exact ⟨hb2, hb3.1, hb3.2⟩
  · intro m c xs
    simp only [TObj.step, TObj.stepWith, TObj.evalWith, hcls, hpv, hco]

/-- Sinh -/
theorem Sinh.history (mininu minilam : ℝ) (base : Option ℝ) (o0 : TObj ℝ)
    (h0 : mkObj .sinh mininu minilam base = .ok o0) (ops : List (TOp ℝ)) :
    ∃ p : Sinh.Params ℝ, (o0.run ops).1.pvals = [some p.nu, some p.scale] ∧ Sinh.admissible p ∧
      ∀ m c xs, (o0.run ops).1.step (.call m c xs) = ((o0.run ops).1,
        .values (applyM backwardCensored m (Sinh.forward p) (Sinh.backward p) (Sinh.jacobian p) c xs)) := by
  have hinv := TObj.runWith_inv backwardCensored ops o0 (mkObj_inv _ _ _ _ _ h0)
  have hsp := TObj.runWith_spec backwardCensored ops o0
  simp only [mkObj] at h0
  cases h0
  unfold TObj.run
  generalize (TObj.runWith backwardCensored _ ops).1 = o at hinv hsp ⊢
  obtain ⟨hcls, hps, hcs, -, -, -⟩ := hsp
  obtain ⟨-, -, -, hpo, hco, -⟩ := hinv
  simp only at hcls hps hcs
  rw [hps] at hpo
  rw [hcs] at hco
  simp only [VSpec.Ok, noVec, okVals_cons, okVals_nil, okSlot_false] at hpo hco
  obtain ⟨v, rest, hpv, ⟨nu, rfl, -⟩, v2, rest2, rfl, ⟨scale, rfl, hb2⟩, rfl⟩ := hpo
  refine ⟨⟨nu, scale⟩, hpv, ?_, ?_⟩
  · simp [inBounds] at hb2
    exact hb2
  · intro m c xs
    simp only [TObj.step, TObj.stepWith, TObj.evalWith, hcls, hpv, hco]

/-- Sinh on the object, any history, every array -/
theorem Sinh.history_roundtrip (mininu minilam : ℝ) (base : Option ℝ) (o0 : TObj ℝ)
    (h0 : mkObj .sinh mininu minilam base = .ok o0) (ops : List (TOp ℝ)) (xs : List ℝ) :
    ∃ ys, (o0.run ops).1.step (.call .fwd 0 xs) = ((o0.run ops).1, .values (ys.map some)) ∧
      (o0.run ops).1.step (.call .bwd 0 ys) = ((o0.run ops).1, .values (xs.map some)) := by
  obtain ⟨p, -, hadm, hcall⟩ := Sinh.history mininu minilam base o0 h0 ops
  refine ⟨xs.map (Sinh.fwd p), ?_, ?_⟩
  · rw [hcall]; simp [applyM, onArray, Sinh.forward, List.map_map, Function.comp_def]
  · rw [hcall]
    simp only [applyM, onArray, List.map_map]
    congr 2
    apply List.map_congr_left
    intro a _
    have := Sinh.backward_forward p a hadm
    simpa [Sinh.forward] using this

/-- Logit, Log, Reciprocal, BoxCox2: the parameters stay inside the declared bounds (`mininu ≤ nu`, `minilam ≤ lam ≤ 3`,
`-10 ≤ logdelta ≤ 10`) and a call is the closed formula at the current values, the object unchanged -/
theorem Logit.history (mininu minilam : ℝ) (base : Option ℝ) (o0 : TObj ℝ)
    (h0 : mkObj .logit mininu minilam base = .ok o0) (ops : List (TOp ℝ)) :
    ∃ p : Logit.Params ℝ, (o0.run ops).1.pvals = [some p.lower, some p.logdelta] ∧ Logit.admissible p ∧
      ∀ m c xs, (o0.run ops).1.step (.call m c xs) = ((o0.run ops).1,
        .values (applyM backwardCensored m (Logit.forward p) (Logit.backward p) (Logit.jacobian p) c xs)) := by
  have hinv := TObj.runWith_inv backwardCensored ops o0 (mkObj_inv _ _ _ _ _ h0)
  have hsp := TObj.runWith_spec backwardCensored ops o0
  simp only [mkObj] at h0
  cases h0
  unfold TObj.run
  generalize (TObj.runWith backwardCensored _ ops).1 = o at hinv hsp ⊢
  obtain ⟨hcls, hps, hcs, -, -, -⟩ := hsp
  obtain ⟨-, -, -, hpo, hco, -⟩ := hinv
  simp only at hcls hps hcs
  rw [hps] at hpo
  rw [hcs] at hco
  simp only [VSpec.Ok, noVec, okVals_cons, okVals_nil, okSlot_false] at hpo hco
  obtain ⟨v, rest, hpv, ⟨lower, rfl, -⟩, v2, rest2, rfl, ⟨ld, rfl, hb2⟩, rfl⟩ := hpo
  refine ⟨⟨lower, ld⟩, hpv, ?_, ?_⟩
  · simp [inBounds] at hb2
    exact hb2
  · intro m c xs
    simp only [TObj.step, TObj.stepWith, TObj.evalWith, hcls, hpv, hco]

theorem Log.history (mininu minilam : ℝ) (base : Option ℝ) (o0 : TObj ℝ)
    (h0 : mkObj .log mininu minilam base = .ok o0) (ops : List (TOp ℝ)) :
    (∀ b, base = some b → 0 < b) ∧
    ∃ nu : ℝ, (o0.run ops).1.pvals = [some nu] ∧ Log.admissible ⟨nu, base, mininu⟩ ∧
      ∀ m c xs, (o0.run ops).1.step (.call m c xs) = ((o0.run ops).1,
        .values (applyM backwardCensored m (Log.forward ⟨nu, base, mininu⟩) (Log.backward ⟨nu, base, mininu⟩)
          (Log.jacobian ⟨nu, base, mininu⟩) c xs)) := by
  have hinv := TObj.runWith_inv backwardCensored ops o0 (mkObj_inv _ _ _ _ _ h0)
  have hsp := TObj.runWith_spec backwardCensored ops o0
  have hbase : (∀ b, base = some b → 0 < b) ∧ o0 = ⟨.log, ⟨[⟨"nu", some mininu, some mininu, none⟩], false⟩, noVec,
      [some mininu], [], noVec, [], mininu, base⟩ := by
    simp only [mkObj] at h0
    cases base with
    | none => cases h0; exact ⟨by simp, rfl⟩
    | some b =>
      simp only at h0
      split_ifs at h0 with hb
      cases h0
      exact ⟨by intro b' hb'; cases hb'; exact not_le.mp hb, rfl⟩
  obtain ⟨hpos, rfl⟩ := hbase
  refine ⟨hpos, ?_⟩
  unfold TObj.run
  generalize (TObj.runWith backwardCensored _ ops).1 = o at hinv hsp ⊢
  obtain ⟨hcls, hps, hcs, -, hmn, hbs⟩ := hsp
  obtain ⟨-, -, -, hpo, hco, -⟩ := hinv
  simp only at hcls hps hcs hmn hbs
  rw [hps] at hpo
  rw [hcs] at hco
  simp only [VSpec.Ok, noVec, okVals_cons, okVals_nil, okSlot_false] at hpo hco
  obtain ⟨v, rest, hpv, ⟨nu, rfl, hb⟩, rfl⟩ := hpo
  refine ⟨nu, hpv, ?_, ?_⟩
  · simp [inBounds] at hb
    exact hb
  · intro m c xs
    simp only [TObj.step, TObj.stepWith, TObj.evalWith, hcls, hpv, hco, hmn, hbs]

theorem Reciprocal.history (mininu minilam : ℝ) (base : Option ℝ) (o0 : TObj ℝ)
    (h0 : mkObj .reciprocal mininu minilam base = .ok o0) (ops : List (TOp ℝ)) :
    ∃ nu : ℝ, (o0.run ops).1.pvals = [some nu] ∧ Reciprocal.admissible ⟨nu, mininu⟩ ∧
      ∀ m c xs, (o0.run ops).1.step (.call m c xs) = ((o0.run ops).1,
        .values (applyM backwardCensored m (Reciprocal.forward ⟨nu, mininu⟩) (Reciprocal.backward ⟨nu, mininu⟩)
          (Reciprocal.jacobian ⟨nu, mininu⟩) c xs)) := by
  have hinv := TObj.runWith_inv backwardCensored ops o0 (mkObj_inv _ _ _ _ _ h0)
  have hsp := TObj.runWith_spec backwardCensored ops o0
  simp only [mkObj] at h0
  cases h0
  unfold TObj.run
  generalize (TObj.runWith backwardCensored _ ops).1 = o at hinv hsp ⊢
  obtain ⟨hcls, hps, hcs, -, hmn, -⟩ := hsp
  obtain ⟨-, -, -, hpo, hco, -⟩ := hinv
  simp only at hcls hps hcs hmn
  rw [hps] at hpo
  rw [hcs] at hco
  simp only [VSpec.Ok, noVec, okVals_cons, okVals_nil, okSlot_false] at hpo hco
  obtain ⟨v, rest, hpv, ⟨nu, rfl, hb⟩, rfl⟩ := hpo
  refine ⟨nu, hpv, ?_, ?_⟩
  · simp [inBounds] at hb
    exact hb
  · intro m c xs
    simp only [TObj.step, TObj.stepWith, TObj.evalWith, hcls, hpv, hco, hmn]

theorem BoxCox2.history (mininu minilam : ℝ) (base : Option ℝ) (o0 : TObj ℝ)
    (h0 : mkObj .boxcox2 mininu minilam base = .ok o0) (ops : List (TOp ℝ)) :
    ∃ nu lam : ℝ, (o0.run ops).1.pvals = [some nu, some lam] ∧ mininu ≤ nu ∧ minilam ≤ lam ∧ lam ≤ 3 ∧
      ∀ m c xs, (o0.run ops).1.step (.call m c xs) = ((o0.run ops).1,
        .values (applyM backwardCensored m (BoxCox2.forward ⟨nu, lam, mininu⟩) (BoxCox2.backward ⟨nu, lam, mininu⟩)
          (BoxCox2.jacobian ⟨nu, lam, mininu⟩) c xs)) := by
  have hinv := TObj.runWith_inv backwardCensored ops o0 (mkObj_inv _ _ _ _ _ h0)
  have hsp := TObj.runWith_spec backwardCensored ops o0
  simp only [mkObj] at h0
  split_ifs at h0 with hbb
  cases h0
  unfold TObj.run
  generalize (TObj.runWith backwardCensored _ ops).1 = o at hinv hsp ⊢
  obtain ⟨hcls, hps, hcs, -, hmn, -⟩ := hsp
  obtain ⟨-, -, -, hpo, hco, -⟩ := hinv
  simp only at hcls hps hcs hmn
  rw [hps] at hpo
  rw [hcs] at hco
  simp only [VSpec.Ok, noVec, bc2Spec, okVals_cons, okVals_nil, okSlot_false] at hpo hco
  obtain ⟨v, rest, hpv, ⟨nu, rfl, hb1⟩, v2, rest2, rfl, ⟨lam, rfl, hb2⟩, rfl⟩ := hpo
  simp [inBounds] at hb1 hb2
  refine ⟨nu, lam, hpv, hb1, hb2.1, by have := hb2.2; norm_num at this; exact this, ?_⟩
  intro m c xs
  simp only [TObj.step, TObj.stepWith, TObj.evalWith, hcls, hpv, hco, hmn]

/-- BoxCox2 on the object, any history: arrays with `x + nu > 0` are recovered -/
theorem BoxCox2.history_roundtrip (mininu minilam : ℝ) (base : Option ℝ) (o0 : TObj ℝ)
    (h0 : mkObj .boxcox2 mininu minilam base = .ok o0) (ops : List (TOp ℝ)) (xs : List ℝ) (nu lam : ℝ)
    (hp : (o0.run ops).1.pvals = [some nu, some lam]) (hx : ∀ x ∈ xs, 0 < x + nu) :
    ∃ ys, (o0.run ops).1.step (.call .fwd 0 xs) = ((o0.run ops).1, .values (ys.map some)) ∧
      (o0.run ops).1.step (.call .bwd 0 ys) = ((o0.run ops).1, .values (xs.map some)) := by
  obtain ⟨nu', lam', hpv, -, -, -, hcall⟩ := BoxCox2.history mininu minilam base o0 h0 ops
  rw [hp] at hpv
  simp only [List.cons.injEq, Option.some.injEq, and_true] at hpv
  obtain ⟨rfl, rfl⟩ := hpv
  refine ⟨xs.map (BoxCox2.fwd ⟨nu, lam, mininu⟩), ?_, ?_⟩
  · rw [hcall]; simp [applyM, onArray, BoxCox2.forward, List.map_map, Function.comp_def]
  · rw [hcall]
    simp only [applyM, onArray, List.map_map]
    congr 2
    apply List.map_congr_left
    intro a ha
    simp only [Function.comp, BoxCox2.backward]
    rw [BoxCox2.bwd_fwd _ (hx a ha)]

/-- BoxCox1lam: the call first assigns the inner BoxCox2's parameter vector; on every reachable object that assignment
is accepted and stores `[nu, lam]` unchanged (they are already inside the inner bounds), so the result is BoxCox2's at the
current `nu`, `lam` — whatever the inner object held before -/
theorem BoxCox1lam.history (mininu minilam : ℝ) (base : Option ℝ) (o0 : TObj ℝ)
    (h0 : mkObj .boxcox1lam mininu minilam base = .ok o0) (ops : List (TOp ℝ)) :
    ∃ lam : ℝ, ∃ nuC : Option ℝ, (o0.run ops).1.pvals = [some lam] ∧ (o0.run ops).1.cvals = [nuC] ∧
      minilam ≤ lam ∧ lam ≤ 3 ∧ (∀ nu, nuC = some nu → mininu ≤ nu) ∧
      ∀ m c xs, (o0.run ops).1.step (.call m c xs) =
        match nuC with
        | none => ((o0.run ops).1, Reply.raised .nuUnset)
        | some nu => ({ (o0.run ops).1 with ivals := [some nu, some lam] },
            .values (applyM backwardCensored m (BoxCox2.forward ⟨nu, lam, mininu⟩) (BoxCox2.backward ⟨nu, lam, mininu⟩)
              (BoxCox2.jacobian ⟨nu, lam, mininu⟩) c xs)) := by
  have hinv := TObj.runWith_inv backwardCensored ops o0 (mkObj_inv _ _ _ _ _ h0)
  have hsp := TObj.runWith_spec backwardCensored ops o0
  simp only [mkObj] at h0
  split_ifs at h0 with hb
  cases h0
  unfold TObj.run
  generalize (TObj.runWith backwardCensored _ ops).1 = o at hinv hsp ⊢
  obtain ⟨hcls, hps, hcs, his, hmn, -⟩ := hsp
  obtain ⟨-, -, -, hpo, hco, -⟩ := hinv
  simp only at hcls hps hcs his hmn
  rw [hps] at hpo
  rw [hcs] at hco
  simp only [VSpec.Ok, okVals_cons, okVals_nil, okSlot_false, okSlot_true] at hpo hco
  obtain ⟨v, rest, hpv, ⟨lam, rfl, hb1⟩, rfl⟩ := hpo
  obtain ⟨nuC, rest', hcv, hnu, rfl⟩ := hco
  simp [inBounds] at hb1
  have hl3 : lam ≤ 3 := by have := hb1.2; norm_num at this; exact this
  refine ⟨lam, nuC, hpv, hcv, hb1.1, hl3, ?_, ?_⟩
  · intro nu hnu'
    have := hnu nu hnu'
    simpa [inBounds] using this
  · intro m c xs
    cases nuC with
    | none => simp only [TObj.step, TObj.stepWith, TObj.evalWith, hcls, hpv, hcv]
    | some nu =>
      have hn := hnu nu rfl
      simp [inBounds] at hn
      have hset : o.ispec.setValues [some nu, some lam] = .ok [some nu, some lam] := by
        rw [his]
        apply VSpec.setValues_of_ok
        · simp [VSpec.Ok, bc2Spec, okVals, okSlot, inBounds]
          exact ⟨hn, hb1.1, hb1.2⟩
        · simp
      simp only [TObj.step, TObj.stepWith, TObj.evalWith, hcls, hpv, hcv, hset, hmn]

theorem BoxCox1nu.history (mininu minilam : ℝ) (base : Option ℝ) (o0 : TObj ℝ)
    (h0 : mkObj .boxcox1nu mininu minilam base = .ok o0) (ops : List (TOp ℝ)) :
    ∃ nu : ℝ, ∃ lamC : Option ℝ, (o0.run ops).1.pvals = [some nu] ∧ (o0.run ops).1.cvals = [lamC] ∧
      mininu ≤ nu ∧ (∀ lam, lamC = some lam → minilam ≤ lam ∧ lam ≤ 3) ∧
      ∀ m c xs, (o0.run ops).1.step (.call m c xs) =
        match lamC with
        | none => ((o0.run ops).1, Reply.raised .lamUnset)
        | some lam => ({ (o0.run ops).1 with ivals := [some nu, some lam] },
            .values (applyM backwardCensored m (BoxCox2.forward ⟨nu, lam, mininu⟩) (BoxCox2.backward ⟨nu, lam, mininu⟩)
              (BoxCox2.jacobian ⟨nu, lam, mininu⟩) c xs)) := by
  have hinv := TObj.runWith_inv backwardCensored ops o0 (mkObj_inv _ _ _ _ _ h0)
  have hsp := TObj.runWith_spec backwardCensored ops o0
  simp only [mkObj] at h0
  split_ifs at h0 with hb
  cases h0
  unfold TObj.run
  generalize (TObj.runWith backwardCensored _ ops).1 = o at hinv hsp ⊢
  obtain ⟨hcls, hps, hcs, his, hmn, -⟩ := hsp
  obtain ⟨-, -, -, hpo, hco, -⟩ := hinv
  simp only at hcls hps hcs his hmn
  rw [hps] at hpo
  rw [hcs] at hco
  simp only [VSpec.Ok, okVals_cons, okVals_nil, okSlot_false, okSlot_true] at hpo hco
  obtain ⟨v, rest, hpv, ⟨nu, rfl, hb1⟩, rfl⟩ := hpo
  obtain ⟨lamC, rest', hcv, hlam, rfl⟩ := hco
  simp [inBounds] at hb1
  have hl : ∀ lam, lamC = some lam → minilam ≤ lam ∧ lam ≤ 3 := by
    intro lam hl'
    have := hlam lam hl'
    simp [inBounds] at this
    exact ⟨this.1, by have := this.2; norm_num at this; exact this⟩
  refine ⟨nu, lamC, hpv, hcv, hb1, hl, ?_⟩
  intro m c xs
  cases lamC with
  | none => simp only [TObj.step, TObj.stepWith, TObj.evalWith, hcls, hpv, hcv]
  | some lam =>
    have hn := hlam lam rfl
    simp [inBounds] at hn
    have hset : o.ispec.setValues [some nu, some lam] = .ok [some nu, some lam] := by
      rw [his]
      apply VSpec.setValues_of_ok
      · simp [VSpec.Ok, bc2Spec, okVals, okSlot, inBounds]
        exact ⟨hb1, hn.1, hn.2⟩
      · simp
    simp only [TObj.step, TObj.stepWith, TObj.evalWith, hcls, hpv, hcv, hset, hmn]

theorem BoxCox2sym.history (mininu minilam : ℝ) (base : Option ℝ) (o0 : TObj ℝ)
    (h0 : mkObj .boxcox2sym mininu minilam base = .ok o0) (ops : List (TOp ℝ)) :
    ∃ nu lam : ℝ, (o0.run ops).1.pvals = [some nu, some lam] ∧ mininu ≤ nu ∧ minilam ≤ lam ∧ lam ≤ 3 ∧
      ∀ m c xs, (o0.run ops).1.step (.call m c xs) =
        ({ (o0.run ops).1 with ivals := [some nu, some lam] },
          .values (applyM backwardCensored m (BoxCox2sym.forward ⟨nu, lam, mininu⟩) (BoxCox2sym.backward ⟨nu, lam, mininu⟩)
            (BoxCox2sym.jacobian ⟨nu, lam, mininu⟩) c xs)) := by
  have hinv := TObj.runWith_inv backwardCensored ops o0 (mkObj_inv _ _ _ _ _ h0)
  have hsp := TObj.runWith_spec backwardCensored ops o0
  simp only [mkObj] at h0
  split_ifs at h0 with hb
  cases h0
  unfold TObj.run
  generalize (TObj.runWith backwardCensored _ ops).1 = o at hinv hsp ⊢
  obtain ⟨hcls, hps, hcs, his, hmn, -⟩ := hsp
  obtain ⟨-, -, -, hpo, hco, -⟩ := hinv
  simp only at hcls hps hcs his hmn
  rw [hps] at hpo
  rw [hcs] at hco
  simp only [VSpec.Ok, noVec, bc2Spec, okVals_cons, okVals_nil, okSlot_false] at hpo hco
  obtain ⟨v, rest, hpv, ⟨nu, rfl, hb1⟩, v2, rest2, rfl, ⟨lam, rfl, hb2⟩, rfl⟩ := hpo
  simp [inBounds] at hb1 hb2
  refine ⟨nu, lam, hpv, hb1, hb2.1, by have := hb2.2; norm_num at this; exact this, ?_⟩
  intro m c xs
  have hset : o.ispec.setValues [some nu, some lam] = .ok [some nu, some lam] := by
    rw [his]
    apply VSpec.setValues_of_ok
    · simp [VSpec.Ok, bc2Spec, okVals, okSlot, inBounds]
      exact ⟨hb1, hb2.1, hb2.2⟩
    · simp
  simp only [TObj.step, TObj.stepWith, TObj.evalWith, hcls, hpv, hco, hset, hmn]

/-- BoxCox1lam on the object, ANY history (refused assignments, stale inner state, calls in any order): arrays with
`x + nu > 0` are recovered -/
theorem BoxCox1lam.history_roundtrip (mininu minilam : ℝ) (base : Option ℝ) (o0 : TObj ℝ)
    (h0 : mkObj .boxcox1lam mininu minilam base = .ok o0) (ops : List (TOp ℝ)) (xs : List ℝ) (lam nu : ℝ)
    (hp : (o0.run ops).1.pvals = [some lam]) (hc : (o0.run ops).1.cvals = [some nu]) (hx : ∀ x ∈ xs, 0 < x + nu) :
    ∃ ys, ((o0.run ops).1.step (.call .fwd 0 xs)).2 = .values (ys.map some) ∧
      (((o0.run ops).1.step (.call .fwd 0 xs)).1.step (.call .bwd 0 ys)).2 = .values (xs.map some) := by
  obtain ⟨lam', nuC, hpv, hcv, -, -, -, hcall⟩ := BoxCox1lam.history mininu minilam base o0 h0 ops
  rw [hp] at hpv; rw [hc] at hcv
  simp only [List.cons.injEq, Option.some.injEq, and_true] at hpv hcv
  subst hpv; subst hcv
  -- the object after the forward call is again reachable: one more operation of the history
  obtain ⟨lam2, nuC2, hpv2, hcv2, -, -, -, hcall2⟩ :=
    BoxCox1lam.history mininu minilam base o0 h0 (ops ++ [.call .fwd 0 xs])
  have hrun : (o0.run (ops ++ [.call .fwd 0 xs])).1 = ((o0.run ops).1.step (.call .fwd 0 xs)).1 := by
    rw [TObj.run_append]
    simp [TObj.run, TObj.runWith, TObj.step]
  rw [hrun] at hpv2 hcv2 hcall2
  have hf := TObj.call_frame (o0.run ops).1 .fwd 0 xs
  rw [hf.1, hp] at hpv2
  rw [hf.2, hc] at hcv2
  simp only [List.cons.injEq, Option.some.injEq, and_true] at hpv2 hcv2
  subst hpv2; subst hcv2
  refine ⟨xs.map (BoxCox2.fwd ⟨nu, lam, mininu⟩), ?_, ?_⟩
  · rw [hcall]; simp [applyM, onArray, BoxCox2.forward, List.map_map, Function.comp_def]
  · rw [hcall2]
    simp only [applyM, onArray, List.map_map]
    congr 1
    apply List.map_congr_left
    intro a ha
    simp only [Function.comp, BoxCox2.backward]
    rw [BoxCox2.bwd_fwd _ (hx a ha)]

/-- reading back: after an accepted `t[k] = x` with `x` a number, `t[k]` is `x` clipped to the bounds of `k` — `x` itself
when it is inside them — and every other key reads what it read before -/
theorem TObj.getItem_setItem (o : TObj ℝ) (k : String) (x : ℝ) (h : (o.step (.setItem k (some x))).2 = .done) :
    (∃ lo hi, (o.step (.setItem k (some x))).1.getItem k = .ok (some (clipv lo hi x))) ∧
    ∀ k', k' ≠ k → (o.step (.setItem k (some x))).1.getItem k' = o.getItem k' := by
  have hP : ∀ (sp : VSpec ℝ) (vals l : List (Option ℝ)), sp.setName vals k (some x) = .ok l →
      (∃ lo hi, sp.getName l k = .ok (some (clipv lo hi x))) ∧ ∀ k', k' ≠ k → sp.getName l k' = sp.getName vals k' := by
    intro sp vals l hs
    unfold VSpec.setName at hs
    split_ifs at hs with h1 h2
    rcases hr : setAt sp.slots vals k (some x) with _ | l'
    · simp [hr] at hs
    · simp only [hr, Except.ok.injEq] at hs
      subst hs
      obtain ⟨⟨s, _, _, hg⟩, hf⟩ := setAt_get k x sp.slots vals l' hr
      refine ⟨⟨s.lo, s.hi, ?_⟩, ?_⟩
      · unfold VSpec.getName; rw [if_neg h1, hg]
      · intro k' hk'
        unfold VSpec.getName
        rw [hf k' hk']
  simp only [TObj.step, TObj.stepWith] at h ⊢
  by_cases hc : o.cspec.slots.isEmpty = true
  · simp only [hc, if_true] at h ⊢
    rcases hs : o.pspec.setName o.pvals k (some x) with e | l
    · simp [TObj.setP, assign, hs] at h
    · obtain ⟨h1, h2⟩ := hP _ _ _ hs
      simp only [TObj.setP, assign, TObj.getItem, hc, if_true]
      exact ⟨h1, h2⟩
  · simp only [hc, Bool.false_eq_true, if_false] at h ⊢
    by_cases hp : o.pspec.names.contains k = true
    · simp only [hp, if_true] at h ⊢
      rcases hs : o.pspec.setName o.pvals k (some x) with e | l
      · simp [TObj.setP, assign, hs] at h
      · obtain ⟨h1, h2⟩ := hP _ _ _ hs
        simp only [TObj.setP, assign, TObj.getItem, hc, Bool.false_eq_true, if_false, hp, if_true]
        refine ⟨h1, ?_⟩
        intro k' hk'
        by_cases hp' : o.pspec.names.contains k' = true
        · simp only [hp', if_true]; exact h2 k' hk'
        · simp only [hp', Bool.false_eq_true, if_false]
    · simp only [hp, Bool.false_eq_true, if_false] at h ⊢
      rcases hs : o.cspec.setName o.cvals k (some x) with e | l
      · simp [TObj.setC, assign, hs] at h
      · obtain ⟨h1, h2⟩ := hP _ _ _ hs
        simp only [TObj.setC, assign, TObj.getItem, hc, Bool.false_eq_true, if_false, hp]
        refine ⟨h1, ?_⟩
        intro k' hk'
        by_cases hp' : o.pspec.names.contains k' = true
        · simp only [hp', if_true]
        · simp only [hp', Bool.false_eq_true, if_false]; exact h2 k' hk'


/-! #### get_transform -/

/-- `get_transform(name, **kwargs)` is the constructor followed by the attribute assignments `trans.k = v` in keyword
order (keywords that name nothing are ignored by both), none of which was refused -/
theorem applyKw_eq_run : ∀ (kws : List (String × Option ℝ)) (o o' : TObj ℝ), applyKw o kws = .ok o' →
    o.run (kws.map fun kv => TOp.setAttr kv.1 kv.2) = (o', kws.map fun _ => Reply.done)
  | [], o, o', h => by simp [applyKw] at h; subst h; simp [TObj.run, TObj.runWith]
  | (k, v) :: kws, o, o', h => by
    simp only [applyKw] at h
    simp only [List.map_cons, TObj.run, TObj.runWith, TObj.stepWith]
    split_ifs at h ⊢ with h1 h2
    · rcases hs : o.pspec.setName o.pvals k v with e | l
      · simp [hs] at h
      · simp only [hs] at h
        have ih := applyKw_eq_run kws _ o' h
        simp only [TObj.run] at ih
        simp only [TObj.setP, assign, ih]
    · rcases hs : o.cspec.setName o.cvals k v with e | l
      · simp [hs] at h
      · simp only [hs] at h
        have ih := applyKw_eq_run kws _ o' h
        simp only [TObj.run] at ih
        simp only [TObj.setC, assign, ih]
    · have ih := applyKw_eq_run kws o o' h
      simp only [TObj.run] at ih
      simp only [ih]

theorem getTransform_eq_run (name : String) (mininu minilam : ℝ) (base : Option ℝ) (kws : List (String × Option ℝ))
    (o : TObj ℝ) (h : getTransform name mininu minilam base kws = .ok o) :
    ∃ c o0, Cls.ofName? name = some c ∧ mkObj c mininu minilam base = .ok o0 ∧
      o0.run (kws.map fun kv => TOp.setAttr kv.1 kv.2) = (o, kws.map fun _ => Reply.done) ∧ o.Inv := by
  unfold getTransform at h
  rcases hc : Cls.ofName? name with _ | c
  · simp [hc] at h
  · simp only [hc] at h
    rcases hm : mkObj c mininu minilam base with e | o0
    · simp [hm] at h
    · simp only [hm] at h
      have hr := applyKw_eq_run kws o0 o h
      refine ⟨c, o0, rfl, hm, hr, ?_⟩
      have := (TObj.run_inv o0 (kws.map fun kv => TOp.setAttr kv.1 kv.2) (mkObj_inv _ _ _ _ _ hm)).1
      rw [hr] at this
      exact this

/-- the object model and the keyword catalogue of Model/C01 name the same classes, in the same order, and every class
of the catalogue is found by its name -/
theorem Cls.names_eq_catalogue : Cls.all.map Cls.name = catalogue.map (·.name) ∧
    ∀ c ∈ Cls.all, Cls.ofName? c.name = some c := by decide

/-- ... and the same parameters and constants -/
theorem mkObj_names : ∀ c ∈ Cls.all, ∀ spec ∈ catalogue, spec.name = c.name →
    ∀ (o : TObj ℝ), mkObj c (1e-10 : ℝ) 0 none = .ok o → o.pspec.names = spec.params ∧ o.cspec.names = spec.constants := by
  intro c hc spec hs hn o ho
  have hb : lamBoundsOk (0 : ℝ) = true := by
    unfold lamBoundsOk eps; norm_num
  simp only [Cls.all, List.mem_cons, List.not_mem_nil, or_false] at hc
  simp only [catalogue, List.mem_cons, List.not_mem_nil, or_false] at hs
  rcases hc with rfl | rfl | rfl | rfl | rfl | rfl | rfl | rfl | rfl | rfl | rfl | rfl | rfl <;>
    rcases hs with rfl | rfl | rfl | rfl | rfl | rfl | rfl | rfl | rfl | rfl | rfl | rfl | rfl <;>
    simp only [Cls.name] at hn <;> (try exact absurd hn (by decide)) <;>
    simp only [mkObj, hb, if_true] at ho <;> cases ho <;> simp [VSpec.names, bc2Spec, noVec]

/-! ### hypotheses the property text does not state are necessary (counterexamples in the model's arithmetic) -/

/-- `Log.bf p ≠ 0` cannot be dropped: base 1 (`log base = 0`; accepted by the constructor, which only refuses
`base ≤ 0`) is not a logarithm base — the forward values collapse and `x` is not recovered -/
theorem Log.base_one_counterexample : ∃ (p : Log.Params ℝ) (x : ℝ), p.base = some 1 ∧ Log.admissible p ∧ Log.dom p x ∧
    Log.bf p = 0 ∧ (Log.forward p x).bind (Log.backward p) ≠ some x := by
  refine ⟨⟨1, some 1, 1e-10⟩, 1, rfl, ?_, ?_, ?_, ?_⟩
  · simp only [Log.admissible]; norm_num
  · simp only [Log.dom]; norm_num
  · simp [Log.bf]
  · simp [Log.forward, Log.backward, Log.fwd, Log.bwd, Log.bf]

/-- `nu > 0` cannot be dropped for BoxCox2sym on the logarithm branch: at `nu = 0` there is no `BC(0)` and `x = 1` is not
recovered -/
theorem BoxCox2sym.nu_zero_counterexample : ∃ (p : BoxCox2sym.Params ℝ) (x : ℝ), p.nu = 0 ∧ lamBig p.lam = false ∧
    (BoxCox2sym.forward p x).bind (BoxCox2sym.backward p) ≠ some x := by
  have hl : lamBig (0 : ℝ) = false := by
    unfold lamBig; rw [decide_eq_false_iff_not, absv_eq, abs_zero]; exact not_lt.mpr eps_pos.le
  refine ⟨⟨0, 0, 0⟩, 1, rfl, hl, ?_⟩
  have h1 : sign (1 : ℝ) = 1 := sign_pos one_pos
  simp [BoxCox2sym.forward, BoxCox2sym.backward, BoxCox2sym.fwd, BoxCox2sym.bwd, BoxCox2sym.y0, BoxCox2.fwd,
    BoxCox2sym.toBC, hl, h1, absv_eq, sign_zero]


section Rounded
open Rd
/-! ### floating point: exact statements that survive rounding (`Rd M`, Lemmas/C01Rnd: every operation of the model text
followed by an arbitrary monotone rounding with `rnd 0 = 0`, `rnd 1 = 1`, `rnd (-x) = -rnd x`; any `exp ≥ 0`) -/

/-- Softmax.backward in floating point returns entries in `[0, 1]` -/
theorem Softmax.rounded_backward_range (M : FP) (ys : List (Rd M)) :
    ∀ x ∈ Softmax.bwdRow ys, 0 ≤ x.val ∧ x.val ≤ 1 := Softmax.bwdRow_rd_range ys

/-- hence `forward(backward(y))` is never refused for a negative entry, whatever the rounding errors: only the row-sum
test (`codom`) can refuse a backward image -/
theorem Softmax.rounded_forward_backward_not_negative (M : FP) (ys : List (Rd M)) :
    Softmax.anyNeg (Softmax.bwdRow ys) = false ∧ (Softmax.backward ys >>= Softmax.forward) ≠ .error .negative := by
  have h : Softmax.anyNeg (Softmax.bwdRow ys) = false := by
    unfold Softmax.anyNeg
    rw [List.any_eq_false]
    intro x hx
    have := (Softmax.bwdRow_rd_range ys x hx).1
    simp only [decide_eq_true_eq, Rd.lt_def, Rd.zero_val, not_lt]
    exact this
  refine ⟨h, ?_⟩
  show Softmax.forward (Softmax.bwdRow ys) ≠ _
  unfold Softmax.forward
  rw [h]
  simp only [Bool.false_eq_true, if_false]
  split_ifs <;> simp

/-- BoxCox2sym in floating point: `0` is mapped to `0` exactly in both directions, and both directions are exactly odd
(`sign`, `abs` and the multiplication by `±1` commit no rounding error) -/
theorem BoxCox2sym.rounded_zero (M : FP) (p : BoxCox2sym.Params (Rd M)) :
    (BoxCox2sym.fwd p 0).val = 0 ∧ (BoxCox2sym.bwd p 0).val = 0 := by
  have hs : sign (0 : Rd M) = 0 := by
    unfold sign
    rw [if_neg (by simp [Rd.lt_def]), if_neg (by simp [Rd.lt_def])]
  constructor
  · simp only [BoxCox2sym.fwd, hs, Rd.mul_val, Rd.zero_val, zero_mul, M.rnd_zero]
  · simp only [BoxCox2sym.bwd, hs, Rd.mul_val, Rd.zero_val, zero_mul, M.rnd_zero]

theorem BoxCox2sym.rounded_odd (M : FP) (p : BoxCox2sym.Params (Rd M)) (x : Rd M) :
    (BoxCox2sym.fwd p (-x)).val = -(BoxCox2sym.fwd p x).val ∧ (BoxCox2sym.bwd p (-x)).val = -(BoxCox2sym.bwd p x).val := by
  have habs : absv (-x) = absv x := by
    unfold absv
    rcases lt_trichotomy x.val 0 with h | h | h
    · rw [if_neg (by simp [Rd.lt_def]; linarith), if_pos (by simp [Rd.lt_def]; exact h)]
    · have : x = ⟨0⟩ := by cases x; simp_all
      subst this
      rw [if_neg (by simp [Rd.lt_def]), if_neg (by simp [Rd.lt_def])]
      show (⟨-0⟩ : Rd M) = ⟨0⟩
      simp
    · rw [if_pos (by simp [Rd.lt_def]; exact h), if_neg (by simp [Rd.lt_def]; linarith)]
      show (⟨- -x.val⟩ : Rd M) = x
      cases x; simp
  have hsign : (sign (-x)).val = -(sign x).val := by
    unfold sign
    rcases lt_trichotomy x.val 0 with h | h | h
    · rw [if_pos (by simp [Rd.lt_def]; exact h), if_neg (by simp [Rd.lt_def]; linarith), if_pos (by simp [Rd.lt_def]; exact h)]
      simp
    · rw [if_neg (by simp [Rd.lt_def, h]), if_neg (by simp [Rd.lt_def, h]), if_neg (by simp [Rd.lt_def, h]),
        if_neg (by simp [Rd.lt_def, h])]
      simp
    · rw [if_neg (by simp [Rd.lt_def]; linarith), if_pos (by simp [Rd.lt_def]; exact h), if_pos (by simp [Rd.lt_def]; exact h)]
      simp
  constructor
  · simp only [BoxCox2sym.fwd, habs, Rd.mul_val, hsign, neg_mul, M.rnd_neg]
  · simp only [BoxCox2sym.bwd, habs, Rd.mul_val, hsign, neg_mul, M.rnd_neg]

/-- `backward_censored(y, censor) ≥ censor` in floating point, for any transform (any `forward`, `backward`) -/
theorem backwardCensored_ge_rounded (M : FP) (f b : Rd M → Option (Rd M)) (y c r : Rd M)
    (h : backwardCensored f b y c = some r) : c.val ≤ r.val := by
  unfold backwardCensored at h
  simp only [Option.map_eq_some_iff] at h
  obtain ⟨v, _, rfl⟩ := h
  unfold maxv
  split_ifs with hlt
  · exact le_refl _
  · exact not_lt.mp hlt

noncomputable example : FP := FP.exact

end Rounded

/-! ### floating point (outside the proofs) -/

/-- what the property says about the float64 code, for one class (BoxCox2 shown; the other classes are analogous):
inside the conditioning region the Float instance of the model returns `x` to 1e-6. The real theorems above are the
exact-arithmetic part of this statement; the rounding part is not provable here (Lean's `Float` operations are opaque)
and is carried by the correspondence (model's Float instance = numpy up to the propagated bound) and by the oracle. -/
def BoxCox2.float_roundtrip_statement : Prop :=
  ∀ (p : BoxCox2.Params Float) (x : Float),
    0 < x + p.nu → (p.lam * Float.log (x + p.nu)).abs ≤ 13.8 → 1e-9 < p.lam.abs →
    ((BoxCox2.bwd p (BoxCox2.fwd p x)) - x).abs ≤ 1e-6 * (if x.abs < p.nu.abs then p.nu.abs else x.abs)

/-! ### non-vacuity: every hypothesis above is met by concrete, non-trivial inputs -/

example : Logit.dom (⟨0, 0⟩ : Logit.Params ℝ) (1 / 2) := by
  simp only [Logit.dom, Logit.upper, transc_exp, Real.exp_zero]; norm_num
example : Log.dom (⟨0.1, none, 1e-10⟩ : Log.Params ℝ) 1 := by simp only [Log.dom]; norm_num
example : Log.bf (⟨0.1, some 10, 1e-10⟩ : Log.Params ℝ) ≠ 0 :=
  Log.bf_ne_zero _ (fun b hb => by cases hb; norm_num)
example : BoxCox2.dom (⟨0.1, 0, 1e-10⟩ : BoxCox2.Params ℝ) (-0.05) := by simp only [BoxCox2.dom]; norm_num
/-- `lam = 0` is on the logarithm branch, `lam = 0.5` and `lam = 1.1e-10` on the power branch -/
example : lamBig (0 : ℝ) = false ∧ lamBig (0.5 : ℝ) = true ∧ lamBig (1.1e-10 : ℝ) = true ∧
    lamBig (1e-10 : ℝ) = false := by
  refine ⟨?_, ?_, ?_, ?_⟩ <;> unfold lamBig <;> simp only [decide_eq_true_iff, decide_eq_false_iff_not, absv_eq, eps]
    <;> norm_num [abs_of_pos]
example : BoxCox2.codom (⟨0.1, 0.5, 1e-10⟩ : BoxCox2.Params ℝ) 1 := by
  intro _; norm_num
example : BoxCox2.codom (⟨0.1, 0, 1e-10⟩ : BoxCox2.Params ℝ) (-7) := by
  intro h
  have : lamBig (0 : ℝ) = false := by
    unfold lamBig; simp only [decide_eq_false_iff_not, absv_eq, eps]; norm_num
  rw [this] at h; cases h
example : YeoJohnson.admissible (⟨0, 1, 0⟩ : YeoJohnson.Params ℝ) := by
  simp only [YeoJohnson.admissible]; norm_num
example : YeoJohnson.admissible (⟨-3, 1e-5, 2⟩ : YeoJohnson.Params ℝ) := by
  simp only [YeoJohnson.admissible]; norm_num
/-- `lam = 0` / `lam = 2` select the logarithm formulas, `lam = 1e-7` / `2.0001` do not -/
example : isclose0 (0 : ℝ) = true ∧ isclose0 (1e-7 : ℝ) = false ∧ isclose2 (2 : ℝ) = true ∧
    isclose2 (2.0001 : ℝ) = false := by
  refine ⟨?_, ?_, ?_, ?_⟩ <;> simp only [isclose0, isclose2, decide_eq_true_iff, decide_eq_false_iff_not, absv_eq]
    <;> norm_num [abs_of_pos]
example : LogSinh.admissible (⟨-1, 0, 1⟩ : LogSinh.Params ℝ) := by
  simp only [LogSinh.admissible, eps]; norm_num
example : LogSinh.dom (⟨0, 0, 1⟩ : LogSinh.Params ℝ) 1 := by
  simp only [LogSinh.dom, LogSinh.inDom, LogSinh.a, LogSinh.b, transc_exp, Real.exp_zero, eps, decide_eq_true_iff]
  norm_num
/-- large arguments are ordinary members of the domain: `mininu = nu = 0.1`, `x = 20`; default `mininu`, `x = 1e10` -/
example : Reciprocal.dom (⟨0.1, 0.1⟩ : Reciprocal.Params ℝ) 20 ∧ Reciprocal.dom (⟨1e-10, 1e-10⟩ : Reciprocal.Params ℝ) 1e10 := by
  simp only [Reciprocal.dom]; norm_num
example : Softmax.dom ([0.2, 0.3] : List ℝ) := by
  refine ⟨?_, ?_⟩
  · intro x hx; simp only [List.mem_cons, List.not_mem_nil, or_false] at hx
    rcases hx with rfl | rfl <;> norm_num
  · simp only [Softmax.sumL, Softmax.sumFrom, eps]; norm_num
example : (0 : ℝ) < (⟨1e-10, 0.5, 1e-10⟩ : BoxCox2sym.Params ℝ).nu := by norm_num
example : (⟨0, 0.5, 0⟩ : BoxCox2sym.Params ℝ).nu = 0 ∧ (0 : ℝ) < 0.5 := by norm_num
example : Softmax.codom ([0, -1, -2] : List ℝ) := by
  rw [Softmax.codom_iff]
  have h : 0 ≤ (([0, -1, -2] : List ℝ).map Real.exp).sum := sum_exp_pos _
  have h2 : (([0, -1, -2] : List ℝ).map Real.exp).sum ≤ 1e9 := by
    simp only [List.map_cons, List.map_nil, List.sum_cons, List.sum_nil, Real.exp_zero]
    have h1 : Real.exp (-1) ≤ 1 := by rw [Real.exp_le_one_iff]; norm_num
    have h3 : Real.exp (-2) ≤ 1 := by rw [Real.exp_le_one_iff]; norm_num
    linarith
  generalize (([0, -1, -2] : List ℝ).map Real.exp).sum = E at *
  rw [div_le_iff₀ (by linarith)]
  unfold eps; nlinarith
example : ∀ c ∈ catalogue, ("foo" : String) ∉ c.ctorArgs ∧ "foo" ∉ c.params ∧ "foo" ∉ c.constants := by decide
example : ∀ c ∈ catalogue, c.name ≠ "Foo" := by decide
example : route ⟨"Log", ["mininu", "base"], ["nu"], []⟩ "base" = .ctor ∧
    route ⟨"Manly", [], ["lam"], ["xmax"]⟩ "xmax" = .const := by decide
example : Sinh.admissible (⟨-2, 1e-10⟩ : Sinh.Params ℝ) := by simp only [Sinh.admissible]; norm_num
example : Manly.admissible (⟨0, 2⟩ : Manly.Params ℝ) ∧ Manly.admissible (⟨-5, 1e-10⟩ : Manly.Params ℝ) := by
  simp only [Manly.admissible, eps]; norm_num
example : Manly.codom (⟨0.5, 2⟩ : Manly.Params ℝ) 1 := by intro _; norm_num


/-! non-vacuity of the object theorems: a constructed object, an accepted assignment that is clipped, refused ones -/
example : ∃ o : TObj ℝ, mkObj .manly 1e-10 0 none = .ok o := ⟨_, rfl⟩
example : lamBoundsOk (0 : ℝ) = true ∧ lamBoundsOk (-3 : ℝ) = true ∧ lamBoundsOk (1 : ℝ) = true ∧
    lamBoundsOk (-3.5 : ℝ) = false ∧ lamBoundsOk (1.5 : ℝ) = false := by
  refine ⟨?_, ?_, ?_, ?_, ?_⟩ <;> unfold lamBoundsOk eps <;> norm_num
/-- BoxCox2 with default options: `params.values = [nan, 0.2]` and `lam = nan` are refused, a vector of the wrong length too;
`lam = 7` is accepted and stored as 3; `t["foo"] = 1` is refused, `t.foo = 1` is an ordinary attribute -/
example : ∀ o : TObj ℝ, mkObj .boxcox2 1e-10 0 none = .ok o →
    (o.step (.setPValues [none, some 0.2])).2 = .rejected .nanValue ∧
    (o.step (.setAttr "lam" none)).2 = .rejected .nanValue ∧
    (o.step (.setPValues [some 0.5])).2 = .rejected .badLength ∧
    (o.step (.setItem "foo" (some 1))).2 = .rejected .unknownKey ∧
    (o.step (.setAttr "foo" (some 1))) = (o, .done) ∧
    (o.step (.setAttr "lam" (some 7))).1.pvals = [some 1e-10, some 3.0] := by
  intro o ho
  have hb : lamBoundsOk (0 : ℝ) = true := by unfold lamBoundsOk eps; norm_num
  simp only [mkObj, hb, if_true, Except.ok.injEq] at ho
  subst ho
  refine ⟨?_, ?_, ?_, ?_, ?_, ?_⟩ <;>
    simp [TObj.step, TObj.stepWith, VSpec.setValues, VSpec.setName, VSpec.names, bc2Spec, TObj.setP, assign,
      noVec, setAt, clipOpt, clipv]
  norm_num
/-- the hypotheses of `BoxCox1lam.history_roundtrip` are met: default options, `t.nu = 0.5`, then a refused `lam = NaN` -/
example : ∀ o : TObj ℝ, mkObj .boxcox1lam 1e-10 0 none = .ok o →
    (o.run [.setAttr "nu" (some 0.5), .setAttr "lam" none]).1.pvals = [some 1] ∧
    (o.run [.setAttr "nu" (some 0.5), .setAttr "lam" none]).1.cvals = [some 0.5] ∧ ∀ x ∈ [(1 : ℝ)], 0 < x + 0.5 := by
  intro o ho
  have hb : lamBoundsOk (0 : ℝ) = true := by unfold lamBoundsOk eps; norm_num
  simp only [mkObj, hb, if_true, Except.ok.injEq] at ho
  subst ho
  refine ⟨?_, ?_, by intro x hx; simp at hx; subst hx; norm_num⟩ <;>
    simp [TObj.run, TObj.runWith, TObj.stepWith, VSpec.setName, VSpec.names, TObj.setP, TObj.setC, assign, setAt,
      clipOpt, clipv] <;> norm_num
/-- a history with a refused assignment in the middle (Manly: set xmax, refuse lam = NaN, call) -/
example : ∀ o : TObj ℝ, mkObj .manly 1e-10 0 none = .ok o →
    ((o.run [.setAttr "xmax" (some 2), .setPValues [none], .call .fwd 0 [1]]).1.pvals = [some 0.1]) := by
  intro o ho
  simp only [mkObj, Except.ok.injEq] at ho
  subst ho
  simp [TObj.run, TObj.runWith, TObj.stepWith, TObj.evalWith, VSpec.setValues, VSpec.setName, VSpec.names, TObj.setP,
    TObj.setC, assign, setAt, clipOpt, clipv, eps]

end HydroVerif.C01
