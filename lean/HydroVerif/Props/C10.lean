/-
C10 — property theorems (only). Model: `HydroVerif/Model/C10.lean` (+ `Generated/CvmTable.lean`, regenerated from the
shipped archive at every run); helper lemmas and the specification vocabulary (`ps`, `rowScore`, `wm`, `wmF`, `wmU`,
`wmRanks`, `PairOK`, `RanksOK`, `PerfectOrder`, `ValidRanking`, `cvmTextbook`, `adTextbook`, `SortsAscending`, `ADSorts` …)
in `Lemmas/C10Scan, C10WM, C10Rank, C10Ranks2, C10Real, C10Unif, C10Sort, C10Table, C10Audit`.

`α` is any linearly ordered field (ℝ where a square root or a logarithm is involved). `sort` stands for glibc
`qsort` / `np.sort`; what is assumed of it is spelled out in `PairOK` (stable, by the tolerant comparator),
`SortsAscending` and `ADSorts`, and `List.mergeSort` (the driver's sort) is proved to meet it. `eps` is the tie
tolerance given to `c_ensrank`, `ceps` the one compiled into its comparator (1e-8): values are assumed pairwise tied or
separated by more than both (`Separated`). Every model function named below is executed by the driver and compared
with the real code in harness/c10.py.

CLAUSE → THEOREMS (→ what stays outside)
 1. "the discrimination score lies in [0, 1]"
      `dscore_range` (no hypothesis), `dscoreOf_none_iff`: D is NaN exactly when a rank vector is constant
      → known finding dscore/constant_forecast_ranks/nan (every forecast ties: D = NaN, not in [0, 1]).
 2. "equals 1 when forecasts order the observations perfectly and 0 when they order them inversely"
      `dscore_perfect`, `dscore_inverse` (n ≥ 2 distinct observations, every m ≥ 1).
 3. "unchanged by any strictly increasing re-scaling of the observations"
      `dscore_obs_map_invariant` (stable ranks, no hypothesis); `dscore_any_argsort`,
      `dscore_obs_map_invariant_any_argsort`: for distinct observations ANY ordinal ranking may stand for numpy's argsort
      → for tied observations numpy's tie-breaking is external (oracle on the real code).
 4. "… or of all forecast values and by permuting ensemble members"
      `dscore_forecast_map_invariant`, `dscore_member_perm_invariant`; kernel level `ensrank_strictMono_invariant`,
      `ensrank_member_perm_invariant`, `fpair_strictMono_invariant`, `fpair_member_perm_invariant`.
 5. "the ensemble ranks behind it equal the pairwise mid-rank comparison of Weigel and Mason (2011)"
      `scan_eq_pooled_midranks`, `fpair_eq_weigel_mason`, `wmF_range`, `ensrank_eq_weigel_mason`, `ensrank_rejects_iff`,
      `franks_eq_weigel_mason` (m = 1 branch included), `dscore_eq_rank_correlation`; sort hypothesis discharged for
      `List.mergeSort` by `mergeSort_pairOK`, `fpair_mergeSort_eq_weigel_mason`
      → glibc qsort's stability is an assumption (PairOK).
 6. "PIT values lie in [0, 1]"
      `pitRandom_range` (every cst), `pitRank_range`.
 7. "… and increase strictly with the number of ensemble members lying below the observation"
      `pit_strictMono_count` (in the count the code uses), `pit_count_bounds`, `pitRandom_eq_count`,
      `pitRandom_strictMono_members_below` (in the TRUE count, for any jitter within EPS and members not within 2 EPS of
      the observation), `pitRank_strictMono_count`
      → IEEE rounding of value + jitter (executed, not proved).
 8. "the pseudo-PIT flag is raised exactly when the observation and at least one member are at or below the
     censoring threshold"
      `isSudo_iff`; glue in front of pit / alpha: `checkEnsemble_spec`, `checkEnsemble_complete`
      (the code compares `obs - censor` and `ens - censor` with EPS, which keeps the tolerance at large thresholds).
 9. "the Cramer-von Mises and Anderson-Darling statistics computed from values in [0, 1] equal their textbook
     formulas whatever the order of the data"
      `cvm_eq_textbook`, `cvm_perm_invariant`, `ad_eq_textbook`, `ad_perm_invariant` (sample in the open interval).
10. "their p-values (and those of alpha) lie in [0, 1]"
      `interp_range`, `cvm_pvalue_range`, `cvm_pvalue_defined` (no table hypothesis), `ad_pvalue_range`,
      `alpha_cv_pvalue_range`, `alpha_ad_accepts`, `pvalue_range_partial`
      → `pvalue_range_statement`: scipy's kstest p-value (alpha type KS) is outside the model (oracle only).
11. "data outside [0, 1] are rejected by the Anderson-Darling test"
      `ad_rejects_iff` (NaN included; nothing else is rejected), `ad_never_unsorted` (with a correct sort the order
      check never fires: a rejection of NaN-free data is a range rejection).

ROUND 7 (model: `Model/C10Entry.lean`, lemmas: `Lemmas/C10Entry.lean`) — what moved from "outside" into theorems:
  sorts      `sortAsc_sortsAscending`, `sortADm_adSorts` (the sorts the model is run with — a merge sort by `≤`, a stable
             merge sort by the comparator of c_andersondarling.c with NaN equal to everything — meet `SortsAscending` /
             `ADSorts`), hence `cvm_sortAsc_eq_textbook`, `ad_sortADm_eq_textbook`, `ad_sortADm_rejects_iff` with no sort
             hypothesis (clauses 9, 11).
  kind       `pitKind_range`, `pitKind_strictMono_count`: clauses 6, 7 for `pit`'s optional argument kind = rank, weak,
             strict, mean (scipy percentileofscore re-modelled); `pit_ties_needed`.
  pit        `pitEntry_rejects_iff`, `pitEntry_range`, `pitEntry_random_defined`, `pitEntry_complete`,
             `pitEntry_obs_layouts`: the whole entry point (layouts, "obs is not 1D", first dimension, NaN filter, NaN
             members, both branches): clause 6 for everything `pit` returns, and on complete data `pit` IS
             `pitRandom` / `pitKind` / `isSudo` forecast by forecast (clauses 6-8).
  alpha      `alpha_refilter`, `alphaEntry_pvalue_range`, `alphaEntry_ad_accepts`, `alphaEntry_badType` (clause 10 at the
             entry point: every layout, NaN rows; the second filter inside `pit` is the identity).
  dscore     `dscoreEntry_range`, `dscoreEntry_rejects_iff`, `dscoreEntry_vec` (a vector of single-member forecasts is a
             column — fixed defect dscore/documented_layout_raises), `dscore_range_any_argsort` (clause 1 whatever
             numpy's tie-break of tied observations), `dscoreOf_through_finish`.
  rounding   `pit_range_rounded`, `pit_mono_rounded`, `sudo_rounded_at_or_below`, `sudo_rounded_above`,
             `dscore_range_rounded`, `rounded_id`: the RANGE clauses (1, 6), weak monotonicity (7) and the flag at / away
             from the threshold (8) for every monotone rounding operator that is exact on small integers and
             half-integers — true of IEEE double precision; strictness in clause 7 stays an exact-field statement.
  guards     `ensrank_ok_eq_weigel_mason` (0 < eps, eps ≥ 1e-20, m ≥ 1, n ≥ 1 follow from the kernel ACCEPTING the call),
             `separation_needed`, `stability_needed` (the two remaining hypotheses of clause 5 cannot be dropped; the
             harness runs the real code at the excluded points), `ensrank_ranks_sum` (no hypothesis at all: the ranks sum
             to n(n+1)/2 — what is checked at the excluded points).
  histories  `ensrank_step`, `ensrank_history_free`: `c_hydrodiy_stat.ensrank` on caller-owned buffers as a step function
             over arbitrary operation lists (accepted calls, calls rejected by the wrapper's assertions or by the kernel —
             buffers untouched — and the caller scribbling into its buffers): every reply is the reply on fresh buffers.
-/
import HydroVerif.Lemmas.C10Unif
import HydroVerif.Lemmas.C10Sort
import HydroVerif.Lemmas.C10Table
import HydroVerif.Lemmas.C10Audit
import HydroVerif.Lemmas.C10Entry

set_option linter.unusedSectionVars false
set_option linter.unusedVariables false

namespace HydroVerif.C10
open HydroVerif.C04 (sumL absG mean ssd pearson)

section field
variable {α : Type} [Field α] [LinearOrder α] [IsStrictOrderedRing α]

/-! ## 1. `c_ensrank`: the scan is the pairwise mid-rank comparison of Weigel and Mason (2011) -/

/-- the tie-sequence scan over the (stably) sorted pooled array returns the sum, over the members `a` of
the first ensemble, of their mid-rank in the pooled sample: `½ + #{b < a} + ½ #{b = a}`
(all ensemble sizes, all tie patterns) -/
theorem scan_eq_pooled_midranks (sort : List (α × ℕ) → List (α × ℕ)) (eps ceps : α) (heps : 0 < eps)
    (hc : 0 ≤ ceps) (e1 e2 : List α) (h : PairOK sort eps ceps e1 e2) :
    scan eps e1.length (sort (pool e1 e2)) = (e1.map fun a => 1 / 2 + rowScore a (e1 ++ e2)).sum := by
  rw [scan_pool eps ceps heps hc e1 e2 _ h.1 h.2, relSpec_pool_midranks]

/-- hence the kernel's `F` is eq. 1 of Weigel and Mason: `F · m² = Σ_a Σ_b ([b<a] + ½[a=b])` -/
theorem fpair_eq_weigel_mason (sort : List (α × ℕ) → List (α × ℕ)) (eps ceps : α) (heps : 0 < eps)
    (hc : 0 ≤ ceps) (e1 e2 : List α) (h : PairOK sort eps ceps e1 e2) :
    fpair sort eps e1 e2 = wm e1 e2 / (e1.length : α) / (e1.length : α) :=
  fpair_eq_wmF sort eps ceps heps hc e1 e2 h

/-- the sort hypothesis is met by an actual stable sort: `List.mergeSort` (the sort of the model driver) driven by
the kernel's tolerant comparator satisfies `PairOK` for every pair of ensembles whose pooled values are tied or
separated — so for that sort eq. 1 holds with no assumption left on the sort -/
theorem mergeSort_pairOK (eps ceps : α) (hc : 0 ≤ ceps) (e1 e2 : List α)
    (hsep : Separated eps ceps (e1 ++ e2)) :
    PairOK (fun l => l.mergeSort (leTol ceps)) eps ceps e1 e2 :=
  ⟨hsep, mergeSort_stableSortedBy ceps hc (e1 ++ e2) fun a ha b hb => (hsep a ha b hb).imp id (·.2)⟩

theorem fpair_mergeSort_eq_weigel_mason (eps ceps : α) (heps : 0 < eps) (hc : 0 ≤ ceps) (e1 e2 : List α)
    (hsep : Separated eps ceps (e1 ++ e2)) :
    fpair (fun l => l.mergeSort (leTol ceps)) eps e1 e2 = wm e1 e2 / (e1.length : α) / (e1.length : α) :=
  fpair_eq_wmF _ eps ceps heps hc e1 e2 (mergeSort_pairOK eps ceps hc e1 e2 hsep)

/-- `F` lies in [0, 1] and `F(e1, e2) + F(e2, e1) = 1` -/
theorem wmF_range (e1 e2 : List α) (hlen : e1.length = e2.length) (hpos : 0 < e1.length) :
    0 ≤ wmF e1 e2 ∧ wmF e1 e2 ≤ 1 ∧ wmF e1 e2 + wmF e2 e1 = 1 := by
  have h1 := wmF_nonneg e1 e2
  have h2 := wmF_nonneg e2 e1
  have h3 := wmF_add_swap e1 e2 hlen hpos
  exact ⟨h1, by linarith, h3⟩

/-- the comparison uses only `<` and `=`: unchanged by a strictly increasing map of all values … -/
theorem fpair_strictMono_invariant (sort : List (α × ℕ) → List (α × ℕ)) (eps ceps : α) (heps : 0 < eps)
    (hc : 0 ≤ ceps) (f : α → α) (hf : StrictMono f) (e1 e2 : List α)
    (h : PairOK sort eps ceps e1 e2) (h' : PairOK sort eps ceps (e1.map f) (e2.map f)) :
    fpair sort eps (e1.map f) (e2.map f) = fpair sort eps e1 e2 := by
  rw [fpair_eq_wmF sort eps ceps heps hc _ _ h, fpair_eq_wmF sort eps ceps heps hc _ _ h', wmF_map hf]

/-- … and by permuting the members of either ensemble -/
theorem fpair_member_perm_invariant (sort : List (α × ℕ) → List (α × ℕ)) (eps ceps : α) (heps : 0 < eps)
    (hc : 0 ≤ ceps) (e1 e1' e2 e2' : List α) (p1 : e1.Perm e1') (p2 : e2.Perm e2')
    (h : PairOK sort eps ceps e1 e2) (h' : PairOK sort eps ceps e1' e2') :
    fpair sort eps e1' e2' = fpair sort eps e1 e2 := by
  rw [fpair_eq_wmF sort eps ceps heps hc _ _ h, fpair_eq_wmF sort eps ceps heps hc _ _ h', wmF_perm p1 p2]

/-- the whole kernel: `fmat` holds eq. 1 for every pair `i1 < i2` and `ranks` is eq. 2,
`1 + Σ_{k≠i} u(i,k)` with `u = 1, ½, 0` as ensemble `i` beats, ties with, or loses to ensemble `k`;
for every number of forecasts and every ensemble size `m ≥ 1` -/
theorem ensrank_eq_weigel_mason (sort : List (α × ℕ) → List (α × ℕ)) (epsmin eps ceps : α)
    (hmin : epsmin ≤ eps) (heps : 0 < eps) (hc : 0 ≤ ceps) (m : ℕ) (hm : 0 < m) (rows : List (List α))
    (hne : rows ≠ []) (hlen : ∀ e ∈ rows, e.length = m) (hok : rows.Pairwise (PairOK sort eps ceps)) :
    ensrank sort epsmin eps m rows = .ok (upperF wmF rows, wmRanks rows) := by
  have hF : rows.Pairwise fun e1 e2 => fpair sort eps e1 e2 = wmF e1 e2 :=
    hok.imp fun h => fpair_eq_wmF sort eps ceps heps hc _ _ h
  unfold ensrank
  rw [if_neg (not_lt.mpr hmin), if_neg (by
    rw [not_or]; exact ⟨hm.ne', by simpa [List.length_eq_zero_iff] using hne⟩)]
  rw [upperF_congr _ _ rows hF, ranksOf_eq_wmRanks _ rows m hm hlen hF]

/-- the kernel rejects exactly a tolerance below `epsmin` (1e-20) or an empty dimension -/
theorem ensrank_rejects_iff (sort : List (α × ℕ) → List (α × ℕ)) (epsmin eps : α) (m : ℕ)
    (rows : List (List α)) :
    (∃ e, ensrank sort epsmin eps m rows = .error e) ↔ (eps < epsmin ∨ m = 0 ∨ rows = []) := by
  unfold ensrank
  by_cases h1 : eps < epsmin
  · simp [h1]
  · by_cases h2 : m = 0 ∨ rows.length = 0
    · rw [if_neg h1, if_pos h2]
      simp only [List.length_eq_zero_iff] at h2
      simp [h1, h2]
    · rw [if_neg h1, if_neg h2]
      simp only [List.length_eq_zero_iff] at h2
      simp [h1, h2]

/-- the kernel's output is unchanged by a strictly increasing re-scaling of all forecast values -/
theorem ensrank_strictMono_invariant (sort : List (α × ℕ) → List (α × ℕ)) (epsmin eps ceps : α)
    (hmin : epsmin ≤ eps) (heps : 0 < eps) (hc : 0 ≤ ceps) (m : ℕ) (hm : 0 < m) (rows : List (List α))
    (hne : rows ≠ []) (hlen : ∀ e ∈ rows, e.length = m) (f : α → α) (hf : StrictMono f)
    (hok : rows.Pairwise (PairOK sort eps ceps))
    (hok' : (rows.map (List.map f)).Pairwise (PairOK sort eps ceps)) :
    ensrank sort epsmin eps m (rows.map (List.map f)) = ensrank sort epsmin eps m rows := by
  rw [ensrank_eq_weigel_mason sort epsmin eps ceps hmin heps hc m hm rows hne hlen hok,
    ensrank_eq_weigel_mason sort epsmin eps ceps hmin heps hc m hm _ (by simpa using hne)
      (by intro e he; obtain ⟨e0, h0, rfl⟩ := List.mem_map.mp he; rw [List.length_map]; exact hlen e0 h0) hok',
    upperF_wmF_map hf, wmRanks_map hf]

/-- … and by permuting the members inside each ensemble -/
theorem ensrank_member_perm_invariant (sort : List (α × ℕ) → List (α × ℕ)) (epsmin eps ceps : α)
    (hmin : epsmin ≤ eps) (heps : 0 < eps) (hc : 0 ≤ ceps) (m : ℕ) (hm : 0 < m) (rows rows' : List (List α))
    (hne : rows ≠ []) (hlen : ∀ e ∈ rows, e.length = m) (hp : List.Forall₂ List.Perm rows rows')
    (hok : rows.Pairwise (PairOK sort eps ceps)) (hok' : rows'.Pairwise (PairOK sort eps ceps)) :
    ensrank sort epsmin eps m rows' = ensrank sort epsmin eps m rows := by
  rw [ensrank_eq_weigel_mason sort epsmin eps ceps hmin heps hc m hm rows hne hlen hok,
    ensrank_eq_weigel_mason sort epsmin eps ceps hmin heps hc m hm rows' (forall₂_perm_ne_nil hp hne)
      (forall₂_perm_length hp m hlen) hok',
    upperF_wmF_perm hp, wmRanks_perm hp]

/-- the forecast ranks used by `dscore` are the Weigel–Mason ranks for every ensemble size, the
single-member branch (mid-ranks of the column) included -/
theorem franks_eq_weigel_mason (sort : List (α × ℕ) → List (α × ℕ)) (epsmin eps ceps : α) (m : ℕ)
    (rows : List (List α)) (h : RanksOK sort epsmin eps ceps m rows) :
    franksOf sort epsmin eps m rows = wmRanks rows := by
  obtain ⟨hmin, heps, hc, hm, hne, hlen, hok⟩ := h
  unfold franksOf
  by_cases h1 : m = 1
  · rw [if_pos h1]
    subst h1
    have hs := singletons_eq rows hlen
    conv_rhs => rw [hs]
    conv_lhs => rw [hs]
    exact midRanks_singletons rows.flatten
  · rw [if_neg h1, ensrank_eq_weigel_mason sort epsmin eps ceps hmin heps hc m hm rows hne hlen (hok h1)]

/-! ## 2. PIT -/

/-- PIT values of the random branch lie in [0, 1] for every plotting constant (it is clamped at ½),
every ensemble size and every jitter -/
theorem pitRandom_range (cst obs dobs : α) (ens dens : List α) :
    0 ≤ pitRandom cst obs dobs ens dens ∧ pitRandom cst obs dobs ens dens ≤ 1 := by
  unfold pitRandom pitFormula
  have hc := clampCst_le_half cst
  have hcnt : ((belowJit obs dobs ens dens : ℕ) : α) ≤ (ens.length : α) := by
    exact_mod_cast belowJit_le obs dobs ens dens
  have h0 : (0 : α) ≤ ((belowJit obs dobs ens dens : ℕ) : α) := Nat.cast_nonneg _
  have hden : 0 < 1 - clampCst cst + (ens.length : α) := by
    have : (0 : α) ≤ (ens.length : α) := Nat.cast_nonneg _
    linarith
  constructor
  · apply div_nonneg <;> linarith
  · rw [div_le_one hden]; linarith

/-- … and increase strictly with the number of members lying below the observation -/
theorem pit_strictMono_count (cst : α) (nens cnt cnt' : ℕ) (h : cnt < cnt') :
    pitFormula (clampCst cst) cnt nens < pitFormula (clampCst cst) cnt' nens := by
  unfold pitFormula
  have hc := clampCst_le_half cst
  have hden : 0 < 1 - clampCst cst + (nens : α) := by
    have : (0 : α) ≤ (nens : α) := Nat.cast_nonneg _
    linarith
  have hlt : (cnt : α) < (cnt' : α) := by exact_mod_cast h
  apply div_lt_div_of_pos_right _ hden
  linarith

/-- the jitter (observation and members each moved by at most `e`, the code's EPS) cannot reorder values further
than `2e` apart: the count the code uses lies between the members certainly below (`< obs - 2e`) and possibly below
(`≤ obs + 2e`) the observation -/
theorem pit_count_bounds (e obs dobs : α) (ens dens : List α) (hd : |dobs| ≤ e)
    (hlen : dens.length = ens.length) (hdens : ∀ d ∈ dens, |d| ≤ e) :
    (ens.filter fun a => decide (a < obs - 2 * e)).length ≤ belowJit obs dobs ens dens ∧
      belowJit obs dobs ens dens ≤ (ens.filter fun a => decide (a ≤ obs + 2 * e)).length :=
  belowJit_bounds e obs dobs hd ens dens hlen hdens

/-- when no member is within `2e` of the observation the PIT is the plotting position of the TRUE number of members
below the observation, whatever the jitter -/
theorem pitRandom_eq_count (e cst obs dobs : α) (ens dens : List α) (hd : |dobs| ≤ e)
    (hlen : dens.length = ens.length) (hdens : ∀ d ∈ dens, |d| ≤ e) (hsep : ∀ a ∈ ens, 2 * e < |a - obs|) :
    pitRandom cst obs dobs ens dens
      = pitFormula (clampCst cst) (ens.filter fun a => decide (a < obs)).length ens.length := by
  have he : 0 ≤ e := le_trans (abs_nonneg _) hd
  have hb := belowJit_bounds e obs dobs hd ens dens hlen hdens
  have h1 : (ens.filter fun a => decide (a < obs - 2 * e)) = ens.filter fun a => decide (a < obs) := by
    apply List.filter_congr
    intro a ha
    have := hsep a ha
    rcases lt_or_ge (a - obs) 0 with hn | hp
    · rw [abs_of_neg hn] at this
      have c1 : a < obs - 2 * e := by linarith
      have c2 : a < obs := by linarith
      simp [c1, c2]
    · rw [abs_of_nonneg hp] at this
      have c1 : ¬ a < obs - 2 * e := by linarith
      have c2 : ¬ a < obs := by linarith
      simp [c1, c2]
  have h2 : (ens.filter fun a => decide (a ≤ obs + 2 * e)) = ens.filter fun a => decide (a < obs) := by
    apply List.filter_congr
    intro a ha
    have := hsep a ha
    rcases lt_or_ge (a - obs) 0 with hn | hp
    · rw [abs_of_neg hn] at this
      have c1 : a ≤ obs + 2 * e := by linarith
      have c2 : a < obs := by linarith
      simp [c1, c2]
    · rw [abs_of_nonneg hp] at this
      have c1 : ¬ a ≤ obs + 2 * e := by linarith
      have c2 : ¬ a < obs := by linarith
      simp [c1, c2]
  rw [h1, h2] at hb
  unfold pitRandom
  rw [le_antisymm hb.2 hb.1]

/-- hence, between two forecasts with the same number of members, the PIT increases strictly with the number of
members lying below the observation -/
theorem pitRandom_strictMono_members_below (e cst : α) (obs dobs obs' dobs' : α) (ens dens ens' dens' : List α)
    (hm : ens.length = ens'.length)
    (hd : |dobs| ≤ e) (hlen : dens.length = ens.length) (hdens : ∀ d ∈ dens, |d| ≤ e)
    (hsep : ∀ a ∈ ens, 2 * e < |a - obs|)
    (hd' : |dobs'| ≤ e) (hlen' : dens'.length = ens'.length) (hdens' : ∀ d ∈ dens', |d| ≤ e)
    (hsep' : ∀ a ∈ ens', 2 * e < |a - obs'|)
    (hcnt : (ens.filter fun a => decide (a < obs)).length < (ens'.filter fun a => decide (a < obs')).length) :
    pitRandom cst obs dobs ens dens < pitRandom cst obs' dobs' ens' dens' := by
  rw [pitRandom_eq_count e cst obs dobs ens dens hd hlen hdens hsep,
    pitRandom_eq_count e cst obs' dobs' ens' dens' hd' hlen' hdens' hsep', hm]
  exact pit_strictMono_count cst _ _ _ hcnt

/-- the non-random branch (`percentileofscore(kind="rank")/100`) lies in [0, 1] … -/
theorem pitRank_range (obs : α) (ens : List α) (hne : ens ≠ []) :
    0 ≤ pitRank obs ens ∧ pitRank obs ens ≤ 1 := by
  unfold pitRank pitRankFormula
  set left := (ens.filter fun a => decide (a < obs)).length
  set right := (ens.filter fun a => decide (a ≤ obs)).length
  have hn : 0 < ens.length := List.length_pos_iff.mpr hne
  have hnpos : (0 : α) < (ens.length : α) := by exact_mod_cast hn
  have hr : right ≤ ens.length := List.length_filter_le _ _
  have hl : left ≤ ens.length := List.length_filter_le _ _
  have hsum : left + right + (if left < right then 1 else 0) ≤ 2 * ens.length := by
    split <;> omega
  have hsum' : ((left + right + (if left < right then 1 else 0) : ℕ) : α) ≤ 2 * (ens.length : α) := by
    exact_mod_cast hsum
  have h0 : (0 : α) ≤ ((left + right + (if left < right then 1 else 0) : ℕ) : α) := Nat.cast_nonneg _
  constructor
  · apply div_nonneg (mul_nonneg h0 (div_nonneg (by norm_num) hnpos.le)) (by norm_num)
  · rw [div_le_one (by norm_num)]
    calc ((left + right + (if left < right then 1 else 0) : ℕ) : α) * (50 / (ens.length : α))
        ≤ 2 * (ens.length : α) * (50 / (ens.length : α)) :=
          mul_le_mul_of_nonneg_right hsum' (div_nonneg (by norm_num) hnpos.le)
      _ = 100 := by field_simp; ring

/-- … and increases strictly with the number of members below the observation (same number of ties) -/
theorem pitRank_strictMono_count (nens left left' ties : ℕ) (hn : 0 < nens) (h : left < left') :
    pitRankFormula (α := α) left (left + ties) nens < pitRankFormula left' (left' + ties) nens := by
  unfold pitRankFormula
  have hnpos : (0 : α) < (nens : α) := by exact_mod_cast hn
  have hlt : left + (left + ties) + (if left < left + ties then 1 else 0)
      < left' + (left' + ties) + (if left' < left' + ties then 1 else 0) := by
    by_cases ht : 0 < ties
    · rw [if_pos (by omega), if_pos (by omega)]; omega
    · rw [if_neg (by omega), if_neg (by omega)]; omega
  have hlt' : ((left + (left + ties) + (if left < left + ties then 1 else 0) : ℕ) : α)
      < ((left' + (left' + ties) + (if left' < left' + ties then 1 else 0) : ℕ) : α) := by
    exact_mod_cast hlt
  apply div_lt_div_of_pos_right _ (by norm_num)
  exact mul_lt_mul_of_pos_right hlt' (div_pos (by norm_num) hnpos)

/-- the pseudo-PIT flag is raised exactly when the observation and at least one member are at or below the
censoring threshold (within the code's `EPS`) -/
theorem isSudo_iff (eps censor obs : α) (ens : List α) :
    isSudo eps censor obs ens = true ↔ (obs < censor + eps ∧ ∃ a ∈ ens, a < censor + eps) := by
  unfold isSudo
  simp only [Bool.and_eq_true, decide_eq_true_eq, List.length_pos_iff, ne_eq, sub_lt_iff_lt_add']
  constructor
  · rintro ⟨h1, h2⟩
    refine ⟨h1, ?_⟩
    obtain ⟨a, ha⟩ := List.exists_mem_of_ne_nil _ h2
    rw [List.mem_filter] at ha
    exact ⟨a, ha.1, by simpa using ha.2⟩
  · rintro ⟨h1, a, ha, hlt⟩
    refine ⟨h1, ?_⟩
    apply List.ne_nil_of_mem (a := a)
    rw [List.mem_filter]
    exact ⟨ha, by simpa using hlt⟩

/-! ## 2b. `__check_ensemble_data`, the filter in front of `pit` and `alpha` -/

/-- the forecasts kept are exactly those whose observation is present and that have at least one member present,
in order -/
theorem checkEnsemble_spec {β : Type} (obs : List (Option β)) (ens : List (List (Option β)))
    (k : List (β × List (Option β))) (h : checkEnsemble obs ens = .ok k) :
    ens.length = obs.length ∧ k ≠ [] ∧
      k = (obs.zip ens).filterMap fun p =>
        match p.1 with
        | some o => if p.2.any Option.isSome then some (o, p.2) else none
        | none => none := by
  unfold checkEnsemble at h
  by_cases h1 : ens.length ≠ obs.length
  · rw [if_pos h1] at h; cases h
  · rw [if_neg h1] at h
    simp only at h
    by_cases h2 : (keepRows obs ens).isEmpty
    · rw [if_pos h2] at h; cases h
    · rw [if_neg h2] at h
      injection h with h
      refine ⟨not_not.mp h1, ?_, by rw [← h]; exact keepRows_spec obs ens⟩
      rw [← h]; simpa using h2

/-- complete data (no NaN, `n ≥ 1` forecasts of `m ≥ 1` members) pass unchanged: the filter does not interfere
inside the property's quantifier -/
theorem checkEnsemble_complete {β : Type} (os : List β) (rows : List (List β)) (hlen : rows.length = os.length)
    (hos : os ≠ []) (hne : ∀ r ∈ rows, r ≠ []) :
    checkEnsemble (os.map some) (rows.map fun r => r.map some)
      = .ok (os.zip (rows.map fun r => r.map some)) := by
  unfold checkEnsemble
  rw [if_neg (by simp [hlen]), keepRows_complete os rows hlen hne]
  have : ¬ (os.zip (rows.map fun r => r.map some)).isEmpty := by
    cases os with
    | nil => exact absurd rfl hos
    | cons o os' =>
      cases rows with
      | nil => simp at hlen
      | cons r rs => simp
  simp only
  rw [if_neg this]

/-! ## 3. Cramer-von Mises statistic -/

/-- the statistic equals the textbook formula `1/(12n) + Σ ((2i-1)/(2n) - x_(i))²` on the order statistics
`s` of the data, whatever the order of the data -/
theorem cvm_eq_textbook (sort : List α → List α) (hs : SortsAscending sort) (data s : List α)
    (hperm : s.Perm data) (hsorted : s.Pairwise (· ≤ ·)) :
    cvmStat sort data = cvmTextbook s := by
  have : sort data = s := sorted_perm_unique (hs data).2 hsorted ((hs data).1.trans hperm.symm)
  rw [cvmStat_eq sort data (hs data).1.length_eq, this]

theorem cvm_perm_invariant (sort : List α → List α) (hs : SortsAscending sort) (data data' : List α)
    (h : data.Perm data') : cvmStat sort data' = cvmStat sort data := by
  rw [cvmStat_eq sort data (hs data).1.length_eq, cvmStat_eq sort data' (hs data').1.length_eq,
    sort_eq_of_perm hs h]

/-- `np.interp` into a table stays between the bounds of the tabulated ordinates (increasing abscissae) -/
theorem interp_range (x lo hi : α) (xp fp : List α) (hxp : xp.Pairwise (· < ·))
    (hfp : ∀ f ∈ fp, lo ≤ f ∧ f ≤ hi) (v : α) (h : interp x xp fp = some v) : lo ≤ v ∧ v ≤ hi := by
  match xp, fp, h with
  | x0 :: xs, f0 :: fs, h =>
    simp only [interp, Option.some.injEq] at h
    have hf0 := hfp f0 (by simp)
    by_cases hlt : x < x0
    · rw [if_pos hlt] at h; rw [← h]; exact hf0
    · rw [if_neg hlt] at h; rw [← h]
      exact interpAux_range x lo hi xs fs x0 f0 (not_lt.mp hlt) hf0.1 hf0.2
        (fun f hf => hfp f (by simp [hf])) hxp

/-- the Cramer-von Mises p-value lies in [0, 1] for every sample size and every value of the statistic —
with NO hypothesis on the table: `Generated/CvmTable.lean` is regenerated from the archive shipped in the working
tree at every run, and `qq_increasing`, `columns_in_unit` (kernel evaluation over all 500 x 69 entries) are
re-proved against it -/
theorem cvm_pvalue_range (n : ℕ) (stat v : α) (h : cvmPvalue n stat = some v) : 0 ≤ v ∧ v ≤ 1 := by
  unfold cvmPvalue at h
  split at h
  · cases h
  · rename_i j _
    split at h
    · cases h
    · rename_i col hcol
      exact interp_range stat 0 1 _ _ qq_pairwise
        (column_unit col (List.mem_of_getElem? hcol)) v h

/-- … and it is always defined -/
theorem cvm_pvalue_defined (n : ℕ) (stat : α) : ∃ v, cvmPvalue n stat = some v := by
  unfold cvmPvalue
  cases hj : closestIdx n Gen.sizes with
  | none =>
    exfalso
    have := sizes_ne_nil
    cases hs : Gen.sizes with
    | nil => exact this hs
    | cons a l => rw [hs] at hj; simp [closestIdx] at hj
  | some j =>
    have hlt : j < Gen.columns.length := by rw [columns_length]; exact closestIdx_lt n _ j hj
    simp only [List.getElem?_eq_getElem hlt]
    have hne : Gen.columns[j] ≠ [] := by
      have h := columns_ne_nil
      rw [List.all_eq_true] at h
      have := h _ (List.getElem_mem hlt)
      simpa using this
    cases hq : Gen.qq with
    | nil => exact absurd hq qq_ne_nil
    | cons q0 qs =>
      cases hc : Gen.columns[j] with
      | nil => exact absurd hc hne
      | cons c0 cs => simp [interp]

/-! ## 4. Anderson-Darling: rejection of data outside [0, 1] -/

end field


/-! ## 7. the sort hypotheses are met by the sorts the model is run with -/

section field2
variable {α : Type} [Field α] [LinearOrder α] [IsStrictOrderedRing α]

/-- `sortAsc` (the driver's `np.sort`) sorts ascending: `SortsAscending` is not an assumption for it -/
theorem sortAsc_sortsAscending : SortsAscending (sortAsc : List α → List α) :=
  fun l => ⟨sortAsc_perm l, sortAsc_sorted l⟩

/-- `sortADm` — a stable merge sort driven by the comparator of c_andersondarling.c, NaN comparing equal to everything —
meets `ADSorts`: a permutation on every input, the ascending order on NaN-free input -/
theorem sortADm_adSorts : ADSorts (sortADm : List (Option α) → List (Option α)) :=
  ⟨fun data => List.mergeSort_perm data _,
    fun xs => ⟨sortAsc xs, sortADm_map_some xs, sortAsc_perm xs, sortAsc_sorted xs⟩⟩

/-- hence the Cramer-von Mises statistic of the model as it is run equals the textbook formula, no hypothesis left -/
theorem cvm_sortAsc_eq_textbook (data s : List α) (hperm : s.Perm data) (hsorted : s.Pairwise (· ≤ ·)) :
    cvmStat sortAsc data = cvmTextbook s :=
  cvm_eq_textbook sortAsc sortAsc_sortsAscending data s hperm hsorted

/-! ## 8. `percentileofscore` for every value of `pit`'s optional argument `kind` -/

/-- PIT of the non-random branch lies in [0, 1] for `kind` = rank, weak, strict and mean -/
theorem pitKind_range (k : PctKind) (obs : α) (ens : List α) (hne : ens ≠ []) :
    0 ≤ pitKind k obs ens ∧ pitKind k obs ens ≤ 1 :=
  pctFormula_range k _ _ _ (List.length_pos_iff.mpr hne) (filter_lt_le_length obs ens) (List.length_filter_le _ _)

/-- … and increases strictly with the number of members below the observation (same number of ties), whatever `kind` -/
theorem pitKind_strictMono_count (k : PctKind) (nens left left' ties : ℕ) (hn : 0 < nens) (h : left < left') :
    pctFormula (α := α) k left (left + ties) nens / 100 < pctFormula (α := α) k left' (left' + ties) nens / 100 := by
  rw [pctFormula_eq k _ _ nens hn, pctFormula_eq k _ _ nens hn]
  have hnpos : (0 : α) < 2 * (nens : α) := by
    have : (0 : α) < (nens : α) := by exact_mod_cast hn
    linarith
  apply div_lt_div_of_pos_right _ hnpos
  exact_mod_cast pctNum_strict k left left' ties h

/-! ## 9. the entry point `metrics.pit` (layouts, filter, NaN members, both branches) -/

/-- `pit` rejects exactly: an observation array with two dimensions left after `squeeze`, a first dimension of `ens`
different from the number of observations, or no forecast with an observation and a member present -/
theorem pitEntry_rejects_iff (random : Bool) (kind : PctKind) (eps cst censor : α) (obs ens : ArrIn (Option α))
    (dobs : List α) (dens : List (List α)) :
    (∃ e, pitEntry random kind eps cst censor obs ens dobs dens = .error e) ↔
      ((∃ c rows, obs = .mat c rows ∧ rows.length ≠ 1 ∧ c ≠ 1) ∨
        ∃ os, normObs obs = .ok os ∧ ((normEns ens).length ≠ os.length ∨ keepRows os (normEns ens) = [])) := by
  unfold pitEntry checkEnsembleIn
  cases ho : normObs obs with
  | error e =>
    have := (normObs_error_iff obs).mp ⟨e, ho⟩
    simp only [this, true_or, iff_true]
    exact ⟨e, rfl⟩
  | ok os =>
    have hno : ¬ ∃ c rows, obs = .mat c rows ∧ rows.length ≠ 1 ∧ c ≠ 1 := by
      intro h
      obtain ⟨e, he⟩ := (normObs_error_iff obs).mpr h
      rw [ho] at he; cases he
    simp only [hno, false_or]
    unfold checkEnsemble
    by_cases h1 : (normEns ens).length ≠ os.length
    · simp only [if_pos h1]
      exact ⟨fun _ => ⟨os, rfl, Or.inl h1⟩, fun _ => ⟨_, rfl⟩⟩
    · simp only [if_neg h1]
      by_cases h2 : (keepRows os (normEns ens)).isEmpty
      · simp only [if_pos h2]
        exact ⟨fun _ => ⟨os, rfl, Or.inr (by simpa using h2)⟩, fun _ => ⟨_, rfl⟩⟩
      · simp only [if_neg h2]
        constructor
        · rintro ⟨e, he⟩; cases he
        · rintro ⟨os', hos', h⟩
          injection hos' with hos'
          subst hos'
          rcases h with h | h
          · exact absurd h h1
          · rw [h] at h2; simp at h2

/-- every PIT value `pit` returns lies in [0, 1]: every layout, every `kind`, both branches, NaN members included
(`none` = the NaN `percentileofscore` propagates from a NaN member in the non-random branch) -/
theorem pitEntry_range (random : Bool) (kind : PctKind) (eps cst censor : α) (obs ens : ArrIn (Option α))
    (dobs : List α) (dens : List (List α)) (r : List (Option α × Bool))
    (h : pitEntry random kind eps cst censor obs ens dobs dens = .ok r) :
    ∀ q ∈ r, ∀ v, q.1 = some v → 0 ≤ v ∧ v ≤ 1 := by
  unfold pitEntry at h
  cases hk : checkEnsembleIn obs ens with
  | error e => rw [hk] at h; cases h
  | ok k =>
    rw [hk] at h
    injection h with h
    rw [← h]
    exact pitRows_range random kind eps cst censor k
      (fun p hp => any_isSome_ne_nil p.2 (checkEnsembleIn_any obs ens k hk p hp)) dobs dens

/-- the random branch never returns NaN -/
theorem pitEntry_random_defined (kind : PctKind) (eps cst censor : α) (obs ens : ArrIn (Option α))
    (dobs : List α) (dens : List (List α)) (r : List (Option α × Bool))
    (h : pitEntry true kind eps cst censor obs ens dobs dens = .ok r) : ∀ q ∈ r, q.1.isSome = true := by
  unfold pitEntry at h
  cases hk : checkEnsembleIn obs ens with
  | error e => rw [hk] at h; cases h
  | ok k =>
    rw [hk] at h
    injection h with h
    rw [← h]
    exact pitRows_random_defined kind eps cst censor k dobs dens

/-- on complete data (the property's quantifier: no NaN, `n ≥ 1` forecasts of `m ≥ 1` members) the entry point
returns, forecast by forecast, `pitRandom` / `pitKind` and `isSudo` — the functions of clauses 6 to 8 -/
theorem pitEntry_complete (random : Bool) (kind : PctKind) (eps cst censor : α) (os : List α) (c : ℕ)
    (rows : List (List α)) (hlen : rows.length = os.length) (hos : os ≠ []) (hne : ∀ r ∈ rows, r ≠ [])
    (dobs : List α) (dens : List (List α)) :
    pitEntry random kind eps cst censor (.vec (os.map some)) (.mat c (rows.map fun r => r.map some)) dobs dens
      = .ok (pitSpec random kind eps cst censor os rows dobs dens) := by
  unfold pitEntry checkEnsembleIn
  simp only [normObs, normEns]
  rw [checkEnsemble_complete os rows hlen hos hne]
  simp only [pitRows_complete]

/-- the documented layouts of `obs` — [n], [n,1] — and a row [1,n] give the same answer -/
theorem pitEntry_obs_layouts (random : Bool) (kind : PctKind) (eps cst censor : α) (l : List (Option α))
    (ens : ArrIn (Option α)) (dobs : List α) (dens : List (List α)) :
    pitEntry random kind eps cst censor (.mat 1 (l.map fun a => [a])) ens dobs dens
        = pitEntry random kind eps cst censor (.vec l) ens dobs dens ∧
      pitEntry random kind eps cst censor (.mat l.length [l]) ens dobs dens
        = pitEntry random kind eps cst censor (.vec l) ens dobs dens := by
  unfold pitEntry checkEnsembleIn
  rw [normObs_col, normObs_row]
  exact ⟨rfl, rfl⟩

/-! ## 10. range clauses under rounding: every monotone rounding that is exact on small integers and half-integers -/

/-- PIT of the random branch in [0, 1] with every arithmetic operation rounded (`cst ≥ 0`: the property's plotting
constants; values above ½ are clamped) -/
theorem pit_range_rounded (rnd : α → α) (nens : ℕ) (hr : RoundsCounts rnd nens) (cst : α) (hc0 : 0 ≤ cst)
    (cnt : ℕ) (hcnt : cnt ≤ nens) :
    0 ≤ pitFormulaR rnd (clampCst cst) cnt nens ∧ pitFormulaR rnd (clampCst cst) cnt nens ≤ 1 :=
  pitFormulaR_range rnd nens hr cst hc0 cnt hcnt

/-- … and it never decreases when one more member lies below the observation (strictness is the exact statement
`pit_strictMono_count`; in double precision it holds as long as the step 1/(1 - cst + m) exceeds one ulp) -/
theorem pit_mono_rounded (rnd : α → α) (nens : ℕ) (hr : RoundsCounts rnd nens) (cst : α) (hc0 : 0 ≤ cst)
    (cnt cnt' : ℕ) (h : cnt ≤ cnt') (hcnt : cnt' ≤ nens) :
    pitFormulaR rnd (clampCst cst) cnt nens ≤ pitFormulaR rnd (clampCst cst) cnt' nens :=
  pitFormulaR_mono rnd nens hr cst hc0 cnt cnt' h hcnt

/-- with `rnd = id` the rounded formulas are the model's -/
theorem rounded_id (c eps censor obs : α) (cnt nens : ℕ) (ens : List α) :
    pitFormulaR id c cnt nens = pitFormula c cnt nens ∧ isSudoR id eps censor obs ens = isSudo eps censor obs ens :=
  ⟨rfl, rfl⟩

/-- the pseudo-PIT flag IS raised when the observation and a member are at or below the threshold, whatever the
rounding of `obs - censor`, `ens - censor` -/
theorem sudo_rounded_at_or_below (rnd : α → α) (hm : Monotone rnd) (h0 : rnd 0 = 0) (eps censor obs : α)
    (heps : 0 < eps) (ens : List α) (hobs : obs ≤ censor) (hens : ∃ a ∈ ens, a ≤ censor) :
    isSudoR rnd eps censor obs ens = true :=
  isSudoR_of_le rnd hm h0 eps censor obs heps ens hobs hens

/-- … and is NOT raised when the observation, or every member, is at least EPS above it -/
theorem sudo_rounded_above (rnd : α → α) (hm : Monotone rnd) (eps censor obs : α) (he : rnd eps = eps)
    (ens : List α) (h : eps ≤ obs - censor ∨ ∀ a ∈ ens, eps ≤ a - censor) :
    isSudoR rnd eps censor obs ens = false :=
  isSudoR_of_above rnd hm eps censor obs he ens h

/-- the score stays in [0, 1] under rounding whatever `np.corrcoef` computed before its clip -/
theorem dscore_range_rounded (rnd : α → α) (hm : Monotone rnd) (h0 : rnd 0 = 0) (h1 : rnd 1 = 1) (h2 : rnd 2 = 2)
    (r : α) : 0 ≤ dFinishR rnd r ∧ dFinishR rnd r ≤ 1 :=
  dFinishR_range rnd hm h0 h1 h2 r

/-! ## 11. hypotheses discharged from the kernel's own guards; hypotheses that are needed -/

/-- whenever `c_ensrank` ACCEPTS a call (`epsmin` = 1e-20 > 0) on a rectangular array whose pairs are tied-or-separated
and stably sorted, it returns Weigel and Mason's eq. 1 and 2: `0 < eps`, `epsmin ≤ eps`, `m ≥ 1`, `n ≥ 1` all follow
from the acceptance -/
theorem ensrank_ok_eq_weigel_mason (sort : List (α × ℕ) → List (α × ℕ)) (epsmin eps ceps : α) (h0 : 0 < epsmin)
    (hc : 0 ≤ ceps) (m : ℕ) (rows : List (List α)) (hlen : ∀ e ∈ rows, e.length = m)
    (hok : rows.Pairwise (PairOK sort eps ceps)) (r : List (List α) × List α)
    (h : ensrank sort epsmin eps m rows = .ok r) : r = (upperF wmF rows, wmRanks rows) := by
  obtain ⟨_, h1, h2, h3⟩ := ensrank_ok_inv sort epsmin eps m rows r h
  have hmin : epsmin ≤ eps := not_lt.mp h1
  have := ensrank_eq_weigel_mason sort epsmin eps ceps hmin (lt_of_lt_of_le h0 hmin) hc m (Nat.pos_of_ne_zero h2)
    rows h3 hlen hok
  rw [this] at h
  injection h with h
  exact h.symm

/-- with NO hypothesis on ties, separation or the sort: whenever the kernel accepts, the ranks it returns sum to
`n(n+1)/2` (every pair of forecasts shares exactly one unit) — this is what remains true of the excluded inputs and
what the harness checks there -/
theorem ensrank_ranks_sum (sort : List (α × ℕ) → List (α × ℕ)) (epsmin eps : α) (m : ℕ) (rows : List (List α))
    (r : List (List α) × List α) (h : ensrank sort epsmin eps m rows = .ok r) :
    r.2.sum = (rows.length : α) * ((rows.length : α) + 1) / 2 := by
  obtain ⟨hr, _, _, _⟩ := ensrank_ok_inv sort epsmin eps m rows r h
  rw [hr]
  exact ranksOf_sum _ rows

end field2

/-- `Separated` is needed: two distinct values closer than the tolerance — correctly and stably sorted — are not
compared as eq. 1 compares them (here the kernel's `F` even leaves [0, 1]: the member of the second ensemble opens no
tie sequence and the member of the first one, within `eps` of it, does not either) -/
theorem separation_needed :
    ∃ (sort : List (ℚ × ℕ) → List (ℚ × ℕ)) (e1 e2 : List ℚ),
      StableSortedBy (cmpTol (1 / 10 ^ 8 : ℚ)) (pool e1 e2) (sort (pool e1 e2)) ∧
        ¬ Separated (1 / 10 ^ 6 : ℚ) (1 / 10 ^ 8) (e1 ++ e2) ∧ fpair sort (1 / 10 ^ 6) e1 e2 ≠ wmF e1 e2 := by
  refine ⟨fun _ => [((0 : ℚ), 1), (1 / 10 ^ 7, 0)], [1 / 10 ^ 7], [0], ⟨?_, ?_⟩, ?_, ?_⟩
  · unfold pool; decide +kernel
  · unfold cmpTol; decide +kernel
  · intro h
    have := h (1 / 10 ^ 7) (by simp) 0 (by simp)
    norm_num at this
  · unfold wmF wm rowScore ps; decide +kernel

/-- stability is needed: a sort that orders the pooled values correctly but puts the tied member of the SECOND
ensemble first gives another `F` -/
theorem stability_needed :
    ∃ (sort : List (ℚ × ℕ) → List (ℚ × ℕ)) (e1 e2 : List ℚ),
      (sort (pool e1 e2)).Perm (pool e1 e2) ∧ (sort (pool e1 e2)).Pairwise (fun x y => x.1 ≤ y.1) ∧
        fpair sort (1 / 10 ^ 6) e1 e2 ≠ wmF e1 e2 := by
  refine ⟨fun _ => [((1 : ℚ), 1), (1, 0)], [1], [1], ?_, ?_, ?_⟩
  · unfold pool; decide +kernel
  · simp
  · unfold wmF wm rowScore ps; decide +kernel

/-! ## 5. the discrimination score (ℝ) -/

/-- `D` is the rank correlation of Weigel and Mason mapped to [0, 1]:
`(Pearson(observation ranks, Weigel–Mason forecast ranks) + 1)/2` -/
theorem dscore_eq_rank_correlation (sort : List (ℝ × ℕ) → List (ℝ × ℕ)) (epsmin eps ceps : ℝ) (m : ℕ)
    (oranks : List ℕ) (rows : List (List ℝ)) (h : RanksOK sort epsmin eps ceps m rows) :
    dscoreWith sort epsmin eps m oranks rows
      = dscoreOf (oranks.map fun (r : ℕ) => (Nat.cast r : ℝ)) (wmRanks rows) := by
  unfold dscoreWith
  rw [franks_eq_weigel_mason sort epsmin eps ceps m rows h]

/-- whenever it is defined, `0 ≤ D ≤ 1` — for all inputs, with no hypothesis on ties or on the sort -/
theorem dscore_range (sort : List (ℝ × ℕ) → List (ℝ × ℕ)) (epsmin eps : ℝ) (m : ℕ) (obs : List ℝ)
    (rows : List (List ℝ)) (D : ℝ) (h : dscore sort epsmin eps m obs rows = some D) : 0 ≤ D ∧ D ≤ 1 :=
  dscoreOf_range _ _ D h

/-- `D` is undefined (NaN in the code) exactly when one of the two rank vectors is constant -/
theorem dscoreOf_none_iff (x y : List ℝ) :
    dscoreOf x y = none ↔ ¬ (0 < ssd (mean x) x ∧ 0 < ssd (mean y) y) := by
  unfold dscoreOf
  split <;> simp_all

/-- `D = 1` when the forecasts order the (distinct) observations perfectly: for every pair of forecasts the
one with the larger observation wins the ensemble comparison; any `n ≥ 2`, any `m ≥ 1` -/
theorem dscore_perfect (sort : List (ℝ × ℕ) → List (ℝ × ℕ)) (epsmin eps ceps : ℝ) (m : ℕ)
    (pairs : List (ℝ × List ℝ)) (hn : 2 ≤ pairs.length) (hnd : (pairs.map Prod.fst).Nodup)
    (hperf : PerfectOrder pairs) (hok : RanksOK sort epsmin eps ceps m (pairs.map Prod.snd)) :
    dscore sort epsmin eps m (pairs.map Prod.fst) (pairs.map Prod.snd) = some 1 := by
  unfold dscore
  rw [dscore_eq_rank_correlation sort epsmin eps ceps m _ _ hok, wmRanks_perfect pairs hnd hperf,
    stableRanks_nodup _ hnd]
  set obs := pairs.map Prod.fst with hobs
  have hy : (pairs.map fun p => 1 / 2 + rowScore p.1 obs)
      = (obs.map fun a => rowScore a obs - 1 / 2).map fun v => 1 * v + 1 := by
    rw [hobs, List.map_map, List.map_map]
    apply List.map_congr_left
    intro p _
    simp only [Function.comp_def]; ring
  rw [hy, dscoreOf_affine 1 1 one_ne_zero _ (ssd_obs_ranks_pos obs hnd (by rw [hobs, List.length_map]; exact hn))]
  simp

/-- `D = 0` when they order them inversely -/
theorem dscore_inverse (sort : List (ℝ × ℕ) → List (ℝ × ℕ)) (epsmin eps ceps : ℝ) (m : ℕ)
    (pairs : List (ℝ × List ℝ)) (hn : 2 ≤ pairs.length) (hnd : (pairs.map Prod.fst).Nodup)
    (hinv : InverseOrder pairs) (hok : RanksOK sort epsmin eps ceps m (pairs.map Prod.snd)) :
    dscore sort epsmin eps m (pairs.map Prod.fst) (pairs.map Prod.snd) = some 0 := by
  unfold dscore
  rw [dscore_eq_rank_correlation sort epsmin eps ceps m _ _ hok, wmRanks_inverse pairs hnd hinv,
    stableRanks_nodup _ hnd]
  set obs := pairs.map Prod.fst with hobs
  have hy : (pairs.map fun p => 1 / 2 + ((pairs.length : ℝ) - rowScore p.1 obs))
      = (obs.map fun a => rowScore a obs - 1 / 2).map fun v => (-1) * v + (pairs.length : ℝ) := by
    rw [hobs, List.map_map, List.map_map]
    apply List.map_congr_left
    intro p _
    simp only [Function.comp_def]; ring
  rw [hy, dscoreOf_affine (-1) _ (by norm_num) _
    (ssd_obs_ranks_pos obs hnd (by rw [hobs, List.length_map]; exact hn))]
  norm_num

/-- `D` is unchanged by any strictly increasing re-scaling of the observations (no hypothesis) … -/
theorem dscore_obs_map_invariant (sort : List (ℝ × ℕ) → List (ℝ × ℕ)) (epsmin eps : ℝ) (m : ℕ)
    (f : ℝ → ℝ) (hf : StrictMono f) (obs : List ℝ) (rows : List (List ℝ)) :
    dscore sort epsmin eps m (obs.map f) rows = dscore sort epsmin eps m obs rows := by
  unfold dscore
  rw [stableRanks_map hf]

/-- … of all forecast values … -/
theorem dscore_forecast_map_invariant (sort : List (ℝ × ℕ) → List (ℝ × ℕ)) (epsmin eps ceps : ℝ) (m : ℕ)
    (f : ℝ → ℝ) (hf : StrictMono f) (obs : List ℝ) (rows : List (List ℝ))
    (h : RanksOK sort epsmin eps ceps m rows) (h' : RanksOK sort epsmin eps ceps m (rows.map (List.map f))) :
    dscore sort epsmin eps m obs (rows.map (List.map f)) = dscore sort epsmin eps m obs rows := by
  unfold dscore
  rw [dscore_eq_rank_correlation sort epsmin eps ceps m _ _ h,
    dscore_eq_rank_correlation sort epsmin eps ceps m _ _ h', wmRanks_map hf]

/-- … and by permuting the members of each ensemble -/
theorem dscore_member_perm_invariant (sort : List (ℝ × ℕ) → List (ℝ × ℕ)) (epsmin eps ceps : ℝ) (m : ℕ)
    (obs : List ℝ) (rows rows' : List (List ℝ)) (hp : List.Forall₂ List.Perm rows rows')
    (h : RanksOK sort epsmin eps ceps m rows) (h' : RanksOK sort epsmin eps ceps m rows') :
    dscore sort epsmin eps m obs rows' = dscore sort epsmin eps m obs rows := by
  unfold dscore
  rw [dscore_eq_rank_correlation sort epsmin eps ceps m _ _ h,
    dscore_eq_rank_correlation sort epsmin eps ceps m _ _ h', wmRanks_perm hp]

/-- `np.argsort` is external and its tie-breaking unspecified; for pairwise distinct observations this cannot
matter: with ANY ordinal ranking of the observations (`ValidRanking`) in place of `np.argsort(np.argsort(obs))`
the score is the one of the model -/
theorem dscore_any_argsort (sort : List (ℝ × ℕ) → List (ℝ × ℕ)) (epsmin eps : ℝ) (m : ℕ) (obs : List ℝ)
    (hnd : obs.Nodup) (r : List ℕ) (hr : ValidRanking obs r) (rows : List (List ℝ)) :
    dscoreWith sort epsmin eps m r rows = dscore sort epsmin eps m obs rows := by
  unfold dscore
  rw [validRanking_unique obs hnd r hr]

/-- … and the invariance under a strictly increasing re-scaling of distinct observations holds for any two such
rankings, before and after the map -/
theorem dscore_obs_map_invariant_any_argsort (sort : List (ℝ × ℕ) → List (ℝ × ℕ)) (epsmin eps : ℝ) (m : ℕ)
    (f : ℝ → ℝ) (hf : StrictMono f) (obs : List ℝ) (hnd : obs.Nodup) (r r' : List ℕ)
    (hr : ValidRanking obs r) (hr' : ValidRanking (obs.map f) r') (rows : List (List ℝ)) :
    dscoreWith sort epsmin eps m r' rows = dscoreWith sort epsmin eps m r rows := by
  rw [dscore_any_argsort sort epsmin eps m obs hnd r hr rows,
    dscore_any_argsort sort epsmin eps m (obs.map f) (hnd.map hf.injective) r' hr' rows,
    dscore_obs_map_invariant sort epsmin eps m f hf obs rows]

/-! ## 5b. alpha (ℝ) -/

/-- `alpha(type="CV")`: the p-value is defined and lies in [0, 1], whatever the forecasts and the jitter -/
theorem alpha_cv_pvalue_range (sort : List ℝ → List ℝ) (cst0 : ℝ) (obs dobs : List ℝ) (ens dens : List (List ℝ)) :
    ∃ v, (alphaCV sort cst0 obs dobs ens dens).2 = some v ∧ 0 ≤ v ∧ v ≤ 1 := by
  unfold alphaCV
  simp only
  obtain ⟨v, hv⟩ := cvm_pvalue_defined (α := ℝ) (pitRandomAll cst0 obs dobs ens dens).length
    (cvmStat sort (pitRandomAll cst0 obs dobs ens dens))
  exact ⟨v, hv, cvm_pvalue_range _ _ v hv⟩

/-! ## 6. Anderson-Darling statistic (ℝ) -/

/-- data outside [0, 1] or NaN are rejected, and nothing else is -/
theorem ad_rejects_iff (sort : List (Option ℝ) → List (Option ℝ)) (hs : ADSorts sort) (prev0 : ℝ)
    (hprev : prev0 ≤ 0) (data : List (Option ℝ)) :
    (∃ e, adTest sort prev0 data = .error e) ↔ ∃ x ∈ data, BadAD x := by
  constructor
  · rintro ⟨e, he⟩
    by_contra hno
    -- all values present and inside [0, 1]
    have hgood : ∀ x ∈ data, ∃ v, x = some v ∧ 0 ≤ v ∧ v ≤ 1 := by
      intro x hx
      cases x with
      | none => exact absurd ⟨none, hx, trivial⟩ hno
      | some v =>
        refine ⟨v, rfl, ?_⟩
        by_contra hv
        apply hno
        refine ⟨some v, hx, ?_⟩
        show v < 0 ∨ 1 < v
        by_contra hb
        rw [not_or, not_lt, not_lt] at hb
        exact hv hb
    have hxs : ∃ xs : List ℝ, data = xs.map some := by
      clear he hno
      induction data with
      | nil => exact ⟨[], rfl⟩
      | cons x l ih =>
        obtain ⟨v, hv, _⟩ := hgood x (by simp)
        obtain ⟨xs, hxs⟩ := ih (fun y hy => hgood y (by simp [hy]))
        exact ⟨v :: xs, by simp [hv, hxs]⟩
    obtain ⟨xs, rfl⟩ := hxs
    obtain ⟨s, hsort, hperm, hsorted⟩ := hs.2 xs
    have hr : ∀ v ∈ s, 0 ≤ v ∧ v ≤ 1 := by
      intro v hv
      obtain ⟨w, hw, hb⟩ := hgood (some v) (List.mem_map.mpr ⟨v, hperm.mem_iff.mp hv, rfl⟩)
      injection hw with hw
      rw [hw]; exact hb
    unfold adTest at he
    simp only [hsort, adGuards_of_good s hsorted hr prev0 (fun v hv => le_trans hprev (hr v hv).1),
      allSome_map_some] at he
    cases he
  · intro hbad
    have hbad' : ∃ x ∈ sort data, BadAD x := by
      obtain ⟨x, hx, hb⟩ := hbad
      exact ⟨x, (hs.1 data).mem_iff.mpr hx, hb⟩
    have hg := adGuards_of_bad (sort data) hbad' prev0
    unfold adTest
    cases hgd : adGuards prev0 (sort data) with
    | none => exact absurd hgd hg
    | some e => exact ⟨e, by dsimp only; rw [hgd]⟩

/-- on a sample in the open interval (0, 1) the statistic equals the textbook formula
`-n - (1/n) Σ (2i-1) [ln x_(i) + ln(1 - x_(n+1-i))]` on the order statistics `s`, whatever the order of the data -/
theorem ad_eq_textbook (sort : List (Option ℝ) → List (Option ℝ)) (hs : ADSorts sort) (prev0 : ℝ)
    (hprev : prev0 ≤ 0) (xs s : List ℝ) (hx : ∀ v ∈ xs, 0 < v ∧ v < 1)
    (hperm : s.Perm xs) (hsorted : s.Pairwise (· ≤ ·)) :
    adTest sort prev0 (xs.map some) = .ok (adTextbook s) := by
  obtain ⟨s', hsort, hperm', hsorted'⟩ := hs.2 xs
  have hss : s' = s := sorted_perm_unique hsorted' hsorted (hperm'.trans hperm.symm)
  subst hss
  have hr : ∀ v ∈ s', 0 < v ∧ v < 1 := fun v hv => hx v (hperm.mem_iff.mp hv)
  unfold adTest
  simp only [hsort, adGuards_of_good s' hsorted (fun v hv => ⟨(hr v hv).1.le, (hr v hv).2.le⟩) prev0
    (fun v hv => le_trans hprev (hr v hv).1.le), allSome_map_some, adStat_eq s' hr]

/-- the Anderson-Darling p-value returned with the statistic lies in [0, 1], for every sample size and every
value of the statistic (the code clamps Marsaglia's approximation `1 - AD(n, z)`) -/
theorem ad_pvalue_range (n : ℕ) (stat : ℝ) : 0 ≤ adPvalue n stat ∧ adPvalue n stat ≤ 1 :=
  clamp01_range _

/-- `alpha(type="AD")`: the PIT series of the random branch lies strictly inside (0, 1) (`pit`'s default
plotting constant is below ½), so the Anderson-Darling test never rejects it, and its p-value lies in [0, 1] -/
theorem alpha_ad_accepts (sort : List (Option ℝ) → List (Option ℝ)) (hs : ADSorts sort) (prev0 cst0 : ℝ)
    (hprev : prev0 ≤ 0) (hc : cst0 < 1 / 2) (obs dobs : List ℝ) (ens dens : List (List ℝ)) :
    ∃ s p, alphaAD sort prev0 cst0 obs dobs ens dens = .ok (s, p) ∧ 0 ≤ p ∧ p ≤ 1 := by
  unfold alphaAD
  simp only
  set pits := pitRandomAll cst0 obs dobs ens dens with hp
  have hopen := pitRandomAll_open cst0 hc obs dobs ens dens
  cases hres : adTest sort prev0 (pits.map some) with
  | ok s => exact ⟨s, adPvalue pits.length s, rfl, ad_pvalue_range _ _⟩
  | error e =>
    exfalso
    obtain ⟨x, hx, hb⟩ := (ad_rejects_iff sort hs prev0 hprev (pits.map some)).mp ⟨e, hres⟩
    obtain ⟨v, hv, rfl⟩ := List.mem_map.mp hx
    have := hopen v hv
    rcases hb with hb | hb <;> linarith [this.1, this.2]

/-- FULL p-value clause of the property ("the p-values of the Cramer-von Mises and Anderson-Darling tests and of
alpha lie in [0, 1]"): alpha returns the Cramer-von Mises, the Anderson-Darling or scipy's Kolmogorov-Smirnov
p-value of the PIT series. `ks` stands for `scipy.stats.kstest(pits, "uniform").pvalue`, which is outside the model;
not proved as a whole for that reason (the oracle range-checks it on the real code). -/
def pvalue_range_statement (ks : List ℝ → ℝ) : Prop :=
  (∀ (n : ℕ) (stat v : ℝ), cvmPvalue n stat = some v → 0 ≤ v ∧ v ≤ 1) ∧
    (∀ (n : ℕ) (stat : ℝ), 0 ≤ adPvalue n stat ∧ adPvalue n stat ≤ 1) ∧
    (∀ pits, 0 ≤ ks pits ∧ ks pits ≤ 1)

/-- proved part: everything that is computed by hydrodiy itself — the Cramer-von Mises p-value (for the table the
working tree ships) and the Anderson-Darling p-value, for every sample size and every statistic -/
theorem pvalue_range_partial :
    (∀ (n : ℕ) (stat v : ℝ), cvmPvalue n stat = some v → 0 ≤ v ∧ v ≤ 1) ∧
      (∀ (n : ℕ) (stat : ℝ), 0 ≤ adPvalue n stat ∧ adPvalue n stat ≤ 1) :=
  ⟨fun n stat v h => cvm_pvalue_range n stat v h, fun n stat => ad_pvalue_range n stat⟩

theorem ad_perm_invariant (sort : List (Option ℝ) → List (Option ℝ)) (hs : ADSorts sort) (prev0 : ℝ)
    (hprev : prev0 ≤ 0) (xs xs' : List ℝ) (hx : ∀ v ∈ xs, 0 < v ∧ v < 1) (h : xs.Perm xs') :
    adTest sort prev0 (xs'.map some) = adTest sort prev0 (xs.map some) := by
  obtain ⟨s, _, hperm, hsorted⟩ := hs.2 xs
  rw [ad_eq_textbook sort hs prev0 hprev xs s hx hperm hsorted,
    ad_eq_textbook sort hs prev0 hprev xs' s (fun v hv => hx v (h.mem_iff.mpr hv)) (hperm.trans h) hsorted]


/-! ## 12. Anderson-Darling with the sort the model is run with: no sort hypothesis left -/

theorem ad_sortADm_eq_textbook (prev0 : ℝ) (hprev : prev0 ≤ 0) (xs s : List ℝ) (hx : ∀ v ∈ xs, 0 < v ∧ v < 1)
    (hperm : s.Perm xs) (hsorted : s.Pairwise (· ≤ ·)) :
    adTest sortADm prev0 (xs.map some) = .ok (adTextbook s) :=
  ad_eq_textbook sortADm sortADm_adSorts prev0 hprev xs s hx hperm hsorted

theorem ad_sortADm_rejects_iff (prev0 : ℝ) (hprev : prev0 ≤ 0) (data : List (Option ℝ)) :
    (∃ e, adTest sortADm prev0 data = .error e) ↔ ∃ x ∈ data, BadAD x :=
  ad_rejects_iff sortADm sortADm_adSorts prev0 hprev data

/-- with a correct sort the order check of `ADtest` never fires on NaN-free data: a rejection is a range rejection -/
theorem ad_never_unsorted (sort : List (Option ℝ) → List (Option ℝ)) (hs : ADSorts sort) (prev0 : ℝ)
    (hprev : prev0 ≤ 0) (xs : List ℝ) : adTest sort prev0 (xs.map some) ≠ .error .unsorted ∧
      adTest sort prev0 (xs.map some) ≠ .error .nan := by
  obtain ⟨s, hsort, hperm, hsorted⟩ := hs.2 xs
  unfold adTest
  simp only [hsort, allSome_map_some]
  have key : ∀ (l : List ℝ) (p : ℝ), l.Pairwise (· ≤ ·) → (∀ v ∈ l, p ≤ v ∨ v < 0) →
      adGuards p (l.map some) ≠ some .unsorted ∧ adGuards p (l.map some) ≠ some .nan := by
    intro l
    induction l with
    | nil => intro p _ _; simp [adGuards]
    | cons a t ih =>
      intro p hp hb
      simp only [List.map_cons, adGuards]
      by_cases h1 : a < 0 ∨ 1 < a
      · rw [if_pos h1]; simp
      · rw [if_neg h1]
        rw [not_or, not_lt, not_lt] at h1
        have hpa : ¬ a < p := by
          rcases hb a (by simp) with h | h
          · exact not_lt.mpr h
          · linarith [h1.1]
        rw [if_neg hpa]
        exact ih a (List.Pairwise.of_cons hp) (fun v hv => Or.inl (List.rel_of_pairwise_cons hp hv))
  have hk := key s prev0 hsorted (fun v hv => by
    by_cases h : v < 0
    · exact Or.inr h
    · exact Or.inl (le_trans hprev (not_lt.mp h)))
  constructor
  · cases hg : adGuards prev0 (s.map some) with
    | none => simp
    | some e => intro h; simp only at h; injection h with h; exact hk.1 (by rw [hg, h])
  · cases hg : adGuards prev0 (s.map some) with
    | none => simp
    | some e => intro h; simp only at h; injection h with h; exact hk.2 (by rw [hg, h])

/-! ## 13. the entry point `metrics.alpha` -/

/-- `alpha` filters, then `pit` filters again: the second filter changes nothing (what the first kept, it keeps) -/
theorem alpha_refilter (kind : PctKind) (eps cst censor : ℝ) (k : List (ℝ × List (Option ℝ)))
    (hk : ∀ p ∈ k, p.2.any Option.isSome = true) (hne : k ≠ []) (c : ℕ) (dobs : List ℝ) (dens : List (List ℝ)) :
    pitEntry true kind eps cst censor (.vec (keptObs k)) (.mat c (keptEns k)) dobs dens
      = .ok (pitRows true kind eps cst censor k dobs dens) := by
  unfold pitEntry checkEnsembleIn keptObs keptEns
  simp only [normObs, normEns]
  rw [checkEnsemble_idem k hk hne]

/-- `alpha` with type CV or AD: whenever it returns, its p-value is defined and lies in [0, 1] (every layout, NaN rows,
every jitter); with a correct sort the Anderson-Darling test never rejects alpha's own PIT series; a type other than
CV / KS / AD is rejected after the data checks -/
theorem alphaEntry_pvalue_range (sortA : List ℝ → List ℝ) (sortD : List (Option ℝ) → List (Option ℝ))
    (ks : List ℝ → ℝ × ℝ) (typ : AlphaType) (htyp : typ ≠ .ks) (eps prev0 cst0 : ℝ) (obs ens : ArrIn (Option ℝ))
    (dobs : List ℝ) (dens : List (List ℝ)) (s : ℝ) (p : Option ℝ) (flags : List Bool)
    (h : alphaEntry sortA sortD ks typ eps prev0 cst0 obs ens dobs dens = .ok (s, p, flags)) :
    ∃ v, p = some v ∧ 0 ≤ v ∧ v ≤ 1 := by
  unfold alphaEntry at h
  cases hk : checkEnsembleIn obs ens with
  | error e => rw [hk] at h; cases h
  | ok k =>
    rw [hk] at h
    simp only at h
    split at h
    · cases h
    · rename_i r hr
      cases typ with
      | ks => exact absurd rfl htyp
      | cv =>
        simp only at h
        injection h with h
        injection h with h1 h2
        injection h2 with h2 h3
        obtain ⟨v, hv⟩ := cvm_pvalue_defined (α := ℝ) (r.filterMap Prod.fst).length
          (cvmStat sortA (r.filterMap Prod.fst))
        rw [hv] at h2
        exact ⟨v, h2.symm, cvm_pvalue_range _ _ v hv⟩
      | ad =>
        simp only at h
        split at h
        · injection h with h
          injection h with h1 h2
          injection h2 with h2 h3
          exact ⟨_, h2.symm, ad_pvalue_range _ _⟩
        · cases h
      | other => cases h

theorem alphaEntry_ad_accepts (sortA : List ℝ → List ℝ) (sortD : List (Option ℝ) → List (Option ℝ))
    (hs : ADSorts sortD) (ks : List ℝ → ℝ × ℝ) (eps prev0 cst0 : ℝ) (hprev : prev0 ≤ 0) (hc : cst0 < 1 / 2)
    (obs ens : ArrIn (Option ℝ)) (dobs : List ℝ) (dens : List (List ℝ)) (e : ADErr) :
    alphaEntry sortA sortD ks .ad eps prev0 cst0 obs ens dobs dens ≠ .error (.adTest e) := by
  unfold alphaEntry
  cases hk : checkEnsembleIn obs ens with
  | error e' => simp
  | ok k =>
    simp only
    have hany := checkEnsembleIn_any obs ens k hk
    have hne : k ≠ [] := by
      unfold checkEnsembleIn at hk
      split at hk
      · cases hk
      · obtain ⟨_, h, _⟩ := checkEnsemble_spec _ _ k hk
        exact h
    rw [alpha_refilter .rank eps cst0 0 k hany hne]
    simp only
    have hopen := pitRows_random_open .rank eps cst0 0 hc k dobs dens
    set pits := (pitRows true .rank eps cst0 0 k dobs dens).filterMap Prod.fst with hp
    cases hres : adTest sortD prev0 (pits.map some) with
    | ok s => simp
    | error e' =>
      exfalso
      obtain ⟨x, hx, hb⟩ := (ad_rejects_iff sortD hs prev0 hprev (pits.map some)).mp ⟨e', hres⟩
      obtain ⟨v, hv, rfl⟩ := List.mem_map.mp hx
      have := hopen v hv
      rcases hb with hb | hb <;> linarith [this.1, this.2]

theorem alphaEntry_badType (sortA : List ℝ → List ℝ) (sortD : List (Option ℝ) → List (Option ℝ))
    (ks : List ℝ → ℝ × ℝ) (eps prev0 cst0 : ℝ) (obs ens : ArrIn (Option ℝ)) (dobs : List ℝ) (dens : List (List ℝ))
    (k : List (ℝ × List (Option ℝ))) (hk : checkEnsembleIn obs ens = .ok k) :
    alphaEntry sortA sortD ks .other eps prev0 cst0 obs ens dobs dens = .error .badType := by
  have hany := checkEnsembleIn_any obs ens k hk
  have hne : k ≠ [] := by
    unfold checkEnsembleIn at hk
    split at hk
    · cases hk
    · obtain ⟨_, h, _⟩ := checkEnsemble_spec _ _ k hk
      exact h
  unfold alphaEntry
  rw [hk]
  simp only
  rw [alpha_refilter .rank eps cst0 0 k hany hne]

/-! ## 14. the entry point `metrics.dscore` -/

/-- whenever `dscore` returns a number it lies in [0, 1] — for every layout of `sim` -/
theorem dscoreEntry_range (sort : List (ℝ × ℕ) → List (ℝ × ℕ)) (epsmin eps : ℝ) (obs : List ℝ) (sim : SimIn ℝ)
    (D : ℝ) (h : dscoreEntry sort epsmin eps obs sim = .ok (some D)) : 0 ≤ D ∧ D ≤ 1 := by
  unfold dscoreEntry at h
  simp only at h
  split at h
  · cases h
  · injection h with h
    exact dscore_range sort epsmin eps _ obs _ D h

/-- it raises exactly when the number of observations differs from the number of forecasts -/
theorem dscoreEntry_rejects_iff (sort : List (ℝ × ℕ) → List (ℝ × ℕ)) (epsmin eps : ℝ) (obs : List ℝ) (sim : SimIn ℝ) :
    (∃ e, dscoreEntry sort epsmin eps obs sim = .error e) ↔ obs.length ≠ (simRows sim).2.length := by
  unfold dscoreEntry
  simp only
  split
  · rename_i h; exact ⟨fun _ => h, fun _ => ⟨_, rfl⟩⟩
  · rename_i h; exact ⟨fun ⟨e, he⟩ => (by cases he), fun h' => absurd h' h⟩

/-- single-member forecasts given as a vector [n] are scored as the column [n,1]: one forecast per value, ranked by
their mid-ranks (= Weigel–Mason ranks, `franks_eq_weigel_mason`), NOT as one forecast of `n` members -/
theorem dscoreEntry_vec (sort : List (ℝ × ℕ) → List (ℝ × ℕ)) (epsmin eps : ℝ) (obs l : List ℝ)
    (hlen : obs.length = l.length) :
    dscoreEntry sort epsmin eps obs (.vec l) = dscoreEntry sort epsmin eps obs (.mat 1 (l.map fun a => [a])) ∧
      dscoreEntry sort epsmin eps obs (.vec l)
        = .ok (dscoreOf ((stableRanks obs).map fun (r : ℕ) => (Nat.cast r : ℝ)) (midRanks l)) := by
  refine ⟨rfl, ?_⟩
  unfold dscoreEntry
  simp only [simRows, List.length_map]
  rw [if_neg (by simpa using hlen)]
  unfold dscore dscoreWith franksOf
  rw [if_pos rfl, flatten_singletons]

/-- the range clause does not depend on how `np.argsort` ranks (tied) observations: whatever rank vector stands for
`np.argsort(np.argsort(obs))`, the score is NaN or in [0, 1] -/
theorem dscore_range_any_argsort (sort : List (ℝ × ℕ) → List (ℝ × ℕ)) (epsmin eps : ℝ) (m : ℕ) (oranks : List ℕ)
    (rows : List (List ℝ)) (D : ℝ) (h : dscoreWith sort epsmin eps m oranks rows = some D) : 0 ≤ D ∧ D ≤ 1 :=
  dscoreOf_range _ _ D h

/-- "same number of ties" in `pitRank_strictMono_count` / `pitKind_strictMono_count` is needed: with 3 members tied
with the observation and none below, the rank PIT is above the PIT of one member below and no tie -/
theorem pit_ties_needed : pitRankFormula (α := ℚ) 1 1 4 < pitRankFormula (α := ℚ) 0 3 4 := by
  unfold pitRankFormula; norm_num

/-- `dscoreOf` is `dFinishR id` of the (clipped) correlation: the rounded range theorem is about the code's last step -/
theorem dscoreOf_through_finish (x y : List ℝ) : dscoreOfFin x y = dscoreOf x y := dscoreOfFin_eq x y

/-! ## 15. `ensrank` on caller-owned buffers: histories -/

/-- one call: with buffers of the right shape the answer read back (return code, upper triangle of `fmat`, `ranks`)
is the answer on fresh buffers, and the buffers keep their shape; with buffers of another shape the wrapper's
assertion fires; a rejected call (assertion or return code) leaves the buffers untouched -/
theorem ensrank_step (sort : List (ℝ × ℕ) → List (ℝ × ℕ)) (epsmin eps : ℝ) (ncol : ℕ) (rows : List (List ℝ))
    (b : Bufs ℝ) :
    (shapesOK b rows.length = true →
        (bufStep sort epsmin b (.call eps ncol rows)).2 = callReply sort epsmin eps ncol rows ∧
          shapesOK (bufStep sort epsmin b (.call eps ncol rows)).1 rows.length = true) ∧
      (shapesOK b rows.length = false → bufStep sort epsmin b (.call eps ncol rows) = (b, .assertion)) ∧
      (∀ e, (bufStep sort epsmin b (.call eps ncol rows)).2 = .code e →
        (bufStep sort epsmin b (.call eps ncol rows)).1 = b) := by
  refine ⟨bufStep_call sort epsmin eps ncol rows b, ?_, ?_⟩
  · intro h; simp [bufStep, h]
  · intro e he
    by_cases hs : shapesOK b rows.length = true
    · cases hr : ensrank sort epsmin eps ncol rows with
      | error e' => simp [bufStep, hs, hr]
      | ok r => simp [bufStep, hs, hr] at he
    · simp [bufStep, hs] at he

/-- a whole history over `n` forecasts — calls (accepted or rejected by the kernel) and the caller scribbling into its
buffers, in any order and number: every reply is the reply on fresh buffers. Nothing leaks from one call to the next -/
theorem ensrank_history_free (sort : List (ℝ × ℕ) → List (ℝ × ℕ)) (epsmin : ℝ) (n : ℕ) (ops : List (BufOp ℝ)) :
    ∀ b : Bufs ℝ, shapesOK b n = true → (∀ op ∈ ops, OpShape n op) →
      (bufRun sort epsmin b ops).2 = ops.map (replyOf sort epsmin) := by
  induction ops with
  | nil => intro b _ _; rfl
  | cons op rest ih =>
    intro b hb hops
    have hop := hops op (by simp)
    simp only [bufRun, List.map_cons]
    cases op with
    | scribble f r =>
      have : shapesOK (⟨f, r⟩ : Bufs ℝ) n = true := hop
      rw [ih _ (by simpa [bufStep] using this) (fun o ho => hops o (by simp [ho]))]
      rfl
    | call eps ncol rows =>
      have hn : rows.length = n := hop
      subst hn
      obtain ⟨h1, h2⟩ := bufStep_call sort epsmin eps ncol rows b hb
      rw [ih _ h2 (fun o ho => hops o (by simp [ho])), h1]
      rfl

/-! ## non-vacuity of the hypotheses -/

/-- a pooled pair with a tie across the two ensembles, stably sorted: `PairOK` holds -/
example : PairOK (fun _ => [((1 : ℚ), 0), (1, 2), (2, 3), (3, 1)]) (1 / 1000000 : ℚ) (1 / 100000000)
    [1, 3] [1, 2] := by
  refine ⟨?_, ?_, ?_⟩
  · unfold Separated; decide +kernel
  · unfold pool; decide +kernel
  · unfold cmpTol; decide +kernel

/-- forecasts ordered as the observations -/
example : PerfectOrder [((1 : ℚ), [0, 1]), (2, [1, 2]), (5, [2, 2])] := by
  unfold PerfectOrder wm rowScore ps; decide +kernel

example : InverseOrder [((1 : ℚ), [2, 2]), (2, [1, 2]), (5, [0, 1])] := by
  unfold InverseOrder wm rowScore ps; decide +kernel

/-- two forecasts of two members with a tie across them: a valid `dscore` configuration -/
example : RanksOK (fun _ => [((1 : ℚ), 0), (1, 2), (2, 3), (3, 1)]) (1 / 10 ^ 20 : ℚ) (1 / 1000000)
    (1 / 100000000) 2 [[1, 3], [1, 2]] := by
  refine ⟨by norm_num, by norm_num, by norm_num, by norm_num, by simp, by simp, fun _ => ?_⟩
  rw [List.pairwise_pair]
  refine ⟨?_, ?_, ?_⟩
  · unfold Separated; decide +kernel
  · unfold pool; decide +kernel
  · unfold cmpTol; decide +kernel

/-- an ordinal ranking of three distinct observations -/
example : ValidRanking [(3 : ℚ), 1, 2] [2, 0, 1] := by
  unfold ValidRanking; decide +kernel

/-- jitter within `e` and members further than `2e` from the observation (hypotheses of `pitRandom_eq_count`) -/
example : |(1 / 20 : ℚ)| ≤ 1 / 10 ∧ (∀ d ∈ [(-1 / 10 : ℚ), 1 / 10], |d| ≤ 1 / 10) ∧
    (∀ a ∈ [(0 : ℚ), 2], 2 * (1 / 10) < |a - 1|) := by
  decide +kernel

/-- `List.mergeSort` (the sort of the model driver) sorts ascending -/
example : SortsAscending fun l : List ℚ => l.mergeSort fun a b => decide (a ≤ b) := by
  intro l
  refine ⟨List.mergeSort_perm l _, ?_⟩
  have := List.pairwise_mergeSort (le := fun a b : ℚ => decide (a ≤ b))
    (fun a b c hab hbc => by simp only [decide_eq_true_eq] at *; exact le_trans hab hbc)
    (fun a b => by simp only [Bool.or_eq_true, decide_eq_true_eq]; exact le_total a b) l
  exact this.imp (by intro a b h; simpa using h)

/-- a sort on NaN-free samples (identity otherwise) satisfies `ADSorts` -/
example : ADSorts fun data : List (Option ℚ) =>
    match allSome data with
    | some xs => (xs.mergeSort fun a b => decide (a ≤ b)).map some
    | none => data := by
  have hsorted : ∀ l : List ℚ, (l.mergeSort fun a b => decide (a ≤ b)).Pairwise (· ≤ ·) := by
    intro l
    have := List.pairwise_mergeSort (le := fun a b : ℚ => decide (a ≤ b))
      (fun a b c hab hbc => by simp only [decide_eq_true_eq] at *; exact le_trans hab hbc)
      (fun a b => by simp only [Bool.or_eq_true, decide_eq_true_eq]; exact le_total a b) l
    exact this.imp (by intro a b h; simpa using h)
  constructor
  · intro data
    cases h : allSome data with
    | none => simp only [h]; exact List.Perm.refl _
    | some xs =>
      simp only [h]
      rw [eq_map_some_of_allSome data xs h]
      exact (List.mergeSort_perm xs _).map some
  · intro xs
    refine ⟨xs.mergeSort fun a b => decide (a ≤ b), ?_, List.mergeSort_perm xs _, hsorted xs⟩
    simp [allSome_map_some]

/-- a rounding that is NOT the identity (round down to a multiple of 2⁻¹⁰) meets `RoundsCounts` -/
example : RoundsCounts (fun x : ℚ => (⌊x * 1024⌋ : ℚ) / 1024) 7 ∧ (⌊(1 / 3 : ℚ) * 1024⌋ : ℚ) / 1024 ≠ 1 / 3 := by
  refine ⟨⟨?_, ?_, ?_⟩, ?_⟩
  · intro a b hab
    dsimp only
    apply div_le_div_of_nonneg_right _ (by norm_num)
    exact_mod_cast Int.floor_mono (by linarith)
  · intro k _
    have : (k : ℚ) * 1024 = ((k * 1024 : ℤ) : ℚ) := by push_cast; ring
    rw [this, Int.floor_intCast]; push_cast; field_simp
  · intro k _
    have : ((k : ℚ) + 1 / 2) * 1024 = ((k * 1024 + 512 : ℤ) : ℚ) := by push_cast; ring
    rw [this, Int.floor_intCast]; push_cast; field_simp; ring
  · have : ⌊(1 / 3 : ℚ) * 1024⌋ = 341 := by
      rw [Int.floor_eq_iff]; constructor <;> norm_num
    rw [this]; norm_num

/-- `pit` on data with a missing observation and a NaN member: the forecast without observation is dropped, the NaN
member is counted in the ensemble size but not below the observation, and is not censored -/
example : (pitEntry (α := ℚ) true .rank (1 / 10 ^ 10) (3 / 10) 0 (.vec [some 2, none, some 0])
      (.mat 2 [[some 1, none], [some 1, some 1], [some 0, some 3]]) [0, 0] [[0, 0], [0, 0]]).toOption
    = some [(some (4 / 9), false), (some (2 / 27), true)] := by
  decide +kernel

/-- … and a [n,1] observation array gives the same as the vector; a [2,2] one is rejected -/
example : pitEntry (α := ℚ) false .mean (1 / 10 ^ 10) (3 / 10) 0 (.mat 2 [[some 1, some 2], [some 3, some 4]])
      (.mat 2 [[some 1, some 1], [some 1, some 1]]) [] [] = .error .obsNotOneD := by
  decide +kernel

/-- a history on two single-member forecasts: an accepted call, a call the kernel rejects (eps = 0), the caller
scribbling over both buffers, another accepted call — hypotheses of `ensrank_history_free` -/
example : shapesOK (⟨[[0, 0], [0, 0]], [0, 0]⟩ : Bufs ℚ) 2 = true ∧
    ∀ op ∈ [BufOp.call (1 / 10 ^ 6 : ℚ) 1 [[1], [2]], .call 0 1 [[1], [2]], .scribble [[7, 7], [7, 7]] [3, 3],
      .call (1 / 10 ^ 6) 1 [[2], [1]]], OpShape 2 op := by
  refine ⟨by decide +kernel, ?_⟩
  intro op hop
  simp only [List.mem_cons, List.not_mem_nil, or_false] at hop
  rcases hop with rfl | rfl | rfl | rfl <;> simp [OpShape, shapesOK]

/-- … and what the run returns on it (identity sort: the pooled pairs are already in order) -/
example : (bufRun (fun l => l) (1 / 10 ^ 20 : ℚ) ⟨[[0, 0], [0, 0]], [0, 0]⟩
      [BufOp.call (1 / 10 ^ 6 : ℚ) 1 [[1], [2]], .call 0 1 [[1], [2]], .scribble [[7, 7], [7, 7]] [3, 3]]).1.ranks
    = [3, 3] ∧
    (bufRun (fun l => l) (1 / 10 ^ 20 : ℚ) ⟨[[0, 0], [0, 0]], [0, 0]⟩
      [BufOp.call (1 / 10 ^ 6 : ℚ) 1 [[1], [2]], .call 0 1 [[1], [2]]]).1.ranks = [1, 2] := by
  decide +kernel

/-- single-member forecasts as a vector: accepted when there are as many observations -/
example : (simRows (.vec [(1 : ℚ), 2, 2, 4])).2.length = [(1 : ℚ), 2, 3, 4].length := by decide

/-- a pseudo-PIT configuration at the threshold (hypotheses of `sudo_rounded_at_or_below`) and one above it -/
example : (2 : ℚ) ≤ 2 ∧ (∃ a ∈ [(3 : ℚ), 1], a ≤ 2) ∧ ((1 / 10 ^ 10 : ℚ) ≤ 5 - 2 ∨ ∀ a ∈ [(3 : ℚ), 1], 1 / 10 ^ 10 ≤ a - 2) := by
  decide +kernel

end HydroVerif.C10
