/-
C10 — property theorems (only). Model: `HydroVerif/Model/C10.lean`; helper lemmas and the specification
vocabulary (`ps`, `rowScore`, `wm`, `wmF`, `wmU`, `wmRanks`, `PairOK`, `PerfectOrder`, `cvmTextbook`, `adTextbook`,
`SortsAscending` …) in `Lemmas/C10Scan.lean, C10WM.lean, C10Rank.lean, C10Ranks2.lean, C10Real.lean, C10Unif.lean`.

`α` is any linearly ordered field (ℝ where a square root or a logarithm is involved). `sort` stands for glibc
`qsort` / `np.sort`; what is assumed of it is spelled out in `PairOK` (stable, by the tolerant comparator),
`SortsAscending` and `ADSorts`. `eps` is the tie tolerance given to `c_ensrank`, `ceps` the one compiled into its
comparator (1e-8): values are assumed pairwise tied or separated by more than both (`Separated`).
-/
import HydroVerif.Lemmas.C10Unif

set_option linter.unusedSectionVars false
set_option linter.unusedVariables false

namespace HydroVerif.C10
open HydroVerif.C04 (sumL absG mean ssd pearson)

section field
variable {α : Type} [Field α] [LinearOrder α] [IsStrictOrderedRing α]

/-! ## 1. `c_ensrank`: the scan is the pairwise mid-rank comparison of Weigel and Mason (2011) -/

/-- the tie-sequence scan over the (stably) sorted pooled array returns the sum, over the members `a` of
the first ensemble, of their mid-rank in the pooled sample: `½ + #{b < a} + ½ #{b = a}`
(all ensemble sizes, all tie patterns) -/
theorem scan_eq_pooled_midranks (sort : List (α × ℕ) → List (α × ℕ)) (eps ceps : α) (heps : 0 < eps)
    (hc : 0 ≤ ceps) (e1 e2 : List α) (h : PairOK sort eps ceps e1 e2) :
    scan eps e1.length (sort (pool e1 e2)) = (e1.map fun a => 1 / 2 + rowScore a (e1 ++ e2)).sum := by
  rw [scan_pool eps ceps heps hc e1 e2 _ h.1 h.2, relSpec_pool_midranks]

/-- hence the kernel's `F` is eq. 1 of Weigel and Mason: `F · m² = Σ_a Σ_b ([b<a] + ½[a=b])` -/
theorem fpair_eq_weigel_mason (sort : List (α × ℕ) → List (α × ℕ)) (eps ceps : α) (heps : 0 < eps)
    (hc : 0 ≤ ceps) (e1 e2 : List α) (h : PairOK sort eps ceps e1 e2) :
    fpair sort eps e1 e2 = wm e1 e2 / (e1.length : α) / (e1.length : α) :=
  fpair_eq_wmF sort eps ceps heps hc e1 e2 h

/-- `F` lies in [0, 1] and `F(e1, e2) + F(e2, e1) = 1` -/
theorem wmF_range (e1 e2 : List α) (hlen : e1.length = e2.length) (hpos : 0 < e1.length) :
    0 ≤ wmF e1 e2 ∧ wmF e1 e2 ≤ 1 ∧ wmF e1 e2 + wmF e2 e1 = 1 := by
  have h1 := wmF_nonneg e1 e2
  have h2 := wmF_nonneg e2 e1
  have h3 := wmF_add_swap e1 e2 hlen hpos
  exact ⟨h1, by linarith, h3⟩

/-- the comparison uses only `<` and `=`: unchanged by a strictly increasing map of all values … -/
theorem fpair_strictMono_invariant (sort : List (α × ℕ) → List (α × ℕ)) (eps ceps : α) (heps : 0 < eps)
    (hc : 0 ≤ ceps) (f : α → α) (hf : StrictMono f) (e1 e2 : List α)
    (h : PairOK sort eps ceps e1 e2) (h' : PairOK sort eps ceps (e1.map f) (e2.map f)) :
    fpair sort eps (e1.map f) (e2.map f) = fpair sort eps e1 e2 := by
  rw [fpair_eq_wmF sort eps ceps heps hc _ _ h, fpair_eq_wmF sort eps ceps heps hc _ _ h', wmF_map hf]

/-- … and by permuting the members of either ensemble -/
theorem fpair_member_perm_invariant (sort : List (α × ℕ) → List (α × ℕ)) (eps ceps : α) (heps : 0 < eps)
    (hc : 0 ≤ ceps) (e1 e1' e2 e2' : List α) (p1 : e1.Perm e1') (p2 : e2.Perm e2')
    (h : PairOK sort eps ceps e1 e2) (h' : PairOK sort eps ceps e1' e2') :
    fpair sort eps e1' e2' = fpair sort eps e1 e2 := by
  rw [fpair_eq_wmF sort eps ceps heps hc _ _ h, fpair_eq_wmF sort eps ceps heps hc _ _ h', wmF_perm p1 p2]

/-- the whole kernel: `fmat` holds eq. 1 for every pair `i1 < i2` and `ranks` is eq. 2,
`1 + Σ_{k≠i} u(i,k)` with `u = 1, ½, 0` as ensemble `i` beats, ties with, or loses to ensemble `k`;
for every number of forecasts and every ensemble size `m ≥ 1` -/
theorem ensrank_eq_weigel_mason (sort : List (α × ℕ) → List (α × ℕ)) (epsmin eps ceps : α)
    (hmin : epsmin ≤ eps) (heps : 0 < eps) (hc : 0 ≤ ceps) (m : ℕ) (hm : 0 < m) (rows : List (List α))
    (hne : rows ≠ []) (hlen : ∀ e ∈ rows, e.length = m) (hok : rows.Pairwise (PairOK sort eps ceps)) :
    ensrank sort epsmin eps m rows = .ok (upperF wmF rows, wmRanks rows) := by
  have hF : rows.Pairwise fun e1 e2 => fpair sort eps e1 e2 = wmF e1 e2 :=
    hok.imp fun h => fpair_eq_wmF sort eps ceps heps hc _ _ h
  unfold ensrank
  rw [if_neg (not_lt.mpr hmin), if_neg (by
    rw [not_or]; exact ⟨hm.ne', by simpa [List.length_eq_zero_iff] using hne⟩)]
  rw [upperF_congr _ _ rows hF, ranksOf_eq_wmRanks _ rows m hm hlen hF]

/-- the kernel rejects exactly a tolerance below `epsmin` (1e-20) or an empty dimension -/
theorem ensrank_rejects_iff (sort : List (α × ℕ) → List (α × ℕ)) (epsmin eps : α) (m : ℕ)
    (rows : List (List α)) :
    (∃ e, ensrank sort epsmin eps m rows = .error e) ↔ (eps < epsmin ∨ m = 0 ∨ rows = []) := by
  unfold ensrank
  by_cases h1 : eps < epsmin
  · simp [h1]
  · by_cases h2 : m = 0 ∨ rows.length = 0
    · rw [if_neg h1, if_pos h2]
      simp only [List.length_eq_zero_iff] at h2
      simp [h1, h2]
    · rw [if_neg h1, if_neg h2]
      simp only [List.length_eq_zero_iff] at h2
      simp [h1, h2]

/-- the kernel's output is unchanged by a strictly increasing re-scaling of all forecast values -/
theorem ensrank_strictMono_invariant (sort : List (α × ℕ) → List (α × ℕ)) (epsmin eps ceps : α)
    (hmin : epsmin ≤ eps) (heps : 0 < eps) (hc : 0 ≤ ceps) (m : ℕ) (hm : 0 < m) (rows : List (List α))
    (hne : rows ≠ []) (hlen : ∀ e ∈ rows, e.length = m) (f : α → α) (hf : StrictMono f)
    (hok : rows.Pairwise (PairOK sort eps ceps))
    (hok' : (rows.map (List.map f)).Pairwise (PairOK sort eps ceps)) :
    ensrank sort epsmin eps m (rows.map (List.map f)) = ensrank sort epsmin eps m rows := by
  rw [ensrank_eq_weigel_mason sort epsmin eps ceps hmin heps hc m hm rows hne hlen hok,
    ensrank_eq_weigel_mason sort epsmin eps ceps hmin heps hc m hm _ (by simpa using hne)
      (by intro e he; obtain ⟨e0, h0, rfl⟩ := List.mem_map.mp he; rw [List.length_map]; exact hlen e0 h0) hok',
    upperF_wmF_map hf, wmRanks_map hf]

/-- … and by permuting the members inside each ensemble -/
theorem ensrank_member_perm_invariant (sort : List (α × ℕ) → List (α × ℕ)) (epsmin eps ceps : α)
    (hmin : epsmin ≤ eps) (heps : 0 < eps) (hc : 0 ≤ ceps) (m : ℕ) (hm : 0 < m) (rows rows' : List (List α))
    (hne : rows ≠ []) (hlen : ∀ e ∈ rows, e.length = m) (hp : List.Forall₂ List.Perm rows rows')
    (hok : rows.Pairwise (PairOK sort eps ceps)) (hok' : rows'.Pairwise (PairOK sort eps ceps)) :
    ensrank sort epsmin eps m rows' = ensrank sort epsmin eps m rows := by
  rw [ensrank_eq_weigel_mason sort epsmin eps ceps hmin heps hc m hm rows hne hlen hok,
    ensrank_eq_weigel_mason sort epsmin eps ceps hmin heps hc m hm rows' (forall₂_perm_ne_nil hp hne)
      (forall₂_perm_length hp m hlen) hok',
    upperF_wmF_perm hp, wmRanks_perm hp]

end field

end HydroVerif.C10
