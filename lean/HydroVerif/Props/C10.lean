import HydroVerif.Model.C10
import Mathlib.Algebra.Order.Field.Basic
import Mathlib.Tactic.Linarith

namespace HydroVerif.C10

variable {α : Type} [Field α] [LinearOrder α] [IsStrictOrderedRing α]

theorem clampCst_le_half (cst : α) : clampCst cst ≤ 1 / 2 := by
  unfold clampCst
  split <;> linarith

end HydroVerif.C10
