/-
C09 — property theorems. Model: `HydroVerif/Model/C09.lean`; lemmas: `Lemmas/C09.lean`, `Lemmas/C09Body.lean`.

Clause of the property                                   | theorems                                                   | outside the theorems
---------------------------------------------------------|------------------------------------------------------------|---------------------
header comments come back unchanged in the dictionary    | writerKey_id, readerStrip_headLine, h2cElem_headLine, h2cLoop_preserves, readHeader_lookup, lookup_dictSet_self, lookup_dictSet_other | python `re` (modelled as list functions, compared on every generated header); system lines are parameters
recorded row and column counts are returned              | readHeader_lookup at keys nrow / ncol (example: whole header evaluated) | -
header block / column line / body are separated correctly | splitFile_written (rows starting with `#` stay rows)        | file objects, `readline`
same column names                                        | colnames_roundtrip, writeRow_cols, quoteField_plain         | `re.sub("\\.", "_")` on names (dots are outside the name alphabet)
same number of rows, equal non-empty text values         | parseRow_writeRow (any text: commas, quotes, colons, hashes, any number of fields), field_closed | pandas type inference and NA handling (oracle end-to-end); embedded line breaks are outside the quantifier
numeric values equal to the float-format precision       | -                                                          | number formatting and parsing are pandas' (oracle end-to-end with the format's precision)
plain file, any accepted name                            | plain_roundtrip                                            | the file system
zip-compressed under any accepted file name              | compress_roundtrip, suffix_stem_zip (candidate list and KEY_LENGTH_MAX regenerated from csv.py) | zipfile
member of a caller-supplied archive in a sub-folder      | - (the member name is the given name: oracle `e2e/archive_member`, multi-member archives) | zipfile
-/
import HydroVerif.Lemmas.C09
import HydroVerif.Lemmas.C09Body

namespace HydroVerif.C09

/-- admissible comment key: non-empty, at most 25 characters, lower-case, no colon, no white space -/
structure KeyOk (k : Str) : Prop where
  nonempty : k ≠ []
  short : k.length ≤ 25
  lowered : lower k = k
  noColon : ∀ c ∈ k, (c != ':') = true
  noSpace : ∀ c ∈ k, isSpace c = false

/-- admissible comment value: single-line text that is non-blank and has no leading/trailing white space -/
structure ValOk (v : Str) : Prop where
  nonempty : v ≠ []
  lstripped : lstrip v = v
  rstripped : rstrip v = v

/-- the writer leaves an admissible key unchanged -/
theorem writerKey_id (k : Str) (hk : KeyOk k) : writerKey k = k := by
  unfold writerKey
  rw [List.filter_eq_self.mpr hk.noColon, hk.lowered]

/-- the reader's prefix strip recovers `key : value` from the written line -/
theorem readerStrip_headLine (k v : Str) (hk : KeyOk k) (hv : ValOk v) :
    readerStrip (headLine k v ++ ['\n']) = k ++ " : ".toList ++ v := by
  obtain ⟨c, rest, rfl⟩ : ∃ c rest, k = c :: rest := by
    cases k with
    | nil => exact absurd rfl hk.nonempty
    | cons c rest => exact ⟨c, rest, rfl⟩
  have hc : (c == ' ') = false := by
    have := hk.noSpace c (by simp)
    simp only [isSpace, Bool.or_eq_false_iff] at this
    exact this.1.1.1.1.1
  have e1 : headLine (c :: rest) v ++ ['\n'] = '#' :: ' ' :: c :: (rest ++ " : ".toList ++ v ++ ['\n']) := by
    simp [headLine]
  rw [e1]
  unfold readerStrip
  simp only
  have e0 : List.dropWhile (fun x => x == ' ') (' ' :: c :: (rest ++ " : ".toList ++ v ++ ['\n']))
      = c :: (rest ++ " : ".toList ++ v ++ ['\n']) := by
    rw [List.dropWhile_cons_of_pos (by rfl)]
    exact dropWhile_of_head_false _ _ _ hc
  rw [e0]
  have e2 : (c :: (rest ++ " : ".toList ++ v ++ ['\n'])).reverse = '\n' :: (c :: (rest ++ " : ".toList ++ v)).reverse := by
    simp
  rw [e2]
  simp

/-- **one header line round-trips**: the line written for `(key, value)` is parsed back to exactly
`(key, value)`, for values that may contain colons, hashes, commas, quotes -/
theorem h2cElem_headLine (i : Nat) (k v : Str) (hk : KeyOk k) (hv : ValOk v)
    (hd : hasDashRule (k ++ " : ".toList ++ v) = false) :
    h2cElem i (readerStrip (headLine k v ++ ['\n'])) = (some (k, v), i) := by
  rw [readerStrip_headLine k v hk hv]
  have helem : k ++ " : ".toList ++ v = k ++ ' ' :: (':' :: ' ' :: v) := by simp
  have hsp : ((' ' : Char) != ':') = true := by decide
  have hcol : ((':' : Char) != ':') = false := by decide
  have hkey : (k ++ " : ".toList ++ v).takeWhile (· != ':') = k ++ [' '] := by
    have : k ++ " : ".toList ++ v = (k ++ [' ']) ++ ':' :: (' ' :: v) := by simp
    rw [this]
    exact takeWhile_append_stop _ _ _ _ (by
      intro x hx
      rcases List.mem_append.mp hx with h | h
      · exact hk.noColon x h
      · simp at h; subst h; exact hsp) hcol
  have hlast : isSpace (k.getLast hk.nonempty) = false := hk.noSpace _ (List.getLast_mem _)
  obtain ⟨c, rest, hcr⟩ : ∃ c rest, k = c :: rest := by
    cases hkk : k with
    | nil => exact absurd hkk hk.nonempty
    | cons c rest => exact ⟨c, rest, rfl⟩
  have hstripkey : strip (k ++ [' ']) = k := by
    unfold strip
    have : lstrip (k ++ [' ']) = k ++ [' '] := by
      rw [hcr, List.cons_append]
      exact lstrip_of_head _ _ (by rw [hcr] at hk; exact hk.noSpace c (by simp))
    rw [this, rstrip_append_space k hk.nonempty hlast]
  have hval : strip ((k ++ " : ".toList ++ v).drop ((k ++ [' ']).length + 1)) = v := by
    have : (k ++ " : ".toList ++ v).drop ((k ++ [' ']).length + 1) = ' ' :: v := by
      have e : k ++ " : ".toList ++ v = (k ++ [' ', ':']) ++ (' ' :: v) := by simp
      rw [e, List.drop_append]
      simp
    rw [this]
    unfold strip
    rw [lstrip_space_cons, hv.lstripped, hv.rstripped]
  have hnosp : ∀ c ∈ k, c ≠ ' ' := by
    intro c hc heq
    have := hk.noSpace c hc
    rw [heq] at this
    exact absurd this (by decide)
  have hcontains : ((k ++ " : ".toList ++ v).take KEY_LENGTH_MAX).contains ':' = true := by
    have e : k ++ " : ".toList ++ v = (k ++ [' ']) ++ ':' :: (' ' :: v) := by simp
    rw [e]
    apply mem_take_of_index
    have := hk.short
    simp [KEY_LENGTH_MAX, Gen.keyLengthMax]; omega
  unfold h2cElem
  simp only [hd, Bool.false_eq_true, if_false, hkey, hval, hstripkey, hk.lowered, subSpaces,
    subSpacesAux_id false k hnosp, hcontains, if_true, hv.nonempty]

/-! ### the whole header: later lines never disturb an earlier key they do not mention -/

theorem lookup_dictSet_self (d : List (Str × Str)) (k v : Str) : (dictSet d k v).lookup k = some v :=
  lookup_dictSet_self' d k v

theorem lookup_dictSet_other (d : List (Str × Str)) (k k' v : Str) (hne : k' ≠ k) :
    (dictSet d k v).lookup k' = d.lookup k' :=
  lookup_dictSet_other' d k k' v hne

/-- a header element "does not define key k" -/
def notKey (k : Str) (i : Nat) (e : Str) : Prop := ∀ kv, (h2cElem i e).1 = some kv → kv.1 ≠ k

theorem h2cLoop_preserves (k : Str) (es : List Str) :
    ∀ (i : Nat) (d : List (Str × Str)), (∀ j, ∀ e ∈ es, notKey k j e) →
      (h2cLoop i d es).lookup k = d.lookup k := by
  induction es with
  | nil => intro i d _; rfl
  | cons e es ih =>
    intro i d h
    have he := h i e (by simp)
    have hrest : ∀ j, ∀ e' ∈ es, notKey k j e' := fun j e' he' => h j e' (by simp [he'])
    unfold h2cLoop
    cases hr : h2cElem i e with
    | mk o i' =>
      cases o with
      | none => simp only; exact ih i' d hrest
      | some kv =>
        obtain ⟨k1, v1⟩ := kv
        simp only
        rw [ih i' _ hrest]
        apply lookup_dictSet_other
        have := he (k1, v1) (by rw [hr])
        exact fun hh => this hh.symm

/-- **header round trip**: if the line written for `(k, v)` occurs in the header and no other line of the
header defines key `k` (system keys and the other comment keys are different), then the comment
dictionary returned by the reader holds `v` under `k` -/
theorem readHeader_lookup (before after : List Str) (k v : Str) (hk : KeyOk k) (hv : ValOk v)
    (hd : hasDashRule (k ++ " : ".toList ++ v) = false)
    (hafter : ∀ j, ∀ l ∈ after, notKey k j (readerStrip l)) :
    (readHeader (before ++ [headLine k v ++ ['\n']] ++ after)).lookup k = some v := by
  unfold readHeader header2comment
  simp only [List.map_append, List.map_cons, List.map_nil]
  have split : ∀ (i : Nat) (d : List (Str × Str)) (xs ys : List Str),
      h2cLoop i d (xs ++ ys) = h2cLoop (h2cLoopIdx i xs) (h2cLoop i d xs) ys := by
    intro i d xs
    induction xs generalizing i d with
    | nil => intro ys; rfl
    | cons x xs ih =>
      intro ys
      simp only [List.cons_append, h2cLoop, h2cLoopIdx]
      cases hr : h2cElem i x with
      | mk o i' => cases o with
        | none => simp only; exact ih i' d ys
        | some kv => obtain ⟨a, b⟩ := kv; simp only; exact ih i' _ ys
  rw [List.append_assoc, split, List.singleton_append]
  unfold h2cLoop
  rw [h2cElem_headLine _ k v hk hv hd]
  simp only
  rw [h2cLoop_preserves k _ _ _ (by
    intro j e he
    simp only [List.mem_map] at he
    obtain ⟨l, hl, rfl⟩ := he
    exact hafter j l hl)]
  exact lookup_dictSet_self _ _ _


/-- the reader takes exactly the written header block as header, the next line as column names and
all remaining lines as table rows - also rows whose first character is `#` -/
theorem splitFile_written (header : List Str) (cols : Str) (body : List Str)
    (hh : ∀ l ∈ header, startsWith l ['#'] = true) (hc : startsWith cols ['#'] = false) :
    splitFile (header ++ cols :: body) = (header, some cols, body) := by
  unfold splitFile
  have : (header ++ cols :: body).takeWhile (fun l => startsWith l ['#']) = header :=
    takeWhile_append_stop _ _ _ _ hh hc
  simp only [this, List.drop_left']


/-! ### the table body: records written with minimal quoting are read back field by field -/

/-- **record round trip**: whatever the text of the fields (commas, quotes, colons, hashes, even line breaks), the
tokeniser recovers exactly the fields that were written, for any number of fields -/
theorem parseRow_writeRow (fs : List Str) (h : fs ≠ []) : parseRow (writeRow fs) = fs := by
  cases fs with
  | nil => exact absurd rfl h
  | cons f fs =>
    have := writeRow_fold f fs []
    simpa [parseRow] using this

/-- a field is quoted exactly when it contains a comma, a quote or a line break; `#` and `:` never force quotes -/
theorem quoteField_plain (f : Str) (h : ∀ c ∈ f, c ≠ ',' ∧ c ≠ '"' ∧ c ≠ '\n' ∧ c ≠ '\r') : quoteField f = f := by
  have : needsQuote f = false := by
    simp only [needsQuote, List.any_eq_false, special]
    intro c hc
    obtain ⟨h1, h2, h3, h4⟩ := h c hc
    simp [h1, h2, h3, h4]
  simp [quoteField, this]

/-- a quoted field never ends the record early: the written text of one field contains no bare line break
outside quotes — stated as: the tokeniser is in state `qq`, `unq` or `start` (never inside quotes) after it -/
theorem field_closed (f : Str) (done : List Str) :
    ((quoteField f).foldl pstep ⟨.start, [], done⟩).st ≠ .q := by
  obtain ⟨st, h, h1, _⟩ := field_read f done
  rw [h]; exact h1

/-- admissible column name: no comma, quote or line break (the property: letters, digits, space, dash, underscore) -/
def ColOk (n : Str) : Prop := ∀ c ∈ n, c ≠ ',' ∧ c ≠ '"' ∧ c ≠ '\n' ∧ c ≠ '\r'

theorem writeRow_cols (names : List Str) (h : ∀ n ∈ names, ColOk n) (hne : names ≠ []) :
    splitOnComma (writeRow names) = names := by
  induction names with
  | nil => exact absurd rfl hne
  | cons n ns ih =>
    have hn : ∀ c ∈ n, (c == ',') = false := fun c hc => beq_eq_false_iff_ne.mpr (h n (by simp) c hc).1
    cases ns with
    | nil =>
      simp only [writeRow, quoteField_plain n (h n (by simp))]
      exact splitOnComma_plain n hn
    | cons m ms =>
      simp only [writeRow, quoteField_plain n (h n (by simp))]
      rw [splitOnComma_append n hn, ih (fun k hk => h k (by simp [hk])) (by simp)]

/-- **column names**: the line `to_csv` writes for admissible column names is split back into exactly those names by
the reader's `line.strip().split(",")`, provided the line as a whole does not begin or end with white space
(first name not starting, last name not ending with a blank) -/
theorem colnames_roundtrip (names : List Str) (h : ∀ n ∈ names, ColOk n) (hne : names ≠ [])
    (hl : lstrip (writeRow names) = writeRow names) (hr : rstrip (writeRow names) = writeRow names)
    (hline : writeRow names ≠ []) :
    splitCols (writeRow names ++ ['\n']) = names := by
  have hstrip : strip (writeRow names ++ ['\n']) = writeRow names := by
    unfold strip
    have h1 : lstrip (writeRow names ++ ['\n']) = writeRow names ++ ['\n'] := by
      cases hw : writeRow names with
      | nil => exact absurd hw hline
      | cons c rest =>
        have hc : isSpace c = false := by
          by_contra hcon
          have hcon' : isSpace c = true := by simpa using hcon
          have : lstrip (c :: rest) = lstrip rest := by simp [lstrip, List.dropWhile, hcon']
          rw [hw] at hl
          rw [this] at hl
          have hlen := congrArg List.length hl
          have : (lstrip rest).length ≤ rest.length := by
            unfold lstrip; exact (List.dropWhile_sublist _).length_le
          simp at hlen; omega
        exact lstrip_of_head c (rest ++ ['\n']) hc
    rw [h1]
    have h2 : rstrip (writeRow names ++ ['\n']) = rstrip (writeRow names) := by
      simp [rstrip, List.dropWhile, isSpace]
    rw [h2, hr]
  unfold splitCols
  rw [hstrip]
  exact writeRow_cols names h hne

/-! ### file names: the reader opens what the writer created -/

theorem suffix_stem_zip (name : Str) (h : name ≠ []) :
    suffix (stem name ++ extZip) = extZip := by
  have := splitExt_append (stem name) "zip".toList (stem_ne_nil name h) (by decide) (by decide)
  have e : stem name ++ extZip = stem name ++ '.' :: "zip".toList := rfl
  rw [e]
  unfold suffix
  rw [this]
  rfl

/-- **compressed files**: whatever the accepted name (`x.csv`, `x.zip`, `x`, `x.y.csv`, …), when the only
file present is the one `write_csv(compress=True)` created, `read_csv` opens that file as a zip archive
and reads exactly the member the writer stored -/
theorem compress_roundtrip (name : Str) (h : name ≠ []) :
    ∃ full member, writeTarget name true = (full, some member) ∧
      readTarget (fun f => f == full) name = some (.zipMember full member) := by
  have hgznezip : extGz ≠ extZip := by decide
  by_cases hz : suffix name = extZip
  · refine ⟨name, stem name ++ extCsv, ?_, ?_⟩
    · unfold writeTarget; rw [if_pos rfl, if_pos hz]
    · unfold readTarget checkName
      rw [if_pos (by simp)]
      simp only
      rw [hz, if_neg (Ne.symm hgznezip), if_pos rfl]
  · refine ⟨stem name ++ extZip, stem name ++ extCsv, ?_, ?_⟩
    · unfold writeTarget; rw [if_pos rfl, if_neg hz]
    · have hne : name ≠ stem name ++ extZip := by
        intro heq
        apply hz
        have := suffix_stem_zip name h
        rw [← heq] at this
        exact this
      have hne' : (name == stem name ++ extZip) = false := beq_eq_false_iff_ne.mpr hne
      have hgz : (stem name ++ extGz == stem name ++ extZip) = false := by
        apply beq_eq_false_iff_ne.mpr
        intro heq
        exact hgznezip (List.append_cancel_left heq)
      -- the candidate list regenerated from csv.py: <stem>.gz is tried before <stem>.zip, and neither .csv nor
      -- .csv.gz comes first
      have hcands : (Gen.checkNameExtensions.map fun e => stem name ++ '.' :: e.toList)
          = [stem name ++ extGz, stem name ++ extZip, stem name ++ extCsv, stem name ++ (extCsv ++ extGz)] := by
        simp only [Gen.checkNameExtensions, List.map_cons, List.map_nil]
        have e1 : ('.' :: "gz".toList) = extGz := by decide
        have e2 : ('.' :: "zip".toList) = extZip := by decide
        have e3 : ('.' :: "csv".toList) = extCsv := by decide
        have e4 : ('.' :: "csv.gz".toList) = extCsv ++ extGz := by decide
        rw [e1, e2, e3, e4]
      unfold readTarget checkName
      rw [if_neg (by simp [hne']), hcands]
      simp only [List.find?_cons, hgz, beq_self_eq_true]
      rw [suffix_stem_zip name h, if_neg (Ne.symm hgznezip), if_pos rfl]

/-- **plain files**: a file written without compression under a name whose extension is neither `.gz`
nor `.zip` is opened as plain text -/
theorem plain_roundtrip (name : Str) (h1 : suffix name ≠ extGz) (h2 : suffix name ≠ extZip) :
    writeTarget name false = (name, none) ∧ readTarget (fun f => f == name) name = some (.plain name) := by
  constructor
  · rfl
  · unfold readTarget checkName
    rw [if_pos (by simp)]
    simp only
    rw [if_neg h1, if_neg h2]

/-! ### non-vacuity and sample evaluations -/

example : KeyOk "station_id".toList := ⟨by decide, by decide, by decide, by decide, by decide⟩
example : ValOk "flow: 3.5 m3/s, #1 \"gauge\"".toList := ⟨by decide, by decide, by decide⟩
example : readHeader (csvhead 3 2 [("site".toList, "a: b, #c".toList)] ["# author : me".toList]) =
    [("nrow".toList, "3".toList), ("ncol".toList, "2".toList), ("site".toList, "a: b, #c".toList),
     ("author".toList, "me".toList)] := by decide
example : stem "a.b.csv".toList = "a.b".toList ∧ suffix "a.b.csv".toList = ".csv".toList
    ∧ stem ".hidden".toList = ".hidden".toList ∧ suffix "x.".toList = [] := by decide
example : writeTarget "data".toList true = ("data.zip".toList, some "data.csv".toList) := by decide
example : writeRow ["a,b".toList, "say \"hi\"".toList, "#1: x".toList] = "\"a,b\",\"say \"\"hi\"\"\",#1: x".toList := by decide
example : parseRow "\"a,b\",\"say \"\"hi\"\"\",#1: x,,3.5".toList = ["a,b".toList, "say \"hi\"".toList, "#1: x".toList, [], "3.5".toList] := by decide
example : splitCols "flow rate,site-id,q_1\n".toList = ["flow rate".toList, "site-id".toList, "q_1".toList] := by decide
example : (∀ n ∈ ["flow rate".toList, "q_1".toList], ColOk n) := by unfold ColOk; decide

end HydroVerif.C09
