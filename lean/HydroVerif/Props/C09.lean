/-
C09 — property theorems. Model: `HydroVerif/Model/C09.lean` (header, records, whole file, file names), `Model/C09Num.lean`
(number formatting / parsing), `Model/C09Fs.lean` (directory and archive state machines); predicates and lemmas:
`Lemmas/C09Spec.lean` (KeyOk, ValOk, readBack, NameOk, ZipInv …), `Lemmas/C09*.lean`.

Clause of the property                                   | theorems                                                   | outside the theorems
---------------------------------------------------------|------------------------------------------------------------|---------------------
header comments come back unchanged in the dictionary    | write_read_header (whole header as `_csvhead` writes it: comment-argument dispatch, key normalisation, sort, system pairs; ANY value: returned trimmed, blank dropped; no stray keys), header_roundtrip, readHeader_pairs, h2cLoop_pairs, h2cElem_headLine_any, h2cElem_headLine, h2cElem_rule, isRule_keyLine, commentsOf_dict, systemPairs_ok, readBack_lookup, writerKey_id, readerStrip_headLine; foreign headers: readHeader_lookup, h2cLoop_preserves, lookup_dictSet_self/other; needed hypotheses: reserved_key_needed, key_blank_rewritten, key_colon_removed, long_key_lost | python `re` (modelled as list functions, compared on every generated header); time stamp, login name, versions are parameters (any text)
recorded row and column counts are returned              | write_read_header (lookup nrow/ncol = digits written, natVal (natStr n) = n) | -
header block / column line / body are separated correctly | csv_roundtrip (header + table, end to end on the model), csvheadFull_lines, file_roundtrip, splitFile_written (rows starting with `#` stay rows) | file objects (`readline` modelled as readLines)
same column names                                        | file_roundtrip, colnames_roundtrip (names may begin / end with blanks after fix 2 of this round), writeRow_cols, quoteField_plain | multi-index names with parentheses and names with dots are outside the name alphabet (dots: fixName modelled)
same number of rows, equal non-empty text values         | file_roundtrip (whole text: every record of every row), parseRow_writeRow (any text, any number of fields), field_closed | pandas type inference and NA handling (oracle end-to-end); embedded line breaks are outside the quantifier
numeric values equal to the float-format precision       | fixed_precision, parseDec_fmtFixed (`%0.Nf`: |read − written| ≤ ½·10^-N, exact rationals), exp_precision, parseSci_fmtExp, exp_zero (`%0.Ne`: relative ½·10^-N), parseInt_fmtInt (integers of any magnitude exact), fmtFixed_plain, read_back_enclosed (monotone rounding of the reader) | that `float_format % x` prints the correctly rounded decimal of the exact binary value and that pandas' reader returns a double next to the decimal value: compared cell by cell (`fmtf/fmte/fmti/pnum/pint`)
plain file, any accepted name                            | write_read_plain (any directory contents), plain_roundtrip  | the file system (a python-dict-like association list in the model)
zip-compressed under any accepted file name              | write_read_compress (any directory contents without a preferred older candidate), compress_roundtrip, suffix_stem_zip, writeTarget_zip, readTarget_zip; needed hypotheses: stale_plain_shadows_zip, stale_gz_shadows_zip, plain_under_zip_name_unreadable (candidate list and KEY_LENGTH_MAX regenerated from csv.py) | zipfile
histories in one directory                               | run_inv, writeStep_inv (every zip file holds `<stem>.csv`, along any list of accepted / refused writes and reads), history_member_found, readStep_member_found (no read ever fails for a missing member) | -
member of a caller-supplied archive in a sub-folder      | archive_history (any list of member writes - refused when present - and reads: a member reads as its first write), archive_write_read | zipfile; `PurePosixPath` normalisation of the member name (same call on both sides)
-/
import HydroVerif.Lemmas.C09Spec

namespace HydroVerif.C09

/-- the writer leaves an admissible key unchanged -/
theorem writerKey_id (k : Str) (hk : KeyOk k) : writerKey k = k := by
  unfold writerKey
  rw [List.filter_eq_self.mpr hk.noColon, hk.lowered]

/-- the reader's prefix strip recovers `key : value` from the written line, whatever the value -/
theorem readerStrip_headLine (k v : Str) (hk : KeyOk k) :
    readerStrip (headLine k v ++ ['\n']) = k ++ " : ".toList ++ v := by
  obtain ⟨c, rest, rfl⟩ : ∃ c rest, k = c :: rest := by
    cases k with
    | nil => exact absurd rfl hk.nonempty
    | cons c rest => exact ⟨c, rest, rfl⟩
  have hc : (c == ' ') = false := by
    have := hk.noSpace c (by simp)
    simp only [isSpace, Bool.or_eq_false_iff] at this
    exact this.1.1.1.1.1
  have e1 : headLine (c :: rest) v ++ ['\n'] = '#' :: ' ' :: c :: (rest ++ " : ".toList ++ v ++ ['\n']) := by
    simp [headLine]
  rw [e1]
  unfold readerStrip
  simp only
  have e0 : List.dropWhile (fun x => x == ' ') (' ' :: c :: (rest ++ " : ".toList ++ v ++ ['\n']))
      = c :: (rest ++ " : ".toList ++ v ++ ['\n']) := by
    rw [List.dropWhile_cons_of_pos (by rfl)]
    exact dropWhile_of_head_false _ _ _ hc
  rw [e0]
  have e2 : (c :: (rest ++ " : ".toList ++ v ++ ['\n'])).reverse = '\n' :: (c :: (rest ++ " : ".toList ++ v)).reverse := by
    simp
  rw [e2]
  simp

/-- a `key : value` line is never taken for a dashed rule (it holds a blank and a colon), whatever dashes the value holds -/
theorem isRule_keyLine (k v : Str) : isRule (k ++ " : ".toList ++ v) = false := by
  unfold isRule
  have : (k ++ " : ".toList ++ v).all (· == '-') = false := by
    rw [List.all_eq_false]
    exact ⟨' ', by simp, by decide⟩
  simp [this]

/-- **one header line, any value**: the line written for `(key, value)` is parsed back to `(key, value.strip())` - or to
nothing when the value is blank - for values that may contain colons, hashes, commas, quotes, runs of dashes; the
`comment_nn` counter is left alone -/
theorem h2cElem_headLine_any (i : Nat) (k v : Str) (hk : KeyOk k) :
    h2cElem i (readerStrip (headLine k v ++ ['\n'])) = (readBack (k, v), i) := by
  rw [readerStrip_headLine k v hk]
  have hsp : ((' ' : Char) != ':') = true := by decide
  have hcol : ((':' : Char) != ':') = false := by decide
  have hkey : (k ++ " : ".toList ++ v).takeWhile (· != ':') = k ++ [' '] := by
    have : k ++ " : ".toList ++ v = (k ++ [' ']) ++ ':' :: (' ' :: v) := by simp
    rw [this]
    exact takeWhile_append_stop _ _ _ _ (by
      intro x hx
      rcases List.mem_append.mp hx with h | h
      · exact hk.noColon x h
      · simp at h; subst h; exact hsp) hcol
  have hlast : isSpace (k.getLast hk.nonempty) = false := hk.noSpace _ (List.getLast_mem _)
  obtain ⟨c, rest, hcr⟩ : ∃ c rest, k = c :: rest := by
    cases hkk : k with
    | nil => exact absurd hkk hk.nonempty
    | cons c rest => exact ⟨c, rest, rfl⟩
  have hstripkey : strip (k ++ [' ']) = k := by
    unfold strip
    have : lstrip (k ++ [' ']) = k ++ [' '] := by
      rw [hcr, List.cons_append]
      exact lstrip_of_head _ _ (by rw [hcr] at hk; exact hk.noSpace c (by simp))
    rw [this, rstrip_append_space k hk.nonempty hlast]
  have hval : strip ((k ++ " : ".toList ++ v).drop ((k ++ [' ']).length + 1)) = strip v := by
    have : (k ++ " : ".toList ++ v).drop ((k ++ [' ']).length + 1) = ' ' :: v := by
      have e : k ++ " : ".toList ++ v = (k ++ [' ', ':']) ++ (' ' :: v) := by simp
      rw [e, List.drop_append]
      simp
    rw [this]
    unfold strip
    rw [lstrip_space_cons]
  have hnosp : ∀ c ∈ k, c ≠ ' ' := by
    intro c hc heq
    have := hk.noSpace c hc
    rw [heq] at this
    exact absurd this (by decide)
  have hcontains : ((k ++ " : ".toList ++ v).take KEY_LENGTH_MAX).contains ':' = true := by
    have e : k ++ " : ".toList ++ v = (k ++ [' ']) ++ ':' :: (' ' :: v) := by simp
    rw [e]
    apply mem_take_of_index
    have := hk.short
    simp [KEY_LENGTH_MAX, Gen.keyLengthMax]; omega
  unfold h2cElem readBack
  simp only [isRule_keyLine, Bool.false_eq_true, if_false, hkey, hval, hstripkey, hk.lowered, subSpaces,
    subSpacesAux_id false k hnosp, hcontains, if_true]

/-- **one header line round-trips**: the line written for an admissible `(key, value)` is parsed back to exactly
`(key, value)` - no condition on dashes in the value any more -/
theorem h2cElem_headLine (i : Nat) (k v : Str) (hk : KeyOk k) (hv : ValOk v) :
    h2cElem i (readerStrip (headLine k v ++ ['\n'])) = (some (k, v), i) := by
  rw [h2cElem_headLine_any i k v hk]
  unfold readBack
  simp [strip_of_valOk v hv, hv.nonempty]

/-! ### the whole header: later lines never disturb an earlier key they do not mention -/

theorem lookup_dictSet_self (d : List (Str × Str)) (k v : Str) : (dictSet d k v).lookup k = some v :=
  lookup_dictSet_self' d k v

theorem lookup_dictSet_other (d : List (Str × Str)) (k k' v : Str) (hne : k' ≠ k) :
    (dictSet d k v).lookup k' = d.lookup k' :=
  lookup_dictSet_other' d k k' v hne

/-- a header element "does not define key k" -/
def notKey (k : Str) (i : Nat) (e : Str) : Prop := ∀ kv, (h2cElem i e).1 = some kv → kv.1 ≠ k

theorem h2cLoop_preserves (k : Str) (es : List Str) :
    ∀ (i : Nat) (d : List (Str × Str)), (∀ j, ∀ e ∈ es, notKey k j e) →
      (h2cLoop i d es).lookup k = d.lookup k := by
  induction es with
  | nil => intro i d _; rfl
  | cons e es ih =>
    intro i d h
    have he := h i e (by simp)
    have hrest : ∀ j, ∀ e' ∈ es, notKey k j e' := fun j e' he' => h j e' (by simp [he'])
    unfold h2cLoop
    cases hr : h2cElem i e with
    | mk o i' =>
      cases o with
      | none => simp only; exact ih i' d hrest
      | some kv =>
        obtain ⟨k1, v1⟩ := kv
        simp only
        rw [ih i' _ hrest]
        apply lookup_dictSet_other
        have := he (k1, v1) (by rw [hr])
        exact fun hh => this hh.symm

/-- **header round trip, any surrounding lines**: if the line written for `(k, v)` occurs in a header (of this or any other
writer) and no later line defines key `k`, then the comment dictionary returned by the reader holds `v` under `k` -/
theorem readHeader_lookup (before after : List Str) (k v : Str) (hk : KeyOk k) (hv : ValOk v)
    (hafter : ∀ j, ∀ l ∈ after, notKey k j (readerStrip l)) :
    (readHeader (before ++ [headLine k v ++ ['\n']] ++ after)).lookup k = some v := by
  unfold readHeader header2comment
  simp only [List.map_append, List.map_cons, List.map_nil]
  have split : ∀ (i : Nat) (d : List (Str × Str)) (xs ys : List Str),
      h2cLoop i d (xs ++ ys) = h2cLoop (h2cLoopIdx i xs) (h2cLoop i d xs) ys := by
    intro i d xs
    induction xs generalizing i d with
    | nil => intro ys; rfl
    | cons x xs ih =>
      intro ys
      simp only [List.cons_append, h2cLoop, h2cLoopIdx]
      cases hr : h2cElem i x with
      | mk o i' => cases o with
        | none => simp only; exact ih i' d ys
        | some kv => obtain ⟨a, b⟩ := kv; simp only; exact ih i' _ ys
  rw [List.append_assoc, split, List.singleton_append]
  unfold h2cLoop
  rw [h2cElem_headLine _ k v hk hv]
  simp only
  rw [h2cLoop_preserves k _ _ _ (by
    intro j e he
    simp only [List.mem_map] at he
    obtain ⟨l, hl, rfl⟩ := he
    exact hafter j l hl)]
  exact lookup_dictSet_self _ _ _

/-! ### the whole header as `_csvhead` writes it: the dictionary returned is determined entirely -/

/-- the dashed rule that opens and closes the header defines nothing -/
theorem h2cElem_rule (i : Nat) : h2cElem i (readerStrip (rule ++ ['\n'])) = (none, i) := by
  have : readerStrip (rule ++ ['\n']) = List.replicate 50 '-' := by decide
  rw [this]
  unfold h2cElem
  have : isRule (List.replicate 50 '-') = true := by decide
  rw [if_pos this]

/-- the reader's loop over the lines written for pairs with admissible, pairwise different keys that are not yet in the
dictionary: each pair is appended as `readBack` gives it, in the order written -/
theorem h2cLoop_pairs (kvs : List (Str × Str)) :
    ∀ (i : Nat) (d : List (Str × Str)), (∀ kv ∈ kvs, KeyOk kv.1) → (d.map (·.1) ++ kvs.map (·.1)).Nodup →
      h2cLoop i d (kvs.map fun kv => readerStrip (headLine kv.1 kv.2 ++ ['\n'])) = d ++ kvs.filterMap readBack := by
  induction kvs with
  | nil => intro i d _ _; simp [h2cLoop]
  | cons kv kvs ih =>
    intro i d hk hn
    obtain ⟨k, v⟩ := kv
    have hk1 : KeyOk k := hk (k, v) (by simp)
    have hrest : ∀ kv ∈ kvs, KeyOk kv.1 := fun kv h => hk kv (by simp [h])
    simp only [List.map_cons]
    unfold h2cLoop
    rw [h2cElem_headLine_any i k v hk1]
    have hfresh : k ∉ d.map (·.1) := by
      intro hmem
      exact (List.disjoint_of_nodup_append hn) hmem (by simp)
    by_cases hb : strip v = []
    · have e : readBack (k, v) = none := by simp [readBack, hb]
      simp only [e, List.filterMap_cons]
      apply ih i d hrest
      have : (d.map (·.1) ++ kvs.map (·.1)).Sublist (d.map (·.1) ++ (k :: kvs.map (·.1))) :=
        List.Sublist.append_left (List.sublist_cons_self _ _) _
      exact List.Nodup.sublist this (by simpa using hn)
    · have e : readBack (k, v) = some (k, strip v) := by simp [readBack, hb]
      simp only [e, List.filterMap_cons]
      rw [dictSet_fresh d k (strip v) hfresh, ih i _ hrest]
      · simp
      · simpa [List.append_assoc] using hn

/-- the lines of a header made of a rule, one line per pair, and a rule: the dictionary is exactly the pairs as `readBack`
gives them -/
theorem readHeader_pairs (kvs : List (Str × Str)) (hk : ∀ kv ∈ kvs, KeyOk kv.1) (hn : (kvs.map (·.1)).Nodup) :
    readHeader ((rule :: kvs.map (fun kv => headLine kv.1 kv.2) ++ [rule]).map (· ++ ['\n'])) = kvs.filterMap readBack := by
  unfold readHeader header2comment
  simp only [List.map_cons, List.map_append, List.map_map, List.map_nil, List.cons_append]
  have split : ∀ (xs ys : List Str) (i : Nat) (d : List (Str × Str)),
      h2cLoop i d (xs ++ ys) = h2cLoop (h2cLoopIdx i xs) (h2cLoop i d xs) ys := by
    intro xs
    induction xs with
    | nil => intro ys i d; rfl
    | cons x xs ih =>
      intro ys i d
      simp only [List.cons_append, h2cLoop, h2cLoopIdx]
      cases hr : h2cElem i x with
      | mk o i' => cases o with
        | none => simp only; exact ih ys i' d
        | some kv => obtain ⟨a, b⟩ := kv; simp only; exact ih ys i' _
  unfold h2cLoop
  rw [h2cElem_rule]
  simp only
  rw [split]
  have hmap : (kvs.map ((fun x => readerStrip x) ∘ (fun x => x ++ ['\n']) ∘ fun kv => headLine kv.1 kv.2))
      = kvs.map fun kv => readerStrip (headLine kv.1 kv.2 ++ ['\n']) := by
    apply List.map_congr_left; intro a _; rfl
  rw [hmap, h2cLoop_pairs kvs 1 [] hk (by simpa using hn)]
  simp only [List.nil_append]
  unfold h2cLoop
  rw [h2cElem_rule]
  simp [h2cLoop]

/-- a dictionary with admissible, pairwise different keys is written as it is (no key collapses onto another) -/
theorem commentsOf_dict (comments : List (Str × Str)) (hk : ∀ kv ∈ comments, KeyOk kv.1)
    (hn : (comments.map (·.1)).Nodup) : commentsOf (.dict comments) = comments := by
  have gen : ∀ (l acc : List (Str × Str)), (∀ kv ∈ l, KeyOk kv.1) → (acc.map (·.1) ++ l.map (·.1)).Nodup →
      l.foldl (fun acc kv => dictSet acc (writerKey kv.1) kv.2) acc = acc ++ l := by
    intro l
    induction l with
    | nil => intro acc _ _; simp
    | cons kv l ih =>
      intro acc hk hn
      obtain ⟨k, v⟩ := kv
      simp only [List.foldl_cons]
      rw [writerKey_id k (hk (k, v) (by simp))]
      have hfresh : k ∉ acc.map (·.1) := fun hmem => (List.disjoint_of_nodup_append hn) hmem (by simp)
      rw [dictSet_fresh acc k v hfresh, ih _ (fun kv h => hk kv (by simp [h]))]
      · simp
      · simpa [List.append_assoc] using hn
  have := gen comments [] hk (by simpa using hn)
  simpa [commentsOf] using this

/-- **the whole header**: for a comment dictionary with admissible keys (pairwise different, as dictionary keys are, and
different from the count keys and the system keys) and ANY values, and system pairs with admissible pairwise different
keys, the dictionary the reader returns for the header `_csvhead` wrote is exactly: nrow, ncol, the caller's comments
in key order, the system pairs - every value trimmed, blank values left out. No hypothesis on other lines is left:
all lines of the header are accounted for -/
theorem header_roundtrip (nrow ncol : Nat) (comments system : List (Str × Str))
    (hk : ∀ kv ∈ comments, KeyOk kv.1) (hn : (comments.map (·.1)).Nodup)
    (hsk : ∀ kv ∈ system, KeyOk kv.1) (hsn : (system.map (·.1)).Nodup)
    (hres : ∀ kv ∈ comments, kv.1 ∉ countKeys ++ system.map (·.1))
    (hsres : ∀ kv ∈ system, kv.1 ∉ countKeys) :
    readHeader ((csvheadFull nrow ncol (.dict comments) system).map (· ++ ['\n']))
      = (headPairs nrow ncol comments system).filterMap readBack := by
  unfold csvheadFull
  rw [commentsOf_dict comments hk hn]
  have hperm := sortKeys_perm comments
  apply readHeader_pairs
  · intro kv hkv
    unfold headPairs at hkv
    simp only [List.mem_append, List.mem_cons, List.not_mem_nil, or_false] at hkv
    rcases hkv with (h | h) | h
    · rcases h with h | h
      · rw [h]; exact keyOk_nrow
      · rw [h]; exact keyOk_ncol
    · exact hk kv (hperm.mem_iff.mp h)
    · exact hsk kv h
  · unfold headPairs
    have hpk : ((sortKeys comments).map (·.1)).Perm (comments.map (·.1)) := hperm.map _
    simp only [List.map_append, List.map_cons, List.map_nil]
    rw [List.append_assoc]
    refine List.Nodup.append (by decide) (List.Nodup.append (hpk.nodup_iff.mpr hn) hsn ?_) ?_
    · intro a ha hb
      obtain ⟨kv, hkv, rfl⟩ := List.mem_map.mp (hpk.mem_iff.mp ha)
      exact hres kv hkv (List.mem_append_right _ hb)
    · intro a ha hb
      rcases List.mem_append.mp hb with hb | hb
      · obtain ⟨kv, hkv, rfl⟩ := List.mem_map.mp (hpk.mem_iff.mp hb)
        exact hres kv hkv (List.mem_append_left _ ha)
      · obtain ⟨kv, hkv, rfl⟩ := List.mem_map.mp hb
        exact hsres kv hkv ha

/-- lookup in the dictionary the reader returns, for the header of `header_roundtrip`: a pair that was written comes back
under its key with the trimmed value; nothing comes back for a blank value -/
theorem readBack_lookup (l : List (Str × Str)) (hn : (l.map (·.1)).Nodup) (k v : Str) (hm : (k, v) ∈ l) :
    (l.filterMap readBack).lookup k = if strip v = [] then none else some (strip v) := by
  have hsub := filterMap_readBack_keys l
  have hn' : ((l.filterMap readBack).map (·.1)).Nodup := List.Nodup.sublist hsub hn
  by_cases hb : strip v = []
  · rw [if_pos hb]
    apply lookup_none_of_not_mem
    intro hmem
    obtain ⟨kv', hkv', hk'⟩ := List.mem_map.mp hmem
    obtain ⟨kv0, hkv0, hrb⟩ := List.mem_filterMap.mp hkv'
    obtain ⟨k0, v0⟩ := kv0
    unfold readBack at hrb
    split at hrb
    · cases hrb
    · injection hrb with hrb
      rw [← hrb] at hk'
      simp only at hk'
      -- (k, v0) and (k, v) both in l with pairwise different keys: v0 = v
      subst hk'
      have h1 := lookup_of_mem_nodup l k0 v0 hkv0 hn
      have h2 := lookup_of_mem_nodup l k0 v hm hn
      rw [h1] at h2
      injection h2 with h2
      subst h2
      contradiction
  · rw [if_neg hb]
    apply lookup_of_mem_nodup _ _ _ _ hn'
    exact List.mem_filterMap.mpr ⟨(k, v), hm, by simp [readBack, hb]⟩

/-- the system pairs `_csvhead` appends - whatever the time stamp, author, paths and version texts are - have admissible,
pairwise different keys, all among `systemKeys` and none a count key: the hypotheses of `header_roundtrip` on the
system lines follow from the code -/
theorem systemPairs_ok (time author sourcePath sourceName : Str) (sys : Option SysInfo) :
    (∀ kv ∈ systemPairs time author sourcePath sourceName sys, KeyOk kv.1 ∧ kv.1 ∈ systemKeys ∧ kv.1 ∉ countKeys)
    ∧ ((systemPairs time author sourcePath sourceName sys).map (·.1)).Nodup := by
  have hall : ∀ k ∈ systemKeys, KeyOk k ∧ k ∈ systemKeys ∧ k ∉ countKeys := by
    intro k hk
    simp only [systemKeys, List.mem_cons, List.not_mem_nil, or_false] at hk
    rcases hk with h | h | h | h | h | h | h | h | h | h <;> subst h <;>
      exact ⟨⟨by decide, by decide, by decide, by decide, by decide⟩, by decide, by decide⟩
  -- the keys written, by case of the optional parts
  let keysOf : Option (Option Unit) → List Str := fun
    | none => ["time_generated".toList, "author".toList, "source_file".toList]
    | some none => ["time_generated".toList, "author".toList, "source_file".toList, "work_dir".toList,
        "python_environment".toList, "python_version".toList, "pandas_version".toList, "numpy_version".toList]
    | some (some ()) => ["time_generated".toList, "author".toList, "source_file".toList, "work_dir".toList,
        "python_environment".toList, "python_version".toList, "pandas_version".toList, "numpy_version".toList,
        "python_inc".toList, "python_lib".toList]
  have hkeys : ∃ c, (systemPairs time author sourcePath sourceName sys).map (·.1) = keysOf c := by
    cases sys with
    | none => exact ⟨none, rfl⟩
    | some si =>
      obtain ⟨w, o, pv, pdv, nv, du⟩ := si
      cases du with
      | none => exact ⟨some none, rfl⟩
      | some p => obtain ⟨a, b⟩ := p; exact ⟨some (some ()), rfl⟩
  obtain ⟨c, hc⟩ := hkeys
  have hsub : ∀ k ∈ keysOf c, k ∈ systemKeys := by
    rcases c with _ | _ | ⟨⟨⟩⟩ <;> decide
  have hnod : (keysOf c).Nodup := by
    rcases c with _ | _ | ⟨⟨⟩⟩ <;> decide
  constructor
  · intro kv hkv
    apply hall
    apply hsub
    rw [← hc]
    exact List.mem_map_of_mem hkv
  · rw [hc]; exact hnod

/-- **header comments and counts, as `write_csv` writes them**: for every comment dictionary with admissible keys that are
not reserved and ANY single-line values, every time stamp, author, source file and system information:
each supplied comment comes back under its key with its value (trimmed; unchanged when it has no outer blanks), the
recorded counts come back and read as the numbers written, and every key of the returned dictionary is a supplied key,
a count key or a system key -/
theorem write_read_header (nrow ncol : Nat) (comments : List (Str × Str)) (time author sourcePath sourceName : Str)
    (sys : Option SysInfo)
    (hk : ∀ kv ∈ comments, KeyOk kv.1) (hn : (comments.map (·.1)).Nodup)
    (hres : ∀ kv ∈ comments, kv.1 ∉ reservedKeys) :
    let d := readHeader ((csvheadFull nrow ncol (.dict comments) (systemPairs time author sourcePath sourceName sys)).map (· ++ ['\n']))
    (∀ kv ∈ comments, d.lookup kv.1 = if strip kv.2 = [] then none else some (strip kv.2))
    ∧ (∀ kv ∈ comments, ValOk kv.2 → d.lookup kv.1 = some kv.2)
    ∧ d.lookup "nrow".toList = some (natStr nrow) ∧ natVal (natStr nrow) = nrow
    ∧ d.lookup "ncol".toList = some (natStr ncol) ∧ natVal (natStr ncol) = ncol
    ∧ (∀ k ∈ d.map (·.1), k ∈ comments.map (·.1) ∨ k ∈ reservedKeys) := by
  intro d
  obtain ⟨hsys, hsysn⟩ := systemPairs_ok time author sourcePath sourceName sys
  set system := systemPairs time author sourcePath sourceName sys with hsysdef
  have hd : d = (headPairs nrow ncol comments system).filterMap readBack := by
    apply header_roundtrip nrow ncol comments system hk hn (fun kv h => (hsys kv h).1) hsysn
    · intro kv hkv hmem
      apply hres kv hkv
      unfold reservedKeys
      rcases List.mem_append.mp hmem with h | h
      · exact List.mem_append_left _ h
      · obtain ⟨kv', hkv', he⟩ := List.mem_map.mp h
        rw [← he]
        exact List.mem_append_right _ (hsys kv' hkv').2.1
    · exact fun kv h => (hsys kv h).2.2
  -- pairwise different keys over the whole header
  have hperm := sortKeys_perm comments
  have hpk : ((sortKeys comments).map (·.1)).Perm (comments.map (·.1)) := hperm.map _
  have hnod : ((headPairs nrow ncol comments system).map (·.1)).Nodup := by
    unfold headPairs
    simp only [List.map_append, List.map_cons, List.map_nil]
    rw [List.append_assoc]
    refine List.Nodup.append (by decide) (List.Nodup.append (hpk.nodup_iff.mpr hn) hsysn ?_) ?_
    · intro a ha hb
      obtain ⟨kv, hkv, rfl⟩ := List.mem_map.mp (hpk.mem_iff.mp ha)
      obtain ⟨kv', hkv', he⟩ := List.mem_map.mp hb
      apply hres kv hkv
      rw [← he]
      exact List.mem_append_right _ (hsys kv' hkv').2.1
    · intro a ha hb
      rcases List.mem_append.mp hb with hb | hb
      · obtain ⟨kv, hkv, rfl⟩ := List.mem_map.mp (hpk.mem_iff.mp hb)
        exact hres kv hkv (List.mem_append_left _ ha)
      · obtain ⟨kv, hkv, rfl⟩ := List.mem_map.mp hb
        exact (hsys kv hkv).2.2 ha
  have hmemc : ∀ kv ∈ comments, (kv.1, kv.2) ∈ headPairs nrow ncol comments system := by
    intro kv hkv
    unfold headPairs
    exact List.mem_append_left _ (List.mem_append_right _ (hperm.mem_iff.mpr hkv))
  have hcount : ∀ n : Nat, strip (natStr n) = natStr n ∧ natStr n ≠ [] := by
    intro n
    have hne := natStr_ne_nil n
    have hd := natStr_digits n
    refine ⟨?_, hne⟩
    obtain ⟨c, rest, hcr⟩ : ∃ c rest, natStr n = c :: rest := by
      cases h : natStr n with
      | nil => exact absurd h hne
      | cons c rest => exact ⟨c, rest, rfl⟩
    have hl : lstrip (natStr n) = natStr n := by
      rw [hcr]; exact lstrip_of_head c rest (isDigit_not_space c (hd c (by rw [hcr]; simp)))
    have hr : rstrip (natStr n) = natStr n := by
      unfold rstrip
      obtain ⟨c', rest', hcr'⟩ : ∃ c rest, (natStr n).reverse = c :: rest := by
        cases h : (natStr n).reverse with
        | nil => simp at h; exact absurd h hne
        | cons c rest => exact ⟨c, rest, rfl⟩
      have hc' : c' ∈ natStr n := by
        have : c' ∈ (natStr n).reverse := by rw [hcr']; simp
        exact List.mem_reverse.mp this
      rw [hcr', dropWhile_of_head_false _ _ _ (isDigit_not_space c' (hd c' hc')), ← hcr', List.reverse_reverse]
    unfold strip; rw [hl, hr]
  refine ⟨?_, ?_, ?_, natVal_natStr nrow, ?_, natVal_natStr ncol, ?_⟩
  · intro kv hkv
    rw [hd]
    exact readBack_lookup _ hnod kv.1 kv.2 (hmemc kv hkv)
  · intro kv hkv hv
    rw [hd, readBack_lookup _ hnod kv.1 kv.2 (hmemc kv hkv), strip_of_valOk kv.2 hv, if_neg hv.nonempty]
  · rw [hd, readBack_lookup _ hnod "nrow".toList (natStr nrow) (by unfold headPairs; simp), (hcount nrow).1,
      if_neg (hcount nrow).2]
  · rw [hd, readBack_lookup _ hnod "ncol".toList (natStr ncol) (by unfold headPairs; simp), (hcount ncol).1,
      if_neg (hcount ncol).2]
  · intro k hkmem
    rw [hd] at hkmem
    have := (filterMap_readBack_keys _).subset hkmem
    unfold headPairs at this
    simp only [List.map_append, List.map_cons, List.map_nil, List.mem_append, List.mem_cons, List.not_mem_nil,
      or_false] at this
    rcases this with (h | h) | h
    · right; unfold reservedKeys countKeys
      apply List.mem_append_left
      rcases h with h | h <;> simp [h]
    · left; exact hpk.mem_iff.mp h
    · right
      obtain ⟨kv', hkv', he⟩ := List.mem_map.mp h
      rw [← he]
      exact List.mem_append_right _ (hsys kv' hkv').2.1

/-- the reader takes exactly the written header block as header, the next line as column names and
all remaining lines as table rows - also rows whose first character is `#` -/
theorem splitFile_written (header : List Str) (cols : Str) (body : List Str)
    (hh : ∀ l ∈ header, startsWith l ['#'] = true) (hc : startsWith cols ['#'] = false) :
    splitFile (header ++ cols :: body) = (header, some cols, body) := by
  unfold splitFile
  have : (header ++ cols :: body).takeWhile (fun l => startsWith l ['#']) = header :=
    takeWhile_append_stop _ _ _ _ hh hc
  simp only [this, List.drop_left']


/-! ### the table body: records written with minimal quoting are read back field by field -/

/-- **record round trip**: whatever the text of the fields (commas, quotes, colons, hashes, even line breaks), the
tokeniser recovers exactly the fields that were written, for any number of fields -/
theorem parseRow_writeRow (fs : List Str) (h : fs ≠ []) : parseRow (writeRow fs) = fs := by
  cases fs with
  | nil => exact absurd rfl h
  | cons f fs =>
    have := writeRow_fold f fs []
    simpa [parseRow] using this

/-- a field is quoted exactly when it contains a comma, a quote or a line break; `#` and `:` never force quotes -/
theorem quoteField_plain (f : Str) (h : ∀ c ∈ f, c ≠ ',' ∧ c ≠ '"' ∧ c ≠ '\n' ∧ c ≠ '\r') : quoteField f = f := by
  have : needsQuote f = false := by
    simp only [needsQuote, List.any_eq_false, special]
    intro c hc
    obtain ⟨h1, h2, h3, h4⟩ := h c hc
    simp [h1, h2, h3, h4]
  simp [quoteField, this]

/-- a quoted field never ends the record early: the written text of one field contains no bare line break
outside quotes — stated as: the tokeniser is in state `qq`, `unq` or `start` (never inside quotes) after it -/
theorem field_closed (f : Str) (done : List Str) :
    ((quoteField f).foldl pstep ⟨.start, [], done⟩).st ≠ .q := by
  obtain ⟨st, h, h1, _⟩ := field_read f done
  rw [h]; exact h1

theorem writeRow_cols (names : List Str) (h : ∀ n ∈ names, ColOk n) (hne : names ≠ []) :
    splitOnComma (writeRow names) = names := by
  induction names with
  | nil => exact absurd rfl hne
  | cons n ns ih =>
    have hn : ∀ c ∈ n, (c == ',') = false := fun c hc => beq_eq_false_iff_ne.mpr (h n (by simp) c hc).1
    cases ns with
    | nil =>
      simp only [writeRow, quoteField_plain n (h n (by simp))]
      exact splitOnComma_plain n hn
    | cons m ms =>
      simp only [writeRow, quoteField_plain n (h n (by simp))]
      rw [splitOnComma_append n hn, ih (fun k hk => h k (by simp [hk])) (by simp)]

/-- **column names**: the line `to_csv` writes for admissible column names is split back into exactly those names by the
reader's `line.rstrip("\r\n").split(",")` - names may begin or end with blanks -/
theorem colnames_roundtrip (names : List Str) (h : ∀ n ∈ names, ColOk n) (hne : names ≠ []) :
    splitCols (writeRow names ++ ['\n']) = names := by
  have hstrip : rstripNL (writeRow names ++ ['\n']) = writeRow names := by
    unfold rstripNL
    rw [List.reverse_append]
    simp only [List.reverse_cons, List.reverse_nil, List.nil_append, List.singleton_append]
    rw [List.dropWhile_cons_of_pos (by decide)]
    -- the record itself does not end with a line terminator: its last character belongs to a name or is a comma
    cases hrev : (writeRow names).reverse with
    | nil => simp [List.reverse_eq_nil_iff.mp hrev]
    | cons c rest =>
      have hc : c ∈ writeRow names := by
        have : c ∈ (writeRow names).reverse := by rw [hrev]; simp
        exact List.mem_reverse.mp this
      have hcn : (c == '\n' || c == '\r') = false := by
        rcases writeRow_mem names c hc with ⟨f, hf, hcf⟩ | hq | hq
        · obtain ⟨_, _, h3, h4⟩ := h f hf c hcf
          simp [h3, h4]
        · subst hq; decide
        · subst hq; decide
      have hdw := dropWhile_of_head_false (fun c => c == '\n' || c == '\r') c rest hcn
      rw [hdw, ← hrev, List.reverse_reverse]
  unfold splitCols
  rw [hstrip]
  exact writeRow_cols names h hne

/-! ### the file as a whole -/

/-- **the whole file**: the text `write_csv` produces from header lines (each starting with `#`), admissible column names
and records of single-line fields (any text: commas, quotes, colons, hashes; numbers as formatted) is read back by
`read_csv` - `readline` loop, header / column line / body split, name split, tokeniser - as exactly the same names,
the same number of records and the same fields, with the comment dictionary of the header lines -/
theorem file_roundtrip (head : List Str) (t : Table)
    (hh : ∀ l ∈ head, startsWith l ['#'] = true ∧ ∀ c ∈ l, c ≠ '\n')
    (hnames : ∀ n ∈ t.names, NameOk n) (hne : t.names ≠ [])
    (hrows : ∀ r ∈ t.rows, r ≠ [] ∧ ∀ f ∈ r, ∀ c ∈ f, c ≠ '\n') :
    readFile (writeFile head t) = some { comment := readHeader (head.map (· ++ ['\n'])), table := t } := by
  obtain ⟨names, rows⟩ := t
  simp only at hnames hne hrows
  obtain ⟨n, ns, rfl⟩ : ∃ n ns, names = n :: ns := by
    cases names with
    | nil => exact absurd rfl hne
    | cons n ns => exact ⟨n, ns, rfl⟩
  have hn := hnames n (by simp)
  -- the column-name record: one line that begins with the first name
  obtain ⟨rest, hrest⟩ := writeRow_plain_head n ns hn.noQuote
  obtain ⟨c, n', hcn⟩ : ∃ c n', n = c :: n' := by
    cases hnn : n with
    | nil => exact absurd hnn hn.nonempty
    | cons c n' => exact ⟨c, n', rfl⟩
  have hchash : c ≠ '#' := (hn.plain c (by rw [hcn]; simp)).2.2.2.2.1
  have hcolline : writeRow (n :: ns) = c :: (n' ++ rest) := by rw [hrest, hcn]; simp
  have hcols : splitCols (writeRow (n :: ns) ++ ['\n']) = n :: ns :=
    colnames_roundtrip (n :: ns) (fun m hm => (hnames m hm).colOk) hne
  have hnonl : ∀ d ∈ writeRow (n :: ns), d ≠ '\n' :=
    writeRow_no_newline _ (fun f hf d hd => (hnames f hf |>.plain d hd).2.2.1)
  -- all lines of the text
  have hlines : ∀ l ∈ head ++ writeRow (n :: ns) :: rows.map writeRow, ∀ d ∈ l, d ≠ '\n' := by
    intro l hl
    rcases List.mem_append.mp hl with h | h
    · exact (hh l h).2
    · rcases List.mem_cons.mp h with h | h
      · rw [h]; exact hnonl
      · obtain ⟨r, hr', rfl⟩ := List.mem_map.mp h
        exact writeRow_no_newline r (hrows r hr').2
  unfold readFile writeFile
  simp only
  rw [readLines_joinLines _ hlines]
  have hsplit : splitFile ((head ++ writeRow (n :: ns) :: rows.map writeRow).map (· ++ ['\n']))
      = (head.map (· ++ ['\n']), some (writeRow (n :: ns) ++ ['\n']), (rows.map writeRow).map (· ++ ['\n'])) := by
    rw [List.map_append, List.map_cons]
    apply splitFile_written
    · intro l hl
      obtain ⟨l0, hl0, rfl⟩ := List.mem_map.mp hl
      have := (hh l0 hl0).1
      cases l0 with
      | nil => simp [startsWith] at this
      | cons a l0 => simpa [startsWith] using this
    · rw [hcolline]
      have : (c == '#') = false := beq_eq_false_iff_ne.mpr hchash
      simp [startsWith, this]
  rw [hsplit]
  simp only [hcols, Option.some.injEq]
  congr 1
  congr 1
  · rw [List.map_congr_left (fun m hm => fixName_id m (hnames m hm)), List.map_id']
  · rw [List.map_map, List.map_map]
    conv_rhs => rw [← List.map_id rows]
    apply List.map_congr_left
    intro r hr'
    simp only [Function.comp, chomp_line, id]
    exact parseRow_writeRow r (hrows r hr').1

/-- every line of the header `_csvhead` produces starts with `#`; it is a single line when keys, values and the system texts are -/
theorem csvheadFull_lines (nrow ncol : Nat) (comments system : List (Str × Str))
    (hc : ∀ kv ∈ comments, KeyOk kv.1) (hn : (comments.map (·.1)).Nodup)
    (hcl : ∀ kv ∈ comments, (∀ c ∈ kv.1, c ≠ '\n') ∧ ∀ c ∈ kv.2, c ≠ '\n')
    (hsl : ∀ kv ∈ system, (∀ c ∈ kv.1, c ≠ '\n') ∧ ∀ c ∈ kv.2, c ≠ '\n') :
    ∀ l ∈ csvheadFull nrow ncol (.dict comments) system, startsWith l ['#'] = true ∧ ∀ c ∈ l, c ≠ '\n' := by
  have hrule : startsWith rule ['#'] = true ∧ ∀ c ∈ rule, c ≠ '\n' := by decide
  have hline : ∀ k v : Str, (∀ c ∈ k, c ≠ '\n') → (∀ c ∈ v, c ≠ '\n') →
      startsWith (headLine k v) ['#'] = true ∧ ∀ c ∈ headLine k v, c ≠ '\n' := by
    intro k v hk hv
    refine ⟨by simp [headLine, startsWith], ?_⟩
    intro c hc
    simp only [headLine, List.mem_append] at hc
    rcases hc with ((hc | hc) | hc) | hc
    · intro e; subst e; revert hc; decide
    · exact hk c hc
    · intro e; subst e; revert hc; decide
    · exact hv c hc
  have hdig : ∀ n : Nat, ∀ c ∈ natStr n, c ≠ '\n' := by
    intro n c hc e
    have := isDigit_not_space c (natStr_digits n c hc)
    subst e
    revert this; decide
  intro l hl
  unfold csvheadFull at hl
  rw [commentsOf_dict comments hc hn] at hl
  simp only [List.mem_cons, List.mem_append, List.mem_map, List.not_mem_nil, or_false] at hl
  rcases hl with (hl | ⟨kv, hkv, rfl⟩) | hl
  · rw [hl]; exact hrule
  · unfold headPairs at hkv
    simp only [List.mem_append, List.mem_cons, List.not_mem_nil, or_false] at hkv
    rcases hkv with (h | h) | h
    · rcases h with h | h <;> rw [h]
      · exact hline "nrow".toList _ (by decide) (hdig _)
      · exact hline "ncol".toList _ (by decide) (hdig _)
    · have := hcl kv ((sortKeys_perm comments).mem_iff.mp h)
      exact hline _ _ this.1 this.2
    · have := hsl kv h
      exact hline _ _ this.1 this.2
  · rw [hl]; exact hrule

/-- **the property on the model, end to end**: for every comment dictionary with admissible, non-reserved keys and single-line
values, every table with admissible column names and at least one field per record (single-line fields of any text; numbers
as formatted), every time stamp / author / source file / system information (single-line): the text `write_csv` produces is
read back by `read_csv` as the same column names, the same records, a dictionary that holds every supplied comment (trimmed;
unchanged for trimmed non-blank values), the counts written, and nothing that is not a supplied, count or system key -/
theorem csv_roundtrip (nrow ncol : Nat) (comments : List (Str × Str)) (time author sourcePath sourceName : Str)
    (sys : Option SysInfo) (t : Table)
    (hk : ∀ kv ∈ comments, KeyOk kv.1) (hn : (comments.map (·.1)).Nodup) (hres : ∀ kv ∈ comments, kv.1 ∉ reservedKeys)
    (hcl : ∀ kv ∈ comments, ∀ c ∈ kv.2, c ≠ '\n')
    (hsl : ∀ kv ∈ systemPairs time author sourcePath sourceName sys, ∀ c ∈ kv.2, c ≠ '\n')
    (hnames : ∀ n ∈ t.names, NameOk n) (hne : t.names ≠ [])
    (hrows : ∀ r ∈ t.rows, r ≠ [] ∧ ∀ f ∈ r, ∀ c ∈ f, c ≠ '\n') :
    ∃ d, readFile (writeFile (csvheadFull nrow ncol (.dict comments) (systemPairs time author sourcePath sourceName sys)) t)
        = some { comment := d, table := t }
      ∧ (∀ kv ∈ comments, d.lookup kv.1 = if strip kv.2 = [] then none else some (strip kv.2))
      ∧ (∀ kv ∈ comments, ValOk kv.2 → d.lookup kv.1 = some kv.2)
      ∧ d.lookup "nrow".toList = some (natStr nrow) ∧ d.lookup "ncol".toList = some (natStr ncol)
      ∧ (∀ k ∈ d.map (·.1), k ∈ comments.map (·.1) ∨ k ∈ reservedKeys) := by
  have hkeyline : ∀ k : Str, KeyOk k → ∀ c ∈ k, c ≠ '\n' := by
    intro k hk' c hc e
    have := hk'.noSpace c hc
    subst e
    revert this; decide
  obtain ⟨hsys, _⟩ := systemPairs_ok time author sourcePath sourceName sys
  have hlines := csvheadFull_lines nrow ncol comments (systemPairs time author sourcePath sourceName sys) hk hn
    (fun kv h => ⟨hkeyline kv.1 (hk kv h), hcl kv h⟩) (fun kv h => ⟨hkeyline kv.1 (hsys kv h).1, hsl kv h⟩)
  obtain ⟨h1, h2, h3, _, h5, _, h7⟩ := write_read_header nrow ncol comments time author sourcePath sourceName sys hk hn hres
  exact ⟨_, file_roundtrip _ t hlines hnames hne hrows, h1, h2, h3, h5, h7⟩

/-! ### numbers in the table body -/

/-- **integer cells come back exactly**: the decimal text `str` writes for any integer - of any magnitude, no detour through
floating point - is read back as that integer -/
theorem parseInt_fmtInt (z : ℤ) : parseInt (fmtInt z) = some z := by
  unfold fmtInt
  by_cases hz : z < 0
  · rw [if_pos hz]
    unfold parseInt
    simp only [natStr_ne_nil, ne_eq, not_false_eq_true, allDigits_natStr, and_self, if_true, natVal_natStr]
    congr 1
    omega
  · rw [if_neg hz]
    obtain ⟨c, s, hcs, hc⟩ := natStr_head_digit z.natAbs
    rw [hcs, parseInt_of_digit_head c s hc, ← hcs]
    simp only [natStr_ne_nil, ne_eq, not_false_eq_true, allDigits_natStr, and_self, if_true, natVal_natStr]
    congr 1
    omega

/-- **what the reader gets from a `%0.{d}f` cell**: the decimal text is read back as exactly `± round(mag·10^d) / 10^d` -/
theorem parseDec_fmtFixed (d : ℕ) (neg : Bool) (mag : ℚ) (h : 0 ≤ mag) :
    parseDec (fmtFixed d neg mag)
      = some ((if neg then -1 else 1) * (((roundHalfEven (mag * (10 : ℚ) ^ d) : ℤ) : ℚ) / (10 : ℚ) ^ d)) := by
  have hnn : 0 ≤ roundHalfEven (mag * (10 : ℚ) ^ d) := roundHalfEven_nonneg _ (by positivity)
  have hcast : (((roundHalfEven (mag * (10 : ℚ) ^ d)).toNat : ℕ) : ℚ) = ((roundHalfEven (mag * (10 : ℚ) ^ d) : ℤ) : ℚ) := by
    have : (((roundHalfEven (mag * (10 : ℚ) ^ d)).toNat : ℕ) : ℤ) = roundHalfEven (mag * (10 : ℚ) ^ d) := Int.toNat_of_nonneg hnn
    exact_mod_cast this
  unfold fmtFixed
  simp only
  rw [List.append_assoc, parseDec_signedBody, hcast]

/-- **numeric values equal to the precision of the float format**: for every finite double (sign bit `neg`, exact magnitude
`mag`) and every number of decimals `d`, the text `%0.{d}f` writes is a decimal number that differs from the double by at
most half a unit of the last printed decimal -/
theorem fixed_precision (d : ℕ) (neg : Bool) (mag : ℚ) (h : 0 ≤ mag) :
    ∃ y, parseDec (fmtFixed d neg mag) = some y ∧ |y - (if neg then -1 else 1) * mag| ≤ 1 / (2 * (10 : ℚ) ^ d) := by
  refine ⟨_, parseDec_fmtFixed d neg mag h, ?_⟩
  have hb := roundHalfEven_bound (mag * (10 : ℚ) ^ d)
  have h10 : (0 : ℚ) < (10 : ℚ) ^ d := by positivity
  set r : ℚ := ((roundHalfEven (mag * (10 : ℚ) ^ d) : ℤ) : ℚ) with hr
  have key : |r / (10 : ℚ) ^ d - mag| ≤ 1 / (2 * (10 : ℚ) ^ d) := by
    have e : r / (10 : ℚ) ^ d - mag = (r - mag * (10 : ℚ) ^ d) / (10 : ℚ) ^ d := by field_simp
    rw [e, abs_div, abs_of_pos h10, div_le_div_iff₀ h10 (by positivity)]
    calc |r - mag * (10 : ℚ) ^ d| * (2 * (10 : ℚ) ^ d) ≤ (1 / 2) * (2 * (10 : ℚ) ^ d) :=
          mul_le_mul_of_nonneg_right hb (by positivity)
      _ = 1 * (10 : ℚ) ^ d := by ring
  cases neg with
  | true =>
    simp only [if_true]
    have e : -1 * (r / (10 : ℚ) ^ d) - -1 * mag = -(r / (10 : ℚ) ^ d - mag) := by ring
    rw [e, abs_neg]; exact key
  | false =>
    simp only [Bool.false_eq_true, if_false, one_mul]
    exact key

/-- what the reader gets from a `%0.{d}e` cell: mantissa and exponent are read back as `± n · 10^(e-d)` -/
theorem parseSci_fmtExp (d : ℕ) (neg : Bool) (mag : ℚ) :
    parseSci (fmtExp d neg mag)
      = some ((if neg then -1 else 1) * (((expParts d mag).1 : ℚ) / (10 : ℚ) ^ d) * pow10 (expParts d mag).2) := by
  unfold fmtExp
  cases hparts : expParts d mag with
  | mk n e =>
  simp only
  set mant := (if neg then ['-'] else []) ++ (natStr (n / 10 ^ d) ++ (if d = 0 then [] else '.' :: fracDigits d (n % 10 ^ d))) with hmant
  set ex := (if e < 0 then '-' else '+') :: (if e.natAbs < 10 then '0' :: natStr e.natAbs else natStr e.natAbs) with hex
  have hshape : (if neg then ['-'] else []) ++ natStr (n / 10 ^ d) ++ (if d = 0 then [] else '.' :: fracDigits d (n % 10 ^ d)) ++ 'e' :: ex
      = mant ++ 'e' :: ex := by rw [hmant]; simp
  rw [hshape]
  unfold parseSci
  have htw : (mant ++ 'e' :: ex).takeWhile (fun c => c != 'e' && c != 'E') = mant := by
    apply takeWhile_append_stop _ _ _ _ _ (by decide)
    intro c hc
    rcases mantissa_chars d n neg c hc with h | h | h
    · have h1 : c ≠ 'e' := digit_ne_char c 'e' h (by right; decide)
      have h2 : c ≠ 'E' := digit_ne_char c 'E' h (by right; decide)
      simp [h1, h2]
    · subst h; decide
    · subst h; decide
  simp only [htw, List.drop_left']
  rw [parseDec_signedBody, hex, parseInt_expPart]

/-- **numeric values equal to the precision of the float format, exponent notation**: for every double of magnitude between
`10^-800` and `10^800` (all finite non-zero doubles and far beyond) and every number of decimals `d`, the text `%0.{d}e`
writes is a decimal number that differs from the double by at most half a unit of the `d`-th decimal of its mantissa:
relative error at most `10^-d / 2` -/
theorem exp_precision (d : ℕ) (neg : Bool) (mag : ℚ) (hlo : (10 : ℚ) ^ (-800 : ℤ) ≤ mag) (hhi : mag < (10 : ℚ) ^ (800 : ℤ)) :
    ∃ y, parseSci (fmtExp d neg mag) = some y ∧ |y - (if neg then -1 else 1) * mag| ≤ mag / (2 * (10 : ℚ) ^ d) := by
  refine ⟨_, parseSci_fmtExp d neg mag, ?_⟩
  have hm : 0 < mag := lt_of_lt_of_le (zpow_pos (by norm_num) _) hlo
  obtain ⟨hE1, hE2⟩ := findExp_800 mag hlo hhi
  set E := findExp 800 mag 0 with hEdef
  set p : ℚ := pow10 (E - d) with hp
  have hppos : 0 < p := pow10_pos _
  set n0 := roundHalfEven (mag / p) with hn0
  have hn0nn : 0 ≤ n0 := roundHalfEven_nonneg _ (by positivity)
  have hb := roundHalfEven_bound (mag / p)
  have h10d : (0 : ℚ) < (10 : ℚ) ^ d := by positivity
  -- the value printed is n0 · p in both branches of the carry
  have hval : (((expParts d mag).1 : ℚ) / (10 : ℚ) ^ d) * pow10 (expParts d mag).2 = (n0 : ℚ) * p := by
    have hpE : ∀ e : ℤ, pow10 e / (10 : ℚ) ^ d = pow10 (e - d) := by
      intro e
      rw [pow10_eq_zpow, pow10_eq_zpow, zpow_sub₀ (by norm_num : (10 : ℚ) ≠ 0), zpow_natCast]
    have hcast : ((n0.toNat : ℕ) : ℚ) = (n0 : ℚ) := by
      have : ((n0.toNat : ℕ) : ℤ) = n0 := Int.toNat_of_nonneg hn0nn
      exact_mod_cast this
    unfold expParts
    rw [if_neg (not_le.mpr hm)]
    simp only
    rw [← hEdef, ← hp, ← hn0]
    by_cases hc : n0.toNat = 10 ^ (d + 1)
    · rw [if_pos hc]
      simp only
      have hn : (n0 : ℚ) = (10 : ℚ) ^ (d + 1) := by rw [← hcast, hc]; push_cast; rfl
      rw [hn, hp, ← hpE E, pow10_eq_zpow, pow10_eq_zpow, zpow_add₀ (by norm_num : (10 : ℚ) ≠ 0), zpow_one]
      push_cast
      field_simp
      ring
    · rw [if_neg hc]
      simp only
      rw [hcast, hp, ← hpE E]
      field_simp
  have hpE : p = (10 : ℚ) ^ E / (10 : ℚ) ^ d := by
    rw [hp, pow10_eq_zpow, zpow_sub₀ (by norm_num : (10 : ℚ) ≠ 0), zpow_natCast]
  have key : |(n0 : ℚ) * p - mag| ≤ mag / (2 * (10 : ℚ) ^ d) := by
    have e : (n0 : ℚ) * p - mag = ((n0 : ℚ) - mag / p) * p := by field_simp
    rw [e, abs_mul, abs_of_pos hppos]
    calc |(n0 : ℚ) - mag / p| * p ≤ (1 / 2) * p := mul_le_mul_of_nonneg_right hb hppos.le
      _ = (10 : ℚ) ^ E / (2 * (10 : ℚ) ^ d) := by rw [hpE]; field_simp
      _ ≤ mag / (2 * (10 : ℚ) ^ d) := by
          apply div_le_div_of_nonneg_right hE1 (by positivity)
  cases neg with
  | true =>
    simp only [if_true]
    have e : -1 * (((expParts d mag).1 : ℚ) / (10 : ℚ) ^ d) * pow10 (expParts d mag).2 - -1 * mag
        = -((((expParts d mag).1 : ℚ) / (10 : ℚ) ^ d) * pow10 (expParts d mag).2 - mag) := by ring
    rw [e, abs_neg, hval]; exact key
  | false =>
    simp only [Bool.false_eq_true, if_false, one_mul]
    rw [hval]; exact key

/-- zero of either sign in exponent notation is read back as zero -/
theorem exp_zero (d : ℕ) (neg : Bool) : parseSci (fmtExp d neg 0) = some 0 := by
  rw [parseSci_fmtExp]
  simp [expParts]

/-- the double read back: with a reader that rounds monotonically to representable numbers (any rounding mode), a text value
`y` enclosed by two representable numbers is read as a number between them. With `fixed_precision`: the double read back
lies between the representable neighbours of `x - ½·10^-d` and `x + ½·10^-d`; the sign is never lost -/
theorem read_back_enclosed (rnd : ℚ → ℚ) (hmono : ∀ a b, a ≤ b → rnd a ≤ rnd b) (lo hi y : ℚ)
    (hlo : rnd lo = lo) (hhi : rnd hi = hi) (h1 : lo ≤ y) (h2 : y ≤ hi) : lo ≤ rnd y ∧ rnd y ≤ hi :=
  ⟨hlo ▸ hmono lo y h1, hhi ▸ hmono y hi h2⟩

/-- a `%0.{d}f` cell is one bare field: digits, a point and a sign only - nothing the record writer quotes, no line feed -/
theorem fmtFixed_plain (d : ℕ) (neg : Bool) (mag : ℚ) :
    ∀ c ∈ fmtFixed d neg mag, isDigitChar c ∨ c = '-' ∨ c = '.' := by
  intro c hc
  unfold fmtFixed at hc
  simp only [List.mem_append] at hc
  rcases hc with (hc | hc) | hc
  · split at hc
    · simp at hc; right; left; exact hc
    · simp at hc
  · left; exact natStr_digits _ c hc
  · split at hc
    · simp at hc
    · simp only [List.mem_cons] at hc
      rcases hc with hc | hc
      · right; right; exact hc
      · left; exact fracDigits_digits _ _ c hc

/-! ### file names: the reader opens what the writer created -/

theorem suffix_stem_zip (name : Str) (h : name ≠ []) :
    suffix (stem name ++ extZip) = extZip := by
  have := splitExt_append (stem name) "zip".toList (stem_ne_nil name h) (by decide) (by decide)
  have e : stem name ++ extZip = stem name ++ '.' :: "zip".toList := rfl
  rw [e]
  unfold suffix
  rw [this]
  rfl

/-- **compressed files**: whatever the accepted name (`x.csv`, `x.zip`, `x`, `x.y.csv`, …), when the only
file present is the one `write_csv(compress=True)` created, `read_csv` opens that file as a zip archive
and reads exactly the member the writer stored -/
theorem compress_roundtrip (name : Str) (h : name ≠ []) :
    ∃ full member, writeTarget name true = (full, some member) ∧
      readTarget (fun f => f == full) name = some (.zipMember full member) := by
  have hgznezip : extGz ≠ extZip := by decide
  by_cases hz : suffix name = extZip
  · refine ⟨name, stem name ++ extCsv, ?_, ?_⟩
    · unfold writeTarget; rw [if_pos rfl, if_pos hz]
    · unfold readTarget checkName
      rw [if_pos (by simp)]
      simp only
      rw [hz, if_neg (Ne.symm hgznezip), if_pos rfl]
  · refine ⟨stem name ++ extZip, stem name ++ extCsv, ?_, ?_⟩
    · unfold writeTarget; rw [if_pos rfl, if_neg hz]
    · have hne : name ≠ stem name ++ extZip := by
        intro heq
        apply hz
        have := suffix_stem_zip name h
        rw [← heq] at this
        exact this
      have hne' : (name == stem name ++ extZip) = false := beq_eq_false_iff_ne.mpr hne
      have hgz : (stem name ++ extGz == stem name ++ extZip) = false := by
        apply beq_eq_false_iff_ne.mpr
        intro heq
        exact hgznezip (List.append_cancel_left heq)
      -- the candidate list regenerated from csv.py: <stem>.gz is tried before <stem>.zip, and neither .csv nor
      -- .csv.gz comes first
      have hcands : (Gen.checkNameExtensions.map fun e => stem name ++ '.' :: e.toList)
          = [stem name ++ extGz, stem name ++ extZip, stem name ++ extCsv, stem name ++ (extCsv ++ extGz)] := by
        simp only [Gen.checkNameExtensions, List.map_cons, List.map_nil]
        have e1 : ('.' :: "gz".toList) = extGz := by decide
        have e2 : ('.' :: "zip".toList) = extZip := by decide
        have e3 : ('.' :: "csv".toList) = extCsv := by decide
        have e4 : ('.' :: "csv.gz".toList) = extCsv ++ extGz := by decide
        rw [e1, e2, e3, e4]
      unfold readTarget checkName
      rw [if_neg (by simp [hne']), hcands]
      simp only [List.find?_cons, hgz, beq_self_eq_true]
      rw [suffix_stem_zip name h, if_neg (Ne.symm hgznezip), if_pos rfl]

/-- **plain files**: a file written without compression under a name whose extension is neither `.gz`
nor `.zip` is opened as plain text -/
theorem plain_roundtrip (name : Str) (h1 : suffix name ≠ extGz) (h2 : suffix name ≠ extZip) :
    writeTarget name false = (name, none) ∧ readTarget (fun f => f == name) name = some (.plain name) := by
  constructor
  · rfl
  · unfold readTarget checkName
    rw [if_pos (by simp)]
    simp only
    rw [if_neg h1, if_neg h2]

/-! ### histories: any sequence of writes and reads in one directory, and in one caller-supplied archive -/

/-- the zip file `write_csv(compress=True)` creates: under a `.zip` name, with the stem of the name given -/
theorem writeTarget_zip (name : Str) (hn : name ≠ []) :
    ∃ full, writeTarget name true = (full, some (stem name ++ extCsv)) ∧ suffix full = extZip ∧ stem full = stem name := by
  by_cases hz : suffix name = extZip
  · exact ⟨name, by unfold writeTarget; rw [if_pos rfl, if_pos hz], hz, rfl⟩
  · refine ⟨stem name ++ extZip, by unfold writeTarget; rw [if_pos rfl, if_neg hz], suffix_stem_zip name hn, ?_⟩
    exact (stem_append_ext (stem name) "zip".toList (stem_ne_nil name hn) (by decide) (by decide)).1

/-- every write - accepted or refused (missing source file) - keeps the invariant -/
theorem writeStep_inv (d : Dir) (name : Str) (compress src : Bool) (text : Str) (hn : name ≠ []) (h : ZipInv d) :
    ZipInv (writeStep d name compress src text) := by
  unfold writeStep
  cases src with
  | false => simpa using h
  | true =>
    simp only [Bool.not_true, Bool.false_eq_true, if_false]
    cases compress with
    | true =>
      obtain ⟨full, hw, hsuf, hstem⟩ := writeTarget_zip name hn
      rw [hw]
      intro f ms hf
      rw [dirGet_dirSet] at hf
      by_cases hff : f = full
      · rw [if_pos hff] at hf
        injection hf with hf; injection hf with hf
        subst hff
        exact ⟨hsuf, text, by rw [← hf, hstem]⟩
      · rw [if_neg hff] at hf
        exact h f ms hf
    | false =>
      have hw : writeTarget name false = (name, none) := rfl
      rw [hw]
      intro f ms hf
      rw [dirGet_dirSet] at hf
      by_cases hff : f = name
      · rw [if_pos hff] at hf; injection hf with hf; cases hf
      · rw [if_neg hff] at hf; exact h f ms hf

/-- **the invariant holds along every history** (any list of writes - accepted or refused - and reads) -/
theorem run_inv (ops : List Op) : ∀ d, (∀ op ∈ ops, op.nameOk) → ZipInv d → ZipInv (run d ops).1 := by
  induction ops with
  | nil => intro d _ h; exact h
  | cons op ops ih =>
    intro d hok h
    have hrest : ∀ o ∈ ops, o.nameOk := fun o ho => hok o (by simp [ho])
    unfold run
    cases op with
    | write name compress src text =>
      simp only [step]
      exact ih _ hrest (writeStep_inv d name compress src text (hok (.write name compress src text) (by simp)) h)
    | read name =>
      simp only [step]
      exact ih _ hrest h

/-- what `read_csv` resolves to when it opens a zip file: the member `<stem>.csv` of a file with the same stem -/
theorem readTarget_zip (ex : Str → Bool) (name f m : Str) (hn : name ≠ [])
    (h : readTarget ex name = some (.zipMember f m)) :
    m = stem name ++ extCsv ∧ suffix f = extZip ∧ stem f = stem name ∧ ex f = true := by
  unfold readTarget at h
  cases hc : checkName ex name with
  | none => rw [hc] at h; cases h
  | some full =>
    rw [hc] at h
    simp only at h
    split at h
    · cases h
    · split at h
      · rename_i hgz hzip
        injection h with h; injection h with h1 h2
        subst h1
        refine ⟨h2.symm, hzip, ?_, ?_⟩
        · unfold checkName at hc
          split at hc
          · injection hc with hc; rw [← hc]
          · rw [checkName_cands] at hc
            have hmem := List.mem_of_find?_eq_some hc
            simp only [List.mem_cons, List.not_mem_nil, or_false] at hmem
            have hs := stem_ne_nil name hn
            have s1 : suffix (stem name ++ extGz) = extGz :=
              (stem_append_ext (stem name) "gz".toList hs (by decide) (by decide)).2
            have s2 : stem (stem name ++ extZip) = stem name :=
              (stem_append_ext (stem name) "zip".toList hs (by decide) (by decide)).1
            have s3 : suffix (stem name ++ extCsv) = extCsv :=
              (stem_append_ext (stem name) "csv".toList hs (by decide) (by decide)).2
            have s4 : suffix (stem name ++ (extCsv ++ extGz)) = extGz := by
              have := (stem_append_ext (stem name ++ extCsv) "gz".toList (by simp [extCsv]) (by decide) (by decide)).2
              rw [List.append_assoc] at this
              exact this
            rcases hmem with e | e | e | e
            · rw [e, s1] at hzip; exact absurd hzip (by decide)
            · rw [e]; exact s2
            · rw [e, s3] at hzip; exact absurd hzip (by decide)
            · rw [e, s4] at hzip; exact absurd hzip (by decide)
        · unfold checkName at hc
          split at hc
          · rename_i hex; injection hc with hc; rw [← hc]; exact hex
          · exact (List.find?_some hc)
      · cases h

/-- **no read of any history fails for a missing member**: in a directory where the invariant holds - every directory
reached from an empty one - `read_csv` never opens a zip file without finding `<stem>.csv` in it, whatever name is
asked for and whatever was written before under whatever names and storage modes -/
theorem readStep_member_found (d : Dir) (name : Str) (hn : name ≠ []) (h : ZipInv d) : readStep d name ≠ .noMember := by
  unfold readStep
  cases hr : readTarget (dirHas d) name with
  | none => simp
  | some o =>
    cases o with
    | gz f => simp
    | plain f => simp only; cases dirGet d f with
      | none => simp
      | some c => cases c <;> simp
    | zipMember f m =>
      obtain ⟨hm, _, hstem, _⟩ := readTarget_zip _ name f m hn hr
      simp only
      cases hg : dirGet d f with
      | none => simp
      | some c =>
        cases c with
        | plain t => simp
        | zip ms =>
          obtain ⟨_, t, hms⟩ := h f ms hg
          simp only
          rw [hms, hm, hstem]
          simp [memberGet]

/-- the same over operation lists: from the empty directory, after ANY history, a read does not fail for a missing member -/
theorem history_member_found (ops : List Op) (name : Str) (hok : ∀ op ∈ ops, op.nameOk) (hn : name ≠ []) :
    readStep (run [] ops).1 name ≠ .noMember :=
  readStep_member_found _ name hn (run_inv ops [] hok (by intro f ms hf; simp [dirGet] at hf))

/-- **plain file, any directory**: whatever the directory holds already (any history), a frame written without compression
under a name whose extension is neither `.gz` nor `.zip` is what the next `read_csv` of that name returns -/
theorem write_read_plain (d : Dir) (name text : Str) (h1 : suffix name ≠ extGz) (h2 : suffix name ≠ extZip) :
    readStep (writeStep d name false true text) name = .text text := by
  unfold writeStep
  simp only [Bool.not_true, Bool.false_eq_true, if_false]
  have hw : writeTarget name false = (name, none) := rfl
  rw [hw]
  simp only
  unfold readStep readTarget checkName
  have hex : dirHas (dirSet d name (Stored.plain text)) name = true := by rw [dirHas_dirSet]; simp
  rw [if_pos hex]
  simp only
  rw [if_neg h1, if_neg h2]
  simp only
  rw [dirGet_dirSet, if_pos rfl]

/-- **compressed file, any directory**: whatever the directory holds already, provided it holds no file that `read_csv`
prefers to the zip file - no file called `name` itself (unless `name` is the zip file) and no `<stem>.gz` - the frame
written with `compress=True` is what the next `read_csv` of that name returns; an older zip file of that name is
replaced -/
theorem write_read_compress (d : Dir) (name text : Str) (hn : name ≠ [])
    (hstale : suffix name = extZip ∨ dirHas d name = false) (hgz : dirHas d (stem name ++ extGz) = false) :
    readStep (writeStep d name true true text) name = .text text := by
  obtain ⟨full, hw, hsuf, hstem⟩ := writeTarget_zip name hn
  have hfull : full = if suffix name = extZip then name else stem name ++ extZip := by
    have : writeTarget name true = ((if suffix name = extZip then name else stem name ++ extZip), some (stem name ++ extCsv)) := by
      unfold writeTarget; rw [if_pos rfl]
    rw [this] at hw
    injection hw with hw _
    exact hw.symm
  unfold writeStep
  simp only [Bool.not_true, Bool.false_eq_true, if_false]
  rw [hw]
  simp only
  set d' := dirSet d full (Stored.zip [(stem name ++ extCsv, text)]) with hd'
  have hgznezip : extGz ≠ extZip := by decide
  have htarget : readTarget (dirHas d') name = some (.zipMember full (stem name ++ extCsv)) := by
    unfold readTarget checkName
    by_cases hz : suffix name = extZip
    · rw [if_pos hz] at hfull
      have hex : dirHas d' name = true := by rw [hd', dirHas_dirSet, hfull]; simp
      rw [if_pos hex]
      simp only
      rw [hz, if_neg (Ne.symm hgznezip), if_pos rfl, hfull]
    · rw [if_neg hz] at hfull
      have hne : name ≠ full := by
        intro heq; apply hz; rw [heq]; exact hsuf
      have hnoname : dirHas d' name = false := by
        rw [hd', dirHas_dirSet]
        rcases hstale with h | h
        · exact absurd h hz
        · simp [h, hne]
      have hnogz : dirHas d' (stem name ++ extGz) = false := by
        rw [hd', dirHas_dirSet, hgz, hfull]
        have : stem name ++ extGz ≠ stem name ++ extZip := fun heq => hgznezip (List.append_cancel_left heq)
        simp [this]
      have hzipthere : dirHas d' (stem name ++ extZip) = true := by rw [hd', dirHas_dirSet, hfull]; simp
      rw [if_neg (by simp [hnoname]), checkName_cands]
      simp only [List.find?_cons, hnogz, hzipthere]
      rw [suffix_stem_zip name hn, if_neg (Ne.symm hgznezip), if_pos rfl, hfull]
  unfold readStep
  rw [htarget]
  simp only
  rw [hd', dirGet_dirSet, if_pos rfl]
  simp [memberGet]

/-- the hypothesis of `write_read_compress` is needed: with an older plain file `d.csv` in the directory,
`write_csv(…, "d.csv", compress=True)` creates `d.zip` and `read_csv("d.csv")` still returns the OLD plain file -/
theorem stale_plain_shadows_zip :
    ∃ d name old new, old ≠ new ∧ ZipInv d ∧ readStep (writeStep d name true true new) name = .text old :=
  ⟨[("d.csv".toList, .plain "old".toList)], "d.csv".toList, "old".toList, "new".toList, by decide,
    by intro f ms hf; simp only [dirGet] at hf; split at hf <;> simp at hf, by decide⟩

/-! #### a caller-supplied archive -/

/-- **archive histories**: after ANY list of member writes - accepted or refused because the member exists - and reads,
every member reads as the text of the FIRST write of that name in the history (or as what the archive held before);
refused writes and reads change nothing -/
theorem archive_history (ops : List AOp) : ∀ (a : Archive) (m : Str),
    arcRead (arun a ops).1 m = match arcRead a m with | some t => some t | none => firstWrite ops m := by
  induction ops with
  | nil => intro a m; simp only [arun, firstWrite]; cases arcRead a m <;> rfl
  | cons op ops ih =>
    intro a m
    simp only [arun]
    rw [ih]
    cases op with
    | read n => simp only [astep, firstWrite]
    | write n t =>
      simp only [astep, arcWrite, firstWrite]
      by_cases hany : a.any (·.1 == n) = true
      · rw [if_pos hany]
        simp only
        by_cases hnm : (n == m) = true
        · have : n = m := by simpa using hnm
          subst this
          obtain ⟨x, hx⟩ := memberGet_some_of_any a n hany
          simp [arcRead, hx]
        · simp only [hnm, if_false]
          rfl
      · have hany' : a.any (·.1 == n) = false := eq_false_of_ne_true hany
        rw [if_neg hany]
        simp only [arcRead]
        rw [memberGet_append_new a m n t hany']
        cases hget : memberGet a m with
        | some x => rfl
        | none =>
          simp only
          by_cases hnm : (n == m) = true
          · simp [hnm]
          · simp only [hnm, if_false]
            cases firstWrite ops m <;> rfl

/-- a member written into an archive (whatever else is written before or after, under other names) is read back -/
theorem archive_write_read (before after : List AOp) (m t : Str)
    (hb : firstWrite before m = none) : arcRead (arun [] (before ++ .write m t :: after)).1 m = some t := by
  rw [archive_history]
  simp only [arcRead, memberGet]
  have : ∀ l : List AOp, firstWrite l m = none → firstWrite (l ++ .write m t :: after) m = some t := by
    intro l
    induction l with
    | nil => intro _; simp [firstWrite]
    | cons op l ih =>
      intro h
      cases op with
      | read n => simp only [List.cons_append, firstWrite] at h ⊢; exact ih h
      | write n x =>
        simp only [List.cons_append, firstWrite] at h ⊢
        by_cases hn : (n == m) = true
        · simp [hn] at h
        · simp only [hn, if_false] at h ⊢; exact ih h
  exact this before hb

/-! ### hypotheses that the property text does not state: each is needed (counterexamples on the model, the real code is
probed at the same points by the correspondence stream `hdr/…/wild` and the directory histories) -/

/-- a caller's key that the header uses itself competes with the recorded count: the count is NOT returned -/
theorem reserved_key_needed :
    ∃ comments : List (Str × Str), (∀ kv ∈ comments, KeyOk kv.1 ∧ ValOk kv.2) ∧ (comments.map (·.1)).Nodup ∧
      (readHeader ((csvheadFull 3 2 (.dict comments) []).map (· ++ ['\n']))).lookup "nrow".toList ≠ some (natStr 3) := by
  refine ⟨[("nrow".toList, "7".toList)], ?_, by decide, by decide⟩
  intro kv hkv
  simp only [List.mem_cons, List.not_mem_nil, or_false] at hkv
  subst hkv
  exact ⟨keyOk_nrow, ⟨by decide, by decide, by decide⟩⟩

/-- a key with a blank inside comes back under another key (the reader writes an underscore for runs of blanks) -/
theorem key_blank_rewritten :
    ∃ k v : Str, lower k = k ∧ k.length ≤ 25 ∧ (∀ c ∈ k, (c != ':') = true) ∧ ValOk v ∧
      (readHeader ((csvheadFull 3 2 (.dict [(k, v)]) []).map (· ++ ['\n']))).lookup k = none ∧
      (readHeader ((csvheadFull 3 2 (.dict [(k, v)]) []).map (· ++ ['\n']))).lookup (subSpaces k) = some v :=
  ⟨"my key".toList, "x".toList, by decide, by decide, by decide, ⟨by decide, by decide, by decide⟩, by decide, by decide⟩

/-- a key of more than `KEY_LENGTH_MAX - 2` characters is not recognised as a key at all: the whole line comes back as
`comment_01` (the property's bound of 25 characters is inside the window of 30) -/
theorem long_key_lost :
    ∃ k v : Str, k.length = 30 ∧ ValOk v ∧
      (readHeader ((csvheadFull 3 2 (.dict [(k, v)]) []).map (· ++ ['\n']))).lookup k = none :=
  ⟨List.replicate 30 'k', "x".toList, by decide, ⟨by decide, by decide, by decide⟩, by decide⟩

/-- a colon in a key is removed by the writer: the comment comes back under the key without it -/
theorem key_colon_removed :
    ∃ k v : Str, lower k = k ∧ k.length ≤ 25 ∧ (∀ c ∈ k, isSpace c = false) ∧ ValOk v ∧
      (readHeader ((csvheadFull 3 2 (.dict [(k, v)]) []).map (· ++ ['\n']))).lookup k = none ∧
      (readHeader ((csvheadFull 3 2 (.dict [(k, v)]) []).map (· ++ ['\n']))).lookup (writerKey k) = some v :=
  ⟨"a:b".toList, "x".toList, by decide, by decide, by decide, ⟨by decide, by decide, by decide⟩, by decide, by decide⟩

/-- the other half of the hypothesis of `write_read_compress`: an older `<stem>.gz` is preferred to the zip file just written -/
theorem stale_gz_shadows_zip :
    ∃ d name new, ZipInv d ∧ readStep (writeStep d name true true new) name ≠ .text new :=
  ⟨[("d.gz".toList, .plain "old".toList)], "d.csv".toList, "new".toList,
    by intro f ms hf; simp only [dirGet] at hf; split at hf <;> simp at hf, by decide⟩

/-- the hypotheses of `write_read_plain` are needed: a plain file written under a `.zip` name is opened as an archive -/
theorem plain_under_zip_name_unreadable :
    ∃ name text, readStep (writeStep [] name false true text) name = .wrongKind :=
  ⟨"d.zip".toList, "x".toList, by decide⟩

/-! ### non-vacuity and sample evaluations -/

example : KeyOk "station_id".toList := ⟨by decide, by decide, by decide, by decide, by decide⟩
example : ValOk "flow: 3.5 m3/s, #1 \"gauge\" ---------- x".toList := ⟨by decide, by decide, by decide⟩
example : readHeader (csvhead 3 2 [("site".toList, "a: b, #c".toList)] ["# author : me".toList]) =
    [("nrow".toList, "3".toList), ("ncol".toList, "2".toList), ("site".toList, "a: b, #c".toList),
     ("author".toList, "me".toList)] := by decide
-- the whole header with system pairs, a value holding a dashed line, an untrimmed and a blank value
example : readHeader ((csvheadFull 12 2 (.dict [("site".toList, "----------".toList), ("b".toList, " x ".toList), ("c".toList, " ".toList)])
      (systemPairs "2026-01-01 00:00:00".toList "me".toList "/a/s.py".toList "s.py".toList none)).map (· ++ ['\n'])) =
    [("nrow".toList, "12".toList), ("ncol".toList, "2".toList), ("b".toList, "x".toList), ("site".toList, "----------".toList),
     ("time_generated".toList, "2026-01-01 00:00:00".toList), ("author".toList, "me".toList), ("source_file".toList, "s.py".toList)] := by decide
example : (∀ kv ∈ [("site".toList, "x".toList), ("b".toList, "y".toList)], kv.1 ∉ reservedKeys) ∧
    ([("site".toList, "x".toList), ("b".toList, "y".toList)].map (·.1)).Nodup := by decide
example : commentsOf (.list ["one".toList, "two".toList]) = [("comment00".toList, "one".toList), ("comment01".toList, "two".toList)] := by decide
example : commentsOf (.dict [("A:b".toList, "1".toList), ("ab".toList, "2".toList)]) = [("ab".toList, "2".toList)] := by decide
example : natStr 120 = "120".toList ∧ natVal "0042".toList = 42 ∧ idx2 7 = "07".toList := by decide
example : stem "a.b.csv".toList = "a.b".toList ∧ suffix "a.b.csv".toList = ".csv".toList
    ∧ stem ".hidden".toList = ".hidden".toList ∧ suffix "x.".toList = [] := by decide
example : writeTarget "data".toList true = ("data.zip".toList, some "data.csv".toList) := by decide
example : writeRow ["a,b".toList, "say \"hi\"".toList, "#1: x".toList] = "\"a,b\",\"say \"\"hi\"\"\",#1: x".toList := by decide
example : parseRow "\"a,b\",\"say \"\"hi\"\"\",#1: x,,3.5".toList = ["a,b".toList, "say \"hi\"".toList, "#1: x".toList, [], "3.5".toList] := by decide
example : splitCols " flow rate,site-id,q_1 \r\n".toList = [" flow rate".toList, "site-id".toList, "q_1 ".toList] := by decide
example : (∀ n ∈ ["flow rate".toList, "q_1".toList], ColOk n) := by unfold ColOk; decide
example : NameOk " flow rate ".toList := ⟨by decide, by decide⟩
-- a whole file: header lines, names, a record starting with `#`, quoted fields
example : readFile (writeFile ["# ----------".toList, "# k : v".toList] ⟨["a b".toList, "c".toList], [["#1, x".toList, "2.50".toList], ["say \"hi\"".toList, "-1".toList]]⟩)
    = some ⟨[("k".toList, "v".toList)], ⟨["a b".toList, "c".toList], [["#1, x".toList, "2.50".toList], ["say \"hi\"".toList, "-1".toList]]⟩⟩ := by decide
-- numbers
example : parseInt (fmtInt (-9007199254740993)) = some (-9007199254740993) := parseInt_fmtInt _
example : ∃ y, parseDec (fmtFixed 5 true (1 / 10)) = some y ∧ |y - (-1) * (1 / 10)| ≤ 1 / (2 * (10 : ℚ) ^ 5) := by
  simpa using fixed_precision 5 true (1 / 10) (by norm_num)
example : (10 : ℚ) ^ (-800 : ℤ) ≤ 1 / 10 ∧ (1 / 10 : ℚ) < (10 : ℚ) ^ (800 : ℤ) := by
  constructor
  · rw [show (1 / 10 : ℚ) = (10 : ℚ) ^ (-1 : ℤ) by norm_num]
    exact (zpow_le_zpow_iff_right₀ (by norm_num)).mpr (by norm_num)
  · calc (1 / 10 : ℚ) < (10 : ℚ) ^ (0 : ℤ) := by norm_num
      _ ≤ (10 : ℚ) ^ (800 : ℤ) := (zpow_le_zpow_iff_right₀ (by norm_num)).mpr (by norm_num)
example : natVal (fracDigits 3 1042) = 42 ∧ fracDigits 3 7 = "007".toList := by decide
-- histories: a directory and an archive
example : (run [] [.write "d.csv".toList true true "A".toList, .read "d.csv".toList, .write "d.csv".toList false true "B".toList,
      .read "d.csv".toList, .write "d.csv".toList true true "C".toList, .read "d.csv".toList, .write "e".toList true false "D".toList,
      .read "e".toList]).2 = [.text "A".toList, .text "B".toList, .text "B".toList, .notFound] := by decide
example : ∀ op ∈ [Op.write "d.csv".toList true true "A".toList, Op.read "d".toList], op.nameOk := by
  intro op h; simp only [List.mem_cons, List.not_mem_nil, or_false] at h; rcases h with h | h <;> subst h <;> simp [Op.nameOk]
example : (arun [] [.write "x/a.csv".toList "A".toList, .write "x/a.csv".toList "B".toList, .read "a.csv".toList, .read "x/a.csv".toList]).2
    = [some "A".toList, none, none, some "A".toList] := by decide
example : firstWrite [.read "m".toList, .write "n".toList "1".toList] "m".toList = none := by decide

end HydroVerif.C09
