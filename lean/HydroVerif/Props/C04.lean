/-
C04 — property theorems. Model: `HydroVerif/Model/C04.lean`; helper lemmas: `Lemmas/C04.lean`.
`o` = (transformed) observations, `s` = (transformed) simulations; the composition with the transform
and with the null filter is made by the code and checked by the correspondence.
-/
import HydroVerif.Lemmas.C04
import HydroVerif.Lemmas.C04Conf
import Mathlib.Analysis.SpecialFunctions.Pow.Real
import Mathlib.Analysis.SpecialFunctions.Log.Basic

namespace HydroVerif.C04

section field
variable {α : Type} [Field α] [LinearOrder α] [IsStrictOrderedRing α]

/-! ### NSE -/

/-- a perfect simulation scores NSE 1 (observations not constant) -/
theorem nse_perfect (o : List α) (_h : ssd (mean o) o ≠ 0) : nse o o = 1 := by
  simp [nse, sse_self]

/-- simulating the observed mean scores NSE 0 -/
theorem nse_mean_sim (o : List α) (h : ssd (mean o) o ≠ 0) :
    nse o (List.replicate o.length (mean o)) = 0 := by
  unfold nse
  rw [sse_const_eq_ssd, div_self h]
  ring

/-- NSE never exceeds 1 -/
theorem nse_le_one (o s : List α) (h : 0 < ssd (mean o) o) : nse o s ≤ 1 := by
  unfold nse
  have := div_nonneg (sse_nonneg o s) h.le
  linarith

/-- NSE is invariant under a common affine map `x ↦ a x + b`, `a ≠ 0` -/
theorem nse_affine (a b : α) (ha : a ≠ 0) (o s : List α) (ho : o ≠ []) :
    nse (o.map fun x => a * x + b) (s.map fun x => a * x + b) = nse o s := by
  unfold nse
  rw [mean_affine a b o ho, sse_affine, ssd_affine]
  have haa : a * a ≠ 0 := mul_ne_zero ha ha
  rw [mul_div_mul_left _ _ haa]

/-! ### bias -/

/-- a perfect simulation has bias 0 (standard and normalised), whenever the observed mean is not degenerate -/
theorem biasStd_perfect (eps : α) (o : List α) (h : ¬ |mean o| < eps) : biasStd eps o o = some 0 := by
  simp [biasStd, absG_eq_abs, h]

theorem biasNorm_perfect (eps : α) (o : List α) (h : ¬ |mean o| < eps) : biasNorm eps o o = some 0 := by
  simp [biasNorm, absG_eq_abs, h]

/-- the standard bias is `mean s / mean o - 1` -/
theorem biasStd_value (eps : α) (o s : List α) (h : ¬ |mean o| < eps) (hm : mean o ≠ 0) :
    biasStd eps o s = some (mean s / mean o - 1) := by
  simp only [biasStd, absG_eq_abs, h, if_false]
  congr 1
  field_simp

/-- bias is invariant under a common positive scaling (both guards passing) -/
theorem biasStd_scale (eps c : α) (hc : 0 < c) (o s : List α)
    (h : ¬ |mean o| < eps) (h' : ¬ |c * mean o| < eps) :
    biasStd eps (o.map fun x => c * x) (s.map fun x => c * x) = biasStd eps o s := by
  simp only [biasStd, absG_eq_abs, mean_mul, h, h', if_false]
  congr 1
  rw [← mul_sub, mul_div_mul_left _ _ hc.ne']

theorem biasNorm_scale (eps c : α) (hc : 0 < c) (o s : List α)
    (h : ¬ |mean o| < eps) (h' : ¬ |c * mean o| < eps) :
    biasNorm eps (o.map fun x => c * x) (s.map fun x => c * x) = biasNorm eps o s := by
  simp only [biasNorm, absG_eq_abs, mean_mul, h, h', if_false]
  congr 1
  rw [← mul_sub, ← mul_add, mul_div_mul_left _ _ hc.ne']

/-! ### excludenull -/

/-- `__nonulldata` keeps exactly the pairs in which both entries are present, in order -/
theorem nonull_spec (o s : List (Option α)) :
    nonull o s = ((o.zip s).filterMap fun p => match p with
      | (some a, some b) => some (a, b)
      | _ => none).unzip := by
  induction o generalizing s with
  | nil => cases s <;> simp [nonull]
  | cons a as ih =>
    cases s with
    | nil => cases a <;> simp [nonull]
    | cons b bs =>
      cases a <;> cases b <;> simp [nonull, ih]

/-- without missing entries the filter is the identity: `excludenull=True` changes nothing -/
theorem nonull_complete (o s : List α) (h : o.length = s.length) :
    nonull (o.map some) (s.map some) = (o, s) := by
  induction o generalizing s with
  | nil => cases s <;> simp_all [nonull]
  | cons a as ih =>
    cases s with
    | nil => simp at h
    | cons b bs =>
      simp only [List.length_cons, Nat.add_right_cancel_iff] at h
      simp [nonull, ih bs h]

end field

/-! ### KGE and correlation (over ℝ) -/

noncomputable instance : Transc ℝ where
  exp := Real.exp
  log := Real.log
  sqrt := Real.sqrt
  sinh := Real.sinh
  cosh := Real.cosh
  tanh := Real.tanh
  asinh := Real.log ∘ fun x => x + Real.sqrt (x * x + 1)
  pow := fun x y => x ^ y

theorem sqrt_def (x : ℝ) : Transc.sqrt x = Real.sqrt x := rfl
theorem log_def (x : ℝ) : Transc.log x = Real.log x := rfl

/-- KGE never exceeds 1 -/
theorem kge_le_one (eps : ℝ) (o s : List ℝ) (v : ℝ) (h : kge eps o s = some v) : v ≤ 1 := by
  unfold kge at h
  simp only at h
  split at h
  · cases h
  · split at h
    · cases h
    · split at h
      · injection h with h
        rw [← h, sqrt_def]
        have := Real.sqrt_nonneg
          ((1 - mean s / mean o) * (1 - mean s / mean o) + (1 - std s / std o) * (1 - std s / std o)
            + (1 - pearson o s) * (1 - pearson o s))
        linarith
      · cases h

theorem pearson_self (o : List ℝ) (h : 0 < ssd (mean o) o) : pearson o o = 1 := by
  have hn := two_le_length_of_ssd_pos o h
  have hn1 : (0:ℝ) < ((o.length - 1 : Nat) : ℝ) := by
    have : 0 < o.length - 1 := by omega
    exact_mod_cast this
  unfold pearson
  simp only [scd_self, sqrt_def]
  have hq : 0 < ssd (mean o) o / ((o.length - 1 : Nat) : ℝ) := div_pos h hn1
  have hs : 0 < Real.sqrt (ssd (mean o) o / ((o.length - 1 : Nat) : ℝ)) := Real.sqrt_pos.mpr hq
  have : ssd (mean o) o / ((o.length - 1 : Nat) : ℝ) / Real.sqrt (ssd (mean o) o / ((o.length - 1 : Nat) : ℝ))
      / Real.sqrt (ssd (mean o) o / ((o.length - 1 : Nat) : ℝ)) = 1 := by
    rw [div_div, Real.mul_self_sqrt hq.le, div_self hq.ne']
  rw [this]
  unfold clip1
  norm_num

theorem std_pos_iff (o : List ℝ) (h : o ≠ []) : 0 < std o ↔ 0 < ssd (mean o) o := by
  unfold std
  rw [sqrt_def, Real.sqrt_pos]
  have : (0:ℝ) < (o.length : ℝ) := by
    have : 0 < o.length := List.length_pos_iff.mpr h
    exact_mod_cast this
  constructor
  · intro hq
    by_contra hc
    have : ssd (mean o) o = 0 := le_antisymm (not_lt.mp hc) (ssd_nonneg _ _)
    rw [this, zero_div] at hq
    exact lt_irrefl _ hq
  · intro hp; exact div_pos hp this

/-- a perfect simulation scores KGE 1 whenever the guards pass (observed mean and standard deviation
not within `eps` of zero) -/
theorem kge_perfect (eps : ℝ) (he : 0 < eps) (o : List ℝ)
    (hm : ¬ |mean o| < eps) (hs : eps < |std o|) : kge eps o o = some 1 := by
  have hstd_nonneg : 0 ≤ std o := by unfold std; rw [sqrt_def]; exact Real.sqrt_nonneg _
  have hstd : 0 < std o := by
    rw [abs_of_nonneg hstd_nonneg] at hs; linarith
  have hne : o ≠ [] := by
    rintro rfl
    simp [std, ssd, sqrt_def] at hstd
  have hssd := (std_pos_iff o hne).mp hstd
  have hmo : mean o ≠ 0 := by
    intro h0; rw [h0, abs_zero] at hm; exact hm he
  unfold kge
  simp only [absG_eq_abs, hm, not_lt.mpr hs.le, hs, if_false, if_true, pearson_self o hssd, div_self hmo,
    div_self hstd.ne', sub_self, mul_zero, add_zero, sqrt_def, Real.sqrt_zero, sub_zero]

/-- Pearson correlation of a series with itself is 1; the returned correlation is always within [-1, 1] -/
theorem corr_perfect (eps : ℝ) (o : List ℝ) (hs : ¬ |std o| < eps) (hp : 0 < ssd (mean o) o) :
    corrPearson eps o o = some 1 := by
  simp [corrPearson, absG_eq_abs, hs, pearson_self o hp]

theorem pearson_range (x y : List ℝ) : -1 ≤ pearson x y ∧ pearson x y ≤ 1 := by
  unfold pearson clip1
  simp only
  split
  · norm_num
  · split
    · norm_num
    · constructor <;> linarith [not_lt.mp ‹¬ _ < (-1:ℝ)›, not_lt.mp ‹¬ (1:ℝ) < _›]

theorem std_scale (c : ℝ) (hc : 0 < c) (l : List ℝ) : std (l.map fun x => c * x) = c * std l := by
  unfold std
  rw [mean_mul, ssd_mul, List.length_map, sqrt_def, sqrt_def, mul_div_assoc,
    Real.sqrt_mul (mul_self_nonneg c), Real.sqrt_mul_self hc.le]

theorem pearson_scale (c : ℝ) (hc : 0 < c) (x y : List ℝ) :
    pearson (x.map fun v => c * v) (y.map fun v => c * v) = pearson x y := by
  unfold pearson
  simp only [mean_mul, scd_mul, ssd_mul, List.length_map, sqrt_def]
  congr 1
  have e : ∀ v n : ℝ, Real.sqrt (c * c * v / n) = c * Real.sqrt (v / n) := by
    intro v n
    rw [mul_div_assoc, Real.sqrt_mul (mul_self_nonneg c), Real.sqrt_mul_self hc.le]
  rw [e, e]
  have hc' : c ≠ 0 := hc.ne'
  field_simp

/-- KGE is invariant under a common positive scaling of observations and simulations
(whenever the guards pass before and after) -/
theorem kge_scale (eps c : ℝ) (hc : 0 < c) (o s : List ℝ)
    (hm : ¬ |mean o| < eps) (hm' : ¬ |c * mean o| < eps)
    (hso : ¬ |std o| < eps) (hso' : ¬ |c * std o| < eps)
    (hss : eps < |std s|) (hss' : eps < |c * std s|) :
    kge eps (o.map fun x => c * x) (s.map fun x => c * x) = kge eps o s := by
  unfold kge
  simp only [absG_eq_abs, mean_mul, std_scale c hc, pearson_scale c hc, hm, hm', hso, hso', hss, hss',
    if_false, if_true]
  rw [mul_div_mul_left _ _ hc.ne', mul_div_mul_left _ _ hc.ne']

/-- log-bias is invariant under a common positive scaling -/
theorem biasLog_scale (eps c : ℝ) (hc : 0 < c) (o s : List ℝ)
    (hm : ¬ |mean o| < eps) (hm' : ¬ |c * mean o| < eps)
    (h1 : eps < mean s ∧ eps < mean o) (h2 : eps < c * mean s ∧ eps < c * mean o) (he : 0 < eps) :
    biasLog eps (o.map fun x => c * x) (s.map fun x => c * x) = biasLog eps o s := by
  unfold biasLog
  simp only [absG_eq_abs, mean_mul, hm, hm', h1, h2, and_self, if_false, if_true, log_def]
  congr 1
  rw [Real.log_mul hc.ne' (by linarith [h1.1]), Real.log_mul hc.ne' (by linarith [h1.2])]
  ring


/-! ### Spearman correlation: depends on the data only through their order -/

theorem ranks_map_strictMono (f : ℝ → ℝ) (hf : StrictMono f) (l : List ℝ) :
    ranks (l.map f) = ranks l := by
  unfold ranks
  rw [List.map_map]
  apply List.map_congr_left
  intro x _
  unfold avgRank
  simp only [Function.comp_def, List.filter_map, List.length_map, hf.lt_iff_lt]

/-- Spearman correlation is unchanged by strictly increasing re-scalings of either series -/
theorem spearman_monotone_invariant (f g : ℝ → ℝ) (hf : StrictMono f) (hg : StrictMono g) (o s : List ℝ) :
    pearson (ranks (o.map f)) (ranks (s.map g)) = pearson (ranks o) (ranks s) := by
  rw [ranks_map_strictMono f hf, ranks_map_strictMono g hg]

/-- a perfect simulation has Spearman correlation 1 (ranks not all equal) -/
theorem spearman_perfect (eps : ℝ) (o : List ℝ) (hs : ¬ |std o| < eps)
    (hr : 0 < ssd (mean (ranks o)) (ranks o)) : corrSpearman eps o o = some 1 := by
  simp [corrSpearman, absG_eq_abs, hs, pearson_self (ranks o) hr]

/-! ### confusion matrix -/

/-- the labels of the returned table are `0 .. ncat-1` on both axes whenever every category is `< ncat`
(also when the cross-tabulation already had the requested shape and is returned as it is) -/
theorem confusion_labels (obs sim : List Int) (ncat : Nat)
    (ho : ∀ x ∈ obs, 0 ≤ x ∧ x < ncat) (hs : ∀ x ∈ sim, 0 ≤ x ∧ x < ncat) :
    (confusion obs sim ncat).1 = (List.range ncat).map Int.ofNat ∧
    (confusion obs sim ncat).2.1 = (List.range ncat).map Int.ofNat := by
  unfold confusion
  simp only
  split
  · rename_i h
    have e1 := sorted_full_eq_range (uniqueSorted obs) 0 (uniqueSorted_sorted obs)
      (fun x hx => by have := ho x ((uniqueSorted_mem obs x).mp hx); rw [h.1]; omega)
    have e2 := sorted_full_eq_range (uniqueSorted sim) 0 (uniqueSorted_sorted sim)
      (fun x hx => by have := hs x ((uniqueSorted_mem sim x).mp hx); rw [h.2]; omega)
    rw [h.1] at e1; rw [h.2] at e2
    constructor
    · rw [e1]; apply List.map_congr_left; intro i _; simp
    · rw [e2]; apply List.map_congr_left; intro i _; simp
  · exact ⟨rfl, rfl⟩

/-- every cell holds the number of (observed, forecast) pairs of its row and column categories -/
theorem confusion_cells (obs sim : List Int) (ncat : Nat) :
    (confusion obs sim ncat).2.2 =
      (confusion obs sim ncat).1.map fun i => (confusion obs sim ncat).2.1.map fun j => count obs sim i j := by
  unfold confusion
  simp only

/-- every pair is counted exactly once: the cells add up to the number of pairs -/
theorem confusion_total (obs sim : List Int) (ncat : Nat) (hl : obs.length = sim.length)
    (ho : ∀ x ∈ obs, 0 ≤ x ∧ x < ncat) (hs : ∀ x ∈ sim, 0 ≤ x ∧ x < ncat) :
    tableTotal (confusion obs sim ncat).2.2 = obs.length := by
  rw [confusion_cells, (confusion_labels obs sim ncat ho hs).1, (confusion_labels obs sim ncat ho hs).2]
  rw [total_count ncat obs sim]
  · simp [List.length_zip, hl]
  · intro p hp
    exact ⟨ho _ (List.of_mem_zip hp).1, hs _ (List.of_mem_zip hp).2⟩

/-- with `ncat` inferred, every label present fits in the table -/
theorem inferNcat_covers (obs sim : List Int) (h : ∀ x ∈ obs ++ sim, 0 ≤ x) :
    ∀ x ∈ obs ++ sim, 0 ≤ x ∧ x < inferNcat obs sim := by
  intro x hx
  refine ⟨h x hx, ?_⟩
  unfold inferNcat
  have hmem := (uniqueSorted_mem (obs ++ sim) x).mpr hx
  have hsorted := uniqueSorted_sorted (obs ++ sim)
  generalize uniqueSorted (obs ++ sim) = l at hmem hsorted
  cases hl : l.getLast? with
  | none => rw [List.getLast?_eq_none_iff] at hl; subst hl; simp at hmem
  | some m =>
    simp only [hl]
    have hm : m ∈ l := List.mem_of_getLast? hl
    have hle : x ≤ m := by
      obtain ⟨l', rfl⟩ : ∃ l', l = l' ++ [m] := by
        rcases List.getLast?_eq_some_iff.mp hl with ⟨l', h'⟩; exact ⟨l', h'⟩
      rw [List.pairwise_append] at hsorted
      rcases List.mem_append.mp hmem with h1 | h1
      · exact (hsorted.2.2 x h1 m (by simp)).le
      · simp at h1; omega
    have : 0 ≤ m := le_trans (h x hx) hle
    omega

/-! ### binary scores (2x2 table with four positive counts) -/

section binaryScores
variable {α : Type} [Field α] [LinearOrder α] [IsStrictOrderedRing α]
variable (tn fp fn tp : α)

/-- the odds ratio is the cross-product ratio `TP·TN / (FP·FN)` -/
theorem binary_theta (h1 : 0 < tn) (h2 : 0 < fp) (h3 : 0 < fn) (h4 : 0 < tp) :
    (binary tn fp fn tp).theta = tp * tn / (fp * fn) := by
  simp only [binary]
  have hA : tp + fn ≠ 0 := by positivity
  have hB : tn + fp ≠ 0 := by positivity
  have e1 : 1 - fp / (tn + fp) = tn / (tn + fp) := by field_simp; ring
  have e2 : 1 - tp / (tp + fn) = fn / (tp + fn) := by field_simp; ring
  rw [e1, e2]
  have : fn ≠ 0 := h3.ne'
  have : fp ≠ 0 := h2.ne'
  field_simp

/-- ORSS is defined for every positive table (odds ratio below, at or above 1) and equals
`(θ-1)/(θ+1) = (TP·TN − FP·FN)/(TP·TN + FP·FN)` -/
theorem binary_orss (h1 : 0 < tn) (h2 : 0 < fp) (h3 : 0 < fn) (h4 : 0 < tp) :
    (binary tn fp fn tp).orss = some ((tp * tn - fp * fn) / (tp * tn + fp * fn)) := by
  have ht := binary_theta tn fp fn tp h1 h2 h3 h4
  have hpos : 0 < tp * tn / (fp * fn) := by positivity
  simp only [binary] at ht ⊢
  rw [ht, if_pos (by linarith)]
  congr 1
  have : fp * fn ≠ 0 := by positivity
  have : tp * tn + fp * fn ≠ 0 := by positivity
  field_simp

/-- the log odds ratio is defined for every positive table -/
theorem binary_lor_defined (h1 : 0 < tn) (h2 : 0 < fp) (h3 : 0 < fn) (h4 : 0 < tp) :
    (binary tn fp fn tp).lorDefined = true := by
  simp only [binary, Bool.and_eq_true, decide_eq_true_eq]
  have a : 0 < tp + fn := by positivity
  have b : 0 < tn + fp := by positivity
  refine ⟨⟨⟨by positivity, ?_⟩, by positivity⟩, ?_⟩
  · rw [div_lt_one a]; linarith
  · rw [div_lt_one b]; linarith

/-- contingency-table definitions of the rates -/
theorem binary_rates :
    (binary tn fp fn tp).hitrate = tp / (tp + fn) ∧
    (binary tn fp fn tp).falsealarm = fp / (tn + fp) ∧
    (binary tn fp fn tp).precision = tp / (tp + fp) ∧
    (binary tn fp fn tp).accuracy = (tp + tn) / (tp + fn + (tn + fp)) ∧
    (binary tn fp fn tp).bias = (tp + fp) / (tp + fn) := ⟨rfl, rfl, rfl, rfl, rfl⟩

/-- F1 is the harmonic mean of hit rate and precision -/
theorem binary_f1_harmonic (h2 : 0 < fp) (h3 : 0 < fn) (h4 : 0 < tp) :
    (binary tn fp fn tp).f1 =
      2 * (binary tn fp fn tp).hitrate * (binary tn fp fn tp).precision /
        ((binary tn fp fn tp).hitrate + (binary tn fp fn tp).precision) := by
  simp only [binary]
  have : tp + fn ≠ 0 := by positivity
  have : tp + fp ≠ 0 := by positivity
  have : 2 * tp + fp + fn ≠ 0 := by positivity
  have : tp * (tp + fp) + tp * (tp + fn) ≠ 0 := by positivity
  field_simp
  ring

/-- rates are proportions; accuracy lies in [0, 1] -/
theorem binary_accuracy_range (h1 : 0 < tn) (h2 : 0 < fp) (h3 : 0 < fn) (h4 : 0 < tp) :
    0 < (binary tn fp fn tp).accuracy ∧ (binary tn fp fn tp).accuracy < 1 := by
  simp only [binary]
  have : 0 < tp + fn + (tn + fp) := by positivity
  constructor
  · positivity
  · rw [div_lt_one this]; linarith

/-- the Matthews correlation `mccNum / sqrt mccDen2` lies in [-1, 1]: `mccNum² ≤ mccDen2` -/
theorem binary_mcc_range (h1 : 0 ≤ tn) (h2 : 0 ≤ fp) (h3 : 0 ≤ fn) (h4 : 0 ≤ tp) :
    (binary tn fp fn tp).mccNum * (binary tn fp fn tp).mccNum ≤ (binary tn fp fn tp).mccDen2 := by
  simp only [binary]
  have e : (tp + fp) * (tp + fn) * (tn + fp) * (tn + fn) - (tp * tn - fp * fn) * (tp * tn - fp * fn)
      = 4 * (tp * fp) * (fn * tn) + (tp * fp) * (fn * fn) + (tp * fp) * (tn * tn) + (tp * fn) * (fp * fp)
        + (tp * tn) * (fp * fp) + (tp * fn) * (tn * tn) + (tp * tn) * (fn * fn) + (tp * tp) * (fp * fn)
        + (tp * tp) * (fp * tn) + (tp * tp) * (fn * tn) + (fp * fn) * (tn * tn) + (fp * tn) * (fn * fn)
        + (fp * fp) * (fn * tn) := by ring
  have : 0 ≤ 4 * (tp * fp) * (fn * tn) + (tp * fp) * (fn * fn) + (tp * fp) * (tn * tn) + (tp * fn) * (fp * fp)
        + (tp * tn) * (fp * fp) + (tp * fn) * (tn * tn) + (tp * tn) * (fn * fn) + (tp * tp) * (fp * fn)
        + (tp * tp) * (fp * tn) + (tp * tp) * (fn * tn) + (fp * fn) * (tn * tn) + (fp * tn) * (fn * fn)
        + (fp * fp) * (fn * tn) := by positivity
  linarith

end binaryScores

/-! ### non-vacuity / sample evaluations -/

example : nse [(1:ℚ), 2, 4, 7] [1, 2, 4, 5] = 17/21 := by decide +kernel
example : ssd (mean [(1:ℚ), 2, 4, 7]) [1, 2, 4, 7] ≠ 0 := by decide +kernel
example : (confusion [0, 2, 2, 0] [0, 0, 0, 0] (inferNcat [0, 2, 2, 0] [0, 0, 0, 0])).2.2
    = [[2, 0, 0], [0, 0, 0], [2, 0, 0]] := by decide
example : ranks [(3:ℚ), 1, 3, 2] = [7/2, 1, 7/2, 2] := by decide +kernel
example : (binary (5:ℚ) 2 3 7).orss = some (29/41) := by decide +kernel
example : (binary (2:ℚ) 5 7 3).orss = some (-29/41) := by decide +kernel

end HydroVerif.C04
