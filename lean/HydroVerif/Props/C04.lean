/-
C04 — property theorems. Model: `HydroVerif/Model/C04.lean`; helper lemmas: `Lemmas/C04.lean`, `Lemmas/C04Conf.lean`.
`o` = (transformed) observations, `s` = (transformed) simulations. The composition with the transform is made by the
code (`trans.forward`, whose own properties are C01/C02) and checked by the correspondence; every theorem below is stated
for arbitrary series, hence for the image of the series under ANY transform.

Clause of the property                                   | theorems                                                       | outside the theorems
---------------------------------------------------------|----------------------------------------------------------------|---------------------
scores equal their textbook definitions                  | nse (definition), biasStd_value, biasNorm_value, kge_value, pearson_textbook (clipping of corrcoef never acts: cauchy_schwarz), pearson_comm, ranks / corrSpearman (definition) | IEEE rounding; numpy pairwise sums (condition-scaled tolerance)
perfect simulation: bias 0, NSE 1, KGE 1, corr 1          | biasStd_perfect, biasNorm_perfect, biasLog_perfect, nse_perfect, nse_perfect_trans, kge_perfect, pearson_self, corr_perfect, spearman_perfect, corrFull_perfect | -
simulating the observed mean scores NSE 0                | nse_mean_sim                                                   | -
NSE and KGE never exceed 1                               | nse_le_one, kge_le_one (pearson_range)                         | -
NSE invariant under a common affine map                  | nse_affine                                                     | -
bias and KGE invariant under positive scaling            | biasStd_scale, biasNorm_scale, biasLog_scale, kge_scale (std_scale, pearson_scale) | -
excludenull = score of the series with incomplete pairs removed | nonull_spec, nonull_complete, corrFull (model) + mem_checkEns | np.isfinite / pd.notnull (driver: Float.isFinite / isNaN)
ensemble statistic mean / median                         | ensStat_single, ensStat_skips_nan, ensStat_all_nan, ensMean_value, median_perm, median_bounds, sortL_perm, sortL_sorted | np.nanmean / np.nanmedian (compared per row)
Spearman depends on the data through their order only    | ranks_map_strictMono, spearman_monotone_invariant              | scipy.stats.spearmanr (compared by result)
confusion matrix: every pair once, requested size        | confusion_labels, confusion_cells, confusion_total, inferNcat_covers | pandas.crosstab (compared by result)
binary scores equal contingency-table definitions        | binary_rates, binary_f1_harmonic, binary_theta, binary_orss, binary_lor_defined, binary_accuracy_range, binary_mcc_range | sqrt / log of the driver's Float
-/
import HydroVerif.Lemmas.C04
import HydroVerif.Lemmas.C04Conf
import Mathlib.Analysis.SpecialFunctions.Pow.Real
import Mathlib.Analysis.SpecialFunctions.Log.Basic

namespace HydroVerif.C04

section field
variable {α : Type} [Field α] [LinearOrder α] [IsStrictOrderedRing α]

/-! ### NSE -/

/-- a perfect simulation scores NSE 1 (observations not constant) -/
theorem nse_perfect (o : List α) (_h : ssd (mean o) o ≠ 0) : nse o o = 1 := by
  simp [nse, sse_self]

/-- simulating the observed mean scores NSE 0 -/
theorem nse_mean_sim (o : List α) (h : ssd (mean o) o ≠ 0) :
    nse o (List.replicate o.length (mean o)) = 0 := by
  unfold nse
  rw [sse_const_eq_ssd, div_self h]
  ring

/-- NSE never exceeds 1 -/
theorem nse_le_one (o s : List α) (h : 0 < ssd (mean o) o) : nse o s ≤ 1 := by
  unfold nse
  have := div_nonneg (sse_nonneg o s) h.le
  linarith

/-- NSE is invariant under a common affine map `x ↦ a x + b`, `a ≠ 0` -/
theorem nse_affine (a b : α) (ha : a ≠ 0) (o s : List α) (ho : o ≠ []) :
    nse (o.map fun x => a * x + b) (s.map fun x => a * x + b) = nse o s := by
  unfold nse
  rw [mean_affine a b o ho, sse_affine, ssd_affine]
  have haa : a * a ≠ 0 := mul_ne_zero ha ha
  rw [mul_div_mul_left _ _ haa]

/-! ### bias -/

/-- a perfect simulation has bias 0 (standard and normalised), whenever the observed mean is not degenerate -/
theorem biasStd_perfect (eps : α) (o : List α) (h : ¬ |mean o| < eps) : biasStd eps o o = some 0 := by
  simp [biasStd, absG_eq_abs, h]

theorem biasNorm_perfect (eps : α) (o : List α) (h : ¬ |mean o| < eps) : biasNorm eps o o = some 0 := by
  simp [biasNorm, absG_eq_abs, h]

/-- the standard bias is `mean s / mean o - 1` -/
theorem biasStd_value (eps : α) (o s : List α) (h : ¬ |mean o| < eps) (hm : mean o ≠ 0) :
    biasStd eps o s = some (mean s / mean o - 1) := by
  simp only [biasStd, absG_eq_abs, h, if_false]
  congr 1
  field_simp

/-- bias is invariant under a common positive scaling (both guards passing) -/
theorem biasStd_scale (eps c : α) (hc : 0 < c) (o s : List α)
    (h : ¬ |mean o| < eps) (h' : ¬ |c * mean o| < eps) :
    biasStd eps (o.map fun x => c * x) (s.map fun x => c * x) = biasStd eps o s := by
  simp only [biasStd, absG_eq_abs, mean_mul, h, h', if_false]
  congr 1
  rw [← mul_sub, mul_div_mul_left _ _ hc.ne']

theorem biasNorm_scale (eps c : α) (hc : 0 < c) (o s : List α)
    (h : ¬ |mean o| < eps) (h' : ¬ |c * mean o| < eps) :
    biasNorm eps (o.map fun x => c * x) (s.map fun x => c * x) = biasNorm eps o s := by
  simp only [biasNorm, absG_eq_abs, mean_mul, h, h', if_false]
  congr 1
  rw [← mul_sub, ← mul_add, mul_div_mul_left _ _ hc.ne']

/-! ### excludenull -/

/-- `__nonulldata` keeps exactly the pairs in which both entries are present, in order -/
theorem nonull_spec (o s : List (Option α)) :
    nonull o s = ((o.zip s).filterMap fun p => match p with
      | (some a, some b) => some (a, b)
      | _ => none).unzip := by
  induction o generalizing s with
  | nil => cases s <;> simp [nonull]
  | cons a as ih =>
    cases s with
    | nil => cases a <;> simp [nonull]
    | cons b bs =>
      cases a <;> cases b <;> simp [nonull, ih]

/-- without missing entries the filter is the identity: `excludenull=True` changes nothing -/
theorem nonull_complete (o s : List α) (h : o.length = s.length) :
    nonull (o.map some) (s.map some) = (o, s) := by
  induction o generalizing s with
  | nil => cases s <;> simp_all [nonull]
  | cons a as ih =>
    cases s with
    | nil => simp at h
    | cons b bs =>
      simp only [List.length_cons, Nat.add_right_cancel_iff] at h
      simp [nonull, ih bs h]

end field

/-! ### KGE and correlation (over ℝ) -/

noncomputable instance : Transc ℝ where
  exp := Real.exp
  log := Real.log
  sqrt := Real.sqrt
  sinh := Real.sinh
  cosh := Real.cosh
  tanh := Real.tanh
  asinh := Real.log ∘ fun x => x + Real.sqrt (x * x + 1)
  pow := fun x y => x ^ y

theorem sqrt_def (x : ℝ) : Transc.sqrt x = Real.sqrt x := rfl
theorem log_def (x : ℝ) : Transc.log x = Real.log x := rfl

/-- KGE never exceeds 1 -/
theorem kge_le_one (eps : ℝ) (o s : List ℝ) (v : ℝ) (h : kge eps o s = some v) : v ≤ 1 := by
  unfold kge at h
  simp only at h
  split at h
  · cases h
  · split at h
    · cases h
    · split at h
      · injection h with h
        rw [← h, sqrt_def]
        have := Real.sqrt_nonneg
          ((1 - mean s / mean o) * (1 - mean s / mean o) + (1 - std s / std o) * (1 - std s / std o)
            + (1 - pearson o s) * (1 - pearson o s))
        linarith
      · cases h

theorem pearson_self (o : List ℝ) (h : 0 < ssd (mean o) o) : pearson o o = 1 := by
  have hn := two_le_length_of_ssd_pos o h
  have hn1 : (0:ℝ) < ((o.length - 1 : Nat) : ℝ) := by
    have : 0 < o.length - 1 := by omega
    exact_mod_cast this
  unfold pearson
  simp only [scd_self, sqrt_def]
  have hq : 0 < ssd (mean o) o / ((o.length - 1 : Nat) : ℝ) := div_pos h hn1
  have hs : 0 < Real.sqrt (ssd (mean o) o / ((o.length - 1 : Nat) : ℝ)) := Real.sqrt_pos.mpr hq
  have : ssd (mean o) o / ((o.length - 1 : Nat) : ℝ) / Real.sqrt (ssd (mean o) o / ((o.length - 1 : Nat) : ℝ))
      / Real.sqrt (ssd (mean o) o / ((o.length - 1 : Nat) : ℝ)) = 1 := by
    rw [div_div, Real.mul_self_sqrt hq.le, div_self hq.ne']
  rw [this]
  unfold clip1
  norm_num

theorem std_pos_iff (o : List ℝ) (h : o ≠ []) : 0 < std o ↔ 0 < ssd (mean o) o := by
  unfold std
  rw [sqrt_def, Real.sqrt_pos]
  have : (0:ℝ) < (o.length : ℝ) := by
    have : 0 < o.length := List.length_pos_iff.mpr h
    exact_mod_cast this
  constructor
  · intro hq
    by_contra hc
    have : ssd (mean o) o = 0 := le_antisymm (not_lt.mp hc) (ssd_nonneg _ _)
    rw [this, zero_div] at hq
    exact lt_irrefl _ hq
  · intro hp; exact div_pos hp this

/-- a perfect simulation scores KGE 1 whenever the guards pass (observed mean and standard deviation
not within `eps` of zero) -/
theorem kge_perfect (eps : ℝ) (he : 0 < eps) (o : List ℝ)
    (hm : ¬ |mean o| < eps) (hs : eps < |std o|) : kge eps o o = some 1 := by
  have hstd_nonneg : 0 ≤ std o := by unfold std; rw [sqrt_def]; exact Real.sqrt_nonneg _
  have hstd : 0 < std o := by
    rw [abs_of_nonneg hstd_nonneg] at hs; linarith
  have hne : o ≠ [] := by
    rintro rfl
    simp [std, ssd, sqrt_def] at hstd
  have hssd := (std_pos_iff o hne).mp hstd
  have hmo : mean o ≠ 0 := by
    intro h0; rw [h0, abs_zero] at hm; exact hm he
  unfold kge
  simp only [absG_eq_abs, hm, not_lt.mpr hs.le, hs, if_false, if_true, pearson_self o hssd, div_self hmo,
    div_self hstd.ne', sub_self, mul_zero, add_zero, sqrt_def, Real.sqrt_zero, sub_zero]

/-- Pearson correlation of a series with itself is 1; the returned correlation is always within [-1, 1] -/
theorem corr_perfect (eps : ℝ) (o : List ℝ) (hs : ¬ |std o| < eps) (hp : 0 < ssd (mean o) o) :
    corrPearson eps o o = some 1 := by
  simp [corrPearson, absG_eq_abs, hs, pearson_self o hp]

theorem pearson_range (x y : List ℝ) : -1 ≤ pearson x y ∧ pearson x y ≤ 1 := by
  unfold pearson clip1
  simp only
  split
  · norm_num
  · split
    · norm_num
    · constructor <;> linarith [not_lt.mp ‹¬ _ < (-1:ℝ)›, not_lt.mp ‹¬ (1:ℝ) < _›]

theorem std_scale (c : ℝ) (hc : 0 < c) (l : List ℝ) : std (l.map fun x => c * x) = c * std l := by
  unfold std
  rw [mean_mul, ssd_mul, List.length_map, sqrt_def, sqrt_def, mul_div_assoc,
    Real.sqrt_mul (mul_self_nonneg c), Real.sqrt_mul_self hc.le]

theorem pearson_scale (c : ℝ) (hc : 0 < c) (x y : List ℝ) :
    pearson (x.map fun v => c * v) (y.map fun v => c * v) = pearson x y := by
  unfold pearson
  simp only [mean_mul, scd_mul, ssd_mul, List.length_map, sqrt_def]
  congr 1
  have e : ∀ v n : ℝ, Real.sqrt (c * c * v / n) = c * Real.sqrt (v / n) := by
    intro v n
    rw [mul_div_assoc, Real.sqrt_mul (mul_self_nonneg c), Real.sqrt_mul_self hc.le]
  rw [e, e]
  have hc' : c ≠ 0 := hc.ne'
  field_simp

/-- KGE is invariant under a common positive scaling of observations and simulations
(whenever the guards pass before and after) -/
theorem kge_scale (eps c : ℝ) (hc : 0 < c) (o s : List ℝ)
    (hm : ¬ |mean o| < eps) (hm' : ¬ |c * mean o| < eps)
    (hso : ¬ |std o| < eps) (hso' : ¬ |c * std o| < eps)
    (hss : eps < |std s|) (hss' : eps < |c * std s|) :
    kge eps (o.map fun x => c * x) (s.map fun x => c * x) = kge eps o s := by
  unfold kge
  simp only [absG_eq_abs, mean_mul, std_scale c hc, pearson_scale c hc, hm, hm', hso, hso', hss, hss',
    if_false, if_true]
  rw [mul_div_mul_left _ _ hc.ne', mul_div_mul_left _ _ hc.ne']

/-- log-bias is invariant under a common positive scaling -/
theorem biasLog_scale (eps c : ℝ) (hc : 0 < c) (o s : List ℝ)
    (hm : ¬ |mean o| < eps) (hm' : ¬ |c * mean o| < eps)
    (h1 : eps < mean s ∧ eps < mean o) (h2 : eps < c * mean s ∧ eps < c * mean o) (he : 0 < eps) :
    biasLog eps (o.map fun x => c * x) (s.map fun x => c * x) = biasLog eps o s := by
  unfold biasLog
  simp only [absG_eq_abs, mean_mul, hm, hm', h1, h2, and_self, if_false, if_true, log_def]
  congr 1
  rw [Real.log_mul hc.ne' (by linarith [h1.1]), Real.log_mul hc.ne' (by linarith [h1.2])]
  ring



/-! ### Pearson correlation equals the textbook quotient (the clipping of `np.corrcoef` never acts in exact arithmetic) -/

/-- discriminant form of Cauchy-Schwarz on paired lists: the quadratic `Σ ((x-cx) t + (y-cy))²` is non-negative -/
theorem quad_nonneg (cx cy t : ℝ) (x y : List ℝ) (h : x.length = y.length) :
    0 ≤ ssd cx x * (t * t) + 2 * scd cx cy x y * t + ssd cy y := by
  induction x generalizing y with
  | nil => cases y <;> simp [ssd, scd, sumL] at h ⊢
  | cons a x ih =>
    cases y with
    | nil => simp at h
    | cons b y =>
      have := ih y (by simpa using h)
      simp only [ssd, List.map_cons, sumL, scd] at this ⊢
      nlinarith [mul_self_nonneg ((a - cx) * t + (b - cy))]

theorem cauchy_schwarz (cx cy : ℝ) (x y : List ℝ) (h : x.length = y.length) :
    scd cx cy x y * scd cx cy x y ≤ ssd cx x * ssd cy y := by
  rcases (ssd_nonneg cx x).lt_or_eq with hA | hA
  · have := quad_nonneg cx cy (-(scd cx cy x y) / ssd cx x) x y h
    have e : ssd cx x * (-(scd cx cy x y) / ssd cx x * (-(scd cx cy x y) / ssd cx x))
        + 2 * scd cx cy x y * (-(scd cx cy x y) / ssd cx x) + ssd cy y
        = (ssd cx x * ssd cy y - scd cx cy x y * scd cx cy x y) / ssd cx x := by
      field_simp; ring
    rw [e] at this
    have := (div_nonneg_iff.mp this).resolve_right (by intro hh; linarith [hh.2])
    linarith [this.1]
  · -- all deviations of x vanish: the cross sum must vanish too
    have hq : ∀ t : ℝ, 0 ≤ 2 * scd cx cy x y * t + ssd cy y := by
      intro t; have := quad_nonneg cx cy t x y h; rw [← hA] at this; linarith
    have hz : scd cx cy x y = 0 := by
      by_contra hne
      have h1 := hq (-(ssd cy y + 1) / (2 * scd cx cy x y))
      have : 2 * scd cx cy x y * (-(ssd cy y + 1) / (2 * scd cx cy x y)) = -(ssd cy y + 1) := by
        field_simp
      rw [this] at h1; linarith
    rw [hz, ← hA]; simp

/-- `pearson` (numpy's `corrcoef`, with its clipping) is the textbook coefficient
`Σ(x-x̄)(y-ȳ) / (√Σ(x-x̄)² · √Σ(y-ȳ)²)` for every pair of non-constant series of equal length -/
theorem pearson_textbook (x y : List ℝ) (h : x.length = y.length)
    (hx : 0 < ssd (mean x) x) (hy : 0 < ssd (mean y) y) :
    pearson x y = scd (mean x) (mean y) x y / (Real.sqrt (ssd (mean x) x) * Real.sqrt (ssd (mean y) y)) := by
  have hn := two_le_length_of_ssd_pos x hx
  have hn1 : (0:ℝ) < ((x.length - 1 : Nat) : ℝ) := by
    have : 0 < x.length - 1 := by omega
    exact_mod_cast this
  have hn1y : ((y.length - 1 : Nat) : ℝ) = ((x.length - 1 : Nat) : ℝ) := by rw [h]
  set A := ssd (mean x) x
  set B := ssd (mean y) y
  set C := scd (mean x) (mean y) x y
  set n1 := ((x.length - 1 : Nat) : ℝ)
  have hsA : 0 < Real.sqrt A := Real.sqrt_pos.mpr hx
  have hsB : 0 < Real.sqrt B := Real.sqrt_pos.mpr hy
  have hsn : 0 < Real.sqrt n1 := Real.sqrt_pos.mpr hn1
  have e : C / n1 / Real.sqrt (A / n1) / Real.sqrt (B / n1) = C / (Real.sqrt A * Real.sqrt B) := by
    rw [Real.sqrt_div hx.le, Real.sqrt_div hy.le]
    field_simp
    rw [Real.sq_sqrt hn1.le]
  have hcs : C * C ≤ A * B := cauchy_schwarz _ _ x y h
  have hab : |C / (Real.sqrt A * Real.sqrt B)| ≤ 1 := by
    rw [abs_div, abs_of_pos (mul_pos hsA hsB), div_le_one (mul_pos hsA hsB)]
    have h2 : (Real.sqrt A * Real.sqrt B) ^ 2 = A * B := by
      rw [mul_pow, Real.sq_sqrt hx.le, Real.sq_sqrt hy.le]
    exact abs_le_of_sq_le_sq (by rw [h2, sq]; exact hcs) (mul_pos hsA hsB).le
  unfold pearson
  simp only [sqrt_def]
  change clip1 (C / n1 / Real.sqrt (A / n1) / Real.sqrt (B / n1)) = _
  rw [e]
  have := abs_le.mp hab
  unfold clip1
  rw [if_neg (by linarith [this.1]), if_neg (by linarith [this.2])]

/-- the correlation is symmetric in its two series -/
theorem scd_comm (cx cy : ℝ) (x y : List ℝ) : scd cx cy x y = scd cy cx y x := by
  induction x generalizing y with
  | nil => cases y <;> simp [scd]
  | cons a x ih => cases y with
    | nil => simp [scd]
    | cons b y => simp only [scd, ih y]; ring

theorem pearson_comm (x y : List ℝ) (h : x.length = y.length)
    (hx : 0 < ssd (mean x) x) (hy : 0 < ssd (mean y) y) : pearson x y = pearson y x := by
  rw [pearson_textbook x y h hx hy, pearson_textbook y x h.symm hy hx, scd_comm, mul_comm]

/-! ### remaining "perfect simulation" and definition clauses -/

theorem biasLog_perfect (eps : ℝ) (o : List ℝ) (h : ¬ |mean o| < eps) (hp : eps < mean o) :
    biasLog eps o o = some 0 := by
  simp [biasLog, absG_eq_abs, h, hp]

/-- normalised bias is `(s̄ - ō)/(s̄ + ō)` and lies strictly inside (-1, 1) for positive means -/
theorem biasNorm_value (eps : ℝ) (o s : List ℝ) (h : ¬ |mean o| < eps) :
    biasNorm eps o s = some ((mean s - mean o) / (mean s + mean o)) := by
  simp [biasNorm, absG_eq_abs, h]

theorem biasNorm_range (eps : ℝ) (o s : List ℝ) (v : ℝ) (ho : 0 < mean o) (hs : 0 < mean s)
    (h : biasNorm eps o s = some v) : -1 < v ∧ v < 1 := by
  unfold biasNorm at h
  simp only at h
  split at h
  · cases h
  · injection h with h
    subst h
    have : 0 < mean s + mean o := by linarith
    constructor
    · rw [lt_div_iff₀ this]; linarith
    · rw [div_lt_one this]; linarith

/-- KGE is `1 - √((1 - s̄/ō)² + (1 - σs/σo)² + (1 - r)²)` whenever its three guards pass -/
theorem kge_value (eps : ℝ) (o s : List ℝ) (hm : ¬ |mean o| < eps) (hso : ¬ |std o| < eps) (hss : eps < |std s|) :
    kge eps o s = some (1 - Real.sqrt ((1 - mean s / mean o) ^ 2 + (1 - std s / std o) ^ 2 + (1 - pearson o s) ^ 2)) := by
  simp [kge, absG_eq_abs, hm, hso, hss, sqrt_def, sq]

/-- the scores "on the transformed series": for ANY transform `f` (Identity, Log, BoxCox2, Reciprocal, Sinh, ... at any
parameters) a perfect simulation scores NSE 1 and simulating the transformed observed mean scores NSE 0, as long as
the transformed observations are not constant -/
theorem nse_perfect_trans {α : Type} [Field α] [LinearOrder α] [IsStrictOrderedRing α] (f : α → α) (o : List α)
    (h : ssd (mean (o.map f)) (o.map f) ≠ 0) : nse (o.map f) (o.map f) = 1 :=
  nse_perfect _ h


/-! ### ensemble statistic and the `corr` pipeline -/

section ensStat
variable {α : Type} [Field α] [LinearOrder α] [IsStrictOrderedRing α]

theorem insertLE_perm (x : α) (l : List α) : (insertLE x l).Perm (x :: l) := by
  induction l with
  | nil => simp [insertLE]
  | cons y ys ih =>
    simp only [insertLE]
    split
    · exact List.Perm.refl _
    · exact (List.Perm.cons y ih).trans (List.Perm.swap x y ys)

theorem sortL_perm (l : List α) : (sortL l).Perm l := by
  induction l with
  | nil => simp [sortL]
  | cons x xs ih =>
    have : sortL (x :: xs) = insertLE x (sortL xs) := rfl
    rw [this]
    exact (insertLE_perm x _).trans (List.Perm.cons x ih)

theorem insertLE_sorted (x : α) (l : List α) (h : l.Pairwise (· ≤ ·)) : (insertLE x l).Pairwise (· ≤ ·) := by
  induction l with
  | nil => simp [insertLE]
  | cons y ys ih =>
    simp only [insertLE]
    split
    · rename_i hxy
      refine List.Pairwise.cons ?_ h
      intro z hz
      rcases List.mem_cons.mp hz with rfl | hz
      · exact hxy.le
      · exact hxy.le.trans ((List.pairwise_cons.mp h).1 z hz)
    · rename_i hxy
      refine List.Pairwise.cons ?_ (ih (List.pairwise_cons.mp h).2)
      intro z hz
      rcases List.mem_cons.mp ((insertLE_perm x ys).subset hz) with rfl | hz
      · exact not_lt.mp hxy
      · exact (List.pairwise_cons.mp h).1 z hz

theorem sortL_sorted (l : List α) : (sortL l).Pairwise (· ≤ ·) := by
  induction l with
  | nil => simp [sortL]
  | cons x xs ih => exact insertLE_sorted x _ ih

/-- the statistic does not depend on the order of the ensemble members -/
theorem sortL_eq_of_perm (l₁ l₂ : List α) (h : l₁.Perm l₂) : sortL l₁ = sortL l₂ :=
  List.Perm.eq_of_pairwise (l₁ := sortL l₁) (l₂ := sortL l₂) (le := (· ≤ ·))
    (fun _ _ _ _ hab hba => le_antisymm hab hba) (sortL_sorted l₁) (sortL_sorted l₂)
    ((sortL_perm l₁).trans (h.trans (sortL_perm l₂).symm))

theorem median_perm (l₁ l₂ : List α) (h : l₁.Perm l₂) : median l₁ = median l₂ := by
  unfold median
  rw [sortL_eq_of_perm l₁ l₂ h]

/-- the median is one of the values or the mid-point of two of them; in any case it lies between the
smallest and the largest value -/
theorem median_bounds (l : List α) (lo hi : α) (hlo : ∀ x ∈ l, lo ≤ x) (hhi : ∀ x ∈ l, x ≤ hi) (v : α)
    (h : median l = some v) : lo ≤ v ∧ v ≤ hi := by
  have hm : ∀ x ∈ sortL l, x ∈ l := fun x hx => (sortL_perm l).subset hx
  unfold median at h
  simp only at h
  split at h
  · have := List.mem_of_getElem? h
    exact ⟨hlo v (hm v this), hhi v (hm v this)⟩
  · split at h
    · rename_i a b ha hb
      injection h with h
      have ha' := hm a (List.mem_of_getElem? ha)
      have hb' := hm b (List.mem_of_getElem? hb)
      have h2 : (1 + 1 : α) = 2 := by norm_num
      subst h
      rw [h2]
      constructor
      · rw [le_div_iff₀ (by norm_num)]; linarith [hlo a ha', hlo b hb']
      · rw [div_le_iff₀ (by norm_num)]; linarith [hhi a ha', hhi b hb']
    · cases h

/-- a one-member ensemble: both statistics return the member -/
theorem ensStat_single (st : Stat) (x : α) : ensStat st [some x] = some x := by
  cases st <;> simp [ensStat, present, mean, sumL, median, sortL, insertLE]

/-- a forecast whose members are all NaN has statistic NaN -/
theorem ensStat_all_nan (st : Stat) (n : Nat) : ensStat st (List.replicate n (none : Option α)) = none := by
  have : present (List.replicate n (none : Option α)) = [] := by
    induction n with
    | zero => rfl
    | succ n ih => simpa [present, List.replicate_succ] using ih
  simp [ensStat, this]

/-- NaN members are skipped -/
theorem ensStat_skips_nan (st : Stat) (pre post : List (Option α)) :
    ensStat st (pre ++ none :: post) = ensStat st (pre ++ post) := by
  simp [ensStat, present, List.filterMap_append]

theorem ensMean_value (row : List (Option α)) (h : present row ≠ []) :
    ensStat .mean row = some (mean (present row)) := by
  simp [ensStat, h]

/-- `__check_ensemble_data` keeps exactly the forecasts with an observation and at least one member -/
theorem mem_checkEns (obs : List (Option α)) (ens : List (List (Option α))) (p : Option α × List (Option α)) :
    p ∈ checkEns obs ens ↔ p ∈ obs.zip ens ∧ p.1.isSome ∧ present p.2 ≠ [] := by
  simp [checkEns, List.mem_filter, List.isEmpty_iff]

end ensStat

theorem allSomeL_map_some {α : Type} (l : List α) : allSomeL (l.map some) = some l := by
  induction l with
  | nil => rfl
  | cons a t ih => simp [allSomeL, ih]

/-- `corr` of a perfect one-member "ensemble" is 1 for every transform, both statistics, with or without the
null filter (complete data), Pearson type -/
theorem corrFull_perfect (fin : ℝ → Bool) (hfin : ∀ x, fin x = true) (eps : ℝ) (st : Stat) (excl : Bool)
    (o : List ℝ) (hs : ¬ |std o| < eps) (hp : 0 < ssd (mean o) o) :
    corrFull fin eps false st excl (o.map some) (o.map fun x => [some x]) = .value 1 := by
  have hne : o ≠ [] := by rintro rfl; simp [ssd, sumL] at hp
  have hsim : (o.map fun x => [some x]).map (ensStat st) = o.map some := by
    simp [List.map_map, Function.comp_def, ensStat_single]
  unfold corrFull
  simp only [hsim]
  cases excl with
  | false =>
    simp [allSomeL_map_some, corr_perfect eps o hs hp]
  | true =>
    have hfo : (o.map some).map (fun x : Option ℝ => x.bind fun v => if fin v then some v else none) = o.map some := by
      simp [List.map_map, Function.comp_def, hfin]
    simp only [hfo, if_true]
    rw [nonull_complete o o rfl]
    simp [hne, corr_perfect eps o hs hp]

/-! ### Spearman correlation: depends on the data only through their order -/

theorem ranks_map_strictMono (f : ℝ → ℝ) (hf : StrictMono f) (l : List ℝ) :
    ranks (l.map f) = ranks l := by
  unfold ranks
  rw [List.map_map]
  apply List.map_congr_left
  intro x _
  unfold avgRank
  simp only [Function.comp_def, List.filter_map, List.length_map, hf.lt_iff_lt]

/-- Spearman correlation is unchanged by strictly increasing re-scalings of either series -/
theorem spearman_monotone_invariant (f g : ℝ → ℝ) (hf : StrictMono f) (hg : StrictMono g) (o s : List ℝ) :
    pearson (ranks (o.map f)) (ranks (s.map g)) = pearson (ranks o) (ranks s) := by
  rw [ranks_map_strictMono f hf, ranks_map_strictMono g hg]

/-- a perfect simulation has Spearman correlation 1 (ranks not all equal) -/
theorem spearman_perfect (eps : ℝ) (o : List ℝ) (hs : ¬ |std o| < eps)
    (hr : 0 < ssd (mean (ranks o)) (ranks o)) : corrSpearman eps o o = some 1 := by
  simp [corrSpearman, absG_eq_abs, hs, pearson_self (ranks o) hr]

/-! ### confusion matrix -/

/-- the labels of the returned table are `0 .. ncat-1` on both axes whenever every category is `< ncat`
(also when the cross-tabulation already had the requested shape and is returned as it is) -/
theorem confusion_labels (obs sim : List Int) (ncat : Nat)
    (ho : ∀ x ∈ obs, 0 ≤ x ∧ x < ncat) (hs : ∀ x ∈ sim, 0 ≤ x ∧ x < ncat) :
    (confusion obs sim ncat).1 = (List.range ncat).map Int.ofNat ∧
    (confusion obs sim ncat).2.1 = (List.range ncat).map Int.ofNat := by
  unfold confusion
  simp only
  split
  · rename_i h
    have e1 := sorted_full_eq_range (uniqueSorted obs) 0 (uniqueSorted_sorted obs)
      (fun x hx => by have := ho x ((uniqueSorted_mem obs x).mp hx); rw [h.1]; omega)
    have e2 := sorted_full_eq_range (uniqueSorted sim) 0 (uniqueSorted_sorted sim)
      (fun x hx => by have := hs x ((uniqueSorted_mem sim x).mp hx); rw [h.2]; omega)
    rw [h.1] at e1; rw [h.2] at e2
    constructor
    · rw [e1]; apply List.map_congr_left; intro i _; simp
    · rw [e2]; apply List.map_congr_left; intro i _; simp
  · exact ⟨rfl, rfl⟩

/-- every cell holds the number of (observed, forecast) pairs of its row and column categories -/
theorem confusion_cells (obs sim : List Int) (ncat : Nat) :
    (confusion obs sim ncat).2.2 =
      (confusion obs sim ncat).1.map fun i => (confusion obs sim ncat).2.1.map fun j => count obs sim i j := by
  unfold confusion
  simp only

/-- every pair is counted exactly once: the cells add up to the number of pairs -/
theorem confusion_total (obs sim : List Int) (ncat : Nat) (hl : obs.length = sim.length)
    (ho : ∀ x ∈ obs, 0 ≤ x ∧ x < ncat) (hs : ∀ x ∈ sim, 0 ≤ x ∧ x < ncat) :
    tableTotal (confusion obs sim ncat).2.2 = obs.length := by
  rw [confusion_cells, (confusion_labels obs sim ncat ho hs).1, (confusion_labels obs sim ncat ho hs).2]
  rw [total_count ncat obs sim]
  · simp [List.length_zip, hl]
  · intro p hp
    exact ⟨ho _ (List.of_mem_zip hp).1, hs _ (List.of_mem_zip hp).2⟩

/-- with `ncat` inferred, every label present fits in the table -/
theorem inferNcat_covers (obs sim : List Int) (h : ∀ x ∈ obs ++ sim, 0 ≤ x) :
    ∀ x ∈ obs ++ sim, 0 ≤ x ∧ x < inferNcat obs sim := by
  intro x hx
  refine ⟨h x hx, ?_⟩
  unfold inferNcat
  have hmem := (uniqueSorted_mem (obs ++ sim) x).mpr hx
  have hsorted := uniqueSorted_sorted (obs ++ sim)
  generalize uniqueSorted (obs ++ sim) = l at hmem hsorted
  cases hl : l.getLast? with
  | none => rw [List.getLast?_eq_none_iff] at hl; subst hl; simp at hmem
  | some m =>
    simp only [hl]
    have hm : m ∈ l := List.mem_of_getLast? hl
    have hle : x ≤ m := by
      obtain ⟨l', rfl⟩ : ∃ l', l = l' ++ [m] := by
        rcases List.getLast?_eq_some_iff.mp hl with ⟨l', h'⟩; exact ⟨l', h'⟩
      rw [List.pairwise_append] at hsorted
      rcases List.mem_append.mp hmem with h1 | h1
      · exact (hsorted.2.2 x h1 m (by simp)).le
      · simp at h1; omega
    have : 0 ≤ m := le_trans (h x hx) hle
    omega

/-! ### binary scores (2x2 table with four positive counts) -/

section binaryScores
variable {α : Type} [Field α] [LinearOrder α] [IsStrictOrderedRing α]
variable (tn fp fn tp : α)

/-- the odds ratio is the cross-product ratio `TP·TN / (FP·FN)` -/
theorem binary_theta (h1 : 0 < tn) (h2 : 0 < fp) (h3 : 0 < fn) (h4 : 0 < tp) :
    (binary tn fp fn tp).theta = tp * tn / (fp * fn) := by
  simp only [binary]
  have hA : tp + fn ≠ 0 := by positivity
  have hB : tn + fp ≠ 0 := by positivity
  have e1 : 1 - fp / (tn + fp) = tn / (tn + fp) := by field_simp; ring
  have e2 : 1 - tp / (tp + fn) = fn / (tp + fn) := by field_simp; ring
  rw [e1, e2]
  have : fn ≠ 0 := h3.ne'
  have : fp ≠ 0 := h2.ne'
  field_simp

/-- ORSS is defined for every positive table (odds ratio below, at or above 1) and equals
`(θ-1)/(θ+1) = (TP·TN − FP·FN)/(TP·TN + FP·FN)` -/
theorem binary_orss (h1 : 0 < tn) (h2 : 0 < fp) (h3 : 0 < fn) (h4 : 0 < tp) :
    (binary tn fp fn tp).orss = some ((tp * tn - fp * fn) / (tp * tn + fp * fn)) := by
  have ht := binary_theta tn fp fn tp h1 h2 h3 h4
  have hpos : 0 < tp * tn / (fp * fn) := by positivity
  simp only [binary] at ht ⊢
  rw [ht, if_pos (by linarith)]
  congr 1
  have : fp * fn ≠ 0 := by positivity
  have : tp * tn + fp * fn ≠ 0 := by positivity
  field_simp

/-- the log odds ratio is defined for every positive table -/
theorem binary_lor_defined (h1 : 0 < tn) (h2 : 0 < fp) (h3 : 0 < fn) (h4 : 0 < tp) :
    (binary tn fp fn tp).lorDefined = true := by
  simp only [binary, Bool.and_eq_true, decide_eq_true_eq]
  have a : 0 < tp + fn := by positivity
  have b : 0 < tn + fp := by positivity
  refine ⟨⟨⟨by positivity, ?_⟩, by positivity⟩, ?_⟩
  · rw [div_lt_one a]; linarith
  · rw [div_lt_one b]; linarith

/-- contingency-table definitions of the rates -/
theorem binary_rates :
    (binary tn fp fn tp).hitrate = tp / (tp + fn) ∧
    (binary tn fp fn tp).falsealarm = fp / (tn + fp) ∧
    (binary tn fp fn tp).precision = tp / (tp + fp) ∧
    (binary tn fp fn tp).accuracy = (tp + tn) / (tp + fn + (tn + fp)) ∧
    (binary tn fp fn tp).bias = (tp + fp) / (tp + fn) := ⟨rfl, rfl, rfl, rfl, rfl⟩

/-- F1 is the harmonic mean of hit rate and precision -/
theorem binary_f1_harmonic (h2 : 0 < fp) (h3 : 0 < fn) (h4 : 0 < tp) :
    (binary tn fp fn tp).f1 =
      2 * (binary tn fp fn tp).hitrate * (binary tn fp fn tp).precision /
        ((binary tn fp fn tp).hitrate + (binary tn fp fn tp).precision) := by
  simp only [binary]
  have : tp + fn ≠ 0 := by positivity
  have : tp + fp ≠ 0 := by positivity
  have : 2 * tp + fp + fn ≠ 0 := by positivity
  have : tp * (tp + fp) + tp * (tp + fn) ≠ 0 := by positivity
  field_simp
  ring

/-- rates are proportions; accuracy lies in [0, 1] -/
theorem binary_accuracy_range (h1 : 0 < tn) (h2 : 0 < fp) (h3 : 0 < fn) (h4 : 0 < tp) :
    0 < (binary tn fp fn tp).accuracy ∧ (binary tn fp fn tp).accuracy < 1 := by
  simp only [binary]
  have : 0 < tp + fn + (tn + fp) := by positivity
  constructor
  · positivity
  · rw [div_lt_one this]; linarith

/-- the Matthews correlation `mccNum / sqrt mccDen2` lies in [-1, 1]: `mccNum² ≤ mccDen2` -/
theorem binary_mcc_range (h1 : 0 ≤ tn) (h2 : 0 ≤ fp) (h3 : 0 ≤ fn) (h4 : 0 ≤ tp) :
    (binary tn fp fn tp).mccNum * (binary tn fp fn tp).mccNum ≤ (binary tn fp fn tp).mccDen2 := by
  simp only [binary]
  have e : (tp + fp) * (tp + fn) * (tn + fp) * (tn + fn) - (tp * tn - fp * fn) * (tp * tn - fp * fn)
      = 4 * (tp * fp) * (fn * tn) + (tp * fp) * (fn * fn) + (tp * fp) * (tn * tn) + (tp * fn) * (fp * fp)
        + (tp * tn) * (fp * fp) + (tp * fn) * (tn * tn) + (tp * tn) * (fn * fn) + (tp * tp) * (fp * fn)
        + (tp * tp) * (fp * tn) + (tp * tp) * (fn * tn) + (fp * fn) * (tn * tn) + (fp * tn) * (fn * fn)
        + (fp * fp) * (fn * tn) := by ring
  have : 0 ≤ 4 * (tp * fp) * (fn * tn) + (tp * fp) * (fn * fn) + (tp * fp) * (tn * tn) + (tp * fn) * (fp * fp)
        + (tp * tn) * (fp * fp) + (tp * fn) * (tn * tn) + (tp * tn) * (fn * fn) + (tp * tp) * (fp * fn)
        + (tp * tp) * (fp * tn) + (tp * tp) * (fn * tn) + (fp * fn) * (tn * tn) + (fp * tn) * (fn * fn)
        + (fp * fp) * (fn * tn) := by positivity
  linarith

end binaryScores

/-! ### non-vacuity / sample evaluations -/

example : nse [(1:ℚ), 2, 4, 7] [1, 2, 4, 5] = 17/21 := by decide +kernel
example : ssd (mean [(1:ℚ), 2, 4, 7]) [1, 2, 4, 7] ≠ 0 := by decide +kernel
example : (confusion [0, 2, 2, 0] [0, 0, 0, 0] (inferNcat [0, 2, 2, 0] [0, 0, 0, 0])).2.2
    = [[2, 0, 0], [0, 0, 0], [2, 0, 0]] := by decide
example : ranks [(3:ℚ), 1, 3, 2] = [7/2, 1, 7/2, 2] := by decide +kernel
example : (binary (5:ℚ) 2 3 7).orss = some (29/41) := by decide +kernel
example : (binary (2:ℚ) 5 7 3).orss = some (-29/41) := by decide +kernel

end HydroVerif.C04
