/-
C04 — property theorems. Model: `HydroVerif/Model/C04.lean`; helper lemmas: `Lemmas/C04.lean`, `Lemmas/C04Conf.lean`,
`Lemmas/C04Full.lean` (null filter = removal, histories, error paths), `Lemmas/C04Rnd.lean` (rounded carrier).
`o` = (transformed) observations, `s` = (transformed) simulations. The whole functions (`biasFull`, `nseFull`, `kgeFull`,
`corrRaw`, `binaryOf`, `binarySeries`) take the RAW arguments and the transform as a function `f` (`trans.forward` on one value);
the driver runs them with the transform model of C01/C02 as `f`, so the composition with the transform, the argument checks,
the null filter, the guards and the error kinds are inside the model. Every theorem is stated for an arbitrary `f`, hence
for Identity, Log, BoxCox2, Reciprocal, Sinh at any parameters.

Clause of the property                                   | theorems                                                       | outside the theorems
---------------------------------------------------------|----------------------------------------------------------------|---------------------
scores equal their textbook definitions on the transformed series | nse (definition), nseFull_complete, biasStd_value, biasNorm_value, kge_value, kge_textbook + corrPearson_textbook (non-degeneracy discharged from the guards: ssd_pos_of_std_guard), pearson_textbook (clipping of corrcoef never acts: cauchy_schwarz), pearson_comm, ranks / corrSpearman (definition) | numpy pairwise sums vs sequential sums (condition-scaled tolerance); exp/log/pow/asinh of the transforms (C01/C02)
perfect simulation: bias 0, NSE 1, KGE 1, corr 1          | biasStd_perfect, biasNorm_perfect, biasLog_perfect, nse_perfect, nse_perfect_trans, kge_perfect, pearson_self, corr_perfect, spearman_perfect, corrFull_perfect, corrRaw_perfect; exactly so in floating point: nse_perfect_rnd, bias_perfect_rnd; strictness of the guard: kge_perfect_boundary | -
simulating the observed mean scores NSE 0                | nse_mean_sim                                                   | -
NSE and KGE never exceed 1                               | nse_le_one, kge_le_one (pearson_range); in floating point: nse_le_one_rnd, kge_le_one_rnd, pearson_range_rnd | -
NSE invariant under a common affine map                  | nse_affine                                                     | -
bias and KGE invariant under positive scaling            | biasStd_scale, biasNorm_scale, biasLog_scale, kge_scale (std_scale, pearson_scale); the guard hypothesis after scaling is needed: biasStd_scale_needs_guard | -
excludenull = score of the series with incomplete pairs removed | biasFull_excl, nseFull_excl, kgeFull_excl, corrSeries_excl (prep_excl_eq_removed), full_excl_noValid, nonull_spec, nonull_complete, mem_checkEns | np.isfinite / pd.notnull / np.isnan (driver: Float.isFinite / isNaN)
argument checks and error kinds                           | full_shape_error, corrRaw_shape_error, corrRaw_censored, corrRaw_orient, orient_idem, orient_square, orient_of_length_ne_one | the wording of the messages
ensemble statistic mean / median                         | ensStat_single, ensStat_skips_nan, ensStat_all_nan, ensMean_value, median_perm, median_bounds, sortL_perm, sortL_sorted | np.nanmean / np.nanmedian (compared per row)
Spearman depends on the data through their order only    | ranks_map_strictMono, spearman_monotone_invariant              | scipy.stats.spearmanr (compared by result)
confusion matrix: every pair once, requested size        | confusion_labels, confusion_cells, confusion_total, inferNcat_covers; labels ≥ ncat are dropped: confusion_total_needs_range; a returned table is a value whatever is computed or edited afterwards: held_table_is_value, hstep_edit_out_of_range, hrun_length (over arbitrary operation lists) | pandas.crosstab (compared by result)
binary scores equal contingency-table definitions        | binary_rates, binary_f1_harmonic, binary_theta, binary_orss, binary_lor_defined, binary_accuracy_range, binary_mcc_range; never rejected on positive tables / rejected exactly when FN = 0 or FP = 0: binaryOf_pos, binaryOf_zeroDiv_iff; from two 0/1 series: binarySeries_eq; in floating point: binary_rates_range_rnd, binary_orss_range_rnd | sqrt / log of the driver's Float
biasNorm in [-1, 1]                                       | biasNorm_range, biasNorm_range_rnd                             | -
signs (which way a score points)                         | binary_skill_sign, biasStd_sign, biasStd_sign_rnd              | -
-/
import HydroVerif.Lemmas.C04
import HydroVerif.Lemmas.C04Conf
import HydroVerif.Lemmas.C04Full
import HydroVerif.Lemmas.C04Rnd
import Mathlib.Analysis.SpecialFunctions.Pow.Real
import Mathlib.Analysis.SpecialFunctions.Log.Basic

namespace HydroVerif.C04

section field
variable {α : Type} [Field α] [LinearOrder α] [IsStrictOrderedRing α]

/-! ### NSE -/

/-- a perfect simulation scores NSE 1 (observations not constant) -/
theorem nse_perfect (o : List α) (_h : ssd (mean o) o ≠ 0) : nse o o = 1 := by
  simp [nse, sse_self]

/-- simulating the observed mean scores NSE 0 -/
theorem nse_mean_sim (o : List α) (h : ssd (mean o) o ≠ 0) :
    nse o (List.replicate o.length (mean o)) = 0 := by
  unfold nse
  rw [sse_const_eq_ssd, div_self h]
  ring

/-- NSE never exceeds 1 -/
theorem nse_le_one (o s : List α) (h : 0 < ssd (mean o) o) : nse o s ≤ 1 := by
  unfold nse
  have := div_nonneg (sse_nonneg o s) h.le
  linarith

/-- NSE is invariant under a common affine map `x ↦ a x + b`, `a ≠ 0` -/
theorem nse_affine (a b : α) (ha : a ≠ 0) (o s : List α) (ho : o ≠ []) :
    nse (o.map fun x => a * x + b) (s.map fun x => a * x + b) = nse o s := by
  unfold nse
  rw [mean_affine a b o ho, sse_affine, ssd_affine]
  have haa : a * a ≠ 0 := mul_ne_zero ha ha
  rw [mul_div_mul_left _ _ haa]

/-! ### bias -/

/-- a perfect simulation has bias 0 (standard and normalised), whenever the observed mean is not degenerate -/
theorem biasStd_perfect (eps : α) (o : List α) (h : ¬ |mean o| < eps) : biasStd eps o o = some 0 := by
  simp [biasStd, absG_eq_abs, h]

theorem biasNorm_perfect (eps : α) (o : List α) (h : ¬ |mean o| < eps) : biasNorm eps o o = some 0 := by
  simp [biasNorm, absG_eq_abs, h]

/-- the standard bias is `mean s / mean o - 1` -/
theorem biasStd_value (eps : α) (o s : List α) (h : ¬ |mean o| < eps) (hm : mean o ≠ 0) :
    biasStd eps o s = some (mean s / mean o - 1) := by
  simp only [biasStd, absG_eq_abs, h, if_false]
  congr 1
  field_simp

/-- bias is invariant under a common positive scaling (both guards passing) -/
theorem biasStd_scale (eps c : α) (hc : 0 < c) (o s : List α)
    (h : ¬ |mean o| < eps) (h' : ¬ |c * mean o| < eps) :
    biasStd eps (o.map fun x => c * x) (s.map fun x => c * x) = biasStd eps o s := by
  simp only [biasStd, absG_eq_abs, mean_mul, h, h', if_false]
  congr 1
  rw [← mul_sub, mul_div_mul_left _ _ hc.ne']

theorem biasNorm_scale (eps c : α) (hc : 0 < c) (o s : List α)
    (h : ¬ |mean o| < eps) (h' : ¬ |c * mean o| < eps) :
    biasNorm eps (o.map fun x => c * x) (s.map fun x => c * x) = biasNorm eps o s := by
  simp only [biasNorm, absG_eq_abs, mean_mul, h, h', if_false]
  congr 1
  rw [← mul_sub, ← mul_add, mul_div_mul_left _ _ hc.ne']

/-! ### excludenull -/

/-- `__nonulldata` keeps exactly the pairs in which both entries are present, in order -/
theorem nonull_spec (o s : List (Option α)) :
    nonull o s = ((o.zip s).filterMap fun p => match p with
      | (some a, some b) => some (a, b)
      | _ => none).unzip := by
  induction o generalizing s with
  | nil => cases s <;> simp [nonull]
  | cons a as ih =>
    cases s with
    | nil => cases a <;> simp [nonull]
    | cons b bs =>
      cases a <;> cases b <;> simp [nonull, ih]

/-- without missing entries the filter is the identity: `excludenull=True` changes nothing -/
theorem nonull_complete (o s : List α) (h : o.length = s.length) :
    nonull (o.map some) (s.map some) = (o, s) := by
  induction o generalizing s with
  | nil => cases s <;> simp_all [nonull]
  | cons a as ih =>
    cases s with
    | nil => simp at h
    | cons b bs =>
      simp only [List.length_cons, Nat.add_right_cancel_iff] at h
      simp [nonull, ih bs h]

end field

/-! ### KGE and correlation (over ℝ) -/

noncomputable instance : Transc ℝ where
  exp := Real.exp
  log := Real.log
  sqrt := Real.sqrt
  sinh := Real.sinh
  cosh := Real.cosh
  tanh := Real.tanh
  asinh := Real.log ∘ fun x => x + Real.sqrt (x * x + 1)
  pow := fun x y => x ^ y

theorem sqrt_def (x : ℝ) : Transc.sqrt x = Real.sqrt x := rfl
theorem log_def (x : ℝ) : Transc.log x = Real.log x := rfl

/-- KGE never exceeds 1 -/
theorem kge_le_one (eps : ℝ) (o s : List ℝ) (v : ℝ) (h : kge eps o s = some v) : v ≤ 1 := by
  unfold kge at h
  simp only at h
  split at h
  · cases h
  · split at h
    · cases h
    · split at h
      · injection h with h
        rw [← h, sqrt_def]
        have := Real.sqrt_nonneg
          ((1 - mean s / mean o) * (1 - mean s / mean o) + (1 - std s / std o) * (1 - std s / std o)
            + (1 - pearson o s) * (1 - pearson o s))
        linarith
      · cases h

theorem pearson_self (o : List ℝ) (h : 0 < ssd (mean o) o) : pearson o o = 1 := by
  have hn := two_le_length_of_ssd_pos o h
  have hn1 : (0:ℝ) < ((o.length - 1 : Nat) : ℝ) := by
    have : 0 < o.length - 1 := by omega
    exact_mod_cast this
  unfold pearson
  simp only [scd_self, sqrt_def]
  have hq : 0 < ssd (mean o) o / ((o.length - 1 : Nat) : ℝ) := div_pos h hn1
  have hs : 0 < Real.sqrt (ssd (mean o) o / ((o.length - 1 : Nat) : ℝ)) := Real.sqrt_pos.mpr hq
  have : ssd (mean o) o / ((o.length - 1 : Nat) : ℝ) / Real.sqrt (ssd (mean o) o / ((o.length - 1 : Nat) : ℝ))
      / Real.sqrt (ssd (mean o) o / ((o.length - 1 : Nat) : ℝ)) = 1 := by
    rw [div_div, Real.mul_self_sqrt hq.le, div_self hq.ne']
  rw [this]
  unfold clip1
  norm_num

theorem std_pos_iff (o : List ℝ) (h : o ≠ []) : 0 < std o ↔ 0 < ssd (mean o) o := by
  unfold std
  rw [sqrt_def, Real.sqrt_pos]
  have : (0:ℝ) < (o.length : ℝ) := by
    have : 0 < o.length := List.length_pos_iff.mpr h
    exact_mod_cast this
  constructor
  · intro hq
    by_contra hc
    have : ssd (mean o) o = 0 := le_antisymm (not_lt.mp hc) (ssd_nonneg _ _)
    rw [this, zero_div] at hq
    exact lt_irrefl _ hq
  · intro hp; exact div_pos hp this

/-- a perfect simulation scores KGE 1 whenever the guards pass (observed mean and standard deviation
not within `eps` of zero) -/
theorem kge_perfect (eps : ℝ) (he : 0 < eps) (o : List ℝ)
    (hm : ¬ |mean o| < eps) (hs : eps < |std o|) : kge eps o o = some 1 := by
  have hstd_nonneg : 0 ≤ std o := by unfold std; rw [sqrt_def]; exact Real.sqrt_nonneg _
  have hstd : 0 < std o := by
    rw [abs_of_nonneg hstd_nonneg] at hs; linarith
  have hne : o ≠ [] := by
    rintro rfl
    simp [std, ssd, sqrt_def] at hstd
  have hssd := (std_pos_iff o hne).mp hstd
  have hmo : mean o ≠ 0 := by
    intro h0; rw [h0, abs_zero] at hm; exact hm he
  unfold kge
  simp only [absG_eq_abs, hm, not_lt.mpr hs.le, hs, if_false, if_true, pearson_self o hssd, div_self hmo,
    div_self hstd.ne', sub_self, mul_zero, add_zero, sqrt_def, Real.sqrt_zero, sub_zero]

/-- Pearson correlation of a series with itself is 1; the returned correlation is always within [-1, 1] -/
theorem corr_perfect (eps : ℝ) (o : List ℝ) (hs : ¬ |std o| < eps) (hp : 0 < ssd (mean o) o) :
    corrPearson eps o o = some 1 := by
  simp [corrPearson, absG_eq_abs, hs, pearson_self o hp]

theorem pearson_range (x y : List ℝ) : -1 ≤ pearson x y ∧ pearson x y ≤ 1 := by
  unfold pearson clip1
  simp only
  split
  · norm_num
  · split
    · norm_num
    · constructor <;> linarith [not_lt.mp ‹¬ _ < (-1:ℝ)›, not_lt.mp ‹¬ (1:ℝ) < _›]

theorem std_scale (c : ℝ) (hc : 0 < c) (l : List ℝ) : std (l.map fun x => c * x) = c * std l := by
  unfold std
  rw [mean_mul, ssd_mul, List.length_map, sqrt_def, sqrt_def, mul_div_assoc,
    Real.sqrt_mul (mul_self_nonneg c), Real.sqrt_mul_self hc.le]

theorem pearson_scale (c : ℝ) (hc : 0 < c) (x y : List ℝ) :
    pearson (x.map fun v => c * v) (y.map fun v => c * v) = pearson x y := by
  unfold pearson
  simp only [mean_mul, scd_mul, ssd_mul, List.length_map, sqrt_def]
  congr 1
  have e : ∀ v n : ℝ, Real.sqrt (c * c * v / n) = c * Real.sqrt (v / n) := by
    intro v n
    rw [mul_div_assoc, Real.sqrt_mul (mul_self_nonneg c), Real.sqrt_mul_self hc.le]
  rw [e, e]
  have hc' : c ≠ 0 := hc.ne'
  field_simp

/-- KGE is invariant under a common positive scaling of observations and simulations
(whenever the guards pass before and after) -/
theorem kge_scale (eps c : ℝ) (hc : 0 < c) (o s : List ℝ)
    (hm : ¬ |mean o| < eps) (hm' : ¬ |c * mean o| < eps)
    (hso : ¬ |std o| < eps) (hso' : ¬ |c * std o| < eps)
    (hss : eps < |std s|) (hss' : eps < |c * std s|) :
    kge eps (o.map fun x => c * x) (s.map fun x => c * x) = kge eps o s := by
  unfold kge
  simp only [absG_eq_abs, mean_mul, std_scale c hc, pearson_scale c hc, hm, hm', hso, hso', hss, hss',
    if_false, if_true]
  rw [mul_div_mul_left _ _ hc.ne', mul_div_mul_left _ _ hc.ne']

/-- log-bias is invariant under a common positive scaling -/
theorem biasLog_scale (eps c : ℝ) (hc : 0 < c) (o s : List ℝ)
    (hm : ¬ |mean o| < eps) (hm' : ¬ |c * mean o| < eps)
    (h1 : eps < mean s ∧ eps < mean o) (h2 : eps < c * mean s ∧ eps < c * mean o) (he : 0 < eps) :
    biasLog eps (o.map fun x => c * x) (s.map fun x => c * x) = biasLog eps o s := by
  unfold biasLog
  simp only [absG_eq_abs, mean_mul, hm, hm', h1, h2, and_self, if_false, if_true, log_def]
  congr 1
  rw [Real.log_mul hc.ne' (by linarith [h1.1]), Real.log_mul hc.ne' (by linarith [h1.2])]
  ring



/-! ### Pearson correlation equals the textbook quotient (the clipping of `np.corrcoef` never acts in exact arithmetic) -/

/-- discriminant form of Cauchy-Schwarz on paired lists: the quadratic `Σ ((x-cx) t + (y-cy))²` is non-negative -/
theorem quad_nonneg (cx cy t : ℝ) (x y : List ℝ) (h : x.length = y.length) :
    0 ≤ ssd cx x * (t * t) + 2 * scd cx cy x y * t + ssd cy y := by
  induction x generalizing y with
  | nil => cases y <;> simp [ssd, scd, sumL] at h ⊢
  | cons a x ih =>
    cases y with
    | nil => simp at h
    | cons b y =>
      have := ih y (by simpa using h)
      simp only [ssd, List.map_cons, sumL, scd] at this ⊢
      nlinarith [mul_self_nonneg ((a - cx) * t + (b - cy))]

theorem cauchy_schwarz (cx cy : ℝ) (x y : List ℝ) (h : x.length = y.length) :
    scd cx cy x y * scd cx cy x y ≤ ssd cx x * ssd cy y := by
  rcases (ssd_nonneg cx x).lt_or_eq with hA | hA
  · have := quad_nonneg cx cy (-(scd cx cy x y) / ssd cx x) x y h
    have e : ssd cx x * (-(scd cx cy x y) / ssd cx x * (-(scd cx cy x y) / ssd cx x))
        + 2 * scd cx cy x y * (-(scd cx cy x y) / ssd cx x) + ssd cy y
        = (ssd cx x * ssd cy y - scd cx cy x y * scd cx cy x y) / ssd cx x := by
      field_simp; ring
    rw [e] at this
    have := (div_nonneg_iff.mp this).resolve_right (by intro hh; linarith [hh.2])
    linarith [this.1]
  · -- all deviations of x vanish: the cross sum must vanish too
    have hq : ∀ t : ℝ, 0 ≤ 2 * scd cx cy x y * t + ssd cy y := by
      intro t; have := quad_nonneg cx cy t x y h; rw [← hA] at this; linarith
    have hz : scd cx cy x y = 0 := by
      by_contra hne
      have h1 := hq (-(ssd cy y + 1) / (2 * scd cx cy x y))
      have : 2 * scd cx cy x y * (-(ssd cy y + 1) / (2 * scd cx cy x y)) = -(ssd cy y + 1) := by
        field_simp
      rw [this] at h1; linarith
    rw [hz, ← hA]; simp

/-- `pearson` (numpy's `corrcoef`, with its clipping) is the textbook coefficient
`Σ(x-x̄)(y-ȳ) / (√Σ(x-x̄)² · √Σ(y-ȳ)²)` for every pair of non-constant series of equal length -/
theorem pearson_textbook (x y : List ℝ) (h : x.length = y.length)
    (hx : 0 < ssd (mean x) x) (hy : 0 < ssd (mean y) y) :
    pearson x y = scd (mean x) (mean y) x y / (Real.sqrt (ssd (mean x) x) * Real.sqrt (ssd (mean y) y)) := by
  have hn := two_le_length_of_ssd_pos x hx
  have hn1 : (0:ℝ) < ((x.length - 1 : Nat) : ℝ) := by
    have : 0 < x.length - 1 := by omega
    exact_mod_cast this
  have hn1y : ((y.length - 1 : Nat) : ℝ) = ((x.length - 1 : Nat) : ℝ) := by rw [h]
  set A := ssd (mean x) x
  set B := ssd (mean y) y
  set C := scd (mean x) (mean y) x y
  set n1 := ((x.length - 1 : Nat) : ℝ)
  have hsA : 0 < Real.sqrt A := Real.sqrt_pos.mpr hx
  have hsB : 0 < Real.sqrt B := Real.sqrt_pos.mpr hy
  have hsn : 0 < Real.sqrt n1 := Real.sqrt_pos.mpr hn1
  have e : C / n1 / Real.sqrt (A / n1) / Real.sqrt (B / n1) = C / (Real.sqrt A * Real.sqrt B) := by
    rw [Real.sqrt_div hx.le, Real.sqrt_div hy.le]
    field_simp
    rw [Real.sq_sqrt hn1.le]
  have hcs : C * C ≤ A * B := cauchy_schwarz _ _ x y h
  have hab : |C / (Real.sqrt A * Real.sqrt B)| ≤ 1 := by
    rw [abs_div, abs_of_pos (mul_pos hsA hsB), div_le_one (mul_pos hsA hsB)]
    have h2 : (Real.sqrt A * Real.sqrt B) ^ 2 = A * B := by
      rw [mul_pow, Real.sq_sqrt hx.le, Real.sq_sqrt hy.le]
    exact abs_le_of_sq_le_sq (by rw [h2, sq]; exact hcs) (mul_pos hsA hsB).le
  unfold pearson
  simp only [sqrt_def]
  change clip1 (C / n1 / Real.sqrt (A / n1) / Real.sqrt (B / n1)) = _
  rw [e]
  have := abs_le.mp hab
  unfold clip1
  rw [if_neg (by linarith [this.1]), if_neg (by linarith [this.2])]

/-- the correlation is symmetric in its two series -/
theorem scd_comm (cx cy : ℝ) (x y : List ℝ) : scd cx cy x y = scd cy cx y x := by
  induction x generalizing y with
  | nil => cases y <;> simp [scd]
  | cons a x ih => cases y with
    | nil => simp [scd]
    | cons b y => simp only [scd, ih y]; ring

theorem pearson_comm (x y : List ℝ) (h : x.length = y.length)
    (hx : 0 < ssd (mean x) x) (hy : 0 < ssd (mean y) y) : pearson x y = pearson y x := by
  rw [pearson_textbook x y h hx hy, pearson_textbook y x h.symm hy hx, scd_comm, mul_comm]

/-! ### remaining "perfect simulation" and definition clauses -/

theorem biasLog_perfect (eps : ℝ) (o : List ℝ) (h : ¬ |mean o| < eps) (hp : eps < mean o) :
    biasLog eps o o = some 0 := by
  simp [biasLog, absG_eq_abs, h, hp]

/-- normalised bias is `(s̄ - ō)/(s̄ + ō)` and lies strictly inside (-1, 1) for positive means -/
theorem biasNorm_value (eps : ℝ) (o s : List ℝ) (h : ¬ |mean o| < eps) :
    biasNorm eps o s = some ((mean s - mean o) / (mean s + mean o)) := by
  simp [biasNorm, absG_eq_abs, h]

theorem biasNorm_range (eps : ℝ) (o s : List ℝ) (v : ℝ) (ho : 0 < mean o) (hs : 0 < mean s)
    (h : biasNorm eps o s = some v) : -1 < v ∧ v < 1 := by
  unfold biasNorm at h
  simp only at h
  split at h
  · cases h
  · injection h with h
    subst h
    have : 0 < mean s + mean o := by linarith
    constructor
    · rw [lt_div_iff₀ this]; linarith
    · rw [div_lt_one this]; linarith

/-- KGE is `1 - √((1 - s̄/ō)² + (1 - σs/σo)² + (1 - r)²)` whenever its three guards pass -/
theorem kge_value (eps : ℝ) (o s : List ℝ) (hm : ¬ |mean o| < eps) (hso : ¬ |std o| < eps) (hss : eps < |std s|) :
    kge eps o s = some (1 - Real.sqrt ((1 - mean s / mean o) ^ 2 + (1 - std s / std o) ^ 2 + (1 - pearson o s) ^ 2)) := by
  simp [kge, absG_eq_abs, hm, hso, hss, sqrt_def, sq]

/-- the scores "on the transformed series": for ANY transform `f` (Identity, Log, BoxCox2, Reciprocal, Sinh, ... at any
parameters) a perfect simulation scores NSE 1 and simulating the transformed observed mean scores NSE 0, as long as
the transformed observations are not constant -/
theorem nse_perfect_trans {α : Type} [Field α] [LinearOrder α] [IsStrictOrderedRing α] (f : α → α) (o : List α)
    (h : ssd (mean (o.map f)) (o.map f) ≠ 0) : nse (o.map f) (o.map f) = 1 :=
  nse_perfect _ h


/-! ### ensemble statistic and the `corr` pipeline -/

section ensStat
variable {α : Type} [Field α] [LinearOrder α] [IsStrictOrderedRing α]

theorem insertLE_perm (x : α) (l : List α) : (insertLE x l).Perm (x :: l) := by
  induction l with
  | nil => simp [insertLE]
  | cons y ys ih =>
    simp only [insertLE]
    split
    · exact List.Perm.refl _
    · exact (List.Perm.cons y ih).trans (List.Perm.swap x y ys)

theorem sortL_perm (l : List α) : (sortL l).Perm l := by
  induction l with
  | nil => simp [sortL]
  | cons x xs ih =>
    have : sortL (x :: xs) = insertLE x (sortL xs) := rfl
    rw [this]
    exact (insertLE_perm x _).trans (List.Perm.cons x ih)

theorem insertLE_sorted (x : α) (l : List α) (h : l.Pairwise (· ≤ ·)) : (insertLE x l).Pairwise (· ≤ ·) := by
  induction l with
  | nil => simp [insertLE]
  | cons y ys ih =>
    simp only [insertLE]
    split
    · rename_i hxy
      refine List.Pairwise.cons ?_ h
      intro z hz
      rcases List.mem_cons.mp hz with rfl | hz
      · exact hxy.le
      · exact hxy.le.trans ((List.pairwise_cons.mp h).1 z hz)
    · rename_i hxy
      refine List.Pairwise.cons ?_ (ih (List.pairwise_cons.mp h).2)
      intro z hz
      rcases List.mem_cons.mp ((insertLE_perm x ys).subset hz) with rfl | hz
      · exact not_lt.mp hxy
      · exact (List.pairwise_cons.mp h).1 z hz

theorem sortL_sorted (l : List α) : (sortL l).Pairwise (· ≤ ·) := by
  induction l with
  | nil => simp [sortL]
  | cons x xs ih => exact insertLE_sorted x _ ih

/-- the statistic does not depend on the order of the ensemble members -/
theorem sortL_eq_of_perm (l₁ l₂ : List α) (h : l₁.Perm l₂) : sortL l₁ = sortL l₂ :=
  List.Perm.eq_of_pairwise (l₁ := sortL l₁) (l₂ := sortL l₂) (le := (· ≤ ·))
    (fun _ _ _ _ hab hba => le_antisymm hab hba) (sortL_sorted l₁) (sortL_sorted l₂)
    ((sortL_perm l₁).trans (h.trans (sortL_perm l₂).symm))

theorem median_perm (l₁ l₂ : List α) (h : l₁.Perm l₂) : median l₁ = median l₂ := by
  unfold median
  rw [sortL_eq_of_perm l₁ l₂ h]

/-- the median is one of the values or the mid-point of two of them; in any case it lies between the
smallest and the largest value -/
theorem median_bounds (l : List α) (lo hi : α) (hlo : ∀ x ∈ l, lo ≤ x) (hhi : ∀ x ∈ l, x ≤ hi) (v : α)
    (h : median l = some v) : lo ≤ v ∧ v ≤ hi := by
  have hm : ∀ x ∈ sortL l, x ∈ l := fun x hx => (sortL_perm l).subset hx
  unfold median at h
  simp only at h
  split at h
  · have := List.mem_of_getElem? h
    exact ⟨hlo v (hm v this), hhi v (hm v this)⟩
  · split at h
    · rename_i a b ha hb
      injection h with h
      have ha' := hm a (List.mem_of_getElem? ha)
      have hb' := hm b (List.mem_of_getElem? hb)
      have h2 : (1 + 1 : α) = 2 := by norm_num
      subst h
      rw [h2]
      constructor
      · rw [le_div_iff₀ (by norm_num)]; linarith [hlo a ha', hlo b hb']
      · rw [div_le_iff₀ (by norm_num)]; linarith [hhi a ha', hhi b hb']
    · cases h

/-- a one-member ensemble: both statistics return the member -/
theorem ensStat_single (st : Stat) (x : α) : ensStat st [some x] = some x := by
  cases st <;> simp [ensStat, present, mean, sumL, median, sortL, insertLE]

/-- a forecast whose members are all NaN has statistic NaN -/
theorem ensStat_all_nan (st : Stat) (n : Nat) : ensStat st (List.replicate n (none : Option α)) = none := by
  have : present (List.replicate n (none : Option α)) = [] := by
    induction n with
    | zero => rfl
    | succ n ih => simpa [present, List.replicate_succ] using ih
  simp [ensStat, this]

/-- NaN members are skipped -/
theorem ensStat_skips_nan (st : Stat) (pre post : List (Option α)) :
    ensStat st (pre ++ none :: post) = ensStat st (pre ++ post) := by
  simp [ensStat, present, List.filterMap_append]

theorem ensMean_value (row : List (Option α)) (h : present row ≠ []) :
    ensStat .mean row = some (mean (present row)) := by
  simp [ensStat, h]

/-- `__check_ensemble_data` keeps exactly the forecasts with an observation and at least one member -/
theorem mem_checkEns (obs : List (Option α)) (ens : List (List (Option α))) (p : Option α × List (Option α)) :
    p ∈ checkEns obs ens ↔ p ∈ obs.zip ens ∧ p.1.isSome ∧ present p.2 ≠ [] := by
  simp [checkEns, List.mem_filter, List.isEmpty_iff]

end ensStat

theorem allSomeL_map_some {α : Type} (l : List α) : allSomeL (l.map some) = some l := by
  induction l with
  | nil => rfl
  | cons a t ih => simp [allSomeL, ih]

/-- `corr` of a perfect one-member "ensemble" is 1 for every transform, both statistics, with or without the
null filter (complete data), Pearson type -/
theorem corrFull_perfect (fin nanv : ℝ → Bool) (hfin : ∀ x, fin x = true) (hnan : ∀ x, nanv x = false) (eps : ℝ) (st : Stat) (excl : Bool)
    (o : List ℝ) (hs : ¬ |std o| < eps) (hp : 0 < ssd (mean o) o) :
    corrFull fin nanv eps false st excl (o.map some) (o.map fun x => [some x]) = .value 1 := by
  have hne : o ≠ [] := by rintro rfl; simp [ssd, sumL] at hp
  have hsim : ((o.map fun x => [some x]).map fun row => nanOpt nanv (ensStat st row)) = o.map some := by
    simp [List.map_map, Function.comp_def, ensStat_single, nanOpt, hnan]
  unfold corrFull corrSeries
  simp only [hsim]
  cases excl with
  | false =>
    simp [prep, allSomeL_map_some, corr_perfect eps o hs hp]
  | true =>
    have hfo : (o.map some).map (finOpt fin) = o.map some := by
      simp [List.map_map, Function.comp_def, finOpt, hfin]
    simp only [prep, hfo, if_true]
    rw [nonull_complete o o rfl]
    simp [hne, corr_perfect eps o hs hp]

/-! ### Spearman correlation: depends on the data only through their order -/

theorem ranks_map_strictMono (f : ℝ → ℝ) (hf : StrictMono f) (l : List ℝ) :
    ranks (l.map f) = ranks l := by
  unfold ranks
  rw [List.map_map]
  apply List.map_congr_left
  intro x _
  unfold avgRank
  simp only [Function.comp_def, List.filter_map, List.length_map, hf.lt_iff_lt]

/-- Spearman correlation is unchanged by strictly increasing re-scalings of either series -/
theorem spearman_monotone_invariant (f g : ℝ → ℝ) (hf : StrictMono f) (hg : StrictMono g) (o s : List ℝ) :
    pearson (ranks (o.map f)) (ranks (s.map g)) = pearson (ranks o) (ranks s) := by
  rw [ranks_map_strictMono f hf, ranks_map_strictMono g hg]

/-- a perfect simulation has Spearman correlation 1 (ranks not all equal) -/
theorem spearman_perfect (eps : ℝ) (o : List ℝ) (hs : ¬ |std o| < eps)
    (hr : 0 < ssd (mean (ranks o)) (ranks o)) : corrSpearman eps o o = some 1 := by
  simp [corrSpearman, absG_eq_abs, hs, pearson_self (ranks o) hr]

/-! ### confusion matrix -/

/-- the labels of the returned table are `0 .. ncat-1` on both axes whenever every category is `< ncat`
(also when the cross-tabulation already had the requested shape and is returned as it is) -/
theorem confusion_labels (obs sim : List Int) (ncat : Nat)
    (ho : ∀ x ∈ obs, 0 ≤ x ∧ x < ncat) (hs : ∀ x ∈ sim, 0 ≤ x ∧ x < ncat) :
    (confusion obs sim ncat).1 = (List.range ncat).map Int.ofNat ∧
    (confusion obs sim ncat).2.1 = (List.range ncat).map Int.ofNat := by
  unfold confusion
  simp only
  split
  · rename_i h
    have e1 := sorted_full_eq_range (uniqueSorted obs) 0 (uniqueSorted_sorted obs)
      (fun x hx => by have := ho x ((uniqueSorted_mem obs x).mp hx); rw [h.1]; omega)
    have e2 := sorted_full_eq_range (uniqueSorted sim) 0 (uniqueSorted_sorted sim)
      (fun x hx => by have := hs x ((uniqueSorted_mem sim x).mp hx); rw [h.2]; omega)
    rw [h.1] at e1; rw [h.2] at e2
    constructor
    · rw [e1]; apply List.map_congr_left; intro i _; simp
    · rw [e2]; apply List.map_congr_left; intro i _; simp
  · exact ⟨rfl, rfl⟩

/-- every cell holds the number of (observed, forecast) pairs of its row and column categories -/
theorem confusion_cells (obs sim : List Int) (ncat : Nat) :
    (confusion obs sim ncat).2.2 =
      (confusion obs sim ncat).1.map fun i => (confusion obs sim ncat).2.1.map fun j => count obs sim i j := by
  unfold confusion
  simp only

/-- every pair is counted exactly once: the cells add up to the number of pairs -/
theorem confusion_total (obs sim : List Int) (ncat : Nat) (hl : obs.length = sim.length)
    (ho : ∀ x ∈ obs, 0 ≤ x ∧ x < ncat) (hs : ∀ x ∈ sim, 0 ≤ x ∧ x < ncat) :
    tableTotal (confusion obs sim ncat).2.2 = obs.length := by
  rw [confusion_cells, (confusion_labels obs sim ncat ho hs).1, (confusion_labels obs sim ncat ho hs).2]
  rw [total_count ncat obs sim]
  · simp [List.length_zip, hl]
  · intro p hp
    exact ⟨ho _ (List.of_mem_zip hp).1, hs _ (List.of_mem_zip hp).2⟩

/-- with `ncat` inferred, every label present fits in the table -/
theorem inferNcat_covers (obs sim : List Int) (h : ∀ x ∈ obs ++ sim, 0 ≤ x) :
    ∀ x ∈ obs ++ sim, 0 ≤ x ∧ x < inferNcat obs sim := by
  intro x hx
  refine ⟨h x hx, ?_⟩
  unfold inferNcat
  have hmem := (uniqueSorted_mem (obs ++ sim) x).mpr hx
  have hsorted := uniqueSorted_sorted (obs ++ sim)
  generalize uniqueSorted (obs ++ sim) = l at hmem hsorted
  cases hl : l.getLast? with
  | none => rw [List.getLast?_eq_none_iff] at hl; subst hl; simp at hmem
  | some m =>
    simp only [hl]
    have hm : m ∈ l := List.mem_of_getLast? hl
    have hle : x ≤ m := by
      obtain ⟨l', rfl⟩ : ∃ l', l = l' ++ [m] := by
        rcases List.getLast?_eq_some_iff.mp hl with ⟨l', h'⟩; exact ⟨l', h'⟩
      rw [List.pairwise_append] at hsorted
      rcases List.mem_append.mp hmem with h1 | h1
      · exact (hsorted.2.2 x h1 m (by simp)).le
      · simp at h1; omega
    have : 0 ≤ m := le_trans (h x hx) hle
    omega

/-! ### binary scores (2x2 table with four positive counts) -/

section binaryScores
variable {α : Type} [Field α] [LinearOrder α] [IsStrictOrderedRing α]
variable (tn fp fn tp : α)

/-- the odds ratio is the cross-product ratio `TP·TN / (FP·FN)` -/
theorem binary_theta (h1 : 0 < tn) (h2 : 0 < fp) (h3 : 0 < fn) (h4 : 0 < tp) :
    (binary tn fp fn tp).theta = tp * tn / (fp * fn) := by
  simp only [binary]
  have hA : tp + fn ≠ 0 := by positivity
  have hB : tn + fp ≠ 0 := by positivity
  have e1 : 1 - fp / (tn + fp) = tn / (tn + fp) := by field_simp; ring
  have e2 : 1 - tp / (tp + fn) = fn / (tp + fn) := by field_simp; ring
  rw [e1, e2]
  have : fn ≠ 0 := h3.ne'
  have : fp ≠ 0 := h2.ne'
  field_simp

/-- ORSS is defined for every positive table (odds ratio below, at or above 1) and equals
`(θ-1)/(θ+1) = (TP·TN − FP·FN)/(TP·TN + FP·FN)` -/
theorem binary_orss (h1 : 0 < tn) (h2 : 0 < fp) (h3 : 0 < fn) (h4 : 0 < tp) :
    (binary tn fp fn tp).orss = some ((tp * tn - fp * fn) / (tp * tn + fp * fn)) := by
  have ht := binary_theta tn fp fn tp h1 h2 h3 h4
  have hpos : 0 < tp * tn / (fp * fn) := by positivity
  simp only [binary] at ht ⊢
  rw [ht, if_pos (by linarith)]
  congr 1
  have : fp * fn ≠ 0 := by positivity
  have : tp * tn + fp * fn ≠ 0 := by positivity
  field_simp

/-- the log odds ratio is defined for every positive table -/
theorem binary_lor_defined (h1 : 0 < tn) (h2 : 0 < fp) (h3 : 0 < fn) (h4 : 0 < tp) :
    (binary tn fp fn tp).lorDefined = true := by
  simp only [binary, Bool.and_eq_true, decide_eq_true_eq]
  have a : 0 < tp + fn := by positivity
  have b : 0 < tn + fp := by positivity
  refine ⟨⟨⟨by positivity, ?_⟩, by positivity⟩, ?_⟩
  · rw [div_lt_one a]; linarith
  · rw [div_lt_one b]; linarith

/-- contingency-table definitions of the rates -/
theorem binary_rates :
    (binary tn fp fn tp).hitrate = tp / (tp + fn) ∧
    (binary tn fp fn tp).falsealarm = fp / (tn + fp) ∧
    (binary tn fp fn tp).precision = tp / (tp + fp) ∧
    (binary tn fp fn tp).accuracy = (tp + tn) / (tp + fn + (tn + fp)) ∧
    (binary tn fp fn tp).bias = (tp + fp) / (tp + fn) := ⟨rfl, rfl, rfl, rfl, rfl⟩

/-- F1 is the harmonic mean of hit rate and precision -/
theorem binary_f1_harmonic (h2 : 0 < fp) (h3 : 0 < fn) (h4 : 0 < tp) :
    (binary tn fp fn tp).f1 =
      2 * (binary tn fp fn tp).hitrate * (binary tn fp fn tp).precision /
        ((binary tn fp fn tp).hitrate + (binary tn fp fn tp).precision) := by
  simp only [binary]
  have : tp + fn ≠ 0 := by positivity
  have : tp + fp ≠ 0 := by positivity
  have : 2 * tp + fp + fn ≠ 0 := by positivity
  have : tp * (tp + fp) + tp * (tp + fn) ≠ 0 := by positivity
  field_simp
  ring

/-- rates are proportions; accuracy lies in [0, 1] -/
theorem binary_accuracy_range (h1 : 0 < tn) (h2 : 0 < fp) (h3 : 0 < fn) (h4 : 0 < tp) :
    0 < (binary tn fp fn tp).accuracy ∧ (binary tn fp fn tp).accuracy < 1 := by
  simp only [binary]
  have : 0 < tp + fn + (tn + fp) := by positivity
  constructor
  · positivity
  · rw [div_lt_one this]; linarith

/-- the Matthews correlation `mccNum / sqrt mccDen2` lies in [-1, 1]: `mccNum² ≤ mccDen2` -/
theorem binary_mcc_range (h1 : 0 ≤ tn) (h2 : 0 ≤ fp) (h3 : 0 ≤ fn) (h4 : 0 ≤ tp) :
    (binary tn fp fn tp).mccNum * (binary tn fp fn tp).mccNum ≤ (binary tn fp fn tp).mccDen2 := by
  simp only [binary]
  have e : (tp + fp) * (tp + fn) * (tn + fp) * (tn + fn) - (tp * tn - fp * fn) * (tp * tn - fp * fn)
      = 4 * (tp * fp) * (fn * tn) + (tp * fp) * (fn * fn) + (tp * fp) * (tn * tn) + (tp * fn) * (fp * fp)
        + (tp * tn) * (fp * fp) + (tp * fn) * (tn * tn) + (tp * tn) * (fn * fn) + (tp * tp) * (fp * fn)
        + (tp * tp) * (fp * tn) + (tp * tp) * (fn * tn) + (fp * fn) * (tn * tn) + (fp * tn) * (fn * fn)
        + (fp * fp) * (fn * tn) := by ring
  have : 0 ≤ 4 * (tp * fp) * (fn * tn) + (tp * fp) * (fn * fn) + (tp * fp) * (tn * tn) + (tp * fn) * (fp * fp)
        + (tp * tn) * (fp * fp) + (tp * fn) * (tn * tn) + (tp * tn) * (fn * fn) + (tp * tp) * (fp * fn)
        + (tp * tp) * (fp * tn) + (tp * tp) * (fn * tn) + (fp * fn) * (tn * tn) + (fp * tn) * (fn * fn)
        + (fp * fp) * (fn * tn) := by positivity
  linarith

end binaryScores

/-! ### the whole functions: `excludenull`, argument checks, orientation -/

section whole

/-- `bias(..., excludenull=True)` is `bias(..., excludenull=False)` of the series with the incomplete pairs removed
(for every transform `f`, every type, valid or not) -/
theorem biasFull_excl (fin : ℝ → Bool) (eps : ℝ) (f : ℝ → Option ℝ) (ty : Option BiasType) (obs sim : List (Option ℝ))
    (hl : obs.length = sim.length) (hne : (removedRaw fin f obs sim).1 ≠ []) :
    biasFull fin eps f ty true obs sim
      = biasFull fin eps f ty false (removedRaw fin f obs sim).1 (removedRaw fin f obs sim).2 := by
  unfold biasFull
  rw [prep_excl_eq_removed fin f obs sim hne]
  simp [hl, removedRaw_length fin f obs sim]

theorem nseFull_excl (fin : ℝ → Bool) (f : ℝ → Option ℝ) (obs sim : List (Option ℝ))
    (hl : obs.length = sim.length) (hne : (removedRaw fin f obs sim).1 ≠ []) :
    nseFull fin f true obs sim = nseFull fin f false (removedRaw fin f obs sim).1 (removedRaw fin f obs sim).2 := by
  unfold nseFull
  rw [prep_excl_eq_removed fin f obs sim hne]
  simp [hl, removedRaw_length fin f obs sim]

theorem kgeFull_excl (fin : ℝ → Bool) (eps : ℝ) (f : ℝ → Option ℝ) (obs sim : List (Option ℝ))
    (hl : obs.length = sim.length) (hne : (removedRaw fin f obs sim).1 ≠ []) :
    kgeFull fin eps f true obs sim = kgeFull fin eps f false (removedRaw fin f obs sim).1 (removedRaw fin f obs sim).2 := by
  unfold kgeFull
  rw [prep_excl_eq_removed fin f obs sim hne]
  simp [hl, removedRaw_length fin f obs sim]

/-- the same for `corr`, on the transformed observations and the per-forecast statistic -/
theorem corrSeries_excl (fin : ℝ → Bool) (eps : ℝ) (sp : Bool) (tobs tsim : List (Option ℝ))
    (hne : (removedRaw fin some tobs tsim).1 ≠ []) :
    corrSeries fin eps sp true tobs tsim
      = corrSeries fin eps sp false (removedRaw fin some tobs tsim).1 (removedRaw fin some tobs tsim).2 := by
  have := prep_excl_eq_removed fin some tobs tsim hne
  simp only [fwdL_some] at this
  unfold corrSeries
  rw [this]

/-- with `excludenull` and no complete pair every score raises "No valid data" -/
theorem full_excl_noValid (fin : ℝ → Bool) (eps : ℝ) (f : ℝ → Option ℝ) (ty : Option BiasType) (obs sim : List (Option ℝ))
    (hl : obs.length = sim.length) (hne : (removedRaw fin f obs sim).1 = []) :
    biasFull fin eps f ty true obs sim = .errNoValid ∧ nseFull fin f true obs sim = .errNoValid ∧
    kgeFull fin eps f true obs sim = .errNoValid := by
  simp [biasFull, nseFull, kgeFull, hl, prep_excl_noValid fin f obs sim hne]

/-- series of different lengths are always rejected, whatever the other arguments -/
theorem full_shape_error (fin : ℝ → Bool) (eps : ℝ) (f : ℝ → Option ℝ) (ty : Option BiasType) (excl : Bool)
    (obs sim : List (Option ℝ)) (hl : obs.length ≠ sim.length) :
    biasFull fin eps f ty excl obs sim = .errShape ∧ nseFull fin f excl obs sim = .errShape ∧
    kgeFull fin eps f excl obs sim = .errShape := by
  simp [biasFull, nseFull, kgeFull, hl]

/-- on complete data the whole function is the closed form of the transformed series: score(obs, sim, trans) is the score of
trans.forward(obs), trans.forward(sim) -/
theorem nseFull_complete (fin : ℝ → Bool) (hfin : ∀ x, fin x = true) (f : ℝ → ℝ) (excl : Bool) (obs sim : List ℝ)
    (hl : obs.length = sim.length) (hne : obs ≠ []) :
    nseFull fin (fun x => some (f x)) excl (obs.map some) (sim.map some) = .value (nse (obs.map f) (sim.map f)) := by
  have e : ∀ l : List ℝ, fwdL (fun x => some (f x)) (l.map some) = (l.map f).map some := by
    intro l; simp [fwdL, List.map_map, Function.comp_def]
  have hfo : ∀ l : List ℝ, (l.map some).map (finOpt fin) = l.map some := by
    intro l; simp [List.map_map, Function.comp_def, finOpt, hfin]
  unfold nseFull
  simp only [e, List.length_map, hl, ne_eq, not_true_eq_false, if_false]
  cases excl with
  | false => simp only [prep, Bool.false_eq_true, if_false, allSomeL_map_some]
  | true =>
    simp only [prep, hfo, if_true]
    rw [nonull_complete _ _ (by simp [hl])]
    simp [hne]

end whole

/-! ### orientation of the ensemble -/

theorem orient_of_length_ne_one {α : Type} (ens : List (List (Option α))) (h : ens.length ≠ 1) : orient ens = ens := by
  match ens, h with
  | [], _ => rfl
  | [_], h => simp at h
  | _ :: _ :: _, _ => rfl

theorem orient_single {α : Type} (row : List (Option α)) : orient [row] = row.map fun x => [x] := rfl

/-- orienting twice changes nothing: a series given as `[n]`, as `[1,n]` or as `[n,1]` is the same ensemble -/
theorem orient_idem {α : Type} (ens : List (List (Option α))) : orient (orient ens) = orient ens := by
  match ens with
  | [] => rfl
  | [row] =>
    match row with
    | [] => rfl
    | [x] => rfl
    | _ :: _ :: _ => rfl
  | _ :: _ :: _ => rfl

/-- a square ensemble (as many members as forecasts, at least two) is taken as it is, never transposed -/
theorem orient_square {α : Type} (ens : List (List (Option α))) (n : Nat) (hn : 2 ≤ n) (h : ens.length = n) :
    orient ens = ens := orient_of_length_ne_one ens (by omega)

/-! ### `corr` from its raw arguments -/

/-- the orientation step is applied once: `corr(obs, series)`, `corr(obs, series[None, :])` and `corr(obs, series[:, None])`
are the same call -/
theorem corrRaw_orient (fin nanv : ℝ → Bool) (eps : ℝ) (f : ℝ → Option ℝ) (ct : Option CorrType) (st : Option Stat) (excl : Bool)
    (obs : List (Option ℝ)) (ens : List (List (Option ℝ))) :
    corrRaw fin nanv eps f ct st excl obs (orient ens) = corrRaw fin nanv eps f ct st excl obs ens := by
  unfold corrRaw
  rw [orient_idem]

/-- an ensemble that does not have one row per observation after orientation is rejected; in particular a `[p,n]` array
with `p ≠ n`, `p ≠ 1` is never silently transposed -/
theorem corrRaw_shape_error (fin nanv : ℝ → Bool) (eps : ℝ) (f : ℝ → Option ℝ) (ct : Option CorrType) (st : Option Stat)
    (excl : Bool) (obs : List (Option ℝ)) (ens : List (List (Option ℝ))) (h1 : ens.length ≠ 1) (h : ens.length ≠ obs.length) :
    corrRaw fin nanv eps f ct st excl obs ens = .errShape := by
  unfold corrRaw
  simp [orient_of_length_ne_one ens h1, h]

/-- `type="censored"` passes the argument check and is computed exactly like `type="Spearman"` -/
theorem corrRaw_censored (fin nanv : ℝ → Bool) (eps : ℝ) (f : ℝ → Option ℝ) (st : Option Stat) (excl : Bool)
    (obs : List (Option ℝ)) (ens : List (List (Option ℝ))) :
    corrRaw fin nanv eps f (some .censored) st excl obs ens = corrRaw fin nanv eps f (some .spearman) st excl obs ens := by
  unfold corrRaw
  rfl

/-- `corr` of a perfect simulation given as a plain series is 1: for every transform `f`, both statistics, with or
without `excludenull`, whenever the transformed observations pass the standard-deviation guard -/
theorem corrRaw_perfect (fin nanv : ℝ → Bool) (hfin : ∀ x, fin x = true) (hnan : ∀ x, nanv x = false) (eps : ℝ) (f : ℝ → ℝ) (st : Stat) (excl : Bool)
    (o : List ℝ) (hs : ¬ |std (o.map f)| < eps) (hp : 0 < ssd (mean (o.map f)) (o.map f)) :
    corrRaw fin nanv eps (fun x => some (f x)) (some .pearson) (some st) excl (o.map some) [o.map some] = .value 1 := by
  have hne : o ≠ [] := by rintro rfl; simp [ssd] at hp
  unfold corrRaw
  simp only [orient_single, List.map_map, List.length_map, ne_eq, not_true_eq_false, if_false]
  have hk : checkEns (o.map some) (List.map ((fun x => [x]) ∘ some) o) = o.map fun x => (some x, [some x]) := by
    have := checkEns_complete o
    simpa [Function.comp_def] using this
  rw [hk]
  have h1 : fwdL (fun x => some (f x)) ((o.map fun x => (some x, [some x])).map fun p => p.1) = (o.map f).map some := by
    simp [fwdL, List.map_map, Function.comp_def]
  have h2 : ((o.map fun x => (some x, [some x])).map fun p => fwdL (fun x => some (f x)) p.2)
      = (o.map f).map fun x => [some x] := by
    simp [fwdL, List.map_map, Function.comp_def]
  rw [h1, h2]
  have hb : (CorrType.pearson != CorrType.pearson) = false := by decide
  rw [hb, corrFull_perfect fin nanv hfin hnan eps st excl (o.map f) hs hp]
  simp [hne]

/-! ### `binary`: error paths and the route series → table → scores -/

section binaryOf
variable {α : Type} [Field α] [LinearOrder α] [IsStrictOrderedRing α]
variable (tn fp fn tp : α)

/-- a table with four positive counts is never rejected: `binary` returns its scores -/
theorem binaryOf_pos (h1 : 0 < tn) (h2 : 0 < fp) (h3 : 0 < fn) (h4 : 0 < tp) :
    binaryOf [[tn, fp], [fn, tp]] = .ok (binary tn fp fn tp) := by
  have a : tp + fn ≠ 0 := by positivity
  have b : tn + fp ≠ 0 := by positivity
  have c : 1 - (binary tn fp fn tp).hitrate ≠ 0 := by
    simp only [binary]
    have : tp / (tp + fn) < 1 := by rw [div_lt_one (by positivity)]; linarith
    linarith
  have d : (binary tn fp fn tp).falsealarm ≠ 0 := by
    simp only [binary]; positivity
  have e : (binary tn fp fn tp).mccDen2 ≠ 0 := by
    simp only [binary]; positivity
  simp only [binaryOf, isZero_false_of_ne _ a, isZero_false_of_ne _ b, isZero_false_of_ne _ c,
    isZero_false_of_ne _ d, isZero_false_of_ne _ e, Bool.false_eq_true, if_false]

/-- among the tables of non-negative counts, `binary` raises ZeroDivisionError exactly when there is no miss or no
false alarm (`FN = 0` or `FP = 0`); the test on the MCC denominator is never the first to fail -/
theorem binaryOf_zeroDiv_iff (h1 : 0 ≤ tn) (h2 : 0 ≤ fp) (h3 : 0 ≤ fn) (h4 : 0 ≤ tp) :
    binaryOf [[tn, fp], [fn, tp]] = .errZeroDiv ↔ fn = 0 ∨ fp = 0 := by
  constructor
  · intro h
    by_contra hc
    rw [not_or] at hc
    have h3' : 0 < fn := lt_of_le_of_ne h3 (Ne.symm hc.1)
    have h2' : 0 < fp := lt_of_le_of_ne h2 (Ne.symm hc.2)
    have a : tp + fn ≠ 0 := by positivity
    have b : tn + fp ≠ 0 := by positivity
    have c : 1 - (binary tn fp fn tp).hitrate ≠ 0 := by
      simp only [binary]
      have : tp / (tp + fn) < 1 := by rw [div_lt_one (by positivity)]; linarith
      linarith
    have d : (binary tn fp fn tp).falsealarm ≠ 0 := by
      simp only [binary]; positivity
    have e : (binary tn fp fn tp).mccDen2 ≠ 0 := by
      simp only [binary]; positivity
    simp [binaryOf, isZero_false_of_ne _ a, isZero_false_of_ne _ b, isZero_false_of_ne _ c,
      isZero_false_of_ne _ d, isZero_false_of_ne _ e] at h
  · intro h
    unfold binaryOf
    simp only
    split_ifs with g1 g2 g3 g4 g5 <;> try rfl
    exfalso
    rw [Bool.not_eq_true] at g1 g2 g3 g4
    have a : tp + fn ≠ 0 := fun e => by simp [(isZero_iff _).mpr e] at g1
    have b : tn + fp ≠ 0 := fun e => by simp [(isZero_iff _).mpr e] at g2
    have c : 1 - (binary tn fp fn tp).hitrate ≠ 0 := fun e => by simp [(isZero_iff _).mpr e] at g3
    have d : (binary tn fp fn tp).falsealarm ≠ 0 := fun e => by simp [(isZero_iff _).mpr e] at g4
    rcases h with h | h
    · subst h
      apply c
      simp only [binary, add_zero] at a ⊢
      rw [div_self a, sub_self]
    · subst h
      apply d
      simp [binary]

end binaryOf

/-- the scores of two 0/1 series are the scores of their four pair counts -/
theorem binarySeries_eq {α : Type} [Field α] [LinearOrder α] [IsStrictOrderedRing α] (obs sim : List Int)
    (ho : ∀ x ∈ obs, 0 ≤ x ∧ x < (2 : Nat)) (hs : ∀ x ∈ sim, 0 ≤ x ∧ x < (2 : Nat)) :
    (binarySeries obs sim : BinRes α) =
      binaryOf [[(count obs sim 0 0 : α), (count obs sim 0 1 : α)], [(count obs sim 1 0 : α), (count obs sim 1 1 : α)]] := by
  unfold binarySeries
  rw [confusion_cells, (confusion_labels obs sim 2 ho hs).1, (confusion_labels obs sim 2 ho hs).2]
  rfl

/-! ### histories: a table held by the caller is a value -/

/-- whatever is computed or edited afterwards (`ops₂`, arbitrary, none of them writing to this table) and whatever
happened before (`ops₁`, arbitrary), the table returned for `(obs, sim, ncat)` is the table of ITS pair counts -/
theorem held_table_is_value (ops₁ ops₂ : List HOp) (obs sim : List Int) (ncat : Option Nat)
    (h : ∀ op ∈ ops₂, op.target ≠ some (hrun ops₁).length) :
    (hrun (ops₁ ++ HOp.score obs sim ncat :: ops₂))[(hrun ops₁).length]?
      = some (confusion obs sim (match ncat with | some n => n | none => inferNcat obs sim)) := by
  rw [hrun_append, List.foldl_cons]
  rw [foldl_hstep_other ops₂ _ _ (by simp [hstep]) h]
  cases ncat <;> simp [hstep]

/-- an edit addressed to a table that is not held (index out of range) is rejected without any effect -/
theorem hstep_edit_out_of_range (held : List Table) (k i j v : Nat) (hk : held.length ≤ k) :
    hstep held (.setCell k i j v) = held ∧ hstep held (.fill k v) = held := by
  have : ∀ (g : Table → Table), modifyAt held k g = held := by
    intro g
    induction held generalizing k with
    | nil => rfl
    | cons x xs ih =>
      cases k with
      | zero => simp at hk
      | succ k => simp [modifyAt, ih k (by simpa using hk)]
  exact ⟨this _, this _⟩

/-- the number of held tables is the number of `score` operations: no operation drops or duplicates a result -/
theorem hrun_length (ops : List HOp) : (hrun ops).length = (ops.filter fun op => op.target.isNone).length := by
  suffices h : ∀ held : List Table, (ops.foldl hstep held).length
      = held.length + (ops.filter fun op => op.target.isNone).length by simpa [hrun] using h []
  induction ops with
  | nil => simp
  | cons op ops ih =>
    intro held
    rw [List.foldl_cons, ih]
    cases op <;> simp [hstep, HOp.target, modifyAt_length]
    omega

/-! ### hypotheses: discharged from the guards of the code, or shown to be needed -/

/-- the standard-deviation guard of `kge` / `corr` implies what the correlation theorems assume: non-constant data -/
theorem ssd_pos_of_std_guard (eps : ℝ) (he : 0 < eps) (o : List ℝ) (h : ¬ |std o| < eps) : 0 < ssd (mean o) o := by
  have hstd_nonneg : 0 ≤ std o := by unfold std; rw [sqrt_def]; exact Real.sqrt_nonneg _
  rw [abs_of_nonneg hstd_nonneg, not_lt] at h
  have hpos : 0 < std o := lt_of_lt_of_le he h
  have hne : o ≠ [] := by rintro rfl; simp [std, ssd, sqrt_def] at hpos
  exact (std_pos_iff o hne).mp hpos

/-- whenever `kge` returns a number, the correlation inside it is the textbook coefficient and the number is the
textbook KGE: the non-degeneracy assumptions of `pearson_textbook` follow from the three guards -/
theorem kge_textbook (eps : ℝ) (he : 0 < eps) (o s : List ℝ) (hl : o.length = s.length) (v : ℝ) (h : kge eps o s = some v) :
    pearson o s = scd (mean o) (mean s) o s / (Real.sqrt (ssd (mean o) o) * Real.sqrt (ssd (mean s) s)) ∧
    v = 1 - Real.sqrt ((1 - mean s / mean o) ^ 2 + (1 - std s / std o) ^ 2 + (1 - pearson o s) ^ 2) := by
  unfold kge at h
  simp only [absG_eq_abs] at h
  split at h
  · cases h
  · rename_i hm
    split at h
    · cases h
    · rename_i hso
      split at h
      · rename_i hss
        have hx := ssd_pos_of_std_guard eps he o hso
        have hy := ssd_pos_of_std_guard eps he s (not_lt.mpr hss.le)
        refine ⟨pearson_textbook o s hl hx hy, ?_⟩
        injection h with h
        rw [← h, sqrt_def]
        ring_nf
      · cases h

/-- `corr(type="Pearson")` returns the textbook coefficient whenever it returns a number and the simulation is not constant -/
theorem corrPearson_textbook (eps : ℝ) (he : 0 < eps) (o s : List ℝ) (hl : o.length = s.length)
    (hy : 0 < ssd (mean s) s) (v : ℝ) (h : corrPearson eps o s = some v) :
    v = scd (mean o) (mean s) o s / (Real.sqrt (ssd (mean o) o) * Real.sqrt (ssd (mean s) s)) := by
  unfold corrPearson at h
  simp only [absG_eq_abs] at h
  split at h
  · cases h
  · rename_i hso
    injection h with h
    rw [← h]
    exact pearson_textbook o s hl (ssd_pos_of_std_guard eps he o hso) hy

/-- the guards compare with an ABSOLUTE threshold, so "invariant under a common positive scaling" needs the guard to pass
after scaling as well (`biasStd_scale`, `kge_scale`): with `eps = 1`, halving the series `obs = [1]`, `sim = [2]` turns a
bias of 1 into NaN -/
theorem biasStd_scale_needs_guard :
    ∃ (eps c : ℚ) (o s : List ℚ), 0 < c ∧ ¬ |mean o| < eps ∧
      biasStd eps (o.map fun x => c * x) (s.map fun x => c * x) ≠ biasStd eps o s :=
  ⟨1, 1/2, [1], [2], by norm_num, by norm_num [mean, sumL], by decide +kernel⟩

/-- `kge_perfect` needs `eps < |std o|` strictly: at `std o = eps` the first guard passes, the last one does not, and a
perfect simulation scores NaN -/
theorem kge_perfect_boundary :
    ∃ (eps : ℝ) (o : List ℝ), 0 < eps ∧ ¬ |mean o| < eps ∧ ¬ |std o| < eps ∧ kge eps o o = none := by
  have hm : mean ([0, 2] : List ℝ) = 1 := by norm_num [mean, sumL]
  have hs : std ([0, 2] : List ℝ) = 1 := by
    unfold std
    rw [hm, sqrt_def]
    norm_num [ssd, sumL]
  refine ⟨1, [0, 2], one_pos, by rw [hm]; norm_num, by rw [hs]; norm_num, ?_⟩
  unfold kge
  simp only [absG_eq_abs, hm, hs]
  norm_num

/-- `confusion_total` needs every label below `ncat`: with a given `ncat` that is too small the pairs holding a larger
label are dropped -/
theorem confusion_total_needs_range :
    ∃ (obs sim : List Int) (ncat : Nat), obs.length = sim.length ∧ tableTotal (confusion obs sim ncat).2.2 ≠ obs.length :=
  ⟨[0, 2], [0, 0], 2, by decide, by decide⟩

/-! ### what survives rounding: the same model text evaluated with a rounding after every operation (`Rnd α r`)

`r` is any monotone, odd operator with `r 0 = 0`, `r 1 = 1` (`IsRounding`): IEEE round-to-nearest-even, round-toward-zero,
round-up/down pairs … in any precision, as long as nothing overflows.  These statements are therefore true of the float64
results themselves, not only of their real-number idealisation. -/

section rounded
set_option linter.unusedSectionVars false
variable {α : Type} [Field α] [LinearOrder α] [IsStrictOrderedRing α] {r : α → α}

/-- NSE never exceeds 1, in floating point too -/
theorem nse_le_one_rnd (hr : IsRounding r) (o s : List (Rnd α r)) (h : 0 < (ssd (mean o) o).val) :
    (nse o s).val ≤ 1 := by
  unfold nse
  simp only [Rnd.sub_val, Rnd.div_val, Rnd.one_val]
  apply hr.le_one
  have : 0 ≤ r ((sse o s).val / (ssd (mean o) o).val) := hr.nonneg (div_nonneg (sse_val_nonneg hr o s) h.le)
  linarith

/-- a perfect simulation scores NSE exactly 1 in floating point: every error is exactly 0 -/
theorem nse_perfect_rnd (hr : IsRounding r) (o : List (Rnd α r)) (_h : (ssd (mean o) o).val ≠ 0) :
    (nse o o).val = 1 := by
  unfold nse
  simp [sse_self_val hr o, hr.zero, hr.one]

/-- a perfect simulation has bias exactly 0 in floating point (standard and normalised bias) -/
theorem bias_perfect_rnd (hr : IsRounding r) (eps : Rnd α r) (o : List (Rnd α r)) (h : ¬ absG (mean o) < eps) :
    (biasStd eps o o).map (·.val) = some 0 ∧ (biasNorm eps o o).map (·.val) = some 0 := by
  simp [biasStd, biasNorm, h, hr.zero]

/-- the normalised bias of series with non-negative means lies in [-1, 1] in floating point -/
theorem biasNorm_range_rnd (hr : IsRounding r) (eps : Rnd α r) (o s : List (Rnd α r)) (v : Rnd α r)
    (ho : 0 ≤ (mean o).val) (hs : 0 ≤ (mean s).val) (hd : 0 < (mean s + mean o).val)
    (h : biasNorm eps o s = some v) : -1 ≤ v.val ∧ v.val ≤ 1 := by
  unfold biasNorm at h
  simp only at h
  split at h
  · cases h
  · injection h with h
    subst h
    simp only [Rnd.div_val, Rnd.sub_val, Rnd.add_val] at hd ⊢
    exact hr.quot_range hd (by linarith) (by linarith)

variable (tn fp fn tp : Rnd α r)

/-- hit rate, false-alarm rate, precision and accuracy are proportions in floating point too (counts are exactly
representable: `r c = c`) -/
theorem binary_rates_range_rnd (hr : IsRounding r)
    (h1 : 0 ≤ tn.val) (h2 : 0 ≤ fp.val) (h3 : 0 ≤ fn.val) (h4 : 0 ≤ tp.val)
    (e2 : r fp.val = fp.val) (e4 : r tp.val = tp.val) :
    (0 ≤ (binary tn fp fn tp).hitrate.val ∧ (binary tn fp fn tp).hitrate.val ≤ 1) ∧
    (0 ≤ (binary tn fp fn tp).falsealarm.val ∧ (binary tn fp fn tp).falsealarm.val ≤ 1) ∧
    (0 ≤ (binary tn fp fn tp).precision.val ∧ (binary tn fp fn tp).precision.val ≤ 1) := by
  have key : ∀ a b : α, 0 ≤ a → 0 ≤ b → r a = a → (0 ≤ r (a / r (a + b)) ∧ r (a / r (a + b)) ≤ 1) := by
    intro a b ha hb ea
    have hd : a ≤ r (a + b) := by
      have := hr.mono (show a ≤ a + b by linarith); rwa [ea] at this
    have hd0 : 0 ≤ r (a + b) := le_trans ha hd
    exact ⟨hr.nonneg (div_nonneg ha hd0), hr.le_one (div_le_one_of_le₀ hd hd0)⟩
  simp only [binary, Rnd.div_val, Rnd.add_val]
  refine ⟨key _ _ h4 h3 e4, ?_, key _ _ h4 h2 e4⟩
  have := key fp.val tn.val h2 h1 e2
  rwa [add_comm] at this

/-- the odds-ratio skill score is defined and lies in [-1, 1] in floating point, for every table of non-negative counts -/
theorem binary_orss_range_rnd (hr : IsRounding r)
    (h1 : 0 ≤ tn.val) (h2 : 0 ≤ fp.val) (h3 : 0 ≤ fn.val) (h4 : 0 ≤ tp.val)
    (e2 : r fp.val = fp.val) (e4 : r tp.val = tp.val) :
    ∃ v, (binary tn fp fn tp).orss = some v ∧ -1 ≤ v.val ∧ v.val ≤ 1 := by
  obtain ⟨⟨hh0, hh1⟩, ⟨hf0, hf1⟩, _⟩ := binary_rates_range_rnd tn fp fn tp hr h1 h2 h3 h4 e2 e4
  have ht : 0 ≤ (binary tn fp fn tp).theta.val := by
    simp only [binary, Rnd.div_val, Rnd.mul_val, Rnd.sub_val, Rnd.add_val, Rnd.one_val] at hh0 hh1 hf0 hf1 ⊢
    apply hr.nonneg
    apply div_nonneg _ hf0
    apply hr.nonneg
    apply div_nonneg
    · exact hr.nonneg (mul_nonneg hh0 (hr.nonneg (by linarith)))
    · exact hr.nonneg (by linarith)
  have e : (binary tn fp fn tp).orss = (if -1 < (binary tn fp fn tp).theta
      then some (((binary tn fp fn tp).theta - 1) / ((binary tn fp fn tp).theta + 1)) else none) := rfl
  rw [e]
  exact orss_aux hr _ ht

end rounded

/-- KGE never exceeds 1 and the correlation stays within [-1, 1], in floating point too -/
theorem kge_le_one_rnd {r : ℝ → ℝ} (hr : IsRounding r) (eps : Rnd ℝ r) (o s : List (Rnd ℝ r)) (v : Rnd ℝ r)
    (h : kge eps o s = some v) : v.val ≤ 1 := by
  unfold kge at h
  simp only at h
  split at h
  · cases h
  · split at h
    · cases h
    · split at h
      · injection h with h
        rw [← h]
        show r (1 - r (Real.sqrt _)) ≤ 1
        apply hr.le_one
        have := hr.nonneg (Real.sqrt_nonneg
          (((1 : Rnd ℝ r) - mean s / mean o) * (1 - mean s / mean o) + (1 - std s / std o) * (1 - std s / std o)
            + (1 - pearson o s) * (1 - pearson o s)).val)
        linarith
      · cases h

theorem pearson_range_rnd {r : ℝ → ℝ} (x y : List (Rnd ℝ r)) : -1 ≤ (pearson x y).val ∧ (pearson x y).val ≤ 1 := by
  unfold pearson clip1
  simp only
  split
  · simp
  · split
    · simp
    · rename_i h1 h2
      rw [Rnd.lt_iff] at h1 h2
      simp only [Rnd.neg_val, Rnd.one_val] at h1 h2
      exact ⟨not_lt.mp h1, not_lt.mp h2⟩

/-! ### signs: which way a score points is decided by an exact comparison -/

section signs
set_option linter.unusedSectionVars false
variable {α : Type} [Field α] [LinearOrder α] [IsStrictOrderedRing α]

/-- ORSS, the odds ratio against 1 and the numerator of MCC all have the sign of `TP·TN − FP·FN` -/
theorem binary_skill_sign (tn fp fn tp : α) (h1 : 0 < tn) (h2 : 0 < fp) (h3 : 0 < fn) (h4 : 0 < tp) :
    ∃ v, (binary tn fp fn tp).orss = some v ∧
      (0 < v ↔ fp * fn < tp * tn) ∧ (1 < (binary tn fp fn tp).theta ↔ fp * fn < tp * tn) ∧
      (0 < (binary tn fp fn tp).mccNum ↔ fp * fn < tp * tn) := by
  refine ⟨_, binary_orss tn fp fn tp h1 h2 h3 h4, ?_, ?_, ?_⟩
  · have hd : 0 < tp * tn + fp * fn := by positivity
    rw [div_pos_iff_of_pos_right hd]; exact sub_pos
  · rw [binary_theta tn fp fn tp h1 h2 h3 h4, one_lt_div (by positivity)]
  · simp only [binary]; exact sub_pos

/-- the standard bias is positive exactly when the simulated mean exceeds a positive observed mean -/
theorem biasStd_sign (eps : α) (o s : List α) (v : α) (hm : 0 < mean o) (h : biasStd eps o s = some v) :
    (0 < v ↔ mean o < mean s) := by
  unfold biasStd at h
  simp only at h
  split at h
  · cases h
  · injection h with h
    rw [← h, div_pos_iff_of_pos_right hm]; exact sub_pos

/-- ... and in floating point an over-estimating simulation never gets a negative bias, an under-estimating one never a
positive bias -/
theorem biasStd_sign_rnd {r : α → α} (hr : IsRounding r) (eps : Rnd α r) (o s : List (Rnd α r)) (v : Rnd α r)
    (hm : 0 < (mean o).val) (h : biasStd eps o s = some v) :
    ((mean o).val ≤ (mean s).val → 0 ≤ v.val) ∧ ((mean s).val ≤ (mean o).val → v.val ≤ 0) := by
  unfold biasStd at h
  simp only at h
  split at h
  · cases h
  · injection h with h
    subst h
    simp only [Rnd.div_val, Rnd.sub_val]
    constructor
    · intro hle
      exact hr.nonneg (div_nonneg (hr.nonneg (by linarith)) hm.le)
    · intro hle
      exact hr.nonpos (div_nonpos_of_nonpos_of_nonneg (hr.nonpos (by linarith)) hm.le)

end signs

/-! ### non-vacuity / sample evaluations -/

example : nse [(1:ℚ), 2, 4, 7] [1, 2, 4, 5] = 17/21 := by decide +kernel
example : ssd (mean [(1:ℚ), 2, 4, 7]) [1, 2, 4, 7] ≠ 0 := by decide +kernel
example : (confusion [0, 2, 2, 0] [0, 0, 0, 0] (inferNcat [0, 2, 2, 0] [0, 0, 0, 0])).2.2
    = [[2, 0, 0], [0, 0, 0], [2, 0, 0]] := by decide
example : ranks [(3:ℚ), 1, 3, 2] = [7/2, 1, 7/2, 2] := by decide +kernel
example : (binary (5:ℚ) 2 3 7).orss = some (29/41) := by decide +kernel
example : (binary (2:ℚ) 5 7 3).orss = some (-29/41) := by decide +kernel

example : removedRaw (fun _ : ℚ => true) some [some 1, none, some 3] [some 2, some 2, some 5]
    = ([some 1, some 3], [some 2, some 5]) := by decide +kernel
example : (removedRaw (fun _ : ℝ => true) some [some 1, none] [some 2, some 2]).1 ≠ [] := by
  simp [removedRaw, completeB, finOpt]
example : nseFull (fun _ : ℚ => true) some true [some 1, none, some 2, some 4, some 7] [some 1, some 9, some 2, some 4, some 5]
    = .value (17/21) := by decide +kernel
example : nseFull (fun _ : ℚ => true) some false [some 1, none, some 2] [some 1, some 9, some 2] = .nan := by decide +kernel
example : nseFull (fun _ : ℚ => true) some true [none, some 2] [some 1, none] = .errNoValid := by decide +kernel
example : (orient [[some (1:ℚ), some 2, some 3]]) = [[some 1], [some 2], [some 3]] := by decide +kernel
example : (hrun [.score [0, 1] [1, 1] none, .score [0, 2] [0, 0] (some 3), .setCell 0 0 0 9, .fill 5 1])[1]?
    = some (confusion [0, 2] [0, 0] 3) := by decide
example : untouched [.score [0, 1] [1, 1] none, .score [0, 2] [0, 0] (some 3), .setCell 0 0 0 9, .fill 5 1] = [1] := by decide
example : (match binaryOf [[(5:ℚ), 0], [3, 7]] with | .errZeroDiv => true | _ => false) = true := by decide +kernel
example : (match binaryOf [[(5:ℚ), 2], [3, 7]] with | .ok b => decide (b.orss = some (29/41)) | _ => false) = true := by decide +kernel
example : (match (binarySeries [0, 1, 1, 0, 1] [0, 1, 0, 1, 1] : BinRes ℚ) with | .ok b => decide (b.hitrate = 2/3) | _ => false) = true := by
  decide +kernel
example : IsRounding fixR ∧ fixR (7/2) = 3 ∧ fixR (-7/2) = -3 := ⟨fixR_isRounding, by decide +kernel, by decide +kernel⟩
/-- the coarsest rounding (to integers): NSE of [1,2,4,5] against [1,2,4,7] is computed as 1 - fix(4/22) = 1, still ≤ 1 -/
example : (nse ([⟨1⟩, ⟨2⟩, ⟨4⟩, ⟨7⟩] : List (Rnd ℚ fixR)) [⟨1⟩, ⟨2⟩, ⟨4⟩, ⟨5⟩]).val = 1 ∧
    0 < (ssd (mean ([⟨1⟩, ⟨2⟩, ⟨4⟩, ⟨7⟩] : List (Rnd ℚ fixR))) [⟨1⟩, ⟨2⟩, ⟨4⟩, ⟨7⟩]).val := by decide +kernel
example : ∃ v, (binary (2:ℚ) 5 7 3).orss = some v ∧ ¬ 0 < v := ⟨-29/41, by decide +kernel, by norm_num⟩

end HydroVerif.C04
